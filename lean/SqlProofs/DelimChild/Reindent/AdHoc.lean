import SqlProofs.DelimChild.Reindent.Trig
/-!
# SqlProofs.DelimChild.Reindent.AdHoc — the loop passes stay in front of a protected suffix (`Ops`)
-/
namespace Sql
namespace DCR
open DC

variable {u : Text → Text}

/-! ### group_identifier -/
theorem identifierLoop_ops {S : List Node} (hS : ∀ y ∈ S, imt u y [] [] Gen.group_identifier_ttypes = false) :
    ∀ (n : Nat) (ks : List Node) (pend : Option (Nat × Node)) (ks' : List Node),
      identifierLoop u n ks pend = .ok ks' → ∀ F, ks = F ++ S →
      (∀ t tok, pend = some (t, tok) → ks[t]? = some tok ∧ imt u tok [] [] Gen.group_identifier_ttypes = true) →
      Ops false false S ks ks' := by
  intro n
  induction n with
  | zero =>
    intro ks pend ks' h F _ _
    cases pend with
    | none => simp [identifierLoop] at h; subst h; exact .refl _
    | some p => simp [identifierLoop] at h
  | succ n ih =>
    intro ks pend ks' h F hk hp
    cases pend with
    | none => simp [identifierLoop] at h; subst h; exact .refl _
    | some p =>
      obtain ⟨tidx, tok⟩ := p
      obtain ⟨htok, htrig⟩ := hp tidx tok rfl
      simp only [identifierLoop] at h
      cases hg : groupTokens ks Gen.group_identifier_group_tokens0_cls tidx tidx true
          Gen.group_identifier_group_tokens0_extend with
      | error e => simp [hg] at h
      | ok ks1 =>
        simp only [hg] at h
        have hlt := idx_in_front hk hS htok htrig
        have step : Ops false false S ks ks1 := Ops.of_groupTokens hk hg (Nat.le_refl _) hlt rfl
          ⟨tidx, tok, Nat.le_refl _, Nat.le_refl _, htok,
            item_of_trig (fun x hw => trig_identifier (Or.inl hw)) (by comma_simp) htrig⟩ (by decide)
        obtain ⟨F1, hk1, _⟩ := step.suf F hk
        exact step.trans (ih _ _ _ h F1 hk1 (fun t2 tok2 hq => pend_of_nextBy _ _ hq))

/-! ### group_over -/
theorem overLoop_ops {S : List Node} (hS : ∀ y ∈ S, imt u y [] Gen.group_over_token_next_by1_m .none = false)
    (hSh : ∀ c, S.head? = some c → c.isWhitespace = false)
    (hQ : ∀ c, S.head? = some c → imt u c Gen.group_over_imt0_i [] Gen.group_over_imt0_t = false) :
    ∀ (n : Nat) (ks : List Node) (pend : Option (Nat × Node)) (ks' : List Node),
      overLoop u n ks pend = .ok ks' → ∀ F, ks = F ++ S →
      (∀ t tok, pend = some (t, tok) → ks[t]? = some tok ∧ imt u tok [] Gen.group_over_token_next_by1_m .none = true) →
      Ops false false S ks ks' := by
  intro n
  induction n with
  | zero =>
    intro ks pend ks' h F _ _
    cases pend with
    | none => simp [overLoop] at h; subst h; exact .refl _
    | some p => simp [overLoop] at h
  | succ n ih =>
    intro ks pend ks' h F hk hp
    cases pend with
    | none => simp [overLoop] at h; subst h; exact .refl _
    | some p =>
      obtain ⟨tidx, tok⟩ := p
      obtain ⟨htok, htrig⟩ := hp tidx tok rfl
      have hlt := idx_in_front hk hS htok htrig
      simp only [overLoop] at h
      cases hnx : tokenNext ks tidx with
      | none =>
        simp only [hnx] at h
        exact ih _ _ _ h F hk (fun t2 tok2 hq => pend_of_nextBy _ _ hq)
      | some q =>
        obtain ⟨nidx, next⟩ := q
        simp only [hnx] at h
        split at h
        · rename_i hcond
          cases hg : groupTokens ks Gen.group_over_group_tokens0_cls tidx nidx true
              Gen.group_over_group_tokens0_extend with
          | error e => simp [hg] at h
          | ok ks1 =>
            simp only [hg] at h
            have hn := next_in_front hk hSh hQ hlt hnx hcond
            have step : Ops false false S ks ks1 :=
              Ops.of_groupTokens hk hg (Nat.le_of_lt (tokenNext_hit hnx).1) hn rfl
                ⟨tidx, tok, Nat.le_refl _, Nat.le_of_lt (tokenNext_hit hnx).1, htok,
                  item_of_trig (fun x hw => trig_over (Or.inl hw)) (by comma_simp) htrig⟩ (by decide)
            obtain ⟨F1, hk1, _⟩ := step.suf F hk
            exact step.trans (ih _ _ _ h F1 hk1 (fun t2 tok2 hq => pend_of_nextBy _ _ hq))
        · exact ih _ _ _ h F hk (fun t2 tok2 hq => pend_of_nextBy _ _ hq)

/-! ### group_functions -/
theorem functionsLoop_ops {S : List Node}
    (hS : ∀ y ∈ S, imt u y [] [] Gen.group_functions_token_next_by1_t = false)
    (hSh : ∀ c, S.head? = some c → c.isWhitespace = false)
    (hQ : ∀ c, S.head? = some c → c.isGroup = false) :
    ∀ (n : Nat) (ks : List Node) (pend : Option (Nat × Node)) (ks' : List Node),
      functionsLoop u n ks pend = .ok ks' → ∀ F, ks = F ++ S →
      (∀ t tok, pend = some (t, tok) → ks[t]? = some tok ∧ imt u tok [] [] Gen.group_functions_token_next_by1_t = true) →
      Ops false false S ks ks' := by
  intro n
  induction n with
  | zero =>
    intro ks pend ks' h F _ _
    cases pend with
    | none => simp [functionsLoop] at h; subst h; exact .refl _
    | some p => simp [functionsLoop] at h
  | succ n ih =>
    intro ks pend ks' h F hk hp
    cases pend with
    | none => simp [functionsLoop] at h; subst h; exact .refl _
    | some p =>
      obtain ⟨tidx, tok⟩ := p
      obtain ⟨htok, htrig⟩ := hp tidx tok rfl
      have hlt := idx_in_front hk hS htok htrig
      simp only [functionsLoop] at h
      cases hnx : tokenNext ks tidx with
      | none =>
        simp only [hnx] at h
        exact ih _ _ _ h F hk (fun t2 tok2 hq => pend_of_nextBy _ _ hq)
      | some q =>
        obtain ⟨nidx, next⟩ := q
        simp only [hnx] at h
        split at h
        · rename_i hcond
          have hn : nidx < F.length :=
            next_in_front (Q := fun k => k.isInstAny Gen.group_functions_isinstance0) hk hSh
              (fun c hc => leaf_isInstAny (hQ c hc) _) hlt hnx hcond
          have hn1 := (tokenNext_hit hnx).1
          cases hox : tokenNext ks nidx with
          | none =>
            simp only [hox] at h
            split at h
            · cases h
            · rename_i ks1 hg
              have step : Ops false false S ks ks1 := Ops.of_groupTokens hk hg (by omega) (hn) rfl
                ⟨tidx, tok, Nat.le_refl _, by omega, htok, item_of_trig (fun x hw => trig_functions (Or.inl hw)) (by comma_simp) htrig⟩ (by decide)
              obtain ⟨F1, hk1, _⟩ := step.suf F hk
              exact step.trans (ih _ _ _ h F1 hk1 (fun t2 tok2 hq => pend_of_nextBy _ _ hq))
          | some q2 =>
            obtain ⟨oidx, over⟩ := q2
            simp only [hox] at h
            by_cases hov : over.isInstAny Gen.group_functions_isinstance1 = true
            · simp only [hov, ↓reduceIte] at h
              have ho : oidx < F.length :=
                next_in_front (Q := fun k => k.isInstAny Gen.group_functions_isinstance1) hk hSh
                  (fun c hc => leaf_isInstAny (hQ c hc) _) hn hox hov
              have := (tokenNext_hit hox).1
              split at h
              · cases h
              · rename_i ks1 hg
                have step : Ops false false S ks ks1 := Ops.of_groupTokens hk hg (by omega) (ho) rfl
                  ⟨tidx, tok, Nat.le_refl _, by omega, htok, item_of_trig (fun x hw => trig_functions (Or.inl hw)) (by comma_simp) htrig⟩ (by decide)
                obtain ⟨F1, hk1, _⟩ := step.suf F hk
                exact step.trans (ih _ _ _ h F1 hk1 (fun t2 tok2 hq => pend_of_nextBy _ _ hq))
            · simp only [hov, Bool.false_eq_true, ↓reduceIte] at h
              split at h
              · cases h
              · rename_i ks1 hg
                have step : Ops false false S ks ks1 := Ops.of_groupTokens hk hg (by omega) (hn) rfl
                  ⟨tidx, tok, Nat.le_refl _, by omega, htok, item_of_trig (fun x hw => trig_functions (Or.inl hw)) (by comma_simp) htrig⟩ (by decide)
                obtain ⟨F1, hk1, _⟩ := step.suf F hk
                exact step.trans (ih _ _ _ h F1 hk1 (fun t2 tok2 hq => pend_of_nextBy _ _ hq))
        · exact ih _ _ _ h F hk (fun t2 tok2 hq => pend_of_nextBy _ _ hq)

/-! ### group_aliased -/
theorem aliasedLoop_ops {S : List Node}
    (hS : ∀ y ∈ S, imt u y Gen.group_aliased_I_ALIAS [] Gen.group_aliased_token_next_by1_t = false)
    (hSh : ∀ c, S.head? = some c → c.isWhitespace = false)
    (hQ : ∀ c, S.head? = some c → c.isGroup = false) :
    ∀ (n : Nat) (ks : List Node) (pend : Option (Nat × Node)) (ks' : List Node),
      aliasedLoop u n ks pend = .ok ks' → ∀ F, ks = F ++ S →
      (∀ t tok, pend = some (t, tok) → ks[t]? = some tok ∧
        imt u tok Gen.group_aliased_I_ALIAS [] Gen.group_aliased_token_next_by1_t = true) →
      Ops false false S ks ks' := by
  intro n
  induction n with
  | zero =>
    intro ks pend ks' h F _ _
    cases pend with
    | none => simp [aliasedLoop] at h; subst h; exact .refl _
    | some p => simp [aliasedLoop] at h
  | succ n ih =>
    intro ks pend ks' h F hk hp
    cases pend with
    | none => simp [aliasedLoop] at h; subst h; exact .refl _
    | some p =>
      obtain ⟨tidx, tok⟩ := p
      obtain ⟨htok, htrig⟩ := hp tidx tok rfl
      have hlt := idx_in_front hk hS htok htrig
      simp only [aliasedLoop] at h
      cases hnx : tokenNext ks tidx with
      | none =>
        simp only [hnx] at h
        exact ih _ _ _ h F hk (fun t2 tok2 hq => pend_of_nextBy _ _ hq)
      | some q =>
        obtain ⟨nidx, next⟩ := q
        simp only [hnx] at h
        split at h
        · rename_i hcond
          cases hg : groupTokens ks Gen.group_aliased_group_tokens0_cls tidx nidx true
              Gen.group_aliased_group_tokens0_extend with
          | error e => simp [hg] at h
          | ok ks1 =>
            simp only [hg] at h
            have hn : nidx < F.length :=
              next_in_front (Q := fun k => k.isInstAny Gen.group_aliased_isinstance0) hk hSh
                (fun c hc => leaf_isInstAny (hQ c hc) _) hlt hnx hcond
            have step : Ops false false S ks ks1 :=
              Ops.of_groupTokens hk hg (Nat.le_of_lt (tokenNext_hit hnx).1) hn rfl
                ⟨tidx, tok, Nat.le_refl _, Nat.le_of_lt (tokenNext_hit hnx).1, htok,
                  item_of_trig (fun x hw => trig_aliased (Or.inl hw)) (by comma_simp) htrig⟩ (by decide)
            obtain ⟨F1, hk1, _⟩ := step.suf F hk
            exact step.trans (ih _ _ _ h F1 hk1 (fun t2 tok2 hq => pend_of_nextBy _ _ hq))
        · exact ih _ _ _ h F hk (fun t2 tok2 hq => pend_of_nextBy _ _ hq)

/-! ### group_order -/
theorem orderLoop_ops {S : List Node} (hS : ∀ y ∈ S, imt u y [] [] Gen.group_order_token_next_by1_t = false) :
    ∀ (n : Nat) (ks : List Node) (pend : Option (Nat × Node)) (ks' : List Node),
      orderLoop u n ks pend = .ok ks' → ∀ F, ks = F ++ S →
      (∀ t tok, pend = some (t, tok) → ks[t]? = some tok ∧ imt u tok [] [] Gen.group_order_token_next_by1_t = true) →
      Ops false false S ks ks' := by
  intro n
  induction n with
  | zero =>
    intro ks pend ks' h F _ _
    cases pend with
    | none => simp [orderLoop] at h; subst h; exact .refl _
    | some p => simp [orderLoop] at h
  | succ n ih =>
    intro ks pend ks' h F hk hp
    cases pend with
    | none => simp [orderLoop] at h; subst h; exact .refl _
    | some p =>
      obtain ⟨tidx, tok⟩ := p
      obtain ⟨htok, htrig⟩ := hp tidx tok rfl
      have hlt := idx_in_front hk hS htok htrig
      simp only [orderLoop] at h
      cases hpv : tokenPrev ks tidx with
      | none =>
        simp only [hpv] at h
        exact ih _ _ _ h F hk (fun t2 tok2 hq => pend_of_nextBy _ _ hq)
      | some q =>
        obtain ⟨pidx, prev⟩ := q
        simp only [hpv] at h
        split at h
        · cases hg : groupTokens ks Gen.group_order_group_tokens0_cls pidx tidx true
              Gen.group_order_group_tokens0_extend with
          | error e => simp [hg] at h
          | ok ks1 =>
            simp only [hg] at h
            have step : Ops false false S ks ks1 :=
              Ops.of_groupTokens hk hg (Nat.le_of_lt (tokenPrev_hit hpv).1) hlt rfl
                ⟨tidx, tok, Nat.le_of_lt (tokenPrev_hit hpv).1, Nat.le_refl _, htok,
                  item_of_trig (fun x hw => trig_order (Or.inl hw)) (by comma_simp) htrig⟩ (by decide)
            obtain ⟨F1, hk1, _⟩ := step.suf F hk
            exact step.trans (ih _ _ _ h F1 hk1 (fun t2 tok2 hq => pend_of_nextBy _ _ hq))
        · exact ih _ _ _ h F hk (fun t2 tok2 hq => pend_of_nextBy _ _ hq)

end DCR
end Sql
