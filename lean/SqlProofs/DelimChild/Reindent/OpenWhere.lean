import SqlProofs.DelimChild.Reindent.AdHoc
/-!
# SqlProofs.DelimChild.Reindent.OpenWhere — "no open WHERE" survives `group_over`, `group_functions` and the iterations of
`group_where`
-/
namespace Sql
namespace DCR
open DC

variable {u : Text → Text}

/-- a WHERE keyword -/
abbrev isW (u : Text → Text) (x : Node) : Bool := imt u x [] Gen.group_where_token_next_by0_m .none
/-- a keyword that ends a WHERE clause -/
abbrev isC (u : Text → Text) (x : Node) : Bool := imt u x [] Gen.group_where_token_next_by1_m .none

theorem openWhere_cons (x : Node) (rest : List Node) :
    openWhere u (x :: rest) = ((isW u x && !(rest.any (isC u))) || openWhere u rest) := rfl

theorem openWhere_suffix (X B : List Node) (h : openWhere u (X ++ B) = false) : openWhere u B = false := by
  induction X with
  | nil => exact h
  | cons x X ih =>
    rw [List.cons_append, openWhere_cons, Bool.or_eq_false_iff] at h
    exact ih h.2

/-- replacing a segment `M` by one child `g` that is not a WHERE keyword: no WHERE is opened, provided a clause end
inside `M` is made up for by one after it -/
theorem openWhere_splice (A M B : List Node) {g : Node} (h : openWhere u (A ++ M ++ B) = false) (hg : isW u g = false)
    (hC : M.any (isC u) = true → B.any (isC u) = true) : openWhere u (A ++ g :: B) = false := by
  induction A with
  | nil =>
    simp only [List.nil_append] at h ⊢
    rw [openWhere_cons, hg, Bool.false_and, Bool.false_or]
    exact openWhere_suffix M B h
  | cons x A ih =>
    simp only [List.cons_append] at h ⊢
    rw [openWhere_cons, Bool.or_eq_false_iff] at h
    rw [openWhere_cons, Bool.or_eq_false_iff]
    refine ⟨?_, ih (by simpa using h.2)⟩
    have h1 := h.1
    by_cases hw : isW u x = true
    · rw [hw] at h1 ⊢
      simp only [Bool.true_and, Bool.not_eq_false', List.append_assoc, List.any_append, Bool.or_eq_true] at h1 ⊢
      simp only [List.any_cons, Bool.or_eq_true]
      rcases h1 with h1 | h1 | h1
      · exact Or.inl h1
      · exact Or.inr (Or.inr (hC h1))
      · exact Or.inr (Or.inr h1)
    · have : isW u x = false := by simpa using hw
      rw [this]; rfl

theorem isW_grp (c : Cls) (k : List Node) : isW u (Node.grp c k) = false := by
  simp [isW, imt, Node.isInstAny, Node.matchP, Node.match]

theorem any_of_getElem {l : List Node} {P : Node → Bool} {j : Nat} {x : Node} (hx : l[j]? = some x) (hp : P x = true) :
    l.any P = true := List.any_eq_true.2 ⟨x, List.mem_of_getElem? hx, hp⟩

/-- a `group_tokens` call keeps "no open WHERE" if every clause end in the grouped range is made up for by one after it -/
theorem groupTokens_openWhere {ks ks' : List Node} {cls : Cls} {a b : Nat} {ext : Bool}
    (h : groupTokens ks cls a b true ext = .ok ks') (hab : a ≤ b) (how : openWhere u ks = false)
    (hC : (∃ j x, a ≤ j ∧ j ≤ b ∧ ks[j]? = some x ∧ isC u x = true) → ∃ j x, b < j ∧ ks[j]? = some x ∧ isC u x = true) :
    openWhere u ks' = false := by
  obtain ⟨r, hr, rfl⟩ := groupTokens_eq h
  have hshape := groupTokens'_shape hr hab
  obtain ⟨_, hinst, _⟩ := groupTokens'_at hr
  have hgrp : ∃ c k, r.2 = Node.grp c k := by
    cases hr2 : r.2 with
    | tok _ _ => rw [hr2] at hinst; simp [Node.isInst] at hinst
    | grp c k => exact ⟨c, k, rfl⟩
  obtain ⟨c, k, hck⟩ := hgrp
  have e : ks = ks.take a ++ (ks.drop a).take (b + 1 - a) ++ ks.drop (b + 1) := by
    have h1 : ks.drop a = (ks.drop a).take (b + 1 - a) ++ (ks.drop a).drop (b + 1 - a) :=
      (List.take_append_drop _ _).symm
    have h2 : (ks.drop a).drop (b + 1 - a) = ks.drop (b + 1) := by
      rw [List.drop_drop]; congr 1; omega
    rw [h2] at h1
    conv => lhs; rw [← List.take_append_drop a ks, h1]
    simp
  rw [hshape]
  rw [e] at how
  refine openWhere_splice _ _ _ how (by rw [hck]; exact isW_grp c k) ?_
  intro hany
  obtain ⟨x, hx, hcx⟩ := List.any_eq_true.1 hany
  obtain ⟨i, hi, hxi⟩ := List.getElem_of_mem hx
  simp only [List.length_take, List.length_drop] at hi
  have hxj : ks[a + i]? = some x := by
    rw [← hxi]
    simp [List.getElem_take, List.getElem_drop]
  obtain ⟨j, y, hj, hy, hcy⟩ := hC ⟨a + i, x, by omega, by omega, hxj, hcx⟩
  have : (ks.drop (b + 1))[j - (b + 1)]? = some y := by
    rw [List.getElem?_drop, show b + 1 + (j - (b + 1)) = j by omega]; exact hy
  exact any_of_getElem this hcy

end DCR
end Sql

namespace Sql
namespace DCR
open DC

variable {u : Text → Text}

/-! ### what `group_over` / `group_functions` group never ends a WHERE clause -/
theorem isC_grp (c : Cls) (k : List Node) : isC u (Node.grp c k) = false := by
  simp [isC, imt, Node.isInstAny, Node.matchP, Node.match]

theorem isC_of_tt {tt : TType} {v : Text} (h : tt ≠ T.Keyword) : isC u (Node.tok tt v) = false := by
  rw [isC, imt_m_eq]
  apply matchAny_false_of_tt
  intro p hp
  simp only [Gen.group_where_token_next_by1_m, List.mem_singleton] at hp
  subst hp
  exact fun hh => h hh.symm

theorem isC_ws {x : Node} (hw : x.isWhitespace = true) : isC u x = false := by
  cases x with
  | grp _ _ => exact isC_grp _ _
  | tok tt v =>
    obtain ⟨r, rfl⟩ := isIn_ws (by simpa [Node.isWhitespace] using hw)
    exact isC_of_tt (by simp [T.Keyword])

theorem isC_name {x : Node} (h : x.ttIn ["Name"] = true) : isC u x = false := by
  cases x with
  | grp _ _ => exact isC_grp _ _
  | tok tt v =>
    apply isC_of_tt
    intro heq
    subst heq
    simp [Node.ttIn, TType.isIn, T.Keyword, List.isPrefixOf] at h

theorem isC_of_over (hu : DelimU u) {x : Node} (h : imt u x [] Gen.group_over_token_next_by1_m .none = true) :
    isC u x = false := by
  cases x with
  | grp _ _ => exact isC_grp _ _
  | tok tt v =>
    rw [imt_m_eq] at h
    simp only [Node.matchAny, Gen.group_over_token_next_by1_m, List.any_cons, List.any_nil, Bool.or_false,
      Node.matchP, Node.match] at h
    split at h
    · cases h
    · rename_i hne
      have htt : tt = T.Keyword := by simpa [bne_iff_ne, T.Keyword] using hne
      subst htt
      have hk : (T.Keyword.isIn T.Keyword) = true := by decide
      simp only [hk, ↓reduceIte, List.map_cons, List.map_nil, List.contains_cons, List.contains_nil, Bool.or_false,
        beq_iff_eq] at h
      rw [isC, imt_m_eq, matchAny_kw_congr (d := txt "OVER") (by rw [h]; rfl)]
      exact hu.over

theorem isC_over_next {x : Node} (h : imt u x Gen.group_over_imt0_i [] Gen.group_over_imt0_t = true) :
    isC u x = false := by
  cases x with
  | grp _ _ => exact isC_grp _ _
  | tok tt v =>
    apply isC_name
    simpa [imt, Node.isInstAny, Node.isInst, Gen.group_over_imt0_t, Gen.group_over_imt0_i] using h

theorem isC_functions_trig {x : Node} (h : imt u x [] [] Gen.group_functions_token_next_by1_t = true) :
    isC u x = false := by
  apply isC_name
  simpa [imt, Node.isInstAny, Gen.group_functions_token_next_by1_t] using h

theorem isC_of_isInstAny {x : Node} {cs : List Cls} (h : x.isInstAny cs = true) : isC u x = false := by
  cases x with
  | grp _ _ => exact isC_grp _ _
  | tok _ _ => simp [Node.isInstAny, Node.isInst] at h

/-- no clause end in `[a, b]` -/
theorem noC_range {ks : List Node} {a b : Nat} (h : ∀ j x, a ≤ j → j ≤ b → ks[j]? = some x → isC u x = false) :
    (∃ j x, a ≤ j ∧ j ≤ b ∧ ks[j]? = some x ∧ isC u x = true) → ∃ j x, b < j ∧ ks[j]? = some x ∧ isC u x = true := by
  rintro ⟨j, x, h1, h2, h3, h4⟩
  rw [h j x h1 h2 h3] at h4; cases h4

theorem overLoop_openWhere (hu : DelimU u) :
    ∀ (n : Nat) (ks : List Node) (pend : Option (Nat × Node)) (ks' : List Node),
      overLoop u n ks pend = .ok ks' → openWhere u ks = false →
      (∀ t tok, pend = some (t, tok) → ks[t]? = some tok ∧ imt u tok [] Gen.group_over_token_next_by1_m .none = true) →
      openWhere u ks' = false := by
  intro n
  induction n with
  | zero =>
    intro ks pend ks' h how _
    cases pend with
    | none => simp [overLoop] at h; subst h; exact how
    | some p => simp [overLoop] at h
  | succ n ih =>
    intro ks pend ks' h how hp
    cases pend with
    | none => simp [overLoop] at h; subst h; exact how
    | some p =>
      obtain ⟨tidx, tok⟩ := p
      obtain ⟨htok, htrig⟩ := hp tidx tok rfl
      simp only [overLoop] at h
      cases hnx : tokenNext ks tidx with
      | none =>
        simp only [hnx] at h
        exact ih _ _ _ h how (fun t2 tok2 hq => pend_of_nextBy _ _ hq)
      | some q =>
        obtain ⟨nidx, next⟩ := q
        simp only [hnx] at h
        split at h
        · rename_i hcond
          cases hg : groupTokens ks Gen.group_over_group_tokens0_cls tidx nidx true
              Gen.group_over_group_tokens0_extend with
          | error e => simp [hg] at h
          | ok ks1 =>
            simp only [hg] at h
            obtain ⟨hlt, hkn, hbetween⟩ := tokenNext_hit hnx
            have how1 : openWhere u ks1 = false := by
              refine groupTokens_openWhere hg (Nat.le_of_lt hlt) how (noC_range ?_)
              intro j x h1 h2 hx
              by_cases hj : j = tidx
              · subst hj; rw [htok] at hx; cases hx; exact isC_of_over hu htrig
              · by_cases hj2 : j = nidx
                · subst hj2; rw [hkn] at hx; cases hx; exact isC_over_next hcond
                · exact isC_ws (hbetween j x (by omega) (by omega) hx)
            exact ih _ _ _ h how1 (fun t2 tok2 hq => pend_of_nextBy _ _ hq)
        · exact ih _ _ _ h how (fun t2 tok2 hq => pend_of_nextBy _ _ hq)

theorem functionsLoop_openWhere :
    ∀ (n : Nat) (ks : List Node) (pend : Option (Nat × Node)) (ks' : List Node),
      functionsLoop u n ks pend = .ok ks' → openWhere u ks = false →
      (∀ t tok, pend = some (t, tok) → ks[t]? = some tok ∧ imt u tok [] [] Gen.group_functions_token_next_by1_t = true) →
      openWhere u ks' = false := by
  intro n
  induction n with
  | zero =>
    intro ks pend ks' h how _
    cases pend with
    | none => simp [functionsLoop] at h; subst h; exact how
    | some p => simp [functionsLoop] at h
  | succ n ih =>
    intro ks pend ks' h how hp
    cases pend with
    | none => simp [functionsLoop] at h; subst h; exact how
    | some p =>
      obtain ⟨tidx, tok⟩ := p
      obtain ⟨htok, htrig⟩ := hp tidx tok rfl
      simp only [functionsLoop] at h
      cases hnx : tokenNext ks tidx with
      | none =>
        simp only [hnx] at h
        exact ih _ _ _ h how (fun t2 tok2 hq => pend_of_nextBy _ _ hq)
      | some q =>
        obtain ⟨nidx, next⟩ := q
        simp only [hnx] at h
        split at h
        · rename_i hcond
          obtain ⟨hlt, hkn, hbetween⟩ := tokenNext_hit hnx
          have base : ∀ j x, tidx ≤ j → j ≤ nidx → ks[j]? = some x → isC u x = false := by
            intro j x h1 h2 hx
            by_cases hj : j = tidx
            · subst hj; rw [htok] at hx; cases hx; exact isC_functions_trig htrig
            · by_cases hj2 : j = nidx
              · subst hj2; rw [hkn] at hx; cases hx; exact isC_of_isInstAny hcond
              · exact isC_ws (hbetween j x (by omega) (by omega) hx)
          cases hox : tokenNext ks nidx with
          | none =>
            simp only [hox] at h
            split at h
            · cases h
            · rename_i ks1 hg
              have how1 := groupTokens_openWhere hg (Nat.le_of_lt hlt) how (noC_range base)
              exact ih _ _ _ h how1 (fun t2 tok2 hq => pend_of_nextBy _ _ hq)
          | some q2 =>
            obtain ⟨oidx, over⟩ := q2
            simp only [hox] at h
            by_cases hov : over.isInstAny Gen.group_functions_isinstance1 = true
            · simp only [hov, ↓reduceIte] at h
              obtain ⟨hlt2, hko, hbetween2⟩ := tokenNext_hit hox
              split at h
              · cases h
              · rename_i ks1 hg
                have how1 : openWhere u ks1 = false := by
                  refine groupTokens_openWhere hg (by omega) how (noC_range ?_)
                  intro j x h1 h2 hx
                  by_cases hj : j ≤ nidx
                  · exact base j x h1 hj hx
                  · by_cases hj2 : j = oidx
                    · subst hj2; rw [hko] at hx; cases hx; exact isC_of_isInstAny hov
                    · exact isC_ws (hbetween2 j x (by omega) (by omega) hx)
                exact ih _ _ _ h how1 (fun t2 tok2 hq => pend_of_nextBy _ _ hq)
            · simp only [hov, Bool.false_eq_true, ↓reduceIte] at h
              split at h
              · cases h
              · rename_i ks1 hg
                have how1 := groupTokens_openWhere hg (Nat.le_of_lt hlt) how (noC_range base)
                exact ih _ _ _ h how1 (fun t2 tok2 hq => pend_of_nextBy _ _ hq)
        · exact ih _ _ _ h how (fun t2 tok2 hq => pend_of_nextBy _ _ hq)

end DCR
end Sql
