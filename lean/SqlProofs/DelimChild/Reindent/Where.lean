import SqlProofs.DelimChild.Reindent.OpenWhere
/-!
# SqlProofs.DelimChild.Reindent.Where — `group_where` stays in front of the closer

A WHERE clause runs to the child before the next clause-ending keyword, or — if there is none — to
`_groupable_tokens[-1]`: the child before the closer in a Parenthesis/SquareBrackets, the *last* child elsewhere.
Inside a Case/If/For/Begin this would take the closer; "no open WHERE" excludes it.
-/
namespace Sql
namespace DCR
open DC

variable {u : Text → Text}

theorem openWhere_witness : ∀ (ks : List Node) (t : Nat) (x : Node), openWhere u ks = false → ks[t]? = some x →
    isW u x = true → ∃ j y, t < j ∧ ks[j]? = some y ∧ isC u y = true := by
  intro ks
  induction ks with
  | nil => intro t x _ hx; simp at hx
  | cons k rest ih =>
    intro t x how hx hw
    rw [openWhere_cons, Bool.or_eq_false_iff] at how
    cases t with
    | zero =>
      simp only [List.getElem?_cons_zero, Option.some.injEq] at hx
      subst hx
      have h1 := how.1
      rw [hw] at h1
      simp only [Bool.true_and, Bool.not_eq_false'] at h1
      obtain ⟨y, hy, hcy⟩ := List.any_eq_true.1 h1
      obtain ⟨i, hi, hyi⟩ := List.getElem_of_mem hy
      exact ⟨i + 1, y, by omega, by simp [List.getElem?_eq_getElem hi, hyi], hcy⟩
    | succ t =>
      simp only [List.getElem?_cons_succ] at hx
      obtain ⟨j, y, h1, h2, h3⟩ := ih t x how.2 hx hw
      exact ⟨j + 1, y, by omega, by simpa using h2, h3⟩

theorem whereLoop_ops (c : Cls) {S : List Node}
    (hS : ∀ y ∈ S, imt u y [] Gen.group_where_token_next_by2_m .none = false)
    (hSc : ∀ y ∈ S, isC u y = false) :
    ∀ (n : Nat) (ks : List Node) (pend : Option (Nat × Node)) (ks' : List Node),
      whereLoop u c n ks pend = .ok ks' → ∀ F, ks = F ++ S →
      ((S = [] ∧ Gen.groupableInner.contains c = false) ∨
        (S.length = 1 ∧ (Gen.groupableInner.contains c = true ∨ openWhere u ks = false))) →
      (∀ t tok, pend = some (t, tok) → ks[t]? = some tok ∧ imt u tok [] Gen.group_where_token_next_by2_m .none = true) →
      Ops false false S ks ks' := by
  intro n
  induction n with
  | zero =>
    intro ks pend ks' h F _ _ _
    cases pend with
    | none => simp [whereLoop] at h; subst h; exact .refl _
    | some p => simp [whereLoop] at h
  | succ n ih =>
    intro ks pend ks' h F hk hmode hp
    cases pend with
    | none => simp [whereLoop] at h; subst h; exact .refl _
    | some p =>
      obtain ⟨tidx, tok⟩ := p
      obtain ⟨htok, htrig⟩ := hp tidx tok rfl
      have hlt := idx_in_front hk hS htok htrig
      have hlenks : ks.length = F.length + S.length := by rw [hk]; simp
      simp only [whereLoop] at h
      cases he : whereEnd u c ks tidx with
      | error e => simp [he] at h
      | ok eidx =>
        simp only [he] at h
        cases hg : groupTokens ks Gen.group_where_group_tokens0_cls tidx eidx true
            Gen.group_where_group_tokens0_extend with
        | error e => simp [hg] at h
        | ok ks1 =>
          simp only [hg] at h
          -- the end of the clause lies in front of the suffix; "no open WHERE" is kept
          have hend : tidx ≤ eidx ∧ eidx < F.length ∧
              (openWhere u ks = false → openWhere u ks1 = false) := by
            unfold whereEnd at he
            cases hnb : tokenNextBy u ks [] Gen.group_where_token_next_by1_m .none (tidx + 1) with
            | some q =>
              obtain ⟨e0, ek⟩ := q
              simp only [hnb] at he
              obtain ⟨h1, h2, h3⟩ := tokenNextBy_spec hnb
              have he0 : e0 < F.length := idx_in_front (P := isC u) hk hSc h2 h3
              rw [if_pos (by omega)] at he
              cases he
              refine ⟨by omega, by omega, fun how => ?_⟩
              refine groupTokens_openWhere hg (by omega) how (fun _ => ⟨e0, ek, by omega, h2, h3⟩)
            | none =>
              simp only [hnb] at he
              unfold groupableLastIdx at he
              rcases hmode with ⟨hS0, hin⟩ | ⟨hS1, hin⟩
              · subst hS0
                rw [hin] at he
                simp only [Bool.false_eq_true, ↓reduceIte] at he
                split at he
                · cases he
                  simp only [List.length_nil, Nat.add_zero] at hlenks
                  refine ⟨by omega, by omega, fun how => ?_⟩
                  exfalso
                  obtain ⟨j, y, hj, hy, hcy⟩ := openWhere_witness ks tidx tok how htok htrig
                  have hf : isC u y = false := tokenNextBy_none hnb j y (by omega) hy
                  rw [hf] at hcy; cases hcy
                · cases he
              · rcases hin with hin | hin
                · rw [hin] at he
                  simp only [↓reduceIte] at he
                  split at he
                  · cases he
                    refine ⟨by omega, by omega, fun how => ?_⟩
                    exfalso
                    obtain ⟨j, y, hj, hy, hcy⟩ := openWhere_witness ks tidx tok how htok htrig
                    have hf : isC u y = false := tokenNextBy_none hnb j y (by omega) hy
                    rw [hf] at hcy; cases hcy
                  · cases he
                · exfalso
                  obtain ⟨j, y, hj, hy, hcy⟩ := openWhere_witness ks tidx tok hin htok htrig
                  have hf : isC u y = false := tokenNextBy_none hnb j y (by omega) hy
                  rw [hf] at hcy; cases hcy
          obtain ⟨h1, h2, h3⟩ := hend
          have step : Ops false false S ks ks1 := Ops.of_groupTokens hk hg h1 h2 rfl
            ⟨tidx, tok, Nat.le_refl _, h1, htok, item_of_trig (fun x hw => trig_where (Or.inl hw)) (by comma_simp) htrig⟩ (by decide)
          obtain ⟨F1, hk1, _⟩ := step.suf F hk
          refine step.trans (ih _ _ _ h F1 hk1 ?_ (fun t2 tok2 hq => pend_of_nextBy _ _ hq))
          rcases hmode with hm | ⟨hS1, hin⟩
          · exact Or.inl hm
          · refine Or.inr ⟨hS1, ?_⟩
            rcases hin with hin | hin
            · exact Or.inl hin
            · exact Or.inr (h3 hin)

end DCR
end Sql
