import SqlProofs.DelimChild.Basic
import SqlModel.Grouping.ReindentSafe
/-!
# SqlProofs.DelimChild.Reindent.Inv — the tree invariant `NodeInv`/`ListInv`, its phases, and the two bridges

* `delimSafeL u m → ListInv u .w m` (what `DelimSafe` says of the tree after the seven first passes),
* `ListInv u .t m → delimShapeL u m = true` (what the filters need of the final tree).
-/
namespace Sql
namespace DCR
open DC

variable {u : Text → Text}

/-- `w`: before `group_where` (no open WHERE, closer is the last child); `s`: before `align_comments` (closer is the
last child); `t`: after it (whitespace / `Comment` groups may follow the closer); `v`: after `group_identifier_list` (there are
`IdentifierList` groups, each with two items and an item as last child) -/
inductive Ph | w | s | t | v
deriving DecidableEq

def Ph.needWhere : Ph → Bool | .w => true | _ => false
def Ph.strict : Ph → Bool | .t => false | .v => false | _ => true
/-- the invariant of the first phase implies that of the second -/
def Ph.le : Ph → Ph → Bool
  | .w, _ => true
  | .s, .w => false
  | .s, _ => true
  | .t, .t => true
  | .t, .v => true
  | .t, _ => false
  | .v, .v => true
  | .v, _ => false

structure FrameAt (u : Text → Text) (ph : Ph) (c : Cls) (mo mc : List MPat) (ks : List Node) (o cl : Node)
    (ws tail F tr : List Node) : Prop where
  lead : LeadAt (openerBad u o) o ks [] ws tail
  eq : ks = F ++ cl :: tr
  fhead : F.head? = some o
  op : o.matchAny u mo = true
  cls : cl.matchAny u mc = true
  od : IsDelim u o
  cd : IsDelim u cl
  trail : ∀ x ∈ tr, isTrailing x = true
  strict : ph.strict = true → tr = []
  last : ∀ s, lastNonWs F = some s → closerBad u cl s = false
  wh : ph.needWhere = true → Gen.groupableInner.contains c = false → openWhere u ks = false
  c2 : caseSecondOK u c ks = true

def Frame (u : Text → Text) (ph : Ph) (c : Cls) (mo mc : List MPat) (ks : List Node) : Prop :=
  ∃ o cl ws tail F tr, FrameAt u ph c mo mc ks o cl ws tail F tr

/-- the children of a node of class `c`: framed if `c` is one of the six bracket/block classes -/
def KidsInv (u : Text → Text) (ph : Ph) (c : Cls) (ks : List Node) : Prop :=
  ∀ mo mc, delimTables c = some (mo, mc) → Frame u ph c mo mc ks

/-- some child is not a whitespace leaf (`_stripws_parenthesis` empties a group of whitespace and then indexes it) -/
def hasNW (ks : List Node) : Bool := ks.any (fun k => !k.isWhitespace)

/-- the `,` punctuation leaf -/
def isComma : Node → Bool
  | .tok t v => t == T.Punctuation && v == [44]
  | .grp .. => false

/-- an item: neither whitespace nor a comma -/
def isItem (k : Node) : Bool := !(k.isWhitespace || isComma k)

/-- some child is an item (every group has one; an `IdentifierList` must: `AlignedIndentFilter`) -/
def ilOK (ks : List Node) : Bool := ks.any (fun k => !(k.isWhitespace || isComma k))

/-- at least two children are items (`ReindentFilter._process_identifierlist` inside a call pops one and indexes the rest) -/
def twoItems (ks : List Node) : Bool := decide (2 ≤ (ks.filter isItem).length)

/-- the last child is an item (… and looks at the child after every comma) -/
def lastItem (ks : List Node) : Bool :=
  match ks.getLast? with
  | some x => isItem x
  | none => false

mutual
/-- the invariant after the seven first passes: every group has an item and is not an `IdentifierList` -/
def nodeNW : Node → Bool
  | .tok _ _ => true
  | .grp c ks => ilOK ks && c != .IdentifierList && nwL ks
def nwL : List Node → Bool
  | [] => true
  | k :: ks => nodeNW k && nwL ks
end

mutual
def NodeInv (u : Text → Text) (ph : Ph) : Node → Prop
  | .tok _ _ => True
  | .grp c ks => KidsInv u ph c ks ∧ ilOK ks = true ∧
      (c = .IdentifierList → ph = .v ∧ twoItems ks = true ∧ lastItem ks = true) ∧ ListInv u ph ks
def ListInv (u : Text → Text) (ph : Ph) : List Node → Prop
  | [] => True
  | k :: ks => NodeInv u ph k ∧ ListInv u ph ks
end

theorem listInv_iff {ph : Ph} {ks : List Node} : ListInv u ph ks ↔ ∀ k ∈ ks, NodeInv u ph k := by
  induction ks with
  | nil => simp [ListInv]
  | cons k ks ih => simp [ListInv, ih]

theorem listInv_append {ph : Ph} {a b : List Node} : ListInv u ph (a ++ b) ↔ ListInv u ph a ∧ ListInv u ph b := by
  simp only [listInv_iff, List.mem_append]
  exact ⟨fun h => ⟨fun k hk => h k (Or.inl hk), fun k hk => h k (Or.inr hk)⟩,
    fun h k hk => hk.elim (h.1 k) (h.2 k)⟩

theorem nodeInv_grp {ph : Ph} {c : Cls} {ks : List Node} :
    NodeInv u ph (Node.grp c ks) ↔
      KidsInv u ph c ks ∧ ilOK ks = true ∧
        (c = .IdentifierList → ph = .v ∧ twoItems ks = true ∧ lastItem ks = true) ∧ ListInv u ph ks := by
  simp [NodeInv]

theorem kidsInv_of_not_six {ph : Ph} {c : Cls} {ks : List Node} (h : delimTables c = none) : KidsInv u ph c ks := by
  intro mo mc ht; rw [h] at ht; cases ht

/-! ### monotonicity in the phase -/
theorem FrameAt.mono {ph ph' : Ph} (hle : ph.le ph' = true) {c : Cls} {mo mc : List MPat} {ks : List Node} {o cl : Node}
    {ws tail F tr : List Node} (h : FrameAt u ph c mo mc ks o cl ws tail F tr) :
    FrameAt u ph' c mo mc ks o cl ws tail F tr := by
  refine ⟨h.lead, h.eq, h.fhead, h.op, h.cls, h.od, h.cd, h.trail, ?_, h.last, ?_, h.c2⟩
  · intro hs; apply h.strict; cases ph <;> cases ph' <;> simp_all [Ph.le, Ph.strict]
  · intro hw; apply h.wh; cases ph <;> cases ph' <;> simp_all [Ph.le, Ph.needWhere]

theorem KidsInv.mono {ph ph' : Ph} (hle : ph.le ph' = true) {c : Cls} {ks : List Node} (h : KidsInv u ph c ks) :
    KidsInv u ph' c ks := by
  intro mo mc ht
  obtain ⟨o, cl, ws, tail, F, tr, hf⟩ := h mo mc ht
  exact ⟨o, cl, ws, tail, F, tr, hf.mono hle⟩

mutual
theorem NodeInv.mono {ph ph' : Ph} (hle : ph.le ph' = true) : (n : Node) → NodeInv u ph n → NodeInv u ph' n
  | .tok _ _, _ => by simp [NodeInv]
  | .grp c ks, h => by
    rw [nodeInv_grp] at h ⊢
    refine ⟨h.1.mono hle, h.2.1, fun hc => ?_, ListInv.mono hle ks h.2.2.2⟩
    obtain ⟨h1, h2, h3⟩ := h.2.2.1 hc
    subst h1
    exact ⟨by cases ph' <;> simp_all [Ph.le], h2, h3⟩
theorem ListInv.mono {ph ph' : Ph} (hle : ph.le ph' = true) : (ks : List Node) → ListInv u ph ks → ListInv u ph' ks
  | [], _ => by simp [ListInv]
  | k :: ks, h => by
    simp only [ListInv] at h ⊢
    exact ⟨NodeInv.mono hle k h.1, ListInv.mono hle ks h.2⟩
end

/-! ### the last non-whitespace child -/
theorem lastNonWs_append (a b : List Node) : lastNonWs (a ++ b) = (lastNonWs b).or (lastNonWs a) := by
  simp [lastNonWs, firstNonWs, List.reverse_append, List.find?_append]

theorem lastNonWs_singleton (x : Node) : lastNonWs [x] = if x.isWhitespace then none else some x := by
  by_cases h : x.isWhitespace = true <;> simp [lastNonWs, firstNonWs, List.find?, h]

theorem lastNonWs_cons (x : Node) (xs : List Node) :
    lastNonWs (x :: xs) = (lastNonWs xs).or (if x.isWhitespace then none else some x) := by
  have := lastNonWs_append [x] xs
  rw [lastNonWs_singleton] at this
  simpa using this

theorem lastNonWs_nil : lastNonWs [] = none := rfl

theorem lastNonWs_ws {l : List Node} (h : ∀ x ∈ l, x.isWhitespace = true) : lastNonWs l = none := by
  induction l with
  | nil => rfl
  | cons x xs ih =>
    rw [lastNonWs_cons, ih (fun y hy => h y (List.mem_cons_of_mem _ hy)), h x List.mem_cons_self]
    rfl

theorem lastNonWs_mem {l : List Node} {s : Node} (h : lastNonWs l = some s) : s ∈ l ∧ s.isWhitespace = false := by
  unfold lastNonWs firstNonWs at h
  have h1 := List.mem_of_find?_eq_some h
  have h2 := List.find?_some h
  exact ⟨by simpa using h1, by simpa using h2⟩

theorem firstNonWs_eq_head (l : List Node) : firstNonWs l = (l.dropWhile Node.isWhitespace).head? := by
  induction l with
  | nil => rfl
  | cons x xs ih =>
    by_cases h : x.isWhitespace = true
    · simp [firstNonWs, List.find?, List.dropWhile, h] at ih ⊢; exact ih
    · simp [firstNonWs, List.find?, List.dropWhile, h]

/-! ### recursion into sub-groups changes nothing the frame of the parent looks at -/
/-- elementwise: the same child, or a group child with new children related by `S` -/
inductive EltRel (S : Cls → List Node → List Node → Prop) : List Node → List Node → Prop
  | nil : EltRel S [] []
  | same {x : Node} {xs xs' : List Node} : EltRel S xs xs' → EltRel S (x :: xs) (x :: xs')
  | sub {c : Cls} {k k' : List Node} {xs xs' : List Node} : S c k k' → EltRel S xs xs' →
      EltRel S (Node.grp c k :: xs) (Node.grp c k' :: xs')

theorem EltRel.eltMap {S} {a b : List Node} (h : EltRel S a b) : EltMap a b := by
  induction h with
  | nil => exact .nil
  | same _ ih => exact .cons (Or.inl rfl) ih
  | sub _ _ ih => exact .cons (Or.inr ⟨_, _, _, rfl, rfl⟩) ih

theorem sameTop_ws {x x' : Node} (h : SameTop x x') : x'.isWhitespace = x.isWhitespace := by
  rcases h with rfl | ⟨c, k, k', rfl, rfl⟩ <;> rfl

theorem sameTop_leaf {x x' : Node} (h : SameTop x x') (hx : x.isGroup = false) : x' = x := by
  rcases h with rfl | ⟨c, k, k', rfl, rfl⟩
  · rfl
  · cases hx

theorem sameTop_trailing {x x' : Node} (h : SameTop x x') : isTrailing x' = isTrailing x := by
  rcases h with rfl | ⟨c, k, k', rfl, rfl⟩ <;> rfl

theorem closerBad_sameTop {c x x' : Node} (h : SameTop x x') : closerBad u c x' = closerBad u c x := by
  rcases h with rfl | ⟨c', k, k', rfl, rfl⟩
  · rfl
  · rfl

theorem openerBad_sameTop {o x x' : Node} (h : SameTop x x') : openerBad u o x' = openerBad u o x := by
  rcases h with rfl | ⟨c', k, k', rfl, rfl⟩
  · rfl
  · rfl

theorem imt_m_sameTop {x x' : Node} (h : SameTop x x') (m : List MPat) : imt u x' [] m .none = imt u x [] m .none := by
  rcases h with rfl | ⟨c', k, k', rfl, rfl⟩
  · rfl
  · rfl

theorem eltMap_any_m {a b : List Node} (h : EltMap a b) (m : List MPat) :
    (b.any fun y => imt u y [] m .none) = (a.any fun y => imt u y [] m .none) := by
  induction h with
  | nil => rfl
  | cons hx _ ih => simp only [List.any_cons, ih, imt_m_sameTop hx]

theorem eltMap_openWhere {a b : List Node} (h : EltMap a b) : openWhere u b = openWhere u a := by
  induction h with
  | nil => rfl
  | cons hx hrest ih => simp only [Sql.openWhere, ih, imt_m_sameTop hx, eltMap_any_m hrest]

theorem eltMap_lastNonWs {a b : List Node} (h : EltMap a b) :
    (lastNonWs a = none ∧ lastNonWs b = none) ∨ ∃ s s', lastNonWs a = some s ∧ lastNonWs b = some s' ∧ SameTop s s' := by
  induction h with
  | nil => exact Or.inl ⟨rfl, rfl⟩
  | @cons x x' xs xs' hx _ ih =>
    rw [lastNonWs_cons, lastNonWs_cons, sameTop_ws hx]
    rcases ih with ⟨h1, h2⟩ | ⟨s, s', h1, h2, h3⟩
    · rw [h1, h2]
      by_cases hw : x.isWhitespace = true
      · left; simp [hw]
      · right; exact ⟨x, x', by simp [hw], by simp [hw], hx⟩
    · right; exact ⟨s, s', by simp [h1], by simp [h2], h3⟩

theorem eltMap_trailing {a b : List Node} (h : EltMap a b) (ha : ∀ x ∈ a, isTrailing x = true) :
    ∀ x ∈ b, isTrailing x = true := by
  induction h with
  | nil => intro x hx; cases hx
  | cons hx _ ih =>
    intro y hy
    cases hy with
    | head => rw [sameTop_trailing hx]; exact ha _ List.mem_cons_self
    | tail _ hy => exact ih (fun z hz => ha z (List.mem_cons_of_mem _ hz)) y hy

theorem eltMap_nil_left {b : List Node} (h : EltMap [] b) : b = [] := by cases h; rfl

theorem badLeaf_openerBad (hu : DelimU u) {o : Node} (ho : IsDelim u o) : BadLeaf (openerBad u o) := by
  intro c k
  obtain ⟨h1, h2, _, h4, h5, h6, h7, h8, h9⟩ := isMatch_grp_facts (u := u) c k
  simp [openerBad, prevAbsorbers, h1, h2, h4, h5, h6, h7, h8, h9, delim_prev_arrays hu ho]

theorem nomem_nil {P : Node → Prop} : ∀ x ∈ ([] : List Node), P x := fun _ h => nomatch h

theorem eltMap_head {a b : List Node} (h : EltMap a b) {x : Node} (hx : a.head? = some x) :
    ∃ x', b.head? = some x' ∧ SameTop x x' := by
  cases h with
  | nil => cases hx
  | cons hs _ => simp only [List.head?_cons, Option.some.injEq] at hx; subst hx; exact ⟨_, rfl, hs⟩

theorem matchAny_sameTop {x x' : Node} (h : SameTop x x') (ps : List MPat) : x'.matchAny u ps = x.matchAny u ps := by
  rcases h with rfl | ⟨c', k, k', rfl, rfl⟩
  · rfl
  · rfl

theorem caseSecondOK_eltMap {c : Cls} {a b : List Node} (h : EltMap a b) : caseSecondOK u c b = caseSecondOK u c a := by
  unfold caseSecondOK
  cases h with
  | nil => rfl
  | cons h1 hr =>
    cases hr with
    | nil => rfl
    | cons h2 _ => simp only [matchAny_sameTop h2]

theorem frame_eltMap {ph : Ph} {c : Cls} {mo mc : List MPat} {L L1 : List Node} (hm : EltMap L L1)
    (hf : Frame u ph c mo mc L) : Frame u ph c mo mc L1 := by
  obtain ⟨o, cl, ws, tail, F, tr, hf⟩ := hf
  have hwsl : ∀ x ∈ o :: ws, x.isGroup = false := by
    intro x hx
    cases hx with
    | head => exact hf.od.leaf
    | tail _ hx =>
      have := hf.lead.ws x hx
      cases x with
      | tok _ _ => rfl
      | grp _ _ => simp [Node.isWhitespace] at this
  -- opener side
  have e1 : L = (o :: ws) ++ tail := by have := hf.lead.eq; simpa using this
  have hm1 := hm
  rw [e1] at hm1
  obtain ⟨r1, tail', hL1, hr1, htl⟩ := hm1.split
  have hr1' : r1 = o :: ws := hr1.leaves_only hwsl
  subst hr1'
  -- closer side
  have hm2 := hm
  rw [hf.eq] at hm2
  obtain ⟨F1, r2, hL1', hF, hr2⟩ := hm2.split
  cases hr2 with
  | @cons _ cl' _ tr1 hcl htr =>
    have hcl' : cl' = cl := sameTop_leaf hcl hf.cd.leaf
    subst hcl'
    refine ⟨o, cl', ws, tail', F1, tr1, ?_, hL1', ?_, hf.op, hf.cls, hf.od, hf.cd, eltMap_trailing htr hf.trail, ?_, ?_, ?_,
      by rw [caseSecondOK_eltMap hm]; exact hf.c2⟩
    · refine ⟨by simpa using hL1, nomem_nil, hf.lead.ws, ?_⟩
      intro h' hh'
      cases htl with
      | nil => cases hh'
      | @cons x x' xs xs' hx _ =>
        simp only [List.head?_cons, Option.some.injEq] at hh'
        subst hh'
        obtain ⟨h1, h2⟩ := hf.lead.tail x rfl
        exact ⟨by rw [sameTop_ws hx]; exact h1, by rw [openerBad_sameTop hx]; exact h2⟩
    · obtain ⟨x', hx', hs⟩ := eltMap_head hF hf.fhead
      rw [hx', sameTop_leaf hs hf.od.leaf]
    · intro hs
      have := hf.strict hs
      subst this
      exact eltMap_nil_left htr
    · intro s hs
      rcases eltMap_lastNonWs hF with ⟨_, h2⟩ | ⟨s0, s', h1, h2, h3⟩
      · rw [h2] at hs; cases hs
      · rw [h2] at hs; cases hs
        rw [closerBad_sameTop h3]
        exact hf.last s0 h1
    · intro hw hc
      rw [eltMap_openWhere hm]
      exact hf.wh hw hc

theorem kidsInv_eltMap {ph : Ph} {c : Cls} {L L1 : List Node} (hm : EltMap L L1) (h : KidsInv u ph c L) :
    KidsInv u ph c L1 :=
  fun mo mc ht => frame_eltMap hm (h mo mc ht)

end DCR
end Sql
