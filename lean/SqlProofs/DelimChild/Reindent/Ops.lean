import SqlProofs.DelimChild.Reindent.Inv
/-!
# SqlProofs.DelimChild.Reindent.Ops — what the parent-level loop of a pass does to one child list, with a protected suffix

`Ops al il S ks ks'`: `ks'` comes from `ks = F ++ S` by `group_tokens` calls (class neither one of the six nor `TokenList`;
`TokenList` with `extend` for `align_comments` if `al`) and re-typings that all stay inside `F`.  Consequences, proved
once: the suffix `S` is still there, the last non-whitespace child of `F` is the same / a group / re-typed
(`LastRel`), and every child of the new list satisfies the tree invariant.
-/
namespace Sql
namespace DCR
open DC

variable {u : Text → Text}

inductive Ops (al il : Bool) (S : List Node) : List Node → List Node → Prop
  | refl (ks : List Node) : Ops al il S ks ks
  | trans {a b c : List Node} : Ops al il S a b → Ops al il S b c → Ops al il S a c
  | group {F ks : List Node} {cls : Cls} {a b : Nat} {ext : Bool} {r : List Node × Node} :
      ks = F ++ S → groupTokens' ks cls a b true ext = .ok r → a ≤ b → b < F.length → plainCls cls = true →
      (∃ j x, a ≤ j ∧ j ≤ b ∧ ks[j]? = some x ∧ isItem x = true) →
      (cls = .IdentifierList → il = true ∧ a < b ∧ (∃ x, ks[a]? = some x ∧ isItem x = true) ∧
        (∃ y, ks[b]? = some y ∧ isItem y = true)) →
      Ops al il S ks r.1
  | align {F ks : List Node} {a b : Nat} {r : List Node × Node} {c : Cls} {k : List Node} :
      al = true → ks = F ++ S → groupTokens' ks .TokenList a b true true = .ok r → a ≤ b → b < F.length →
      ks[a]? = some (Node.grp c k) → (∀ x ∈ pySlice ks (a + 1) (b + 1), isTrailing x = true) → Ops al il S ks r.1
  | retype {F ks : List Node} {i : Nat} {x : Node} :
      ks = F ++ S → ks[i]? = some x → i < F.length → x.isWhitespace = false →
      Ops al il S ks (ks.set i (x.setTType T.Operator))

theorem Ops.of_groupTokens {al il : Bool} {S F ks ks' : List Node} {cls : Cls} {a b : Nat} {ext : Bool}
    (hk : ks = F ++ S) (h : groupTokens ks cls a b true ext = .ok ks') (hab : a ≤ b) (hb : b < F.length)
    (hp : plainCls cls = true) (hw : ∃ j x, a ≤ j ∧ j ≤ b ∧ ks[j]? = some x ∧ isItem x = true)
    (hil : cls ≠ .IdentifierList) : Ops al il S ks ks' := by
  obtain ⟨r, hr, rfl⟩ := groupTokens_eq h
  exact .group hk hr hab hb hp hw (fun h0 => absurd h0 hil)

/-- the last non-whitespace child: the same, a group, or re-typed -/
def LastRel (F F' : List Node) : Prop :=
  ∀ x, lastNonWs F = some x → ∃ x', lastNonWs F' = some x' ∧ HeadRel x x'

theorem LastRel.refl (F : List Node) : LastRel F F := fun x hx => ⟨x, hx, HeadRel.refl x⟩

theorem LastRel.trans {a b c : List Node} (h1 : LastRel a b) (h2 : LastRel b c) : LastRel a c := by
  intro x hx
  obtain ⟨y, hy, hxy⟩ := h1 x hx
  obtain ⟨z, hz, hyz⟩ := h2 y hy
  exact ⟨z, hz, hxy.trans hyz⟩

/-- replacing a segment by one non-whitespace child `g` -/
theorem lastRel_splice (A M B : List Node) {g : Node} (hg : g.isWhitespace = false)
    (hrel : ∀ x, lastNonWs M = some x → HeadRel x g) (hM : lastNonWs M ≠ none ∨ g.isGroup = true) :
    LastRel (A ++ M ++ B) (A ++ g :: B) := by
  intro x hx
  rw [lastNonWs_append] at hx
  have e : A ++ g :: B = (A ++ [g]) ++ B := by simp
  rw [e, lastNonWs_append]
  cases hB : lastNonWs B with
  | some y =>
    rw [hB] at hx
    simp only [Option.some_or, Option.some.injEq] at hx
    subst hx
    exact ⟨y, by simp, HeadRel.refl _⟩
  | none =>
    rw [hB] at hx
    simp only [Option.none_or] at hx ⊢
    rw [lastNonWs_append] at hx
    rw [lastNonWs_append, lastNonWs_singleton, hg]
    refine ⟨g, by simp, ?_⟩
    cases hMl : lastNonWs M with
    | some y =>
      rw [hMl] at hx
      simp only [Option.some_or, Option.some.injEq] at hx
      subst hx
      exact hrel y hMl
    | none =>
      rcases hM with hM | hM
      · exact absurd hMl hM
      · exact Or.inr (Or.inl hM)

theorem isGroup_notWs {g : Node} (h : g.isGroup = true) : g.isWhitespace = false := by
  cases g with
  | tok _ _ => cases h
  | grp _ _ => rfl

theorem append_inj_right' {α : Type} {a b s : List α} (h : a ++ s = b ++ s) : a = b :=
  List.append_cancel_right h

/-- one `group_tokens` call inside `F` -/
theorem groupTokens'_suffix {F S : List Node} {cls : Cls} {a b : Nat} {ext : Bool} {r : List Node × Node}
    (h : groupTokens' (F ++ S) cls a b true ext = .ok r) (hab : a ≤ b) (hb : b < F.length) :
    r.1 = (F.take a ++ r.2 :: F.drop (b + 1)) ++ S ∧ r.2.isGroup = true ∧
      LastRel F (F.take a ++ r.2 :: F.drop (b + 1)) := by
  have hshape := groupTokens'_shape h hab
  obtain ⟨_, hinst, _⟩ := groupTokens'_at h
  have hgrp : r.2.isGroup = true := by
    cases hr : r.2 with
    | tok _ _ => rw [hr] at hinst; simp [Node.isInst] at hinst
    | grp _ _ => rfl
  refine ⟨?_, hgrp, ?_⟩
  · rw [hshape, List.take_append_of_le_length (by omega), List.drop_append_of_le_length (by omega)]
    simp
  · have e : F = F.take a ++ (F.drop a).take (b + 1 - a) ++ F.drop (b + 1) := by
      have h1 : F.drop a = (F.drop a).take (b + 1 - a) ++ (F.drop a).drop (b + 1 - a) :=
        (List.take_append_drop _ _).symm
      have h2 : (F.drop a).drop (b + 1 - a) = F.drop (b + 1) := by
        rw [List.drop_drop]; congr 1; omega
      rw [h2] at h1
      conv => lhs; rw [← List.take_append_drop a F, h1]
      simp
    have := lastRel_splice (F.take a) ((F.drop a).take (b + 1 - a)) (F.drop (b + 1)) (isGroup_notWs hgrp)
      (fun x _ => Or.inr (Or.inl hgrp)) (Or.inr hgrp)
    rw [← e] at this
    exact this

theorem set_suffix {F S : List Node} {i : Nat} {x : Node} (hx : (F ++ S)[i]? = some x) (hi : i < F.length)
    (hw : x.isWhitespace = false) :
    (F ++ S).set i (x.setTType T.Operator) = F.set i (x.setTType T.Operator) ++ S ∧
      LastRel F (F.set i (x.setTType T.Operator)) := by
  refine ⟨List.set_append_left _ _ hi, ?_⟩
  have hxF : F[i]? = some x := by rwa [List.getElem?_append_left hi] at hx
  have hset : F.set i (x.setTType T.Operator) = F.take i ++ x.setTType T.Operator :: F.drop (i + 1) :=
    List.set_eq_take_append_cons_drop.trans (by simp [hi])
  have e : F = F.take i ++ [x] ++ F.drop (i + 1) := by
    conv => lhs; rw [← List.take_append_drop i F]
    rw [List.drop_eq_getElem_cons hi]
    have : F[i] = x := by rw [List.getElem?_eq_getElem hi] at hxF; exact Option.some.inj hxF
    rw [this]; simp
  rw [hset]
  have := lastRel_splice (F.take i) [x] (F.drop (i + 1)) (g := x.setTType T.Operator)
    (headRel_notWs (Or.inr (Or.inr rfl)) hw)
    (fun y hy => by
      rw [lastNonWs_singleton, hw] at hy
      simp only [Bool.false_eq_true, ↓reduceIte, Option.some.injEq] at hy
      subst hy
      exact Or.inr (Or.inr rfl))
    (Or.inl (by rw [lastNonWs_singleton, hw]; simp))
  rw [← e] at this
  exact this

/-- **the suffix survives** -/
theorem Ops.suf {al il : Bool} {S ks ks' : List Node} (h : Ops al il S ks ks') :
    ∀ F, ks = F ++ S → ∃ F', ks' = F' ++ S ∧ LastRel F F' := by
  induction h with
  | refl ks => intro F hF; exact ⟨F, hF, LastRel.refl F⟩
  | trans _ _ ih1 ih2 =>
    intro F hF
    obtain ⟨F1, h1, r1⟩ := ih1 F hF
    obtain ⟨F2, h2, r2⟩ := ih2 F1 h1
    exact ⟨F2, h2, r1.trans r2⟩
  | @group F0 ks cls a b ext r hk hg hab hb _ _ _ =>
    intro F hF
    have : F = F0 := append_inj_right' (hF.symm.trans hk)
    subst this
    subst hk
    obtain ⟨h1, _, h3⟩ := groupTokens'_suffix hg hab hb
    exact ⟨_, h1, h3⟩
  | @align F0 ks a b r c k _ hk hg hab hb _ _ =>
    intro F hF
    have : F = F0 := append_inj_right' (hF.symm.trans hk)
    subst this
    subst hk
    obtain ⟨h1, _, h3⟩ := groupTokens'_suffix hg hab hb
    exact ⟨_, h1, h3⟩
  | @retype F0 ks i x hk hx hi hw =>
    intro F hF
    have : F = F0 := append_inj_right' (hF.symm.trans hk)
    subst this
    subst hk
    obtain ⟨h1, h2⟩ := set_suffix hx hi hw
    exact ⟨_, h1, h2⟩

/-- a test on children that every group passes and that survives re-typing a non-whitespace leaf to `Operator` -/
structure GoodP (P : Node → Bool) : Prop where
  grp : ∀ g : Node, g.isGroup = true → P g = true
  retype : ∀ x : Node, P x = true → x.isWhitespace = false → P (x.setTType T.Operator) = true

theorem any_splice {P : Node → Bool} (ks : List Node) (a e : Nat) {g : Node} (hg : P g = true) :
    (ks.take a ++ g :: ks.drop e).any P = true := by
  simp [hg]

theorem isGroup_of_isInst {g : Node} {cls : Cls} (h : g.isInst cls = true) : g.isGroup = true := by
  cases g with
  | tok _ _ => simp [Node.isInst] at h
  | grp _ _ => rfl

/-- the new list still has a child passing the test -/
theorem Ops.anyP {al il : Bool} {S ks ks' : List Node} (h : Ops al il S ks ks') {P : Node → Bool} (hP : GoodP P) :
    ks.any P = true → ks'.any P = true := by
  induction h with
  | refl ks => exact id
  | trans _ _ ih1 ih2 => exact fun hi => ih2 (ih1 hi)
  | group _ hg hab _ _ _ _ =>
    intro _
    obtain ⟨_, hinst, _⟩ := groupTokens'_at hg
    rw [groupTokens'_shape hg hab]
    exact any_splice _ _ _ (hP.grp _ (isGroup_of_isInst hinst))
  | align _ _ hg hab _ _ _ =>
    intro _
    obtain ⟨_, hinst, _⟩ := groupTokens'_at hg
    rw [groupTokens'_shape hg hab]
    exact any_splice _ _ _ (hP.grp _ (isGroup_of_isInst hinst))
  | @retype F ks i x _ hx _ hw =>
    intro hany
    have hlt : i < ks.length := (List.getElem?_eq_some_iff.1 hx).1
    obtain ⟨k, hk, hpk⟩ := List.any_eq_true.1 hany
    obtain ⟨j, hj, hkj⟩ := List.getElem_of_mem hk
    by_cases hji : j = i
    · subst hji
      have : x = k := by rw [List.getElem?_eq_getElem hj] at hx; rw [← hkj]; exact (Option.some.inj hx).symm
      subst this
      refine List.any_eq_true.2 ⟨x.setTType T.Operator, ?_, hP.retype x hpk hw⟩
      exact List.mem_of_getElem? (by rw [List.getElem?_set_self hlt])
    · refine List.any_eq_true.2 ⟨k, ?_, hpk⟩
      have : (ks.set i (x.setTType T.Operator))[j]? = some k := by
        rw [List.getElem?_set_ne (by omega), List.getElem?_eq_getElem hj, hkj]
      exact List.mem_of_getElem? this

theorem goodP_nw : GoodP (fun k => !k.isWhitespace) where
  grp := fun g hg => by cases g with
    | tok _ _ => cases hg
    | grp _ _ => rfl
  retype := fun x _ hw => by
    have := headRel_notWs (x := x) (Or.inr (Or.inr rfl)) hw
    simp [this]

theorem goodP_il : GoodP (fun k => !(k.isWhitespace || isComma k)) where
  grp := fun g hg => by cases g with
    | tok _ _ => cases hg
    | grp _ _ => rfl
  retype := fun x hp hw => by
    cases x with
    | grp _ _ => exact hp
    | tok tt v =>
      simp (config := { decide := true }) [Node.setTType, Node.isWhitespace, isComma, TType.isIn, T.Operator, T.Whitespace,
        T.Punctuation]

theorem Ops.hasNW {al il : Bool} {S ks ks' : List Node} (h : Ops al il S ks ks') : hasNW ks = true → hasNW ks' = true :=
  h.anyP goodP_nw

theorem isInst_notWs {g : Node} {cls : Cls} (h : g.isInst cls = true) : g.isWhitespace = false := by
  cases g with
  | tok _ _ => simp [Node.isInst] at h
  | grp _ _ => rfl

end DCR
end Sql
