import SqlProofs.DelimChild.Reindent.AdHocBase
import SqlProofs.Group.SpecShape
import SqlProofs.MatchSpec
/-!
# SqlProofs.DelimChild.Reindent.NW7 — after `group_comments` and the six matching passes every group has a non-whitespace child
-/
namespace Sql
namespace DCR
open DC

variable {u : Text → Text}

mutual
/-- the invariant of the first seven passes: every group has a non-whitespace child and is not an `IdentifierList` -/
def nodeNW7 : Node → Bool
  | .tok _ _ => true
  | .grp c ks => ilOK ks && c != .IdentifierList && nwL7 ks
def nwL7 : List Node → Bool
  | [] => true
  | k :: ks => nodeNW7 k && nwL7 ks
end

mutual
theorem nodeNW_of_7 : (n : Node) → nodeNW7 n = true → nodeNW n = true
  | .tok _ _, _ => rfl
  | .grp c ks, h => by
    simp only [nodeNW7, Bool.and_eq_true] at h
    simp only [nodeNW, Bool.and_eq_true]
    exact ⟨⟨h.1.1, h.1.2⟩, nwL_of_7 ks h.2⟩
theorem nwL_of_7 : (ks : List Node) → nwL7 ks = true → nwL ks = true
  | [], _ => rfl
  | k :: ks, h => by
    simp only [nwL7, Bool.and_eq_true] at h
    simp only [nwL, Bool.and_eq_true]
    exact ⟨nodeNW_of_7 k h.1, nwL_of_7 ks h.2⟩
end

theorem nwL7_iff {ks : List Node} : nwL7 ks = true ↔ ∀ k ∈ ks, nodeNW7 k = true := by
  induction ks with
  | nil => simp [nwL7]
  | cons k ks ih => simp [nwL7, ih]

theorem nwL7_append (a b : List Node) : nwL7 (a ++ b) = (nwL7 a && nwL7 b) := by
  induction a with
  | nil => simp [nwL7]
  | cons k a ih => simp [nwL7, ih, Bool.and_assoc]

theorem nodeNW7_grp {c : Cls} {ks : List Node} :
    nodeNW7 (Node.grp c ks) = (ilOK ks && c != .IdentifierList && nwL7 ks) := by
  simp [nodeNW7]

/-- a leaf that is an item -/
def tokItem (t : Tok) : Bool := !(t.tt.isIn T.Whitespace || (t.tt == T.Punctuation && t.val == [44]))

theorem isItem_tok (tt : TType) (v : Text) : isItem (Node.tok tt v) = tokItem ⟨tt, v⟩ := rfl

mutual
/-- an item of a tree in which every group has an item has an item leaf -/
theorem leaf_of_nodeNW : (n : Node) → nodeNW7 n = true → isItem n = true → n.leaves.any tokItem = true
  | .tok tt v, _, hw => by simpa [Node.leaves, isItem_tok] using hw
  | .grp c ks, h, _ => by
    rw [nodeNW7_grp, Bool.and_eq_true, Bool.and_eq_true] at h
    simp only [Node.leaves]
    exact leaf_of_nwL ks h.2 h.1.1
theorem leaf_of_nwL : (ks : List Node) → nwL7 ks = true → ilOK ks = true → (Node.leavesL ks).any tokItem = true
  | [], _, h => by simp [ilOK] at h
  | k :: ks, hn, h => by
    simp only [nwL7, Bool.and_eq_true] at hn
    simp only [ilOK, List.any_cons, Bool.or_eq_true] at h
    simp only [Node.leavesL, List.any_append, Bool.or_eq_true]
    rcases h with h | h
    · exact Or.inl (leaf_of_nodeNW k hn.1 h)
    · exact Or.inr (leaf_of_nwL ks hn.2 h)
end

theorem ilOK_of_leaf : ∀ (ks : List Node), (Node.leavesL ks).any tokItem = true → ilOK ks = true := by
  intro ks
  induction ks with
  | nil => intro h; simp [Node.leavesL] at h
  | cons k ks ih =>
    intro h
    simp only [Node.leavesL, List.any_append, Bool.or_eq_true] at h
    simp only [ilOK, List.any_cons, Bool.or_eq_true]
    rcases h with h | h
    · left
      cases k with
      | grp _ _ => rfl
      | tok tt v =>
        have : isItem (Node.tok tt v) = true := by rw [isItem_tok]; simpa [Node.leaves] using h
        exact this
    · right; exact ih h

/-! ### the matching passes -/
section matching
variable {cls : Cls} {mOpen mClose : List MPat}

theorem shape_nw (hcls : cls ≠ .IdentifierList) (hoc : ∀ o, isOpenTok u cls mOpen o = true → isComma o = false)
    {ts : List Node} (hts : nwL7 ts = true) {g : Node}
    (h : Shape (isOpenTok u cls mOpen) (isCloseTok u cls mOpen mClose) cls ts g) : nodeNW7 g = true := by
  induction h with
  | old hk => exact nwL7_iff.1 hts _ hk
  | @new o c mid ho hc hoo _ _ ih =>
    rw [nodeNW7_grp, Bool.and_eq_true, Bool.and_eq_true]
    refine ⟨⟨?_, by simpa using hcls⟩, ?_⟩
    · have h1 : o.isWhitespace = false := by
        simp only [isOpenTok, Bool.and_eq_true, Bool.not_eq_true'] at hoo
        exact hoo.1.1
      simp [ilOK, h1, hoc o hoo]
    · rw [nwL7_iff]
      intro k hk
      simp only [List.mem_cons, List.mem_append, List.not_mem_nil, or_false] at hk
      rcases hk with rfl | hk | rfl
      · exact nwL7_iff.1 hts _ ho
      · exact ih k hk
      · exact nwL7_iff.1 hts _ hc

theorem specMatch_nw (hcls : cls ≠ .IdentifierList) (hoc : ∀ o, isOpenTok u cls mOpen o = true → isComma o = false)
    {ts : List Node} (hts : nwL7 ts = true) :
    nwL7 (specMatch (isOpenTok u cls mOpen) (isCloseTok u cls mOpen mClose) cls ts) = true := by
  rw [nwL7_iff]
  intro g hg
  exact shape_nw hcls hoc hts (specMatch_shape hg)

theorem specMatch_ilOK {ts : List Node} (hts : nwL7 ts = true) (h : ilOK ts = true) :
    ilOK (specMatch (isOpenTok u cls mOpen) (isCloseTok u cls mOpen mClose) cls ts) = true := by
  apply ilOK_of_leaf
  rw [specMatch_leaves]
  exact leaf_of_nwL ts hts h

mutual
theorem specRecNode_nw (hcls : cls ≠ .IdentifierList) (hoc : ∀ o, isOpenTok u cls mOpen o = true → isComma o = false) :
    (k : Node) → nodeNW7 k = true →
    nodeNW7 (specRecNode (isOpenTok u cls mOpen) (isCloseTok u cls mOpen mClose) cls k) = true ∧
    isItem (specRecNode (isOpenTok u cls mOpen) (isCloseTok u cls mOpen mClose) cls k) = isItem k
  | .tok tt v, _ => by simp [specRecNode, nodeNW7]
  | .grp c ks, h => by
    simp only [specRecNode]
    split
    · exact ⟨h, rfl⟩
    · refine ⟨?_, rfl⟩
      rw [nodeNW7_grp, Bool.and_eq_true, Bool.and_eq_true] at h ⊢
      obtain ⟨h1, h2⟩ := specRecList_nw hcls hoc ks h.2
      exact ⟨⟨specMatch_ilOK h1 (by rw [h2]; exact h.1.1), h.1.2⟩, specMatch_nw hcls hoc h1⟩
theorem specRecList_nw (hcls : cls ≠ .IdentifierList) (hoc : ∀ o, isOpenTok u cls mOpen o = true → isComma o = false) :
    (ks : List Node) → nwL7 ks = true →
    nwL7 (specRecList (isOpenTok u cls mOpen) (isCloseTok u cls mOpen mClose) cls ks) = true ∧
    ilOK (specRecList (isOpenTok u cls mOpen) (isCloseTok u cls mOpen mClose) cls ks) = ilOK ks
  | [], _ => by simp [specRecList, nwL7]
  | k :: ks, h => by
    simp only [nwL7, Bool.and_eq_true] at h
    obtain ⟨h1, h2⟩ := specRecNode_nw hcls hoc k h.1
    obtain ⟨h3, h4⟩ := specRecList_nw hcls hoc ks h.2
    refine ⟨by simp [specRecList, nwL7, h1, h3], ?_⟩
    simp only [ilOK] at h4 ⊢
    simp only [isItem] at h2
    simp only [specRecList, List.any_cons, h2, h4]
end

theorem groupMatching_nw (hcls : cls ≠ .IdentifierList) (hoc : ∀ o, isOpenTok u cls mOpen o = true → isComma o = false)
    {fuel : Nat} {ks ks' : List Node}
    (h : groupMatching u cls mOpen mClose fuel ks = .ok ks') (hn : nwL7 ks = true) : nwL7 ks' = true := by
  rw [groupMatching_eq_spec fuel ks ks' h, specMatchRec]
  exact specMatch_nw hcls hoc (specRecList_nw hcls hoc ks hn).1

end matching

/-! ### a `group_tokens` call whose range holds a non-whitespace child -/
theorem groupTokens'_nwL {ks : List Node} {cls : Cls} {a b : Nat} {ext : Bool} {r : List Node × Node}
    (h : groupTokens' ks cls a b true ext = .ok r) (hcls : cls ≠ .IdentifierList)
    (hw : ∃ j x, a ≤ j ∧ j ≤ b ∧ ks[j]? = some x ∧ isItem x = true) (hn : nwL7 ks = true) :
    nwL7 r.1 = true := by
  have hmem := nwL7_iff.1 hn
  have hsl : ∀ a e, nwL7 (pySlice ks a e) = true := fun a e => nwL7_iff.2 fun k hk => hmem k (mem_pySlice hk)
  have hsp : ∀ (a e : Nat) (g : Node), nodeNW7 g = true → nwL7 (ks.take a ++ g :: ks.drop e) = true := by
    intro a e g hg
    rw [nwL7_iff]
    intro k hk
    simp only [List.mem_append, List.mem_cons] at hk
    rcases hk with hk | rfl | hk
    · exact hmem k (List.mem_of_mem_take hk)
    · exact hg
    · exact hmem k (List.mem_of_mem_drop hk)
  have hc := groupTokens'_cases h
  simp only [↓reduceIte] at hc
  rcases hc with ⟨c, kids, _, hst, _, rfl⟩ | ⟨_, _, rfl⟩
  · have hk := hmem _ (List.mem_of_getElem? hst)
    rw [nodeNW7_grp, Bool.and_eq_true, Bool.and_eq_true] at hk
    refine hsp _ _ _ ?_
    rw [nodeNW7_grp, Bool.and_eq_true, Bool.and_eq_true, nwL7_append, Bool.and_eq_true]
    exact ⟨⟨ilOK_append_left _ hk.1.1, hk.1.2⟩, hk.2, hsl _ _⟩
  · obtain ⟨j, x, h1, h2, hx, hxw⟩ := hw
    refine hsp _ _ _ ?_
    rw [nodeNW7_grp, Bool.and_eq_true, Bool.and_eq_true]
    exact ⟨⟨ilOK_of_mem (mem_pySlice_of_idx h1 (Nat.lt_succ_of_le h2) hx) hxw, by simpa using hcls⟩, hsl _ _⟩

/-! ### group_comments -/
theorem comment_item {x : Node} (h : imt u x [] [] Gen.group_comments_imt0_t = true) : isItem x = true :=
  item_of_trig (P := fun x => imt u x [] [] Gen.group_comments_imt0_t) (fun x hw => (ws_not_comment (u := u) hw).1)
    (by comma_simp) h

theorem commentsLoop_nw : ∀ (n : Nat) (ks : List Node) (pend : Option (Nat × Node)) (ks' : List Node),
    commentsLoop u n ks pend = .ok ks' → nwL7 ks = true →
    (∀ t tok, pend = some (t, tok) → ks[t]? = some tok ∧ imt u tok [] [] Gen.group_comments_imt0_t = true) →
    nwL7 ks' = true := by
  intro n
  induction n with
  | zero =>
    intro ks pend ks' h hn _
    cases pend with
    | none => simp [commentsLoop] at h; subst h; exact hn
    | some p => simp [commentsLoop] at h
  | succ n ih =>
    intro ks pend ks' h hn hp
    cases pend with
    | none => simp [commentsLoop] at h; subst h; exact hn
    | some p =>
      obtain ⟨t, tok⟩ := p
      obtain ⟨htok, hcm⟩ := hp t tok rfl
      simp only [commentsLoop] at h
      generalize hmf : tokenMatchingFwd ks _ t = mres at h
      cases mres with
      | none => exact ih _ _ _ h hn (fun t2 tok2 hq => pend_of_nextBy _ _ hq)
      | some q =>
        obtain ⟨eidx, ek⟩ := q
        simp only at h
        obtain ⟨h1, h2, h3, _⟩ := tokenMatchingFwd_hit hmf
        have hne : eidx ≠ t := by
          intro heq; subst heq
          rw [htok] at h2; cases h2
          simp [hcm] at h3
        cases hpv : tokenPrev ks eidx false with
        | none => simp [hpv] at h
        | some q2 =>
          obtain ⟨pe, pk⟩ := q2
          simp only [hpv] at h
          have hlen : eidx < ks.length := (List.getElem?_eq_some_iff.1 h2).1
          have hpe : pe + 1 = eidx := tokenPrev_noskip hpv (by omega) (by omega)
          cases hg : groupTokens ks Gen.group_comments_group_tokens0_cls t pe true
              Gen.group_comments_group_tokens0_extend with
          | error e => simp [hg] at h
          | ok ks1 =>
            simp only [hg] at h
            obtain ⟨r, hr, rfl⟩ := groupTokens_eq hg
            have hn1 := groupTokens'_nwL hr (by decide) ⟨t, tok, Nat.le_refl _, by omega, htok, comment_item hcm⟩ hn
            exact ih _ _ _ h hn1 (fun t2 tok2 hq => pend_of_nextBy _ _ hq)

end DCR
end Sql

namespace Sql
namespace DCR
open DC

variable {u : Text → Text}

theorem flat_leaves (st : List Tok) : ∀ x ∈ flatStatement st, x.isGroup = false := by
  intro x hx
  simp only [flatStatement, List.mem_map] at hx
  obtain ⟨t, _, rfl⟩ := hx
  rfl

theorem nwL7_of_leaves_only {ks : List Node} (h : ∀ x ∈ ks, x.isGroup = false) : nwL7 ks = true := by
  rw [nwL7_iff]
  intro k hk
  have := h k hk
  cases k with
  | tok _ _ => rfl
  | grp _ _ => cases this

theorem isDelim_notComma {x : Node} (h : IsDelim u x) : isComma x = false := by
  cases h with
  | punct hp =>
    simp only [List.mem_cons, List.not_mem_nil, or_false] at hp
    rcases hp with h1 | h1 | h1 | h1 <;> subst h1 <;> simp (config := { decide := true }) [isComma]
  | kw _ _ => simp (config := { decide := true }) [isComma, T.Keyword, T.Punctuation]

theorem matchingPassOf_nw (c : Cls) {fuel : Nat} {c' : Cls} {L L' : List Node} (h : matchingPassOf u c fuel c' L = .ok L')
    (hn : nwL7 L = true) : nwL7 L' = true := by
  unfold matchingPassOf at h
  cases ht : matchingTables c with
  | none => simp [ht, unknownPass] at h
  | some p =>
    obtain ⟨o, cl⟩ := p
    simp only [ht] at h
    have hcls : c ≠ .IdentifierList := by
      intro hc; subst hc; simp [matchingTables] at ht
    refine groupMatching_nw hcls ?_ h hn
    intro x hx
    obtain ⟨tt, v, rfl, hm⟩ := isOpenTok_leaf hx
    exact isDelim_notComma (isDelim_of_matchAny (u := u) (c := c) (mo := o) (mc := cl) ht (Or.inl hm))

theorem name_comments : passByName u "group_comments" = recursePass [.Comment] (groupCommentsBody u) :=
  passByName_comments_eq
theorem name_brackets : passByName u "group_brackets" = matchingPassOf u .SquareBrackets := by
  unfold passByName; simp (config := { decide := true }); rfl
theorem name_parenthesis : passByName u "group_parenthesis" = matchingPassOf u .Parenthesis := by
  unfold passByName; simp (config := { decide := true }); rfl
theorem name_case : passByName u "group_case" = matchingPassOf u .Case := by
  unfold passByName; simp (config := { decide := true }); rfl
theorem name_if : passByName u "group_if" = matchingPassOf u .If := by
  unfold passByName; simp (config := { decide := true }); rfl
theorem name_for : passByName u "group_for" = matchingPassOf u .For := by
  unfold passByName; simp (config := { decide := true }); rfl
theorem name_begin : passByName u "group_begin" = matchingPassOf u .Begin := by
  unfold passByName; simp (config := { decide := true }); rfl

/-- **after the first seven passes every group has a non-whitespace child** -/
theorem take7_nw {fuel : Nat} {st : List Tok} {m7 : List Node}
    (h : runPasses u fuel .Statement (Gen.passOrder.take 7) (flatStatement st) = .ok m7) : nwL7 m7 = true := by
  have e : Gen.passOrder.take 7 = ["group_comments", "group_brackets", "group_parenthesis", "group_case", "group_if",
      "group_for", "group_begin"] := by decide
  rw [e] at h
  simp only [runPasses] at h
  -- group_comments on a flat list: no recursion, the body
  cases h0 : passByName u "group_comments" fuel .Statement (flatStatement st) with
  | error e => simp [h0] at h
  | ok m1 =>
    simp only [h0] at h
    have hn1 : nwL7 m1 = true := by
      rw [name_comments] at h0
      cases fuel with
      | zero => simp [recursePass] at h0
      | succ n =>
        simp only [recursePass] at h0
        cases hm : mapGroups (fun k => !k.isInstAny [.Comment]) (recursePass [.Comment] (groupCommentsBody u) n)
            (flatStatement st) with
        | error e => simp [hm] at h0
        | ok L1 =>
          simp only [hm] at h0
          have hL1 : L1 = flatStatement st := mapGroups_leaves_only _ _ hm (flat_leaves st)
          subst hL1
          unfold groupCommentsBody at h0
          exact commentsLoop_nw _ _ _ _ h0 (nwL7_of_leaves_only (flat_leaves st))
            (fun t2 tok2 hq => pend_of_nextBy _ _ hq)
    cases h1 : passByName u "group_brackets" fuel .Statement m1 with
    | error e => simp [h1] at h
    | ok m2 =>
      simp only [h1] at h
      rw [name_brackets] at h1
      have hn2 := matchingPassOf_nw _ h1 hn1
      cases h2 : passByName u "group_parenthesis" fuel .Statement m2 with
      | error e => simp [h2] at h
      | ok m3 =>
        simp only [h2] at h
        rw [name_parenthesis] at h2
        have hn3 := matchingPassOf_nw _ h2 hn2
        cases h3 : passByName u "group_case" fuel .Statement m3 with
        | error e => simp [h3] at h
        | ok m4 =>
          simp only [h3] at h
          rw [name_case] at h3
          have hn4 := matchingPassOf_nw _ h3 hn3
          cases h4 : passByName u "group_if" fuel .Statement m4 with
          | error e => simp [h4] at h
          | ok m5 =>
            simp only [h4] at h
            rw [name_if] at h4
            have hn5 := matchingPassOf_nw _ h4 hn4
            cases h5 : passByName u "group_for" fuel .Statement m5 with
            | error e => simp [h5] at h
            | ok m6 =>
              simp only [h5] at h
              rw [name_for] at h5
              have hn6 := matchingPassOf_nw _ h5 hn5
              cases h6 : passByName u "group_begin" fuel .Statement m6 with
              | error e => simp [h6] at h
              | ok m7' =>
                simp only [h6, Except.ok.injEq] at h
                subst h
                rw [name_begin] at h6
                exact matchingPassOf_nw _ h6 hn6

theorem take7_nwL {fuel : Nat} {st : List Tok} {m7 : List Node}
    (h : runPasses u fuel .Statement (Gen.passOrder.take 7) (flatStatement st) = .ok m7) : nwL m7 = true :=
  nwL_of_7 m7 (take7_nw h)

end DCR
end Sql
