import SqlProofs.DelimChild.Reindent.Level
/-!
# SqlProofs.DelimChild.Reindent.Driver — the parent-level loop of `_group` never reaches into a protected suffix

`L = F ++ S`.  If no child of `S` is a match, the first child of `S` is not whitespace, and the last non-whitespace
child of `F` cannot take the first child of `S` as its `next_` (`NoTake`), then every `group_tokens` call of the loop
stays inside `F`: `Ops false S L result`.  Uses the tail alignment `Al` of `Group/LeadDriver.lean` (no head alignment;
`group_operator`, whose `post` re-types `tlist[tidx]`, brings its own invariant `J` that says this is the matched token).
-/
namespace Sql
namespace DCR
open DC

/-- one iteration either leaves the list alone or groups after a successful `post` -/
theorem drvStep_cases {cfg : DrvCfg} {st st' : DrvSt} {idx : Nat} {token : Node}
    (h : drvStep cfg st idx token = .ok st') :
    (st'.cur = st.cur ∧ st'.off = st.off ∧
      (st'.prev = st.prev ∨ (0 ≤ (idx : Int) - st.off ∧ token.isWhitespace = false ∧
        st'.prev = some (((idx : Int) - st.off).toNat, token)))) ∨
    (0 ≤ (idx : Int) - st.off ∧ token.isWhitespace = false ∧ cfg.isMatch token = true ∧
      ∃ (pidx : Nat) (prev : Node) (cur1 : List Node) (fromIdx toIdx : Nat) (grp : Node),
        st.prev = some (pidx, prev) ∧ st'.off = st.off + ((toIdx : Int) - (fromIdx : Int)) ∧
        st'.prev = some (fromIdx, grp) ∧ cfg.validPrev prev = true ∧
        cfg.validNext ((tokenNext st.cur ((idx : Int) - st.off).toNat).map (·.2)) = true ∧
        cfg.post st.cur pidx ((idx : Int) - st.off).toNat ((tokenNext st.cur ((idx : Int) - st.off).toNat).map (·.1)) =
          .ok (cur1, fromIdx, toIdx) ∧
        groupTokens' cur1 cfg.cls fromIdx toIdx true cfg.extend = .ok (st'.cur, grp)) := by
  unfold drvStep at h
  split at h
  · cases h; exact Or.inl ⟨rfl, rfl, Or.inl rfl⟩
  · rename_i hneg
    simp only at h
    have hnn : 0 ≤ (idx : Int) - st.off := by omega
    split at h
    · cases h; exact Or.inl ⟨rfl, rfl, Or.inl rfl⟩
    · rename_i hws
      have hws' : token.isWhitespace = false := by simpa using hws
      split at h
      · rename_i hmatch
        cases hpv : st.prev with
        | none => simp only [hpv] at h; cases h; exact Or.inl ⟨rfl, rfl, Or.inr ⟨hnn, hws', rfl⟩⟩
        | some q =>
          obtain ⟨pidx, prev⟩ := q
          simp only [hpv] at h
          split at h
          · rename_i hvalid
            simp only [Bool.and_eq_true] at hvalid
            cases hpost : cfg.post st.cur pidx ((idx : Int) - st.off).toNat
                (Option.map (·.1) (tokenNext st.cur ((idx : Int) - st.off).toNat)) with
            | error e => simp [hpost] at h
            | ok r =>
              obtain ⟨cur1, fromIdx, toIdx⟩ := r
              simp only [hpost] at h
              cases hgt : groupTokens' cur1 cfg.cls fromIdx toIdx true cfg.extend with
              | error e => simp [hgt] at h
              | ok r2 =>
                obtain ⟨cur2, grp⟩ := r2
                simp only [hgt, Except.ok.injEq] at h
                subst h
                refine Or.inr ⟨hnn, hws', hmatch, pidx, prev, cur1, fromIdx, toIdx, grp, rfl, rfl, rfl, hvalid.1,
                  hvalid.2, hpost, hgt⟩
          · cases h; exact Or.inl ⟨rfl, rfl, Or.inr ⟨hnn, hws', rfl⟩⟩
      · cases h; exact Or.inl ⟨rfl, rfl, Or.inr ⟨hnn, hws', rfl⟩⟩

theorem drvLoop_nomatch_cur {cfg : DrvCfg} : ∀ (snap : List Node) (idx : Nat) (st st' : DrvSt),
    (∀ x ∈ snap, x.isWhitespace = true ∨ cfg.isMatch x = false) → drvLoop cfg snap idx st = .ok st' →
      st'.cur = st.cur := by
  intro snap
  induction snap with
  | nil => intro idx st st' _ h; simp [drvLoop] at h; subst h; rfl
  | cons token tl ih =>
    intro idx st st' hm h
    simp only [drvLoop] at h
    cases hs : drvStep cfg st idx token with
    | error e => simp [hs] at h
    | ok st1 =>
      simp only [hs] at h
      have h1 := ih _ _ _ (fun x hx => hm x (List.mem_cons_of_mem _ hx)) h
      rcases drvStep_cases hs with ⟨h2, _, _⟩ | ⟨_, hnw, hmatch, _⟩
      · rw [h1, h2]
      · rcases hm token List.mem_cons_self with h3 | h3
        · rw [h3] at hnw; cases hnw
        · rw [h3] at hmatch; cases hmatch

/-- the matched token `x` right before the first child `c` of the suffix does not take it as `next_` -/
def NoTake (cfg : DrvCfg) (x c : Node) : Prop :=
  cfg.isMatch x = false ∨ cfg.validNext (some c) = false ∨
    (∀ cur p t n r, cfg.post cur p t (some n) = .ok r → cur[n]? = some c → r.2.2 = t)

/-- `post` returns the list itself, or the list with the (non-whitespace) child at `tidx` re-typed -/
def PostKeeps (cfg : DrvCfg) (J : List Node → Nat → DrvSt → Prop) : Prop :=
  ∀ token tl idx st, J (token :: tl) idx st → 0 ≤ (idx : Int) - st.off → cfg.isMatch token = true →
    ∀ p n r, cfg.post st.cur p ((idx : Int) - st.off).toNat n = .ok r →
      r.1 = st.cur ∨ ∃ x, st.cur[((idx : Int) - st.off).toNat]? = some x ∧ x.isWhitespace = false ∧
        r.1 = st.cur.set ((idx : Int) - st.off).toNat (x.setTType T.Operator)

theorem al_init (L : List Node) : Al 0 L 0 (drvInit L) 0 := by
  refine ⟨by simp, by simp [drvInit], by simp [drvInit], ?_, ?_, Nat.zero_le _⟩
  · intro pidx p hpp; simp [drvInit] at hpp
  · intro hne
    simp only [drvInit, Int.natCast_zero, Int.add_zero, Int.sub_zero, Int.toNat_zero]
    exact List.length_pos_iff.2 hne

/-- head alignment, as much as is needed: the first non-whitespace element of the rest of the snapshot sits at its
`tidx` in the list — itself, or the group that has absorbed it as `next_` -/
def HN (snap : List Node) (idx : Nat) (st : DrvSt) : Prop :=
  ∀ j x, (∀ y ∈ snap.take j, y.isWhitespace = true) → snap[j]? = some x → x.isWhitespace = false →
    st.off ≤ (idx : Int) + (j : Int) ∧
      ∃ y, st.cur[((idx : Int) + (j : Int) - st.off).toNat]? = some y ∧ (y = x ∨ y.isGroup = true)

/-- … and `prev_` sits at `pidx` — itself, or the group that has absorbed it -/
def HP (st : DrvSt) : Prop :=
  ∀ pidx p, st.prev = some (pidx, p) → ∃ y, st.cur[pidx]? = some y ∧ (y = p ∨ y.isGroup = true)

theorem hn_init (L : List Node) : HN L 0 (drvInit L) := by
  intro j x _ hx hw
  simp only [drvInit, Int.natCast_zero, Int.zero_add, Int.sub_zero, Int.toNat_natCast]
  exact ⟨by omega, x, hx, Or.inl rfl⟩

theorem hp_init (L : List Node) : HP (drvInit L) := by
  intro pidx p h; simp [drvInit] at h

theorem firstNW_unique {l : List Node} {i j : Nat} {x y : Node} (hi : ∀ z ∈ l.take i, z.isWhitespace = true)
    (hx : l[i]? = some x) (hxw : x.isWhitespace = false) (hj : ∀ z ∈ l.take j, z.isWhitespace = true)
    (hy : l[j]? = some y) (hyw : y.isWhitespace = false) : i = j := by
  have key : ∀ (a b : Nat) (p q : Node), (∀ z ∈ l.take b, z.isWhitespace = true) → l[a]? = some p →
      p.isWhitespace = false → ¬ a < b := by
    intro a b p q hb hp hpw hlt
    have : p ∈ l.take b := by
      have : (l.take b)[a]? = some p := by rw [List.getElem?_take]; simp [hlt, hp]
      exact List.mem_of_getElem? this
    rw [hb p this] at hpw; cases hpw
  have h1 := key i j x y hj hx hxw
  have h2 := key j i y x hi hy hyw
  omega

theorem isItem_grp {y : Node} (h : y.isGroup = true) : isItem y = true := by
  cases y with
  | tok _ _ => cases h
  | grp _ _ => rfl

theorem isItem_of {x : Node} (hw : x.isWhitespace = false) (hc : isComma x = false) : isItem x = true := by
  simp [isItem, hw, hc]

theorem isItem_retype {x : Node} (hw : x.isWhitespace = false) : isItem (x.setTType T.Operator) = true := by
  cases x with
  | grp _ _ => rfl
  | tok tt v =>
    simp (config := { decide := true }) [isItem, Node.setTType, Node.isWhitespace, isComma, TType.isIn, T.Operator,
      T.Whitespace, T.Punctuation]

/-- what the IdentifierList configuration must satisfy: `post` changes nothing and groups `[pidx, nidx]`, valid
neighbours are items -/
structure ILCfg (cfg : DrvCfg) : Prop where
  post : ∀ cur p t n r, cfg.post cur p t n = .ok r → r.1 = cur ∧ r.2.1 = p ∧ ∃ n', n = some n' ∧ r.2.2 = n'
  next : ∀ x, cfg.validNext (some x) = true → isItem x = true
  prev : ∀ x, cfg.validPrev x = true → isItem x = true

theorem drvLoop_ops_gen {cfg : DrvCfg} (hp : PostAl3 cfg) (hcls : plainCls cfg.cls = true)
    {J : List Node → Nat → DrvSt → Prop}
    (hJ : ∀ token tl idx st st', J (token :: tl) idx st → drvStep cfg st idx token = .ok st' → J tl (idx + 1) st')
    (hpk : PostKeeps cfg J) {S F : List Node}
    (hS : ∀ x ∈ S, x.isWhitespace = true ∨ cfg.isMatch x = false) (hSh : ∀ c, S.head? = some c → c.isWhitespace = false)
    (hclose : ∀ c, S.head? = some c → ∀ x, lastNonWs F = some x → NoTake cfg x c)
    (hm : cfg.cls ≠ .IdentifierList → ∀ x, cfg.isMatch x = true → isComma x = false)
    (hil : cfg.cls = .IdentifierList → ILCfg cfg) {il : Bool} (hilb : cfg.cls = .IdentifierList → il = true) :
    ∀ (R V : List Node) (idx : Nat) (st st' : DrvSt) (m : Nat), F = V ++ R → Al 0 (R ++ S) idx st m →
      PrefRel 0 (F ++ S) st.cur → J (R ++ S) idx st → HN (R ++ S) idx st → HP st → Ops false il S (F ++ S) st.cur →
      drvLoop cfg (R ++ S) idx st = .ok st' → Ops false il S (F ++ S) st'.cur := by
  intro R
  induction R with
  | nil =>
    intro V idx st st' m _ _ _ _ _ _ hops h
    simp only [List.nil_append] at h
    rw [drvLoop_nomatch_cur _ _ _ _ hS h]
    exact hops
  | cons token R' ih =>
    intro V idx st st' m hF hal hrel hj hhn hhp hops h
    simp only [List.cons_append, drvLoop] at h
    cases hs : drvStep cfg st idx token with
    | error e => simp [hs] at h
    | ok st1 =>
      simp only [hs] at h
      have hal' : Al 0 (token :: (R' ++ S)) idx st m := by simpa using hal
      have hhn' : HN (token :: (R' ++ S)) idx st := by simpa using hhn
      obtain ⟨hrel1, ⟨m1, hal1⟩, _, _⟩ := drvStep_lead hp hrel hal'
        (fun pidx p _ => Or.inl (Nat.zero_le _)) hs
      have hj1 := hJ token (R' ++ S) idx st st1 (by simpa using hj) hs
      suffices hboth : Ops false il S (F ++ S) st1.cur ∧ HN (R' ++ S) (idx + 1) st1 ∧ HP st1 from
        ih (V ++ [token]) (idx + 1) st1 st' m1 (by rw [hF]; simp) hal1 hrel1 hj1 hboth.2.1 hboth.2.2 hboth.1 h
      rcases drvStep_cases hs with ⟨hsame, hoffs, hprev⟩ |
        ⟨hnn, hnw, hmatch, pidx, prev, cur1, fromIdx, toIdx, grp, hpv, hoff1, hprev1, hvprev, hvalid, hpost, hgt⟩
      · refine ⟨by rw [hsame]; exact hops, ?_, ?_⟩
        · intro j x hws hx hxw
          rw [hsame, hoffs]
          by_cases htw : token.isWhitespace = true
          · have := hhn' (j + 1) x (by
              intro y hy
              simp only [List.take_succ_cons, List.mem_cons] at hy
              rcases hy with rfl | hy
              · exact htw
              · exact hws y hy) (by simpa using hx) hxw
            obtain ⟨h1, y, hy, hyw⟩ := this
            refine ⟨by push_cast at h1 ⊢; omega, y, ?_, hyw⟩
            have e : ((idx + 1 : Nat) : Int) + (j : Int) - st.off = (idx : Int) + ((j + 1 : Nat) : Int) - st.off := by
              push_cast; omega
            rw [e]; exact hy
          · have hm0 : m = 0 := by
              cases m with
              | zero => rfl
              | succ k => exact absurd (hal'.ws token (by simp)) htw
            subst hm0
            obtain ⟨_, hoff, hdrop, _, _, _⟩ := hal'
            simp only [Int.natCast_zero, Int.add_zero, List.drop_succ_cons, List.drop_zero] at hoff hdrop
            refine ⟨by push_cast; omega, x, ?_, Or.inl rfl⟩
            have e : (((idx + 1 : Nat) : Int) + (j : Int) - st.off).toNat = ((idx : Int) - st.off).toNat + 1 + j := by
              push_cast; omega
            rw [e]
            have : (st.cur.drop (((idx : Int) - st.off).toNat + 1))[j]? = some x := by rw [← hdrop]; exact hx
            rwa [List.getElem?_drop] at this
        · intro pidx p hpp
          rw [hsame]
          rcases hprev with hprev | ⟨hnn, hnw, hprev⟩
          · rw [hprev] at hpp; exact hhp pidx p hpp
          · rw [hprev] at hpp
            simp only [Option.some.injEq, Prod.mk.injEq] at hpp
            obtain ⟨rfl, rfl⟩ := hpp
            obtain ⟨_, y, hy, hyw⟩ := hhn' 0 token (by simp) (by simp) hnw
            simp only [Int.natCast_zero, Int.add_zero] at hy
            exact ⟨y, hy, hyw⟩
      · -- not in a run of stale whitespace
        have hm0 : m = 0 := by
          cases m with
          | zero => rfl
          | succ k =>
            have := hal'.ws token (by simp)
            rw [hnw] at this; cases this
        subst hm0
        obtain ⟨_, hoff, hdrop, hprevle, hrange, _⟩ := hal'
        simp only [Int.natCast_zero, Int.add_zero, List.drop_succ_cons, List.drop_zero] at hoff hdrop hprevle hrange
        have hrange := hrange (by simp)
        have htid : ((((idx : Int) - st.off).toNat : Nat) : Int) = (idx : Int) - st.off := by omega
        -- the child at `tidx` is the token or a group
        obtain ⟨_, y0, hy0, hy0w⟩ := hhn' 0 token (by simp) (by simp) hnw
        simp only [Int.natCast_zero, Int.add_zero] at hy0
        -- the child at `pidx` is `prev_` or a group
        obtain ⟨yp, hyp, hypw⟩ := hhp pidx prev hpv
        generalize htd : ((idx : Int) - st.off).toNat = tidx at hpost hdrop hrange htid hvalid hy0
        obtain ⟨Fc, hcur, _⟩ := hops.suf F rfl
        have hlen : st.cur.length = tidx + 1 + (R'.length + S.length) := by
          have := congrArg List.length hdrop
          simp only [List.length_append, List.length_drop] at this
          omega
        have hFc : Fc.length = tidx + 1 + R'.length := by
          have := congrArg List.length hcur
          simp only [List.length_append] at this
          omega
        obtain ⟨hf, hto, hlen1, hdrop1, _⟩ := hp.post _ _ _ _ _ hpost
        simp only at hf hto hlen1 hdrop1
        have hple : pidx ≤ tidx := by have := hprevle pidx prev hpv; omega
        have hfrom : fromIdx ≤ tidx := by rcases hf with hf | hf <;> omega
        have htidF : tidx < Fc.length := by omega
        have hy0nw : y0.isWhitespace = false := by
          rcases hy0w with rfl | hg
          · exact hnw
          · exact isGroup_notWs hg
        -- what `post` did to the list
        have hpk' := hpk token (R' ++ S) idx st (by simpa using hj) hnn hmatch pidx _ _ (by rw [htd]; exact hpost)
        simp only [htd] at hpk'
        have hcur1 : ∃ F1, cur1 = F1 ++ S ∧ F1.length = Fc.length ∧ Ops false il S (F ++ S) cur1 ∧
            (∃ y1, cur1[tidx]? = some y1 ∧ (cfg.cls ≠ .IdentifierList → isItem y1 = true)) ∧
            ∀ j, j ≠ tidx → cur1[j]? = st.cur[j]? := by
          rcases hpk' with hk | ⟨x, hx, hxw, hk⟩
          · subst hk
            refine ⟨Fc, hcur, rfl, hops, ⟨y0, hy0, fun hc => ?_⟩, fun _ _ => rfl⟩
            rcases hy0w with rfl | hg
            · exact isItem_of hnw (hm hc _ hmatch)
            · exact isItem_grp hg
          · subst hk
            have hset := (set_suffix (F := Fc) (S := S) (by rw [← hcur]; exact hx) htidF hxw).1
            rw [← hcur] at hset
            refine ⟨_, hset, by simp, hops.trans (.retype hcur hx htidF hxw), ⟨x.setTType T.Operator, ?_,
              fun _ => isItem_retype hxw⟩, fun j hj => List.getElem?_set_ne (Ne.symm hj)⟩
            rw [List.getElem?_set_self (by omega)]
        obtain ⟨F1, hcur1e, hF1len, hops1, ⟨y1, hy1, hy1i⟩, hcur1ne⟩ := hcur1
        rcases hto with hto | ⟨n2, hn, hto⟩
        · -- grouped `[from, tidx]`
          have hto' : tidx = toIdx := hto.symm
          subst hto'
          have hshape := groupTokens'_shape hgt hfrom
          simp only at hshape
          have hnil : cfg.cls ≠ .IdentifierList := by
            intro hc
            obtain ⟨_, _, n', hn', hto2⟩ := (hil hc).post _ _ _ _ _ hpost
            simp only at hto2
            cases hq : tokenNext st.cur tidx with
            | none => simp [hq] at hn'
            | some q =>
              simp only [hq, Option.map_some, Option.some.injEq] at hn'
              have := (tokenNext_hit hq).1
              omega
          refine ⟨hops1.trans (.group hcur1e hgt hfrom (by omega) hcls ⟨tidx, y1, hfrom, Nat.le_refl _, hy1, hy1i hnil⟩
            (fun hc => absurd hc hnil)), ?_, ?_⟩
          · intro j x hws hx hxw
            rw [hoff1]
            have hflt : fromIdx < cur1.length := (groupTokens'_at hgt).2.2
            have hc2 : st1.cur.drop (fromIdx + 1) = R' ++ S := by
              rw [hshape, drop_splice _ _ (by omega), hdrop1, hdrop]
            refine ⟨by push_cast; omega, x, ?_, Or.inl rfl⟩
            have e : (((idx + 1 : Nat) : Int) + (j : Int) - (st.off + ((tidx : Int) - (fromIdx : Int)))).toNat =
                fromIdx + 1 + j := by push_cast; omega
            rw [e]
            have : (st1.cur.drop (fromIdx + 1))[j]? = some x := by rw [hc2]; exact hx
            rwa [List.getElem?_drop] at this
          · intro pidx' p' hpp
            rw [hprev1] at hpp
            simp only [Option.some.injEq, Prod.mk.injEq] at hpp
            obtain ⟨rfl, rfl⟩ := hpp
            obtain ⟨hat, hinst, _⟩ := groupTokens'_at hgt
            exact ⟨grp, hat, Or.inl rfl⟩
        · -- grouped `[from, nidx]`
          subst hto
          cases hq : tokenNext st.cur tidx with
          | none => simp [hq] at hn
          | some q =>
            obtain ⟨n3, k2⟩ := q
            simp only [hq, Option.map_some, Option.some.injEq] at hn
            subst hn
            obtain ⟨hlt, hk2, hbetween⟩ := tokenNext_hit hq
            have hk2w := tokenNext_not_ws hq
            -- the group ends inside `Fc`
            have htoF : n3 < Fc.length := by
              by_cases hin : n3 < Fc.length
              · exact hin
              · exfalso
                have hn3len : n3 < st.cur.length := (List.getElem?_eq_some_iff.1 hk2).1
                cases S with
                | nil => simp only [List.length_nil] at hlen; omega
                | cons c S' =>
                  have hc : st.cur[Fc.length]? = some c := by
                    rw [hcur, List.getElem?_append_right (Nat.le_refl _)]; simp
                  have hcnw := hSh c rfl
                  have hn3 : n3 = Fc.length := by
                    by_cases hgt' : Fc.length < n3
                    · have := hbetween Fc.length c (by omega) hgt' hc
                      rw [hcnw] at this; cases this
                    · omega
                  subst hn3
                  have hkc : c = k2 := by rw [hc] at hk2; exact Option.some.inj hk2
                  subst hkc
                  have hR' : ∀ x ∈ R', x.isWhitespace = true := by
                    intro x hx
                    obtain ⟨i, hi, hxi⟩ := List.getElem_of_mem hx
                    have : st.cur[tidx + 1 + i]? = some x := by
                      have h1 : (st.cur.drop (tidx + 1))[i]? = some x := by
                        rw [← hdrop, List.getElem?_append_left hi, List.getElem?_eq_getElem hi, hxi]
                      rwa [List.getElem?_drop] at h1
                    exact hbetween _ x (by omega) (by omega) this
                  have hlastF : lastNonWs F = some token := by
                    rw [hF, lastNonWs_append, lastNonWs_cons, lastNonWs_ws hR', hnw]
                    simp
                  rcases hclose c rfl token hlastF with h1 | h1 | h1
                  · rw [h1] at hmatch; cases hmatch
                  · rw [hq] at hvalid
                    simp only [Option.map_some] at hvalid
                    rw [h1] at hvalid; cases hvalid
                  · rw [hq] at hpost
                    simp only [Option.map_some] at hpost
                    have := h1 _ _ _ _ _ hpost hc
                    simp only at this
                    omega
            have hab : fromIdx ≤ n3 := by omega
            have hshape := groupTokens'_shape hgt hab
            simp only at hshape
            obtain ⟨hat, hinst, _⟩ := groupTokens'_at hgt
            simp only at hat hinst
            have hk2c1 : cur1[n3]? = some k2 := by rw [hcur1ne n3 (by omega)]; exact hk2
            -- the witnesses
            have hw : ∃ j x, fromIdx ≤ j ∧ j ≤ n3 ∧ cur1[j]? = some x ∧ isItem x = true := by
              by_cases hc : cfg.cls = .IdentifierList
              · refine ⟨n3, k2, hab, Nat.le_refl _, hk2c1, (hil hc).next k2 ?_⟩
                rw [hq] at hvalid
                simpa using hvalid
              · exact ⟨tidx, y1, hfrom, by omega, hy1, hy1i hc⟩
            have hilw : cfg.cls = .IdentifierList → il = true ∧ fromIdx < n3 ∧
                (∃ x, cur1[fromIdx]? = some x ∧ isItem x = true) ∧ (∃ y, cur1[n3]? = some y ∧ isItem y = true) := by
              intro hc
              obtain ⟨hc1, hfp, _⟩ := (hil hc).post _ _ _ _ _ hpost
              simp only at hc1 hfp
              subst hc1
              subst hfp
              refine ⟨hilb hc, by omega, ⟨yp, hyp, ?_⟩, ⟨k2, hk2, (hil hc).next k2 ?_⟩⟩
              · rcases hypw with rfl | hg
                · exact (hil hc).prev _ hvprev
                · exact isItem_grp hg
              · rw [hq] at hvalid
                simpa using hvalid
            refine ⟨hops1.trans (.group hcur1e hgt hab (by omega) hcls hw hilw), ?_, ?_⟩
            · intro j x hws hx hxw
              rw [hoff1]
              -- the first non-whitespace element of the rest of the snapshot is the absorbed `next_`
              have hjn : j = n3 - tidx - 1 := by
                have hk2' : (R' ++ S)[n3 - tidx - 1]? = some k2 := by
                  rw [hdrop, List.getElem?_drop, show tidx + 1 + (n3 - tidx - 1) = n3 by omega]; exact hk2
                refine firstNW_unique hws hx hxw ?_ hk2' hk2w
                intro z hz
                rw [hdrop] at hz
                obtain ⟨i, hi, hzi⟩ := List.getElem_of_mem hz
                simp only [List.length_take, List.length_drop] at hi
                have : st.cur[tidx + 1 + i]? = some z := by
                  rw [← hzi]
                  simp [List.getElem_take, List.getElem_drop]
                exact hbetween (tidx + 1 + i) z (by omega) (by omega) this
              subst hjn
              refine ⟨by push_cast; omega, grp, ?_, Or.inr (isGroup_of_isInst hinst)⟩
              have e : (((idx + 1 : Nat) : Int) + ((n3 - tidx - 1 : Nat) : Int) -
                  (st.off + ((n3 : Int) - (fromIdx : Int)))).toNat = fromIdx := by
                push_cast; omega
              rw [e]; exact hat
            · intro pidx' p' hpp
              rw [hprev1] at hpp
              simp only [Option.some.injEq, Prod.mk.injEq] at hpp
              obtain ⟨rfl, rfl⟩ := hpp
              exact ⟨grp, hat, Or.inl rfl⟩

end DCR
end Sql
