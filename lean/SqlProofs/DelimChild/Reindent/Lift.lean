import SqlProofs.DelimChild.Reindent.CfgInst
/-!
# SqlProofs.DelimChild.Reindent.Lift — from one level to the whole tree

A pass first recurses into (some of) the group children and then runs its loop on the list; the invariant of the
phase before implies that of the phase after (`Ph.le`), so children that are not visited are fine too.
-/
namespace Sql
namespace DCR
open DC

variable {u : Text → Text}

/-- a pass takes trees with the invariant of phase `ph` to trees with the invariant of phase `ph'` -/
def PassInv (u : Text → Text) (ph ph' : Ph) (p : Pass) : Prop :=
  ∀ fuel c L L', p fuel c L = .ok L' → KidsInv u ph c L → ListInv u ph L →
    KidsInv u ph' c L' ∧ ListInv u ph' L' ∧ (∀ P : Node → Bool, GoodP P → L.any P = true → L'.any P = true)

theorem mapGroups_eltRel {elig : Node → Bool} {f : Cls → List Node → Except PyErr (List Node)} :
    ∀ (a r : List Node), mapGroups elig f a = .ok r → EltRel (fun c k k' => f c k = .ok k') a r := by
  intro a
  induction a with
  | nil => intro r h; simp [mapGroups] at h; subst h; exact .nil
  | cons k rest ih =>
    intro r h
    cases k with
    | tok tt v =>
      simp only [mapGroups] at h
      cases hr : mapGroups elig f rest with
      | error e => simp [hr] at h
      | ok r1 =>
        simp only [hr, Except.ok.injEq] at h
        subst h
        exact .same (ih _ hr)
    | grp c kids =>
      simp only [mapGroups] at h
      by_cases he : elig (.grp c kids) = true
      · rw [if_pos he] at h
        cases hk : f c kids with
        | error e => simp [hk] at h
        | ok kids' =>
          simp only [hk] at h
          cases hr : mapGroups elig f rest with
          | error e => simp [hr] at h
          | ok r1 =>
            simp only [hr, Except.ok.injEq] at h
            subst h
            exact .sub hk (ih _ hr)
      · rw [if_neg he] at h
        cases hr : mapGroups elig f rest with
        | error e => simp [hr] at h
        | ok r1 =>
          simp only [hr, Except.ok.injEq] at h
          subst h
          exact .same (ih _ hr)

theorem eltRel_refl {S : Cls → List Node → List Node → Prop} (l : List Node) : EltRel S l l := by
  induction l with
  | nil => exact .nil
  | cons x xs ih => exact .same ih

theorem mapGroupsWhere_eltRel {f : Cls → List Node → Except PyErr (List Node)} :
    ∀ (bs : List Bool) (ks r : List Node), mapGroupsWhere f bs ks = .ok r →
      EltRel (fun c k k' => f c k = .ok k') ks r := by
  intro bs ks
  induction ks generalizing bs with
  | nil => intro r h; simp [mapGroupsWhere] at h; subst h; exact .nil
  | cons k rest ih =>
    intro r h
    cases bs with
    | nil => simp [mapGroupsWhere] at h; subst h; exact eltRel_refl _
    | cons b bs =>
      cases k with
      | tok tt v =>
        simp only [mapGroupsWhere] at h
        cases hr : mapGroupsWhere f bs rest with
        | error e => simp [hr] at h
        | ok r1 =>
          simp only [hr, Except.ok.injEq] at h
          subst h
          exact .same (ih _ _ hr)
      | grp c kids =>
        simp only [mapGroupsWhere] at h
        by_cases hb : b = true
        · rw [if_pos hb] at h
          cases hk : f c kids with
          | error e => simp [hk] at h
          | ok kids' =>
            simp only [hk] at h
            cases hr : mapGroupsWhere f bs rest with
            | error e => simp [hr] at h
            | ok r1 =>
              simp only [hr, Except.ok.injEq] at h
              subst h
              exact .sub hk (ih _ _ hr)
        · rw [if_neg hb] at h
          cases hr : mapGroupsWhere f bs rest with
          | error e => simp [hr] at h
          | ok r1 =>
            simp only [hr, Except.ok.injEq] at h
            subst h
            exact .same (ih _ _ hr)

theorem eltMap_anyP {P : Node → Bool} (hP : GoodP P) {a b : List Node} (h : EltMap a b) (ha : a.any P = true) :
    b.any P = true := by
  induction h with
  | nil => exact ha
  | cons hx _ ih =>
    simp only [List.any_cons, Bool.or_eq_true] at ha ⊢
    rcases ha with ha | ha
    · left
      rcases hx with rfl | ⟨c, k, k', rfl, rfl⟩
      · exact ha
      · exact hP.grp _ rfl
    · right; exact ih ha

theorem eltRel_listInv {S : Cls → List Node → List Node → Prop} {ph ph' : Ph} (hle : ph.le ph' = true) (hnv : ph ≠ .v)
    (hS : ∀ c k k', S c k k' → KidsInv u ph c k → ListInv u ph k →
      KidsInv u ph' c k' ∧ ListInv u ph' k' ∧ (∀ P : Node → Bool, GoodP P → k.any P = true → k'.any P = true))
    {a b : List Node} (h : EltRel S a b) (hi : ListInv u ph a) : ListInv u ph' b := by
  induction h with
  | nil => simp [ListInv]
  | same _ ih =>
    simp only [ListInv] at hi ⊢
    exact ⟨NodeInv.mono hle _ hi.1, ih hi.2⟩
  | sub hs _ ih =>
    simp only [ListInv] at hi ⊢
    rw [nodeInv_grp] at hi ⊢
    obtain ⟨h1, h2, h3⟩ := hS _ _ _ hs hi.1.1 hi.1.2.2.2
    exact ⟨⟨h1, h3 _ goodP_il hi.1.2.1, fun hc => absurd (hi.1.2.2.1 hc).1 hnv, h2⟩, ih hi.2⟩

/-! ### the loop passes with their `@recurse(...)` decorator -/
/-- the body of a loop pass, run on a list whose children already have the invariant of the new phase -/
def BodyOK (u : Text → Text) (ph ph' : Ph) (body : Cls → List Node → Except PyErr (List Node)) : Prop :=
  ∀ c L L', body c L = .ok L' → KidsInv u ph c L → ListInv u ph' L →
    KidsInv u ph' c L' ∧ ListInv u ph' L' ∧ (∀ P : Node → Bool, GoodP P → L.any P = true → L'.any P = true)

theorem recursePass_inv {ph ph' : Ph} (hle : ph.le ph' = true) (hnv : ph ≠ .v) {skip : List Cls} {body}
    (hb : BodyOK u ph ph' body) : PassInv u ph ph' (recursePass skip body) := by
  intro fuel
  induction fuel with
  | zero => intro c L L' h; simp [recursePass] at h
  | succ n ih =>
    intro c L L' h hk hi
    simp only [recursePass] at h
    cases hm : mapGroups (fun k => !k.isInstAny skip) (recursePass skip body n) L with
    | error e => simp [hm] at h
    | ok L1 =>
      simp only [hm] at h
      have hrel := mapGroups_eltRel _ _ hm
      have hi1 : ListInv u ph' L1 := eltRel_listInv hle hnv (fun c k k' hs => ih c k k' hs) hrel hi
      obtain ⟨h1, h2, h3⟩ := hb c L1 L' h (kidsInv_eltMap hrel.eltMap hk) hi1
      exact ⟨h1, h2, fun P hP hn => h3 P hP (eltMap_anyP hP hrel.eltMap hn)⟩

theorem adHocPass_inv {ph ph' : Ph} (hle : ph.le ph' = true) (hnv : ph ≠ .v) (skip : Option (List Cls)) {body}
    (hb : BodyOK u ph ph' body) : PassInv u ph ph' (adHocPass skip body) := by
  unfold adHocPass
  split
  · exact recursePass_inv hle hnv hb
  · intro fuel c L L' h hk hi
    exact hb c L L' h hk (ListInv.mono hle L hi)

/-! ### `_group` -/
theorem drvLoop_recurse (cfg : DrvCfg) : ∀ (snap : List Node) (idx : Nat) (st : DrvSt),
    drvLoop { cfg with recurse := true } snap idx st = drvLoop cfg snap idx st := by
  intro snap
  induction snap with
  | nil => intro idx st; rfl
  | cons token tl ih =>
    intro idx st
    simp only [drvLoop]
    have : drvStep { cfg with recurse := true } st idx token = drvStep cfg st idx token := rfl
    rw [this]
    cases drvStep cfg st idx token with
    | error e => rfl
    | ok st1 => exact ih _ _

theorem drv_bodyOK (hu : DelimU u) {cfg : DrvCfg} (hc : CfgD u cfg) {ph ph' : Ph} (hle : ph.le ph' = true)
    (hph : ph'.needWhere = false) (hv : cfg.cls = .IdentifierList → ph' = .v)
    {c : Cls} {L : List Node} {st : DrvSt} (h : drvLoop cfg L 0 (drvInit L) = .ok st)
    (hk : KidsInv u ph c L) (hi : ListInv u ph' L) :
    KidsInv u ph' c st.cur ∧ ListInv u ph' st.cur ∧ (∀ P : Node → Bool, GoodP P → L.any P = true → st.cur.any P = true) :=
  ⟨fun mo mc ht => drvLoop_frame hu hc hle hph h (hk mo mc ht), drvLoop_listInv hc hv h hi,
    fun _ hP => (drvLoop_ops0 hc h).anyP hP⟩

theorem groupDriver_inv (hu : DelimU u) {cfg : DrvCfg} (hc : CfgD u cfg) {ph ph' : Ph} (hle : ph.le ph' = true)
    (hph : ph'.needWhere = false) (hnv : ph ≠ .v) (hv : cfg.cls = .IdentifierList → ph' = .v) :
    ∀ (fuel : Nat) (rec : Bool) (c : Cls) (L L' : List Node), groupDriver { cfg with recurse := rec } fuel L = .ok L' →
      KidsInv u ph c L → ListInv u ph L →
      KidsInv u ph' c L' ∧ ListInv u ph' L' ∧ (∀ P : Node → Bool, GoodP P → L.any P = true → L'.any P = true) := by
  intro fuel
  induction fuel with
  | zero => intro rec c L L' h; simp [groupDriver] at h
  | succ n ih =>
    intro rec c L L' h hk hi
    have hloop : ∀ (snap : List Node) (idx : Nat) (st : DrvSt),
        drvLoop { cfg with recurse := rec } snap idx st = drvLoop cfg snap idx st := by
      intro snap
      induction snap with
      | nil => intro idx st; rfl
      | cons token tl ih2 =>
        intro idx st
        simp only [drvLoop]
        have : drvStep { cfg with recurse := rec } st idx token = drvStep cfg st idx token := rfl
        rw [this]
        cases drvStep cfg st idx token with
        | error e => rfl
        | ok st1 => exact ih2 _ _
    simp only [groupDriver] at h
    split at h
    · rw [hloop] at h
      cases hd : drvLoop cfg L 0 (drvInit L) with
      | error e => simp [hd] at h
      | ok dry =>
        simp only [hd] at h
        cases hm : mapGroupsWhere (fun _ kids => groupDriver { cfg with recurse := true } n kids)
            (drvEligible cfg.cls dry.reached.reverse L) L with
        | error e => simp [hm] at h
        | ok L1 =>
          simp only [hm] at h
          rw [hloop] at h
          cases hlp : drvLoop cfg L1 0 (drvInit L1) with
          | error e => simp [hlp] at h
          | ok st =>
            simp only [hlp, Except.ok.injEq] at h
            subst h
            have hrel := mapGroupsWhere_eltRel _ _ _ hm
            have hi1 : ListInv u ph' L1 :=
              eltRel_listInv hle hnv (fun c k k' hs => ih true c k k' hs) hrel hi
            obtain ⟨h1, h2, h3⟩ := drv_bodyOK hu hc hle hph hv hlp (kidsInv_eltMap hrel.eltMap hk) hi1
            exact ⟨h1, h2, fun P hP hn => h3 P hP (eltMap_anyP hP hrel.eltMap hn)⟩
    · rw [hloop] at h
      cases hlp : drvLoop cfg L 0 (drvInit L) with
      | error e => simp [hlp] at h
      | ok st =>
        simp only [hlp, Except.ok.injEq] at h
        subst h
        exact drv_bodyOK hu hc hle hph hv hlp hk (ListInv.mono hle L hi)

theorem driverPass_inv (hu : DelimU u) {cfg : DrvCfg} (hc : CfgD u cfg) {ph ph' : Ph} (hle : ph.le ph' = true)
    (hph : ph'.needWhere = false) (hnv : ph ≠ .v) (hv : cfg.cls = .IdentifierList → ph' = .v) :
    PassInv u ph ph' (driverPass cfg) := by
  intro fuel c L L' h hk hi
  exact groupDriver_inv hu hc hle hph hnv hv fuel cfg.recurse c L L' h hk hi

theorem typedLiteralPass_inv (hu : DelimU u) {ph : Ph} (hph : ph.needWhere = false) (hnv : ph ≠ .v) :
    PassInv u ph ph (typedLiteralPass u) := by
  intro fuel c L L' h hk hi
  unfold typedLiteralPass at h
  cases h1 : groupDriver (cfgTypedLiteral0 u) fuel L with
  | error e => simp [h1] at h
  | ok L1 =>
    simp only [h1] at h
    obtain ⟨hk1, hi1, hn1⟩ := driverPass_inv hu (cfgD_typedLiteral0 hu) (Ph.le_refl ph) hph hnv (fun h0 => nomatch h0)
      fuel c L L1 h1 hk hi
    obtain ⟨hk2, hi2, hn2⟩ := driverPass_inv hu (cfgD_typedLiteral1 hu) (Ph.le_refl ph) hph hnv (fun h0 => nomatch h0)
      fuel c L1 L' h hk1 hi1
    exact ⟨hk2, hi2, fun P hP hn => hn2 P hP (hn1 P hP hn)⟩

end DCR
end Sql
