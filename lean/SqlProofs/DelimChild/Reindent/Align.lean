import SqlProofs.DelimChild.Reindent.Where
/-!
# SqlProofs.DelimChild.Reindent.Align — `align_comments`: a `Comment` group is appended to the group in front of it
-/
namespace Sql
namespace DCR
open DC

variable {u : Text → Text}

theorem mem_pySlice_idx {α : Type} {l : List α} {a b : Nat} {x : α} (h : x ∈ pySlice l a b) :
    ∃ j, a ≤ j ∧ j < b ∧ l[j]? = some x := by
  unfold pySlice at h
  obtain ⟨i, hi, hxi⟩ := List.getElem_of_mem h
  simp only [List.length_drop, List.length_take] at hi
  refine ⟨a + i, by omega, by omega, ?_⟩
  rw [← hxi]
  simp [List.getElem_drop, List.getElem_take]

theorem alignLoop_ops {S : List Node}
    (hS : ∀ y ∈ S, imt u y Gen.align_comments_token_next_by1_i [] .none = false) :
    ∀ (n : Nat) (ks : List Node) (pend : Option (Nat × Node)) (ks' : List Node),
      alignLoop u n ks pend = .ok ks' → ∀ F, ks = F ++ S →
      (∀ t tok, pend = some (t, tok) → ks[t]? = some tok ∧
        imt u tok Gen.align_comments_token_next_by1_i [] .none = true) →
      Ops true false S ks ks' := by
  intro n
  induction n with
  | zero =>
    intro ks pend ks' h F _ _
    cases pend with
    | none => simp [alignLoop] at h; subst h; exact .refl _
    | some p => simp [alignLoop] at h
  | succ n ih =>
    intro ks pend ks' h F hk hp
    cases pend with
    | none => simp [alignLoop] at h; subst h; exact .refl _
    | some p =>
      obtain ⟨tidx, tok⟩ := p
      obtain ⟨htok, htrig⟩ := hp tidx tok rfl
      have hlt := idx_in_front hk hS htok htrig
      simp only [alignLoop] at h
      cases hpv : tokenPrev ks tidx with
      | none =>
        simp only [hpv] at h
        exact ih _ _ _ h F hk (fun t2 tok2 hq => pend_of_nextBy _ _ hq)
      | some q =>
        obtain ⟨pidx, prev⟩ := q
        simp only [hpv] at h
        split at h
        · rename_i hinst
          cases hg : groupTokens ks Gen.align_comments_group_tokens0_cls pidx tidx true
              Gen.align_comments_group_tokens0_extend with
          | error e => simp [hg] at h
          | ok ks1 =>
            simp only [hg] at h
            obtain ⟨hpl, hprev⟩ := tokenPrev_hit hpv
            obtain ⟨r, hr, rfl⟩ := groupTokens_eq hg
            have hgp := isGroup_of_isInstAny hinst
            cases prev with
            | tok _ _ => cases hgp
            | grp c k =>
              have step : Ops true false S ks r.1 := by
                refine .align rfl hk hr (Nat.le_of_lt hpl) hlt hprev ?_
                intro x hx
                obtain ⟨j, h1, h2, h3⟩ := mem_pySlice_idx hx
                by_cases hj : j = tidx
                · subst hj
                  have hxt : tok = x := by rw [htok] at h3; exact Option.some.inj h3
                  subst hxt
                  have : tok.isInst .Comment = true := by
                    simpa [imt, Node.isInstAny, Gen.align_comments_token_next_by1_i] using htrig
                  simp [isTrailing, this]
                · have := tokenPrev_between hpv j x (by omega) (by omega) h3
                  simp [isTrailing, this]
              obtain ⟨F1, hk1, _⟩ := step.suf F hk
              exact step.trans (ih _ _ _ h F1 hk1 (fun t2 tok2 hq => pend_of_nextBy _ _ hq))
        · exact ih _ _ _ h F hk (fun t2 tok2 hq => pend_of_nextBy _ _ hq)

/-- the opener side: the group in front of the comment is not in the protected prefix (its children are leaves) -/
theorem alignLoop_pref {s : Nat} : ∀ (n : Nat) (ks : List Node) (pend : Option (Nat × Node)) (ks' : List Node),
    alignLoop u n ks pend = .ok ks' → (∀ t tok, pend = some (t, tok) → s ≤ t) →
    (∀ j x, j < s → ks[j]? = some x → x.isGroup = false) → PrefRel s ks ks' := by
  intro n
  induction n with
  | zero =>
    intro ks pend ks' h _ _
    cases pend with
    | none => simp [alignLoop] at h; subst h; exact PrefRel.refl _ _
    | some p => simp [alignLoop] at h
  | succ n ih =>
    intro ks pend ks' h hp hlow
    cases pend with
    | none => simp [alignLoop] at h; subst h; exact PrefRel.refl _ _
    | some p =>
      obtain ⟨tidx, tok⟩ := p
      have hst := hp tidx tok rfl
      have hnext : ∀ t2 tok2, tokenNextBy u ks Gen.align_comments_token_next_by1_i [] .none (tidx + 1) = some (t2, tok2) →
          s ≤ t2 := by
        intro t2 tok2 hq
        have := (tokenNextBy_spec hq).1
        omega
      simp only [alignLoop] at h
      cases hpv : tokenPrev ks tidx with
      | none => simp only [hpv] at h; exact ih _ _ _ h hnext hlow
      | some q =>
        obtain ⟨pidx, prev⟩ := q
        simp only [hpv] at h
        split at h
        · rename_i hinst
          have hps : s ≤ pidx := by
            by_cases hlt : pidx < s
            · have := hlow pidx prev hlt (tokenPrev_hit hpv).2
              rw [isGroup_of_isInstAny hinst] at this; cases this
            · omega
          cases hg : groupTokens ks Gen.align_comments_group_tokens0_cls pidx tidx true
              Gen.align_comments_group_tokens0_extend with
          | error e => simp [hg] at h
          | ok ks1 =>
            simp only [hg] at h
            have hr := groupTokens_prefRel hg hps
            refine hr.trans (ih _ _ _ h ?_ ?_)
            · intro t2 tok2 hq
              have := (tokenNextBy_spec hq).1
              omega
            · intro j x hj hx
              have : ks1[j]? = ks[j]? := by
                have h1 : (ks1.take s)[j]? = ks1[j]? := by rw [List.getElem?_take]; simp [hj]
                have h2 : (ks.take s)[j]? = ks[j]? := by rw [List.getElem?_take]; simp [hj]
                rw [← h1, hr.pre, h2]
              rw [this] at hx
              exact hlow j x hj hx
        · exact ih _ _ _ h hnext hlow

end DCR
end Sql
