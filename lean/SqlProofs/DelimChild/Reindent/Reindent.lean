import SqlProofs.DelimChild.Reindent.KwNorm
import SqlProofs.DelimChild.Reindent.Cases2
import SqlProofs.GroupLeavesStrict
/-!
# SqlProofs.DelimChild.Reindent.Reindent — the grouped tree of a `ReindentSafe` statement lies in `FilterSafe.reindent`
-/
namespace Sql
namespace DCR
open DC

open FilterSafe

variable {u : Text → Text}

/-! ### the tokens stay what they are -/
theorem tokOK_of_leafRelS {a b : List Tok} (h : LeafRelS a b) (ha : ∀ t ∈ a, tokOK t = true) : ∀ t ∈ b, tokOK t = true := by
  induction h with
  | nil => intro t ht; cases ht
  | @cons x y xs ys hxy _ ih =>
    intro t ht
    cases ht with
    | head =>
      have hx := ha x List.mem_cons_self
      simp only [tokOK, Bool.and_eq_true, Bool.not_eq_true', Bool.or_eq_true, bne_iff_ne, ne_eq, beq_iff_eq] at hx ⊢
      rw [← hxy.1]
      refine ⟨hx.1, ?_⟩
      rcases hx.2 with h1 | h1
      · exact Or.inl h1
      · rcases hxy.2 with h2 | ⟨h2, _⟩
        · exact Or.inr (h2 ▸ h1)
        · rw [h1] at h2; exact absurd h2 (by decide)
    | tail _ ht => exact ih (fun z hz => ha z (List.mem_cons_of_mem _ hz)) t ht

/-! ### every node has a leaf; every group has an item leaf -/
mutual
theorem hasLeaf_of_nodeInv {ph : Ph} : (n : Node) → NodeInv u ph n → (FNode.ofNode n).hasLeaf = true
  | .tok _ _, _ => rfl
  | .grp c ks, h => by
    rw [nodeInv_grp] at h
    simp only [FNode.ofNode, FNode.hasLeaf]
    exact hasLeafL_of_listInv ks h.2.2.2 h.2.1
theorem hasLeafL_of_listInv {ph : Ph} : (ks : List Node) → ListInv u ph ks → ilOK ks = true →
    FNode.hasLeafL (FNode.ofNodeL ks) = true
  | [], _, h => by simp [ilOK] at h
  | k :: ks, h, _ => by
    simp only [ListInv] at h
    simp only [FNode.ofNodeL, FNode.hasLeafL, Bool.or_eq_true]
    exact Or.inl (hasLeaf_of_nodeInv k h.1)
end

mutual
theorem itemLeaf_of_nodeInv {ph : Ph} : (n : Node) → NodeInv u ph n → isItem n = true → n.leaves.any tokItem = true
  | .tok tt v, _, hi => by simpa [Node.leaves, tokItem, isItem, isComma, Node.isWhitespace] using hi
  | .grp c ks, h, _ => by
    rw [nodeInv_grp] at h
    simp only [Node.leaves]
    exact itemLeaf_of_listInv ks h.2.2.2 h.2.1
theorem itemLeaf_of_listInv {ph : Ph} : (ks : List Node) → ListInv u ph ks → ilOK ks = true →
    (Node.leavesL ks).any tokItem = true
  | [], _, h => by simp [ilOK] at h
  | k :: ks, hn, h => by
    simp only [ListInv] at hn
    simp only [ilOK, List.any_cons, Bool.or_eq_true] at h
    simp only [Node.leavesL, List.any_append, Bool.or_eq_true]
    rcases h with h | h
    · exact Or.inl (itemLeaf_of_nodeInv k hn.1 h)
    · exact Or.inr (itemLeaf_of_listInv ks hn.2 h)
end

/-- the text of a list with an item leaf, all of whose leaves are `tokOK`, is not `,` -/
theorem text_ne_comma {ks : List Node} (hl : (Node.leavesL ks).any tokItem = true)
    (hok : ∀ t ∈ Node.leavesL ks, tokOK t = true) : Node.textL ks ≠ [44] := by
  rw [text_eq_leaves]
  obtain ⟨l, hlm, hli⟩ := List.any_eq_true.1 hl
  obtain ⟨A, B, hAB⟩ := List.append_of_mem hlm
  rw [hAB]
  intro heq
  simp only [List.map_append, List.map_cons, List.flatten_append, List.flatten_cons] at heq
  have hlok := hok l hlm
  simp only [tokOK, Bool.and_eq_true, Bool.not_eq_true', Bool.or_eq_true, bne_iff_ne, ne_eq, beq_iff_eq] at hlok
  have hlen := congrArg List.length heq
  simp only [List.length_append, List.length_cons, List.length_nil] at hlen
  have hvl : 0 < l.val.length := by
    cases hv : l.val with
    | nil => simp [hv] at hlok
    | cons _ _ => simp
  have hA : (List.map (·.val) A).flatten = [] := List.eq_nil_of_length_eq_zero (by omega)
  have hB : (List.map (·.val) B).flatten = [] := List.eq_nil_of_length_eq_zero (by omega)
  rw [hA, hB] at heq
  simp only [List.nil_append, List.append_nil] at heq
  -- `l` is a comma by value, hence punctuation, hence not an item
  rcases hlok.2 with h1 | h1
  · exact h1 heq
  · simp [tokItem, h1, heq] at hli

/-! ### keyword tests on both sides -/
theorem matchKw_eq (w : String) (hw : pyUpper (w.toList.map Char.toNat) = kwNorm (w.toList.map Char.toNat)) (x : Node) :
    (FNode.ofNode x).matchKw w = x.matchAny kwNorm [⟨T.Keyword, some [w.toList.map Char.toNat]⟩] := by
  cases x with
  | grp c k => simp [FNode.ofNode, FNode.matchKw, FNode.matchP, Node.matchAny, Node.matchP, Node.match]
  | tok t v =>
    simp only [FNode.ofNode, FNode.matchKw, FNode.matchP, Node.matchAny, List.any_cons, List.any_nil, Bool.or_false,
      Node.matchP, Node.match, List.map_cons, List.map_nil, hw]

theorem up_CASE : pyUpper ("CASE".toList.map Char.toNat) = kwNorm ("CASE".toList.map Char.toNat) := by decide +kernel
theorem up_THEN : pyUpper ("THEN".toList.map Char.toNat) = kwNorm ("THEN".toList.map Char.toNat) := by decide +kernel
theorem up_ELSE : pyUpper ("ELSE".toList.map Char.toNat) = kwNorm ("ELSE".toList.map Char.toNat) := by decide +kernel
theorem up_END : pyUpper ("END".toList.map Char.toNat) = kwNorm ("END".toList.map Char.toNat) := by decide +kernel

theorem matchAny_one_of {x : Node} {tt : TType} {vs : List Text} {w : Text} (hw : w ∈ vs)
    (h : x.matchAny kwNorm [⟨tt, some vs⟩] = false) : x.matchAny kwNorm [⟨tt, some [w]⟩] = false := by
  cases x with
  | grp c k => simp [Node.matchAny, Node.matchP, Node.match]
  | tok t v =>
    simp only [Node.matchAny, List.any_cons, List.any_nil, Bool.or_false, Node.matchP, Node.match] at h ⊢
    split
    · rfl
    · rename_i hne
      rw [if_neg hne] at h
      split
      · rename_i hk
        rw [if_pos hk] at h
        simp only [List.map_cons, List.map_nil, List.contains_cons, List.contains_nil, Bool.or_false, beq_eq_false_iff_ne,
          ne_eq]
        intro heq
        have : (List.map kwNorm vs).contains (kwNorm v) = true := by
          rw [List.contains_iff_mem]; exact List.mem_map.2 ⟨w, hw, heq.symm⟩
        rw [this] at h; cases h
      · rename_i hk
        rw [if_neg hk] at h
        simp only [List.contains_cons, List.contains_nil, Bool.or_false, beq_eq_false_iff_ne, ne_eq]
        intro heq
        have : vs.contains v = true := by rw [List.contains_iff_mem, heq]; exact hw
        rw [this] at h; cases h

end DCR
end Sql

namespace Sql
namespace DCR
open DC

open FilterSafe

theorem ofNode_item (k : Node) : isIdentifierItem (FNode.ofNode k) = isItem k := by
  cases k <;> rfl

theorem ofNodeL_filter : ∀ (ks : List Node),
    (FNode.ofNodeL ks).filter isIdentifierItem = FNode.ofNodeL (ks.filter isItem)
  | [] => rfl
  | k :: ks => by
    simp only [FNode.ofNodeL, List.filter_cons, ofNode_item, ofNodeL_filter ks]
    split <;> rfl

theorem mem_ofNodeL : ∀ {ks : List Node} {y : FNode}, y ∈ FNode.ofNodeL ks → ∃ x ∈ ks, y = FNode.ofNode x
  | [], y, h => by simp [FNode.ofNodeL] at h
  | k :: ks, y, h => by
    simp only [FNode.ofNodeL, List.mem_cons] at h
    rcases h with rfl | h
    · exact ⟨k, List.mem_cons_self, rfl⟩
    · obtain ⟨x, hx, rfl⟩ := mem_ofNodeL h
      exact ⟨x, List.mem_cons_of_mem _ hx, rfl⟩

theorem ofNodeL_getLast : ∀ (ks : List Node), (FNode.ofNodeL ks).getLast? = ks.getLast?.map FNode.ofNode
  | [] => rfl
  | [k] => rfl
  | k :: k2 :: ks => by
    have := ofNodeL_getLast (k2 :: ks)
    simp only [FNode.ofNodeL, List.getLast?_cons_cons] at this ⊢
    exact this

theorem ensureWsOK_of_last : ∀ (ks : List FNode), (∀ x, ks.getLast? = some x → x.value ≠ [44]) → ensureWsOK ks = true
  | [], _ => rfl
  | [k], h => by
    have := h k rfl
    simp [ensureWsOK, this]
  | k :: k2 :: ks, h => by
    have ih := ensureWsOK_of_last (k2 :: ks) (fun x hx => h x (by simpa [List.getLast?_cons_cons] using hx))
    simp only [ensureWsOK] at ih ⊢
    simp [ih]

theorem leaves_mem_of_mem {ks : List Node} {x : Node} (hx : x ∈ ks) : ∀ t ∈ x.leaves, t ∈ Node.leavesL ks :=
  mem_leaves_of_mem hx

/-- the value of an item is not `,` -/
theorem item_value_ne_comma {ph : Ph} {x : Node} (hn : NodeInv u ph x) (hi : isItem x = true)
    (hok : ∀ t ∈ x.leaves, tokOK t = true) : (FNode.ofNode x).value ≠ [44] := by
  cases x with
  | tok tt v =>
    simp only [FNode.ofNode, FNode.value]
    intro hv
    have h1 := hok ⟨tt, v⟩ (by simp [Node.leaves])
    simp only [tokOK, Bool.and_eq_true, Bool.or_eq_true, bne_iff_ne, ne_eq, beq_iff_eq] at h1
    rcases h1.2 with h2 | h2
    · exact h2 hv
    · simp [isItem, isComma, h2, hv] at hi
  | grp c ks =>
    simp only [FNode.ofNode, FNode.value]
    rw [nodeInv_grp] at hn
    exact text_ne_comma (itemLeaf_of_listInv ks hn.2.2.2 hn.2.1) (by simpa [Node.leaves] using hok)

theorem idListOK_of {ph : Ph} (b : Bool) {ks : List Node} (hl : ListInv u ph ks) (h2 : twoItems ks = true)
    (hlast : lastItem ks = true) (hok : ∀ t ∈ Node.leavesL ks, tokOK t = true) :
    idListOK b (FNode.ofNodeL ks) = true := by
  unfold idListOK
  rw [ofNodeL_filter]
  simp only [twoItems, decide_eq_true_eq] at h2
  cases hf : ks.filter isItem with
  | nil => simp [hf] at h2
  | cons x0 r =>
    cases r with
    | nil => simp [hf] at h2
    | cons x1 r2 =>
      simp only [FNode.ofNodeL, Bool.and_eq_true, Bool.or_eq_true, Bool.not_eq_true', List.isEmpty_cons]
      have hx0 : x0 ∈ ks := (List.mem_filter.1 (by rw [hf]; exact List.mem_cons_self)).1
      refine ⟨hasLeaf_of_nodeInv x0 (listInv_iff.1 hl x0 hx0), Or.inr ⟨?_, trivial⟩⟩
      apply ensureWsOK_of_last
      intro y hy
      rw [ofNodeL_getLast] at hy
      cases hg : ks.getLast? with
      | none => simp [hg] at hy
      | some x =>
        simp only [hg, Option.map_some, Option.some.injEq] at hy
        subst hy
        have hxm : x ∈ ks := List.mem_of_getLast? hg
        have hxi : isItem x = true := by simpa [lastItem, hg] using hlast
        exact item_value_ne_comma (listInv_iff.1 hl x hxm) hxi (fun t ht => hok t (mem_leaves_of_mem hxm t ht))

theorem leavesL_cons_mem {k : Node} {ks : List Node} :
    (∀ t ∈ Node.leavesL (k :: ks), tokOK t = true) → (∀ t ∈ k.leaves, tokOK t = true) ∧
      (∀ t ∈ Node.leavesL ks, tokOK t = true) := by
  intro h
  simp only [Node.leavesL, List.mem_append] at h
  exact ⟨fun t ht => h t (Or.inl ht), fun t ht => h t (Or.inr ht)⟩

theorem case_children {ph : Ph} {ks : List Node} (hk : KidsInv kwNorm ph .Case ks) :
    ∃ o x rest, ks = o :: x :: rest ∧ o.matchAny kwNorm Gen.Case_M_OPEN = true ∧
      x.matchAny kwNorm caseNextPat = false := by
  obtain ⟨o, cl, ws, tail, F, tr, hf⟩ := hk _ _ rfl
  have hlen := frame_len hf
  have e : ks = o :: (ws ++ tail) := by have := hf.lead.eq; simpa using this
  have hc2 := hf.c2
  cases hwt : ws ++ tail with
  | nil => rw [e, hwt] at hlen; simp at hlen
  | cons x rest =>
    rw [hwt] at e
    subst e
    refine ⟨o, x, rest, rfl, hf.op, ?_⟩
    simpa [caseSecondOK] using hc2

mutual
theorem reindent_of_nodeInv (b : Bool) : (n : Node) → NodeInv kwNorm .v n → (∀ t ∈ n.leaves, tokOK t = true) →
    FilterSafe.reindent b (FNode.ofNode n) = true
  | .tok _ _, _, _ => by simp [FNode.ofNode, FilterSafe.reindent]
  | .grp c ks, h, hok => by
    rw [nodeInv_grp] at h
    obtain ⟨hk, hil, hcl, hl⟩ := h
    have hokL : ∀ t ∈ Node.leavesL ks, tokOK t = true := by simpa [Node.leaves] using hok
    have hrec := fun b' => reindentL_of_listInv b' ks hl hokL
    by_cases hc1 : c = .Where
    · subst hc1
      simp only [FNode.ofNode, FilterSafe.reindent, Bool.or_eq_true]
      exact Or.inr (hrec b)
    · by_cases hc2 : c = .Parenthesis
      · subst hc2
        simp only [FNode.ofNode, FilterSafe.reindent, Bool.or_eq_true]
        exact Or.inr (hrec b)
      · by_cases hc3 : c = .Function
        · subst hc3
          simp only [FNode.ofNode, FilterSafe.reindent, Bool.and_eq_true, Bool.not_eq_true']
          refine ⟨?_, hrec true⟩
          cases ks with
          | nil => simp [ilOK] at hil
          | cons _ _ => rfl
        · by_cases hc4 : c = .IdentifierList
          · subst hc4
            simp only [FNode.ofNode, FilterSafe.reindent, Bool.and_eq_true]
            obtain ⟨_, h2, h3⟩ := hcl rfl
            exact ⟨idListOK_of b hl h2 h3 hokL, hrec b⟩
          · by_cases hc5 : c = .Case
            · subst hc5
              simp only [FNode.ofNode, FilterSafe.reindent, Bool.and_eq_true]
              refine ⟨?_, hrec b⟩
              obtain ⟨o, x, rest, rfl, ho, hx⟩ := case_children hk
              simp only [ListInv] at hl
              simp only [FNode.ofNodeL]
              have hcase : (FNode.ofNode o).matchKw "CASE" = true := by
                rw [matchKw_eq "CASE" up_CASE]; exact ho
              refine reindentCaseOK_of _ _ _ hcase ?_ ?_ ?_ ?_ (hasLeaf_of_nodeInv o hl.1)
                (hasLeaf_of_nodeInv x hl.2.1)
              · rw [matchKw_eq "CASE" up_CASE]; exact matchAny_one_of (by decide) hx
              · rw [matchKw_eq "THEN" up_THEN]; exact matchAny_one_of (by decide) hx
              · rw [matchKw_eq "ELSE" up_ELSE]; exact matchAny_one_of (by decide) hx
              · rw [matchKw_eq "END" up_END]; exact matchAny_one_of (by decide) hx
            · by_cases hc6 : c = .Values
              · subst hc6
                simp only [FNode.ofNode, FilterSafe.reindent, List.all_eq_true, Bool.or_eq_true]
                intro y hy
                obtain ⟨x, hx, rfl⟩ := mem_ofNodeL hy
                exact Or.inr (hasLeaf_of_nodeInv x (listInv_iff.1 hl x hx))
              · cases c <;> first
                  | exact absurd rfl hc1
                  | exact absurd rfl hc2
                  | exact absurd rfl hc3
                  | exact absurd rfl hc4
                  | exact absurd rfl hc5
                  | exact absurd rfl hc6
                  | (simp only [FNode.ofNode, FilterSafe.reindent]; exact hrec b)
theorem reindentL_of_listInv (b : Bool) : (ks : List Node) → ListInv kwNorm .v ks →
    (∀ t ∈ Node.leavesL ks, tokOK t = true) → FilterSafe.reindentL b (FNode.ofNodeL ks) = true
  | [], _, _ => by simp [FNode.ofNodeL, FilterSafe.reindentL]
  | k :: ks, h, hok => by
    simp only [ListInv] at h
    obtain ⟨h1, h2⟩ := leavesL_cons_mem hok
    simp only [FNode.ofNodeL, FilterSafe.reindentL, Bool.and_eq_true]
    exact ⟨reindent_of_nodeInv b k h.1 h1, reindentL_of_listInv b ks h.2 h2⟩
end

end DCR

/-- **the grouped tree of a `ReindentSafe` statement lies in the domain of `ReindentFilter`** -/
theorem reindent_domain_of_reindentSafe {st : List Tok} {tree : Node} (hs : ReindentSafe st = true)
    (h : groupStatement 200 st = .ok tree) : FilterSafe.reindent false (FNode.ofNode tree) = true := by
  have hleaf := groupStatement_leaves_strict h
  unfold groupStatement at h
  cases hg : group 200 (st.map fun t => Node.tok t.tt t.val) with
  | error e => simp [hg] at h
  | ok ks =>
    simp only [hg, Except.ok.injEq] at h
    subst h
    have hi : DCR.ListInv kwNorm .v ks := DCR.groupWith_listInv DCR.delimU_kwNorm hs hg
    have htok : ∀ t ∈ st, tokOK t = true := by
      unfold ReindentSafe ReindentSafeWith at hs
      simp only [Bool.and_eq_true, List.all_eq_true] at hs
      exact hs.1.2
    have hok := DCR.tokOK_of_leafRelS hleaf htok
    simp only [FNode.ofNode, FilterSafe.reindent]
    exact DCR.reindentL_of_listInv false ks hi (by simpa [Node.leaves] using hok)

/-- **`reindent` is total on grouped `ReindentSafe` statements** -/
theorem reindent_total_of_reindentSafe {st : List Tok} {tree : Node} (hs : ReindentSafe st = true)
    (h : groupStatement 200 st = .ok tree) (cfg : RCfg) (fuel : Nat) (rst : RSt) (last : Option Text) (e : PyErr)
    (he : reindentProcess cfg fuel rst last (FNode.ofNode tree) = .error e) : e = .recursionError :=
  reindent_total cfg fuel rst last _ (reindent_domain_of_reindentSafe hs h) e he

/-- `ReindentSafe` strengthens `DelimSafe` -/
theorem delimSafe_of_reindentSafe {st : List Tok} (hs : ReindentSafe st = true) : DelimSafe st = true := by
  unfold ReindentSafe ReindentSafeWith at hs
  simp only [Bool.and_eq_true] at hs
  exact hs.1.1

end Sql
