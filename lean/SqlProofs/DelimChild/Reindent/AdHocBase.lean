import SqlProofs.DelimChild.Reindent.Lift
/-!
# SqlProofs.DelimChild.Reindent.AdHocBase — helpers for the loop passes
-/
namespace Sql
namespace DCR
open DC

variable {u : Text → Text}

/-- an index whose child satisfies a predicate that fails on the whole suffix lies in front of the suffix -/
theorem idx_in_front {F S ks : List Node} (hk : ks = F ++ S) {P : Node → Bool} (hS : ∀ y ∈ S, P y = false)
    {t : Nat} {x : Node} (hx : ks[t]? = some x) (hP : P x = true) : t < F.length := by
  by_cases h : t < F.length
  · exact h
  · exfalso
    rw [hk, List.getElem?_append_right (by omega)] at hx
    have := hS x (List.mem_of_getElem? hx)
    rw [this] at hP; cases hP

/-- the next non-whitespace child after an index in front of the suffix, if it satisfies a predicate that fails on
the (non-whitespace) first child of the suffix, lies in front of the suffix too -/
theorem next_in_front {F S ks : List Node} (hk : ks = F ++ S) (hSh : ∀ c, S.head? = some c → c.isWhitespace = false)
    {Q : Node → Bool} (hQ : ∀ c, S.head? = some c → Q c = false) {t n : Nat} {k : Node} (ht : t < F.length)
    (hn : tokenNext ks t = some (n, k)) (hq : Q k = true) : n < F.length := by
  obtain ⟨hlt, hkn, hbetween⟩ := tokenNext_hit hn
  by_cases h : n < F.length
  · exact h
  · exfalso
    have hnlen : n < ks.length := (List.getElem?_eq_some_iff.1 hkn).1
    cases S with
    | nil => rw [hk] at hnlen; simp at hnlen; omega
    | cons c S' =>
      have hc : ks[F.length]? = some c := by
        rw [hk, List.getElem?_append_right (Nat.le_refl _)]; simp
      by_cases hgt : F.length < n
      · have := hbetween F.length c (by omega) hgt hc
        rw [hSh c rfl] at this; cases this
      · have : n = F.length := by omega
        subst this
        have hkc : c = k := by rw [hc] at hkn; exact Option.some.inj hkn
        subst hkc
        rw [hQ c rfl] at hq; cases hq

/-- the same without a condition on the hit: it is at most the first child of the suffix -/
theorem next_le_front {F S ks : List Node} (hk : ks = F ++ S) (hSh : ∀ c, S.head? = some c → c.isWhitespace = false)
    {t n : Nat} {k : Node} (ht : t < F.length) (hn : tokenNext ks t = some (n, k)) :
    n < F.length ∨ (n = F.length ∧ S.head? = some k) := by
  obtain ⟨hlt, hkn, hbetween⟩ := tokenNext_hit hn
  by_cases h : n < F.length
  · exact Or.inl h
  · right
    have hnlen : n < ks.length := (List.getElem?_eq_some_iff.1 hkn).1
    cases S with
    | nil => rw [hk] at hnlen; simp at hnlen; omega
    | cons c S' =>
      have hc : ks[F.length]? = some c := by
        rw [hk, List.getElem?_append_right (Nat.le_refl _)]; simp
      by_cases hgt : F.length < n
      · have := hbetween F.length c (by omega) hgt hc
        rw [hSh c rfl] at this; cases this
      · have : n = F.length := by omega
        subst this
        have hkc : c = k := by rw [hc] at hkn; exact Option.some.inj hkn
        subst hkc
        exact ⟨rfl, rfl⟩

/-- the children of the protected prefix of a frame: the opener and whitespace -/
theorem frame_low {ph : Ph} {c : Cls} {mo mc : List MPat} {L : List Node} {o cl : Node} {ws tail F tr : List Node}
    (hf : FrameAt u ph c mo mc L o cl ws tail F tr) :
    ∀ j x, j < 1 + ws.length → L[j]? = some x → x = o ∨ x.isWhitespace = true := by
  intro j x hj hx
  have e : L = o :: (ws ++ tail) := by have := hf.lead.eq; simpa using this
  rw [e] at hx
  cases j with
  | zero => simp at hx; exact Or.inl hx.symm
  | succ i =>
    simp only [List.getElem?_cons_succ] at hx
    rw [List.getElem?_append_left (by omega)] at hx
    exact Or.inr (hf.lead.ws x (List.mem_of_getElem? hx))

/-- a search whose predicate fails on the opener and on whitespace starts after the protected prefix -/
theorem pend_after_frame {ph : Ph} {c : Cls} {mo mc : List MPat} {L : List Node} {o cl : Node} {ws tail F tr : List Node}
    (hf : FrameAt u ph c mo mc L o cl ws tail F tr) {i : List Cls} {m : List MPat} {t : TArg}
    (ho : imt u o i m t = false) (hw : ∀ x, x.isWhitespace = true → imt u x i m t = false) :
    ∀ t0 tok, tokenNextBy u L i m t 0 = some (t0, tok) → 1 + ws.length ≤ t0 := by
  intro t0 tok hq
  obtain ⟨_, h2, h3⟩ := tokenNextBy_spec hq
  by_cases hlt : t0 < 1 + ws.length
  · rcases frame_low hf t0 tok hlt h2 with rfl | h
    · rw [ho] at h3; cases h3
    · rw [hw tok h] at h3; cases h3
  · omega

/-- from the two one-level facts to `BodyOK` (the unconditional fact is only needed for owners that are not
bracket/block nodes) -/
theorem bodyOK_of (hu : DelimU u) {ph ph' : Ph} (hle : ph.le ph' = true) {al : Bool}
    (hal : al = true → ph'.strict = false ∧ ph' ≠ .v) {c : Cls} {L L' : List Node}
    (h0 : delimTables c = none → Ops al false [] L L')
    (hfr : ∀ mo mc o cl ws tail F tr, FrameAt u ph c mo mc L o cl ws tail F tr →
      PrefRel (1 + ws.length) L L' ∧ Ops al false (cl :: tr) L L' ∧
      (ph'.needWhere = true → Gen.groupableInner.contains c = false → openWhere u L' = false))
    (hk : KidsInv u ph c L) (hi : ListInv u ph' L) :
    KidsInv u ph' c L' ∧ ListInv u ph' L' ∧ (∀ P : Node → Bool, GoodP P → L.any P = true → L'.any P = true) := by
  cases ht : delimTables c with
  | none => exact ⟨kidsInv_of_not_six ht, (h0 ht).listInv hal (fun h0 => nomatch h0) hi, fun _ hP => (h0 ht).anyP hP⟩
  | some p =>
    obtain ⟨mo, mc⟩ := p
    obtain ⟨o, cl, ws, tail, F, tr, hf⟩ := hk mo mc ht
    obtain ⟨h1, h2, h3⟩ := hfr mo mc o cl ws tail F tr hf
    refine ⟨?_, h2.listInv hal (fun h0 => nomatch h0) hi, fun _ hP => h2.anyP hP⟩
    intro mo' mc' ht'
    rw [ht] at ht'
    cases ht'
    exact frame_step hu hle hf h1 h2 h3

theorem trail_P {P : Node → Bool} (h : ∀ x, x.isWhitespace = true ∨ LeadElt u x → P x = false) :
    ∀ x, isTrailing x = true → P x = false := by
  intro x hx
  rcases trail_cases hx with hw | ⟨k, rfl⟩
  · exact h x (Or.inl hw)
  · exact h _ (Or.inr .grp)

theorem inner_false_of_no_tables {c : Cls} (h : delimTables c = none) : Gen.groupableInner.contains c = false := by
  cases c <;> first | rfl | (simp [delimTables, matchingTables] at h)

/-- the suffix `cl :: tr` of a frame: what the loops need of it -/
theorem suffix_facts {ph : Ph} {c : Cls} {mo mc : List MPat} {L : List Node} {o cl : Node} {ws tail F tr : List Node}
    (hf : FrameAt u ph c mo mc L o cl ws tail F tr) {P : Node → Bool} (hd : ∀ x, IsDelim u x → P x = false)
    (ht : ∀ x, isTrailing x = true → P x = false) : ∀ y ∈ cl :: tr, P y = false := by
  intro y hy
  cases hy with
  | head => exact hd _ hf.cd
  | tail _ hy => exact ht y (hf.trail y hy)

/-- a child that triggers a search (which neither whitespace nor a comma does) is an item -/
theorem item_of_trig {P : Node → Bool} (hws : ∀ x, x.isWhitespace = true → P x = false)
    (hc : P (Node.tok T.Punctuation [44]) = false) {tok : Node} (h : P tok = true) : isItem tok = true := by
  by_cases hw : tok.isWhitespace = true
  · rw [hws tok hw] at h; cases h
  · by_cases hcm : isComma tok = true
    · rw [isComma_eq hcm, hc] at h; cases h
    · simp only [isItem, Bool.not_eq_true', Bool.or_eq_false_iff]
      exact ⟨by simpa using hw, by simpa using hcm⟩

/-- the comma is of none of the types / keywords a loop pass looks for -/
macro "comma_simp" : tactic => `(tactic| simp (config := { decide := true }) [Node.matchAny, Node.matchP, Node.match, imt,
  Node.isInstAny, Node.isInst, Node.ttEqAny, Node.ttIn, TType.isIn, T.Keyword, T.Punctuation,
  Gen.group_identifier_ttypes, Gen.group_over_token_next_by0_m, Gen.group_over_token_next_by1_m,
  Gen.group_functions_token_next_by0_t, Gen.group_functions_token_next_by1_t, Gen.group_where_token_next_by0_m,
  Gen.group_where_token_next_by2_m, Gen.group_aliased_I_ALIAS, Gen.group_aliased_token_next_by0_t,
  Gen.group_aliased_token_next_by1_t, Gen.group_order_token_next_by0_t, Gen.group_order_token_next_by1_t,
  Gen.group_values_token_next_by0_m, Gen.group_comments_imt0_t, List.isPrefixOf])

end DCR
end Sql
