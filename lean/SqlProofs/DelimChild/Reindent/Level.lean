import SqlProofs.DelimChild.Reindent.Ops
/-!
# SqlProofs.DelimChild.Reindent.Level — one level: `Ops` keeps the invariant of the children, and `Ops` + `PrefRel` keep the frame
-/
namespace Sql
namespace DCR
open DC

variable {u : Text → Text}

theorem delimTables_none_of_plain {cls : Cls} (h : plainCls cls = true) : delimTables cls = none := by
  cases cls <;> first | rfl | (revert h; decide)

theorem cls_of_isInst_plain {c cls : Cls} {k : List Node} (h : (Node.grp c k).isInst cls = true)
    (hp : plainCls cls = true) : c = cls := by
  simp only [Node.isInst, Bool.or_eq_true, beq_iff_eq] at h
  rcases h with h | h
  · subst h; exact absurd hp (by decide)
  · exact h

theorem mem_pySlice {α : Type} {l : List α} {a b : Nat} {x : α} (h : x ∈ pySlice l a b) : x ∈ l :=
  List.mem_of_mem_take (List.mem_of_mem_drop h)

theorem listInv_take {ph : Ph} {ks : List Node} (h : ListInv u ph ks) (n : Nat) : ListInv u ph (ks.take n) :=
  listInv_iff.2 fun k hk => listInv_iff.1 h k (List.mem_of_mem_take hk)

theorem listInv_drop {ph : Ph} {ks : List Node} (h : ListInv u ph ks) (n : Nat) : ListInv u ph (ks.drop n) :=
  listInv_iff.2 fun k hk => listInv_iff.1 h k (List.mem_of_mem_drop hk)

theorem listInv_pySlice {ph : Ph} {ks : List Node} (h : ListInv u ph ks) (a b : Nat) : ListInv u ph (pySlice ks a b) :=
  listInv_iff.2 fun k hk => listInv_iff.1 h k (mem_pySlice hk)

theorem listInv_splice {ph : Ph} {ks : List Node} (h : ListInv u ph ks) (a e : Nat) {g : Node} (hg : NodeInv u ph g) :
    ListInv u ph (ks.take a ++ g :: ks.drop e) := by
  rw [listInv_append]
  exact ⟨listInv_take h a, by simp only [ListInv]; exact ⟨hg, listInv_drop h e⟩⟩

theorem hasNW_of_ilOK {ks : List Node} (h : ilOK ks = true) : hasNW ks = true := by
  obtain ⟨x, hx, hi⟩ := List.any_eq_true.1 h
  refine List.any_eq_true.2 ⟨x, hx, ?_⟩
  simp only [Bool.not_eq_true', Bool.or_eq_false_iff] at hi ⊢
  simp [hi.1]

theorem hasNW_of_mem {ks : List Node} {x : Node} (hx : x ∈ ks) (hw : x.isWhitespace = false) : hasNW ks = true :=
  List.any_eq_true.2 ⟨x, hx, by simp [hw]⟩

theorem hasNW_append_left {a : List Node} (b : List Node) (h : hasNW a = true) : hasNW (a ++ b) = true := by
  simp only [hasNW, List.any_append, Bool.or_eq_true] at h ⊢
  exact Or.inl h

theorem mem_pySlice_of_idx {α : Type} {l : List α} {a e j : Nat} {x : α} (h1 : a ≤ j) (h2 : j < e) (hx : l[j]? = some x) :
    x ∈ pySlice l a e := by
  unfold pySlice
  have hlt : j < l.length := (List.getElem?_eq_some_iff.1 hx).1
  have : ((l.take e).drop a)[j - a]? = some x := by
    rw [List.getElem?_drop, List.getElem?_take, if_pos (by omega), show a + (j - a) = j by omega]; exact hx
  exact List.mem_of_getElem? this

theorem ilOK_of_mem {ks : List Node} {x : Node} (hx : x ∈ ks) (hi : isItem x = true) : ilOK ks = true :=
  List.any_eq_true.2 ⟨x, hx, hi⟩

theorem ilOK_append_left {a : List Node} (b : List Node) (h : ilOK a = true) : ilOK (a ++ b) = true := by
  simp only [ilOK, List.any_append, Bool.or_eq_true] at h ⊢
  exact Or.inl h

theorem pySlice_snoc {α : Type} {l : List α} {a b : Nat} {y : α} (hab : a ≤ b) (hy : l[b]? = some y) :
    pySlice l a (b + 1) = pySlice l a b ++ [y] := by
  unfold pySlice
  have hlt : b < l.length := (List.getElem?_eq_some_iff.1 hy).1
  have : l.take (b + 1) = l.take b ++ [y] := by
    rw [List.take_succ, hy]; rfl
  rw [this, List.drop_append_of_le_length (by simp [List.length_take]; omega)]

theorem pySlice_cons {α : Type} {l : List α} {a e : Nat} {x : α} (hae : a < e) (hx : l[a]? = some x) :
    pySlice l a e = x :: pySlice l (a + 1) e := by
  unfold pySlice
  have hlt : a < l.length := (List.getElem?_eq_some_iff.1 hx).1
  have h1 : a < (l.take e).length := by simp [List.length_take]; omega
  rw [List.drop_eq_getElem_cons h1]
  congr 1
  rw [List.getElem_take]
  rw [List.getElem?_eq_getElem hlt] at hx
  exact Option.some.inj hx

theorem filter_item_pos {ks : List Node} (h : ilOK ks = true) : 1 ≤ (ks.filter isItem).length := by
  obtain ⟨x, hx, hi⟩ := List.any_eq_true.1 h
  have : x ∈ ks.filter isItem := List.mem_filter.2 ⟨hx, hi⟩
  exact List.length_pos_of_mem this

theorem twoItems_snoc {ks : List Node} {y : Node} (h : ilOK ks = true) (hy : isItem y = true) (mid : List Node) :
    twoItems (ks ++ mid ++ [y]) = true := by
  have := filter_item_pos h
  simp only [twoItems, decide_eq_true_eq, List.filter_append, List.length_append, List.filter_cons, hy, ↓reduceIte,
    List.filter_nil, List.length_cons, List.length_nil]
  omega

theorem lastItem_snoc (l : List Node) {y : Node} (hy : isItem y = true) : lastItem (l ++ [y]) = true := by
  simp [lastItem, hy]

/-- a `group_tokens` call with a plain class keeps the invariant of the children -/
theorem groupTokens'_listInv {ph : Ph} {ks : List Node} {cls : Cls} {a b : Nat} {ext : Bool} {r : List Node × Node}
    (h : groupTokens' ks cls a b true ext = .ok r) (hp : plainCls cls = true)
    (hw : ∃ j x, a ≤ j ∧ j ≤ b ∧ ks[j]? = some x ∧ isItem x = true)
    (hil : cls = .IdentifierList → ph = .v ∧ a < b ∧ (∃ x, ks[a]? = some x ∧ isItem x = true) ∧
      (∃ y, ks[b]? = some y ∧ isItem y = true))
    (hi : ListInv u ph ks) : ListInv u ph r.1 := by
  have hc := groupTokens'_cases h
  simp only [↓reduceIte] at hc
  rcases hc with ⟨c, kids, _, hst, hinst, rfl⟩ | ⟨_, _, rfl⟩
  · have hc : c = cls := cls_of_isInst_plain hinst hp
    subst hc
    have hk := listInv_iff.1 hi _ (List.mem_of_getElem? hst)
    rw [nodeInv_grp] at hk
    refine listInv_splice hi _ _ ?_
    rw [nodeInv_grp]
    refine ⟨kidsInv_of_not_six (delimTables_none_of_plain hp), ilOK_append_left _ hk.2.1, ?_,
      listInv_append.2 ⟨hk.2.2.2, listInv_pySlice hi _ _⟩⟩
    intro hcl
    obtain ⟨hv, hab, _, y, hy, hyi⟩ := hil hcl
    rw [pySlice_snoc (by omega) hy, ← List.append_assoc]
    exact ⟨hv, twoItems_snoc hk.2.1 hyi _, lastItem_snoc _ hyi⟩
  · refine listInv_splice hi _ _ ?_
    rw [nodeInv_grp]
    obtain ⟨j, x, h1, h2, hx, hxi⟩ := hw
    refine ⟨kidsInv_of_not_six (delimTables_none_of_plain hp),
      ilOK_of_mem (mem_pySlice_of_idx h1 (by omega) hx) hxi, ?_, listInv_pySlice hi _ _⟩
    intro hcl
    obtain ⟨hv, hab, ⟨x0, hx0, hx0i⟩, y, hy, hyi⟩ := hil hcl
    rw [pySlice_snoc (by omega) hy, pySlice_cons hab hx0]
    refine ⟨hv, ?_, lastItem_snoc (x0 :: pySlice ks (a + 1) b) hyi⟩
    have h0 : ilOK [x0] = true := by simp [ilOK, isItem] at hx0i ⊢; exact hx0i
    have := twoItems_snoc h0 hyi (pySlice ks (a + 1) b)
    simpa using this

/-! ### whitespace and `Comment` groups appended after the closer (`align_comments`) -/
theorem caseSecondOK_get (c : Cls) (ks : List Node) :
    caseSecondOK u c ks = (c != .Case || match ks[1]? with
      | some x => !x.matchAny u caseNextPat
      | none => true) := by
  unfold caseSecondOK
  cases ks with
  | nil => rfl
  | cons a rest =>
    cases rest with
    | nil => rfl
    | cons b r2 => rfl

theorem caseSecondOK_congr {c : Cls} {ks ks' : List Node} (h : ks'[1]? = ks[1]?) :
    caseSecondOK u c ks' = caseSecondOK u c ks := by
  rw [caseSecondOK_get, caseSecondOK_get, h]

theorem frame_len {ph : Ph} {c : Cls} {mo mc : List MPat} {ks : List Node} {o cl : Node} {ws tail F tr : List Node}
    (hf : FrameAt u ph c mo mc ks o cl ws tail F tr) : 2 ≤ ks.length := by
  cases F with
  | nil => have := hf.fhead; simp at this
  | cons o' mid => rw [hf.eq]; simp; omega

theorem frame_append_trailing {ph : Ph} (hph : ph.strict = false) {c : Cls} {mo mc : List MPat} {ks extra : List Node}
    (hf : Frame u ph c mo mc ks) (hx : ∀ x ∈ extra, isTrailing x = true) : Frame u ph c mo mc (ks ++ extra) := by
  obtain ⟨o, cl, ws, tail, F, tr, hf⟩ := hf
  have htail : tail ≠ [] := by
    intro h0
    have e1 : ks = o :: ws := by have := hf.lead.eq; rw [h0] at this; simpa using this
    cases F with
    | nil => have := hf.fhead; simp at this
    | cons o' mid =>
      have e2 := hf.eq
      rw [e1] at e2
      simp only [List.cons_append, List.cons.injEq] at e2
      have : cl ∈ ws := by rw [e2.2]; simp
      have := hf.lead.ws cl this
      rw [hf.cd.notWs] at this; cases this
  refine ⟨o, cl, ws, tail ++ extra, F, tr ++ extra, ⟨?_, nomem_nil, hf.lead.ws, ?_⟩, ?_, hf.fhead, hf.op, hf.cls, hf.od,
    hf.cd, ?_, ?_, hf.last, ?_, ?_⟩
  · have := hf.lead.eq; rw [this]; simp
  · intro h' hh'
    apply hf.lead.tail
    cases tail with
    | nil => exact absurd rfl htail
    | cons t ts => simpa using hh'
  · rw [hf.eq]; simp
  · intro x hx'
    rcases List.mem_append.1 hx' with h1 | h1
    · exact hf.trail x h1
    · exact hx x h1
  · intro hs; rw [hph] at hs; cases hs
  · intro hw; cases ph <;> simp_all [Ph.strict, Ph.needWhere]
  · have hl := frame_len hf
    rw [caseSecondOK_congr (ks := ks) (by rw [List.getElem?_append_left (by omega)])]
    exact hf.c2

theorem groupTokens'_listInv_align {ph : Ph} (hph : ph.strict = false) (hnv : ph ≠ .v) {ks : List Node} {a b : Nat}
    {r : List Node × Node} {c : Cls} {k : List Node}
    (h : groupTokens' ks .TokenList a b true true = .ok r) (hst : ks[a]? = some (Node.grp c k))
    (htr : ∀ x ∈ pySlice ks (a + 1) (b + 1), isTrailing x = true) (hi : ListInv u ph ks) : ListInv u ph r.1 := by
  have hc := groupTokens'_cases h
  simp only [↓reduceIte] at hc
  rcases hc with ⟨c', kids, _, hst', _, rfl⟩ | ⟨_, hno, _⟩
  · rw [hst] at hst'
    cases hst'
    have hk := listInv_iff.1 hi _ (List.mem_of_getElem? hst)
    rw [nodeInv_grp] at hk
    refine listInv_splice hi _ _ ?_
    rw [nodeInv_grp]
    refine ⟨?_, ilOK_append_left _ hk.2.1, ?_, listInv_append.2 ⟨hk.2.2.2, listInv_pySlice hi _ _⟩⟩
    · intro mo mc ht
      exact frame_append_trailing hph (hk.1 mo mc ht) htr
    · intro hc
      obtain ⟨hv, _, _⟩ := hk.2.2.1 hc
      exact absurd hv hnv
  · rcases hno with h1 | h1
    · cases h1
    · have := h1 _ hst
      simp [Node.isInst] at this

theorem nodeInv_setTType {ph : Ph} {x : Node} (h : NodeInv u ph x) (tt : TType) : NodeInv u ph (x.setTType tt) := by
  cases x with
  | tok _ _ => simp [Node.setTType, NodeInv]
  | grp _ _ => exact h

/-- **`Ops` keeps the invariant of the children** -/
theorem Ops.listInv {al il : Bool} {S ks ks' : List Node} (h : Ops al il S ks ks') {ph : Ph}
    (hal : al = true → ph.strict = false ∧ ph ≠ .v) (hilp : il = true → ph = .v) :
    ListInv u ph ks → ListInv u ph ks' := by
  induction h with
  | refl ks => exact id
  | trans _ _ ih1 ih2 => exact fun hi => ih2 (ih1 hi)
  | group _ hg _ _ hp hw hil =>
    refine groupTokens'_listInv hg hp hw ?_
    intro hc
    obtain ⟨h1, h2, h3, h4⟩ := hil hc
    exact ⟨hilp h1, h2, h3, h4⟩
  | align hal' _ hg _ _ hst htr => exact groupTokens'_listInv_align (hal hal').1 (hal hal').2 hg hst htr
  | @retype F ks i x _ hx _ _ =>
    intro hi
    have hlt : i < ks.length := (List.getElem?_eq_some_iff.1 hx).1
    have hset : ks.set i (x.setTType T.Operator) = ks.take i ++ x.setTType T.Operator :: ks.drop (i + 1) :=
      List.set_eq_take_append_cons_drop.trans (by simp [hlt])
    rw [hset]
    exact listInv_splice hi _ _ (nodeInv_setTType (listInv_iff.1 hi _ (List.mem_of_getElem? hx)) _)

/-! ### the frame of one level -/
theorem lastNonWs_of_head {F : List Node} {o : Node} (hh : F.head? = some o) (ho : o.isWhitespace = false) :
    ∃ s, lastNonWs F = some s := by
  cases F with
  | nil => cases hh
  | cons o' mid =>
    simp only [List.head?_cons, Option.some.injEq] at hh
    subst hh
    rw [lastNonWs_cons, ho]
    cases lastNonWs mid <;> simp

theorem matchAny_headRel_false {x x' : Node} (hr : HeadRel x x') {ps : List MPat} (hps : ∀ p ∈ ps, p.tt ≠ T.Operator)
    (h : x.matchAny u ps = false) : x'.matchAny u ps = false := by
  rcases hr with rfl | hg | rfl
  · exact h
  · cases x' with
    | tok _ _ => cases hg
    | grp _ _ => simp [Node.matchAny, Node.matchP, Node.match]
  · cases x with
    | grp _ _ => exact h
    | tok tt v => exact matchAny_false_of_tt hps

/-- the child right after the opener keeps being harmless for `get_cases` -/
theorem caseSecondOK_prefRel {c : Cls} {L L' : List Node} {o : Node} {ws tail : List Node}
    (hl : LeadAt (openerBad u o) o L [] ws tail) (hpre : PrefRel (1 + ws.length) L L')
    (h : caseSecondOK u c L = true) : caseSecondOK u c L' = true := by
  have e : L = o :: (ws ++ tail) := by have := hl.eq; simpa using this
  cases ws with
  | cons w0 wr =>
    have h1 : L'[1]? = L[1]? := by
      have h2 : (L'.take (1 + (w0 :: wr).length))[1]? = L'[1]? := by
        rw [List.getElem?_take]; simp
      have h3 : (L.take (1 + (w0 :: wr).length))[1]? = L[1]? := by
        rw [List.getElem?_take]; simp
      rw [← h2, hpre.pre, h3]
    rw [caseSecondOK_congr h1]; exact h
  | nil =>
    simp only [List.length_nil, Nat.add_zero] at hpre
    rw [caseSecondOK_get] at h ⊢
    cases hx : L[1]? with
    | none => rw [hpre.none hx]; simpa [hx] using h
    | some x =>
      obtain ⟨x', hx', hr⟩ := hpre.head x hx
      rw [hx']
      rw [hx] at h
      simp only [Bool.or_eq_true, Bool.not_eq_true'] at h ⊢
      rcases h with h | h
      · exact Or.inl h
      · exact Or.inr (matchAny_headRel_false hr (by decide) h)

/-- the protected prefix `o :: ws` and the protected suffix `cl :: tr` survive, the neighbours stay harmless -/
theorem frame_step (hu : DelimU u) {ph ph' : Ph} (hle : ph.le ph' = true) {al il : Bool} {c : Cls} {mo mc : List MPat}
    {L L' : List Node} {o cl : Node} {ws tail F tr : List Node} (hf : FrameAt u ph c mo mc L o cl ws tail F tr)
    (hpre : PrefRel (1 + ws.length) L L') (hops : Ops al il (cl :: tr) L L')
    (hwh : ph'.needWhere = true → Gen.groupableInner.contains c = false → openWhere u L' = false) :
    Frame u ph' c mo mc L' := by
  have hpre' : PrefRel (([] : List Node).length + 1 + ws.length) L L' := by
    have : ([] : List Node).length + 1 + ws.length = 1 + ws.length := by simp
    rw [this]; exact hpre
  obtain ⟨tail', hl'⟩ := leadAt_of_prefRel (openerBad_stable hu hf.od) hf.lead hpre'
  obtain ⟨F', hL', hlast⟩ := hops.suf F hf.eq
  obtain ⟨s0, hs0⟩ := lastNonWs_of_head hf.fhead hf.od.notWs
  obtain ⟨s0', hs0', _⟩ := hlast s0 hs0
  have hF' : F'.head? = some o := by
    cases F' with
    | nil => simp [lastNonWs, firstNonWs] at hs0'
    | cons y ys =>
      have e := hl'.eq
      rw [hL'] at e
      simp only [List.cons_append, List.nil_append, List.cons.injEq] at e
      rw [e.1]; rfl
  have hf' := hf.mono hle
  refine ⟨o, cl, ws, tail', F', tr, hl', hL', hF', hf.op, hf.cls, hf.od, hf.cd, hf.trail, hf'.strict, ?_, hwh,
    caseSecondOK_prefRel hf.lead hpre hf.c2⟩
  intro s hs
  obtain ⟨x, hx⟩ := lastNonWs_of_head hf.fhead hf.od.notWs
  obtain ⟨x', hx', hrel⟩ := hlast x hx
  rw [hx'] at hs
  simp only [Option.some.injEq] at hs
  subst hs
  exact (closerBad_stable hu hf.cd x _ hrel (lastNonWs_mem hx).2 (hf.last x hx)).2

end DCR
end Sql
