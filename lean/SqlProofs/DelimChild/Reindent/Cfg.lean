import SqlProofs.DelimChild.Reindent.Driver
import SqlProofs.Respell.Operator
/-!
# SqlProofs.DelimChild.Reindent.Cfg — the parent-level loop of `_group` keeps the frame and the children's invariant

`CfgD u cfg` collects what the argument needs of a configuration; it holds of the ten aligned configurations
(`group_assignment` does nothing on statements without `:=`).
-/
namespace Sql
namespace DCR
open DC

variable {u : Text → Text}

structure CfgD (u : Text → Text) (cfg : DrvCfg) : Prop where
  al : PostAl3 cfg
  cls : plainCls cfg.cls = true
  inv : ∃ J : List Node → Nat → DrvSt → Prop,
    (∀ token tl idx st st', J (token :: tl) idx st → drvStep cfg st idx token = .ok st' → J tl (idx + 1) st') ∧
    PostKeeps cfg J ∧ ∀ L, J L 0 (drvInit L)
  delimInert : ∀ x, IsDelim u x → cfg.isMatch x = false
  trailInert : ∀ x, isTrailing x = true → x.isWhitespace = true ∨ cfg.isMatch x = false
  openProt : FromT cfg ∨ ∀ o H, IsDelim u o → openerBad u o H = false → cfg.validPrev o = false ∨ cfg.isMatch H = false
  closeProt : ∀ c x, IsDelim u c → closerBad u c x = false → NoTake cfg x c
  matchNC : cfg.cls ≠ .IdentifierList → ∀ x, cfg.isMatch x = true → isComma x = false
  ilc : cfg.cls = .IdentifierList → ILCfg cfg

/-- the `il` flag of `Ops` for a configuration -/
def ilOf (cfg : DrvCfg) : Bool := cfg.cls == .IdentifierList

theorem ilOf_true {cfg : DrvCfg} (h : cfg.cls = .IdentifierList) : ilOf cfg = true := by simp [ilOf, h]
theorem ilOf_cls {cfg : DrvCfg} (h : ilOf cfg = true) : cfg.cls = .IdentifierList := by simpa [ilOf] using h

theorem Ph.le_refl (ph : Ph) : ph.le ph = true := by cases ph <;> rfl

theorem drvLoop_ops0 {cfg : DrvCfg} (hc : CfgD u cfg) {L : List Node} {st : DrvSt}
    (h : drvLoop cfg L 0 (drvInit L) = .ok st) : Ops false (ilOf cfg) [] L st.cur := by
  obtain ⟨J, hJ, hpk, hJ0⟩ := hc.inv
  have := drvLoop_ops_gen hc.al hc.cls hJ hpk (S := []) (F := L) (fun _ hx => nomatch hx) (fun _ hh => by cases hh)
    (fun _ hh => by cases hh) hc.matchNC hc.ilc (il := ilOf cfg) ilOf_true L [] 0 (drvInit L) st 0 rfl
    (by simpa using al_init L) (by simpa [drvInit] using PrefRel.refl 0 L) (by simpa using hJ0 L)
    (by simpa using hn_init L) (hp_init L)
    (by simpa [drvInit] using Ops.refl (al := false) (il := ilOf cfg) (S := []) L) (by simpa using h)
  simpa using this

/-- the loop on any list keeps the invariant of the children -/
theorem drvLoop_listInv {cfg : DrvCfg} (hc : CfgD u cfg) {ph : Ph} (hv : cfg.cls = .IdentifierList → ph = .v)
    {L : List Node} {st : DrvSt} (h : drvLoop cfg L 0 (drvInit L) = .ok st) (hi : ListInv u ph L) :
    ListInv u ph st.cur :=
  (drvLoop_ops0 hc h).listInv (fun h0 => by cases h0) (fun h0 => hv (ilOf_cls h0)) hi

/-- … and the frame of a bracket/block node -/
theorem drvLoop_frame (hu : DelimU u) {cfg : DrvCfg} (hc : CfgD u cfg) {ph ph' : Ph} (hle : ph.le ph' = true)
    (hph : ph'.needWhere = false) {c : Cls}
    {mo mc : List MPat} {L : List Node} {st : DrvSt} (h : drvLoop cfg L 0 (drvInit L) = .ok st)
    (hf : Frame u ph c mo mc L) : Frame u ph' c mo mc st.cur := by
  obtain ⟨o, cl, ws, tail, F, tr, hf⟩ := hf
  obtain ⟨J, hJ, hpk, hJ0⟩ := hc.inv
  -- opener side
  have e1 : L = (o :: ws) ++ tail := by have := hf.lead.eq; simpa using this
  have hprot : Prot cfg (o :: ws) tail := by
    refine ⟨?_, ?_⟩
    · intro x hx
      cases hx with
      | head => exact Or.inr (hc.delimInert o hf.od)
      | tail _ hx => exact Or.inl (hf.lead.ws x hx)
    · intro H hH
      obtain ⟨hw, hb⟩ := hf.lead.tail H hH
      refine ⟨hw, ?_⟩
      intro pidx p hp
      have := lastPrev_lead (pre := []) hf.od.notWs hf.lead.ws
      simp only [List.nil_append] at this
      rw [this] at hp
      cases hp
      rcases hc.openProt with h1 | h1
      · exact Or.inl h1
      · exact Or.inr (h1 o H hf.od hb)
  have hpre : PrefRel (o :: ws).length L st.cur := by
    have h' := h
    rw [e1] at h' ⊢
    exact drvLoop_protect hc.al hprot h'
  -- closer side
  have hops : Ops false (ilOf cfg) (cl :: tr) L st.cur := by
    have h' := h
    rw [hf.eq] at h' ⊢
    refine drvLoop_ops_gen hc.al hc.cls hJ hpk (S := cl :: tr) (F := F) ?_ ?_ ?_ hc.matchNC hc.ilc ilOf_true F [] 0 _ st 0
      rfl (al_init _) (PrefRel.refl 0 _) (hJ0 _) (hn_init _) (hp_init _) (Ops.refl _) h'
    · intro x hx
      cases hx with
      | head => exact Or.inr (hc.delimInert cl hf.cd)
      | tail _ hx => exact hc.trailInert x (hf.trail x hx)
    · intro c' hc'
      simp only [List.head?_cons, Option.some.injEq] at hc'
      subst hc'; exact hf.cd.notWs
    · intro c' hc' x hx
      simp only [List.head?_cons, Option.some.injEq] at hc'
      subst hc'
      exact hc.closeProt _ x hf.cd (hf.last x hx)
  refine frame_step hu hle hf (by simpa [Nat.add_comm] using hpre) hops ?_
  intro hw; rw [hph] at hw; cases hw

end DCR
end Sql
