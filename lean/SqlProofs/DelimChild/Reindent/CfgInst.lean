import SqlProofs.DelimChild.Reindent.Cfg
/-!
# SqlProofs.DelimChild.Reindent.CfgInst — `CfgD` for the ten aligned `_group` configurations
-/
namespace Sql
namespace DCR
open DC

variable {u : Text → Text}

theorem isComma_eq {x : Node} (h : isComma x = true) : x = Node.tok T.Punctuation [44] := by
  cases x with
  | grp _ _ => cases h
  | tok t v =>
    simp only [isComma, Bool.and_eq_true, beq_iff_eq] at h
    rw [h.1, h.2]

theorem matchNC_of {cfg : DrvCfg} (h : cfg.isMatch (Node.tok T.Punctuation [44]) = false) :
    ∀ x, cfg.isMatch x = true → isComma x = false := by
  intro x hx
  by_cases hc : isComma x = true
  · rw [isComma_eq hc, h] at hx; cases hx
  · simpa using hc

theorem openerBad_mem {cfg : DrvCfg} (hm : cfg ∈ prevAbsorbers u) {o H : Node} (h : openerBad u o H = false) :
    cfg.validPrev o = false ∨ cfg.isMatch H = false := by
  unfold openerBad at h
  have := List.any_eq_false.1 h cfg hm
  simp only [Bool.and_eq_true, not_and, Bool.not_eq_true] at this
  by_cases hh : cfg.isMatch H = true
  · exact Or.inl (this hh)
  · exact Or.inr (by simpa using hh)

theorem closerBad_mem {cfg : DrvCfg} (hm : cfg ∈ nextAbsorbers u) {c x : Node} (h : closerBad u c x = false) :
    NoTake cfg x c := by
  unfold closerBad at h
  simp only [Bool.or_eq_false_iff] at h
  have := List.any_eq_false.1 h.1 cfg hm
  simp only [Bool.and_eq_true, not_and, Bool.not_eq_true] at this
  by_cases hh : cfg.isMatch x = true
  · exact Or.inr (Or.inl (this hh))
  · exact Or.inl (by simpa using hh)

theorem trail_cases {x : Node} (h : isTrailing x = true) : x.isWhitespace = true ∨ ∃ k, x = Node.grp .Comment k := by
  simp only [isTrailing, Bool.or_eq_true] at h
  rcases h with h | h
  · exact Or.inl h
  · cases x with
    | tok _ _ => simp [Node.isInst] at h
    | grp c k =>
      simp only [Node.isInst, Bool.or_eq_true, beq_iff_eq] at h
      rcases h with h | h
      · cases h
      · subst h; exact Or.inr ⟨k, rfl⟩

theorem trail_inert {cfg : DrvCfg} (hi : ∀ x, LeadElt u x → cfg.isMatch x = false) :
    ∀ x, isTrailing x = true → x.isWhitespace = true ∨ cfg.isMatch x = false := by
  intro x hx
  rcases trail_cases hx with h | ⟨k, rfl⟩
  · exact Or.inl h
  · exact Or.inr (hi _ .grp)

theorem inv_of_id {cfg : DrvCfg} (h : ∀ cur p t n r, cfg.post cur p t n = .ok r → r.1 = cur) :
    ∃ J : List Node → Nat → DrvSt → Prop,
      (∀ token tl idx st st', J (token :: tl) idx st → drvStep cfg st idx token = .ok st' → J tl (idx + 1) st') ∧
      PostKeeps cfg J ∧ ∀ L, J L 0 (drvInit L) :=
  ⟨fun _ _ _ => True, fun _ _ _ _ _ _ _ => trivial,
    fun _ _ _ _ _ _ _ _ _ _ hp => Or.inl (h _ _ _ _ _ hp), fun _ => trivial⟩

theorem post_id_prevNext {cur : List Node} {p t : Nat} {n : Option Nat} {r : List Node × Nat × Nat}
    (h : postPrevNext cur p t n = .ok r) : r.1 = cur := (postPrevNext_al3 h).1
theorem post_id_tokNext {cur : List Node} {p t : Nat} {n : Option Nat} {r : List Node × Nat × Nat}
    (h : postTokNext cur p t n = .ok r) : r.1 = cur := (postTokNext_al3 h).1

theorem cfgD_typecasts (hu : DelimU u) : CfgD u (cfgTypecasts u) where
  al := postAl3_typecasts u
  cls := rfl
  inv := inv_of_id fun cur p t n _ h => post_id_prevNext (cur := cur) (p := p) (t := t) (n := n) h
  delimInert := fun _ h => delim_typecasts hu h
  trailInert := trail_inert fun _ h => typecasts_inert h
  openProt := .inr fun _ _ _ hb => openerBad_mem (by simp [prevAbsorbers]) hb
  closeProt := fun _ _ _ hb => closerBad_mem (by simp [nextAbsorbers]) hb
  matchNC := fun _ => matchNC_of (by
    simp only [cfgTypecasts, cfgTzcasts, cfgTypedLiteral0, cfgTypedLiteral1, cfgPeriod, cfgArrays, cfgAs, cfgComparison,
      cfgOperator]
    delim_simp)
  ilc := fun h => nomatch h


theorem cfgD_tzcasts (hu : DelimU u) : CfgD u (cfgTzcasts u) where
  al := postAl3_tzcasts u
  cls := rfl
  inv := inv_of_id fun cur p t n _ h => post_id_prevNext (cur := cur) (p := p) (t := t) (n := n) h
  delimInert := fun _ h => delim_tzcasts hu h
  trailInert := trail_inert fun _ h => tzcasts_inert h
  openProt := .inr fun _ _ _ hb => openerBad_mem (by simp [prevAbsorbers]) hb
  closeProt := fun _ _ _ hb => closerBad_mem (by simp [nextAbsorbers]) hb
  matchNC := fun _ => matchNC_of (by
    simp only [cfgTypecasts, cfgTzcasts, cfgTypedLiteral0, cfgTypedLiteral1, cfgPeriod, cfgArrays, cfgAs, cfgComparison,
      cfgOperator]
    delim_simp)
  ilc := fun h => nomatch h


theorem cfgD_typedLiteral0 (hu : DelimU u) : CfgD u (cfgTypedLiteral0 u) where
  al := postAl3_typedLiteral0 u
  cls := rfl
  inv := inv_of_id fun cur p t n _ h => post_id_tokNext (cur := cur) (p := p) (t := t) (n := n) h
  delimInert := fun _ h => delim_typedLiteral0 hu h
  trailInert := trail_inert fun _ h => typedLiteral0_inert h
  openProt := .inl (fromT_typedLiteral0 u)
  closeProt := fun _ _ _ hb => closerBad_mem (by simp [nextAbsorbers]) hb
  matchNC := fun _ => matchNC_of (by
    simp only [cfgTypecasts, cfgTzcasts, cfgTypedLiteral0, cfgTypedLiteral1, cfgPeriod, cfgArrays, cfgAs, cfgComparison,
      cfgOperator]
    delim_simp)
  ilc := fun h => nomatch h


theorem cfgD_typedLiteral1 (hu : DelimU u) : CfgD u (cfgTypedLiteral1 u) where
  al := postAl3_typedLiteral1 u
  cls := rfl
  inv := inv_of_id fun cur p t n _ h => post_id_tokNext (cur := cur) (p := p) (t := t) (n := n) h
  delimInert := fun _ h => delim_typedLiteral1 hu h
  trailInert := trail_inert fun _ h => typedLiteral1_inert h
  openProt := .inl (fromT_typedLiteral1 u)
  closeProt := fun _ _ _ hb => closerBad_mem (by simp [nextAbsorbers]) hb
  matchNC := fun _ => matchNC_of (by
    simp only [cfgTypecasts, cfgTzcasts, cfgTypedLiteral0, cfgTypedLiteral1, cfgPeriod, cfgArrays, cfgAs, cfgComparison,
      cfgOperator]
    delim_simp)
  ilc := fun h => nomatch h


theorem cfgD_period (hu : DelimU u) : CfgD u (cfgPeriod u) where
  al := postAl3_period u
  cls := rfl
  inv := inv_of_id fun cur p t n r h => by
    change postPeriod u cur p t n = .ok r at h
    unfold postPeriod at h
    cases n with
    | none => cases h; rfl
    | some n' =>
      simp only at h
      split at h
      · cases h
      · split at h <;> (cases h; rfl)
  delimInert := fun _ h => delim_period hu h
  trailInert := trail_inert fun _ h => period_inert h
  openProt := .inr fun _ _ _ hb => openerBad_mem (by simp [prevAbsorbers]) hb
  closeProt := fun c x hc _ => by
    refine Or.inr (Or.inr ?_)
    intro cur p t n r h hcn
    change postPeriod u cur p t (some n) = .ok r at h
    unfold postPeriod at h
    simp only [hcn, delim_post_period hu hc, Bool.false_eq_true, ↓reduceIte] at h
    cases h; rfl
  matchNC := fun _ => matchNC_of (by
    simp only [cfgTypecasts, cfgTzcasts, cfgTypedLiteral0, cfgTypedLiteral1, cfgPeriod, cfgArrays, cfgAs, cfgComparison,
      cfgOperator]
    delim_simp)
  ilc := fun h => nomatch h


theorem cfgD_arrays (hu : DelimU u) : CfgD u (cfgArrays u) where
  al := postAl3_arrays u
  cls := rfl
  inv := inv_of_id fun cur p t n r h => by
    change postPrevTok cur p t n = .ok r at h
    cases h; rfl
  delimInert := fun _ h => delim_arrays hu h
  trailInert := trail_inert fun _ h => arrays_inert h
  openProt := .inr fun _ _ _ hb => openerBad_mem (by simp [prevAbsorbers]) hb
  closeProt := fun c x _ _ => by
    refine Or.inr (Or.inr ?_)
    intro cur p t n r h _
    change postPrevTok cur p t (some n) = .ok r at h
    cases h; rfl
  matchNC := fun _ => matchNC_of (by
    simp only [cfgTypecasts, cfgTzcasts, cfgTypedLiteral0, cfgTypedLiteral1, cfgPeriod, cfgArrays, cfgAs, cfgComparison,
      cfgOperator]
    delim_simp)
  ilc := fun h => nomatch h


theorem cfgD_as (hu : DelimU u) : CfgD u (cfgAs u) where
  al := postAl3_as u
  cls := rfl
  inv := inv_of_id fun cur p t n _ h => post_id_prevNext (cur := cur) (p := p) (t := t) (n := n) h
  delimInert := fun _ h => delim_as hu h
  trailInert := trail_inert fun _ h => as_inert h
  openProt := .inr fun _ _ _ hb => openerBad_mem (by simp [prevAbsorbers]) hb
  closeProt := fun _ _ _ hb => closerBad_mem (by simp [nextAbsorbers]) hb
  matchNC := fun _ => matchNC_of (by
    simp only [cfgTypecasts, cfgTzcasts, cfgTypedLiteral0, cfgTypedLiteral1, cfgPeriod, cfgArrays, cfgAs, cfgComparison,
      cfgOperator]
    delim_simp)
  ilc := fun h => nomatch h


theorem cfgD_comparison (hu : DelimU u) : CfgD u (cfgComparison u) where
  al := postAl3_comparison u
  cls := rfl
  inv := inv_of_id fun cur p t n _ h => post_id_prevNext (cur := cur) (p := p) (t := t) (n := n) h
  delimInert := fun _ h => delim_comparison hu h
  trailInert := trail_inert fun _ h => comparison_inert h
  openProt := .inr fun _ _ _ hb => openerBad_mem (by simp [prevAbsorbers]) hb
  closeProt := fun _ _ _ hb => closerBad_mem (by simp [nextAbsorbers]) hb
  matchNC := fun _ => matchNC_of (by
    simp only [cfgTypecasts, cfgTzcasts, cfgTypedLiteral0, cfgTypedLiteral1, cfgPeriod, cfgArrays, cfgAs, cfgComparison,
      cfgOperator]
    delim_simp)
  ilc := fun h => nomatch h


theorem il_post : ∀ cur p t n r, (cfgIdentifierList u).post cur p t n = .ok r →
    r.1 = cur ∧ r.2.1 = p ∧ ∃ n', n = some n' ∧ r.2.2 = n' := by
  intro cur p t n r h
  change postPrevNext cur p t n = .ok r at h
  unfold postPrevNext at h
  cases n with
  | none => cases h
  | some n' => cases h; exact ⟨rfl, rfl, n', rfl, rfl⟩

theorem il_valid : ∀ x, validIdentifierList u (some x) = true → isItem x = true := by
  intro x hx
  cases x with
  | grp _ _ => rfl
  | tok tt v =>
    have hw : (Node.tok tt v).isWhitespace = false := by
      by_cases hw : (Node.tok tt v).isWhitespace = true
      · obtain ⟨r, rfl⟩ := isIn_ws (by simpa [Node.isWhitespace] using hw)
        simp (config := { decide := true }) [validIdentifierList, imtOpt, imt, Node.isInstAny,
          Node.isInst, Node.ttEqAny, Node.matchP, Node.match, Gen.group_identifier_list_ttypes,
          Gen.group_identifier_list_m_role, Gen.group_identifier_list_sqlcls] at hx
      · simpa using hw
    by_cases ht : tt = T.Punctuation
    · subst ht
      simp (config := { decide := true }) [validIdentifierList, imtOpt, imt, Node.isInstAny,
        Node.isInst, Node.ttEqAny, Node.matchP, Node.match, Gen.group_identifier_list_ttypes,
        Gen.group_identifier_list_m_role, T.Punctuation] at hx
    · simp [isItem, hw, isComma, ht]

theorem cfgD_identifierList (hu : DelimU u) : CfgD u (cfgIdentifierList u) where
  al := postAl3_identifierList u
  cls := rfl
  inv := inv_of_id fun cur p t n _ h => post_id_prevNext (cur := cur) (p := p) (t := t) (n := n) h
  delimInert := fun _ h => delim_identifierList hu h
  trailInert := trail_inert fun _ h => identifierList_inert h
  openProt := .inr fun _ _ _ hb => openerBad_mem (by simp [prevAbsorbers]) hb
  closeProt := fun _ _ _ hb => closerBad_mem (by simp [nextAbsorbers]) hb

  matchNC := fun h => absurd rfl h
  ilc := fun _ => ⟨il_post, il_valid, il_valid⟩

/-- `group_operator`: `tlist[tidx]` is the matched token (head alignment for matching elements, `Respell/Operator.lean`) -/
theorem cfgD_operator (hu : DelimU u) : CfgD u (cfgOperator u) where
  al := postAl3_operator u
  cls := rfl
  inv := by
    refine ⟨OpInv (cfgOperator u), ?_, ?_, fun L => ⟨aInv2_init L, matchAligned_init _ L⟩⟩
    · intro token tl idx st st' hj hs
      exact ⟨drvStep_A2 (opCfg_operator u).al hj.1 hs, drvStep_matchAligned (opCfg_operator u) hj.1 hj.2 hs⟩
    · intro token tl idx st hj hnn hmatch p n r hpost
      obtain ⟨_, hcur⟩ := hj.2 0 token (by simp) (by simp) hmatch
      simp only [Int.natCast_zero, Int.add_zero] at hcur
      change postOperator st.cur p _ n = .ok r at hpost
      unfold postOperator at hpost
      rw [hcur] at hpost
      simp only at hpost
      cases n with
      | none => cases hpost
      | some n' =>
        cases hpost
        exact Or.inr ⟨token, hcur, (opCfg_operator u).matchNotWs token hmatch, rfl⟩
  delimInert := fun _ h => delim_operator hu h
  trailInert := trail_inert fun _ h => operator_inert h
  openProt := .inr fun _ _ _ hb => openerBad_mem (by simp [prevAbsorbers]) hb
  closeProt := fun _ _ _ hb => closerBad_mem (by simp [nextAbsorbers]) hb
  matchNC := fun _ => matchNC_of (by
    simp only [cfgTypecasts, cfgTzcasts, cfgTypedLiteral0, cfgTypedLiteral1, cfgPeriod, cfgArrays, cfgAs, cfgComparison,
      cfgOperator]
    delim_simp)
  ilc := fun h => nomatch h

end DCR
end Sql

