import SqlProofs.DelimChild.Reindent.Align
/-!
# SqlProofs.DelimChild.Reindent.Bodies — `BodyOK` for the bodies of the loop passes
-/
namespace Sql
namespace DCR
open DC

variable {u : Text → Text}

theorem nomem {P : Node → Prop} : ∀ y ∈ ([] : List Node), P y := fun _ h => nomatch h
theorem nohead {P : Node → Prop} : ∀ c, ([] : List Node).head? = some c → P c := fun _ h => nomatch h

theorem bodyOK_identifier (hu : DelimU u) {ph : Ph} (hph : ph.needWhere = false) :
    BodyOK u ph ph (groupIdentifierBody u) := by
  intro c L L' h hk hi
  unfold groupIdentifierBody at h
  have hpend : ∀ t tok, tokenNextBy u L [] [] Gen.group_identifier_ttypes 0 = some (t, tok) →
      L[t]? = some tok ∧ imt u tok [] [] Gen.group_identifier_ttypes = true := fun t tok hq => pend_of_nextBy _ _ hq
  refine bodyOK_of hu (Ph.le_refl ph) (al := false) (fun h0 => by cases h0) ?_ ?_ hk hi
  · intro _
    exact identifierLoop_ops (S := []) nomem _ _ _ _ h L (by simp) hpend
  · intro mo mc o cl ws tail F tr hf
    refine ⟨identifierLoop_pref _ _ _ _ h
      (pend_after_frame hf (dtrig_identifier hu hf.od) (fun x hw => trig_identifier (Or.inl hw))), ?_, ?_⟩
    · exact identifierLoop_ops
        (suffix_facts hf (fun x hx => dtrig_identifier hu hx) (trail_P fun x hx => trig_identifier hx))
        _ _ _ _ h F hf.eq hpend
    · intro hw; rw [hph] at hw; cases hw

theorem bodyOK_over (hu : DelimU u) : BodyOK u .w .w (groupOverBody u) := by
  intro c L L' h hk hi
  unfold groupOverBody at h
  have hpend : ∀ t tok, tokenNextBy u L [] Gen.group_over_token_next_by0_m .none 0 = some (t, tok) →
      L[t]? = some tok ∧ imt u tok [] Gen.group_over_token_next_by1_m .none = true :=
    fun t tok hq => pend_of_nextBy _ _ hq
  refine bodyOK_of hu (Ph.le_refl _) (al := false) (fun h0 => by cases h0) ?_ ?_ hk hi
  · intro _
    exact overLoop_ops (S := []) nomem nohead nohead _ _ _ _ h L (by simp) hpend
  · intro mo mc o cl ws tail F tr hf
    refine ⟨overLoop_pref _ _ _ _ h
      (pend_after_frame hf (dtrig_over hu hf.od) (fun x hw => trig_over (Or.inl hw))), ?_, ?_⟩
    · refine overLoop_ops
        (suffix_facts hf (fun x hx => dtrig_over1 hu hx) (trail_P fun x hx => trig_over hx)) ?_ ?_
        _ _ _ _ h F hf.eq hpend
      · intro c' hc'
        simp only [List.head?_cons, Option.some.injEq] at hc'
        subst hc'; exact hf.cd.notWs
      · intro c' hc'
        simp only [List.head?_cons, Option.some.injEq] at hc'
        subst hc'; exact dnext_over hu hf.cd
    · intro hw hc
      exact overLoop_openWhere hu _ _ _ _ h (hf.wh hw hc) hpend

theorem bodyOK_functions (hu : DelimU u) : BodyOK u .w .w (groupFunctionsBody u) := by
  intro c L L' h hk hi
  unfold groupFunctionsBody at h
  split at h
  · cases h; exact ⟨hk, hi, fun _ _ h0 => h0⟩
  · have hpend : ∀ t tok, tokenNextBy u L [] [] Gen.group_functions_token_next_by0_t 0 = some (t, tok) →
        L[t]? = some tok ∧ imt u tok [] [] Gen.group_functions_token_next_by1_t = true :=
      fun t tok hq => pend_of_nextBy _ _ hq
    refine bodyOK_of hu (Ph.le_refl _) (al := false) (fun h0 => by cases h0) ?_ ?_ hk hi
    · intro _
      exact functionsLoop_ops (S := []) nomem nohead nohead _ _ _ _ h L (by simp) hpend
    · intro mo mc o cl ws tail F tr hf
      refine ⟨functionsLoop_pref _ _ _ _ h
        (pend_after_frame hf (dtrig_functions hu hf.od) (fun x hw => trig_functions (Or.inl hw))), ?_, ?_⟩
      · refine functionsLoop_ops
          (suffix_facts hf (fun x hx => dtrig_functions hu hx) (trail_P fun x hx => trig_functions hx)) ?_ ?_
          _ _ _ _ h F hf.eq hpend
        · intro c' hc'
          simp only [List.head?_cons, Option.some.injEq] at hc'
          subst hc'; exact hf.cd.notWs
        · intro c' hc'
          simp only [List.head?_cons, Option.some.injEq] at hc'
          subst hc'; exact hf.cd.leaf
      · intro hw hc
        exact functionsLoop_openWhere _ _ _ _ h (hf.wh hw hc) hpend

theorem bodyOK_where (hu : DelimU u) : BodyOK u .w .s (groupWhereBody u) := by
  intro c L L' h hk hi
  unfold groupWhereBody at h
  have hpend : ∀ t tok, tokenNextBy u L [] Gen.group_where_token_next_by0_m .none 0 = some (t, tok) →
      L[t]? = some tok ∧ imt u tok [] Gen.group_where_token_next_by2_m .none = true :=
    fun t tok hq => pend_of_nextBy _ _ hq
  refine bodyOK_of hu (ph := .w) (ph' := .s) rfl (al := false) (fun h0 => by cases h0) ?_ ?_ hk hi
  · intro ht
    exact whereLoop_ops c (S := []) nomem nomem _ _ _ _ h L (by simp)
      (Or.inl ⟨rfl, inner_false_of_no_tables ht⟩) hpend
  · intro mo mc o cl ws tail F tr hf
    have htr : tr = [] := hf.strict rfl
    subst htr
    refine ⟨whereLoop_pref _ _ _ _ h
      (pend_after_frame hf (dtrig_where hu hf.od) (fun x hw => trig_where (Or.inl hw))), ?_, ?_⟩
    · refine whereLoop_ops c (S := [cl]) ?_ ?_ _ _ _ _ h F hf.eq ?_ hpend
      · intro y hy
        simp only [List.mem_singleton] at hy
        subst hy; exact dtrig_where2 hu hf.cd
      · intro y hy
        simp only [List.mem_singleton] at hy
        subst hy; exact dtrig_whereClose hu hf.cd
      · refine Or.inr ⟨rfl, ?_⟩
        by_cases hin : Gen.groupableInner.contains c = true
        · exact Or.inl hin
        · exact Or.inr (hf.wh rfl (by simpa using hin))
    · intro hw; cases hw

theorem bodyOK_aliased (hu : DelimU u) {ph : Ph} (hph : ph.needWhere = false) :
    BodyOK u ph ph (groupAliasedBody u) := by
  intro c L L' h hk hi
  unfold groupAliasedBody at h
  have hpend : ∀ t tok, tokenNextBy u L Gen.group_aliased_I_ALIAS [] Gen.group_aliased_token_next_by0_t 0 =
      some (t, tok) → L[t]? = some tok ∧
        imt u tok Gen.group_aliased_I_ALIAS [] Gen.group_aliased_token_next_by1_t = true :=
    fun t tok hq => pend_of_nextBy _ _ hq
  refine bodyOK_of hu (Ph.le_refl ph) (al := false) (fun h0 => by cases h0) ?_ ?_ hk hi
  · intro _
    exact aliasedLoop_ops (S := []) nomem nohead nohead _ _ _ _ h L (by simp) hpend
  · intro mo mc o cl ws tail F tr hf
    refine ⟨aliasedLoop_pref _ _ _ _ h
      (pend_after_frame hf (dtrig_aliased hu hf.od) (fun x hw => trig_aliased (Or.inl hw))), ?_, ?_⟩
    · refine aliasedLoop_ops
        (suffix_facts hf (fun x hx => dtrig_aliased hu hx) (trail_P fun x hx => trig_aliased hx)) ?_ ?_
        _ _ _ _ h F hf.eq hpend
      · intro c' hc'
        simp only [List.head?_cons, Option.some.injEq] at hc'
        subst hc'; exact hf.cd.notWs
      · intro c' hc'
        simp only [List.head?_cons, Option.some.injEq] at hc'
        subst hc'; exact hf.cd.leaf
    · intro hw; rw [hph] at hw; cases hw

theorem bodyOK_order (hu : DelimU u) {ph : Ph} (hph : ph.needWhere = false) :
    BodyOK u ph ph (groupOrderBody u) := by
  intro c L L' h hk hi
  unfold groupOrderBody at h
  have hpend : ∀ t tok, tokenNextBy u L [] [] Gen.group_order_token_next_by0_t 0 = some (t, tok) →
      L[t]? = some tok ∧ imt u tok [] [] Gen.group_order_token_next_by1_t = true :=
    fun t tok hq => pend_of_nextBy _ _ hq
  refine bodyOK_of hu (Ph.le_refl ph) (al := false) (fun h0 => by cases h0) ?_ ?_ hk hi
  · intro _
    exact orderLoop_ops (S := []) nomem _ _ _ _ h L (by simp) hpend
  · intro mo mc o cl ws tail F tr hf
    refine ⟨orderLoop_pref _ _ _ _ h
      (pend_after_frame hf (dtrig_order hu hf.od) (fun x hw => trig_order (Or.inl hw))) ?_, ?_, ?_⟩
    · intro j x hj hx
      rcases frame_low hf j x hj hx with rfl | hw
      · exact Or.inr (dprev_order hu hf.od)
      · exact Or.inl hw
    · exact orderLoop_ops
        (suffix_facts hf (fun x hx => dtrig_order hu hx) (trail_P fun x hx => trig_order hx))
        _ _ _ _ h F hf.eq hpend
    · intro hw; rw [hph] at hw; cases hw

theorem bodyOK_align (hu : DelimU u) : BodyOK u .s .t (alignCommentsBody u) := by
  intro c L L' h hk hi
  unfold alignCommentsBody at h
  have hpend : ∀ t tok, tokenNextBy u L Gen.align_comments_token_next_by0_i [] .none 0 = some (t, tok) →
      L[t]? = some tok ∧ imt u tok Gen.align_comments_token_next_by1_i [] .none = true :=
    fun t tok hq => pend_of_nextBy _ _ hq
  refine bodyOK_of hu (ph := .s) (ph' := .t) rfl (al := true) (fun _ => ⟨rfl, by decide⟩) ?_ ?_ hk hi
  · intro _
    exact alignLoop_ops (S := []) nomem _ _ _ _ h L (by simp) hpend
  · intro mo mc o cl ws tail F tr hf
    have htr : tr = [] := hf.strict rfl
    subst htr
    refine ⟨alignLoop_pref _ _ _ _ h
      (pend_after_frame hf (dtrig_align hu hf.od) (fun x hw => ws_trig_align hw)) ?_, ?_, ?_⟩
    · intro j x hj hx
      rcases frame_low hf j x hj hx with rfl | hw
      · exact hf.od.leaf
      · cases x with
        | tok _ _ => rfl
        | grp _ _ => simp [Node.isWhitespace] at hw
    · refine alignLoop_ops (S := [cl]) ?_ _ _ _ _ h F hf.eq hpend
      intro y hy
      simp only [List.mem_singleton] at hy
      subst hy; exact dtrig_align hu hf.cd
    · intro hw; cases hw

end DCR
end Sql
