import SqlProofs.DelimChild.Cases
/-!
# SqlProofs.DelimChild.Reindent.Cases2 — `get_cases(skip_ws=False)` once the first case has a first condition token

From a state whose first case is `(some (e0 :: _), _)` and whose other cases all pass `caseBreakOK`, `getCasesGo`
returns, and the result has the same shape; every entry is an entry of the input.
-/
namespace Sql
namespace DCR
open DC

open FilterSafe

/-- the first case starts with the condition token `e0` -/
def headOK (e0 : Nat × FNode) (cv : CV) : Prop := ∃ c v, cv = (some (e0 :: c), v)

/-- what a case must satisfy at its position -/
def okAt (e0 : Nat × FNode) (isHead : Bool) (cv : CV) : Prop :=
  if isHead then headOK e0 cv else caseBreakOK cv = true

def Shape2 (e0 : Nat × FNode) (ret : List CV) : Prop :=
  ∃ hd tl, ret = hd :: tl ∧ headOK e0 hd ∧ ∀ cv ∈ tl, caseBreakOK cv = true

theorem shape2_snoc {e0 : Nat × FNode} {ret : List CV} (h : Shape2 e0 ret) {cv : CV} (hcv : caseBreakOK cv = true) :
    Shape2 e0 (ret ++ [cv]) := by
  obtain ⟨hd, tl, rfl, h1, h2⟩ := h
  refine ⟨hd, tl ++ [cv], rfl, h1, ?_⟩
  intro x hx
  rcases List.mem_append.1 hx with h3 | h3
  · exact h2 x h3
  · simp only [List.mem_singleton] at h3; subst h3; exact hcv

theorem shape2_last {e0 : Nat × FNode} {init : List CV} {cv cv' : CV} (h : Shape2 e0 (init ++ [cv]))
    (hf : ∀ b, okAt e0 b cv → okAt e0 b cv') : Shape2 e0 (init ++ [cv']) := by
  obtain ⟨hd, tl, heq, h1, h2⟩ := h
  cases init with
  | nil =>
    simp only [List.nil_append, List.cons.injEq] at heq
    obtain ⟨rfl, rfl⟩ := heq
    exact ⟨cv', [], rfl, by simpa [okAt] using hf true (by simpa [okAt] using h1), fun _ hx => nomatch hx⟩
  | cons i0 init' =>
    simp only [List.cons_append, List.cons.injEq] at heq
    obtain ⟨rfl, rfl⟩ := heq
    refine ⟨i0, init' ++ [cv'], rfl, h1, ?_⟩
    intro x hx
    rcases List.mem_append.1 hx with h3 | h3
    · exact h2 x (List.mem_append_left _ h3)
    · simp only [List.mem_singleton] at h3
      subst h3
      have := hf false (by simpa [okAt] using h2 cv (by simp))
      simpa [okAt] using this

theorem okAt_cond {e0 x : Nat × FNode} {c v : TL} (b : Bool) (h : okAt e0 b (some c, v)) :
    okAt e0 b (some (c ++ [x]), v) := by
  cases b with
  | true =>
    simp only [okAt, ↓reduceIte, headOK] at h ⊢
    obtain ⟨c1, v1, heq⟩ := h
    simp only [Prod.mk.injEq, Option.some.injEq] at heq
    obtain ⟨rfl, rfl⟩ := heq
    exact ⟨c1 ++ [x], v, by simp⟩
  | false =>
    simp only [okAt, Bool.false_eq_true, ↓reduceIte, caseBreakOK]
    simp

theorem okAt_value {e0 x : Nat × FNode} {c : Option TL} {v : TL} (b : Bool) (h : okAt e0 b (c, v)) :
    okAt e0 b (c, v ++ [x]) := by
  cases b with
  | true =>
    simp only [okAt, ↓reduceIte, headOK] at h ⊢
    obtain ⟨c1, v1, heq⟩ := h
    simp only [Prod.mk.injEq] at heq
    obtain ⟨rfl, rfl⟩ := heq
    exact ⟨c1, v ++ [x], rfl⟩
  | false =>
    simp only [okAt, Bool.false_eq_true, ↓reduceIte, caseBreakOK] at h ⊢
    cases c with
    | none => simp
    | some cl => simpa using h

structure GInv2 (tl0 : TL) (e0 : Nat × FNode) (mode : Nat) (ret : List CV) : Prop where
  sh : Shape2 e0 ret
  m1 : mode = 1 → ∃ init c v, ret = init ++ [(some c, v)]
  le : mode ≤ 2
  ent : ∀ cv ∈ ret, ∀ e ∈ cvEntries cv, e ∈ tl0

theorem shape2_ne {e0 : Nat × FNode} {ret : List CV} (h : Shape2 e0 ret) : ret ≠ [] := by
  obtain ⟨hd, tl, rfl, _⟩ := h; simp

theorem ent_last_cond {tl0 : TL} {init : List CV} {c v : TL} {x : Nat × FNode} (hx : x ∈ tl0)
    (h : ∀ cv ∈ init ++ [(some c, v)], ∀ e ∈ cvEntries cv, e ∈ tl0) :
    ∀ cv ∈ init ++ [(some (c ++ [x]), v)], ∀ e ∈ cvEntries cv, e ∈ tl0 := by
  intro cv hcv e he
  rcases List.mem_append.1 hcv with h1 | h1
  · exact h cv (List.mem_append_left _ h1) e he
  · simp only [List.mem_singleton] at h1
    subst h1
    simp only [cvEntries, Option.getD_some, List.append_assoc, List.mem_append, List.mem_singleton] at he
    rcases he with he | he | he
    · exact h (some c, v) (by simp) e (by simp [cvEntries, he])
    · subst he; exact hx
    · exact h (some c, v) (by simp) e (by simp [cvEntries, he])

theorem ent_last_value {tl0 : TL} {init : List CV} {c : Option TL} {v : TL} {x : Nat × FNode} (hx : x ∈ tl0)
    (h : ∀ cv ∈ init ++ [(c, v)], ∀ e ∈ cvEntries cv, e ∈ tl0) :
    ∀ cv ∈ init ++ [(c, v ++ [x])], ∀ e ∈ cvEntries cv, e ∈ tl0 := by
  intro cv hcv e he
  rcases List.mem_append.1 hcv with h1 | h1
  · exact h cv (List.mem_append_left _ h1) e he
  · simp only [List.mem_singleton] at h1
    subst h1
    simp only [cvEntries, List.mem_append, List.mem_singleton] at he
    rcases he with he | he | he
    · exact h (c, v) (by simp) e (by simp [cvEntries, he])
    · exact h (c, v) (by simp) e (by simp [cvEntries, he])
    · subst he; exact hx

/-- appending to the condition of the last case -/
theorem ginv2_cond {tl0 : TL} {e0 x : Nat × FNode} {init : List CV} {c v : TL} (hx : x ∈ tl0)
    (hs : Shape2 e0 (init ++ [(some c, v)])) (hent : ∀ cv ∈ init ++ [(some c, v)], ∀ e ∈ cvEntries cv, e ∈ tl0) :
    GInv2 tl0 e0 1 (init ++ [(some (c ++ [x]), v)]) :=
  ⟨shape2_last hs (fun b h => okAt_cond b h), fun _ => ⟨init, c ++ [x], v, rfl⟩, by omega, ent_last_cond hx hent⟩

theorem ginv2_value {tl0 : TL} {e0 x : Nat × FNode} {init : List CV} {c : Option TL} {v : TL} (hx : x ∈ tl0)
    (hs : Shape2 e0 (init ++ [(c, v)])) (hent : ∀ cv ∈ init ++ [(c, v)], ∀ e ∈ cvEntries cv, e ∈ tl0) :
    GInv2 tl0 e0 2 (init ++ [(c, v ++ [x])]) :=
  ⟨shape2_last hs (fun b h => okAt_value b h), fun h => absurd h (by decide), by omega, ent_last_value hx hent⟩

theorem getCasesGo_shape (sk : Bool) (tl0 : TL) (e0 : Nat × FNode) : ∀ (tl : TL) (mode : Nat) (ret : List CV),
    (∀ x ∈ tl, x ∈ tl0) → GInv2 tl0 e0 mode ret →
    ∃ r, getCasesGo sk mode ret tl = .ok r ∧ Shape2 e0 r ∧ (∀ cv ∈ r, ∀ e ∈ cvEntries cv, e ∈ tl0) := by
  intro tl
  induction tl with
  | nil => intro mode ret _ hi; exact ⟨ret, by simp [getCasesGo], hi.sh, hi.ent⟩
  | cons x rest ih =>
    intro mode ret hmem hi
    have hx : x ∈ tl0 := hmem x List.mem_cons_self
    have hrest : ∀ y ∈ rest, y ∈ tl0 := fun y hy => hmem y (List.mem_cons_of_mem _ hy)
    have hne := shape2_ne hi.sh
    simp only [getCasesGo]
    by_cases hcase : x.2.matchKw "CASE" = true
    · simp only [hcase, ↓reduceIte]; exact ih mode ret hrest hi
    · simp only [hcase, Bool.false_eq_true, ↓reduceIte]
      by_cases hws : (sk && x.2.ttIn T.Whitespace) = true
      · simp only [hws, ↓reduceIte]; exact ih mode ret hrest hi
      · simp only [hws, Bool.false_eq_true, ↓reduceIte]
        have hemp : ret.isEmpty = false := by cases ret with
          | nil => exact absurd rfl hne
          | cons _ _ => rfl
        by_cases hwhen : x.2.matchKw "WHEN" = true
        · simp only [hwhen, ↓reduceIte]
          have hne2 : (ret ++ [((some [] : Option TL), ([] : TL))]).isEmpty = false := by simp
          simp only [hne2, Bool.and_false, Bool.false_eq_true, ↓reduceIte, beq_self_eq_true, stepCond]
          exact ih 1 _ hrest ⟨shape2_snoc hi.sh (by simp [caseBreakOK]), fun _ => ⟨ret, [] ++ [x], [], rfl⟩, by omega,
            ent_last_cond hx (ent_new hi.ent _ (Or.inl rfl))⟩
        · simp only [hwhen, Bool.false_eq_true, ↓reduceIte]
          by_cases hthen : x.2.matchKw "THEN" = true
          · simp only [hthen, ↓reduceIte]
            obtain ⟨init, cv0, rfl⟩ := snoc_of_ne_nil hne
            obtain ⟨c0, v0⟩ := cv0
            simp only [hemp, Bool.and_false, Bool.false_eq_true, ↓reduceIte,
              show ((2 : Nat) == 1) = false from rfl, show ((2 : Nat) == 2) = true from rfl, stepVal]
            exact ih 2 _ hrest (ginv2_value hx hi.sh hi.ent)
          · simp only [hthen, Bool.false_eq_true, ↓reduceIte]
            by_cases helse : x.2.matchKw "ELSE" = true
            · simp only [helse, ↓reduceIte]
              have hne2 : (ret ++ [((none : Option TL), ([] : TL))]).isEmpty = false := by simp
              simp only [hne2, Bool.and_false, Bool.false_eq_true, ↓reduceIte,
                show ((2 : Nat) == 1) = false from rfl, show ((2 : Nat) == 2) = true from rfl, stepVal]
              exact ih 2 _ hrest ⟨shape2_snoc hi.sh (by simp [caseBreakOK]), fun h => absurd h (by decide), by omega,
                ent_last_value hx (ent_new hi.ent _ (Or.inr rfl))⟩
            · simp only [helse, Bool.false_eq_true, ↓reduceIte]
              by_cases hend : x.2.matchKw "END" = true
              · simp only [hend, ↓reduceIte, show ((0 : Nat) != 0) = false from rfl, Bool.false_and,
                  Bool.false_eq_true, show ((0 : Nat) == 1) = false from rfl, show ((0 : Nat) == 2) = false from rfl]
                exact ih 0 ret hrest ⟨hi.sh, fun h => absurd h (by decide), by omega, hi.ent⟩
              · simp only [hend, Bool.false_eq_true, ↓reduceIte]
                have hle := hi.le
                rcases (by omega : mode = 0 ∨ mode = 1 ∨ mode = 2) with rfl | rfl | rfl
                · simp only [show ((0 : Nat) != 0) = false from rfl, Bool.false_and, Bool.false_eq_true, ↓reduceIte,
                    show ((0 : Nat) == 1) = false from rfl, show ((0 : Nat) == 2) = false from rfl]
                  exact ih 0 ret hrest hi
                · obtain ⟨init, c, v, rfl⟩ := hi.m1 rfl
                  simp only [hemp, Bool.and_false, Bool.false_eq_true, ↓reduceIte,
                    show ((1 : Nat) == 1) = true from rfl, stepCond]
                  exact ih 1 _ hrest (ginv2_cond hx hi.sh hi.ent)
                · obtain ⟨init, cv0, rfl⟩ := snoc_of_ne_nil hne
                  obtain ⟨c0, v0⟩ := cv0
                  simp only [hemp, Bool.and_false, Bool.false_eq_true, ↓reduceIte,
                    show ((2 : Nat) == 1) = false from rfl, show ((2 : Nat) == 2) = true from rfl, stepVal]
                  exact ih 2 _ hrest (ginv2_value hx hi.sh hi.ent)

end DCR
end Sql

namespace Sql
namespace DCR
open DC

open FilterSafe

/-- a `Case` whose child after `CASE` is none of the keywords CASE/THEN/ELSE/END and whose children all have a leaf is in
the domain of the reindent `_process_case` -/
theorem reindentCaseOK_of (k0 k1 : FNode) (rest : List FNode) (h0 : k0.matchKw "CASE" = true)
    (hc : k1.matchKw "CASE" = false) (ht : k1.matchKw "THEN" = false) (he : k1.matchKw "ELSE" = false)
    (hn : k1.matchKw "END" = false) (hl0 : k0.hasLeaf = true) (hl1 : k1.hasLeaf = true) :
    reindentCaseOK (k0 :: k1 :: rest) = true := by
  have htag : tagAll (k0 :: k1 :: rest) = (1, k0) :: (2, k1) :: tagFrom 3 rest := rfl
  have hmem1 : ((2, k1) : Nat × FNode) ∈ tagAll (k0 :: k1 :: rest) := by rw [htag]; simp
  have hrest : ∀ x ∈ tagFrom 3 rest, x ∈ tagAll (k0 :: k1 :: rest) := by
    intro x hx; rw [htag]; exact List.mem_cons_of_mem _ (List.mem_cons_of_mem _ hx)
  -- the state after the two first children
  have hstart : getCases false (tagAll (k0 :: k1 :: rest)) =
      getCasesGo false 1 [(some [(2, k1)], [])] (tagFrom 3 rest) := by
    rw [htag]
    unfold getCases
    simp only [getCasesGo, h0, ↓reduceIte, hc, Bool.false_eq_true, Bool.false_and]
    by_cases hw : k1.matchKw "WHEN" = true
    · simp only [hw, ↓reduceIte, List.nil_append, List.isEmpty_cons, Bool.and_false, Bool.false_eq_true,
        beq_self_eq_true, stepCond0]
    · simp only [hw, Bool.false_eq_true, ↓reduceIte, ht, he, hn, List.isEmpty_nil, Bool.and_true,
        show ((1 : Nat) != 0) = true from rfl, show ((1 : Nat) == 1) = true from rfl, stepCond0]
      rfl
  obtain ⟨r, hr, hsh, hent⟩ := getCasesGo_shape false (tagAll (k0 :: k1 :: rest)) (2, k1) (tagFrom 3 rest) 1
    [(some [(2, k1)], [])] hrest
    ⟨⟨_, [], rfl, ⟨[], [], rfl⟩, fun _ hx => nomatch hx⟩, fun _ => ⟨[], [(2, k1)], [], rfl⟩, by omega, by
      intro cv hcv e he'
      simp only [List.mem_singleton] at hcv
      subst hcv
      simp only [cvEntries, Option.getD_some, List.append_nil, List.mem_singleton] at he'
      subst he'; exact hmem1⟩
  obtain ⟨hd, tl, rfl, ⟨c, v, rfl⟩, htl⟩ := hsh
  unfold reindentCaseOK
  rw [hstart, hr]
  simp only [Bool.and_eq_true, List.all_eq_true]
  refine ⟨⟨⟨⟨hl1, hl0⟩, by simpa using hl1⟩, htl⟩, ?_⟩
  unfold caseTagsOK
  simp only [List.all_eq_true, Bool.and_eq_true, bne_iff_ne, ne_eq]
  intro cv hcv e hee
  have hmem : e ∈ tagAll (k0 :: k1 :: rest) := hent cv (List.mem_cons_of_mem _ hcv) e hee
  refine ⟨?_, tlIndex_mem hmem⟩
  have := tagFrom_mem (k0 :: k1 :: rest) 1 e hmem
  omega

end DCR
end Sql
