import SqlProofs.DelimChild.Reindent.AdHocBase
/-!
# SqlProofs.DelimChild.Reindent.Trig — a delimiter leaf triggers none of the loop passes
-/
namespace Sql
namespace DCR
open DC

variable {u : Text → Text}

theorem imt_m_eq (x : Node) (m : List MPat) : imt u x [] m .none = x.matchAny u m := by
  simp [imt, Node.isInstAny, Node.matchAny]

theorem leaf_isInstAny {x : Node} (h : x.isGroup = false) (cs : List Cls) : x.isInstAny cs = false := by
  cases x with
  | tok _ _ => simp [Node.isInstAny, Node.isInst]
  | grp _ _ => cases h

section facts
variable (hu : DelimU u) {x : Node} (h : IsDelim u x)
include hu h

theorem dtrig_identifier : imt u x [] [] Gen.group_identifier_ttypes = false := by
  cases h with
  | punct hp => punct_tac hp
  | kw hd hv => delim_simp

theorem dtrig_over : imt u x [] Gen.group_over_token_next_by0_m .none = false := by
  cases h with
  | punct hp => punct_tac hp
  | kw hd hv => rw [imt_m_eq]; exact kw_matchAny_false hu hd hv (by simp [kwPatterns])

theorem dtrig_over1 : imt u x [] Gen.group_over_token_next_by1_m .none = false := by
  cases h with
  | punct hp => punct_tac hp
  | kw hd hv => rw [imt_m_eq]; exact kw_matchAny_false hu hd hv (by simp [kwPatterns])

theorem dnext_over : imt u x Gen.group_over_imt0_i [] Gen.group_over_imt0_t = false := by
  cases h with
  | punct hp => punct_tac hp
  | kw hd hv => delim_simp

theorem dtrig_functions : imt u x [] [] Gen.group_functions_token_next_by0_t = false := by
  cases h with
  | punct hp => punct_tac hp
  | kw hd hv => delim_simp

theorem dtrig_where : imt u x [] Gen.group_where_token_next_by0_m .none = false := by
  cases h with
  | punct hp => punct_tac hp
  | kw hd hv => rw [imt_m_eq]; exact kw_matchAny_false hu hd hv (by simp [kwPatterns])

theorem dtrig_where2 : imt u x [] Gen.group_where_token_next_by2_m .none = false := by
  cases h with
  | punct hp => punct_tac hp
  | kw hd hv => rw [imt_m_eq]; exact kw_matchAny_false hu hd hv (by simp [kwPatterns])

theorem dtrig_whereClose : imt u x [] Gen.group_where_token_next_by1_m .none = false := by
  cases h with
  | punct hp => punct_tac hp
  | kw hd hv => rw [imt_m_eq]; exact kw_matchAny_false hu hd hv (by simp [kwPatterns])

theorem dtrig_aliased : imt u x Gen.group_aliased_I_ALIAS [] Gen.group_aliased_token_next_by0_t = false := by
  cases h with
  | punct hp => punct_tac hp
  | kw hd hv => delim_simp

theorem dtrig_order : imt u x [] [] Gen.group_order_token_next_by0_t = false := by
  cases h with
  | punct hp => punct_tac hp
  | kw hd hv => delim_simp

theorem dprev_order : imt u x Gen.group_order_imt0_i [] Gen.group_order_imt0_t = false := by
  cases h with
  | punct hp => punct_tac hp
  | kw hd hv => delim_simp

theorem dtrig_align : imt u x Gen.align_comments_token_next_by0_i [] .none = false := by
  cases h with
  | punct hp => punct_tac hp
  | kw hd hv => delim_simp

end facts

/-- whitespace leaves are not `Comment` groups -/
theorem ws_trig_align {x : Node} (hw : x.isWhitespace = true) :
    imt u x Gen.align_comments_token_next_by0_i [] .none = false := by
  cases x with
  | grp _ _ => simp [Node.isWhitespace] at hw
  | tok _ _ => simp [imt, Node.isInstAny, Node.isInst]

end DCR
end Sql
