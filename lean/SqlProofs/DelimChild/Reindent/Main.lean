import SqlProofs.DelimChild.Reindent.Bodies
import SqlProofs.DelimChild.Reindent.Bridge
import SqlProofs.DelimChild.Reindent.NW7
/-!
# SqlProofs.DelimChild.Reindent.Main — **the child-level delimiter theorem**

`delims_kept_childwise`: for a flat statement `st` with `DelimSafe st`, every Parenthesis / SquareBrackets / Case / If /
For / Begin node of `group 200 (flatStatement st)` is `[opener, …, closer, (whitespace | Comment group)*]` at child
level (`delimShapeL`).
-/
namespace Sql
namespace DCR
open DC

variable {u : Text → Text}

/-- one pass at the top level, on statements without `:=` -/
def StepTop (u : Text → Text) (ph ph' : Ph) (p : Pass) : Prop :=
  ∀ fuel L L', p fuel .Statement L = .ok L' → NoAssign L → ListInv u ph L → ListInv u ph' L'

theorem StepTop.of_passInv {ph ph' : Ph} {p : Pass} (h : PassInv u ph ph' p) : StepTop u ph ph' p :=
  fun fuel L L' hp _ hi => (h fuel .Statement L L' hp (kidsInv_of_not_six rfl) hi).2.1

/-! ### group_values (top level only) -/
theorem valuesLoop_bound {ks : List Node} {lo : Nat} :
    ∀ (n : Nat) (pend : Option (Nat × Node)) (e r : Option Nat), valuesLoop n ks pend e = .ok r →
      (∀ t tok, pend = some (t, tok) → lo ≤ t ∧ t < ks.length) →
      (∀ e0, e = some e0 → lo ≤ e0 ∧ e0 < ks.length) → ∀ e1, r = some e1 → lo ≤ e1 ∧ e1 < ks.length := by
  intro n
  induction n with
  | zero =>
    intro pend e r h _ he
    cases pend with
    | none => simp [valuesLoop] at h; subst h; exact he
    | some p => simp [valuesLoop] at h
  | succ n ih =>
    intro pend e r h hp he
    cases pend with
    | none => simp [valuesLoop] at h; subst h; exact he
    | some p =>
      obtain ⟨tidx, token⟩ := p
      obtain ⟨h1, h2⟩ := hp tidx token rfl
      simp only [valuesLoop] at h
      refine ih _ _ _ h ?_ ?_
      · intro t tok hq
        obtain ⟨h3, h4, _⟩ := tokenNext_hit hq
        exact ⟨by omega, (List.getElem?_eq_some_iff.1 h4).1⟩
      · intro e0 he0
        split at he0
        · cases he0; exact ⟨h1, h2⟩
        · exact he e0 he0

theorem stepTop_values {ph : Ph} : StepTop u ph ph (adHocPass Gen.group_values_recurseSkip (groupValuesBody u)) := by
  intro fuel L L' h _ hi
  change groupValuesBody u .Statement L = .ok L' at h
  unfold groupValuesBody at h
  cases hnb : tokenNextBy u L [] Gen.group_values_token_next_by0_m .none 0 with
  | none => simp only [hnb] at h; cases h; exact hi
  | some q =>
    obtain ⟨startIdx, token⟩ := q
    simp only [hnb] at h
    obtain ⟨_, hs2, _⟩ := tokenNextBy_spec hnb
    have hslt : startIdx < L.length := (List.getElem?_eq_some_iff.1 hs2).1
    cases hv : valuesLoop (loopBound L) L (some (startIdx, token)) none with
    | error e => simp [hv] at h
    | ok r =>
      simp only [hv] at h
      cases r with
      | none => simp only at h; cases h; exact hi
      | some endIdx =>
        simp only at h
        obtain ⟨h1, h2⟩ := valuesLoop_bound (lo := startIdx) _ _ _ _ hv
          (fun t tok hq => by cases hq; exact ⟨Nat.le_refl _, hslt⟩) (fun e0 he0 => by cases he0) endIdx rfl
        have : Ops false false [] L L' := Ops.of_groupTokens (F := L) (by simp) h h1 h2 rfl
          ⟨startIdx, token, Nat.le_refl _, h1, hs2,
            item_of_trig (fun x hw => trig_values (Or.inl hw)) (by comma_simp) (tokenNextBy_spec hnb).2.2⟩ (by decide)
        exact this.listInv (fun h0 => by cases h0) (fun h0 => nomatch h0) hi

/-! ### group_assignment does nothing without `:=` -/
theorem stepTop_assignment {ph : Ph} : StepTop u ph ph (driverPass (cfgAssignment u)) := by
  intro fuel L L' h hna hi
  have := groupDriver_noMatch fuel (cfgAssignment u) L L' (fun x hx => assignment_noMatch hx) hna h
  rw [this]; exact hi

/-! ### the eighteen passes after the matching passes -/
theorem name_over : passByName u "group_over" = adHocPass Gen.group_over_recurseSkip (groupOverBody u) := by
  unfold passByName; simp (config := { decide := true })
theorem name_functions :
    passByName u "group_functions" = adHocPass Gen.group_functions_recurseSkip (groupFunctionsBody u) := by
  unfold passByName; simp (config := { decide := true })
theorem name_where : passByName u "group_where" = adHocPass Gen.group_where_recurseSkip (groupWhereBody u) := by
  unfold passByName; simp (config := { decide := true })
theorem name_period : passByName u "group_period" = driverPass (cfgPeriod u) := by
  unfold passByName; simp (config := { decide := true })
theorem name_arrays : passByName u "group_arrays" = driverPass (cfgArrays u) := by
  unfold passByName; simp (config := { decide := true })
theorem name_identifier :
    passByName u "group_identifier" = adHocPass Gen.group_identifier_recurseSkip (groupIdentifierBody u) := by
  unfold passByName; simp (config := { decide := true })
theorem name_order : passByName u "group_order" = adHocPass Gen.group_order_recurseSkip (groupOrderBody u) := by
  unfold passByName; simp (config := { decide := true })
theorem name_typecasts : passByName u "group_typecasts" = driverPass (cfgTypecasts u) := by
  unfold passByName; simp (config := { decide := true })
theorem name_tzcasts : passByName u "group_tzcasts" = driverPass (cfgTzcasts u) := by
  unfold passByName; simp (config := { decide := true })
theorem name_typedLiteral : passByName u "group_typed_literal" = typedLiteralPass u := by
  unfold passByName; simp (config := { decide := true })
theorem name_operator : passByName u "group_operator" = driverPass (cfgOperator u) := by
  unfold passByName; simp (config := { decide := true })
theorem name_comparison : passByName u "group_comparison" = driverPass (cfgComparison u) := by
  unfold passByName; simp (config := { decide := true })
theorem name_as : passByName u "group_as" = driverPass (cfgAs u) := by
  unfold passByName; simp (config := { decide := true })
theorem name_aliased : passByName u "group_aliased" = adHocPass Gen.group_aliased_recurseSkip (groupAliasedBody u) := by
  unfold passByName; simp (config := { decide := true })
theorem name_assignment : passByName u "group_assignment" = driverPass (cfgAssignment u) := by
  unfold passByName; simp (config := { decide := true })
theorem name_align : passByName u "align_comments" = adHocPass Gen.align_comments_recurseSkip (alignCommentsBody u) := by
  unfold passByName; simp (config := { decide := true })
theorem name_identifierList : passByName u "group_identifier_list" = driverPass (cfgIdentifierList u) := by
  unfold passByName; simp (config := { decide := true })
theorem name_values : passByName u "group_values" = adHocPass Gen.group_values_recurseSkip (groupValuesBody u) := by
  unfold passByName; simp (config := { decide := true })

/-- the passes after the matching passes with the phase before and after each -/
def tailSteps : List (String × Ph × Ph) :=
  [("group_over", .w, .w), ("group_functions", .w, .w), ("group_where", .w, .s), ("group_period", .s, .s),
   ("group_arrays", .s, .s), ("group_identifier", .s, .s), ("group_order", .s, .s), ("group_typecasts", .s, .s),
   ("group_tzcasts", .s, .s), ("group_typed_literal", .s, .s), ("group_operator", .s, .s),
   ("group_comparison", .s, .s), ("group_as", .s, .s), ("group_aliased", .s, .s), ("group_assignment", .s, .s),
   ("align_comments", .s, .t), ("group_identifier_list", .t, .v), ("group_values", .v, .v)]

theorem tailSteps_names : tailSteps.map (·.1) = Gen.passOrder.drop 7 := by decide

theorem tailSteps_ok (hu : DelimU u) : ∀ s ∈ tailSteps, StepTop u s.2.1 s.2.2 (passByName u s.1) := by
  intro s hs
  simp only [tailSteps, List.mem_cons, List.not_mem_nil, or_false] at hs
  rcases hs with rfl | rfl | rfl | rfl | rfl | rfl | rfl | rfl | rfl | rfl | rfl | rfl | rfl | rfl | rfl | rfl | rfl | rfl
  · rw [name_over]; exact .of_passInv (adHocPass_inv rfl (by decide) _ (bodyOK_over hu))
  · rw [name_functions]; exact .of_passInv (adHocPass_inv rfl (by decide) _ (bodyOK_functions hu))
  · rw [name_where]; exact .of_passInv (adHocPass_inv rfl (by decide) _ (bodyOK_where hu))
  · rw [name_period]; exact .of_passInv (driverPass_inv hu (cfgD_period hu) rfl rfl (by decide) (fun h => nomatch h))
  · rw [name_arrays]; exact .of_passInv (driverPass_inv hu (cfgD_arrays hu) rfl rfl (by decide) (fun h => nomatch h))
  · rw [name_identifier]; exact .of_passInv (adHocPass_inv rfl (by decide) _ (bodyOK_identifier hu rfl))
  · rw [name_order]; exact .of_passInv (adHocPass_inv rfl (by decide) _ (bodyOK_order hu rfl))
  · rw [name_typecasts]
    exact .of_passInv (driverPass_inv hu (cfgD_typecasts hu) rfl rfl (by decide) (fun h => nomatch h))
  · rw [name_tzcasts]; exact .of_passInv (driverPass_inv hu (cfgD_tzcasts hu) rfl rfl (by decide) (fun h => nomatch h))
  · rw [name_typedLiteral]; exact .of_passInv (typedLiteralPass_inv hu rfl (by decide))
  · rw [name_operator]
    exact .of_passInv (driverPass_inv hu (cfgD_operator hu) rfl rfl (by decide) (fun h => nomatch h))
  · rw [name_comparison]
    exact .of_passInv (driverPass_inv hu (cfgD_comparison hu) rfl rfl (by decide) (fun h => nomatch h))
  · rw [name_as]; exact .of_passInv (driverPass_inv hu (cfgD_as hu) rfl rfl (by decide) (fun h => nomatch h))
  · rw [name_aliased]; exact .of_passInv (adHocPass_inv rfl (by decide) _ (bodyOK_aliased hu rfl))
  · rw [name_assignment]; exact stepTop_assignment
  · rw [name_align]; exact .of_passInv (adHocPass_inv rfl (by decide) _ (bodyOK_align hu))
  · rw [name_identifierList]
    exact .of_passInv (driverPass_inv hu (cfgD_identifierList hu) rfl rfl (by decide) (fun _ => rfl))
  · rw [name_values]; exact stepTop_values

/-- consecutive steps fit together -/
def Linked : List (String × Ph × Ph) → Ph → Ph → Prop
  | [], a, b => a = b
  | s :: rest, a, b => s.2.1 = a ∧ Linked rest s.2.2 b

theorem tailSteps_linked : Linked tailSteps .w .v := by
  simp [tailSteps, Linked]

theorem runPasses_chain {fuel : Nat} : ∀ (steps : List (String × Ph × Ph)) (a b : Ph), Linked steps a b →
    (∀ s ∈ steps, StepTop u s.2.1 s.2.2 (passByName u s.1)) → ∀ L L',
    runPasses u fuel .Statement (steps.map (·.1)) L = .ok L' → NoAssign L → ListInv u a L → ListInv u b L' := by
  intro steps
  induction steps with
  | nil =>
    intro a b hl _ L L' h _ hi
    simp only [List.map_nil, runPasses, Except.ok.injEq] at h
    subst h
    simp only [Linked] at hl
    subst hl; exact hi
  | cons s rest ih =>
    intro a b hl hs L L' h hna hi
    simp only [List.map_cons, runPasses] at h
    cases hp : passByName u s.1 fuel .Statement L with
    | error e => simp [hp] at h
    | ok L1 =>
      simp only [hp] at h
      obtain ⟨h1, h2⟩ := hl
      subst h1
      have hi1 := hs s List.mem_cons_self fuel L L1 hp hna hi
      have hna1 : NoAssign L1 := noAssign_of_leafRel (passByName_leaves u s.1 fuel .Statement L L1 hp) hna
      exact ih _ _ h2 (fun t ht => hs t (List.mem_cons_of_mem _ ht)) L1 L' h hna1 hi1

/-- the invariant of the final tree -/
theorem groupWith_listInv (hu : DelimU u) {fuel : Nat} {st : List Tok} {ks' : List Node}
    (hs : ReindentSafeWith u fuel st = true) (h : groupWith u fuel (flatStatement st) = .ok ks') :
    ListInv u .v ks' := by
  unfold ReindentSafeWith at hs
  simp only [Bool.and_eq_true] at hs
  obtain ⟨⟨hds, _⟩, hcs⟩ := hs
  unfold DelimSafeWith at hds
  simp only [Bool.and_eq_true, List.all_eq_true, bne_iff_ne, ne_eq] at hds
  obtain ⟨hna0, hs7⟩ := hds
  unfold groupWith at h
  have hsplit : Gen.passOrder = Gen.passOrder.take 7 ++ Gen.passOrder.drop 7 := (List.take_append_drop 7 _).symm
  rw [hsplit] at h
  obtain ⟨m7, h7, htail⟩ := runPasses_append _ _ _ _ h
  rw [h7] at hs7 hcs
  simp only at hs7 hcs
  have hna : NoAssign (flatStatement st) := by
    intro l hl
    have : Node.leavesL (flatStatement st) = st := leavesL_flat st
    rw [this] at hl
    exact hna0 l hl
  have hna7 : NoAssign m7 :=
    noAssign_of_leafRel (runPasses_leaves u fuel .Statement _ _ _ h7) hna
  rw [← tailSteps_names] at htail
  exact runPasses_chain tailSteps .w .v tailSteps_linked (tailSteps_ok hu) m7 ks' htail hna7
    (listInv_of_delimSafe hu m7 hs7 (take7_nwL h7) hcs)

end DCR
end Sql
