import SqlProofs.DelimChild.Reindent.Inv
/-!
# SqlProofs.DelimChild.Reindent.Bridge — `delimSafeL → ListInv .w` and `ListInv .t → delimShapeL`
-/
namespace Sql
namespace DCR
open DC

variable {u : Text → Text}

theorem rest_split {rest : List Node} {cl : Node} (hl : rest.getLast? = some cl) : rest = rest.dropLast ++ [cl] := by
  have hne : rest ≠ [] := by intro h0; subst h0; simp at hl
  have h1 := List.dropLast_concat_getLast hne
  have h2 : rest.getLast hne = cl := by
    rw [List.getLast?_eq_some_getLast hne] at hl
    exact Option.some.inj hl
  rw [h2] at h1
  exact h1.symm

theorem frame_of_kidsSafe (hu : DelimU u) {c : Cls} {mo mc : List MPat} {ks : List Node}
    (ht : delimTables c = some (mo, mc)) (h : delimKidsSafe u c ks = true) (hc2 : caseSecondOK u c ks = true) :
    Frame u .w c mo mc ks := by
  unfold delimKidsSafe at h
  rw [ht] at h
  simp only at h
  cases ks with
  | nil => simp at h
  | cons o rest =>
    simp only at h
    cases hl : rest.getLast? with
    | none => simp [hl] at h
    | some cl =>
      simp only [hl, Bool.and_eq_true, Bool.or_eq_true] at h
      obtain ⟨⟨⟨⟨ho, hc⟩, hfirst⟩, hlast⟩, hwh⟩ := h
      have hod : IsDelim u o := isDelim_of_matchAny ht (Or.inl ho)
      have hcd : IsDelim u cl := isDelim_of_matchAny ht (Or.inr hc)
      have hrest := rest_split hl
      refine ⟨o, cl, rest.takeWhile Node.isWhitespace, rest.dropWhile Node.isWhitespace, o :: rest.dropLast, [],
        ⟨⟨?_, nomem_nil, ?_, ?_⟩, ?_, rfl, ho, hc, hod, hcd, nomem_nil, fun _ => rfl, ?_, ?_, hc2⟩⟩
      · simp [List.takeWhile_append_dropWhile]
      · intro x hx; exact mem_takeWhile_p hx
      · intro h' hh'
        have hnw : h'.isWhitespace = false := by
          have := List.head?_dropWhile_not Node.isWhitespace rest
          rw [hh'] at this
          simpa using this
        refine ⟨hnw, ?_⟩
        have hf : firstNonWs rest = some h' := by rw [firstNonWs_eq_head]; exact hh'
        rw [hf] at hfirst
        simpa using hfirst
      · conv => lhs; rw [hrest]
        rfl
      · intro s hs
        rw [lastNonWs_cons] at hs
        cases hd : lastNonWs rest.dropLast with
        | some s0 =>
          rw [hd] at hs hlast
          simp only [Option.some_or, Option.some.injEq] at hs
          subst hs
          simpa using hlast
        | none =>
          rw [hd, hod.notWs] at hs
          simp only [Bool.false_eq_true, ↓reduceIte, Option.none_or, Option.some.injEq] at hs
          subst hs
          exact closerBad_delim hu hod
      · intro _ hc'
        rcases hwh with hwh | hwh
        · rw [hwh] at hc'; cases hc'
        · simpa using hwh

mutual
theorem nodeInv_of_delimSafe (hu : DelimU u) : (n : Node) → n.delimSafe u = true → nodeNW n = true →
    n.caseSecond u = true → NodeInv u .w n
  | .tok _ _, _, _, _ => by simp [NodeInv]
  | .grp c ks, h, hn, hcs => by
    simp only [Node.delimSafe, Bool.and_eq_true] at h
    simp only [nodeNW, Bool.and_eq_true, bne_iff_ne, ne_eq] at hn
    simp only [Node.caseSecond, Bool.and_eq_true] at hcs
    rw [nodeInv_grp]
    exact ⟨fun mo mc ht => frame_of_kidsSafe hu ht h.1 hcs.1, hn.1.1, fun hc => absurd hc hn.1.2,
      listInv_of_delimSafe hu ks h.2 hn.2 hcs.2⟩
theorem listInv_of_delimSafe (hu : DelimU u) : (ks : List Node) → delimSafeL u ks = true → nwL ks = true →
    caseSecondL u ks = true → ListInv u .w ks
  | [], _, _, _ => by simp [ListInv]
  | k :: ks, h, hn, hcs => by
    simp only [delimSafeL, Bool.and_eq_true] at h
    simp only [nwL, Bool.and_eq_true] at hn
    simp only [caseSecondL, Bool.and_eq_true] at hcs
    simp only [ListInv]
    exact ⟨nodeInv_of_delimSafe hu k h.1 hn.1 hcs.1, listInv_of_delimSafe hu ks h.2 hn.2 hcs.2⟩
end

/-! ### out -/
theorem dropWhile_append_all {α : Type} {p : α → Bool} {a b : List α} (h : ∀ x ∈ a, p x = true) :
    (a ++ b).dropWhile p = b.dropWhile p := by
  induction a with
  | nil => rfl
  | cons x xs ih =>
    simp only [List.cons_append, List.dropWhile, h x List.mem_cons_self]
    exact ih (fun y hy => h y (List.mem_cons_of_mem _ hy))

theorem kidsShape_of_frame {ph : Ph} {c : Cls} {mo mc : List MPat} {ks : List Node}
    (ht : delimTables c = some (mo, mc)) (h : Frame u ph c mo mc ks) : delimKidsShape u c ks = true := by
  obtain ⟨o, cl, ws, tail, F, tr, hf⟩ := h
  unfold delimKidsShape
  rw [ht]
  simp only
  cases F with
  | nil => have := hf.fhead; simp at this
  | cons o' mid =>
    have ho : o' = o := by have := hf.fhead; simpa using this
    subst ho
    rw [hf.eq]
    simp only [List.cons_append, hf.op, Bool.true_and]
    have : (mid ++ cl :: tr).reverse = tr.reverse ++ (cl :: mid.reverse) := by simp
    rw [this, dropWhile_append_all (fun x hx => hf.trail x (by simpa using hx))]
    simp only [List.dropWhile, hf.cd.notTrailing, List.head?_cons]
    exact hf.cls

mutual
theorem delimShape_of_nodeInv {ph : Ph} : (n : Node) → NodeInv u ph n → n.delimShape u = true
  | .tok _ _, _ => rfl
  | .grp c ks, h => by
    rw [nodeInv_grp] at h
    simp only [Node.delimShape, Bool.and_eq_true]
    refine ⟨?_, delimShapeL_of_listInv ks h.2.2.2⟩
    cases ht : delimTables c with
    | none => simp [delimKidsShape, ht]
    | some p => obtain ⟨mo, mc⟩ := p; exact kidsShape_of_frame ht (h.1 mo mc ht)
theorem delimShapeL_of_listInv {ph : Ph} : (ks : List Node) → ListInv u ph ks → delimShapeL u ks = true
  | [], _ => rfl
  | k :: ks, h => by
    simp only [ListInv] at h
    simp only [delimShapeL, Bool.and_eq_true]
    exact ⟨delimShape_of_nodeInv k h.1, delimShapeL_of_listInv ks h.2⟩
end

end DCR
end Sql
