import SqlProofs.DelimChild.Ops
/-!
# SqlProofs.DelimChild.Level — one level: `Ops` keeps the invariant of the children, and `Ops` + `PrefRel` keep the frame
-/
namespace Sql
namespace DC

variable {u : Text → Text}

theorem delimTables_none_of_plain {cls : Cls} (h : plainCls cls = true) : delimTables cls = none := by
  cases cls <;> first | rfl | (revert h; decide)

theorem cls_of_isInst_plain {c cls : Cls} {k : List Node} (h : (Node.grp c k).isInst cls = true)
    (hp : plainCls cls = true) : c = cls := by
  simp only [Node.isInst, Bool.or_eq_true, beq_iff_eq] at h
  rcases h with h | h
  · subst h; exact absurd hp (by decide)
  · exact h

theorem mem_pySlice {α : Type} {l : List α} {a b : Nat} {x : α} (h : x ∈ pySlice l a b) : x ∈ l :=
  List.mem_of_mem_take (List.mem_of_mem_drop h)

theorem listInv_take {ph : Ph} {ks : List Node} (h : ListInv u ph ks) (n : Nat) : ListInv u ph (ks.take n) :=
  listInv_iff.2 fun k hk => listInv_iff.1 h k (List.mem_of_mem_take hk)

theorem listInv_drop {ph : Ph} {ks : List Node} (h : ListInv u ph ks) (n : Nat) : ListInv u ph (ks.drop n) :=
  listInv_iff.2 fun k hk => listInv_iff.1 h k (List.mem_of_mem_drop hk)

theorem listInv_pySlice {ph : Ph} {ks : List Node} (h : ListInv u ph ks) (a b : Nat) : ListInv u ph (pySlice ks a b) :=
  listInv_iff.2 fun k hk => listInv_iff.1 h k (mem_pySlice hk)

theorem listInv_splice {ph : Ph} {ks : List Node} (h : ListInv u ph ks) (a e : Nat) {g : Node} (hg : NodeInv u ph g) :
    ListInv u ph (ks.take a ++ g :: ks.drop e) := by
  rw [listInv_append]
  exact ⟨listInv_take h a, by simp only [ListInv]; exact ⟨hg, listInv_drop h e⟩⟩

theorem hasNW_of_mem {ks : List Node} {x : Node} (hx : x ∈ ks) (hw : x.isWhitespace = false) : hasNW ks = true :=
  List.any_eq_true.2 ⟨x, hx, by simp [hw]⟩

theorem hasNW_append_left {a : List Node} (b : List Node) (h : hasNW a = true) : hasNW (a ++ b) = true := by
  simp only [hasNW, List.any_append, Bool.or_eq_true] at h ⊢
  exact Or.inl h

theorem mem_pySlice_of_idx {α : Type} {l : List α} {a e j : Nat} {x : α} (h1 : a ≤ j) (h2 : j < e) (hx : l[j]? = some x) :
    x ∈ pySlice l a e := by
  unfold pySlice
  have hlt : j < l.length := (List.getElem?_eq_some_iff.1 hx).1
  have : ((l.take e).drop a)[j - a]? = some x := by
    rw [List.getElem?_drop, List.getElem?_take, if_pos (by omega), show a + (j - a) = j by omega]; exact hx
  exact List.mem_of_getElem? this

theorem ilOK_of_mem {ks : List Node} {x : Node} (hx : x ∈ ks) (hw : x.isWhitespace = false) (hc : isComma x = false) :
    ilOK ks = true :=
  List.any_eq_true.2 ⟨x, hx, by simp [hw, hc]⟩

theorem ilOK_append_left {a : List Node} (b : List Node) (h : ilOK a = true) : ilOK (a ++ b) = true := by
  simp only [ilOK, List.any_append, Bool.or_eq_true] at h ⊢
  exact Or.inl h

/-- a `group_tokens` call with a plain class keeps the invariant of the children -/
theorem groupTokens'_listInv {ph : Ph} {ks : List Node} {cls : Cls} {a b : Nat} {ext : Bool} {r : List Node × Node}
    (h : groupTokens' ks cls a b true ext = .ok r) (hp : plainCls cls = true)
    (hw : ∃ j x, a ≤ j ∧ j ≤ b ∧ ks[j]? = some x ∧ x.isWhitespace = false)
    (hil : cls = .IdentifierList → ∃ j x, a ≤ j ∧ j ≤ b ∧ ks[j]? = some x ∧ x.isWhitespace = false ∧ isComma x = false)
    (hi : ListInv u ph ks) : ListInv u ph r.1 := by
  have hc := groupTokens'_cases h
  simp only [↓reduceIte] at hc
  rcases hc with ⟨c, kids, _, hst, hinst, rfl⟩ | ⟨_, _, rfl⟩
  · have hc : c = cls := cls_of_isInst_plain hinst hp
    subst hc
    have hk := listInv_iff.1 hi _ (List.mem_of_getElem? hst)
    rw [nodeInv_grp] at hk
    refine listInv_splice hi _ _ ?_
    rw [nodeInv_grp]
    exact ⟨kidsInv_of_not_six (delimTables_none_of_plain hp), hasNW_append_left _ hk.2.1,
      fun hc => ilOK_append_left _ (hk.2.2.1 hc), listInv_append.2 ⟨hk.2.2.2, listInv_pySlice hi _ _⟩⟩
  · refine listInv_splice hi _ _ ?_
    rw [nodeInv_grp]
    obtain ⟨j, x, h1, h2, hx, hxw⟩ := hw
    refine ⟨kidsInv_of_not_six (delimTables_none_of_plain hp),
      hasNW_of_mem (mem_pySlice_of_idx h1 (by omega) hx) hxw, ?_, listInv_pySlice hi _ _⟩
    intro hc
    obtain ⟨j2, x2, h3, h4, hx2, hxw2, hxc2⟩ := hil hc
    exact ilOK_of_mem (mem_pySlice_of_idx h3 (by omega) hx2) hxw2 hxc2

/-! ### whitespace and `Comment` groups appended after the closer (`align_comments`) -/
theorem frame_append_trailing {ph : Ph} (hph : ph.strict = false) {c : Cls} {mo mc : List MPat} {ks extra : List Node}
    (hf : Frame u ph c mo mc ks) (hx : ∀ x ∈ extra, isTrailing x = true) : Frame u ph c mo mc (ks ++ extra) := by
  obtain ⟨o, cl, ws, tail, F, tr, hf⟩ := hf
  have htail : tail ≠ [] := by
    intro h0
    have e1 : ks = o :: ws := by have := hf.lead.eq; rw [h0] at this; simpa using this
    cases F with
    | nil => have := hf.fhead; simp at this
    | cons o' mid =>
      have e2 := hf.eq
      rw [e1] at e2
      simp only [List.cons_append, List.cons.injEq] at e2
      have : cl ∈ ws := by rw [e2.2]; simp
      have := hf.lead.ws cl this
      rw [hf.cd.notWs] at this; cases this
  refine ⟨o, cl, ws, tail ++ extra, F, tr ++ extra, ⟨?_, nomem_nil, hf.lead.ws, ?_⟩, ?_, hf.fhead, hf.op, hf.cls, hf.od,
    hf.cd, ?_, ?_, hf.last, ?_⟩
  · have := hf.lead.eq; rw [this]; simp
  · intro h' hh'
    apply hf.lead.tail
    cases tail with
    | nil => exact absurd rfl htail
    | cons t ts => simpa using hh'
  · rw [hf.eq]; simp
  · intro x hx'
    rcases List.mem_append.1 hx' with h1 | h1
    · exact hf.trail x h1
    · exact hx x h1
  · intro hs; rw [hph] at hs; cases hs
  · intro hw; cases ph <;> simp_all [Ph.strict, Ph.needWhere]

theorem groupTokens'_listInv_align {ph : Ph} (hph : ph.strict = false) {ks : List Node} {a b : Nat}
    {r : List Node × Node} {c : Cls} {k : List Node}
    (h : groupTokens' ks .TokenList a b true true = .ok r) (hst : ks[a]? = some (Node.grp c k))
    (htr : ∀ x ∈ pySlice ks (a + 1) (b + 1), isTrailing x = true) (hi : ListInv u ph ks) : ListInv u ph r.1 := by
  have hc := groupTokens'_cases h
  simp only [↓reduceIte] at hc
  rcases hc with ⟨c', kids, _, hst', _, rfl⟩ | ⟨_, hno, _⟩
  · rw [hst] at hst'
    cases hst'
    have hk := listInv_iff.1 hi _ (List.mem_of_getElem? hst)
    rw [nodeInv_grp] at hk
    refine listInv_splice hi _ _ ?_
    rw [nodeInv_grp]
    refine ⟨?_, hasNW_append_left _ hk.2.1, fun hc => ilOK_append_left _ (hk.2.2.1 hc),
      listInv_append.2 ⟨hk.2.2.2, listInv_pySlice hi _ _⟩⟩
    intro mo mc ht
    exact frame_append_trailing hph (hk.1 mo mc ht) htr
  · rcases hno with h1 | h1
    · cases h1
    · have := h1 _ hst
      simp [Node.isInst] at this

theorem nodeInv_setTType {ph : Ph} {x : Node} (h : NodeInv u ph x) (tt : TType) : NodeInv u ph (x.setTType tt) := by
  cases x with
  | tok _ _ => simp [Node.setTType, NodeInv]
  | grp _ _ => exact h

/-- **`Ops` keeps the invariant of the children** -/
theorem Ops.listInv {al : Bool} {S ks ks' : List Node} (h : Ops al S ks ks') {ph : Ph}
    (hal : al = true → ph.strict = false) : ListInv u ph ks → ListInv u ph ks' := by
  induction h with
  | refl ks => exact id
  | trans _ _ ih1 ih2 => exact fun hi => ih2 (ih1 hi)
  | group _ hg _ _ hp hw hil => exact groupTokens'_listInv hg hp hw hil
  | align hal' _ hg _ _ hst htr => exact groupTokens'_listInv_align (hal hal') hg hst htr
  | @retype F ks i x _ hx _ _ =>
    intro hi
    have hlt : i < ks.length := (List.getElem?_eq_some_iff.1 hx).1
    have hset : ks.set i (x.setTType T.Operator) = ks.take i ++ x.setTType T.Operator :: ks.drop (i + 1) :=
      List.set_eq_take_append_cons_drop.trans (by simp [hlt])
    rw [hset]
    exact listInv_splice hi _ _ (nodeInv_setTType (listInv_iff.1 hi _ (List.mem_of_getElem? hx)) _)

/-! ### the frame of one level -/
theorem lastNonWs_of_head {F : List Node} {o : Node} (hh : F.head? = some o) (ho : o.isWhitespace = false) :
    ∃ s, lastNonWs F = some s := by
  cases F with
  | nil => cases hh
  | cons o' mid =>
    simp only [List.head?_cons, Option.some.injEq] at hh
    subst hh
    rw [lastNonWs_cons, ho]
    cases lastNonWs mid <;> simp

/-- the protected prefix `o :: ws` and the protected suffix `cl :: tr` survive, the neighbours stay harmless -/
theorem frame_step (hu : DelimU u) {ph ph' : Ph} (hle : ph.le ph' = true) {al : Bool} {c : Cls} {mo mc : List MPat}
    {L L' : List Node} {o cl : Node} {ws tail F tr : List Node} (hf : FrameAt u ph c mo mc L o cl ws tail F tr)
    (hpre : PrefRel (1 + ws.length) L L') (hops : Ops al (cl :: tr) L L')
    (hwh : ph'.needWhere = true → Gen.groupableInner.contains c = false → openWhere u L' = false) :
    Frame u ph' c mo mc L' := by
  have hpre' : PrefRel (([] : List Node).length + 1 + ws.length) L L' := by
    have : ([] : List Node).length + 1 + ws.length = 1 + ws.length := by simp
    rw [this]; exact hpre
  obtain ⟨tail', hl'⟩ := leadAt_of_prefRel (openerBad_stable hu hf.od) hf.lead hpre'
  obtain ⟨F', hL', hlast⟩ := hops.suf F hf.eq
  obtain ⟨s0, hs0⟩ := lastNonWs_of_head hf.fhead hf.od.notWs
  obtain ⟨s0', hs0', _⟩ := hlast s0 hs0
  have hF' : F'.head? = some o := by
    cases F' with
    | nil => simp [lastNonWs, firstNonWs] at hs0'
    | cons y ys =>
      have e := hl'.eq
      rw [hL'] at e
      simp only [List.cons_append, List.nil_append, List.cons.injEq] at e
      rw [e.1]; rfl
  have hf' := hf.mono hle
  refine ⟨o, cl, ws, tail', F', tr, hl', hL', hF', hf.op, hf.cls, hf.od, hf.cd, hf.trail, hf'.strict, ?_, hwh⟩
  intro s hs
  obtain ⟨x, hx⟩ := lastNonWs_of_head hf.fhead hf.od.notWs
  obtain ⟨x', hx', hrel⟩ := hlast x hx
  rw [hx'] at hs
  simp only [Option.some.injEq] at hs
  subst hs
  exact (closerBad_stable hu hf.cd x _ hrel (lastNonWs_mem hx).2 (hf.last x hx)).2

end DC
end Sql
