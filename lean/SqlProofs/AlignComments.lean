import SqlProofs.BracketsKept
import SqlProofs.Group.GoodAdHoc
/-!
# SqlProofs.AlignComments — what `align_comments` appends, and what `Comment` groups contain (C09 remainder)

* `CL` (`clL`): every group of class `Comment` has only comment- or whitespace-typed leaves.  `group_comments`
  establishes and keeps it (`groupComments_cl`): it groups runs of comment leaves and newlines.
* `RwA`: `align_comments` is a sequence of steps each of which extends the group at index `a` by the children
  `a+1 … b`, where `a+1 … b−1` are whitespace leaves and `b` is a `Comment` group (`alignLoop_rwA`).
* `RwA.brackets`: under `CL`, such a sequence keeps the bracket/block groups except that the leaves of a group may
  be followed by additional comment/whitespace leaves (`BrAllC`), and keeps `CL` (`align_pass_brackets`).
* `group_brackets_comments`: the decomposition of `grouping.group` around `align_comments`.

Not proved: that the passes between `group_comments` and `align_comments` keep `CL` (they never touch the inside
of a `Comment` group, but showing that `group_operator`'s re-typing cannot hit a comment leaf needs the head
alignment of its loop); the end-to-end statement therefore carries `CL` of the tree handed to `align_comments` as a
hypothesis.
-/
namespace Sql

/-- a comment- or whitespace-typed leaf -/
def cmtLeaf (l : Tok) : Bool := l.tt.isIn T.Comment || l.tt.isIn T.Whitespace

mutual
/-- every `Comment` group below has only comment/whitespace leaves -/
def Node.cl : Node → Bool
  | .tok _ _ => true
  | .grp c ks => (c != .Comment || (Node.leavesL ks).all cmtLeaf) && clL ks
def clL : List Node → Bool
  | [] => true
  | k :: ks => k.cl && clL ks
end

@[simp] theorem clL_nil : clL [] = true := by simp [clL]
@[simp] theorem clL_cons (k : Node) (ks : List Node) : clL (k :: ks) = (k.cl && clL ks) := by simp [clL]
@[simp] theorem cl_tok (tt : TType) (v : Text) : (Node.tok tt v).cl = true := by simp [Node.cl]
theorem cl_grp (c : Cls) (ks : List Node) :
    (Node.grp c ks).cl = ((c != .Comment || (Node.leavesL ks).all cmtLeaf) && clL ks) := by simp [Node.cl]

theorem clL_append (a b : List Node) : clL (a ++ b) = (clL a && clL b) := by
  induction a with
  | nil => simp
  | cons k a ih => simp [ih, Bool.and_assoc]

theorem clL_iff {ks : List Node} : clL ks = true ↔ ∀ k ∈ ks, k.cl = true := by
  induction ks with
  | nil => simp
  | cons x xs ih => simp [ih]

theorem clL_take {ks : List Node} (h : clL ks = true) (n : Nat) : clL (ks.take n) = true :=
  clL_iff.2 fun _ hk => clL_iff.1 h _ (List.mem_of_mem_take hk)
theorem clL_drop {ks : List Node} (h : clL ks = true) (n : Nat) : clL (ks.drop n) = true :=
  clL_iff.2 fun _ hk => clL_iff.1 h _ (List.mem_of_mem_drop hk)
theorem clL_pySlice {ks : List Node} (h : clL ks = true) (a b : Nat) : clL (pySlice ks a b) = true := by
  unfold pySlice; exact clL_drop (clL_take h b) a

/-! ### the steps of `align_comments` -/
inductive RwA : List Node → List Node → Prop
  | refl (ks : List Node) : RwA ks ks
  | trans {a b c : List Node} : RwA a b → RwA b c → RwA a c
  | align {ks : List Node} {a b : Nat} {r : List Node × Node} {k : List Node} :
      groupTokens' ks .TokenList a b true true = .ok r → a < b →
      (∀ j x, a < j → j < b → ks[j]? = some x → x.isWhitespace = true) →
      ks[b]? = some (Node.grp .Comment k) → (∃ c kids, ks[a]? = some (Node.grp c kids)) → RwA ks r.1
  | inside {c : Cls} {kids kids' : List Node} : RwA kids kids' → RwA [Node.grp c kids] [Node.grp c kids']
  | ctx {a b : List Node} (pre post : List Node) : RwA a b → RwA (pre ++ a ++ post) (pre ++ b ++ post)

theorem RwA.cons {a b : List Node} (k : Node) (h : RwA a b) : RwA (k :: a) (k :: b) := by
  have := RwA.ctx [k] [] h
  simpa using this

theorem RwA.head {c : Cls} {kids kids' : List Node} (rest : List Node) (h : RwA kids kids') :
    RwA (Node.grp c kids :: rest) (Node.grp c kids' :: rest) := by
  have := RwA.ctx [] rest (RwA.inside (c := c) h)
  simpa using this

/-- one entry of the bracket list: same class, same leaves followed by comment/whitespace leaves -/
def BrRelC (e e' : Cls × List Tok) : Prop := e.1 = e'.1 ∧ ∃ extra, e'.2 = e.2 ++ extra ∧ extra.all cmtLeaf = true

inductive BrAllC : List (Cls × List Tok) → List (Cls × List Tok) → Prop
  | nil : BrAllC [] []
  | cons {e e' : Cls × List Tok} {es es' : List (Cls × List Tok)} :
      BrRelC e e' → BrAllC es es' → BrAllC (e :: es) (e' :: es')

theorem BrRelC.refl (e : Cls × List Tok) : BrRelC e e := ⟨rfl, [], by simp, rfl⟩
theorem BrRelC.trans {a b c : Cls × List Tok} (h1 : BrRelC a b) (h2 : BrRelC b c) : BrRelC a c := by
  obtain ⟨hc1, x, hx, hxo⟩ := h1
  obtain ⟨hc2, y, hy, hyo⟩ := h2
  exact ⟨hc1.trans hc2, x ++ y, by rw [hy, hx]; simp, by simp [List.all_append, hxo, hyo]⟩
theorem BrAllC.refl (es : List (Cls × List Tok)) : BrAllC es es := by
  induction es with
  | nil => exact .nil
  | cons e es ih => exact .cons (BrRelC.refl e) ih
theorem BrAllC.of_eq {a b : List (Cls × List Tok)} (h : a = b) : BrAllC a b := h ▸ BrAllC.refl a
theorem BrAllC.trans {a b c : List (Cls × List Tok)} (h1 : BrAllC a b) (h2 : BrAllC b c) : BrAllC a c := by
  induction h1 generalizing c with
  | nil => cases h2; exact .nil
  | cons hab _ ih => cases h2 with | cons hbc h2' => exact .cons (hab.trans hbc) (ih h2')
theorem BrAllC.append {a a' b b' : List (Cls × List Tok)} (h1 : BrAllC a a') (h2 : BrAllC b b') :
    BrAllC (a ++ b) (a' ++ b') := by
  induction h1 with
  | nil => simpa using h2
  | cons hx _ ih => exact .cons hx ih

/-- the leaves of whitespace leaves are whitespace leaves -/
theorem ws_leaves_cmt {l : List Node} (h : ∀ x ∈ l, x.isWhitespace = true) : (Node.leavesL l).all cmtLeaf = true := by
  induction l with
  | nil => simp
  | cons x xs ih =>
    have hx := h x List.mem_cons_self
    cases x with
    | grp c k => simp [Node.isWhitespace] at hx
    | tok tt v =>
      simp only [leavesL_cons, leaves_tok, List.all_append, List.all_cons, List.all_nil, Bool.and_true,
        Bool.and_eq_true]
      exact ⟨by simp [cmtLeaf, show tt.isIn T.Whitespace = true from hx],
        ih (fun y hy => h y (List.mem_cons_of_mem _ hy))⟩

/-- the appended slice `ks[a+1 .. b]`: whitespace leaves, then the `Comment` group -/
theorem align_slice {ks : List Node} {a b : Nat} {k : List Node} (hab : a < b)
    (hws : ∀ j x, a < j → j < b → ks[j]? = some x → x.isWhitespace = true)
    (hb : ks[b]? = some (Node.grp .Comment k)) :
    ∃ ws, pySlice ks (a + 1) (b + 1) = ws ++ [Node.grp .Comment k] ∧ ∀ x ∈ ws, x.isWhitespace = true := by
  have hlen : b < ks.length := (List.getElem?_eq_some_iff.1 hb).1
  refine ⟨pySlice ks (a + 1) b, ?_, ?_⟩
  · unfold pySlice
    rw [List.take_add_one, hb]
    simp only [Option.toList_some]
    rw [List.drop_append_of_le_length (by simp [List.length_take]; omega)]
  · intro x hx
    unfold pySlice at hx
    obtain ⟨i, hi, hxi⟩ := List.getElem_of_mem hx
    simp only [List.length_drop, List.length_take] at hi
    have : ks[a + 1 + i]? = some x := by
      rw [← hxi]; simp [List.getElem_drop, List.getElem_take]
    exact hws (a + 1 + i) x (by omega) (by omega) this

/-- **what `align_comments` does to the bracket/block groups and to `CL`** -/
theorem RwA.brackets {ks ks' : List Node} (h : RwA ks ks') (hcl : clL ks = true) :
    BrAllC (bracketsL ks) (bracketsL ks') ∧ clL ks' = true ∧ Node.leavesL ks' = Node.leavesL ks := by
  induction h with
  | refl ks => exact ⟨BrAllC.refl _, hcl, rfl⟩
  | trans _ _ ih1 ih2 =>
    obtain ⟨b1, c1, l1⟩ := ih1 hcl
    obtain ⟨b2, c2, l2⟩ := ih2 c1
    exact ⟨b1.trans b2, c2, l2.trans l1⟩
  | @align ks a b r k hg hab hws hb hga =>
    obtain ⟨c, kids, hst⟩ := hga
    obtain ⟨ws, hslice, hwsall⟩ := align_slice hab hws hb
    have hX : (Node.grp .Comment k).cl = true := clL_iff.1 hcl _ (List.mem_of_getElem? hb)
    have hXl : (Node.leavesL k).all cmtLeaf = true := by
      simp only [cl_grp, bne_self_eq_false, Bool.false_or, Bool.and_eq_true] at hX
      exact hX.1
    have hextra : (Node.leavesL (pySlice ks (a + 1) (b + 1))).all cmtLeaf = true := by
      rw [hslice, leavesL_append, List.all_append, ws_leaves_cmt hwsall]
      simpa using hXl
    have hc := groupTokens'_cases hg
    simp only [↓reduceIte] at hc
    rcases hc with ⟨c', kids', _, hst', _, rfl⟩ | ⟨_, hno, _⟩
    · rw [hst] at hst'; cases hst'
      have htake : ks.take (a + 1) = ks.take a ++ [Node.grp c kids] := by
        rw [List.take_add_one, hst]; rfl
      have hpart := pySlice_partition ks (a + 1) (b + 1)
      rw [htake] at hpart
      have hgk : (Node.grp c kids).cl = true := clL_iff.1 hcl _ (List.mem_of_getElem? hst)
      refine ⟨?_, ?_, groupTokens'_leaves hg⟩
      · conv => lhs; rw [← hpart]
        simp only [bracketsL_append, bracketsL_cons, bracketsL_nil, List.append_nil, brackets_grp,
          List.append_assoc, leavesL_append]
        refine (BrAllC.refl _).append ?_
        by_cases hsx : sixCls c = true
        · simp only [hsx, ↓reduceIte, List.cons_append, List.nil_append]
          exact .cons ⟨rfl, _, rfl, hextra⟩ (BrAllC.refl _)
        · simp only [hsx, Bool.false_eq_true, ↓reduceIte, List.nil_append]
          exact BrAllC.refl _
      · simp only [clL_append, clL_cons, Bool.and_eq_true]
        refine ⟨clL_take hcl _, ?_, clL_drop hcl _⟩
        simp only [cl_grp, Bool.and_eq_true, Bool.or_eq_true, bne_iff_ne, ne_eq, clL_append, leavesL_append,
          List.all_append] at hgk ⊢
        refine ⟨?_, hgk.2, clL_pySlice hcl _ _⟩
        rcases hgk.1 with h1 | h1
        · exact Or.inl h1
        · exact Or.inr ⟨h1, hextra⟩
    · rcases hno with h1 | h1
      · cases h1
      · have := h1 _ hst
        simp [Node.isInst] at this
  | @inside c kids kids' _ ih =>
    have hk : clL kids = true := by
      simp only [clL_cons, clL_nil, Bool.and_true, cl_grp, Bool.and_eq_true] at hcl
      exact hcl.2
    obtain ⟨b1, c1, l1⟩ := ih hk
    refine ⟨?_, ?_, by simp [l1]⟩
    · simp only [bracketsL_cons, bracketsL_nil, List.append_nil, brackets_grp, l1]
      exact (BrAllC.refl _).append b1
    · simp only [clL_cons, clL_nil, Bool.and_true, cl_grp, Bool.and_eq_true, l1] at hcl ⊢
      exact ⟨hcl.1, c1⟩
  | ctx pre post _ ih =>
    simp only [clL_append, Bool.and_eq_true] at hcl
    obtain ⟨b1, c1, l1⟩ := ih hcl.1.2
    refine ⟨?_, ?_, by simp [leavesL_append, l1]⟩
    · simp only [bracketsL_append]
      exact ((BrAllC.refl _).append b1).append (BrAllC.refl _)
    · simp only [clL_append, Bool.and_eq_true]
      exact ⟨⟨hcl.1.1, c1⟩, hcl.2⟩

/-! ### `align_comments` is such a sequence -/
theorem groupTokens_rwA {ks ks' : List Node} {a b : Nat} {k : List Node}
    (h : groupTokens ks .TokenList a b true true = .ok ks') (hab : a < b)
    (hws : ∀ j x, a < j → j < b → ks[j]? = some x → x.isWhitespace = true)
    (hb : ks[b]? = some (Node.grp .Comment k)) (hga : ∃ c kids, ks[a]? = some (Node.grp c kids)) : RwA ks ks' := by
  obtain ⟨r, hr, rfl⟩ := groupTokens_eq h
  exact .align hr hab hws hb hga

theorem comment_group_of_isInstAny {x : Node} (h : x.isInstAny Gen.align_comments_token_next_by0_i = true) :
    ∃ k, x = Node.grp .Comment k := by
  cases x with
  | tok _ _ => simp [Node.isInstAny, Node.isInst] at h
  | grp c k =>
    simp only [Node.isInstAny, Gen.align_comments_token_next_by0_i, List.any_cons, List.any_nil, Bool.or_false,
      Node.isInst, Bool.or_eq_true, beq_iff_eq] at h
    rcases h with h | h
    · cases h
    · exact ⟨k, by rw [h]⟩

theorem alignLoop_rwA {u : Text → Text} : ∀ (n : Nat) (ks : List Node) (pend : Option (Nat × Node)) (ks' : List Node),
    alignLoop u n ks pend = .ok ks' →
    (∀ t tok, pend = some (t, tok) → ks[t]? = some tok ∧
      tok.isInstAny Gen.align_comments_token_next_by0_i = true) → RwA ks ks' := by
  intro n
  induction n with
  | zero =>
    intro ks pend ks' h _
    cases pend with
    | none => simp [alignLoop] at h; subst h; exact .refl _
    | some p => simp [alignLoop] at h
  | succ n ih =>
    intro ks pend ks' h hp
    have hpend : ∀ (L1 : List Node) (start : Nat) t k,
        tokenNextBy u L1 Gen.align_comments_token_next_by1_i [] .none start = some (t, k) →
        L1[t]? = some k ∧ k.isInstAny Gen.align_comments_token_next_by0_i = true := by
      intro L1 start t k hq
      obtain ⟨h1, h2⟩ := pend_of_nextBy _ _ hq
      have h3 : k.isInstAny Gen.align_comments_token_next_by1_i = true := by simpa [imt] using h2
      exact ⟨h1, h3⟩
    cases pend with
    | none => simp [alignLoop] at h; subst h; exact .refl _
    | some p =>
      obtain ⟨t, tok⟩ := p
      obtain ⟨htok, hcm⟩ := hp t tok rfl
      obtain ⟨k, rfl⟩ := comment_group_of_isInstAny hcm
      simp only [alignLoop] at h
      cases hpv : tokenPrev ks t with
      | none => simp only [hpv] at h; exact ih _ _ _ h (hpend _ _)
      | some q =>
        obtain ⟨pidx, prev⟩ := q
        simp only [hpv] at h
        obtain ⟨hlt, hprev⟩ := tokenPrev_hit hpv
        by_cases hinst : prev.isInstAny Gen.align_comments_isinstance0 = true
        · rw [if_pos hinst] at h
          cases hg : groupTokens ks Gen.align_comments_group_tokens0_cls pidx t true
              Gen.align_comments_group_tokens0_extend with
          | error e => simp [hg] at h
          | ok ks1 =>
            simp only [hg] at h
            have hpg : ∃ c kids, ks[pidx]? = some (Node.grp c kids) := by
              have := isGroup_of_isInstAny hinst
              cases prev with
              | tok _ _ => cases this
              | grp c kids => exact ⟨c, kids, hprev⟩
            exact .trans (groupTokens_rwA hg hlt (tokenPrev_between hpv) htok hpg) (ih _ _ _ h (hpend _ _))
        · rw [if_neg hinst] at h
          exact ih _ _ _ h (hpend _ _)

theorem alignCommentsBody_rwA {u : Text → Text} {c : Cls} {ks ks' : List Node}
    (h : alignCommentsBody u c ks = .ok ks') : RwA ks ks' := by
  refine alignLoop_rwA _ _ _ _ h ?_
  intro t2 tok2 hq
  obtain ⟨h1, h2⟩ := pend_of_nextBy _ _ hq
  exact ⟨h1, by simpa [imt] using h2⟩

theorem mapGroups_rwA {elig : Node → Bool} {f : Cls → List Node → Except PyErr (List Node)}
    (hf : ∀ c ks ks', f c ks = .ok ks' → RwA ks ks') :
    ∀ ks ks', mapGroups elig f ks = .ok ks' → RwA ks ks' := by
  intro ks
  induction ks with
  | nil => intro ks' h; simp [mapGroups] at h; subst h; exact .refl _
  | cons k rest ih =>
    intro ks' h
    cases k with
    | tok tt v =>
      simp only [mapGroups] at h
      cases hr : mapGroups elig f rest with
      | error e => simp [hr] at h
      | ok rest' =>
        simp only [hr, Except.ok.injEq] at h
        subst h
        exact (ih _ hr).cons _
    | grp c kids =>
      simp only [mapGroups] at h
      by_cases he : elig (.grp c kids) = true
      · rw [if_pos he] at h
        cases hk : f c kids with
        | error e => simp [hk] at h
        | ok kids' =>
          simp only [hk] at h
          cases hr : mapGroups elig f rest with
          | error e => simp [hr] at h
          | ok rest' =>
            simp only [hr, Except.ok.injEq] at h
            subst h
            exact .trans (RwA.head rest (hf _ _ _ hk)) ((ih _ hr).cons _)
      · rw [if_neg he] at h
        cases hr : mapGroups elig f rest with
        | error e => simp [hr] at h
        | ok rest' =>
          simp only [hr, Except.ok.injEq] at h
          subst h
          exact (ih _ hr).cons _

theorem alignPass_rwA {u : Text → Text} : ∀ (fuel : Nat) (c : Cls) (ks ks' : List Node),
    passByName u "align_comments" fuel c ks = .ok ks' → RwA ks ks' := by
  have hp : passByName u "align_comments" = adHocPass Gen.align_comments_recurseSkip (alignCommentsBody u) := by
    unfold passByName; simp (config := { decide := true })
  rw [hp]
  have hrec : ∀ (skip : List Cls) (fuel : Nat) (c : Cls) (ks ks' : List Node),
      recursePass skip (alignCommentsBody u) fuel c ks = .ok ks' → RwA ks ks' := by
    intro skip fuel
    induction fuel with
    | zero => intro c ks ks' h; simp [recursePass] at h
    | succ n ih =>
      intro c ks ks' h
      simp only [recursePass] at h
      cases hm : mapGroups (fun k => !k.isInstAny skip) (recursePass skip (alignCommentsBody u) n) ks with
      | error e => simp [hm] at h
      | ok ks1 =>
        simp only [hm] at h
        exact .trans (mapGroups_rwA ih _ _ hm) (alignCommentsBody_rwA h)
  intro fuel c ks ks' h
  have he : adHocPass Gen.align_comments_recurseSkip (alignCommentsBody u) = recursePass [] (alignCommentsBody u) := rfl
  rw [he] at h
  exact hrec _ _ _ _ _ h

/-- **`align_comments`**: given `CL`, every bracket/block group keeps its leaves, possibly followed by comment and
whitespace leaves; `CL` and all leaves are kept -/
theorem align_pass_brackets {u : Text → Text} {fuel : Nat} {c : Cls} {ks ks' : List Node}
    (h : passByName u "align_comments" fuel c ks = .ok ks') (hcl : clL ks = true) :
    BrAllC (bracketsL ks) (bracketsL ks') ∧ clL ks' = true ∧ Node.leavesL ks' = Node.leavesL ks :=
  (alignPass_rwA fuel c ks ks' h).brackets hcl

/-! ### `group_comments` establishes `CL` -/
theorem isIn_newline_ws {tt : TType} (h : tt.isIn T.Newline = true) : tt.isIn T.Whitespace = true := by
  simp only [TType.isIn, T.Newline, T.Whitespace] at h ⊢
  match tt, h with
  | [], h => simp [List.isPrefixOf] at h
  | [_], h => simp [List.isPrefixOf] at h
  | [_, _], h => simp [List.isPrefixOf] at h
  | a :: b :: c :: r, h =>
    simp only [List.isPrefixOf, Bool.and_eq_true, beq_iff_eq] at h ⊢
    exact ⟨h.1, h.2.1, trivial⟩

/-- a child that is a comment leaf or a newline has only comment/whitespace leaves -/
theorem cmt_elt_leaves {u : Text → Text} {x : Node}
    (h : (imt u x [] [] Gen.group_comments_imt0_t || x.isNewline) = true) : x.leaves.all cmtLeaf = true := by
  cases x with
  | grp c k => simp [imt, Node.isInstAny, Node.ttIn, Node.isNewline, Gen.group_comments_imt0_t] at h
  | tok tt v =>
    simp only [imt, Node.isInstAny, List.any_nil, Bool.false_or, Gen.group_comments_imt0_t, List.any_cons,
      Bool.or_false, Node.ttIn, Node.isNewline, Bool.or_eq_true] at h
    simp only [leaves_tok, List.all_cons, List.all_nil, Bool.and_true, cmtLeaf, Bool.or_eq_true]
    rcases h with h | h
    · exact Or.inl h
    · exact Or.inr (isIn_newline_ws h)

theorem commentsLoop_cl {u : Text → Text} : ∀ (n : Nat) (ks : List Node) (pend : Option (Nat × Node)) (ks' : List Node),
    commentsLoop u n ks pend = .ok ks' → clL ks = true → clL ks' = true := by
  intro n
  induction n with
  | zero =>
    intro ks pend ks' h hcl
    cases pend with
    | none => simp [commentsLoop] at h; subst h; exact hcl
    | some p => simp [commentsLoop] at h
  | succ n ih =>
    intro ks pend ks' h hcl
    cases pend with
    | none => simp [commentsLoop] at h; subst h; exact hcl
    | some p =>
      obtain ⟨t, tok⟩ := p
      simp only [commentsLoop] at h
      generalize hmf : tokenMatchingFwd ks _ t = mres at h
      cases mres with
      | none => exact ih _ _ _ h hcl
      | some q =>
        obtain ⟨eidx, ek⟩ := q
        simp only at h
        obtain ⟨h1, h2, _, h4⟩ := tokenMatchingFwd_hit hmf
        cases hpv : tokenPrev ks eidx false with
        | none => simp [hpv] at h
        | some q2 =>
          obtain ⟨pe, pk⟩ := q2
          simp only [hpv] at h
          cases hg : groupTokens ks Gen.group_comments_group_tokens0_cls t pe true
              Gen.group_comments_group_tokens0_extend with
          | error e => simp [hg] at h
          | ok ks1 =>
            simp only [hg] at h
            refine ih _ _ _ h ?_
            have hpe : pe < eidx := (tokenPrev_hit hpv).1
            obtain ⟨r, hr, rfl⟩ := groupTokens_eq hg
            have hc := groupTokens'_cases hr
            simp only [↓reduceIte] at hc
            rcases hc with ⟨c, kids, hext, _⟩ | ⟨_, _, rfl⟩
            · cases hext
            · simp only [clL_append, clL_cons, Bool.and_eq_true]
              refine ⟨clL_take hcl _, ?_, clL_drop hcl _⟩
              simp only [cl_grp, Bool.and_eq_true, Bool.or_eq_true]
              refine ⟨Or.inr ?_, clL_pySlice hcl _ _⟩
              -- every child in the slice is a comment leaf or a newline
              have hall : ∀ x ∈ pySlice ks t (pe + 1), x.leaves.all cmtLeaf = true := by
                intro x hx
                unfold pySlice at hx
                obtain ⟨i, hi, hxi⟩ := List.getElem_of_mem hx
                simp only [List.length_drop, List.length_take] at hi
                have hget : ks[t + i]? = some x := by
                  rw [← hxi]; simp [List.getElem_drop, List.getElem_take]
                have := h4 (t + i) x (by omega) (by omega) hget
                apply cmt_elt_leaves (u := u)
                simp only [Bool.not_eq_false'] at this
                simpa using this
              generalize pySlice ks t (pe + 1) = sl at hall
              induction sl with
              | nil => simp
              | cons y ys ihs =>
                simp only [leavesL_cons, List.all_append, Bool.and_eq_true]
                exact ⟨hall y List.mem_cons_self, ihs (fun z hz => hall z (List.mem_cons_of_mem _ hz))⟩

theorem mapGroups_cl {elig : Node → Bool} {f : Cls → List Node → Except PyErr (List Node)}
    (hf : ∀ c ks ks', f c ks = .ok ks' → clL ks = true → clL ks' = true)
    (he : ∀ c k, elig (Node.grp c k) = true → c ≠ .Comment) :
    ∀ ks ks', mapGroups elig f ks = .ok ks' → clL ks = true → clL ks' = true := by
  intro ks
  induction ks with
  | nil => intro ks' h _; simp [mapGroups] at h; subst h; simp
  | cons k rest ih =>
    intro ks' h hcl
    simp only [clL_cons, Bool.and_eq_true] at hcl
    cases k with
    | tok tt v =>
      simp only [mapGroups] at h
      cases hr : mapGroups elig f rest with
      | error e => simp [hr] at h
      | ok rest' =>
        simp only [hr, Except.ok.injEq] at h
        subst h
        simp [ih _ hr hcl.2]
    | grp c kids =>
      simp only [mapGroups] at h
      by_cases hel : elig (.grp c kids) = true
      · rw [if_pos hel] at h
        cases hk : f c kids with
        | error e => simp [hk] at h
        | ok kids' =>
          simp only [hk] at h
          cases hr : mapGroups elig f rest with
          | error e => simp [hr] at h
          | ok rest' =>
            simp only [hr, Except.ok.injEq] at h
            subst h
            have hc := he c kids hel
            have hkc : clL kids = true := by
              have := hcl.1
              simp only [cl_grp, Bool.and_eq_true] at this
              exact this.2
            simp only [clL_cons, cl_grp, Bool.and_eq_true, Bool.or_eq_true, bne_iff_ne, ne_eq]
            exact ⟨⟨Or.inl hc, hf _ _ _ hk hkc⟩, ih _ hr hcl.2⟩
      · rw [if_neg hel] at h
        cases hr : mapGroups elig f rest with
        | error e => simp [hr] at h
        | ok rest' =>
          simp only [hr, Except.ok.injEq] at h
          subst h
          simp [hcl.1, ih _ hr hcl.2]

/-- **`group_comments` keeps (hence, from a flat statement, establishes) `CL`**: the `Comment` groups it builds
consist of comment leaves and newlines -/
theorem groupComments_cl {u : Text → Text} {fuel : Nat} {c : Cls} {ks ks' : List Node}
    (h : passByName u "group_comments" fuel c ks = .ok ks') (hcl : clL ks = true) : clL ks' = true := by
  have hp : passByName u "group_comments" = recursePass [.Comment] (groupCommentsBody u) := by
    unfold passByName; simp (config := { decide := true }); rfl
  rw [hp] at h
  have hrec : ∀ (fuel : Nat) (c : Cls) (ks ks' : List Node),
      recursePass [.Comment] (groupCommentsBody u) fuel c ks = .ok ks' → clL ks = true → clL ks' = true := by
    intro fuel
    induction fuel with
    | zero => intro c ks ks' h; simp [recursePass] at h
    | succ n ih =>
      intro c ks ks' h hcl
      simp only [recursePass] at h
      cases hm : mapGroups (fun k => !k.isInstAny [.Comment]) (recursePass [.Comment] (groupCommentsBody u) n) ks with
      | error e => simp [hm] at h
      | ok ks1 =>
        simp only [hm] at h
        have h1 := mapGroups_cl ih (by
          intro c k hel heq
          subst heq
          simp [Node.isInstAny, Node.isInst] at hel) _ _ hm hcl
        exact commentsLoop_cl _ _ _ _ h h1
  exact hrec _ _ _ _ h hcl

theorem clL_flat (st : List Tok) : clL (st.map fun t => Node.tok t.tt t.val) = true := by
  induction st with
  | nil => simp
  | cons t st ih => simp [ih]

/-! ### `grouping.group` around `align_comments` -/
theorem runPasses_brackets_strict {u : Text → Text} {fuel : Nat} {c : Cls} :
    ∀ (names : List String) (ks ks' : List Node),
      (∀ n ∈ names, isMatchingName n = false ∧ n ≠ "align_comments") →
      runPasses u fuel c names ks = .ok ks' → BrAll false (bracketsL ks) (bracketsL ks') := by
  intro names
  induction names with
  | nil => intro ks ks' _ h; simp [runPasses] at h; subst h; exact BrAll.refl _ _
  | cons p ps ih =>
    intro ks ks' hn h
    simp only [runPasses] at h
    cases hp : passByName u p fuel c ks with
    | error e => simp [hp] at h
    | ok ks1 =>
      simp only [hp] at h
      obtain ⟨h1, h2⟩ := hn p List.mem_cons_self
      have hb := (passByName_rw u p false h1 (fun heq => absurd heq h2) fuel c ks ks1 hp).brackets.1
      exact hb.trans (ih _ _ (fun n hn' => hn n (List.mem_cons_of_mem _ hn')) h)

theorem passOrder_split :
    Gen.passOrder = Gen.passOrder.take 7 ++ ((Gen.passOrder.take 22).drop 7 ++
      ("align_comments" :: Gen.passOrder.drop 23)) := by decide

theorem passOrder_mid_ok : ((Gen.passOrder.take 22).drop 7).all
    (fun n => !isMatchingName n && n != "align_comments") = true := by decide

theorem passOrder_tail_ok : (Gen.passOrder.drop 23).all
    (fun n => !isMatchingName n && n != "align_comments") = true := by decide

/-- **end to end**: with `m7` the tree after `group_begin`, `m22` the tree handed to `align_comments`, `m23` its
result: the bracket/block groups of `m22` are those of `m7` (leaves up to Operator re-typing); given `CL m22`,
those of `m23` have the same leaves followed by comment/whitespace leaves only — i.e. each such node, ignoring the
comments attached after it, still ends with its closing token; the two remaining passes keep them again. -/
theorem groupWith_brackets_comments {u : Text → Text} {fuel : Nat} {ks ks' : List Node}
    (h : groupWith u fuel ks = .ok ks') :
    ∃ m7 m22 m23, runPasses u fuel .Statement (Gen.passOrder.take 7) ks = .ok m7 ∧
      runPasses u fuel .Statement ((Gen.passOrder.take 22).drop 7) m7 = .ok m22 ∧
      passByName u "align_comments" fuel .Statement m22 = .ok m23 ∧
      runPasses u fuel .Statement (Gen.passOrder.drop 23) m23 = .ok ks' ∧
      BrAll false (bracketsL m7) (bracketsL m22) ∧
      (clL m22 = true → BrAllC (bracketsL m22) (bracketsL m23) ∧ clL m23 = true) ∧
      BrAll false (bracketsL m23) (bracketsL ks') := by
  unfold groupWith at h
  rw [passOrder_split] at h
  obtain ⟨m7, h1, h2⟩ := runPasses_append _ _ _ _ h
  obtain ⟨m22, h3, h4⟩ := runPasses_append _ _ _ _ h2
  simp only [runPasses] at h4
  cases hp : passByName u "align_comments" fuel .Statement m22 with
  | error e => simp [hp] at h4
  | ok m23 =>
    simp only [hp] at h4
    refine ⟨m7, m22, m23, h1, h3, hp, h4, ?_, ?_, ?_⟩
    · refine runPasses_brackets_strict _ _ _ ?_ h3
      intro n hn
      have := List.all_eq_true.1 passOrder_mid_ok n hn
      simpa using this
    · intro hcl
      obtain ⟨b, c, _⟩ := align_pass_brackets hp hcl
      exact ⟨b, c⟩
    · refine runPasses_brackets_strict _ _ _ ?_ h4
      intro n hn
      have := List.all_eq_true.1 passOrder_tail_ok n hn
      simpa using this

end Sql
