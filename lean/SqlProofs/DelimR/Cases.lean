import SqlProofs.FilterTotal
/-!
# SqlProofs.DelimR.Cases — `get_cases` of the filter model never raises, and what it returns

Facts about `getCasesGo` alone (any child list): it returns; every case it returns has a non-empty condition or a
non-empty value; every entry is an entry of the input.  Hence `FilterSafe.alignedCaseOK ks` as soon as `ks` has a direct
`END` child.
-/
namespace Sql
namespace DC

open FilterSafe

abbrev CV := Option TL × TL

def cvEntries (cv : CV) : TL := (cv.1.getD []) ++ cv.2

/-- loop invariant of `getCasesGo` -/
structure GInv (tl0 : TL) (mode : Nat) (ret : List CV) : Prop where
  m1 : mode = 1 → ret = [] ∨ ∃ init c v, ret = init ++ [(some c, v)]
  m2 : mode = 2 → ret ≠ []
  le : mode ≤ 2
  ok : ∀ cv ∈ ret, caseItemOK cv = true
  ent : ∀ cv ∈ ret, ∀ e ∈ cvEntries cv, e ∈ tl0

theorem caseAppend_snoc (toCond : Bool) (x : Nat × FNode) (c : Option TL) (v : TL) :
    ∀ (init : List CV), caseAppend toCond x (init ++ [(c, v)]) =
      if toCond then
        (match c with
         | some cl => .ok (init ++ [(some (cl ++ [x]), v)])
         | none => .error .attributeError)
      else .ok (init ++ [(c, v ++ [x])])
  | [] => by
    simp only [List.nil_append, caseAppend]
    cases toCond <;> cases c <;> rfl
  | e :: init => by
    have ih := caseAppend_snoc toCond x c v init
    cases hi : init ++ [(c, v)] with
    | nil => simp at hi
    | cons e2 rest =>
      simp only [List.cons_append, hi, caseAppend]
      rw [← hi, ih]
      cases toCond <;> cases c <;> simp [Except.map]

theorem snoc_of_ne_nil {α : Type} {l : List α} (h : l ≠ []) : ∃ init x, l = init ++ [x] :=
  ⟨l.dropLast, l.getLast h, (List.dropLast_concat_getLast h).symm⟩

theorem caseItemOK_cond {c : TL} {v : TL} (x : Nat × FNode) : caseItemOK (some (c ++ [x]), v) = true := by
  unfold caseItemOK
  cases c <;> simp

theorem caseItemOK_value (c : Option TL) {v : TL} (x : Nat × FNode) : caseItemOK (c, v ++ [x]) = true := by
  unfold caseItemOK
  cases c with
  | none => simp
  | some cl => cases cl <;> simp

/-- appending to the condition of the last case -/
theorem ginv_cond {tl0 : TL} {init : List CV} {c v : TL} {x : Nat × FNode} (hx : x ∈ tl0)
    (hok : ∀ cv ∈ init, caseItemOK cv = true) (hent : ∀ cv ∈ init ++ [(some c, v)], ∀ e ∈ cvEntries cv, e ∈ tl0) :
    GInv tl0 1 (init ++ [(some (c ++ [x]), v)]) := by
  refine ⟨fun _ => Or.inr ⟨init, c ++ [x], v, rfl⟩, fun h => absurd h (by decide), by omega, ?_, ?_⟩
  · intro cv hcv
    rcases List.mem_append.1 hcv with h | h
    · exact hok cv h
    · simp only [List.mem_singleton] at h; subst h; exact caseItemOK_cond x
  · intro cv hcv e he
    rcases List.mem_append.1 hcv with h | h
    · exact hent cv (List.mem_append_left _ h) e he
    · simp only [List.mem_singleton] at h
      subst h
      simp only [cvEntries, Option.getD_some, List.append_assoc, List.mem_append, List.mem_singleton] at he
      rcases he with he | he | he
      · exact hent (some c, v) (by simp) e (by simp [cvEntries, he])
      · subst he; exact hx
      · exact hent (some c, v) (by simp) e (by simp [cvEntries, he])

/-- appending to the value of the last case -/
theorem ginv_value {tl0 : TL} {init : List CV} {c : Option TL} {v : TL} {x : Nat × FNode} (hx : x ∈ tl0)
    (hok : ∀ cv ∈ init, caseItemOK cv = true) (hent : ∀ cv ∈ init ++ [(c, v)], ∀ e ∈ cvEntries cv, e ∈ tl0) :
    GInv tl0 2 (init ++ [(c, v ++ [x])]) := by
  refine ⟨fun h => absurd h (by decide), fun _ => (by simp), by omega, ?_, ?_⟩
  · intro cv hcv
    rcases List.mem_append.1 hcv with h | h
    · exact hok cv h
    · simp only [List.mem_singleton] at h; subst h; exact caseItemOK_value c x
  · intro cv hcv e he
    rcases List.mem_append.1 hcv with h | h
    · exact hent cv (List.mem_append_left _ h) e he
    · simp only [List.mem_singleton] at h
      subst h
      simp only [cvEntries, List.mem_append, List.mem_singleton] at he
      rcases he with he | he | he
      · exact hent (c, v) (by simp) e (by simp [cvEntries, he])
      · exact hent (c, v) (by simp) e (by simp [cvEntries, he])
      · subst he; exact hx

theorem stepCond (x : Nat × FNode) (init : List CV) (c v : TL) :
    caseAppend true x (init ++ [(some c, v)]) = .ok (init ++ [(some (c ++ [x]), v)]) := by
  rw [caseAppend_snoc]; rfl

theorem stepVal (x : Nat × FNode) (init : List CV) (c : Option TL) (v : TL) :
    caseAppend false x (init ++ [(c, v)]) = .ok (init ++ [(c, v ++ [x])]) := by
  rw [caseAppend_snoc]; rfl

theorem stepCond0 (x : Nat × FNode) (c v : TL) :
    caseAppend true x [(some c, v)] = .ok [(some (c ++ [x]), v)] := stepCond x [] c v

theorem stepVal0 (x : Nat × FNode) (c : Option TL) (v : TL) :
    caseAppend false x [(c, v)] = .ok [(c, v ++ [x])] := stepVal x [] c v

theorem ent_new {tl0 : TL} {ret : List CV} (h : ∀ cv ∈ ret, ∀ e ∈ cvEntries cv, e ∈ tl0) (c : Option TL)
    (hc : c = some [] ∨ c = none) : ∀ cv ∈ ret ++ [(c, ([] : TL))], ∀ e ∈ cvEntries cv, e ∈ tl0 := by
  intro cv hcv e he
  rcases List.mem_append.1 hcv with h1 | h1
  · exact h cv h1 e he
  · simp only [List.mem_singleton] at h1
    subst h1
    rcases hc with rfl | rfl <;> simp [cvEntries] at he

theorem ent_single {tl0 : TL} : ∀ cv ∈ ([] : List CV) ++ [((some [] : Option TL), ([] : TL))], ∀ e ∈ cvEntries cv, e ∈ tl0 := by
  intro cv hcv e he
  simp only [List.nil_append, List.mem_singleton] at hcv
  subst hcv
  simp [cvEntries] at he

theorem nomemCV {P : CV → Prop} : ∀ cv ∈ ([] : List CV), P cv := fun _ h => nomatch h

theorem getCasesGo_total (tl0 : TL) : ∀ (tl : TL) (mode : Nat) (ret : List CV), (∀ x ∈ tl, x ∈ tl0) →
    GInv tl0 mode ret → ∃ r, getCasesGo true mode ret tl = .ok r ∧ (∀ cv ∈ r, caseItemOK cv = true) ∧
      (∀ cv ∈ r, ∀ e ∈ cvEntries cv, e ∈ tl0) := by
  intro tl
  induction tl with
  | nil => intro mode ret _ hi; exact ⟨ret, by simp [getCasesGo], hi.ok, hi.ent⟩
  | cons x rest ih =>
    intro mode ret hmem hi
    have hx : x ∈ tl0 := hmem x List.mem_cons_self
    have hrest : ∀ y ∈ rest, y ∈ tl0 := fun y hy => hmem y (List.mem_cons_of_mem _ hy)
    simp only [getCasesGo]
    by_cases hcase : x.2.matchKw "CASE" = true
    · simp only [hcase, ↓reduceIte]; exact ih mode ret hrest hi
    · simp only [hcase, Bool.false_eq_true, ↓reduceIte, Bool.true_and]
      by_cases hws : x.2.ttIn T.Whitespace = true
      · simp only [hws, ↓reduceIte]; exact ih mode ret hrest hi
      · simp only [hws, Bool.false_eq_true, ↓reduceIte]
        by_cases hwhen : x.2.matchKw "WHEN" = true
        · simp only [hwhen, ↓reduceIte]
          have hne : (ret ++ [((some [] : Option TL), ([] : TL))]).isEmpty = false := by simp
          simp only [hne, Bool.and_false, Bool.false_eq_true, ↓reduceIte, beq_self_eq_true, stepCond]
          exact ih 1 _ hrest (ginv_cond hx hi.ok (ent_new hi.ent _ (Or.inl rfl)))
        · simp only [hwhen, Bool.false_eq_true, ↓reduceIte]
          by_cases hthen : x.2.matchKw "THEN" = true
          · simp only [hthen, ↓reduceIte]
            by_cases hemp : ret = []
            · subst hemp
              simp only [List.isEmpty_nil, Bool.and_true, ↓reduceIte, show ((2 : Nat) != 0) = true from rfl,
                show ((2 : Nat) == 1) = false from rfl, show ((2 : Nat) == 2) = true from rfl, Bool.false_eq_true,
                stepVal0]
              exact ih 2 _ hrest (ginv_value (init := []) hx nomemCV ent_single)
            · obtain ⟨init, cv0, rfl⟩ := snoc_of_ne_nil hemp
              obtain ⟨c0, v0⟩ := cv0
              have hne : (init ++ [(c0, v0)]).isEmpty = false := by simp
              simp only [hne, Bool.and_false, Bool.false_eq_true, ↓reduceIte,
                show ((2 : Nat) == 1) = false from rfl, show ((2 : Nat) == 2) = true from rfl, stepVal]
              exact ih 2 _ hrest (ginv_value hx (fun cv h => hi.ok cv (List.mem_append_left _ h)) hi.ent)
          · simp only [hthen, Bool.false_eq_true, ↓reduceIte]
            by_cases helse : x.2.matchKw "ELSE" = true
            · simp only [helse, ↓reduceIte]
              have hne : (ret ++ [((none : Option TL), ([] : TL))]).isEmpty = false := by simp
              simp only [hne, Bool.and_false, Bool.false_eq_true, ↓reduceIte,
                show ((2 : Nat) == 1) = false from rfl, show ((2 : Nat) == 2) = true from rfl, stepVal]
              exact ih 2 _ hrest (ginv_value hx hi.ok (ent_new hi.ent _ (Or.inr rfl)))
            · simp only [helse, Bool.false_eq_true, ↓reduceIte]
              by_cases hend : x.2.matchKw "END" = true
              · simp only [hend, ↓reduceIte, show ((0 : Nat) != 0) = false from rfl, Bool.false_and,
                  Bool.false_eq_true, show ((0 : Nat) == 1) = false from rfl, show ((0 : Nat) == 2) = false from rfl]
                exact ih 0 ret hrest ⟨fun h => absurd h (by decide), fun h => absurd h (by decide), by omega, hi.ok, hi.ent⟩
              · simp only [hend, Bool.false_eq_true, ↓reduceIte]
                -- the mode stays as it is
                have hle := hi.le
                rcases (by omega : mode = 0 ∨ mode = 1 ∨ mode = 2) with rfl | rfl | rfl
                · simp only [show ((0 : Nat) != 0) = false from rfl, Bool.false_and, Bool.false_eq_true, ↓reduceIte,
                    show ((0 : Nat) == 1) = false from rfl, show ((0 : Nat) == 2) = false from rfl]
                  exact ih 0 ret hrest hi
                · rcases hi.m1 rfl with hemp | ⟨init, c, v, rfl⟩
                  · subst hemp
                    simp only [List.isEmpty_nil, Bool.and_true, show ((1 : Nat) != 0) = true from rfl, ↓reduceIte,
                      show ((1 : Nat) == 1) = true from rfl, stepCond0]
                    exact ih 1 _ hrest (ginv_cond (init := []) hx nomemCV ent_single)
                  · have hne : (init ++ [((some c : Option TL), v)]).isEmpty = false := by simp
                    simp only [hne, Bool.and_false, Bool.false_eq_true, ↓reduceIte,
                      show ((1 : Nat) == 1) = true from rfl, stepCond]
                    exact ih 1 _ hrest (ginv_cond hx (fun cv h => hi.ok cv (List.mem_append_left _ h)) hi.ent)
                · obtain ⟨init, cv0, rfl⟩ := snoc_of_ne_nil (hi.m2 rfl)
                  obtain ⟨c0, v0⟩ := cv0
                  have hne : (init ++ [(c0, v0)]).isEmpty = false := by simp
                  simp only [hne, Bool.and_false, Bool.false_eq_true, ↓reduceIte,
                    show ((2 : Nat) == 1) = false from rfl, show ((2 : Nat) == 2) = true from rfl, stepVal]
                  exact ih 2 _ hrest (ginv_value hx (fun cv h => hi.ok cv (List.mem_append_left _ h)) hi.ent)

end DC
end Sql

namespace Sql
namespace DC

open FilterSafe

theorem tagFrom_mem : ∀ (ks : List FNode) (i : Nat) (e : Nat × FNode), e ∈ tagFrom i ks → i ≤ e.1
  | [], _, _, h => by simp [tagFrom] at h
  | k :: ks, i, e, h => by
    simp only [tagFrom, List.mem_cons] at h
    rcases h with rfl | h
    · exact Nat.le_refl _
    · have := tagFrom_mem ks (i + 1) e h; omega

theorem tagFrom_untag : ∀ (ks : List FNode) (i : Nat), (tagFrom i ks).map (·.2) = ks
  | [], _ => rfl
  | k :: ks, i => by simp [tagFrom, tagFrom_untag ks (i + 1)]

theorem tlIndex_mem {tl : TL} {e : Nat × FNode} (h : e ∈ tl) : (tlIndex tl e.1).isSome = true := by
  unfold tlIndex
  cases hf : tl.findIdx? (fun x => x.1 == e.1) with
  | some i => rfl
  | none =>
    rw [List.findIdx?_eq_none_iff] at hf
    have := hf e h
    simp at this

/-- a `Case` with a direct `END` child is in the domain of the aligned `_process_case` -/
theorem alignedCaseOK_of_end (ks : List FNode) (h : ks.any (fun k => k.matchKw "END") = true) :
    alignedCaseOK ks = true := by
  unfold alignedCaseOK getCases
  obtain ⟨r, hr, hok, hent⟩ := getCasesGo_total (tagAll ks) (tagAll ks) 1 [] (fun _ hx => hx)
    ⟨fun _ => Or.inl rfl, fun h0 => absurd h0 (by decide), by omega, nomemCV, nomemCV⟩
  rw [hr]
  simp only [Bool.and_eq_true, Bool.or_eq_true, List.all_eq_true]
  refine ⟨⟨hok, ?_⟩, Or.inr ?_⟩
  · unfold caseTagsOK
    simp only [List.all_eq_true, Bool.and_eq_true, bne_iff_ne, ne_eq]
    intro cv hcv e he
    have hmem : e ∈ tagAll ks := hent cv hcv e he
    refine ⟨?_, tlIndex_mem hmem⟩
    have := tagFrom_mem ks 1 e hmem
    omega
  · obtain ⟨k, hk, hm⟩ := List.any_eq_true.1 h
    have : k ∈ (tagAll ks).map (·.2) := by unfold tagAll; rw [tagFrom_untag]; exact hk
    obtain ⟨e, he, rfl⟩ := List.mem_map.1 this
    exact List.any_eq_true.2 ⟨e, he, hm⟩

end DC
end Sql
