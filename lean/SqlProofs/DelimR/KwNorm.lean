import SqlProofs.DelimR.Main
/-!
# SqlProofs.DelimR.KwNorm — `kwNorm` separates the block keywords; the theorem for `grouping.group`
-/
namespace Sql
namespace DC

theorem delimU_kwNorm : DelimU kwNorm where
  pat := by decide +kernel
  lit := by decide +kernel
  over := by decide +kernel

end DC

/-- **the delimiters are kept, child-wise**: for a flat statement with `DelimSafe`, every Parenthesis / SquareBrackets /
Case / If / For / Begin node of the grouped tree is `[opener, …, closer, (whitespace | Comment group)*]` -/
theorem delims_kept_childwise {st : List Tok} {ks' : List Node} (hs : DelimSafe st = true)
    (h : group 200 (flatStatement st) = .ok ks') : delimShapeL kwNorm ks' = true :=
  DC.groupWith_delims_childwise DC.delimU_kwNorm hs h

end Sql
