import SqlProofs.DelimSafe
import SqlProofs.LeadingKeyword
/-!
# SqlProofs.DelimR.Basic — the child-level delimiter invariant: definitions

`Frame u ph c mo mc ks`: the children `ks` of a bracket/block node of class `c` read
`o :: ws ++ tail = F ++ cl :: tr` where `o` is the opening leaf (first child), `cl` the closing leaf, `tr` whitespace
leaves and `Comment` groups (`[]` as long as `align_comments` has not run: phases `w`, `s`), the first non-whitespace
child after `o` is not `openerBad`, the last non-whitespace child before `cl` is not `closerBad`, and (phase `w`, classes
whose `_groupable_tokens` is the whole list) no open WHERE.  `NodeInv`/`ListInv` say this of every bracket/block node
of a tree.  The keyword delimiters are compared through the normaliser `u`: `DelimU u` collects what is needed of it
(true for `kwNorm` by evaluation).
-/
namespace Sql
namespace DC

variable {u : Text → Text}

/-! ### what is needed of the normaliser -/
def kwDelims : List Text :=
  [txt "CASE", txt "IF", txt "FOR", txt "FOREACH", txt "BEGIN", txt "END", txt "END IF", txt "END LOOP"]

/-- the keyword pattern lists the later passes test tokens against -/
def kwPatterns : List (List MPat) :=
  [Gen.group_typed_literal_imt0_m, Gen.group_typed_literal_match1, Gen.group_operator_match0,
   Gen.group_identifier_list_m_role, Gen.group_over_token_next_by0_m, Gen.group_over_token_next_by1_m,
   Gen.group_where_token_next_by0_m, Gen.group_where_token_next_by1_m, Gen.group_where_token_next_by2_m,
   Gen.group_tzcasts_match0, Gen.group_values_token_next_by0_m]

/-- the normaliser separates the keyword delimiters from the keywords the later passes look for -/
structure DelimU (u : Text → Text) : Prop where
  pat : ∀ d ∈ kwDelims, ∀ ps ∈ kwPatterns, (Node.tok T.Keyword d).matchAny u ps = false
  lit : ∀ d ∈ kwDelims, u d ≠ txt "AS" ∧ u d ≠ txt "NULL"
  /-- `OVER` does not end a WHERE clause -/
  over : (Node.tok T.Keyword (txt "OVER")).matchAny u Gen.group_where_token_next_by1_m = false

/-- a delimiter leaf: one of `( ) [ ]` as punctuation, or a keyword normalising like one of the block keywords -/
inductive IsDelim (u : Text → Text) : Node → Prop
  | punct {v : Text} : v ∈ [[40], [41], [91], [93]] → IsDelim u (Node.tok T.Punctuation v)
  | kw {v d : Text} : d ∈ kwDelims → u v = u d → IsDelim u (Node.tok T.Keyword v)

theorem matchAny_kw_congr {v d : Text} (h : u v = u d) (ps : List MPat) :
    (Node.tok T.Keyword v).matchAny u ps = (Node.tok T.Keyword d).matchAny u ps := by
  simp only [Node.matchAny]
  congr 1
  funext p
  have hk : (T.Keyword.isIn T.Keyword) = true := by decide
  simp only [Node.matchP, Node.match, h, hk, if_true]

/-- a pattern of the six tables: punctuation among `( ) [ ]` or keyword values among `kwDelims` -/
def okPat (p : MPat) : Bool :=
  match p.values with
  | none => false
  | some vs =>
    (p.tt == T.Punctuation && vs.all (fun w => [[40], [41], [91], [93]].contains w)) ||
      (p.tt == T.Keyword && vs.all (fun w => kwDelims.contains w))

theorem isDelim_of_okPat {tt : TType} {v : Text} {p : MPat} (hok : okPat p = true)
    (hp : (Node.tok tt v).matchP u p = true) : IsDelim u (Node.tok tt v) := by
  simp only [Node.matchP, Node.match] at hp
  split at hp
  · cases hp
  · rename_i hne
    have htt : tt = p.tt := by simpa [bne_iff_ne] using hne
    subst htt
    unfold okPat at hok
    cases hv : p.values with
    | none => simp [hv] at hok
    | some vs =>
      simp only [hv, Bool.or_eq_true, Bool.and_eq_true, beq_iff_eq, List.all_eq_true] at hok
      rw [hv] at hp
      simp only at hp
      rcases hok with ⟨h3, hall⟩ | ⟨h3, hall⟩
      · simp only [h3] at hp ⊢
        have : (T.Punctuation.isIn T.Keyword) = false := by decide
        rw [this] at hp
        simp only [Bool.false_eq_true, ↓reduceIte, List.contains_iff_mem] at hp
        exact .punct (by simpa using hall v hp)
      · simp only [h3] at hp ⊢
        have : (T.Keyword.isIn T.Keyword) = true := by decide
        rw [this] at hp
        simp only [↓reduceIte, List.contains_iff_mem, List.mem_map] at hp
        obtain ⟨d, hd, hdv⟩ := hp
        exact .kw (by simpa using hall d hd) hdv.symm

theorem isDelim_of_matchAny {c : Cls} {mo mc : List MPat} (ht : delimTables c = some (mo, mc)) {x : Node}
    (h : x.matchAny u mo = true ∨ x.matchAny u mc = true) : IsDelim u x := by
  cases x with
  | grp c' k => rcases h with h | h <;> simp [Node.matchAny, Node.matchP, Node.match] at h
  | tok tt v =>
    have main : ∀ ps : List MPat, (Node.tok tt v).matchAny u ps = true → ps.all okPat = true →
        IsDelim u (Node.tok tt v) := by
      intro ps hps hall
      simp only [Node.matchAny, List.any_eq_true] at hps
      obtain ⟨p, hp, hm⟩ := hps
      exact isDelim_of_okPat (List.all_eq_true.1 hall p hp) hm
    cases c <;> first
      | (simp [delimTables, matchingTables] at ht; done)
      | (simp only [delimTables, matchingTables, Option.some.injEq, Prod.mk.injEq] at ht
         obtain ⟨rfl, rfl⟩ := ht
         rcases h with h | h <;> exact main _ h (by decide))

/-! ### what the later passes see in a delimiter leaf: nothing -/
theorem IsDelim.notWs {x : Node} (h : IsDelim u x) : x.isWhitespace = false := by
  cases h <;> simp (config := { decide := true }) [Node.isWhitespace, TType.isIn, T.Punctuation, T.Keyword, T.Whitespace]

theorem IsDelim.leaf {x : Node} (h : IsDelim u x) : x.isGroup = false := by
  cases h <;> rfl

theorem IsDelim.notTrailing {x : Node} (h : IsDelim u x) : isTrailing x = false := by
  cases h <;> simp (config := { decide := true }) [isTrailing, Node.isWhitespace, Node.isInst, TType.isIn, T.Punctuation,
    T.Keyword, T.Whitespace]

theorem kw_matchAny_false (hu : DelimU u) {v d : Text} (hd : d ∈ kwDelims) (hv : u v = u d) {ps : List MPat}
    (hps : ps ∈ kwPatterns) : (Node.tok T.Keyword v).matchAny u ps = false := by
  rw [matchAny_kw_congr hv]; exact hu.pat d hd ps hps

/-- unfolding set for facts about punctuation delimiters and type-only facts -/
macro "delim_simp" : tactic => `(tactic| simp (config := { decide := true }) [Node.matchAny, Node.matchP, Node.match, imt,
  imtOpt, Node.isInstAny, Node.isInst, Node.ttEqAny, Node.ttIn, Node.ttype?, Node.isKeyword, Node.normalized,
  TType.isIn, T.Keyword, T.Punctuation, T.Operator, isSomeTok, validComparison, validOperator, validIdentifierList,
  validAssignment,
  Gen.group_typecasts_match0, Gen.group_tzcasts_ttype_cmp0, Gen.group_typed_literal_imt0_m,
  Gen.group_typed_literal_isinstance0, Gen.group_period_match_for, Gen.group_comparison_ttype_cmp0,
  Gen.group_arrays_isinstance0, Gen.group_operator_imt0_t, Gen.group_identifier_list_match0,
  Gen.group_assignment_match0, Gen.group_typed_literal_match1, Gen.group_typed_literal_match0,
  Gen.group_period_valid_prev_sqlcls, Gen.group_period_valid_prev_ttypes, Gen.group_comparison_sqlcls,
  Gen.group_comparison_ttypes, Gen.group_arrays_sqlcls, Gen.group_arrays_ttypes, Gen.group_operator_sqlcls,
  Gen.group_operator_ttypes, Gen.group_operator_match0, Gen.group_identifier_list_sqlcls,
  Gen.group_identifier_list_m_role, Gen.group_identifier_list_ttypes, Gen.group_period_post_sqlcls,
  Gen.group_period_post_ttypes, Gen.group_tzcasts_match0, Gen.group_tzcasts_match1,
  Gen.group_identifier_ttypes, Gen.group_over_token_next_by0_m, Gen.group_over_token_next_by1_m,
  Gen.group_over_imt0_i, Gen.group_over_imt0_t,
  Gen.group_functions_token_next_by0_t, Gen.group_functions_token_next_by1_t, Gen.group_functions_isinstance0,
  Gen.group_functions_isinstance1, Gen.group_where_token_next_by0_m, Gen.group_where_token_next_by1_m,
  Gen.group_where_token_next_by2_m, Gen.group_aliased_I_ALIAS, Gen.group_aliased_token_next_by0_t,
  Gen.group_aliased_token_next_by1_t, Gen.group_aliased_isinstance0, Gen.group_order_token_next_by0_t,
  Gen.group_order_token_next_by1_t, Gen.group_order_imt0_i, Gen.group_order_imt0_t,
  Gen.align_comments_token_next_by0_i, Gen.align_comments_token_next_by1_i, Gen.align_comments_isinstance0,
  Gen.group_values_token_next_by0_m, List.isPrefixOf])

/-- the punctuation case of a fact about delimiter leaves: by evaluation -/
macro "punct_tac" hv:ident : tactic => `(tactic| (
  simp only [List.mem_cons, List.not_mem_nil, or_false] at $hv:ident
  rcases $hv:ident with h1 | h1 | h1 | h1 <;> subst h1 <;> delim_simp))

section facts
variable (hu : DelimU u) {x : Node} (h : IsDelim u x)
include hu h

theorem delim_typecasts : (cfgTypecasts u).isMatch x = false := by
  simp only [cfgTypecasts]
  cases h with
  | punct hp => punct_tac hp
  | kw hd hv => exact matchAny_false_of_tt (by decide)

theorem delim_tzcasts : (cfgTzcasts u).isMatch x = false := by
  simp only [cfgTzcasts]
  cases h with
  | punct hp => punct_tac hp
  | kw hd hv => delim_simp

theorem delim_typedLiteral0 : (cfgTypedLiteral0 u).isMatch x = false := by
  simp only [cfgTypedLiteral0]
  cases h with
  | punct hp => punct_tac hp
  | kw hd hv =>
    have := kw_matchAny_false hu hd hv (ps := Gen.group_typed_literal_imt0_m) (by simp [kwPatterns])
    simpa [imt, Node.isInstAny, Node.matchAny] using this

theorem delim_typedLiteral1 : (cfgTypedLiteral1 u).isMatch x = false := by
  simp only [cfgTypedLiteral1]
  cases h with
  | punct hp => punct_tac hp
  | kw hd hv => delim_simp

theorem delim_period : (cfgPeriod u).isMatch x = false := by
  simp only [cfgPeriod]
  cases h with
  | punct hp => punct_tac hp
  | kw hd hv => exact matchAny_false_of_tt (by decide)

theorem delim_as : (cfgAs u).isMatch x = false := by
  simp only [cfgAs]
  cases h with
  | punct hp => punct_tac hp
  | kw hd hv =>
    have := (hu.lit _ hd).1
    simp (config := { decide := true }) [Node.isKeyword, Node.normalized, TType.isIn, T.Keyword, List.isPrefixOf, hv, this]

theorem delim_assignment : (cfgAssignment u).isMatch x = false := by
  simp only [cfgAssignment]
  cases h with
  | punct hp => punct_tac hp
  | kw hd hv => exact matchAny_false_of_tt (by decide)

theorem delim_comparison : (cfgComparison u).isMatch x = false := by
  simp only [cfgComparison]
  cases h with
  | punct hp => punct_tac hp
  | kw hd hv => delim_simp

theorem delim_arrays : (cfgArrays u).isMatch x = false := by
  simp only [cfgArrays]
  cases h with
  | punct hp => punct_tac hp
  | kw hd hv => delim_simp

theorem delim_operator : (cfgOperator u).isMatch x = false := by
  simp only [cfgOperator]
  cases h with
  | punct hp => punct_tac hp
  | kw hd hv => delim_simp

theorem delim_identifierList : (cfgIdentifierList u).isMatch x = false := by
  simp only [cfgIdentifierList]
  cases h with
  | punct hp => punct_tac hp
  | kw hd hv => exact matchAny_false_of_tt (by decide)

/-! a delimiter is never a valid `prev_` of `group_period` / `group_arrays` / `group_operator` … -/
theorem delim_prev_period : (cfgPeriod u).validPrev x = false := by
  simp only [cfgPeriod]
  cases h with
  | punct hp => punct_tac hp
  | kw hd hv => delim_simp

theorem delim_prev_arrays : (cfgArrays u).validPrev x = false := by
  simp only [cfgArrays]
  cases h with
  | punct hp => punct_tac hp
  | kw hd hv => delim_simp

theorem delim_prev_operator : (cfgOperator u).validPrev x = false := by
  simp only [cfgOperator, validOperator]
  cases h with
  | punct hp => punct_tac hp
  | kw hd hv =>
    have := kw_matchAny_false hu hd hv (ps := Gen.group_operator_match0) (by simp [kwPatterns])
    rw [this]
    delim_simp

/-! … nor a valid `next_` of `group_operator` / the second `group_typed_literal` run / the `post` of `group_period` -/
theorem delim_next_operator : (cfgOperator u).validNext (some x) = false := by
  simp only [cfgOperator, validOperator]
  cases h with
  | punct hp => punct_tac hp
  | kw hd hv =>
    have := kw_matchAny_false hu hd hv (ps := Gen.group_operator_match0) (by simp [kwPatterns])
    rw [this]
    delim_simp

theorem delim_next_typedLiteral1 : (cfgTypedLiteral1 u).validNext (some x) = false := by
  simp only [cfgTypedLiteral1]
  cases h with
  | punct hp => punct_tac hp
  | kw hd hv => exact kw_matchAny_false hu hd hv (by simp [kwPatterns])

theorem delim_post_period : imt u x Gen.group_period_post_sqlcls [] Gen.group_period_post_ttypes = false := by
  cases h with
  | punct hp => punct_tac hp
  | kw hd hv => delim_simp

end facts

/-! ### `openerBad` / `closerBad` are stable under what a pass can do to the neighbour of a delimiter -/
theorem isMatch_grp_facts (c : Cls) (k : List Node) :
    (cfgTypecasts u).isMatch (Node.grp c k) = false ∧ (cfgTzcasts u).isMatch (Node.grp c k) = false ∧
    (cfgTypedLiteral0 u).isMatch (Node.grp c k) = false ∧ (cfgPeriod u).isMatch (Node.grp c k) = false ∧
    (cfgAs u).isMatch (Node.grp c k) = false ∧ (cfgAssignment u).isMatch (Node.grp c k) = false ∧
    (cfgComparison u).isMatch (Node.grp c k) = false ∧ (cfgOperator u).isMatch (Node.grp c k) = false ∧
    (cfgIdentifierList u).isMatch (Node.grp c k) = false := by
  refine ⟨?_, ?_, ?_, ?_, ?_, ?_, ?_, ?_, ?_⟩ <;>
    simp [cfgTypecasts, cfgTzcasts, cfgTypedLiteral0, cfgPeriod, cfgAs, cfgAssignment, cfgComparison, cfgOperator,
      cfgIdentifierList, Node.matchAny, Node.matchP, Node.match, Node.ttype?, imt, Node.isInstAny, Node.isKeyword,
      Node.ttEqAny, Gen.group_operator_imt0_t]

theorem isMatch_op_facts (v : Text) :
    (cfgTypecasts u).isMatch (Node.tok T.Operator v) = false ∧ (cfgTzcasts u).isMatch (Node.tok T.Operator v) = false ∧
    (cfgTypedLiteral0 u).isMatch (Node.tok T.Operator v) = false ∧
    (cfgTypedLiteral1 u).isMatch (Node.tok T.Operator v) = false ∧
    (cfgAs u).isMatch (Node.tok T.Operator v) = false ∧ (cfgAssignment u).isMatch (Node.tok T.Operator v) = false ∧
    (cfgComparison u).isMatch (Node.tok T.Operator v) = false ∧ (cfgArrays u).isMatch (Node.tok T.Operator v) = false ∧
    (cfgIdentifierList u).isMatch (Node.tok T.Operator v) = false := by
  refine ⟨?_, ?_, ?_, ?_, ?_, ?_, ?_, ?_, ?_⟩ <;>
    simp (config := { decide := true }) [cfgTypecasts, cfgTzcasts, cfgTypedLiteral0, cfgTypedLiteral1, cfgAs, cfgAssignment,
      cfgComparison, cfgArrays, cfgIdentifierList, Node.matchAny, Node.matchP, Node.match, Node.ttype?, imt,
      Node.isInstAny, Node.isInst, Node.isKeyword, TType.isIn, T.Operator, T.Keyword, List.isPrefixOf,
      Gen.group_typecasts_match0, Gen.group_tzcasts_ttype_cmp0, Gen.group_typed_literal_imt0_m,
      Gen.group_assignment_match0, Gen.group_comparison_ttype_cmp0, Gen.group_identifier_list_match0]

theorem headRel_notWs {x x' : Node} (hr : HeadRel x x') (hw : x.isWhitespace = false) : x'.isWhitespace = false := by
  rcases hr with rfl | hg | rfl
  · exact hw
  · cases x' with
    | tok _ _ => cases hg
    | grp _ _ => rfl
  · cases x with
    | grp _ _ => exact hw
    | tok tt v => simp (config := { decide := true }) [Node.setTType, Node.isWhitespace, TType.isIn, T.Operator, T.Whitespace]

theorem openerBad_stable (hu : DelimU u) {o : Node} (ho : IsDelim u o) : BadStable (openerBad u o) := by
  intro x x' hr hw hb
  refine ⟨headRel_notWs hr hw, ?_⟩
  have hpa := delim_prev_arrays hu ho
  have hpp := delim_prev_period hu ho
  have hpo := delim_prev_operator hu ho
  have key : ∀ y : Node, (y.isGroup = true ∨ ∃ v, y = Node.tok T.Operator v) → openerBad u o y = false := by
    intro y hy
    rcases hy with hy | ⟨v, rfl⟩
    · cases y with
      | tok _ _ => cases hy
      | grp c k =>
        obtain ⟨h1, h2, _, h4, h5, h6, h7, h8, h9⟩ := isMatch_grp_facts (u := u) c k
        simp [openerBad, prevAbsorbers, h1, h2, h4, h5, h6, h7, h8, h9, hpa]
    · obtain ⟨h1, h2, _, _, h5, h6, h7, h8, h9⟩ := isMatch_op_facts (u := u) v
      simp [openerBad, prevAbsorbers, h1, h2, h5, h6, h7, h8, h9, hpp, hpo]
  rcases hr with rfl | hg | rfl
  · exact hb
  · exact key _ (Or.inl hg)
  · cases x with
    | grp c k => exact hb
    | tok tt v => exact key _ (Or.inr ⟨v, rfl⟩)

theorem closerBad_stable (hu : DelimU u) {c : Node} (hc : IsDelim u c) : BadStable (closerBad u c) := by
  intro x x' hr hw hb
  refine ⟨headRel_notWs hr hw, ?_⟩
  have hno := delim_next_operator hu hc
  have hnt := delim_next_typedLiteral1 hu hc
  have hpp := delim_post_period hu hc
  have key : ∀ y : Node, (y.isGroup = true ∨ ∃ v, y = Node.tok T.Operator v) → closerBad u c y = false := by
    intro y hy
    rcases hy with hy | ⟨v, rfl⟩
    · cases y with
      | tok _ _ => cases hy
      | grp c' k =>
        obtain ⟨h1, h2, h3, h4, h5, h6, h7, h8, h9⟩ := isMatch_grp_facts (u := u) c' k
        simp [closerBad, nextAbsorbers, h1, h2, h3, h4, h5, h6, h7, h8, h9, hnt, hpp]
    · obtain ⟨h1, h2, h3, h4, h5, h6, h7, _, h9⟩ := isMatch_op_facts (u := u) v
      simp [closerBad, nextAbsorbers, h1, h2, h3, h4, h5, h6, h7, h9, hno, hpp]
  rcases hr with rfl | hg | rfl
  · exact hb
  · exact key _ (Or.inl hg)
  · cases x with
    | grp c' k => exact hb
    | tok tt v => exact key _ (Or.inr ⟨v, rfl⟩)

/-- a delimiter next to a delimiter (`()`, `case end`) is harmless on both sides -/
theorem openerBad_delim (hu : DelimU u) {o s : Node} (hs : IsDelim u s) : openerBad u o s = false := by
  simp [openerBad, prevAbsorbers, delim_typecasts hu hs, delim_tzcasts hu hs, delim_period hu hs, delim_as hu hs,
    delim_assignment hu hs, delim_comparison hu hs, delim_arrays hu hs, delim_operator hu hs,
    delim_identifierList hu hs]

theorem closerBad_delim (hu : DelimU u) {c s : Node} (hs : IsDelim u s) : closerBad u c s = false := by
  simp [closerBad, nextAbsorbers, delim_typecasts hu hs, delim_tzcasts hu hs, delim_period hu hs, delim_as hu hs,
    delim_assignment hu hs, delim_comparison hu hs, delim_typedLiteral0 hu hs, delim_typedLiteral1 hu hs,
    delim_operator hu hs, delim_identifierList hu hs]

end DC
end Sql
