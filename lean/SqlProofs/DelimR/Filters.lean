import SqlProofs.DelimR.KwNorm
import SqlProofs.FilterTotal
import SqlProofs.DelimR.Cases
/-!
# SqlProofs.DelimR.Filters — `strip_whitespace` is total on grouped `DelimSafe` statements

`_stripws_parenthesis` raises only on a parenthesis whose last-but-one child (after trimming) is a group consisting of
whitespace only.  No group of a grouped `DelimSafe` statement is one (`groupWith_nw`), so the whole tree lies in
`FilterSafe.stripws`, the domain of `stripWhitespace_total`.
-/
namespace Sql
namespace DC

theorem nodeNW_grp {c : Cls} {ks : List Node} :
    nodeNW (Node.grp c ks) = true ↔ hasNW ks = true ∧ (c = .IdentifierList → ilOK ks = true) ∧ nwL ks = true := by
  simp only [nodeNW, Bool.and_eq_true, Bool.or_eq_true, bne_iff_ne, ne_eq]
  constructor
  · rintro ⟨⟨h1, h2⟩, h3⟩
    refine ⟨h1, fun hc => ?_, h3⟩
    rcases h2 with h2 | h2
    · exact absurd hc h2
    · exact h2
  · rintro ⟨h1, h2, h3⟩
    refine ⟨⟨h1, ?_⟩, h3⟩
    by_cases hc : c = .IdentifierList
    · exact Or.inr (h2 hc)
    · exact Or.inl hc

theorem ofNode_ws (k : Node) : (FNode.ofNode k).isWhitespace = k.isWhitespace := by
  cases k <;> rfl

theorem ofNodeL_any_nw : ∀ (ks : List Node), (FNode.ofNodeL ks).any (fun k => !k.isWhitespace) = hasNW ks
  | [] => rfl
  | k :: ks => by
    simp only [FNode.ofNodeL, List.any_cons, hasNW, ofNode_ws]
    have := ofNodeL_any_nw ks
    simp only [hasNW] at this
    rw [this]

theorem wsCode_ne2 {k : Node} (h : nodeNW k = true) : FilterSafe.wsCode (FNode.ofNode k) ≠ 2 := by
  cases k with
  | tok tt v => simp only [FNode.ofNode, FilterSafe.wsCode]; split <;> decide
  | grp c ks =>
    rw [nodeNW_grp] at h
    simp only [FNode.ofNode, FilterSafe.wsCode, ofNodeL_any_nw, h.1, ↓reduceIte]
    decide

theorem ofNodeL_map_wsCode {ks : List Node} (h : nwL ks = true) :
    ∀ x ∈ (FNode.ofNodeL ks).map FilterSafe.wsCode, x ≠ 2 := by
  induction ks with
  | nil => intro x hx; simp [FNode.ofNodeL] at hx
  | cons k ks ih =>
    simp only [nwL, Bool.and_eq_true] at h
    intro x hx
    simp only [FNode.ofNodeL, List.map_cons, List.mem_cons] at hx
    rcases hx with rfl | hx
    · exact wsCode_ne2 h.1
    · exact ih h.2 x hx

mutual
theorem stripws_of_nw : (n : Node) → nodeNW n = true → FilterSafe.stripws (FNode.ofNode n) = true
  | .tok _ _, _ => by simp [FNode.ofNode, FilterSafe.stripws]
  | .grp c ks, h => by
    rw [nodeNW_grp] at h
    simp only [FNode.ofNode, FilterSafe.stripws, Bool.and_eq_true, Bool.or_eq_true]
    exact ⟨Or.inr (parenCodesOK_of_no2 _ (ofNodeL_map_wsCode h.2.2)), stripwsL_of_nw ks h.2.2⟩
theorem stripwsL_of_nw : (ks : List Node) → nwL ks = true → FilterSafe.stripwsL (FNode.ofNodeL ks) = true
  | [], _ => by simp [FNode.ofNodeL, FilterSafe.stripwsL]
  | k :: ks, h => by
    simp only [nwL, Bool.and_eq_true] at h
    simp only [FNode.ofNodeL, FilterSafe.stripwsL, Bool.and_eq_true]
    exact ⟨stripws_of_nw k h.1, stripwsL_of_nw ks h.2⟩
end

end DC

/-- **`strip_whitespace` is total on grouped `DelimSafe` statements**: the statement tree `groupStatement` returns lies in
the domain `FilterSafe.stripws`, so `StripWhitespaceFilter` raises nothing but `RecursionError` on it -/
theorem stripws_domain_of_delimSafe {st : List Tok} {tree : Node} (hs : DelimSafe st = true)
    (h : groupStatement 200 st = .ok tree) : FilterSafe.stripws (FNode.ofNode tree) = true := by
  unfold groupStatement at h
  cases hg : group 200 (st.map fun t => Node.tok t.tt t.val) with
  | error e => simp [hg] at h
  | ok ks =>
    simp only [hg, Except.ok.injEq] at h
    subst h
    have hn : DC.nwL ks = true := DC.groupWith_nw DC.delimU_kwNorm hs hg
    simp only [FNode.ofNode, FilterSafe.stripws, Bool.and_eq_true, Bool.or_eq_true]
    exact ⟨Or.inl (by decide), DC.stripwsL_of_nw ks hn⟩

theorem stripWhitespace_total_of_delimSafe {st : List Tok} {tree : Node} (hs : DelimSafe st = true)
    (h : groupStatement 200 st = .ok tree) (fuel : Nat) (e : PyErr)
    (he : stripWhitespace fuel (FNode.ofNode tree) = .error e) : e = .recursionError :=
  stripWhitespace_total fuel _ (stripws_domain_of_delimSafe hs h) e he

end Sql

/-! ## `reindent_aligned` -/
namespace Sql
namespace DC

open FilterSafe

theorem matchKw_END {x : Node} (h : x.matchAny kwNorm Gen.Case_M_CLOSE = true) :
    (FNode.ofNode x).matchKw "END" = true := by
  cases x with
  | grp c k => simp [Node.matchAny, Node.matchP, Node.match] at h
  | tok t v =>
    have e1 : kwNorm [69, 78, 68] = [69, 78, 68] := by decide +kernel
    have e2 : pyUpper [69, 78, 68] = [69, 78, 68] := by decide +kernel
    simp only [Node.matchAny, Gen.Case_M_CLOSE, List.any_cons, List.any_nil, Bool.or_false, Node.matchP,
      Node.match] at h
    simp only [FNode.ofNode, FNode.matchKw, FNode.matchP]
    split at h
    · cases h
    · rename_i hne
      have ht : t = T.Keyword := by simpa [bne_iff_ne, T.Keyword] using hne
      subst ht
      have hk : (T.Keyword.isIn T.Keyword) = true := by decide
      simp only [hk, ↓reduceIte, List.map_cons, List.map_nil, e1] at h
      have hne' : (T.Keyword != T.Keyword) = false := by decide
      simp only [hne', Bool.false_eq_true, ↓reduceIte, hk]
      have : ("END".toList.map Char.toNat) = [69, 78, 68] := by decide
      simp only [this, List.map_cons, List.map_nil, e2]
      exact h

theorem ofNode_comma (k : Node) : (FNode.ofNode k).matchPunct 44 = isComma k := by
  cases k <;> rfl

theorem ofNodeL_any_il : ∀ (ks : List Node),
    (FNode.ofNodeL ks).any (fun k => !(k.isWhitespace || k.matchPunct 44)) = ilOK ks
  | [] => rfl
  | k :: ks => by
    have := ofNodeL_any_il ks
    simp only [ilOK] at this
    simp only [FNode.ofNodeL, List.any_cons, ilOK, ofNode_ws, ofNode_comma, this]

theorem ofNodeL_mem {ks : List Node} {x : Node} (h : x ∈ ks) : FNode.ofNode x ∈ FNode.ofNodeL ks := by
  induction ks with
  | nil => cases h
  | cons k ks ih =>
    simp only [FNode.ofNodeL, List.mem_cons]
    cases h with
    | head => exact Or.inl rfl
    | tail _ h => exact Or.inr (ih h)

mutual
theorem aligned_of_nodeInv {ph : Ph} : (n : Node) → NodeInv kwNorm ph n → FilterSafe.aligned (FNode.ofNode n) = true
  | .tok _ _, _ => by simp [FNode.ofNode, FilterSafe.aligned]
  | .grp c ks, h => by
    rw [nodeInv_grp] at h
    obtain ⟨hk, _, hil, hl⟩ := h
    have hrec := alignedL_of_listInv ks hl
    by_cases hc1 : c = .Case
    · subst hc1
      simp only [FNode.ofNode, FilterSafe.aligned]
      obtain ⟨o, cl, ws, tail, F, tr, hf⟩ := hk _ _ rfl
      apply alignedCaseOK_of_end
      refine List.any_eq_true.2 ⟨FNode.ofNode cl, ofNodeL_mem ?_, matchKw_END hf.cls⟩
      rw [hf.eq]; simp
    · by_cases hc2 : c = .IdentifierList
      · subst hc2
        simp only [FNode.ofNode, FilterSafe.aligned, Bool.and_eq_true]
        exact ⟨by rw [ofNodeL_any_il]; exact hil rfl, hrec⟩
      · by_cases hc3 : c = .Parenthesis
        · subst hc3
          simp only [FNode.ofNode, FilterSafe.aligned, Bool.or_eq_true]
          exact Or.inr hrec
        · cases c <;> first
            | exact absurd rfl hc1
            | exact absurd rfl hc2
            | exact absurd rfl hc3
            | (simp only [FNode.ofNode, FilterSafe.aligned]; exact hrec)
theorem alignedL_of_listInv {ph : Ph} : (ks : List Node) → ListInv kwNorm ph ks →
    FilterSafe.alignedL (FNode.ofNodeL ks) = true
  | [], _ => by simp [FNode.ofNodeL, FilterSafe.alignedL]
  | k :: ks, h => by
    simp only [ListInv] at h
    simp only [FNode.ofNodeL, FilterSafe.alignedL, Bool.and_eq_true]
    exact ⟨aligned_of_nodeInv k h.1, alignedL_of_listInv ks h.2⟩
end

end DC

/-- **`reindent_aligned` is total on grouped `DelimSafe` statements**: the statement tree lies in the domain
`FilterSafe.aligned` (every Case has a direct END child, every IdentifierList an item) -/
theorem aligned_domain_of_delimSafe {st : List Tok} {tree : Node} (hs : DelimSafe st = true)
    (h : groupStatement 200 st = .ok tree) : FilterSafe.aligned (FNode.ofNode tree) = true := by
  unfold groupStatement at h
  cases hg : group 200 (st.map fun t => Node.tok t.tt t.val) with
  | error e => simp [hg] at h
  | ok ks =>
    simp only [hg, Except.ok.injEq] at h
    subst h
    have hi : DC.ListInv kwNorm .t ks := DC.groupWith_listInv DC.delimU_kwNorm hs hg
    simp only [FNode.ofNode, FilterSafe.aligned]
    exact DC.alignedL_of_listInv ks hi

theorem aligned_total_of_delimSafe {st : List Tok} {tree : Node} (hs : DelimSafe st = true)
    (h : groupStatement 200 st = .ok tree) (ch : Text) (fuel : Nat) (ast : ASt) (e : PyErr)
    (he : alignedProcess ch fuel ast (FNode.ofNode tree) = .error e) : e = .recursionError :=
  aligned_total ch fuel ast _ (aligned_domain_of_delimSafe hs h) e he

end Sql
