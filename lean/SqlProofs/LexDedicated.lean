import SqlProofs.LexWords
import SqlProofs.LexWordsCase
import SqlProofs.Lex.WindowExact
/-!
# SqlProofs.LexDedicated — which rule takes a word, computed and proved for every casing

`dedCert w` walks the generated rule table: rules that cannot match on `w` + delimiter are skipped (dead on the first character, one of the
look-around identifier shapes, or `aover … = some []`); at the first remaining rule the exact list of end positions is computed
(`aexact`) and the action and the end of its first derivation are returned.  `ded_word_token`: in any text, at any position, before a
delimiter and not right after a `.`, the scan step yields exactly that action and end — and `dedCert_case`: the result does not depend on
the casing of ASCII letters.  For dictionary words this is either the generic word rule (`.kw`) or the dedicated rule that precedes it.
-/
namespace Sql

/-- the window context of `wordK` with `'` excluded for the delimiter as well (needed for `WITH`: rule `(AT|WITH')…`) -/
def wordK2 (w : Text) : WCtx := { wordK w with excl := cs 39 :: (wordK w).excl }

def dedFrom (K : WCtx) : List Rule → Nat → Nat → Option (Action × Nat)
  | [], _, _ => none
  | r :: rs, m, k =>
    if m % 2 == 0 || k % 2 == 1 || aover K r.re 0 == some [] then dedFrom K rs (m / 2) (k / 2)
    else
      match aexact K r.re 0 with
      | some (e :: _) => some (r.act, e)
      | _ => none

/-- the action of the first rule that matches `w` before a delimiter, and the length of its first match -/
def dedCert (w : Text) : Option (Action × Nat) :=
  match w with
  | c0 :: _ => dedFrom (wordK2 w) defaultCfg.rules (maskOf c0 defaultCfg.rules) (skipMask defaultCfg.rules)
  | [] => none

theorem dedFrom_spec (K : WCtx) (c0 : Cp) : ∀ (rs : List Rule) (act : Action) (e : Nat),
    dedFrom K rs (maskOf c0 rs) (skipMask rs) = some (act, e) →
    ∃ front r back l, rs = front ++ r :: back ∧ r.act = act ∧ aexact K r.re 0 = some (e :: l) ∧
      ∀ x ∈ front, start c0 x.re = .dead ∨ skipShape x.re = true ∨ aover K x.re 0 = some [] := by
  intro rs
  induction rs with
  | nil => intro act e h; simp [dedFrom] at h
  | cons x xs ih =>
    intro act e h
    have hm2 : maskOf c0 (x :: xs) / 2 = maskOf c0 xs := by
      simp only [maskOf]; split <;> omega
    have hk2 : skipMask (x :: xs) / 2 = skipMask xs := by
      simp only [skipMask]; split <;> omega
    have hm0 : (maskOf c0 (x :: xs) % 2 == 0) = true → start c0 x.re = .dead := by
      intro h1
      simp only [maskOf, beq_iff_eq] at h1
      by_cases hd : start c0 x.re = .dead
      · exact hd
      · rw [if_neg hd] at h1; omega
    have hk1 : (skipMask (x :: xs) % 2 == 1) = true → skipShape x.re = true := by
      intro h1
      simp only [skipMask, beq_iff_eq] at h1
      by_cases hk : skipShape x.re = true
      · exact hk
      · rw [if_neg hk] at h1; omega
    simp only [dedFrom] at h
    by_cases hcond : (maskOf c0 (x :: xs) % 2 == 0 || skipMask (x :: xs) % 2 == 1 || aover K x.re 0 == some []) = true
    · rw [if_pos hcond, hm2, hk2] at h
      obtain ⟨front, r, back, l, e1, e2, e3, e4⟩ := ih act e h
      refine ⟨x :: front, r, back, l, by simp [e1], e2, e3, ?_⟩
      intro y hy
      simp only [List.mem_cons] at hy
      rcases hy with rfl | hy
      · simp only [Bool.or_eq_true] at hcond
        rcases hcond with (h1 | h1) | h1
        · exact Or.inl (hm0 h1)
        · exact Or.inr (Or.inl (hk1 h1))
        · exact Or.inr (Or.inr (by simpa using h1))
      · exact e4 y hy
    · rw [if_neg hcond] at h
      split at h
      · rename_i e' l' hx
        simp only [Option.some.injEq, Prod.mk.injEq] at h
        obtain ⟨rfl, rfl⟩ := h
        exact ⟨[], x, xs, l', rfl, rfl, hx, by simp⟩
      · simp at h

/-! ## the context -/

/-- delimiter for the dedicated-rule theorem: as `WordDelim`, and not `'` -/
def WordDelim2 (c : Cp) : Prop := WordDelim c ∧ c ≠ 39

theorem window_ctx (s : Array Cp) (p : Nat) (pre run rest : List Cp) (c0 c : Cp) (K : WCtx)
    (hKw : K.w = Array.mk (c0 :: run)) (hKp : K.prevExcl = [cs 46]) (hKword : K.word = Gen.wordSet)
    (hKex : ∀ X ∈ K.excl, X.mem c = false)
    (h : s.toList = pre ++ (c0 :: run) ++ c :: rest) (hp : pre.length = p) (hprev : pre.getLast? ≠ some 46)
    (hc : WordDelim c) (hrun : ∀ x ∈ run, wordTailSet.mem x = true) :
    WSound K (defaultCfg.env s) p c ∧
    ∀ r : Re, (start c0 r = .dead ∨ skipShape r = true ∨ aover K r 0 = some []) →
      derivs (defaultCfg.env s) r ⟨p, []⟩ = [] := by
  have h0 : (defaultCfg.env s).s.toList.drop p = c0 :: (run ++ c :: rest) :=
    sfx_of_split s pre _ p (by simpa using h) hp
  have hg0 := get_of_drop_cons _ _ _ _ h0
  have hprev' : p = 0 ∨ ∃ d, (defaultCfg.env s).s[p - 1]? = some d ∧ (cs 46).mem d = false := by
    cases hl : pre.getLast? with
    | none =>
      left
      have : pre = [] := by simpa using hl
      rw [← hp, this]; rfl
    | some d =>
      right
      obtain ⟨ys, hys⟩ := List.getLast?_eq_some_iff.mp hl
      refine ⟨d, ?_, memF (cs_mem 46 d) (by intro e; rw [hl, e] at hprev; exact hprev rfl)⟩
      show s[p - 1]? = some d
      have hp1 : p - 1 = ys.length := by rw [← hp, hys]; simp
      rw [hp1, ← Array.getElem?_toList, h, hys]
      simp
  have hplainc := plain_of_delim c hc
  have H : WSound K (defaultCfg.env s) p c := by
    refine ⟨⟨rest, by rw [hKw]; exact h0⟩, hKex, ?_, by rw [hKword]; simp [LexCfg.env, defaultCfg]⟩
    rcases hprev' with h' | ⟨d, hd, hm⟩
    · exact Or.inl h'
    · refine Or.inr ⟨d, hd, ?_⟩
      intro X hX
      rw [hKp] at hX
      simp only [List.mem_cons, List.not_mem_nil, or_false] at hX
      subst hX; exact hm
  refine ⟨H, ?_⟩
  have hn : (defaultCfg.env s).s[p + (run.length + 1)]? = some c := by
    have := H.get_eq
    rw [hKw] at this
    simpa using this
  have hWc : Gen.wordSet.mem c = false := CpSet.subsetOf_sound _ _ wordSet_sub_tail c hc.1
  have hLfail : ∀ (L : Re), (∀ x, Plain x → start x L = .dead) →
      ∀ st : St, p < st.pos → st.pos ≤ p + (run.length + 1) → derivs (defaultCfg.env s) L st = [] := by
    intro L hL st h1 h2
    have hch : ∃ x, (defaultCfg.env s).s[st.pos]? = some x ∧ Plain x := by
      by_cases he : st.pos = p + (run.length + 1)
      · exact ⟨c, by rw [he]; exact hn, hplainc⟩
      · obtain ⟨k, hk⟩ : ∃ k, st.pos = p + (k + 1) := ⟨st.pos - p - 1, by omega⟩
        have hk' : k < run.length := by omega
        rw [hk]
        refine ⟨run[k], ?_, plain_of_tail _ (hrun _ (List.getElem_mem hk'))⟩
        rw [getElem?_of_drop _ p (k + 1) _ h0, List.getElem?_cons_succ, List.getElem?_append_left hk']
        simp
    obtain ⟨x, hx, hpx⟩ := hch
    have := start_sound (defaultCfg.env s) x L
    rw [hL x hpx] at this
    exact this st hx
  intro r hr
  rcases hr with hd | hs | ha
  · exact dead_at _ c0 _ hd p hg0
  · simp only [skipShape, Bool.or_eq_true] at hs
    rcases hs with hs | hs
    · obtain ⟨A, L, hre, hL⟩ := identLookShape_inv _ hs
      rw [hre]
      rcases hL with rfl | rfl
      · exact identLook_dead _ _ _ _ p (run.length + 1) c hn hWc (by omega) (hLfail _ start_L18)
      · exact identLook_dead _ _ _ _ p (run.length + 1) c hn hWc (by omega) (hLfail _ start_L20)
    · obtain ⟨X, hre⟩ := behindDotShape_inv _ hs
      rw [hre, derivs_cat, look_behind_fail _ _ ⟨p, []⟩ hprev']
      rfl
  · have := aover_sound _ _ p c H r 0 [] ha ⟨p, []⟩ rfl
    cases hd : derivs (defaultCfg.env s) r ⟨p, []⟩ with
    | nil => rfl
    | cons x t =>
      obtain ⟨o, ho, _⟩ := this x (by rw [hd]; simp)
      simp at ho

/-- **the scan step on a word is what `dedCert` computes.**  For every text, every position `p`: if the text at `p` reads `w c …`, every
character of `w` after the first is in `[$#\\w]`, `c` is a delimiter (not `[$#\\w]`, not whitespace, not `(`, `.` or `'`), the character
before `p` (if any) is not `.`, and `dedCert w = some (act, e)`, then the scan step at `p` yields `(act, p + e)`. -/
theorem ded_word_token (s : Array Cp) (p : Nat) (pre w rest : List Cp) (c : Cp) (act : Action) (e : Nat)
    (h : s.toList = pre ++ w ++ c :: rest) (hp : pre.length = p) (hprev : pre.getLast? ≠ some 46)
    (hc : WordDelim2 c) (hshape : wordShape w = true) (hcert : dedCert w = some (act, e)) :
    firstMatch (defaultCfg.env s) defaultCfg.rules p = some (act, p + e) := by
  cases w with
  | nil => simp [wordShape] at hshape
  | cons c0 run =>
    simp only [wordShape, Bool.and_eq_true, List.all_eq_true] at hshape
    simp only [dedCert] at hcert
    obtain ⟨front, r, back, l, hrules, hact, hex, hfront⟩ := dedFrom_spec _ c0 _ act e hcert
    have hplain := plain_of_delim c hc.1
    obtain ⟨H, hdead⟩ := window_ctx s p pre run rest c0 c (wordK2 (c0 :: run)) rfl rfl rfl (by
      intro X hX
      simp only [wordK2, wordK, List.mem_cons, List.not_mem_nil, or_false] at hX
      rcases hX with rfl | rfl | rfl | rfl | rfl
      · exact memF (cs_mem 39 c) hc.2
      · exact hplain.2.1
      · exact hplain.2.2
      · exact hc.1.2.1
      · exact hc.1.1) h hp hprev hc.1 hshape.2
    obtain ⟨st, more, hd, hpos⟩ := aexact_head _ _ p c H r.re e l hex
    rw [hrules, firstMatch_split _ _ r back p (fun x hx => hdead x.re (hfront x hx)) st more hd, hact, hpos]

/-! ## casing -/

theorem aexact_case {w' w : Text} (h : SameFold w' w) : ∀ r : Re, caseClosedRe r = true →
    ∀ off, aexact (wordK2 w') r off = aexact (wordK2 w) r off := by
  have hsz : (wordK2 w').w.size = (wordK2 w).w.size := by simp [wordK2, wordK, h.length]
  have hword : caseClosedSet Gen.wordSet = true := by
    have := wordSets_case_closed; simp only [Bool.and_eq_true] at this; exact this.1
  have hat : ∀ (S : CpSet), caseClosedSet S = true → ∀ off, S.mem ((wordK2 w').at off) = S.mem ((wordK2 w).at off) :=
    fun S hS off => mem_at_case h S hS off
  intro r
  induction r with
  | eps => intro _ off; rfl
  | set S =>
    intro hr off
    simp only [aexact, aSet, hsz, hat S hr off]
    rfl
  | cat a b iha ihb =>
    intro hr off
    simp only [caseClosedRe, Bool.and_eq_true] at hr
    have hb : aexact (wordK2 w') b = aexact (wordK2 w) b := funext (ihb hr.2)
    simp only [aexact, iha hr.1 off, hb]
  | alt a b iha ihb =>
    intro hr off
    simp only [caseClosedRe, Bool.and_eq_true] at hr
    simp only [aexact, iha hr.1 off, ihb hr.2 off]
  | rep lo hi g r ih =>
    intro hr off
    have hf : aexact (wordK2 w') r = aexact (wordK2 w) r := funext (ih hr)
    simp only [aexact, hf, hsz]
  | grp n r ih => intro hr off; simp only [aexact]; exact ih hr off
  | bref n => intro _ off; rfl
  | look a n k r ih => intro _ off; rfl
  | atEnd => intro _ off; rfl
  | wordB =>
    intro _ off
    simp only [aexact, aWordBX, hsz]
    have e1 : (wordK2 w').word = Gen.wordSet := rfl
    have e2 : (wordK2 w).word = Gen.wordSet := rfl
    rw [e1, e2, hat _ hword (off - 1), hat _ hword off]
    rfl

theorem aover_case2 {w' w : Text} (h : SameFold w' w) : ∀ r : Re, caseClosedRe r = true →
    ∀ off, aover (wordK2 w') r off = aover (wordK2 w) r off := by
  have hsz : (wordK2 w').w.size = (wordK2 w).w.size := by simp [wordK2, wordK, h.length]
  have hword : caseClosedSet Gen.wordSet = true := by
    have := wordSets_case_closed; simp only [Bool.and_eq_true] at this; exact this.1
  have hat : ∀ (S : CpSet), caseClosedSet S = true → ∀ off, S.mem ((wordK2 w').at off) = S.mem ((wordK2 w).at off) :=
    fun S hS off => mem_at_case h S hS off
  intro r
  induction r with
  | eps => intro _ off; rfl
  | set S =>
    intro hr off
    simp only [aover, aSet, hsz, hat S hr off]
    rfl
  | cat a b iha ihb =>
    intro hr off
    simp only [caseClosedRe, Bool.and_eq_true] at hr
    have hb : aover (wordK2 w') b = aover (wordK2 w) b := funext (ihb hr.2)
    simp only [aover, iha hr.1 off, hb]
  | alt a b iha ihb =>
    intro hr off
    simp only [caseClosedRe, Bool.and_eq_true] at hr
    simp only [aover, iha hr.1 off, ihb hr.2 off]
  | rep lo hi g r ih =>
    intro hr off
    have hf : aover (wordK2 w') r = aover (wordK2 w) r := funext (ih hr)
    simp only [aover, hf, hsz]
  | grp n r ih => intro hr off; simp only [aover]; exact ih hr off
  | bref n => intro _ off; rfl
  | look a n k r ih =>
    intro hr off
    simp only [aover, ih hr off]
    rfl
  | atEnd => intro _ off; rfl
  | wordB =>
    intro _ off
    simp only [aover, aWordB, hsz]
    have e1 : (wordK2 w').word = Gen.wordSet := rfl
    have e2 : (wordK2 w).word = Gen.wordSet := rfl
    rw [e1, e2, hat _ hword (off - 1), hat _ hword off]
    rfl

theorem dedFrom_case {w' w : Text} (h : SameFold w' w) : ∀ (rs : List Rule) (m k : Nat),
    (rs.all fun r => caseClosedRe r.re) = true → dedFrom (wordK2 w') rs m k = dedFrom (wordK2 w) rs m k := by
  intro rs
  induction rs with
  | nil => intro m k _; rfl
  | cons x xs ih =>
    intro m k hall
    simp only [List.all_cons, Bool.and_eq_true] at hall
    simp only [dedFrom, aover_case2 h x.re hall.1 0, aexact_case h x.re hall.1 0, ih (m / 2) (k / 2) hall.2]

/-- **`dedCert` is independent of the casing of ASCII letters** -/
theorem dedCert_case (w' w : Text) (h : w'.map asciiFold = w.map asciiFold) : dedCert w' = dedCert w := by
  have hs : SameFold w' w := h
  unfold dedCert
  cases w' with
  | nil =>
    cases w with
    | nil => rfl
    | cons c t => simp at h
  | cons c' t' =>
    cases w with
    | nil => simp at h
    | cons c t =>
      have hc : asciiFold c' = asciiFold c := by
        simp only [List.map_cons, List.cons.injEq] at h; exact h.1
      simp only
      rw [maskOf_case c c' hc _ rules_case_closed, dedFrom_case hs _ _ _ rules_case_closed]

end Sql
