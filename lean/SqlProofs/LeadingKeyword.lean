import SqlProofs.Group.LeadBodies
import SqlProofs.Group.TotalAdHoc
import SqlProofs.AccessorSpec
/-!
# SqlProofs.LeadingKeyword — the leading DML/DDL keyword of a statement survives grouping (property C18)

`leading_kw_survives`: let the first token of a flat statement that is neither whitespace- nor comment-typed be a leaf
`K` of type exactly `Keyword.DML` or `Keyword.DDL` (normalised value neither `NULL` nor `AS`), let the next
non-whitespace token not be the `::` punctuation nor a `Keyword.TZCast` leaf, and let the statement contain no
`Assignment`-typed token (`LeadHyp`).  Then after `grouping.group` the first top-level child that is neither
whitespace nor a comment (leaf or `Comment` group) is still the leaf `K`, and `Statement.get_type()` is its
normalised value (`leading_kw_getType`).

Why each exclusion is needed (witnesses, real code = model):
* `select::int`, `select ::x` — `group_typecasts` takes *any* previous token: `Identifier[select :: int]`;
* `select at time zone 'x'`-like input whose second token is typed `Keyword.TZCast` followed by a string/`AS` —
  `group_tzcasts` likewise;
* `select := 1` — `group_assignment` (valid `prev_`: anything not typed exactly `Keyword`);
* `select x := y z:=;` — a *stale* match of `group_assignment`: after grouping `x := y z:=;` the loop revisits the
  second `:=` with `tidx` pointing at the start of the list and groups `select …` into an `Assignment`; this is why
  the hypothesis excludes `:=` anywhere in the statement, not only in second position;
* a DML/DDL-typed token whose value normalises to `NULL` (resp. `AS`) would be a valid `prev_` of `group_as` /
  `group_comparison` (resp. would itself match `group_as`); the lexer never produces one.
-/
namespace Sql

variable {u : Text → Text}

/-- some decomposition `skippable* K whitespace* tail` -/
def LeadKE (u : Text → Text) (tt : TType) (v : Text) (L : List Node) : Prop :=
  ∃ pre ws tail, LeadK u tt v L pre ws tail

/-- no `Assignment`-typed leaf anywhere below -/
def NoAssign (L : List Node) : Prop := ∀ l ∈ Node.leavesL L, l.tt ≠ T.Assignment

theorem noAssign_of_leafRel {a b : List Tok} (h : LeafRel a b) (ha : ∀ l ∈ a, l.tt ≠ T.Assignment) :
    ∀ l ∈ b, l.tt ≠ T.Assignment := by
  induction h with
  | nil => intro l hl; cases hl
  | @cons x y xs ys hxy _ ih =>
    intro l hl
    cases hl with
    | head =>
      rcases hxy.2 with h1 | h1
      · rw [← h1]; exact ha x List.mem_cons_self
      · rw [h1]; decide
    | tail _ hl => exact ih (fun z hz => ha z (List.mem_cons_of_mem _ hz)) l hl

/-- a pass keeps the shape (on lists without `:=`) -/
def PassLead (u : Text → Text) (p : Pass) : Prop :=
  ∀ tt v, KOk u tt v → ∀ fuel c L L', p fuel c L = .ok L' → NoAssign L → LeadKE u tt v L → LeadKE u tt v L'

/-! ### recursion into sub-groups, then a body -/
theorem recursePass_lead {skip : List Cls} {body} (hb : BodyLead u body) : PassLead u (recursePass skip body) := by
  intro tt v hk fuel c L L' h _ hl
  cases fuel with
  | zero => simp [recursePass] at h
  | succ n =>
    simp only [recursePass] at h
    cases hm : mapGroups (fun k => !k.isInstAny skip) (recursePass skip body n) L with
    | error e => simp [hm] at h
    | ok L1 =>
      simp only [hm] at h
      obtain ⟨pre, ws, tail, h1⟩ := lead_mapGroups (badSecond_grp u) rfl hm hl
      obtain ⟨pre', tail', h2⟩ := hb tt v hk c L1 L' pre ws tail h h1
      exact ⟨pre', ws, tail', h2⟩

theorem adHocPass_lead (skip : Option (List Cls)) {body} (hb : BodyLead u body) : PassLead u (adHocPass skip body) := by
  unfold adHocPass
  split
  · exact recursePass_lead hb
  · intro tt v hk fuel c L L' h _ hl
    obtain ⟨pre, ws, tail, h1⟩ := hl
    obtain ⟨pre', tail', h2⟩ := hb tt v hk c L L' pre ws tail h h1
    exact ⟨pre', ws, tail', h2⟩

/-! ### the six matching passes -/
theorem groupMatching_lead {cls : Cls} {mOpen mClose : List MPat}
    (hm : ∀ p ∈ mOpen, p.tt ≠ T.DML ∧ p.tt ≠ T.DDL ∧ p.tt.head? ≠ some "Comment" ∧ p.tt.head? ≠ some "Text") :
    PassLead u (fun fuel _ ks => groupMatching u cls mOpen mClose fuel ks) := by
  intro tt v hk fuel c L L' h _ hl
  cases fuel with
  | zero => simp [groupMatching] at h
  | succ n =>
    simp only [groupMatching] at h
    cases hmg : mapGroups (fun k => !k.isInst cls) (fun _ kids => groupMatching u cls mOpen mClose n kids) L with
    | error e => simp [hmg] at h
    | ok L1 =>
      simp only [hmg] at h
      cases hl1 : matchLoop u cls mOpen mClose L1 0 { cur := L1, opens := [], off := 0 } with
      | error e => simp [hl1] at h
      | ok st =>
        simp only [hl1, Except.ok.injEq] at h
        subst h
        obtain ⟨pre, ws, tail, h1⟩ := lead_mapGroups (badSecond_grp u) rfl hmg hl
        have hA := leadK_elts hk h1
        have heq : L1 = (pre ++ Node.tok tt v :: ws) ++ tail := h1.eq
        rw [heq] at hl1
        have hr := matchLoop_protect (fun x hx => isOpenTok_leadElt hm (hA x hx)) hl1
        rw [← heq] at hr
        have hlen : (pre ++ Node.tok tt v :: ws).length = pre.length + 1 + ws.length := by simp; omega
        rw [hlen] at hr
        obtain ⟨tail', h2⟩ := leadK_of_pref h1 hr
        exact ⟨pre, ws, tail', h2⟩

theorem matchingPassOf_lead (c : Cls) : PassLead u (matchingPassOf u c) := by
  cases c <;> first
    | exact groupMatching_lead (by decide)
    | (intro tt v hk fuel c L L' h; simp [matchingPassOf, matchingTables, unknownPass] at h)

/-! ### the ten aligned `_group` configurations -/
structure CfgLead (u : Text → Text) (cfg : DrvCfg) : Prop where
  al : PostAl3 cfg
  inert : ∀ x, LeadElt u x → cfg.isMatch x = false
  prev : FromT cfg ∨ (∀ tt v, KOk u tt v → cfg.validPrev (Node.tok tt v) = false) ∨
    (∀ H, badSecond u H = false → cfg.isMatch H = false)

theorem cfgLead_prot {cfg : DrvCfg} (hc : CfgLead u cfg) {tt : TType} {v : Text} (hk : KOk u tt v)
    {L pre ws tail : List Node} (h : LeadK u tt v L pre ws tail) :
    Prot cfg (pre ++ Node.tok tt v :: ws) tail := by
  refine ⟨?_, ?_⟩
  · intro x hx
    rcases leadK_elts hk h x hx with h1 | h1
    · exact Or.inl h1
    · exact Or.inr (hc.inert x h1)
  · intro H hH
    obtain ⟨hw, hb⟩ := h.tail H hH
    refine ⟨hw, ?_⟩
    intro pidx p hp
    rw [lastPrev_lead hk.notWs h.ws] at hp
    cases hp
    rcases hc.prev with h1 | h1 | h1
    · exact Or.inl h1
    · exact Or.inr (Or.inl (h1 tt v hk))
    · exact Or.inr (Or.inr (h1 H hb))

theorem drvLoop_leadK {cfg : DrvCfg} (hc : CfgLead u cfg) {tt : TType} {v : Text} (hk : KOk u tt v)
    {L pre ws tail : List Node} (h : LeadK u tt v L pre ws tail) {st : DrvSt}
    (hl : drvLoop cfg L 0 (drvInit L) = .ok st) : ∃ tail', LeadK u tt v st.cur pre ws tail' := by
  have heq : L = (pre ++ Node.tok tt v :: ws) ++ tail := h.eq
  rw [heq] at hl
  have hr := drvLoop_protect hc.al (cfgLead_prot hc hk h) hl
  rw [← heq] at hr
  have hlen : (pre ++ Node.tok tt v :: ws).length = pre.length + 1 + ws.length := by simp; omega
  rw [hlen] at hr
  exact leadK_of_pref h hr

theorem driverPass_lead {cfg : DrvCfg} (hc : CfgLead u cfg) : PassLead u (driverPass cfg) := by
  intro tt v hk fuel c L L' h _ hl
  cases fuel with
  | zero => simp [driverPass, groupDriver] at h
  | succ n =>
    simp only [driverPass, groupDriver] at h
    split at h
    · cases hd : drvLoop cfg L 0 (drvInit L) with
      | error e => simp [hd] at h
      | ok dry =>
        simp only [hd] at h
        cases hm : mapGroupsWhere (fun _ kids => groupDriver { cfg with recurse := true } n kids)
            (drvEligible cfg.cls dry.reached.reverse L) L with
        | error e => simp [hm] at h
        | ok L1 =>
          simp only [hm] at h
          cases hlp : drvLoop cfg L1 0 (drvInit L1) with
          | error e => simp [hlp] at h
          | ok st =>
            simp only [hlp, Except.ok.injEq] at h
            subst h
            obtain ⟨pre, ws, tail, h1⟩ := lead_eltMap (badSecond_grp u) rfl (mapGroupsWhere_eltMap _ _ _ hm) hl
            obtain ⟨tail', h2⟩ := drvLoop_leadK hc hk h1 hlp
            exact ⟨pre, ws, tail', h2⟩
    · cases hlp : drvLoop cfg L 0 (drvInit L) with
      | error e => simp [hlp] at h
      | ok st =>
        simp only [hlp, Except.ok.injEq] at h
        subst h
        obtain ⟨pre, ws, tail, h1⟩ := hl
        obtain ⟨tail', h2⟩ := drvLoop_leadK hc hk h1 hlp
        exact ⟨pre, ws, tail', h2⟩

theorem cfgLead_typecasts : CfgLead u (cfgTypecasts u) :=
  ⟨postAl3_typecasts u, fun _ h => typecasts_inert h, .inr (.inr fun H hb => by
    simp only [badSecond, Bool.or_eq_false_iff] at hb; exact hb.1)⟩
theorem cfgLead_tzcasts : CfgLead u (cfgTzcasts u) :=
  ⟨postAl3_tzcasts u, fun _ h => tzcasts_inert h, .inr (.inr fun H hb => by
    simp only [badSecond, Bool.or_eq_false_iff] at hb; exact hb.2)⟩
theorem cfgLead_typedLiteral0 : CfgLead u (cfgTypedLiteral0 u) :=
  ⟨postAl3_typedLiteral0 u, fun _ h => typedLiteral0_inert h, .inl (fromT_typedLiteral0 u)⟩
theorem cfgLead_typedLiteral1 : CfgLead u (cfgTypedLiteral1 u) :=
  ⟨postAl3_typedLiteral1 u, fun _ h => typedLiteral1_inert h, .inl (fromT_typedLiteral1 u)⟩
theorem cfgLead_period : CfgLead u (cfgPeriod u) :=
  ⟨postAl3_period u, fun _ h => period_inert h, .inr (.inl fun _ _ hk => period_prevK hk.ty)⟩
theorem cfgLead_as : CfgLead u (cfgAs u) :=
  ⟨postAl3_as u, fun _ h => as_inert h, .inr (.inl fun _ _ hk => as_prevK hk.ty hk.notNull)⟩
theorem cfgLead_comparison : CfgLead u (cfgComparison u) :=
  ⟨postAl3_comparison u, fun _ h => comparison_inert h, .inr (.inl fun _ _ hk => comparison_prevK hk.ty hk.notNull)⟩
theorem cfgLead_arrays : CfgLead u (cfgArrays u) :=
  ⟨postAl3_arrays u, fun _ h => arrays_inert h, .inr (.inl fun _ _ hk => arrays_prevK hk.ty)⟩
theorem cfgLead_operator : CfgLead u (cfgOperator u) :=
  ⟨postAl3_operator u, fun _ h => operator_inert h, .inr (.inl fun _ _ hk => operator_prevK hk.ty)⟩
theorem cfgLead_identifierList : CfgLead u (cfgIdentifierList u) :=
  ⟨postAl3_identifierList u, fun _ h => identifierList_inert h, .inr (.inl fun _ _ hk => identifierList_prevK hk.ty)⟩

theorem typedLiteralPass_lead : PassLead u (typedLiteralPass u) := by
  intro tt v hk fuel c L L' h hna hl
  unfold typedLiteralPass at h
  cases h1 : groupDriver (cfgTypedLiteral0 u) fuel L with
  | error e => simp [h1] at h
  | ok L1 =>
    simp only [h1] at h
    have hl1 := driverPass_lead cfgLead_typedLiteral0 tt v hk fuel c L L1 h1 hna hl
    have hna1 : NoAssign L1 := by
      intro l hl'
      have hrel := groupDriver_leaves (postLeaf_typedLiteral0 u) h1
      exact noAssign_of_leafRel hrel hna l hl'
    exact driverPass_lead cfgLead_typedLiteral1 tt v hk fuel c L1 L' h hna1 hl1

/-! ### `group_assignment` does nothing when there is no `:=` -/
theorem mem_leaves_of_mem {ks : List Node} {x : Node} (hx : x ∈ ks) : ∀ l ∈ x.leaves, l ∈ Node.leavesL ks := by
  induction ks with
  | nil => cases hx
  | cons k rest ih =>
    intro l hl
    simp only [leavesL_cons, List.mem_append]
    cases hx with
    | head => exact Or.inl hl
    | tail _ hx => exact Or.inr (ih hx l hl)

theorem assignment_noMatch {x : Node} (h : ∀ l ∈ x.leaves, l.tt ≠ T.Assignment) :
    (cfgAssignment u).isMatch x = false := by
  cases x with
  | grp c k => simp [cfgAssignment, Node.matchAny, Node.matchP, Node.match]
  | tok tt v =>
    have : tt ≠ T.Assignment := by simpa using h ⟨tt, v⟩ (by simp)
    simp only [cfgAssignment]
    exact matchAny_false_of_tt (by
      intro p hp
      simp only [Gen.group_assignment_match0, List.mem_singleton] at hp
      subst hp
      exact fun heq => this heq.symm)

theorem mapGroupsWhere_id {f : Cls → List Node → Except PyErr (List Node)} :
    ∀ (bs : List Bool) (ks r : List Node),
      (∀ c kids r', Node.grp c kids ∈ ks → f c kids = .ok r' → r' = kids) →
      mapGroupsWhere f bs ks = .ok r → r = ks := by
  intro bs ks
  induction ks generalizing bs with
  | nil => intro r _ h; simpa [mapGroupsWhere] using h.symm
  | cons k rest ih =>
    intro r hf h
    have hrest := fun c kids r' hm hk => hf c kids r' (List.mem_cons_of_mem _ hm) hk
    cases bs with
    | nil => simpa [mapGroupsWhere] using h.symm
    | cons b bs =>
      cases k with
      | tok tt v =>
        simp only [mapGroupsWhere] at h
        cases hr : mapGroupsWhere f bs rest with
        | error e => simp [hr] at h
        | ok r1 =>
          simp only [hr, Except.ok.injEq] at h
          subst h
          rw [ih bs r1 hrest hr]
      | grp c kids =>
        simp only [mapGroupsWhere] at h
        by_cases hb : b = true
        · rw [if_pos hb] at h
          cases hk : f c kids with
          | error e => simp [hk] at h
          | ok kids' =>
            simp only [hk] at h
            cases hr : mapGroupsWhere f bs rest with
            | error e => simp [hr] at h
            | ok r1 =>
              simp only [hr, Except.ok.injEq] at h
              subst h
              rw [ih bs r1 hrest hr, hf c kids kids' List.mem_cons_self hk]
        · rw [if_neg hb] at h
          cases hr : mapGroupsWhere f bs rest with
          | error e => simp [hr] at h
          | ok r1 =>
            simp only [hr, Except.ok.injEq] at h
            subst h
            rw [ih bs r1 hrest hr]

theorem drvLoop_noMatch {cfg : DrvCfg} {ks : List Node} (hm : ∀ x ∈ ks, cfg.isMatch x = false) {st : DrvSt}
    (h : drvLoop cfg ks 0 (drvInit ks) = .ok st) : st.cur = ks := by
  obtain ⟨st1, hr, hcur, _, _⟩ := drvLoop_inert (cfg := cfg) ks [] 0 (drvInit ks) rfl (fun x hx => Or.inr (hm x hx))
  simp only [List.append_nil] at hr
  rw [hr] at h
  simp only [drvLoop, Except.ok.injEq] at h
  subst h
  exact hcur

theorem groupDriver_noMatch : ∀ (fuel : Nat) (cfg : DrvCfg) (ks ks' : List Node),
    (∀ x : Node, (∀ l ∈ x.leaves, l.tt ≠ T.Assignment) → cfg.isMatch x = false) → NoAssign ks →
    groupDriver cfg fuel ks = .ok ks' → ks' = ks := by
  intro fuel
  induction fuel with
  | zero => intro cfg ks ks' _ _ h; simp [groupDriver] at h
  | succ n ih =>
    intro cfg ks ks' hm hna h
    have hnm : ∀ x ∈ ks, cfg.isMatch x = false :=
      fun x hx => hm x (fun l hl => hna l (mem_leaves_of_mem hx l hl))
    simp only [groupDriver] at h
    split at h
    · cases hd : drvLoop cfg ks 0 (drvInit ks) with
      | error e => simp [hd] at h
      | ok dry =>
        simp only [hd] at h
        cases hmg : mapGroupsWhere (fun _ kids => groupDriver { cfg with recurse := true } n kids)
            (drvEligible cfg.cls dry.reached.reverse ks) ks with
        | error e => simp [hmg] at h
        | ok ks1 =>
          simp only [hmg] at h
          have h1 : ks1 = ks := mapGroupsWhere_id _ _ _ (by
            intro c kids r' hmem hk
            exact ih { cfg with recurse := true } kids r' hm
              (fun l hl => hna l (mem_leaves_of_mem hmem l (by simpa using hl))) hk) hmg
          subst h1
          cases hlp : drvLoop cfg ks1 0 (drvInit ks1) with
          | error e => simp [hlp] at h
          | ok st =>
            simp only [hlp, Except.ok.injEq] at h
            subst h
            exact drvLoop_noMatch hnm hlp
    · cases hlp : drvLoop cfg ks 0 (drvInit ks) with
      | error e => simp [hlp] at h
      | ok st =>
        simp only [hlp, Except.ok.injEq] at h
        subst h
        exact drvLoop_noMatch hnm hlp

theorem assignmentPass_lead : PassLead u (driverPass (cfgAssignment u)) := by
  intro tt v hk fuel c L L' h hna hl
  have := groupDriver_noMatch fuel (cfgAssignment u) L L' (fun x hx => assignment_noMatch hx) hna h
  rw [this]; exact hl

/-! ### `group_comments` and `align_comments` rewrite the skippable prefix itself -/
theorem skippable_comment_grp (k : List Node) : (Node.grp .Comment k).skippable = true := by
  simp [Node.skippable, skipMatcher, Node.isInst, Node.isWhitespace, Node.ttIn]

theorem leadK_eq' {tt : TType} {v : Text} {L pre ws tail : List Node} (h : LeadK u tt v L pre ws tail) :
    L = pre ++ (Node.tok tt v :: ws ++ tail) := by rw [h.eq]; simp

/-- the children `K`, `ws` of the protected prefix are neither comments nor `Comment` groups -/
theorem leadK_mid {tt : TType} {v : Text} (hk : KOk u tt v) {L pre ws tail : List Node} (h : LeadK u tt v L pre ws tail)
    {j : Nat} {x : Node} (h1 : pre.length ≤ j) (h2 : j < pre.length + 1 + ws.length) (hx : L[j]? = some x) :
    x = Node.tok tt v ∨ x.isWhitespace = true := by
  rw [leadK_eq' h, List.getElem?_append_right h1] at hx
  by_cases h0 : j - pre.length = 0
  · rw [h0] at hx; simp at hx; exact Or.inl hx.symm
  · right
    obtain ⟨i, hi⟩ : ∃ i, j - pre.length = i + 1 := ⟨j - pre.length - 1, by omega⟩
    rw [hi] at hx
    simp only [List.cons_append, List.getElem?_cons_succ] at hx
    rw [List.getElem?_append_left (by omega)] at hx
    exact h.ws x (List.mem_of_getElem? hx)

theorem kw_not_comment {tt : TType} {v : Text} (hk : KOk u tt v) :
    imt u (Node.tok tt v) [] [] Gen.group_comments_imt0_t = false ∧ (Node.tok tt v).isNewline = false ∧
      (Node.tok tt v).isInstAny Gen.align_comments_token_next_by0_i = false := by
  rcases hk.ty with rfl | rfl <;>
    simp (config := { decide := true }) [imt, Node.isInstAny, Node.isInst, Node.ttIn, Node.isNewline, TType.isIn,
      T.DML, T.DDL, T.Comment, T.Newline, Gen.group_comments_imt0_t, Node.matchP, Node.match]

theorem ws_not_comment {x : Node} (hw : x.isWhitespace = true) :
    imt u x [] [] Gen.group_comments_imt0_t = false ∧ x.isInstAny Gen.align_comments_token_next_by0_i = false := by
  cases x with
  | grp c k => simp [Node.isWhitespace] at hw
  | tok tt v =>
    obtain ⟨r, hr⟩ := isIn_ws (by simpa [Node.isWhitespace] using hw)
    subst hr
    simp (config := { decide := true }) [imt, Node.isInstAny, Node.isInst, Node.ttIn, TType.isIn, T.Comment,
      Gen.group_comments_imt0_t, List.isPrefixOf]

theorem commentsLoop_lead {tt : TType} {v : Text} (hk : KOk u tt v) :
    ∀ (n : Nat) (L pre ws tail : List Node) (pend : Option (Nat × Node)) (L' : List Node),
      LeadK u tt v L pre ws tail → commentsLoop u n L pend = .ok L' →
      (∀ t tok, pend = some (t, tok) → L[t]? = some tok ∧ imt u tok [] [] Gen.group_comments_imt0_t = true) →
      ∃ pre' tail', LeadK u tt v L' pre' ws tail' := by
  intro n
  induction n with
  | zero =>
    intro L pre ws tail pend L' hl h _
    cases pend with
    | none => simp [commentsLoop] at h; subst h; exact ⟨pre, tail, hl⟩
    | some p => simp [commentsLoop] at h
  | succ n ih =>
    intro L pre ws tail pend L' hl h hp
    cases pend with
    | none => simp [commentsLoop] at h; subst h; exact ⟨pre, tail, hl⟩
    | some p =>
      obtain ⟨t, tok⟩ := p
      obtain ⟨htok, hcm⟩ := hp t tok rfl
      by_cases hts : pre.length + 1 + ws.length ≤ t
      · obtain ⟨tail', h'⟩ := leadK_of_pref hl
          (commentsLoop_pref _ _ _ _ h (fun t2 tok2 hq => by cases hq; exact hts))
        exact ⟨pre, tail', h'⟩
      · have htp : t < pre.length := by
          by_cases h1 : pre.length ≤ t
          · rcases leadK_mid hk hl h1 (by omega) htok with rfl | hw
            · rw [(kw_not_comment hk).1] at hcm; cases hcm
            · rw [(ws_not_comment hw).1] at hcm; cases hcm
          · omega
        have hLK : L[pre.length]? = some (Node.tok tt v) := by
          rw [leadK_eq' hl, List.getElem?_append_right (Nat.le_refl _)]; simp
        have hlen : pre.length < L.length := (List.getElem?_eq_some_iff.1 hLK).1
        simp only [commentsLoop] at h
        generalize hmf : tokenMatchingFwd L _ t = mres at h
        cases mres with
        | none =>
          have := tokenMatchingFwd_none hmf pre.length _ (by omega) hLK
          simp [(kw_not_comment hk).1, (kw_not_comment hk).2.1] at this
        | some q =>
          obtain ⟨eidx, ek⟩ := q
          simp only at h
          obtain ⟨h1, h2, h3, h4⟩ := tokenMatchingFwd_hit hmf
          have hne : eidx ≠ t := by
            intro heq; subst heq
            rw [htok] at h2; cases h2
            simp [hcm] at h3
          have hep : eidx ≤ pre.length := by
            by_cases hlt : pre.length < eidx
            · have := h4 pre.length _ (by omega) hlt hLK
              simp [(kw_not_comment hk).1, (kw_not_comment hk).2.1] at this
            · omega
          obtain ⟨pk, hpv⟩ := tokenPrev_noskip_some (ks := L) (idx := eidx) (by omega) (by omega)
          simp only [hpv] at h
          have hg : groupTokens L Gen.group_comments_group_tokens0_cls t (eidx - 1) true
              Gen.group_comments_group_tokens0_extend =
              .ok (L.take t ++ Node.grp .Comment (pySlice L t (eidx - 1 + 1)) :: L.drop (max t (eidx - 1 + 1))) :=
            groupTokens_new (by omega)
          rw [hg] at h
          simp only at h
          have he1 : max t (eidx - 1 + 1) = eidx := by omega
          rw [he1] at h
          have hL1 : L.take t ++ Node.grp .Comment (pySlice L t (eidx - 1 + 1)) :: L.drop eidx =
              (pre.take t ++ Node.grp .Comment (pySlice L t (eidx - 1 + 1)) :: pre.drop eidx) ++
                Node.tok tt v :: ws ++ tail := by
            rw [leadK_eq' hl, List.take_append_of_le_length (by omega), List.drop_append_of_le_length hep]
            simp
          rw [hL1] at h
          refine ih _ (pre.take t ++ Node.grp .Comment (pySlice L t (eidx - 1 + 1)) :: pre.drop eidx) ws tail _ L'
            ⟨rfl, ?_, hl.ws, hl.tail⟩ h (fun t2 tok2 hq => pend_of_nextBy _ _ hq)
          intro x hx
          simp only [List.mem_append, List.mem_cons] at hx
          rcases hx with hx | rfl | hx
          · exact hl.pre x (List.mem_of_mem_take hx)
          · exact skippable_comment_grp _
          · exact hl.pre x (List.mem_of_mem_drop hx)

theorem bodyLead_comments : BodyLead u (groupCommentsBody u) := by
  intro tt v hk c L L' pre ws tail h hl
  exact commentsLoop_lead hk _ L pre ws tail _ L' hl h (fun t2 tok2 hq => pend_of_nextBy _ _ hq)

theorem skippable_group {x : Node} (hs : x.skippable = true) (hg : x.isGroup = true) : ∃ k, x = Node.grp .Comment k := by
  cases x with
  | tok _ _ => cases hg
  | grp c k =>
    simp only [Node.skippable, skipMatcher, Bool.true_and, Bool.not_not, Bool.or_eq_true, Node.isWhitespace,
      Node.ttIn, Node.isInst, Bool.false_or, beq_iff_eq] at hs
    rcases hs with h | h
    · cases h
    · exact ⟨k, by rw [h]⟩

theorem alignLoop_lead {tt : TType} {v : Text} (hk : KOk u tt v) :
    ∀ (n : Nat) (L pre ws tail : List Node) (pend : Option (Nat × Node)) (L' : List Node),
      LeadK u tt v L pre ws tail → alignLoop u n L pend = .ok L' →
      (∀ t tok, pend = some (t, tok) → L[t]? = some tok ∧
        tok.isInstAny Gen.align_comments_token_next_by0_i = true) →
      ∃ pre' tail', LeadK u tt v L' pre' ws tail' := by
  intro n
  induction n with
  | zero =>
    intro L pre ws tail pend L' hl h _
    cases pend with
    | none => simp [alignLoop] at h; subst h; exact ⟨pre, tail, hl⟩
    | some p => simp [alignLoop] at h
  | succ n ih =>
    intro L pre ws tail pend L' hl h hp
    have hpend : ∀ (L1 : List Node) (start : Nat) t k,
        tokenNextBy u L1 Gen.align_comments_token_next_by1_i [] .none start = some (t, k) →
        L1[t]? = some k ∧ k.isInstAny Gen.align_comments_token_next_by0_i = true := by
      intro L1 start t k hq
      obtain ⟨h1, h2⟩ := pend_of_nextBy _ _ hq
      have h3 : k.isInstAny Gen.align_comments_token_next_by1_i = true := by simpa [imt] using h2
      exact ⟨h1, h3⟩
    cases pend with
    | none => simp [alignLoop] at h; subst h; exact ⟨pre, tail, hl⟩
    | some p =>
      obtain ⟨t, tok⟩ := p
      obtain ⟨htok, hcm⟩ := hp t tok rfl
      have hLK : L[pre.length]? = some (Node.tok tt v) := by
        rw [leadK_eq' hl, List.getElem?_append_right (Nat.le_refl _)]; simp
      have htlen : t < L.length := (List.getElem?_eq_some_iff.1 htok).1
      simp only [alignLoop] at h
      cases hpv : tokenPrev L t with
      | none => simp only [hpv] at h; exact ih _ _ _ _ _ _ hl h (hpend _ _)
      | some q =>
        obtain ⟨pidx, prev⟩ := q
        simp only [hpv] at h
        obtain ⟨hlt, hprev⟩ := tokenPrev_hit hpv
        by_cases hinst : prev.isInstAny Gen.align_comments_isinstance0 = true
        · rw [if_pos hinst] at h
          have hpg : prev.isGroup = true := isGroup_of_isInstAny hinst
          cases hg : groupTokens L Gen.align_comments_group_tokens0_cls pidx t true
              Gen.align_comments_group_tokens0_extend with
          | error e => simp [hg] at h
          | ok L1 =>
            simp only [hg] at h
            by_cases hts : pre.length + 1 + ws.length ≤ t
            · -- the comment is in the tail: so is `prev_`, because `K` is not whitespace and not a group
              have hps : pre.length + 1 + ws.length ≤ pidx := by
                by_cases hlow : pidx < pre.length + 1 + ws.length
                · exfalso
                  by_cases hpk : pidx < pre.length
                  · have := tokenPrev_between hpv pre.length _ hpk (by omega) hLK
                    rw [hk.notWs] at this; cases this
                  · rcases leadK_mid hk hl (by omega) hlow hprev with rfl | hw
                    · cases hpg
                    · rw [tokenPrev_nonws hpv] at hw; cases hw
                · omega
              obtain ⟨tail1, hl1⟩ := leadK_of_pref hl (groupTokens_prefRel hg hps)
              exact ih _ _ _ _ _ _ hl1 h (hpend _ _)
            · -- the comment is in the skippable prefix: it is appended to the preceding `Comment` group
              have htp : t < pre.length := by
                by_cases h1 : pre.length ≤ t
                · rcases leadK_mid hk hl h1 (by omega) htok with rfl | hw
                  · rw [(kw_not_comment hk).2.2] at hcm; cases hcm
                  · rw [(ws_not_comment (u := u) hw).2] at hcm; cases hcm
                · omega
              have hprevmem : prev ∈ pre := by
                rw [leadK_eq' hl, List.getElem?_append_left (by omega)] at hprev
                exact List.mem_of_getElem? hprev
              obtain ⟨kids, rfl⟩ := skippable_group (hl.pre prev hprevmem) hpg
              obtain ⟨r, hr, rfl⟩ := groupTokens_eq hg
              have hc := groupTokens'_cases hr
              simp only [↓reduceIte] at hc
              rcases hc with ⟨c, kids', _, hst, _, rfl⟩ | ⟨_, hno, _⟩
              · rw [hprev] at hst
                cases hst
                have hmax : max (pidx + 1) (t + 1) = t + 1 := by omega
                simp only [hmax] at h
                have hL1 : L.take pidx ++ Node.grp .Comment (kids ++ pySlice L (pidx + 1) (t + 1)) :: L.drop (t + 1) =
                    (pre.take pidx ++ Node.grp .Comment (kids ++ pySlice L (pidx + 1) (t + 1)) :: pre.drop (t + 1)) ++
                      Node.tok tt v :: ws ++ tail := by
                  rw [leadK_eq' hl, List.take_append_of_le_length (by omega),
                    List.drop_append_of_le_length (by omega)]
                  simp
                rw [hL1] at h
                refine ih _ (pre.take pidx ++ Node.grp .Comment (kids ++ pySlice L (pidx + 1) (t + 1)) ::
                  pre.drop (t + 1)) ws tail _ L' ⟨rfl, ?_, hl.ws, hl.tail⟩ h (hpend _ _)
                intro x hx
                simp only [List.mem_append, List.mem_cons] at hx
                rcases hx with hx | rfl | hx
                · exact hl.pre x (List.mem_of_mem_take hx)
                · exact skippable_comment_grp _
                · exact hl.pre x (List.mem_of_mem_drop hx)
              · rcases hno with h1 | h1
                · cases h1
                · have := h1 _ hprev
                  simp [Node.isInst, Gen.align_comments_group_tokens0_cls] at this
        · rw [if_neg hinst] at h
          exact ih _ _ _ _ _ _ hl h (hpend _ _)

theorem bodyLead_align : BodyLead u (alignCommentsBody u) := by
  intro tt v hk c L L' pre ws tail h hl
  refine alignLoop_lead hk _ L pre ws tail _ L' hl h ?_
  intro t2 tok2 hq
  obtain ⟨h1, h2⟩ := pend_of_nextBy _ _ hq
  exact ⟨h1, by simpa [imt] using h2⟩

/-! ## all passes -/
theorem PassLead.ite' {c : Prop} [Decidable c] {a b : Pass} (ha : PassLead u a) (hb : PassLead u b) :
    PassLead u (if c then a else b) := by
  by_cases h : c
  · rw [if_pos h]; exact ha
  · rw [if_neg h]; exact hb

theorem passByName_lead (name : String) : PassLead u (passByName u name) := by
  unfold passByName
  repeat' apply PassLead.ite'
  all_goals first
    | exact matchingPassOf_lead _
    | exact typedLiteralPass_lead
    | exact assignmentPass_lead
    | exact adHocPass_lead _ bodyLead_comments
    | exact adHocPass_lead _ bodyLead_over
    | exact adHocPass_lead _ bodyLead_functions
    | exact adHocPass_lead _ bodyLead_where
    | exact adHocPass_lead _ bodyLead_identifier
    | exact adHocPass_lead _ bodyLead_order
    | exact adHocPass_lead _ bodyLead_aliased
    | exact adHocPass_lead _ bodyLead_align
    | exact adHocPass_lead _ bodyLead_values
    | exact driverPass_lead cfgLead_period
    | exact driverPass_lead cfgLead_arrays
    | exact driverPass_lead cfgLead_typecasts
    | exact driverPass_lead cfgLead_tzcasts
    | exact driverPass_lead cfgLead_operator
    | exact driverPass_lead cfgLead_comparison
    | exact driverPass_lead cfgLead_as
    | exact driverPass_lead cfgLead_identifierList
    | (intro tt v hk fuel c L L' h; simp [unknownPass] at h)

theorem runPasses_lead {tt : TType} {v : Text} (hk : KOk u tt v) (fuel : Nat) (c : Cls) :
    ∀ (names : List String) (L L' : List Node), runPasses u fuel c names L = .ok L' → NoAssign L →
      LeadKE u tt v L → LeadKE u tt v L' := by
  intro names
  induction names with
  | nil => intro L L' h _ hl; simp [runPasses] at h; subst h; exact hl
  | cons p ps ih =>
    intro L L' h hna hl
    simp only [runPasses] at h
    cases hp : passByName u p fuel c L with
    | error e => simp [hp] at h
    | ok L1 =>
      simp only [hp] at h
      have hl1 := passByName_lead p tt v hk fuel c L L1 hp hna hl
      have hna1 : NoAssign L1 := noAssign_of_leafRel (passByName_leaves u p fuel c L L1 hp) hna
      exact ih L1 L' h hna1 hl1

/-! ## the statement for flat statements -/
/-- skipped by `token_first(skip_ws=True, skip_cm=True)` as a leaf -/
def skipTok (t : Tok) : Bool := t.tt.isIn T.Whitespace || t.tt.isIn T.Comment
def leadWsTok (t : Tok) : Bool := t.tt.isIn T.Whitespace
/-- the `Statement` children before grouping -/
def flatNodes (st : List Tok) : List Node := st.map fun t => Node.tok t.tt t.val

/-- the next non-whitespace token (if any) is neither `::` nor a `Keyword.TZCast` leaf -/
def secondOK (u : Text → Text) (rest : List Tok) : Bool :=
  match (rest.dropWhile leadWsTok).head? with
  | none => true
  | some s => !badSecond u (Node.tok s.tt s.val)

/-- **the decidable hypothesis**: the first token that is neither whitespace nor comment is typed `Keyword.DML` or
`Keyword.DDL`, its normalised value is neither `NULL` nor `AS`, the next non-whitespace token is fine, and no token
of the statement is typed `Assignment` -/
def LeadHyp (u : Text → Text) (st : List Tok) : Bool :=
  match st.dropWhile skipTok with
  | [] => false
  | k :: rest =>
    (k.tt == T.DML || k.tt == T.DDL) && u k.val != txt "NULL" && u k.val != txt "AS" && secondOK u rest &&
      st.all (fun t => t.tt != T.Assignment)

theorem mem_takeWhile_p {α : Type} {p : α → Bool} {l : List α} {x : α} (h : x ∈ l.takeWhile p) : p x = true := by
  induction l with
  | nil => cases h
  | cons a l ih =>
    simp only [List.takeWhile] at h
    split at h
    · rename_i hp
      cases h with
      | head => exact hp
      | tail _ h => exact ih h
    · cases h

theorem leavesL_flat (st : List Tok) : Node.leavesL (flatNodes st) = st := by
  induction st with
  | nil => simp [flatNodes]
  | cons t st ih => simp only [flatNodes, List.map_cons, leavesL_cons, leaves_tok] at ih ⊢; rw [ih]; rfl

theorem leadHyp_spec {st : List Tok} (h : LeadHyp u st = true) :
    ∃ k rest, st.dropWhile skipTok = k :: rest ∧ KOk u k.tt k.val ∧ NoAssign (flatNodes st) ∧
      LeadK u k.tt k.val (flatNodes st) (flatNodes (st.takeWhile skipTok)) (flatNodes (rest.takeWhile leadWsTok))
        (flatNodes (rest.dropWhile leadWsTok)) := by
  unfold LeadHyp at h
  cases hd : st.dropWhile skipTok with
  | nil => simp [hd] at h
  | cons k rest =>
    simp only [hd, Bool.and_eq_true, Bool.or_eq_true, beq_iff_eq, bne_iff_ne, ne_eq, List.all_eq_true] at h
    obtain ⟨⟨⟨⟨h1, h2⟩, h3⟩, h4⟩, h5⟩ := h
    refine ⟨k, rest, rfl, ⟨h1, h2, h3⟩, ?_, ?_, ?_, ?_, ?_⟩
    · intro l hl
      rw [leavesL_flat] at hl
      exact h5 l hl
    · have e1 : st = st.takeWhile skipTok ++ (k :: rest) := by rw [← hd, List.takeWhile_append_dropWhile]
      have e2 : rest = rest.takeWhile leadWsTok ++ rest.dropWhile leadWsTok := (List.takeWhile_append_dropWhile).symm
      conv => lhs; rw [e1]
      simp only [flatNodes, List.map_append, List.map_cons]
      have e3 : List.map (fun t => Node.tok t.tt t.val) rest =
          List.map (fun t => Node.tok t.tt t.val) (rest.takeWhile leadWsTok) ++
            List.map (fun t => Node.tok t.tt t.val) (rest.dropWhile leadWsTok) := by
        rw [← List.map_append, List.takeWhile_append_dropWhile]
      rw [e3]
      simp
    · intro x hx
      simp only [flatNodes, List.mem_map] at hx
      obtain ⟨t, ht, rfl⟩ := hx
      have := mem_takeWhile_p ht
      simp only [skipTok, Bool.or_eq_true] at this
      simp only [Node.skippable, skipMatcher, Bool.true_and, Bool.not_not, Bool.or_eq_true, Node.isWhitespace,
        Node.ttIn, Node.isInst, Bool.or_false]
      exact this
    · intro x hx
      simp only [flatNodes, List.mem_map] at hx
      obtain ⟨t, ht, rfl⟩ := hx
      have := mem_takeWhile_p ht
      simpa [leadWsTok, Node.isWhitespace] using this
    · intro hh hhh
      simp only [flatNodes, List.head?_map, Option.map_eq_some_iff] at hhh
      obtain ⟨s, hs, rfl⟩ := hhh
      refine ⟨?_, ?_⟩
      · have := List.head?_dropWhile_not leadWsTok rest
        rw [hs] at this
        simpa [leadWsTok, Node.isWhitespace] using this
      · unfold secondOK at h4
        rw [hs] at h4
        simpa using h4

theorem tokenFirst_of_lead {tt : TType} {v : Text} (hk : KOk u tt v) {L pre ws tail : List Node}
    (h : LeadK u tt v L pre ws tail) : Acc.tokenFirstIdx L true true = some (pre.length, Node.tok tt v) := by
  rw [(Acc.tokenFirst_spec L true true).1]
  refine ⟨?_, ?_, ?_⟩
  · rw [leadK_eq' h, List.getElem?_append_right (Nat.le_refl _)]; simp
  · unfold Acc.Skipped
    rcases hk.ty with rfl | rfl <;>
      simp (config := { decide := true }) [skipMatcher, Node.isWhitespace, Node.ttIn, Node.isInst, TType.isIn,
        T.DML, T.DDL, T.Whitespace, T.Comment]
  · intro j k' hj hk'
    rw [leadK_eq' h, List.getElem?_append_left hj] at hk'
    have := h.pre k' (List.mem_of_getElem? hk')
    unfold Acc.Skipped
    simpa [Node.skippable] using this

/-- **the leading DML/DDL keyword survives grouping** (for any normaliser `u`) -/
theorem groupWith_leading_kw {fuel : Nat} {st : List Tok} {ks' : List Node} (hh : LeadHyp u st = true)
    (h : groupWith u fuel (flatNodes st) = .ok ks') :
    ∃ k rest i, st.dropWhile skipTok = k :: rest ∧ Acc.tokenFirstIdx ks' true true = some (i, Node.tok k.tt k.val) ∧
      Acc.getType u ks' = u k.val := by
  obtain ⟨k, rest, hd, hk, hna, hl⟩ := leadHyp_spec hh
  obtain ⟨pre', ws', tail', hl'⟩ := runPasses_lead hk fuel .Statement Gen.passOrder _ _ h hna ⟨_, _, _, hl⟩
  have hf := tokenFirst_of_lead hk hl'
  exact ⟨k, rest, pre'.length, hd, hf, Acc.getType_dml_ddl u ks' _ _ _ hf hk.ty⟩

/-- **C18**: after `grouping.group` the first child of the statement that is neither whitespace nor a comment
(leaf or `Comment` group) is still the leading keyword leaf, with its type and value -/
theorem leading_kw_survives {fuel : Nat} {st : List Tok} {ks' : List Node} (hh : LeadHyp kwNorm st = true)
    (h : group fuel (flatNodes st) = .ok ks') :
    ∃ k rest i, st.dropWhile skipTok = k :: rest ∧
      Acc.tokenFirstIdx ks' true true = some (i, Node.tok k.tt k.val) := by
  obtain ⟨k, rest, i, h1, h2, _⟩ := groupWith_leading_kw hh h
  exact ⟨k, rest, i, h1, h2⟩

/-- … and `Statement.get_type()` is its normalised value -/
theorem leading_kw_getType {fuel : Nat} {st : List Tok} {ks' : List Node} (hh : LeadHyp kwNorm st = true)
    (h : group fuel (flatNodes st) = .ok ks') :
    ∃ k rest, st.dropWhile skipTok = k :: rest ∧ Acc.getType kwNorm ks' = kwNorm k.val := by
  obtain ⟨k, rest, _, h1, _, h3⟩ := groupWith_leading_kw hh h
  exact ⟨k, rest, h1, h3⟩

end Sql
