import SqlProofs.LexWords
import SqlProofs.LexWordsCase
import SqlModel.Splitter
/-!
# SqlProofs.LexDictWords — which dictionary words are tokens of the word rule

`dict_words_certified` is a computation (kernel evaluation, ≈ 30 s) over the generated keyword dictionaries × the generated rule
table: every dictionary entry except the listed ones satisfies `wordCert`, the hypothesis of the universal theorem `word_token`.
The listed exceptions are the words for which a dedicated earlier rule exists (their result is *evaluated* on the representative context
`w;` in `dedicated_rules`), `WITH` (rule 44 `(AT|WITH')…` cannot be excluded without knowing the delimiter is not `'`), and four entries
that are not single words and can never be one word-rule token.
-/
namespace Sql

/-- all keys of the keyword dictionaries, in registration order -/
def dictWords : List Text := Gen.dicts.flatten.map (·.1)

/-- the dictionary entries not covered by `word_token` -/
def uncertified : List Text :=
  [txt "CREATE", txt "FROM", txt "JOIN", txt "LIKE", txt "IN", txt "END", txt "AS", txt "CASE", txt "BIT VARYING",
   txt "CHARACTER VARYING", txt "DOUBLE PRECISION", txt "IN", txt "REGEXP", txt "RLIKE", txt "END-EXEC", txt "ILIKE", txt "USING",
   txt "VALUES", txt "WITH"]

set_option maxRecDepth 100000 in
/-- table obligation (evaluated, ≈ 30 s): every dictionary entry passes the certificate or is one of the listed exceptions
(insensitive to the order of the dictionaries and of their entries) -/
theorem dict_words_certified : (dictWords.all fun w => wordCert w || uncertified.contains w) = true := by decide +kernel

/-- the list of exceptions is tight: none of the listed entries passes the certificate -/
theorem uncertified_tight : (uncertified.all fun w => !wordCert w) = true := by decide +kernel

theorem wordCert_of_dict (w : Text) (hw : w ∈ dictWords) (hn : w ∉ uncertified) : wordCert w = true := by
  have := dict_words_certified
  simp only [List.all_eq_true, Bool.or_eq_true, List.contains_iff_mem] at this
  rcases this w hw with h | h
  · exact h
  · exact absurd h hn

/-- **dictionary words.** Every dictionary word other than the listed exceptions, spelled as in the dictionary (upper case), standing
anywhere in any text before a delimiter (not `[$#\w]`, not whitespace, not `(`, not `.`) and not right after a `.`: no earlier rule matches,
the scan step is the word rule's and covers exactly the word. -/
theorem dict_word_token (s : Array Cp) (p : Nat) (pre w rest : List Cp) (c : Cp)
    (hw : w ∈ dictWords) (hn : w ∉ uncertified)
    (h : s.toList = pre ++ w ++ c :: rest) (hp : pre.length = p) (hprev : pre.getLast? ≠ some 46) (hc : WordDelim c) :
    firstMatch (defaultCfg.env s) defaultCfg.rules p = some (.kw, p + w.length) :=
  word_token s p pre w rest c h hp hprev hc (wordCert_of_dict w hw hn)

/-- … and at a scan position the output of `lex` contains the token `(is_keyword(w), w)` there -/
theorem dict_word_in_output (s : Array Cp) (p : Nat) (pre w rest : List Cp) (c : Cp)
    (hw : w ∈ dictWords) (hn : w ∉ uncertified)
    (h : s.toList = pre ++ w ++ c :: rest) (hp : pre.length = p) (hprev : pre.getLast? ≠ some 46) (hc : WordDelim c)
    (hb : ScanBoundary defaultCfg (defaultCfg.env s) p) :
    ∃ ts before after, lex defaultCfg s = .ok ts ∧ ts = before ++ ⟨isKeyword defaultCfg w, w⟩ :: after ∧
      textLen before = p ∧ ScanBoundary defaultCfg (defaultCfg.env s) (p + w.length) := by
  have hfm := dict_word_token s p pre w rest c hw hn h hp hprev hc
  obtain ⟨ts, before, after, h1, h2, h3, h4⟩ := lex_emits_act s p .kw _ hb hfm
  have hv : (s.extract p (p + w.length)).toList = w :=
    extract_region s pre w (c :: rest) p (by simpa using h) hp
  rw [hv] at h2
  exact ⟨ts, before, after, h1, h2, h3, h4⟩

/-! ## the words with a dedicated rule, evaluated on `w;` -/

/-- word, action of the first matching rule, end of the match — on the text `w;` at position 0 -/
def dedicated : List (String × Action × Nat) :=
  [("CREATE", .tok T.DDL, 6), ("FROM", .tok T.Keyword, 4), ("JOIN", .tok T.Keyword, 4),
   ("LIKE", .tok T.Comparison, 4), ("IN", .tok T.Keyword, 2), ("END", .tok T.Keyword, 3),
   ("AS", .tok T.Keyword, 2), ("CASE", .tok T.Keyword, 4), ("REGEXP", .tok T.Comparison, 6),
   ("RLIKE", .tok T.Comparison, 5), ("ILIKE", .tok T.Comparison, 5), ("USING", .tok T.Keyword, 5),
   ("VALUES", .tok T.Keyword, 6), ("WITH", .kw, 4)]

/-- **evaluated, not universal**: on the concrete text `w;` the scan step at 0 has the listed result — a dedicated rule's token type
for all but `WITH`, which is taken by the word rule after all (action `PROCESS_AS_KEYWORD`) -/
theorem dedicated_rules :
    (dedicated.all fun e =>
      decide (firstMatch (defaultCfg.env (txt e.1 ++ [59]).toArray) defaultCfg.rules 0 = some (e.2.1, e.2.2))) = true := by
  decide +kernel

/-- every single-word exception is in the evaluated table -/
theorem uncertified_covered :
    (uncertified.all fun w => (dedicated.any fun e => txt e.1 == w) || w.any (fun c => c == 32 || c == 45)) = true := by
  decide +kernel

/-! ## every casing -/

/-- table obligation: dictionary keys are ASCII -/
theorem dict_ascii : (dictWords.all fun w => w.all fun c => decide (c < 128)) = true := by decide +kernel

theorem lt128_of_fold (a : Nat) (h : asciiFold a < 128) : a < 128 := by
  unfold asciiFold at h
  split at h <;> omega

theorem ascii_of_sameFold : ∀ (w' w : Text), w'.map asciiFold = w.map asciiFold → (∀ c ∈ w, c < 128) → ∀ c ∈ w', c < 128 := by
  intro w'
  induction w' with
  | nil => intro w _ _ c hc; simp at hc
  | cons x xs ih =>
    intro w h hw c hc
    cases w with
    | nil => simp at h
    | cons y ys =>
      simp only [List.map_cons, List.cons.injEq] at h
      simp only [List.mem_cons] at hc
      rcases hc with rfl | hc
      · have hy := asciiFold_lt y (hw y (by simp))
        rw [← h.1] at hy
        exact lt128_of_fold _ hy
      · exact ih ys h.2 (fun z hz => hw z (by simp [hz])) c hc

/-- **dictionary words in any casing.** For a dictionary word `w` other than the listed exceptions and any spelling `w'` of it that
differs only in the case of ASCII letters (`select`, `Select`, `sELECT` …): before a delimiter and not right after a `.`, no earlier rule
matches `w'`, the scan step is the word rule's over exactly `w'`, and `is_keyword` gives `w'` the dictionary type of `w`. -/
theorem dict_word_any_case (s : Array Cp) (p : Nat) (pre w w' rest : List Cp) (c : Cp)
    (hw : w ∈ dictWords) (hn : w ∉ uncertified) (hcase : w'.map asciiFold = w.map asciiFold)
    (h : s.toList = pre ++ w' ++ c :: rest) (hp : pre.length = p) (hprev : pre.getLast? ≠ some 46) (hc : WordDelim c) :
    firstMatch (defaultCfg.env s) defaultCfg.rules p = some (.kw, p + w'.length) ∧
      isKeyword defaultCfg w' = isKeyword defaultCfg w := by
  have hcert : wordCert w' = true := by rw [wordCert_case w' w hcase]; exact wordCert_of_dict w hw hn
  exact ⟨word_token s p pre w' rest c h hp hprev hc hcert, isKeyword_case_invariant w w' hcase⟩

/-- … and at a scan position the output of `lex` contains the token `(is_keyword(w), w')` -/
theorem dict_word_any_case_in_output (s : Array Cp) (p : Nat) (pre w w' rest : List Cp) (c : Cp)
    (hw : w ∈ dictWords) (hn : w ∉ uncertified) (hcase : w'.map asciiFold = w.map asciiFold)
    (h : s.toList = pre ++ w' ++ c :: rest) (hp : pre.length = p) (hprev : pre.getLast? ≠ some 46) (hc : WordDelim c)
    (hb : ScanBoundary defaultCfg (defaultCfg.env s) p) :
    ∃ ts before after, lex defaultCfg s = .ok ts ∧ ts = before ++ ⟨isKeyword defaultCfg w, w'⟩ :: after ∧
      textLen before = p ∧ ScanBoundary defaultCfg (defaultCfg.env s) (p + w'.length) := by
  obtain ⟨hfm, hty⟩ := dict_word_any_case s p pre w w' rest c hw hn hcase h hp hprev hc
  obtain ⟨ts, before, after, h1, h2, h3, h4⟩ := lex_emits_act s p .kw _ hb hfm
  have hv : (s.extract p (p + w'.length)).toList = w' :=
    extract_region s pre w' (c :: rest) p (by simpa using h) hp
  rw [hv] at h2
  simp only [tokType, hty] at h2
  exact ⟨ts, before, after, h1, h2, h3, h4⟩

end Sql
