import SqlModel.RegexCost
/-!
# SqlProofs.RegexCost — soundness of the polynomial certificate:
`cert r = some c` ⇒ for every subject string and every start state, the number of derivations is ≤ `c.cnt.eval N`,
the size of the backtracking search tree is ≤ `c.work.eval N` (N = |s| + 1), and `c.det` ⇒ at most one derivation.
-/
namespace Sql

/-! ## arithmetic of bounds -/

theorem PB.one_eval (N : Nat) : PB.one.eval N = 1 := by simp [PB.one, PB.eval]

theorem PB.add_sound (a b : PB) (N : Nat) (hN : 1 ≤ N) : a.eval N + b.eval N ≤ (a.add b).eval N := by
  simp only [PB.eval, PB.add]
  have h1 : N ^ a.d ≤ N ^ max a.d b.d := Nat.pow_le_pow_right hN (Nat.le_max_left _ _)
  have h2 : N ^ b.d ≤ N ^ max a.d b.d := Nat.pow_le_pow_right hN (Nat.le_max_right _ _)
  calc a.c * N ^ a.d + b.c * N ^ b.d ≤ a.c * N ^ max a.d b.d + b.c * N ^ max a.d b.d :=
        Nat.add_le_add (Nat.mul_le_mul_left _ h1) (Nat.mul_le_mul_left _ h2)
    _ = (a.c + b.c) * N ^ max a.d b.d := by rw [Nat.add_mul]

theorem PB.mul_sound (a b : PB) (N : Nat) : a.eval N * b.eval N = (a.mul b).eval N := by
  simp only [PB.eval, PB.mul, Nat.pow_add]
  rw [Nat.mul_mul_mul_comm]

theorem PB.pow_sound (a : PB) (N : Nat) : ∀ k, (a.eval N) ^ k = (a.pow k).eval N := by
  intro k
  induction k with
  | zero => simp [PB.pow, PB.one_eval]
  | succ k ih => rw [PB.pow, ← PB.mul_sound, ← ih, Nat.pow_succ, Nat.mul_comm]

theorem PB.add_le (a b : PB) (N x y : Nat) (hN : 1 ≤ N) (hx : x ≤ a.eval N) (hy : y ≤ b.eval N) :
    x + y ≤ (a.add b).eval N := Nat.le_trans (Nat.add_le_add hx hy) (PB.add_sound a b N hN)

theorem PB.mul_le (a b : PB) (N x y : Nat) (hx : x ≤ a.eval N) (hy : y ≤ b.eval N) :
    x * y ≤ (a.mul b).eval N := by rw [← PB.mul_sound]; exact Nat.mul_le_mul hx hy

/-! ## list helpers -/

theorem length_flatMap_le {α β : Type} (l : List α) (f : α → List β) (k : Nat) (h : ∀ x ∈ l, (f x).length ≤ k) :
    (l.flatMap f).length ≤ l.length * k := by
  induction l with
  | nil => simp
  | cons x xs ih =>
    simp only [List.flatMap_cons, List.length_append, List.length_cons]
    have h1 := h x (by simp)
    have h2 := ih (fun y hy => h y (by simp [hy]))
    rw [Nat.succ_mul]; omega

theorem sum_map_le {α : Type} (l : List α) (f : α → Nat) (k : Nat) (h : ∀ x ∈ l, f x ≤ k) :
    (l.map f).sum ≤ l.length * k := by
  induction l with
  | nil => simp
  | cons x xs ih =>
    simp only [List.map_cons, List.sum_cons, List.length_cons]
    have h1 := h x (by simp)
    have h2 := ih (fun y hy => h y (by simp [hy]))
    rw [Nat.succ_mul]; omega

/-! ## first-character sets -/

theorem rangesDisjoint_sound (a b : List (Nat × Nat)) (h : rangesDisjoint a b = true) (c : Nat)
    (ha : (CpSet.mk a).mem c = true) (hb : (CpSet.mk b).mem c = true) : False := by
  simp [CpSet.mem] at ha hb
  obtain ⟨r1a, r1b, hr1, h1a, h1b⟩ := ha
  obtain ⟨r2a, r2b, hr2, h2a, h2b⟩ := hb
  simp only [rangesDisjoint, List.all_eq_true, Bool.or_eq_true, decide_eq_true_eq] at h
  have := h (r1a, r1b) hr1 (r2a, r2b) hr2
  simp only at this
  rcases this with h' | h'
  · exact absurd (Nat.lt_of_lt_of_le h' (Nat.le_trans h2a h1b)) (Nat.lt_irrefl _)
  · exact absurd (Nat.lt_of_lt_of_le h' (Nat.le_trans h1a h2b)) (Nat.lt_irrefl _)

theorem mem_append_ranges (a b : List (Nat × Nat)) (c : Nat) :
    (CpSet.mk (a ++ b)).mem c = ((CpSet.mk a).mem c || (CpSet.mk b).mem c) := by
  simp [CpSet.mem, List.any_append]

theorem repAux_first (step : St → List St) (g : Bool) (P : St → Prop)
    (hstep : ∀ st st', st' ∈ step st → P st) :
    ∀ fuel lo hi st st', 1 ≤ lo → st' ∈ repAux step g fuel lo hi st → P st := by
  intro fuel
  cases fuel with
  | zero => intro lo hi st st' hlo h; simp [repAux] at h; omega
  | succ fuel =>
    intro lo hi st st' hlo h
    have hne : ¬ lo = 0 := by omega
    unfold repAux at h
    split at h
    · simp [hne] at h
    · simp only [hne, if_false, List.append_nil, List.nil_append] at h
      have hm : st' ∈ ((step st).filter (fun st' => st.pos < st'.pos)).flatMap
          (fun st' => repAux step g fuel (lo - 1) (hi.map (· - 1)) st') := by
        cases g <;> simpa using h
      simp only [List.mem_flatMap, List.mem_filter] at hm
      obtain ⟨mid, ⟨hmid, _⟩, _⟩ := hm
      exact hstep st mid hmid

/-- a zero-width assertion leaves the state unchanged -/
theorem isAssert_derivs (E : Env) (a : Re) (h : isAssert a = true) (st mid : St) (hm : mid ∈ derivs E a st) :
    mid = st := by
  cases a with
  | eps => simpa [derivs] using hm
  | look ahead neg w r =>
    simp only [derivs] at hm
    split at hm
    · simp at hm; exact hm.2
    · simp at hm; exact hm.2
  | atEnd =>
    simp only [derivs] at hm
    split at hm
    · simpa using hm
    · simp at hm
  | wordB =>
    simp only [derivs] at hm
    split at hm
    · simpa using hm
    · simp at hm
  | set S => simp [isAssert] at h
  | cat a b => simp [isAssert] at h
  | alt a b => simp [isAssert] at h
  | rep lo hi g r => simp [isAssert] at h
  | grp n r => simp [isAssert] at h
  | bref n => simp [isAssert] at h

/-- every derivation of an expression with a first-character set starts with a character of that set -/
theorem firstSet_sound (E : Env) : ∀ (r : Re) (S : List (Nat × Nat)), firstSet r = some S →
    ∀ st st', st' ∈ derivs E r st → ∃ c, E.s[st.pos]? = some c ∧ (CpSet.mk S).mem c = true := by
  intro r
  induction r with
  | eps => intro S h; simp [firstSet] at h
  | set T =>
    intro S h st st' hd
    simp only [firstSet, Option.some.injEq] at h
    subst h
    simp only [derivs] at hd
    split at hd
    · rename_i c hc
      split at hd
      · rename_i hm; exact ⟨c, hc, hm⟩
      · simp at hd
    · simp at hd
  | cat a b iha ihb =>
    intro S h st st' hd
    simp only [firstSet] at h
    simp only [derivs, List.mem_flatMap] at hd
    obtain ⟨mid, hmid, hrest⟩ := hd
    split at h
    · exact iha S h st mid hmid
    · split at h
      · rename_i hz
        have := isAssert_derivs E a hz st mid hmid
        subst this
        exact ihb S h mid st' hrest
      · simp at h
  | alt a b iha ihb =>
    intro S h st st' hd
    simp only [firstSet] at h
    split at h
    · rename_i x y hx hy
      simp only [Option.some.injEq] at h
      subst h
      simp only [derivs, List.mem_append] at hd
      rcases hd with hd | hd
      · obtain ⟨c, h1, h2⟩ := iha x hx st st' hd
        exact ⟨c, h1, by rw [mem_append_ranges]; simp [h2]⟩
      · obtain ⟨c, h1, h2⟩ := ihb y hy st st' hd
        exact ⟨c, h1, by rw [mem_append_ranges]; simp [h2]⟩
    · simp at h
  | rep lo hi g r ih =>
    intro S h st st' hd
    simp only [firstSet] at h
    split at h
    · rename_i hlo
      simp only [derivs] at hd
      exact repAux_first (derivs E r) g (fun st => ∃ c, E.s[st.pos]? = some c ∧ (CpSet.mk S).mem c = true)
        (fun a b hb => ih S h a b hb) _ lo hi st st' hlo hd
    · simp at h
  | grp n r ih =>
    intro S h st st' hd
    simp only [firstSet] at h
    simp only [derivs, List.mem_map] at hd
    obtain ⟨x, hx, _⟩ := hd
    exact ih S h st x hx
  | bref n => intro S h; simp [firstSet] at h
  | look a n w r _ => intro S h; simp [firstSet] at h
  | atEnd => intro S h; simp [firstSet] at h
  | wordB => intro S h; simp [firstSet] at h

/-! ## repetition -/

/-- deterministic body: at most one derivation per iteration count -/
theorem repAux_det (step : St → List St) (wstep : St → Nat) (g : Bool) (W : Nat)
    (hdet : ∀ st, (step st).length ≤ 1) (hw : ∀ st, wstep st ≤ W) :
    ∀ fuel lo hi st, (repAux step g fuel lo hi st).length ≤ fuel + 1 ∧
      workRep step wstep fuel lo hi st ≤ (fuel + 1) * (W + 1) := by
  intro fuel
  induction fuel with
  | zero =>
    intro lo hi st
    refine ⟨?_, ?_⟩
    · simp only [repAux]; split <;> simp
    · simp [workRep]
  | succ fuel ih =>
    intro lo hi st
    have hstop : (if lo = 0 then [st] else []).length ≤ 1 := by split <;> simp
    have hfl : ((step st).filter (fun st' => st.pos < st'.pos)).length ≤ 1 :=
      Nat.le_trans (List.length_filter_le _ _) (hdet st)
    refine ⟨?_, ?_⟩
    · unfold repAux
      split
      · omega
      · have hmore := length_flatMap_le ((step st).filter (fun st' => st.pos < st'.pos))
          (fun st' => repAux step g fuel (lo - 1) (hi.map (· - 1)) st') (fuel + 1) (fun x _ => (ih _ _ x).1)
        have : ((step st).filter (fun st' => st.pos < st'.pos)).length * (fuel + 1) ≤ fuel + 1 := by
          calc _ ≤ 1 * (fuel + 1) := Nat.mul_le_mul_right _ hfl
            _ = fuel + 1 := Nat.one_mul _
        simp only
        split <;> simp only [List.length_append] <;> omega
    · unfold workRep
      split
      · have : 1 ≤ (fuel + 1 + 1) * (W + 1) := Nat.mul_pos (by omega) (by omega)
        exact this
      · have hsum := sum_map_le ((step st).filter (fun st' => st.pos < st'.pos))
          (fun st' => workRep step wstep fuel (lo - 1) (hi.map (· - 1)) st') ((fuel + 1) * (W + 1))
          (fun x _ => (ih _ _ x).2)
        have h2 : ((step st).filter (fun st' => st.pos < st'.pos)).length * ((fuel + 1) * (W + 1)) ≤ (fuel + 1) * (W + 1) := by
          calc _ ≤ 1 * ((fuel + 1) * (W + 1)) := Nat.mul_le_mul_right _ hfl
            _ = _ := Nat.one_mul _
        have h3 := hw st
        have : (fuel + 1 + 1) * (W + 1) = (fuel + 1) * (W + 1) + (W + 1) := by rw [Nat.succ_mul]
        omega

/-- bounded repetition of a body with at most `C` derivations and work at most `W` -/
theorem repAux_bounded (step : St → List St) (wstep : St → Nat) (g : Bool) (C W : Nat)
    (hc : ∀ st, (step st).length ≤ C) (hw : ∀ st, wstep st ≤ W) :
    ∀ fuel k lo st, (repAux step g fuel lo (some k) st).length ≤ (1 + C) ^ k ∧
      workRep step wstep fuel lo (some k) st ≤ (1 + C) ^ k * (2 + W) := by
  intro fuel
  induction fuel with
  | zero =>
    intro k lo st
    have hp : 1 ≤ (1 + C) ^ k := Nat.pow_pos (by omega)
    refine ⟨?_, ?_⟩
    · simp only [repAux]; split <;> simp <;> omega
    · simp only [workRep]
      calc 1 ≤ (1 + C) ^ k := hp
        _ ≤ (1 + C) ^ k * (2 + W) := Nat.le_mul_of_pos_right _ (by omega)
  | succ fuel ih =>
    intro k lo st
    have hp : ∀ j, 1 ≤ (1 + C) ^ j := fun j => Nat.pow_pos (by omega)
    have hstop : (if lo = 0 then [st] else []).length ≤ 1 := by split <;> simp
    have hfl : ((step st).filter (fun st' => st.pos < st'.pos)).length ≤ C :=
      Nat.le_trans (List.length_filter_le _ _) (hc st)
    cases k with
    | zero =>
      refine ⟨?_, ?_⟩
      · unfold repAux; simp only [if_true]; split <;> simp
      · unfold workRep; simp; omega
    | succ k =>
      have hne : ¬ (some (k + 1) = some 0) := by simp
      have hmap : (some (k + 1)).map (· - 1) = some k := by simp
      have hpow : (1 + C) ^ (k + 1) = (1 + C) ^ k + C * (1 + C) ^ k := by
        rw [Nat.pow_succ, Nat.mul_add, Nat.mul_one, Nat.mul_comm]
      refine ⟨?_, ?_⟩
      · unfold repAux
        simp only [hne, if_false, hmap]
        have hmore := length_flatMap_le ((step st).filter (fun st' => st.pos < st'.pos))
          (fun st' => repAux step g fuel (lo - 1) (some k) st') ((1 + C) ^ k) (fun x _ => (ih k _ x).1)
        have h2 : ((step st).filter (fun st' => st.pos < st'.pos)).length * (1 + C) ^ k ≤ C * (1 + C) ^ k :=
          Nat.mul_le_mul_right _ hfl
        have := hp k
        split <;> simp only [List.length_append] <;> omega
      · unfold workRep
        simp only [hne, if_false, hmap]
        have hsum := sum_map_le ((step st).filter (fun st' => st.pos < st'.pos))
          (fun st' => workRep step wstep fuel (lo - 1) (some k) st') ((1 + C) ^ k * (2 + W)) (fun x _ => (ih k _ x).2)
        have h2 : ((step st).filter (fun st' => st.pos < st'.pos)).length * ((1 + C) ^ k * (2 + W))
            ≤ C * ((1 + C) ^ k * (2 + W)) := Nat.mul_le_mul_right _ hfl
        have h3 := hw st
        have h4 : (1 + C) ^ (k + 1) * (2 + W) = (1 + C) ^ k * (2 + W) + C * ((1 + C) ^ k * (2 + W)) := by
          rw [hpow, Nat.add_mul, Nat.mul_assoc]
        have h5 : 2 + W ≤ (1 + C) ^ k * (2 + W) := Nat.le_mul_of_pos_left _ (hp k)
        omega

/-! ## the certificate is sound -/

def CertOK (E : Env) (r : Re) (c : Cert) : Prop :=
  ∀ st, (derivs E r st).length ≤ c.cnt.eval (E.s.size + 1) ∧ work E r st ≤ c.work.eval (E.s.size + 1) ∧
    (c.det = true → (derivs E r st).length ≤ 1)

theorem cert_sound (E : Env) : ∀ (r : Re) (c : Cert), cert r = some c → CertOK E r c := by
  have hN : 1 ≤ E.s.size + 1 := by omega
  have leaf : ∀ r : Re, (∀ st, (derivs E r st).length ≤ 1) → (∀ st, work E r st = 1) → CertOK E r Cert.leaf := by
    intro r h1 h2 st
    refine ⟨?_, ?_, fun _ => h1 st⟩
    · simp only [Cert.leaf, PB.one_eval]; exact h1 st
    · simp only [Cert.leaf, PB.one_eval, h2 st]; exact Nat.le_refl 1
  intro r
  induction r with
  | eps => intro c h; simp only [cert, Option.some.injEq] at h; subst h; exact leaf _ (by simp [derivs]) (by simp [work])
  | set S =>
    intro c h; simp only [cert, Option.some.injEq] at h; subst h
    refine leaf _ ?_ (by simp [work])
    intro st; simp only [derivs]; split
    · split <;> simp
    · simp
  | bref n =>
    intro c h; simp only [cert, Option.some.injEq] at h; subst h
    refine leaf _ ?_ (by simp [work])
    intro st; simp only [derivs]; split
    · split <;> simp
    · simp
  | atEnd =>
    intro c h; simp only [cert, Option.some.injEq] at h; subst h
    refine leaf _ ?_ (by simp [work])
    intro st; simp only [derivs]; split <;> simp
  | wordB =>
    intro c h; simp only [cert, Option.some.injEq] at h; subst h
    refine leaf _ ?_ (by simp [work])
    intro st; simp only [derivs]; split <;> simp
  | cat a b iha ihb =>
    intro c h
    simp only [cert] at h
    split at h
    · rename_i ca cb hca hcb
      simp only [Option.some.injEq] at h; subst h
      have ha := iha ca hca
      have hb := ihb cb hcb
      intro st
      obtain ⟨a1, a2, a3⟩ := ha st
      have hlen : (derivs E (.cat a b) st).length ≤ (derivs E a st).length * cb.cnt.eval (E.s.size + 1) := by
        simp only [derivs]
        exact length_flatMap_le _ _ _ (fun x _ => (hb x).1)
      refine ⟨?_, ?_, ?_⟩
      · simp only
        exact Nat.le_trans hlen (PB.mul_le _ _ _ _ _ a1 (Nat.le_refl _))
      · simp only [work]
        have hsum := sum_map_le (derivs E a st) (work E b) (cb.work.eval (E.s.size + 1)) (fun x _ => (hb x).2.1)
        have h3 : ((derivs E a st).map (work E b)).sum ≤ (ca.cnt.mul cb.work).eval (E.s.size + 1) :=
          Nat.le_trans hsum (PB.mul_le _ _ _ _ _ a1 (Nat.le_refl _))
        have h4 := PB.add_le ca.work (ca.cnt.mul cb.work) _ _ _ hN a2 h3
        have h5 := PB.add_le PB.one (ca.work.add (ca.cnt.mul cb.work)) _ 1 _ hN (by simp [PB.one_eval]) h4
        omega
      · intro hdet
        simp only [Bool.and_eq_true] at hdet
        have d1 := a3 hdet.1
        simp only [derivs]
        have := length_flatMap_le (derivs E a st) (derivs E b) 1 (fun x _ => (hb x).2.2 hdet.2)
        omega
    · simp at h
  | alt a b iha ihb =>
    intro c h
    simp only [cert] at h
    split at h
    · rename_i ca cb hca hcb
      simp only [Option.some.injEq] at h; subst h
      have ha := iha ca hca
      have hb := ihb cb hcb
      -- determinism from disjoint first sets
      have hdet : (ca.det && cb.det && (match firstSet a, firstSet b with
          | some x, some y => rangesDisjoint x y
          | _, _ => false)) = true → ∀ st, (derivs E (.alt a b) st).length ≤ 1 := by
        intro hd st
        simp only [Bool.and_eq_true] at hd
        obtain ⟨⟨da, db⟩, hdis⟩ := hd
        split at hdis
        · rename_i x y hx hy
          have la := (ha st).2.2 da
          have lb := (hb st).2.2 db
          simp only [derivs, List.length_append]
          by_cases hae : derivs E a st = []
          · rw [hae]; simpa using lb
          · by_cases hbe : derivs E b st = []
            · rw [hbe]; simpa using la
            · exfalso
              obtain ⟨sa, hsa⟩ := List.exists_mem_of_ne_nil _ hae
              obtain ⟨sb, hsb⟩ := List.exists_mem_of_ne_nil _ hbe
              obtain ⟨c1, hc1, m1⟩ := firstSet_sound E a x hx st sa hsa
              obtain ⟨c2, hc2, m2⟩ := firstSet_sound E b y hy st sb hsb
              rw [hc1] at hc2
              simp only [Option.some.injEq] at hc2
              subst hc2
              exact rangesDisjoint_sound x y hdis c1 m1 m2
        · simp at hdis
      intro st
      obtain ⟨a1, a2, _⟩ := ha st
      obtain ⟨b1, b2, _⟩ := hb st
      generalize (ca.det && cb.det && (match firstSet a, firstSet b with
          | some x, some y => rangesDisjoint x y
          | _, _ => false)) = D at hdet
      refine ⟨?_, ?_, fun hd => hdet hd st⟩
      · simp only
        cases D with
        | true => simp only [if_true, PB.one_eval]; exact hdet rfl st
        | false =>
          simp only [Bool.false_eq_true, if_false, derivs, List.length_append]
          exact PB.add_le _ _ _ _ _ hN a1 b1
      · simp only [work]
        have h4 := PB.add_le ca.work cb.work _ _ _ hN a2 b2
        have h5 := PB.add_le PB.one (ca.work.add cb.work) _ 1 _ hN (by simp [PB.one_eval]) h4
        omega
    · simp at h
  | rep lo hi g r ih =>
    intro c h
    simp only [cert] at h
    split at h
    · simp at h
    · rename_i cr hcr
      have hr := ih cr hcr
      split at h
      · rename_i hdetr
        simp only [Option.some.injEq] at h; subst h
        intro st
        have key := repAux_det (derivs E r) (work E r) g (cr.work.eval (E.s.size + 1))
          (fun x => (hr x).2.2 hdetr) (fun x => (hr x).2.1) (E.s.size - st.pos + 1) lo hi st
        have hfuel : E.s.size - st.pos + 1 + 1 ≤ 2 * (E.s.size + 1) ^ 1 := by simp; omega
        refine ⟨?_, ?_, by simp⟩
        · simp only [derivs, PB.eval]; exact Nat.le_trans key.1 hfuel
        · simp only [work]
          have h1 : (E.s.size - st.pos + 1 + 1) * (cr.work.eval (E.s.size + 1) + 1)
              ≤ ((⟨2, 1⟩ : PB).mul (PB.one.add cr.work)).eval (E.s.size + 1) := by
            apply PB.mul_le
            · exact hfuel
            · have := PB.add_le PB.one cr.work (E.s.size + 1) 1 _ hN (by simp [PB.one_eval]) (Nat.le_refl _)
              omega
          have h2 := PB.add_le PB.one _ (E.s.size + 1) 1 _ hN (by simp [PB.one_eval]) (Nat.le_trans key.2 h1)
          omega
      · split at h
        · rename_i k
          simp only [Option.some.injEq] at h; subst h
          intro st
          have key := repAux_bounded (derivs E r) (work E r) g (cr.cnt.eval (E.s.size + 1)) (cr.work.eval (E.s.size + 1))
            (fun x => (hr x).1) (fun x => (hr x).2.1) (E.s.size - st.pos + 1) k lo st
          have hbase : 1 + cr.cnt.eval (E.s.size + 1) ≤ (PB.one.add cr.cnt).eval (E.s.size + 1) :=
            PB.add_le PB.one cr.cnt _ 1 _ hN (by simp [PB.one_eval]) (Nat.le_refl _)
          have hpow : (1 + cr.cnt.eval (E.s.size + 1)) ^ k ≤ ((PB.one.add cr.cnt).pow k).eval (E.s.size + 1) := by
            rw [← PB.pow_sound]; exact Nat.pow_le_pow_left hbase k
          refine ⟨?_, ?_, by simp⟩
          · simp only [derivs]; exact Nat.le_trans key.1 hpow
          · simp only [work]
            have h1 : (1 + cr.cnt.eval (E.s.size + 1)) ^ k * (2 + cr.work.eval (E.s.size + 1))
                ≤ (((PB.one.add cr.cnt).pow k).mul (PB.one.add (PB.one.add cr.work))).eval (E.s.size + 1) := by
              apply PB.mul_le
              · exact hpow
              · have i1 := PB.add_le PB.one cr.work (E.s.size + 1) 1 _ hN (by simp [PB.one_eval]) (Nat.le_refl _)
                have i2 := PB.add_le PB.one (PB.one.add cr.work) (E.s.size + 1) 1 _ hN (by simp [PB.one_eval]) i1
                omega
            have h2 := PB.add_le PB.one _ (E.s.size + 1) 1 _ hN (by simp [PB.one_eval]) (Nat.le_trans key.2 h1)
            omega
        · simp at h
  | grp n r ih =>
    intro c h
    simp only [cert] at h
    split at h
    · rename_i cr hcr
      simp only [Option.some.injEq] at h; subst h
      have hr := ih cr hcr
      intro st
      obtain ⟨r1, r2, r3⟩ := hr st
      refine ⟨by simpa [derivs] using r1, ?_, fun hd => by simpa [derivs] using r3 hd⟩
      simp only [work]
      have := PB.add_le PB.one cr.work _ 1 _ hN (by simp [PB.one_eval]) r2
      omega
    · simp at h
  | look ahead neg w r ih =>
    intro c h
    simp only [cert] at h
    split at h
    · rename_i cr hcr
      simp only [Option.some.injEq] at h; subst h
      have hr := ih cr hcr
      intro st
      have hl : (derivs E (.look ahead neg w r) st).length ≤ 1 := by
        have : ∀ (b : Bool), (if b = true then [st] else ([] : List St)).length ≤ 1 := by
          intro b; cases b <;> simp
        simp only [derivs]; exact this _
      refine ⟨by simpa [PB.one_eval] using hl, ?_, fun _ => hl⟩
      simp only [work]
      have hw : (if ahead = true then work E r st else if st.pos < w then 0 else work E r { st with pos := st.pos - w })
          ≤ cr.work.eval (E.s.size + 1) := by
        split
        · exact (hr st).2.1
        · split
          · exact Nat.zero_le _
          · exact (hr _).2.1
      have := PB.add_le PB.one cr.work _ 1 _ hN (by simp [PB.one_eval]) hw
      omega
    · simp at h

end Sql
