import SqlProofs.Bookkeeping
import SqlProofs.PureScript
/-!
# SqlProofs.BookkeepingAbs — the pure tree a heap object stands for

`absF h fuel i` is the pure `Node` of object `i` of the heap `h`: a leaf carries its token type and its value,
a group its class and the abstraction of its children.  `IsAbs h A` says that `A : Nat → Node` solves these equations; in a heap
satisfying `Inv0` (`Inv` without "groups are non-empty") the solution exists, is unique, and is computed by `absF` with any recursion budget above the rank
(`isAbs_absF`, `IsAbs.unique`, `absF_eq_of`).

`IsPath h r p x`: following the child indexes `p` from object `r` leads to object `x`.  In a heap satisfying `Inv` paths are unique
(`IsPath.unique`).  `Node.updAt f p t` applies `f` to the child list of the node of `t` at path `p`.
-/
namespace Sql.BK

/-- the pure tree of object `i` (recursion budget like `strF`; a budget above the rank of `i` is enough) -/
def absF (h : Heap) : Nat → Nat → Node
  | 0, i => .tok (h.obj i).ttype (h.obj i).value
  | f+1, i =>
    match (h.obj i).kids with
    | none => .tok (h.obj i).ttype (h.obj i).value
    | some ks => .grp (h.obj i).cls (ks.map (absF h f))

/-- `A` assigns to every object its pure tree -/
structure IsAbs (h : Heap) (A : Nat → Node) : Prop where
  leaf : ∀ i, (h.obj i).kids = none → A i = .tok (h.obj i).ttype (h.obj i).value
  grp : ∀ i ks, (h.obj i).kids = some ks → A i = .grp (h.obj i).cls (ks.map A)

theorem absF_fuel {h : Heap} {rank : Nat → Nat} {T : Nat → Text} (hinv : Inv0 h rank T) :
    ∀ (f f' i : Nat), rank i < f → rank i < f' → absF h f i = absF h f' i := by
  intro f
  induction f with
  | zero => intro f' i hi; omega
  | succ f ih =>
    intro f' i hi hi'
    obtain ⟨g, rfl⟩ : ∃ g, f' = g + 1 := ⟨f' - 1, by omega⟩
    simp only [absF]
    cases hk : (h.obj i).kids with
    | none => rfl
    | some ks =>
      simp only
      congr 1
      apply List.map_congr_left
      intro k hkm
      have := hinv.rk i ks hk k hkm
      exact ih g k (by omega) (by omega)

theorem absF_grp {h : Heap} {i : Nat} {ks : List Nat} (hk : (h.obj i).kids = some ks) (f : Nat) :
    absF h (f + 1) i = .grp (h.obj i).cls (ks.map (absF h f)) := by
  simp only [absF, hk]

theorem absF_leaf {h : Heap} {i : Nat} (hk : (h.obj i).kids = none) (f : Nat) :
    absF h f i = .tok (h.obj i).ttype (h.obj i).value := by
  cases f <;> simp only [absF, hk]

/-- the solution exists -/
theorem isAbs_absF {h : Heap} {rank : Nat → Nat} {T : Nat → Text} (hinv : Inv0 h rank T) :
    IsAbs h (fun i => absF h (rank i + 1) i) := by
  refine ⟨?_, ?_⟩
  · intro i hk
    exact absF_leaf hk _
  · intro i ks hk
    show absF h (rank i + 1) i = _
    rw [absF_grp hk]
    congr 1
    apply List.map_congr_left
    intro k hkm
    have := hinv.rk i ks hk k hkm
    exact absF_fuel hinv _ _ k (by omega) (by omega)

/-- every solution is computed by `absF` -/
theorem absF_eq_of {h : Heap} {rank : Nat → Nat} {T : Nat → Text} {A : Nat → Node} (hinv : Inv0 h rank T)
    (hA : IsAbs h A) : ∀ (f i : Nat), rank i < f → absF h f i = A i := by
  intro f
  induction f with
  | zero => intro i hi; omega
  | succ f ih =>
    intro i hi
    simp only [absF]
    cases hk : (h.obj i).kids with
    | none => simp only; exact (hA.leaf i hk).symm
    | some ks =>
      simp only
      rw [hA.grp i ks hk]
      congr 1
      apply List.map_congr_left
      intro k hkm
      have := hinv.rk i ks hk k hkm
      exact ih k (by omega)

/-- the solution is unique -/
theorem IsAbs.unique {h : Heap} {rank : Nat → Nat} {T : Nat → Text} {A B : Nat → Node} (hinv : Inv0 h rank T)
    (hA : IsAbs h A) (hB : IsAbs h B) : A = B := by
  funext i
  rw [← absF_eq_of hinv hA (rank i + 1) i (by omega), ← absF_eq_of hinv hB (rank i + 1) i (by omega)]

/-- the ghosts hidden: in a well-formed heap there is exactly one abstraction, and `absF` computes it for every large enough budget -/
theorem WF0.abs_unique {h : Heap} (hw : WF0 h) :
    ∃ A, IsAbs h A ∧ (∀ B, IsAbs h B → B = A) ∧ ∃ F, ∀ fuel, F ≤ fuel → ∀ i, i < h.size → absF h fuel i = A i := by
  obtain ⟨rank, T, hinv⟩ := hw
  refine ⟨_, isAbs_absF hinv, fun B hB => IsAbs.unique hinv hB (isAbs_absF hinv), ((List.range h.size).map rank).foldl max 0 + 1, ?_⟩
  intro fuel hF i hi
  apply absF_eq_of hinv (isAbs_absF hinv)
  have hle : ∀ (l : List Nat) (a : Nat), a ≤ l.foldl max a := by
    intro l
    induction l with
    | nil => intro a; exact Nat.le_refl _
    | cons z l ih2 => intro a; simp only [List.foldl_cons]; exact Nat.le_trans (Nat.le_max_left _ _) (ih2 _)
  have hmx : ∀ (l : List Nat) (a x : Nat), x ∈ l → x ≤ l.foldl max a := by
    intro l
    induction l with
    | nil => intro a x hx; cases hx
    | cons y l ih =>
      intro a x hx
      simp only [List.foldl_cons]
      rcases List.mem_cons.mp hx with rfl | hx
      · exact Nat.le_trans (Nat.le_max_right _ _) (hle l _)
      · exact ih _ x hx
  have := hmx ((List.range h.size).map rank) 0 (rank i) (List.mem_map.mpr ⟨i, List.mem_range.mpr hi, rfl⟩)
  omega

theorem WF.abs_unique {h : Heap} (hw : WF h) :
    ∃ A, IsAbs h A ∧ (∀ B, IsAbs h B → B = A) ∧ ∃ F, ∀ fuel, F ≤ fuel → ∀ i, i < h.size → absF h fuel i = A i :=
  hw.toWF0.abs_unique

/-! ## paths -/

/-- following the child indexes `p` from object `r` leads to object `x` -/
inductive IsPath (h : Heap) : Nat → List Nat → Nat → Prop
  | nil (r : Nat) : IsPath h r [] r
  | cons {r : Nat} {ks : List Nat} {i k : Nat} {p : List Nat} {x : Nat} :
      (h.obj r).kids = some ks → ks[i]? = some k → IsPath h k p x → IsPath h r (i :: p) x

/-- `x` is `r` or lies below `r` -/
def Reach (h : Heap) (r x : Nat) : Prop := ∃ p, IsPath h r p x

theorem Reach.refl (h : Heap) (r : Nat) : Reach h r r := ⟨[], .nil r⟩

theorem IsPath.append {h : Heap} {r y x : Nat} {p q : List Nat} (h1 : IsPath h r p y) (h2 : IsPath h y q x) :
    IsPath h r (p ++ q) x := by
  induction h1 with
  | nil r => exact h2
  | cons hk hi _ ih => exact .cons hk hi (ih h2)

theorem Reach.trans {h : Heap} {r y x : Nat} (h1 : Reach h r y) (h2 : Reach h y x) : Reach h r x := by
  obtain ⟨p, hp⟩ := h1
  obtain ⟨q, hq⟩ := h2
  exact ⟨_, hp.append hq⟩

theorem Reach.child {h : Heap} {r k : Nat} {ks : List Nat} (hk : (h.obj r).kids = some ks) (hm : k ∈ ks) : Reach h r k := by
  obtain ⟨i, hi⟩ := List.getElem?_of_mem hm
  exact ⟨[i], .cons hk hi (.nil k)⟩

theorem IsPath.snoc {h : Heap} {r par x i : Nat} {p ks : List Nat} (h1 : IsPath h r p par) (hk : (h.obj par).kids = some ks)
    (hi : ks[i]? = some x) : IsPath h r (p ++ [i]) x :=
  h1.append (.cons hk hi (.nil x))

theorem IsPath.nil_inv {h : Heap} {r x : Nat} (h1 : IsPath h r [] x) : r = x := by
  cases h1; rfl

/-- a non-empty path ends with a step from the container of `x` -/
theorem IsPath.snoc_inv {h : Heap} {r x : Nat} {p : List Nat} (h1 : IsPath h r p x) (hne : p ≠ []) :
    ∃ q i par ks, p = q ++ [i] ∧ IsPath h r q par ∧ (h.obj par).kids = some ks ∧ ks[i]? = some x := by
  induction h1 with
  | nil r => exact absurd rfl hne
  | @cons r ks i k p x hk hi hp ih =>
    cases p with
    | nil =>
      have := hp.nil_inv
      subst this
      exact ⟨[], i, r, ks, rfl, .nil r, hk, hi⟩
    | cons j p' =>
      obtain ⟨q, i', par, ks', he, hq, hk', hi'⟩ := ih (by simp)
      exact ⟨i :: q, i', par, ks', by rw [he]; rfl, .cons hk hi hq, hk', hi'⟩

/-- ranks decrease along a path by at least its length -/
theorem IsPath.rank_le {h : Heap} {rank : Nat → Nat} {T : Nat → Text} (hinv : Inv0 h rank T) {r x : Nat} {p : List Nat}
    (h1 : IsPath h r p x) : rank x + p.length ≤ rank r := by
  induction h1 with
  | nil r => simp
  | cons hk hi _ ih =>
    have := hinv.rk _ _ hk _ (List.mem_of_getElem? hi)
    simp only [List.length_cons]
    omega

theorem Reach.rank_le {h : Heap} {rank : Nat → Nat} {T : Nat → Text} (hinv : Inv0 h rank T) {r x : Nat} (h1 : Reach h r x) :
    rank x ≤ rank r := by
  obtain ⟨p, hp⟩ := h1
  have := hp.rank_le hinv
  omega

theorem getElem?_inj_of_nodup {l : List Nat} (hnd : l.Nodup) {i j x : Nat} (hi : l[i]? = some x) (hj : l[j]? = some x) : i = j := by
  obtain ⟨hil, hie⟩ := List.getElem?_eq_some_iff.mp hi
  obtain ⟨hjl, hje⟩ := List.getElem?_eq_some_iff.mp hj
  exact (List.getElem_inj (h₀ := hil) (h₁ := hjl) hnd).mp (hie.trans hje.symm)

/-- **paths are unique** (every object has one container, occurs once in it, and the graph is acyclic) -/
theorem IsPath.unique {h : Heap} {rank : Nat → Nat} {T : Nat → Text} (hinv : Inv0 h rank T) {r : Nat} :
    ∀ (n : Nat) (p q : List Nat) (x : Nat), p.length = n → IsPath h r p x → IsPath h r q x → p = q := by
  intro n
  induction n with
  | zero =>
    intro p q x hn hp hq
    have : p = [] := List.eq_nil_of_length_eq_zero hn
    subst this
    have := hp.nil_inv
    subst this
    cases q with
    | nil => rfl
    | cons j q' =>
      have := hq.rank_le hinv
      simp only [List.length_cons] at this
      omega
  | succ n ih =>
    intro p q x hn hp hq
    have hpne : p ≠ [] := by intro he; rw [he] at hn; simp at hn
    obtain ⟨p0, i, par, ks, he, hp0, hk, hi⟩ := hp.snoc_inv hpne
    cases q with
    | nil =>
      have := hq.nil_inv
      subst this
      have := hp.rank_le hinv
      omega
    | cons j q' =>
      obtain ⟨q0, i', par', ks', he', hq0, hk', hi'⟩ := hq.snoc_inv (by simp)
      have e1 := hinv.par par ks hk x (List.mem_of_getElem? hi)
      have e2 := hinv.par par' ks' hk' x (List.mem_of_getElem? hi')
      rw [e1] at e2
      have hpar : par = par' := Option.some.inj e2
      subst hpar
      rw [hk] at hk'
      have hks : ks = ks' := Option.some.inj hk'
      subst hks
      have hii : i = i' := getElem?_inj_of_nodup (hinv.nodup par ks hk) hi hi'
      subst hii
      have hlen : p0.length = n := by rw [he] at hn; simpa using hn
      have := ih p0 q0 par hlen hp0 hq0
      rw [he, he', this]

theorem IsPath.unique' {h : Heap} {rank : Nat → Nat} {T : Nat → Text} (hinv : Inv0 h rank T) {r x : Nat} {p q : List Nat}
    (hp : IsPath h r p x) (hq : IsPath h r q x) : p = q :=
  IsPath.unique hinv p.length p q x rfl hp hq

/-- the subtrees of two different children of one group are disjoint -/
theorem sibling_not_reach {h : Heap} {rank : Nat → Nat} {T : Nat → Text} (hinv : Inv0 h rank T) {r x i j k k' : Nat} {ks p : List Nat}
    (hk : (h.obj r).kids = some ks) (hi : ks[i]? = some k) (hp : IsPath h k p x) (hj : ks[j]? = some k') (hne : j ≠ i) :
    ¬ Reach h k' x := by
  rintro ⟨q, hq⟩
  have := IsPath.unique' hinv (IsPath.cons hk hi hp) (IsPath.cons hk hj hq)
  injection this with h1 _
  exact hne h1.symm

end Sql.BK

