import SqlProofs.LexDedicated
import SqlModel.Splitter
/-!
# SqlProofs.LexTwoWords — the two-word rule `DOUBLE\s+PRECISION\b` (the one multi-word dictionary key the lexer can produce)

For every casing of the two words, every non-empty run of whitespace characters between them, not right after a `.`, followed by a
non-word character or the end of the text: the scan step yields ONE token of the rule's type `Name.Builtin` covering
`DOUBLE<whitespace>PRECISION` (`double_precision_token`).  The rule is located in the table by content (`double_precision_rule_first`);
the rules before it cannot start at `D`, or are the look-around identifier rules (excluded by a general argument that also covers the
whitespace after `DOUBLE`), or have no derivation on the window `DOUBLE` (computed by `aover`).
-/
namespace Sql

/-- a sequence of classes followed by `k` -/
def litChain : List CpSet → Re → Re
  | [], k => k
  | S :: t, k => .cat (.set S) (litChain t k)

theorem litChain_match (E : Env) : ∀ (sets : List CpSet) (chars : List Cp) (k : Re) (st : St) (tl : List Cp),
    E.s.toList.drop st.pos = chars ++ tl → chars.length = sets.length →
    (∀ pr ∈ sets.zip chars, pr.1.mem pr.2 = true) →
    derivs E (litChain sets k) st = derivs E k ⟨st.pos + chars.length, st.caps⟩ := by
  intro sets
  induction sets with
  | nil =>
    intro chars k st tl _ hl _
    have : chars = [] := List.length_eq_zero_iff.mp hl
    subst this; rfl
  | cons S t ih =>
    intro chars k st tl h hl hm
    cases chars with
    | nil => simp at hl
    | cons x xs =>
      have hx : S.mem x = true := hm (S, x) (by simp)
      rw [litChain, derivs_cat_set_ok E S _ st x _ (by simpa using h) hx]
      have h1 : E.s.toList.drop (st.pos + 1) = xs ++ tl := drop_succ_of_cons _ _ _ _ (by simpa using h)
      rw [ih xs k ⟨st.pos + 1, st.caps⟩ tl h1 (by simpa using hl) (fun pr hpr => hm pr (by simp [hpr]))]
      simp only [List.length_cons]
      congr 2
      omega

/-- `w1 \s+ w2 \b` -/
def twoWordRe (sets1 : List CpSet) (sp : CpSet) (sets2 : List CpSet) : Re :=
  litChain sets1 (.cat (.rep 1 none true (.set sp)) (litChain sets2 .wordB))

theorem rep1_greedy_head (E : Env) (S : CpSet) (x : Cp) (xs tail : List Cp) (st : St)
    (h : E.s.toList.drop st.pos = x :: (xs ++ tail)) (hx : S.mem x = true) (hxs : ∀ y ∈ xs, S.mem y = true)
    (htail : ∀ y, tail.head? = some y → S.mem y = false) :
    ∃ more, derivs E (.rep 1 none true (.set S)) st = ⟨st.pos + 1 + xs.length, st.caps⟩ :: more := by
  have h1 : E.s.toList.drop (st.pos + 1) = xs ++ tail := drop_succ_of_cons _ _ _ _ h
  have hlen := size_of_drop E (st.pos + 1) _ h1
  have hlt := lt_size_of_drop_cons E _ _ _ h
  have hstep : derivs E (.set S) st = [{ st with pos := st.pos + 1 }] := by
    rw [derivs_set_cons E S st x _ h]; simp [hx]
  obtain ⟨more, hm⟩ := greedy_class_head E S tail htail xs ⟨st.pos + 1, st.caps⟩ (E.s.size - st.pos) h1 hxs
    (by simp at hlen; omega)
  rw [derivs_rep, repAux]
  simp only [reduceCtorEq, if_false, hstep, if_true, Nat.one_ne_zero, List.append_nil, Nat.sub_self, Option.map_none]
  have hfil : List.filter (fun st' : St => decide (st.pos < st'.pos)) [{ st with pos := st.pos + 1 }]
      = [{ st with pos := st.pos + 1 }] := by simp
  rw [hfil]
  simp only [List.flatMap_cons, List.flatMap_nil, List.append_nil]
  exact ⟨more, hm⟩

/-- the first derivation of the two-word shape covers `w1`, the whole whitespace run and `w2` -/
theorem twoWord_head (E : Env) (sets1 sets2 : List CpSet) (sp : CpSet) (p : Nat) (w1 ws w2 tail : List Cp)
    (h : E.s.toList.drop p = w1 ++ (ws ++ (w2 ++ tail)))
    (hl1 : w1.length = sets1.length) (hm1 : ∀ pr ∈ sets1.zip w1, pr.1.mem pr.2 = true)
    (hl2 : w2.length = sets2.length) (hm2 : ∀ pr ∈ sets2.zip w2, pr.1.mem pr.2 = true)
    (hws : ws ≠ []) (hsp : ∀ y ∈ ws, sp.mem y = true) (hw2 : ∀ y, w2.head? = some y → sp.mem y = false) (hw2ne : w2 ≠ [])
    (hlast : ∀ y, w2.getLast? = some y → E.word.mem y = true) (htail : ∀ y, tail.head? = some y → E.word.mem y = false) :
    ∃ st more, derivs E (twoWordRe sets1 sp sets2) ⟨p, []⟩ = st :: more ∧
      st.pos = p + w1.length + ws.length + w2.length := by
  rw [twoWordRe, litChain_match E sets1 w1 _ ⟨p, []⟩ _ h hl1 hm1]
  have h1 : E.s.toList.drop (p + w1.length) = ws ++ (w2 ++ tail) := drop_add_of_append _ _ _ _ h
  cases ws with
  | nil => exact absurd rfl hws
  | cons x xs =>
    obtain ⟨more, hm⟩ := rep1_greedy_head E sp x xs (w2 ++ tail) ⟨p + w1.length, []⟩ (by simpa using h1)
      (hsp x (by simp)) (fun y hy => hsp y (by simp [hy])) (by
        intro y hy
        cases w2 with
        | nil => exact absurd rfl hw2ne
        | cons z zs => simp at hy; subst hy; exact hw2 _ rfl)
    have h2 : E.s.toList.drop (p + w1.length + 1 + xs.length) = w2 ++ tail := by
      have := drop_add_of_append _ _ (x :: xs) _ h1
      have e : p + w1.length + 1 + xs.length = p + w1.length + (x :: xs).length := by simp; omega
      rw [e]; exact this
    rw [derivs_cat, hm, List.flatMap_cons,
      litChain_match E sets2 w2 .wordB ⟨p + w1.length + 1 + xs.length, []⟩ tail h2 hl2 hm2]
    -- `\\b` after the second word
    have h3 : E.s.toList.drop (p + w1.length + 1 + xs.length + w2.length) = tail := drop_add_of_append _ _ _ _ h2
    have hb : derivs E .wordB ⟨p + w1.length + 1 + xs.length + w2.length, []⟩
        = [⟨p + w1.length + 1 + xs.length + w2.length, []⟩] := by
      have hw2len : 0 < w2.length := List.length_pos_iff.mpr hw2ne
      have hafter : isWordAt E (p + w1.length + 1 + xs.length + w2.length) = false := by
        unfold isWordAt
        cases htl : tail with
        | nil => rw [get_of_drop_nil E _ (by rw [h3, htl])]
        | cons y t => rw [get_of_drop_cons E _ y t (by rw [h3, htl])]; exact htail y (by rw [htl]; rfl)
      have hbefore : isWordAt E (p + w1.length + 1 + xs.length + w2.length - 1) = true := by
        unfold isWordAt
        have hsplit : w2 = w2.dropLast ++ [w2.getLast hw2ne] := (List.dropLast_concat_getLast hw2ne).symm
        have hg : E.s[p + w1.length + 1 + xs.length + w2.length - 1]? = some (w2.getLast hw2ne) := by
          have hk : p + w1.length + 1 + xs.length + w2.length - 1 = (p + w1.length + 1 + xs.length) + w2.dropLast.length := by
            simp; omega
          rw [hk, getElem?_of_drop E _ _ _ h2, List.getElem?_append_left (by simp; omega)]
          conv => lhs; rw [hsplit]
          simp
        rw [hg]
        exact hlast _ (List.getLast?_eq_some_getLast hw2ne)
      have hpos : p + w1.length + 1 + xs.length + w2.length > 0 := by omega
      simp [derivs, hafter, hbefore, hpos]
    rw [hb]
    exact ⟨_, _, rfl, by simp; omega⟩

/-! ## the table -/

def lt (u : Nat) : CpSet := ⟨[(u, u), (u + 32, u + 32)]⟩

/-- `DOUBLE` and `PRECISION` under IGNORECASE (`I` also matches U+0130/U+0131, `S` also U+017F) -/
def dblSets : List CpSet := [lt 68, lt 79, lt 85, lt 66, lt 76, lt 69]
def precSets : List CpSet :=
  [lt 80, lt 82, lt 69, lt 67, ⟨[(73, 73), (105, 105), (304, 305)]⟩, ⟨[(83, 83), (115, 115), (383, 383)]⟩,
   ⟨[(73, 73), (105, 105), (304, 305)]⟩, lt 79, lt 78]

def dblPrecRule : Rule := ⟨twoWordRe dblSets Gen.spaceSet precSets, .tok T.Builtin⟩

def dblK (w : Text) : WCtx := { w := Array.mk w, excl := [], prevExcl := [cs 46], word := Gen.wordSet }

/-- table obligation: the rule `DOUBLE\\s+PRECISION\\b` with type `Name.Builtin` is in the table, and every rule before it is dead on `D`,
is a look-around identifier rule, or has no derivation on the window `DOUBLE` whatever follows -/
theorem double_precision_rule_first :
    firstWith (fun x => deadOn 68 x || skipShape x.re || aover (dblK (txt "DOUBLE")) x.re 0 == some []) dblPrecRule
      defaultCfg.rules = true := by decide +kernel

theorem dbl_sets_ok :
    ((dblSets.zip (txt "DOUBLE")).all (fun pr => pr.1.mem pr.2) && (precSets.zip (txt "PRECISION")).all (fun pr => pr.1.mem pr.2) &&
      dblSets.all caseClosedSet && precSets.all caseClosedSet) = true := by decide +kernel

theorem zip_mem_case : ∀ (sets : List CpSet) (W w : Text), w.map asciiFold = W.map asciiFold →
    (∀ S ∈ sets, caseClosedSet S = true) → (∀ pr ∈ sets.zip W, pr.1.mem pr.2 = true) →
    ∀ pr ∈ sets.zip w, pr.1.mem pr.2 = true := by
  intro sets
  induction sets with
  | nil => intro W w _ _ _ pr hpr; simp at hpr
  | cons S t ih =>
    intro W w hf hcl hW pr hpr
    cases w with
    | nil => simp at hpr
    | cons x xs =>
      cases W with
      | nil => simp at hf
      | cons X Xs =>
        simp only [List.map_cons, List.cons.injEq] at hf
        simp only [List.zip_cons_cons, List.mem_cons] at hpr
        rcases hpr with rfl | hpr
        · have := hW (S, X) (by simp)
          simp only at this ⊢
          rw [← caseClosedSet_fold S (hcl S (by simp)) x, hf.1, caseClosedSet_fold S (hcl S (by simp))]
          exact this
        · exact ih Xs xs hf.2 (fun S' hS' => hcl S' (by simp [hS'])) (fun pr' hpr' => hW pr' (by simp [hpr'])) pr hpr

theorem aover_dbl_case {w' w : Text} (h : SameFold w' w) : ∀ r : Re, caseClosedRe r = true →
    ∀ off, aover (dblK w') r off = aover (dblK w) r off := by
  have hsz : (dblK w').w.size = (dblK w).w.size := by simp [dblK, h.length]
  have hword : caseClosedSet Gen.wordSet = true := by
    have := wordSets_case_closed; simp only [Bool.and_eq_true] at this; exact this.1
  have hat : ∀ (S : CpSet), caseClosedSet S = true → ∀ off, S.mem ((dblK w').at off) = S.mem ((dblK w).at off) :=
    fun S hS off => mem_at_case h S hS off
  intro r
  induction r with
  | eps => intro _ off; rfl
  | set S =>
    intro hr off
    simp only [aover, aSet, hsz, hat S hr off]
    rfl
  | cat a b iha ihb =>
    intro hr off
    simp only [caseClosedRe, Bool.and_eq_true] at hr
    have hb : aover (dblK w') b = aover (dblK w) b := funext (ihb hr.2)
    simp only [aover, iha hr.1 off, hb]
  | alt a b iha ihb =>
    intro hr off
    simp only [caseClosedRe, Bool.and_eq_true] at hr
    simp only [aover, iha hr.1 off, ihb hr.2 off]
  | rep lo hi g r ih =>
    intro hr off
    have hf : aover (dblK w') r = aover (dblK w) r := funext (ih hr)
    simp only [aover, hf, hsz]
  | grp n r ih => intro hr off; simp only [aover]; exact ih hr off
  | bref n => intro _ off; rfl
  | look a n k r ih =>
    intro hr off
    simp only [aover, ih hr off]
    rfl
  | atEnd => intro _ off; rfl
  | wordB =>
    intro _ off
    simp only [aover, aWordB, hsz]
    have e1 : (dblK w').word = Gen.wordSet := rfl
    have e2 : (dblK w).word = Gen.wordSet := rfl
    rw [e1, e2, hat _ hword (off - 1), hat _ hword off]
    rfl

/-! ## the theorem -/

theorem mem_of_fold (S : CpSet) (hS : caseClosedSet S = true) (a b : Nat) (h : asciiFold a = asciiFold b) : S.mem a = S.mem b := by
  rw [← caseClosedSet_fold S hS a, h, caseClosedSet_fold S hS]

theorem space_facts : (caseClosedSet Gen.spaceSet && !Gen.spaceSet.mem 46 && !Gen.spaceSet.mem 40 && !Gen.spaceSet.mem 80 &&
    Gen.wordSet.mem 78) = true := by decide +kernel

theorem space_not_word (y : Nat) (h : Gen.spaceSet.mem y = true) : wordTailSet.mem y = false := by
  cases ht : wordTailSet.mem y with
  | false => rfl
  | true => exact absurd h (by rw [(plain_of_tail y ht).1]; simp)

/-- `\s*\.` fails in front of a whitespace run that is followed by a character that is neither whitespace nor `.` -/
theorem lookDot_fails_ws (E : Env) (st : St) (ws : List Cp) (y : Cp) (tl : List Cp)
    (h : E.s.toList.drop st.pos = ws ++ y :: tl) (hsp : ∀ z ∈ ws, Gen.spaceSet.mem z = true)
    (hy1 : Gen.spaceSet.mem y = false) (hy2 : y ≠ 46) : derivs E lookDotRe st = [] := by
  have hq : E.s[st.pos + ws.length]? = some y := by
    rw [getElem?_of_drop E st.pos ws.length _ h, List.getElem?_append_right (Nat.le_refl _)]; simp
  rw [lookDotRe, derivs_cat, List.flatMap_eq_nil_iff]
  intro mid hmid
  rw [derivs_rep] at hmid
  have hle := rep_set_range E Gen.spaceSet true (st.pos + ws.length) y hq hy1 _ _ _ st mid (by omega) hmid
  have hsize : st.pos ≤ E.s.size := by
    have := (Array.getElem?_eq_some_iff.mp hq).1; omega
  have hge := (repAux_bound (derivs E (.set Gen.spaceSet)) true 0 E.s.size (by
    intro a b ha hb
    have := derivs_bound E (.set Gen.spaceSet) a b ha hb
    simp [minW] at this ⊢; omega) _ 0 none st mid hsize hmid).1
  apply derivs_set_none
  intro c hc
  have hk : mid.pos = st.pos + (mid.pos - st.pos) := by omega
  rw [hk, getElem?_of_drop E st.pos _ _ h] at hc
  by_cases hlt : mid.pos - st.pos < ws.length
  · rw [List.getElem?_append_left hlt] at hc
    have hcm : c ∈ ws := List.mem_of_getElem? hc
    have := hsp c hcm
    have h46 := space_facts
    simp only [Bool.and_eq_true, Bool.not_eq_true'] at h46
    exact memF (cs_mem 46 c) (by intro e; rw [e, h46.1.1.1.2] at this; exact absurd this (by simp))
  · have he : mid.pos - st.pos = ws.length := by omega
    rw [he, List.getElem?_append_right (Nat.le_refl _)] at hc
    simp at hc
    subst hc
    exact memF (cs_mem 46 _) hy2

theorem getLast?_of_map_eq {w W : Text} (h : w.map asciiFold = W.map asciiFold) (y : Cp) (hy : w.getLast? = some y) :
    ∃ Y, W.getLast? = some Y ∧ asciiFold y = asciiFold Y := by
  have := congrArg List.getLast? h
  rw [List.getLast?_map, List.getLast?_map, hy] at this
  cases hW : W.getLast? with
  | none => rw [hW] at this; simp at this
  | some Y => rw [hW] at this; simp at this; exact ⟨Y, rfl, this⟩

/-- **`DOUBLE PRECISION` is one token.**  For every text, every position `p` not right after a `.`: if the text at `p` reads
`w1 ws w2 tail` with `w1`, `w2` spellings of `DOUBLE`, `PRECISION` up to ASCII case, `ws` a non-empty run of `str.isspace` characters, and
`tail` empty or starting with a non-word character (the rule's `\b`), then the scan step yields one `Name.Builtin` token covering
`w1 ws w2` — the dedicated rule's type, not the dictionary's `Keyword`. -/
theorem double_precision_token (s : Array Cp) (p : Nat) (pre w1 ws w2 tail : List Cp)
    (h : s.toList = pre ++ w1 ++ ws ++ w2 ++ tail) (hp : pre.length = p) (hprev : pre.getLast? ≠ some 46)
    (hw1 : w1.map asciiFold = (txt "DOUBLE").map asciiFold) (hw2 : w2.map asciiFold = (txt "PRECISION").map asciiFold)
    (hws : ws ≠ []) (hsp : ∀ y ∈ ws, isSpace y = true)
    (htail : ∀ y, tail.head? = some y → Gen.wordSet.mem y = false) :
    firstMatch (defaultCfg.env s) defaultCfg.rules p = some (.tok T.Builtin, p + w1.length + ws.length + w2.length) := by
  have hsf := space_facts
  simp only [Bool.and_eq_true, Bool.not_eq_true'] at hsf
  obtain ⟨⟨⟨⟨hspcl, hsp46⟩, hsp40⟩, hsp80⟩, hw78⟩ := hsf
  have hcl := wordSets_case_closed
  simp only [Bool.and_eq_true] at hcl
  have h0 : (defaultCfg.env s).s.toList.drop p = w1 ++ (ws ++ (w2 ++ tail)) :=
    sfx_of_split s pre _ p (by simpa using h) hp
  have hword : (defaultCfg.env s).word = Gen.wordSet := by simp [LexCfg.env, defaultCfg]
  have hsets := dbl_sets_ok
  simp only [Bool.and_eq_true, List.all_eq_true] at hsets
  obtain ⟨⟨⟨hz1, hz2⟩, hc1⟩, hc2⟩ := hsets
  have hl1 : w1.length = 6 := SameFold.length hw1
  have hl2 : w2.length = 9 := SameFold.length hw2
  -- shapes of the three parts
  cases w1 with
  | nil => simp at hl1
  | cons c0 run =>
  cases ws with
  | nil => exact absurd rfl hws
  | cons x xs =>
  cases w2 with
  | nil => simp at hl2
  | cons y0 ys =>
  have hD : txt "DOUBLE" = [68, 79, 85, 66, 76, 69] := by decide
  have hP : txt "PRECISION" = [80, 82, 69, 67, 73, 83, 73, 79, 78] := by decide
  have hfold0 : asciiFold c0 = asciiFold 68 := by
    have := hw1; rw [hD] at this
    simp only [List.map_cons, List.cons.injEq] at this; exact this.1
  have hfy0 : asciiFold y0 = asciiFold 80 := by
    have := hw2; rw [hP] at this
    simp only [List.map_cons, List.cons.injEq] at this; exact this.1
  have hshape : wordShape (c0 :: run) = true := by
    rw [wordShape_case (w' := c0 :: run) (w := txt "DOUBLE") hw1]; decide +kernel
  simp only [wordShape, Bool.and_eq_true, List.all_eq_true] at hshape
  have hxsp : Gen.spaceSet.mem x = true := hsp x (by simp)
  have hy0sp : Gen.spaceSet.mem y0 = false := by rw [mem_of_fold _ hspcl y0 80 hfy0]; exact hsp80
  have hy046 : y0 ≠ 46 := by
    intro e; rw [e] at hfy0; revert hfy0; decide
  have hg0 := get_of_drop_cons (defaultCfg.env s) p c0 _ (by simpa using h0)
  have hn : (defaultCfg.env s).s[p + (run.length + 1)]? = some x := by
    rw [getElem?_of_drop _ p _ _ h0, List.getElem?_append_right (by simp)]; simp
  have hWx : Gen.wordSet.mem x = false :=
    CpSet.subsetOf_sound _ _ wordSet_sub_tail x (space_not_word x hxsp)
  have hprev' : p = 0 ∨ ∃ d, (defaultCfg.env s).s[p - 1]? = some d ∧ (cs 46).mem d = false := by
    cases hl : pre.getLast? with
    | none =>
      left
      have : pre = [] := by simpa using hl
      rw [← hp, this]; rfl
    | some d =>
      right
      obtain ⟨zs, hzs⟩ := List.getLast?_eq_some_iff.mp hl
      refine ⟨d, ?_, memF (cs_mem 46 d) (by intro e; rw [hl, e] at hprev; exact hprev rfl)⟩
      show s[p - 1]? = some d
      have hp1 : p - 1 = zs.length := by rw [← hp, hzs]; simp
      rw [hp1, ← Array.getElem?_toList, h, hzs]
      simp
  -- the look-aheads of the identifier rules fail at every position after the first character up to the first blank
  have hLfail : ∀ (L : Re), (∀ z, Plain z → start z L = .dead) →
      (derivs (defaultCfg.env s) L ⟨p + (run.length + 1), []⟩ = [] ∧
        ∀ caps, derivs (defaultCfg.env s) L ⟨p + (run.length + 1), caps⟩ = []) →
      ∀ st : St, p < st.pos → st.pos ≤ p + (run.length + 1) → derivs (defaultCfg.env s) L st = [] := by
    intro L hL hLend st h1 h2
    by_cases he : st.pos = p + (run.length + 1)
    · have : st = ⟨p + (run.length + 1), st.caps⟩ := by cases st; simp_all
      rw [this]; exact hLend.2 _
    · obtain ⟨k, hk⟩ : ∃ k, st.pos = p + (k + 1) := ⟨st.pos - p - 1, by omega⟩
      have hk' : k < run.length := by omega
      have hx : (defaultCfg.env s).s[st.pos]? = some run[k] := by
        rw [hk, getElem?_of_drop _ p (k + 1) _ h0]
        simp only [List.cons_append, List.getElem?_cons_succ]
        rw [List.getElem?_append_left hk']; simp
      have := start_sound (defaultCfg.env s) run[k] L
      rw [hL _ (plain_of_tail _ (hshape.2 _ (List.getElem_mem hk')))] at this
      exact this st hx
  have hdot : ∀ caps, derivs (defaultCfg.env s) lookDotRe ⟨p + (run.length + 1), caps⟩ = [] := by
    intro caps
    refine lookDot_fails_ws _ ⟨p + (run.length + 1), caps⟩ (x :: xs) y0 (ys ++ tail) ?_ (fun z hz => hsp z hz) hy0sp hy046
    have := drop_add_of_append _ p (c0 :: run) _ h0
    simpa using this
  have hparen : ∀ caps, derivs (defaultCfg.env s) lookParenRe ⟨p + (run.length + 1), caps⟩ = [] := by
    intro caps
    have hx40 : (cs 40).mem x = false :=
      memF (cs_mem 40 x) (by intro e; rw [e, hsp40] at hxsp; exact absurd hxsp (by simp))
    have := start_sound (defaultCfg.env s) x lookParenRe
    have hd : start x lookParenRe = .dead := by simp [lookParenRe, start, hx40]
    rw [hd] at this
    exact this ⟨_, caps⟩ hn
  -- rules before the two-word rule
  obtain ⟨front, back, hrules, hfront⟩ := firstWith_spec _ _ _ double_precision_rule_first
  have hclosed : ∀ r ∈ front, caseClosedRe r.re = true := by
    intro r hr
    have := rules_case_closed
    simp only [List.all_eq_true] at this
    exact this r (by rw [hrules]; simp [hr])
  have hpre : ∀ r ∈ front, derivs (defaultCfg.env s) r.re ⟨p, []⟩ = [] := by
    intro r hr
    have := hfront r hr
    simp only [Bool.or_eq_true, beq_iff_eq] at this
    rcases this with (hd | hs) | ha
    · have : start c0 r.re = .dead := by
        rw [start_case 68 c0 hfold0 r.re (hclosed r hr)]; simpa [deadOn] using hd
      exact dead_at _ c0 _ this p hg0
    · simp only [skipShape, Bool.or_eq_true] at hs
      rcases hs with hs | hs
      · obtain ⟨A, L, hre, hL⟩ := identLookShape_inv _ hs
        rw [hre]
        rcases hL with rfl | rfl
        · exact identLook_dead _ _ _ _ p (run.length + 1) x hn hWx (by omega)
            (hLfail _ start_L18 ⟨hdot [], hdot⟩)
        · exact identLook_dead _ _ _ _ p (run.length + 1) x hn hWx (by omega)
            (hLfail _ start_L20 ⟨hparen [], hparen⟩)
      · obtain ⟨X, hre⟩ := behindDotShape_inv _ hs
        rw [hre, derivs_cat, look_behind_fail _ _ ⟨p, []⟩ hprev']
        rfl
    · have ha' : aover (dblK (c0 :: run)) r.re 0 = some [] := by
        rw [aover_dbl_case (w' := c0 :: run) (w := txt "DOUBLE") hw1 r.re (hclosed r hr) 0]; exact ha
      have H : WSound (dblK (c0 :: run)) (defaultCfg.env s) p x := by
        refine ⟨⟨xs ++ (y0 :: ys ++ tail), by simpa [dblK] using h0⟩, by intro X hX; simp [dblK] at hX, ?_, hword⟩
        rcases hprev' with h' | ⟨d, hd, hm⟩
        · exact Or.inl h'
        · refine Or.inr ⟨d, hd, ?_⟩
          intro X hX
          simp only [dblK, List.mem_cons, List.not_mem_nil, or_false] at hX
          subst hX; exact hm
      have := aover_sound _ _ p x H r.re 0 [] ha' ⟨p, []⟩ rfl
      cases hd : derivs (defaultCfg.env s) r.re ⟨p, []⟩ with
      | nil => rfl
      | cons z t =>
        obtain ⟨o, ho, _⟩ := this z (by rw [hd]; simp)
        simp at ho
  -- the rule itself
  obtain ⟨st, more, hd, hpos⟩ := twoWord_head (defaultCfg.env s) dblSets precSets Gen.spaceSet p (c0 :: run) (x :: xs) (y0 :: ys) tail
    h0 (by rw [hl1]; rfl)
    (zip_mem_case dblSets (txt "DOUBLE") (c0 :: run) hw1 hc1 (fun pr hpr => hz1 pr hpr))
    (by rw [hl2]; rfl)
    (zip_mem_case precSets (txt "PRECISION") (y0 :: ys) hw2 hc2 (fun pr hpr => hz2 pr hpr))
    (by simp) (fun z hz => hsp z hz) (by intro z hz; simp at hz; subst hz; exact hy0sp) (by simp)
    (by
      intro z hz
      obtain ⟨Z, hZ, hfz⟩ := getLast?_of_map_eq hw2 z hz
      have hZ78 : Z = 78 := by
        have : (txt "PRECISION").getLast? = some 78 := by decide
        rw [this] at hZ; injection hZ with hZ; exact hZ.symm
      rw [hword, mem_of_fold _ hcl.1 z Z hfz, hZ78]; exact hw78)
    (by intro z hz; rw [hword]; exact htail z hz)
  rw [hrules, firstMatch_split _ _ dblPrecRule back p hpre st more hd, hpos]
  rfl

end Sql
