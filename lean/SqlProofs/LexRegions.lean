import SqlModel.Default
import SqlProofs.Lex.Start
import SqlProofs.Lex.Comments
/-!
# SqlProofs.LexRegions — an opaque region is one token

For each region kind the generated rule is pinned to a parametric template by a definitional equation
(`Gen.reN = template literal-classes`, so a change of the regular expression in the source breaks the proof),
every earlier rule of the generated table is shown unable to match at the opener (by computation of `start`
over the table, plus a direct argument for the hint rules that share the opener), and the closed form of the
template gives the end of the first derivation.
-/
namespace Sql

/-! ## templates of the comment rules -/

/-- `/\*[\s\S]*?\*/` -/
def blockRe : Re :=
  .cat (.set (cs 47)) (.cat (.set (cs 42)) (.cat (.rep 0 none false (.set csAll)) (.cat (.set (cs 42)) (.set (cs 47)))))
/-- `/\*\+[\s\S]*?\*/` -/
def blockHintRe : Re :=
  .cat (.set (cs 47)) (.cat (.set (cs 42)) (.cat (.set (cs 43))
    (.cat (.rep 0 none false (.set csAll)) (.cat (.set (cs 42)) (.set (cs 47))))))
/-- `(--|# )` -/
def lineOpenRe : Re := .grp 1 (.alt (.cat (.set (cs 45)) (.set (cs 45))) (.cat (.set (cs 35)) (.set (cs 32))))
/-- `(--|# ).*?(\r\n|\r|\n|$)` -/
def lineRe : Re := .cat lineOpenRe (.cat (.rep 0 none false (.set csDot)) (eolRe 2 (cs 13) (cs 10)))
/-- `(--|# )\+.*?(\r\n|\r|\n|$)` -/
def lineHintRe : Re :=
  .cat lineOpenRe (.cat (.set (cs 43)) (.cat (.rep 0 none false (.set csDot)) (eolRe 2 (cs 13) (cs 10))))

/-! ## the generated rules are instances of the templates -/

theorem re0_eq : Gen.re0 = lineHintRe := rfl
theorem re1_eq : Gen.re1 = blockHintRe := rfl
theorem re2_eq : Gen.re2 = lineRe := rfl
theorem re3_eq : Gen.re3 = blockRe := rfl
theorem re9_eq : Gen.re9 = nameRe 1 (cs 96) (csNot 96) := rfl
theorem re10_eq : Gen.re10 = nameRe 1 (cs 180) (csNot 180) := rfl
theorem re25_eq : Gen.re25 = strRe 1 (cs 39) (cs 92) (csNot 39) := rfl
theorem re26_eq : Gen.re26 = strRe 1 (cs 34) (cs 92) (csNot 34) := rfl

/-! ## no earlier rule can start at the opener (computed over the generated table) -/

theorem dead_before_backtick : ((Gen.rules.take 9).all fun r => start 96 r.re == .dead) = true := by decide +kernel
theorem dead_before_acute : ((Gen.rules.take 10).all fun r => start 180 r.re == .dead) = true := by decide +kernel
theorem dead_before_squote : ((Gen.rules.take 25).all fun r => start 39 r.re == .dead) = true := by decide +kernel
theorem dead_before_dquote : ((Gen.rules.take 26).all fun r => start 34 r.re == .dead) = true := by decide +kernel
theorem dead_slash : (start 47 Gen.re0 == .dead && start 47 Gen.re2 == .dead) = true := by decide +kernel
theorem dead_dash_hash : (start 45 Gen.re1 == .dead && start 35 Gen.re1 == .dead) = true := by decide +kernel

theorem dead_at (E : Env) (c : Cp) (r : Re) (h : start c r = .dead) (p : Nat) (hc : E.s[p]? = some c) :
    derivs E r ⟨p, []⟩ = [] := by
  have := start_sound E c r
  rw [h] at this
  exact this ⟨p, []⟩ hc

/-! ## reading the subject -/

theorem sfx_of_split (s : Array Cp) (pre l : List Cp) (p : Nat) (h : s.toList = pre ++ l) (hp : pre.length = p) :
    (defaultCfg.env s).s.toList.drop p = l := by
  show s.toList.drop p = l
  rw [h, ← hp]; simp

/-! ## quoted strings and names -/

theorem quoted_token (s : Array Cp) (p : Nat) (pre body rest : List Cp) (qc : Nat) (i : Nat) (r : Rule) (post : List Rule)
    (noBs : Bool) (hsplit : defaultCfg.rules = Gen.rules.take i ++ r :: post)
    (hdead : ((Gen.rules.take i).all fun r => start qc r.re == .dead) = true)
    (hhead : ∀ E : Env, E.s.toList.drop p = qc :: (body ++ qc :: rest) → QBody qc noBs body → rest.head? ≠ some qc →
      ∃ st more, derivs E r.re ⟨p, []⟩ = st :: more ∧ st.pos = p + 1 + body.length + 1)
    (h : s.toList = pre ++ [qc] ++ body ++ [qc] ++ rest) (hp : pre.length = p)
    (hb : QBody qc noBs body) (hr : rest.head? ≠ some qc) :
    firstMatch (defaultCfg.env s) defaultCfg.rules p = some (r.act, p + 1 + body.length + 1) := by
  have h0 : (defaultCfg.env s).s.toList.drop p = qc :: (body ++ qc :: rest) :=
    sfx_of_split s pre _ p (by simpa using h) hp
  obtain ⟨st, more, hd, hpos⟩ := hhead _ h0 hb hr
  have hpre := no_match_of_start (defaultCfg.env s) qc (Gen.rules.take i) hdead p (get_of_drop_cons _ _ _ _ h0)
  rw [hsplit, firstMatch_split _ _ r post p hpre st more hd, hpos]

/-- `'body'` -/
theorem single_quoted_token (s : Array Cp) (p : Nat) (pre body rest : List Cp)
    (h : s.toList = pre ++ [39] ++ body ++ [39] ++ rest) (hp : pre.length = p)
    (hb : QBody 39 true body) (hr : rest.head? ≠ some 39) :
    firstMatch (defaultCfg.env s) defaultCfg.rules p = some (.tok T.StringSingle, p + 1 + body.length + 1) :=
  quoted_token s p pre body rest 39 25 Gen.rule25 (Gen.rules.drop 26) true rfl dead_before_squote
    (fun E h0 hb hr => strRe_head E 1 39 _ _ _ (quoteSets 39 (by decide)) (cs_mem 92) (by decide) p body rest h0 hb hr)
    h hp hb hr

/-- `"body"` -/
theorem double_quoted_token (s : Array Cp) (p : Nat) (pre body rest : List Cp)
    (h : s.toList = pre ++ [34] ++ body ++ [34] ++ rest) (hp : pre.length = p)
    (hb : QBody 34 true body) (hr : rest.head? ≠ some 34) :
    firstMatch (defaultCfg.env s) defaultCfg.rules p = some (.tok T.StringSymbol, p + 1 + body.length + 1) :=
  quoted_token s p pre body rest 34 26 Gen.rule26 (Gen.rules.drop 27) true rfl dead_before_dquote
    (fun E h0 hb hr => strRe_head E 1 34 _ _ _ (quoteSets 34 (by decide)) (cs_mem 92) (by decide) p body rest h0 hb hr)
    h hp hb hr

/-- `` `body` `` -/
theorem backtick_name_token (s : Array Cp) (p : Nat) (pre body rest : List Cp)
    (h : s.toList = pre ++ [96] ++ body ++ [96] ++ rest) (hp : pre.length = p)
    (hb : QBody 96 false body) (hr : rest.head? ≠ some 96) :
    firstMatch (defaultCfg.env s) defaultCfg.rules p = some (.tok T.Name, p + 1 + body.length + 1) :=
  quoted_token s p pre body rest 96 9 Gen.rule9 (Gen.rules.drop 10) false rfl dead_before_backtick
    (fun E h0 hb hr => nameRe_head E 1 96 _ _ (quoteSets 96 (by decide)) p body rest h0 hb hr)
    h hp hb hr

/-- `´body´` -/
theorem acute_name_token (s : Array Cp) (p : Nat) (pre body rest : List Cp)
    (h : s.toList = pre ++ [180] ++ body ++ [180] ++ rest) (hp : pre.length = p)
    (hb : QBody 180 false body) (hr : rest.head? ≠ some 180) :
    firstMatch (defaultCfg.env s) defaultCfg.rules p = some (.tok T.Name, p + 1 + body.length + 1) :=
  quoted_token s p pre body rest 180 10 Gen.rule10 (Gen.rules.drop 11) false rfl dead_before_acute
    (fun E h0 hb hr => nameRe_head E 1 180 _ _ (quoteSets 180 (by decide)) p body rest h0 hb hr)
    h hp hb hr

/-! ## block comments -/

theorem c42 : (cs 42).mem 42 = true := (cs_mem 42 42).2 rfl
theorem c47 : (cs 47).mem 47 = true := (cs_mem 47 47).2 rfl
theorem c43 : (cs 43).mem 43 = true := (cs_mem 43 43).2 rfl

/-- `/*body*/` where `body` does not start with `+` -/
theorem block_comment_token (s : Array Cp) (p : Nat) (pre body rest : List Cp)
    (h : s.toList = pre ++ [47, 42] ++ body ++ [42, 47] ++ rest) (hp : pre.length = p)
    (hplus : body.head? ≠ some 43) (hno : ¬ [42, 47] <:+: body) (hle : ∀ c ∈ body, c ≤ 1114111) :
    firstMatch (defaultCfg.env s) defaultCfg.rules p = some (.tok T.CommentMultiline, p + 2 + body.length + 2) := by
  have h0 : (defaultCfg.env s).s.toList.drop p = 47 :: 42 :: (body ++ 42 :: 47 :: rest) :=
    sfx_of_split s pre _ p (by simpa using h) hp
  have h1 := drop_succ_of_cons _ _ _ _ h0
  have h2 := drop_succ_of_cons _ _ _ _ h1
  have hc := get_of_drop_cons _ _ _ _ h0
  obtain ⟨more, hm⟩ := lazy_close2_head (defaultCfg.env s) csAll (cs 42) (cs 47) 42 47 (cs_mem 42) (cs_mem 47) csAll_mem
    (by decide) body rest ⟨p + 2, []⟩ h2 hle hno
  have hr3 : derivs (defaultCfg.env s) Gen.rule3.re ⟨p, []⟩ = ⟨p + 2 + body.length + 2, []⟩ :: more := by
    show derivs _ Gen.re3 _ = _
    rw [re3_eq, blockRe, derivs_cat_set_ok _ _ _ _ 47 _ h0 c47, derivs_cat_set_ok _ _ _ _ 42 _ h1 c42]
    exact hm
  have hpre : ∀ x ∈ Gen.rules.take 3, derivs (defaultCfg.env s) x.re ⟨p, []⟩ = [] := by
    intro x hx
    have h3 : Gen.rules.take 3 = [Gen.rule0, Gen.rule1, Gen.rule2] := rfl
    rw [h3] at hx
    have hd := dead_slash
    simp only [Bool.and_eq_true, beq_iff_eq] at hd
    simp only [List.mem_cons, List.not_mem_nil, or_false] at hx
    rcases hx with rfl | rfl | rfl
    · exact dead_at _ 47 _ hd.1 p hc
    · show derivs _ Gen.re1 _ = _
      rw [re1_eq, blockHintRe, derivs_cat_set_ok _ _ _ _ 47 _ h0 c47, derivs_cat_set_ok _ _ _ _ 42 _ h1 c42]
      cases body with
      | nil => exact derivs_cat_set_fail _ _ _ _ 42 _ h2 (memF (cs_mem 43 42) (by decide))
      | cons c t =>
        exact derivs_cat_set_fail _ _ _ _ c _ h2 (memF (cs_mem 43 c) (by intro hc; subst hc; exact hplus rfl))
    · exact dead_at _ 47 _ hd.2 p hc
  have hsplit : defaultCfg.rules = Gen.rules.take 3 ++ Gen.rule3 :: Gen.rules.drop 4 := rfl
  rw [hsplit, firstMatch_split _ _ Gen.rule3 _ p hpre _ more hr3]
  rfl

/-- `/*+body*/` -/
theorem block_hint_token (s : Array Cp) (p : Nat) (pre body rest : List Cp)
    (h : s.toList = pre ++ [47, 42, 43] ++ body ++ [42, 47] ++ rest) (hp : pre.length = p)
    (hno : ¬ [42, 47] <:+: body) (hle : ∀ c ∈ body, c ≤ 1114111) :
    firstMatch (defaultCfg.env s) defaultCfg.rules p
      = some (.tok ["Comment", "Multiline", "Hint"], p + 3 + body.length + 2) := by
  have h0 : (defaultCfg.env s).s.toList.drop p = 47 :: 42 :: 43 :: (body ++ 42 :: 47 :: rest) :=
    sfx_of_split s pre _ p (by simpa using h) hp
  have h1 := drop_succ_of_cons _ _ _ _ h0
  have h2 := drop_succ_of_cons _ _ _ _ h1
  have h3 := drop_succ_of_cons _ _ _ _ h2
  have hc := get_of_drop_cons _ _ _ _ h0
  obtain ⟨more, hm⟩ := lazy_close2_head (defaultCfg.env s) csAll (cs 42) (cs 47) 42 47 (cs_mem 42) (cs_mem 47) csAll_mem
    (by decide) body rest ⟨p + 3, []⟩ h3 hle hno
  have hr1 : derivs (defaultCfg.env s) Gen.rule1.re ⟨p, []⟩ = ⟨p + 3 + body.length + 2, []⟩ :: more := by
    show derivs _ Gen.re1 _ = _
    rw [re1_eq, blockHintRe, derivs_cat_set_ok _ _ _ _ 47 _ h0 c47, derivs_cat_set_ok _ _ _ _ 42 _ h1 c42,
      derivs_cat_set_ok _ _ _ _ 43 _ h2 c43]
    exact hm
  have hpre : ∀ x ∈ Gen.rules.take 1, derivs (defaultCfg.env s) x.re ⟨p, []⟩ = [] := by
    intro x hx
    have h3 : Gen.rules.take 1 = [Gen.rule0] := rfl
    rw [h3] at hx
    have hd := dead_slash
    simp only [Bool.and_eq_true, beq_iff_eq] at hd
    simp only [List.mem_cons, List.not_mem_nil, or_false] at hx
    subst hx
    exact dead_at _ 47 _ hd.1 p hc
  have hsplit : defaultCfg.rules = Gen.rules.take 1 ++ Gen.rule1 :: Gen.rules.drop 2 := rfl
  rw [hsplit, firstMatch_split _ _ Gen.rule1 _ p hpre _ more hr1]
  rfl

/-! ## line comments -/

/-- the two spellings of the line-comment opener: `--` and `# ` -/
def LineOpen (op : List Cp) : Prop := op = [45, 45] ∨ op = [35, 32]

theorem line_open (E : Env) (p : Nat) (op t : List Cp) (hop : LineOpen op) (h0 : E.s.toList.drop p = op ++ t) :
    derivs E lineOpenRe ⟨p, []⟩ = [⟨p + 2, [(1, p, p + 2)]⟩] := by
  rcases hop with rfl | rfl
  · have h0' : E.s.toList.drop p = 45 :: 45 :: t := by simpa using h0
    have h1 := drop_succ_of_cons _ _ _ _ h0'
    simp only [lineOpenRe, derivs_grp, derivs_alt, derivs_cat, derivs_set_cons E _ ⟨p, []⟩ 45 _ h0',
      (cs_mem 45 45).2 rfl, memF (cs_mem 35 45) (by decide), if_true, Bool.false_eq_true, if_false,
      List.flatMap_cons, List.flatMap_nil, List.append_nil, derivs_set_cons E _ ⟨p + 1, []⟩ 45 _ h1,
      List.map_cons, List.map_nil]
  · have h0' : E.s.toList.drop p = 35 :: 32 :: t := by simpa using h0
    have h1 := drop_succ_of_cons _ _ _ _ h0'
    simp only [lineOpenRe, derivs_grp, derivs_alt, derivs_cat, derivs_set_cons E _ ⟨p, []⟩ 35 _ h0',
      (cs_mem 35 35).2 rfl, memF (cs_mem 45 35) (by decide), if_true, Bool.false_eq_true, if_false,
      List.flatMap_cons, List.flatMap_nil, List.append_nil, List.nil_append, derivs_set_cons E _ ⟨p + 1, []⟩ 32 _ h1,
      (cs_mem 32 32).2 rfl, List.map_cons, List.map_nil]

theorem lineOpen_first (E : Env) (p : Nat) (op t : List Cp) (hop : LineOpen op) (h0 : E.s.toList.drop p = op ++ t) :
    E.s[p]? = some 45 ∨ E.s[p]? = some 35 := by
  rcases hop with rfl | rfl
  · exact Or.inl (get_of_drop_cons E p 45 (45 :: t) (by simpa using h0))
  · exact Or.inr (get_of_drop_cons E p 35 (32 :: t) (by simpa using h0))

theorem lineOpen_length (op : List Cp) (hop : LineOpen op) : op.length = 2 := by
  rcases hop with rfl | rfl <;> rfl

/-- `--body EOL` / `# body EOL` where `body` does not start with `+` -/
theorem line_comment_token (s : Array Cp) (p : Nat) (pre op body close rest : List Cp) (hop : LineOpen op)
    (h : s.toList = pre ++ op ++ body ++ close ++ rest) (hp : pre.length = p)
    (hplus : body.head? ≠ some 43) (hbody : ∀ c ∈ body, c ≠ 13 ∧ c ≠ 10 ∧ c ≤ 1114111) (hctx : EolCtx close rest) :
    firstMatch (defaultCfg.env s) defaultCfg.rules p
      = some (.tok T.CommentSingle, p + 2 + body.length + close.length) := by
  have h0 : (defaultCfg.env s).s.toList.drop p = op ++ (body ++ (close ++ rest)) :=
    sfx_of_split s pre _ p (by simpa using h) hp
  have h2 : (defaultCfg.env s).s.toList.drop (p + 2) = body ++ (close ++ rest) := by
    have := drop_add_of_append _ _ _ _ h0
    rwa [lineOpen_length op hop] at this
  have hsz : p + 2 ≤ (defaultCfg.env s).s.size := by
    have := size_of_drop _ _ _ h0
    simp [lineOpen_length op hop] at this; omega
  have hopen := line_open _ p op _ hop h0
  obtain ⟨st', more, hd, hpos⟩ := line_tail_head (defaultCfg.env s) 2 csDot (cs 13) (cs 10) csDot_mem (cs_mem 13) (cs_mem 10)
    body close rest ⟨p + 2, [(1, p, p + 2)]⟩ h2 hbody hctx hsz
  have hr2 : derivs (defaultCfg.env s) Gen.rule2.re ⟨p, []⟩ = st' :: more := by
    show derivs _ Gen.re2 _ = _
    rw [re2_eq, lineRe, derivs_cat, hopen]
    simp only [List.flatMap_cons, List.flatMap_nil, List.append_nil]
    exact hd
  have hpre : ∀ x ∈ Gen.rules.take 2, derivs (defaultCfg.env s) x.re ⟨p, []⟩ = [] := by
    intro x hx
    have h3 : Gen.rules.take 2 = [Gen.rule0, Gen.rule1] := rfl
    rw [h3] at hx
    have hd := dead_dash_hash
    simp only [Bool.and_eq_true, beq_iff_eq] at hd
    simp only [List.mem_cons, List.not_mem_nil, or_false] at hx
    rcases hx with rfl | rfl
    · show derivs _ Gen.re0 _ = _
      rw [re0_eq, lineHintRe, derivs_cat, hopen]
      simp only [List.flatMap_cons, List.flatMap_nil, List.append_nil]
      -- the character after the opener is not `+`
      cases body with
      | nil =>
        rcases hctx with rfl | ⟨rfl, _⟩ | rfl | ⟨rfl, rfl⟩
        · exact derivs_cat_set_fail _ _ _ _ 13 _ (by simpa using h2) (memF (cs_mem 43 13) (by decide))
        · exact derivs_cat_set_fail _ _ _ _ 13 _ (by simpa using h2) (memF (cs_mem 43 13) (by decide))
        · exact derivs_cat_set_fail _ _ _ _ 10 _ (by simpa using h2) (memF (cs_mem 43 10) (by decide))
        · rw [derivs_cat, derivs_set_nil _ _ _ (by simpa using h2)]; rfl
      | cons c t =>
        exact derivs_cat_set_fail _ _ _ _ c _ (by simpa using h2)
          (memF (cs_mem 43 c) (by intro hc; subst hc; exact hplus rfl))
    · rcases lineOpen_first _ p op _ hop h0 with hc | hc
      · exact dead_at _ 45 _ hd.1 p hc
      · exact dead_at _ 35 _ hd.2 p hc
  have hsplit : defaultCfg.rules = Gen.rules.take 2 ++ Gen.rule2 :: Gen.rules.drop 3 := rfl
  rw [hsplit, firstMatch_split _ _ Gen.rule2 _ p hpre st' more hr2, hpos]
  rfl

/-- `--+body EOL` / `# +body EOL` -/
theorem line_hint_token (s : Array Cp) (p : Nat) (pre op body close rest : List Cp) (hop : LineOpen op)
    (h : s.toList = pre ++ op ++ [43] ++ body ++ close ++ rest) (hp : pre.length = p)
    (hbody : ∀ c ∈ body, c ≠ 13 ∧ c ≠ 10 ∧ c ≤ 1114111) (hctx : EolCtx close rest) :
    firstMatch (defaultCfg.env s) defaultCfg.rules p
      = some (.tok ["Comment", "Single", "Hint"], p + 3 + body.length + close.length) := by
  have h0 : (defaultCfg.env s).s.toList.drop p = op ++ (43 :: (body ++ (close ++ rest))) :=
    sfx_of_split s pre _ p (by simpa using h) hp
  have h2 : (defaultCfg.env s).s.toList.drop (p + 2) = 43 :: (body ++ (close ++ rest)) := by
    have := drop_add_of_append _ _ _ _ h0
    rwa [lineOpen_length op hop] at this
  have h3 := drop_succ_of_cons _ _ _ _ h2
  have hsz : p + 2 + 1 ≤ (defaultCfg.env s).s.size := by
    have := size_of_drop _ _ _ h0
    simp [lineOpen_length op hop] at this; omega
  have hopen := line_open _ p op _ hop h0
  obtain ⟨st', more, hd, hpos⟩ := line_tail_head (defaultCfg.env s) 2 csDot (cs 13) (cs 10) csDot_mem (cs_mem 13) (cs_mem 10)
    body close rest ⟨p + 2 + 1, [(1, p, p + 2)]⟩ h3 hbody hctx hsz
  have hr0 : derivs (defaultCfg.env s) Gen.rule0.re ⟨p, []⟩ = st' :: more := by
    show derivs _ Gen.re0 _ = _
    rw [re0_eq, lineHintRe, derivs_cat, hopen]
    simp only [List.flatMap_cons, List.flatMap_nil, List.append_nil]
    rw [derivs_cat_set_ok _ _ _ _ 43 _ h2 c43]
    exact hd
  have hsplit : defaultCfg.rules = [] ++ Gen.rule0 :: Gen.rules.drop 1 := rfl
  rw [hsplit, firstMatch_split _ [] Gen.rule0 _ p (by simp) st' more hr0, hpos]
  have : p + 2 + 1 = p + 3 := rfl
  rw [this]
  rfl

end Sql
