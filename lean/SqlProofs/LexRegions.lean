import SqlModel.Default
import SqlProofs.Lex.Start
import SqlProofs.Lex.Comments
/-!
# SqlProofs.LexRegions — an opaque region is one token

For each region kind one table obligation `…_rule_first` (a computation over the generated table, `firstWith`) says: the table contains
the rule `⟨template, action⟩` — compared by content, so no rule index and no atom number is mentioned — and every rule before its first
occurrence cannot start at the opener's first character (`start … = dead`) or is the hint rule sharing the opener, which fails by a direct
argument.  The closed form of the template then gives the end of the first derivation.  Inserting, removing or reordering rules that
cannot start at the opener leaves every obligation intact; changing the regular expression of the region's rule breaks it.
-/
namespace Sql

/-! ## templates of the comment rules -/

/-- `/\*[\s\S]*?\*/` -/
def blockRe : Re :=
  .cat (.set (cs 47)) (.cat (.set (cs 42)) (.cat (.rep 0 none false (.set csAll)) (.cat (.set (cs 42)) (.set (cs 47)))))
/-- `/\*\+[\s\S]*?\*/` -/
def blockHintRe : Re :=
  .cat (.set (cs 47)) (.cat (.set (cs 42)) (.cat (.set (cs 43))
    (.cat (.rep 0 none false (.set csAll)) (.cat (.set (cs 42)) (.set (cs 47))))))
/-- `(--|# )` -/
def lineOpenRe : Re := .grp 1 (.alt (.cat (.set (cs 45)) (.set (cs 45))) (.cat (.set (cs 35)) (.set (cs 32))))
/-- `(--|# ).*?(\r\n|\r|\n|$)` -/
def lineRe : Re := .cat lineOpenRe (.cat (.rep 0 none false (.set csDot)) (eolRe 2 (cs 13) (cs 10)))
/-- `(--|# )\+.*?(\r\n|\r|\n|$)` -/
def lineHintRe : Re :=
  .cat lineOpenRe (.cat (.set (cs 43)) (.cat (.rep 0 none false (.set csDot)) (eolRe 2 (cs 13) (cs 10))))

/-! ## table obligations, by content -/

def hintLineTy : TType := ["Comment", "Single", "Hint"]
def hintBlockTy : TType := ["Comment", "Multiline", "Hint"]

theorem squote_rule_first :
    firstWith (deadOn 39) ⟨strRe 1 (cs 39) (cs 92) (csNot 39), .tok T.StringSingle⟩ defaultCfg.rules = true := by decide +kernel
theorem dquote_rule_first :
    firstWith (deadOn 34) ⟨strRe 1 (cs 34) (cs 92) (csNot 34), .tok T.StringSymbol⟩ defaultCfg.rules = true := by decide +kernel
theorem backtick_rule_first :
    firstWith (deadOn 96) ⟨nameRe 1 (cs 96) (csNot 96), .tok T.Name⟩ defaultCfg.rules = true := by decide +kernel
theorem acute_rule_first :
    firstWith (deadOn 180) ⟨nameRe 1 (cs 180) (csNot 180), .tok T.Name⟩ defaultCfg.rules = true := by decide +kernel
theorem block_rule_first :
    firstWith (fun x => deadOn 47 x || x.re == blockHintRe) ⟨blockRe, .tok T.CommentMultiline⟩ defaultCfg.rules = true := by
  decide +kernel
theorem block_hint_rule_first :
    firstWith (deadOn 47) ⟨blockHintRe, .tok hintBlockTy⟩ defaultCfg.rules = true := by decide +kernel
theorem line_rule_first :
    firstWith (fun x => (deadOn 45 x && deadOn 35 x) || x.re == lineHintRe) ⟨lineRe, .tok T.CommentSingle⟩ defaultCfg.rules = true := by
  decide +kernel
theorem line_hint_rule_first :
    firstWith (fun x => deadOn 45 x && deadOn 35 x) ⟨lineHintRe, .tok hintLineTy⟩ defaultCfg.rules = true := by decide +kernel

/-! ## reading the subject -/

theorem sfx_of_split (s : Array Cp) (pre l : List Cp) (p : Nat) (h : s.toList = pre ++ l) (hp : pre.length = p) :
    (defaultCfg.env s).s.toList.drop p = l := by
  show s.toList.drop p = l
  rw [h, ← hp]; simp

/-! ## quoted strings and names -/

theorem quoted_token (s : Array Cp) (p : Nat) (pre body rest : List Cp) (qc : Nat) (r : Rule)
    (noBs : Bool) (hfw : firstWith (deadOn qc) r defaultCfg.rules = true)
    (hhead : ∀ E : Env, E.s.toList.drop p = qc :: (body ++ qc :: rest) → QBody qc noBs body → rest.head? ≠ some qc →
      ∃ st more, derivs E r.re ⟨p, []⟩ = st :: more ∧ st.pos = p + 1 + body.length + 1)
    (h : s.toList = pre ++ [qc] ++ body ++ [qc] ++ rest) (hp : pre.length = p)
    (hb : QBody qc noBs body) (hr : rest.head? ≠ some qc) :
    firstMatch (defaultCfg.env s) defaultCfg.rules p = some (r.act, p + 1 + body.length + 1) := by
  have h0 : (defaultCfg.env s).s.toList.drop p = qc :: (body ++ qc :: rest) :=
    sfx_of_split s pre _ p (by simpa using h) hp
  have hc := get_of_drop_cons _ _ _ _ h0
  obtain ⟨st, more, hd, hpos⟩ := hhead _ h0 hb hr
  rw [firstMatch_first _ (deadOn qc) r _ p hfw (fun x hx => deadOn_at _ qc x hx p hc) st more hd, hpos]

/-- `'body'` -/
theorem single_quoted_token (s : Array Cp) (p : Nat) (pre body rest : List Cp)
    (h : s.toList = pre ++ [39] ++ body ++ [39] ++ rest) (hp : pre.length = p)
    (hb : QBody 39 true body) (hr : rest.head? ≠ some 39) :
    firstMatch (defaultCfg.env s) defaultCfg.rules p = some (.tok T.StringSingle, p + 1 + body.length + 1) :=
  quoted_token s p pre body rest 39 _ true squote_rule_first
    (fun E h0 hb hr => strRe_head E 1 39 _ _ _ (quoteSets 39 (by decide)) (cs_mem 92) (by decide) p body rest h0 hb hr)
    h hp hb hr

/-- `"body"` -/
theorem double_quoted_token (s : Array Cp) (p : Nat) (pre body rest : List Cp)
    (h : s.toList = pre ++ [34] ++ body ++ [34] ++ rest) (hp : pre.length = p)
    (hb : QBody 34 true body) (hr : rest.head? ≠ some 34) :
    firstMatch (defaultCfg.env s) defaultCfg.rules p = some (.tok T.StringSymbol, p + 1 + body.length + 1) :=
  quoted_token s p pre body rest 34 _ true dquote_rule_first
    (fun E h0 hb hr => strRe_head E 1 34 _ _ _ (quoteSets 34 (by decide)) (cs_mem 92) (by decide) p body rest h0 hb hr)
    h hp hb hr

/-- `` `body` `` -/
theorem backtick_name_token (s : Array Cp) (p : Nat) (pre body rest : List Cp)
    (h : s.toList = pre ++ [96] ++ body ++ [96] ++ rest) (hp : pre.length = p)
    (hb : QBody 96 false body) (hr : rest.head? ≠ some 96) :
    firstMatch (defaultCfg.env s) defaultCfg.rules p = some (.tok T.Name, p + 1 + body.length + 1) :=
  quoted_token s p pre body rest 96 _ false backtick_rule_first
    (fun E h0 hb hr => nameRe_head E 1 96 _ _ (quoteSets 96 (by decide)) p body rest h0 hb hr)
    h hp hb hr

/-- `´body´` -/
theorem acute_name_token (s : Array Cp) (p : Nat) (pre body rest : List Cp)
    (h : s.toList = pre ++ [180] ++ body ++ [180] ++ rest) (hp : pre.length = p)
    (hb : QBody 180 false body) (hr : rest.head? ≠ some 180) :
    firstMatch (defaultCfg.env s) defaultCfg.rules p = some (.tok T.Name, p + 1 + body.length + 1) :=
  quoted_token s p pre body rest 180 _ false acute_rule_first
    (fun E h0 hb hr => nameRe_head E 1 180 _ _ (quoteSets 180 (by decide)) p body rest h0 hb hr)
    h hp hb hr

/-! ## block comments -/

theorem c42 : (cs 42).mem 42 = true := (cs_mem 42 42).2 rfl
theorem c47 : (cs 47).mem 47 = true := (cs_mem 47 47).2 rfl
theorem c43 : (cs 43).mem 43 = true := (cs_mem 43 43).2 rfl

/-- `/*body*/` where `body` does not start with `+` -/
theorem block_comment_token (s : Array Cp) (p : Nat) (pre body rest : List Cp)
    (h : s.toList = pre ++ [47, 42] ++ body ++ [42, 47] ++ rest) (hp : pre.length = p)
    (hplus : body.head? ≠ some 43) (hno : ¬ [42, 47] <:+: body) (hle : ∀ c ∈ body, c ≤ 1114111) :
    firstMatch (defaultCfg.env s) defaultCfg.rules p = some (.tok T.CommentMultiline, p + 2 + body.length + 2) := by
  have h0 : (defaultCfg.env s).s.toList.drop p = 47 :: 42 :: (body ++ 42 :: 47 :: rest) :=
    sfx_of_split s pre _ p (by simpa using h) hp
  have h1 := drop_succ_of_cons _ _ _ _ h0
  have h2 := drop_succ_of_cons _ _ _ _ h1
  have hc := get_of_drop_cons _ _ _ _ h0
  obtain ⟨more, hm⟩ := lazy_close2_head (defaultCfg.env s) csAll (cs 42) (cs 47) 42 47 (cs_mem 42) (cs_mem 47) csAll_mem
    (by decide) body rest ⟨p + 2, []⟩ h2 hle hno
  have hr3 : derivs (defaultCfg.env s) blockRe ⟨p, []⟩ = ⟨p + 2 + body.length + 2, []⟩ :: more := by
    rw [blockRe, derivs_cat_set_ok _ _ _ _ 47 _ h0 c47, derivs_cat_set_ok _ _ _ _ 42 _ h1 c42]
    exact hm
  have hpre : ∀ x : Rule, (deadOn 47 x || x.re == blockHintRe) = true → derivs (defaultCfg.env s) x.re ⟨p, []⟩ = [] := by
    intro x hx
    simp only [Bool.or_eq_true, beq_iff_eq] at hx
    rcases hx with hx | hx
    · exact deadOn_at _ 47 x hx p hc
    · rw [hx, blockHintRe, derivs_cat_set_ok _ _ _ _ 47 _ h0 c47, derivs_cat_set_ok _ _ _ _ 42 _ h1 c42]
      cases body with
      | nil => exact derivs_cat_set_fail _ _ _ _ 42 _ h2 (memF (cs_mem 43 42) (by decide))
      | cons c t =>
        exact derivs_cat_set_fail _ _ _ _ c _ h2 (memF (cs_mem 43 c) (by intro hc; subst hc; exact hplus rfl))
  rw [firstMatch_first _ _ ⟨blockRe, .tok T.CommentMultiline⟩ _ p block_rule_first hpre _ more hr3]

/-- `/*+body*/` -/
theorem block_hint_token (s : Array Cp) (p : Nat) (pre body rest : List Cp)
    (h : s.toList = pre ++ [47, 42, 43] ++ body ++ [42, 47] ++ rest) (hp : pre.length = p)
    (hno : ¬ [42, 47] <:+: body) (hle : ∀ c ∈ body, c ≤ 1114111) :
    firstMatch (defaultCfg.env s) defaultCfg.rules p
      = some (.tok ["Comment", "Multiline", "Hint"], p + 3 + body.length + 2) := by
  have h0 : (defaultCfg.env s).s.toList.drop p = 47 :: 42 :: 43 :: (body ++ 42 :: 47 :: rest) :=
    sfx_of_split s pre _ p (by simpa using h) hp
  have h1 := drop_succ_of_cons _ _ _ _ h0
  have h2 := drop_succ_of_cons _ _ _ _ h1
  have h3 := drop_succ_of_cons _ _ _ _ h2
  have hc := get_of_drop_cons _ _ _ _ h0
  obtain ⟨more, hm⟩ := lazy_close2_head (defaultCfg.env s) csAll (cs 42) (cs 47) 42 47 (cs_mem 42) (cs_mem 47) csAll_mem
    (by decide) body rest ⟨p + 3, []⟩ h3 hle hno
  have hr1 : derivs (defaultCfg.env s) blockHintRe ⟨p, []⟩ = ⟨p + 3 + body.length + 2, []⟩ :: more := by
    rw [blockHintRe, derivs_cat_set_ok _ _ _ _ 47 _ h0 c47, derivs_cat_set_ok _ _ _ _ 42 _ h1 c42,
      derivs_cat_set_ok _ _ _ _ 43 _ h2 c43]
    exact hm
  rw [firstMatch_first _ _ ⟨blockHintRe, .tok hintBlockTy⟩ _ p block_hint_rule_first
    (fun x hx => deadOn_at _ 47 x hx p hc) _ more hr1]
  rfl

/-! ## line comments -/

/-- the two spellings of the line-comment opener: `--` and `# ` -/
def LineOpen (op : List Cp) : Prop := op = [45, 45] ∨ op = [35, 32]

theorem line_open (E : Env) (p : Nat) (op t : List Cp) (hop : LineOpen op) (h0 : E.s.toList.drop p = op ++ t) :
    derivs E lineOpenRe ⟨p, []⟩ = [⟨p + 2, [(1, p, p + 2)]⟩] := by
  rcases hop with rfl | rfl
  · have h0' : E.s.toList.drop p = 45 :: 45 :: t := by simpa using h0
    have h1 := drop_succ_of_cons _ _ _ _ h0'
    simp only [lineOpenRe, derivs_grp, derivs_alt, derivs_cat, derivs_set_cons E _ ⟨p, []⟩ 45 _ h0',
      (cs_mem 45 45).2 rfl, memF (cs_mem 35 45) (by decide), if_true, Bool.false_eq_true, if_false,
      List.flatMap_cons, List.flatMap_nil, List.append_nil, derivs_set_cons E _ ⟨p + 1, []⟩ 45 _ h1,
      List.map_cons, List.map_nil]
  · have h0' : E.s.toList.drop p = 35 :: 32 :: t := by simpa using h0
    have h1 := drop_succ_of_cons _ _ _ _ h0'
    simp only [lineOpenRe, derivs_grp, derivs_alt, derivs_cat, derivs_set_cons E _ ⟨p, []⟩ 35 _ h0',
      (cs_mem 35 35).2 rfl, memF (cs_mem 45 35) (by decide), if_true, Bool.false_eq_true, if_false,
      List.flatMap_cons, List.flatMap_nil, List.append_nil, List.nil_append, derivs_set_cons E _ ⟨p + 1, []⟩ 32 _ h1,
      (cs_mem 32 32).2 rfl, List.map_cons, List.map_nil]

theorem lineOpen_first (E : Env) (p : Nat) (op t : List Cp) (hop : LineOpen op) (h0 : E.s.toList.drop p = op ++ t) :
    E.s[p]? = some 45 ∨ E.s[p]? = some 35 := by
  rcases hop with rfl | rfl
  · exact Or.inl (get_of_drop_cons E p 45 (45 :: t) (by simpa using h0))
  · exact Or.inr (get_of_drop_cons E p 35 (32 :: t) (by simpa using h0))

theorem lineOpen_length (op : List Cp) (hop : LineOpen op) : op.length = 2 := by
  rcases hop with rfl | rfl <;> rfl

/-- `--body EOL` / `# body EOL` where `body` does not start with `+` -/
theorem line_comment_token (s : Array Cp) (p : Nat) (pre op body close rest : List Cp) (hop : LineOpen op)
    (h : s.toList = pre ++ op ++ body ++ close ++ rest) (hp : pre.length = p)
    (hplus : body.head? ≠ some 43) (hbody : ∀ c ∈ body, c ≠ 13 ∧ c ≠ 10 ∧ c ≤ 1114111) (hctx : EolCtx close rest) :
    firstMatch (defaultCfg.env s) defaultCfg.rules p
      = some (.tok T.CommentSingle, p + 2 + body.length + close.length) := by
  have h0 : (defaultCfg.env s).s.toList.drop p = op ++ (body ++ (close ++ rest)) :=
    sfx_of_split s pre _ p (by simpa using h) hp
  have h2 : (defaultCfg.env s).s.toList.drop (p + 2) = body ++ (close ++ rest) := by
    have := drop_add_of_append _ _ _ _ h0
    rwa [lineOpen_length op hop] at this
  have hsz : p + 2 ≤ (defaultCfg.env s).s.size := by
    have := size_of_drop _ _ _ h0
    simp [lineOpen_length op hop] at this; omega
  have hopen := line_open _ p op _ hop h0
  obtain ⟨st', more, hd, hpos⟩ := line_tail_head (defaultCfg.env s) 2 csDot (cs 13) (cs 10) csDot_mem (cs_mem 13) (cs_mem 10)
    body close rest ⟨p + 2, [(1, p, p + 2)]⟩ h2 hbody hctx hsz
  have hr2 : derivs (defaultCfg.env s) lineRe ⟨p, []⟩ = st' :: more := by
    rw [lineRe, derivs_cat, hopen]
    simp only [List.flatMap_cons, List.flatMap_nil, List.append_nil]
    exact hd
  have hdead : ∀ x : Rule, (deadOn 45 x && deadOn 35 x) = true → derivs (defaultCfg.env s) x.re ⟨p, []⟩ = [] := by
    intro x hx
    simp only [Bool.and_eq_true] at hx
    rcases lineOpen_first _ p op _ hop h0 with hc | hc
    · exact deadOn_at _ 45 x hx.1 p hc
    · exact deadOn_at _ 35 x hx.2 p hc
  have hpre : ∀ x : Rule, ((deadOn 45 x && deadOn 35 x) || x.re == lineHintRe) = true →
      derivs (defaultCfg.env s) x.re ⟨p, []⟩ = [] := by
    intro x hx
    rw [Bool.or_eq_true] at hx
    rcases hx with hx | hx
    · exact hdead x hx
    · simp only [beq_iff_eq] at hx
      rw [hx, lineHintRe, derivs_cat, hopen]
      simp only [List.flatMap_cons, List.flatMap_nil, List.append_nil]
      -- the character after the opener is not `+`
      cases body with
      | nil =>
        rcases hctx with rfl | ⟨rfl, _⟩ | rfl | ⟨rfl, rfl⟩
        · exact derivs_cat_set_fail _ _ _ _ 13 _ (by simpa using h2) (memF (cs_mem 43 13) (by decide))
        · exact derivs_cat_set_fail _ _ _ _ 13 _ (by simpa using h2) (memF (cs_mem 43 13) (by decide))
        · exact derivs_cat_set_fail _ _ _ _ 10 _ (by simpa using h2) (memF (cs_mem 43 10) (by decide))
        · rw [derivs_cat, derivs_set_nil _ _ _ (by simpa using h2)]; rfl
      | cons c t =>
        exact derivs_cat_set_fail _ _ _ _ c _ (by simpa using h2)
          (memF (cs_mem 43 c) (by intro hc; subst hc; exact hplus rfl))
  rw [firstMatch_first _ _ ⟨lineRe, .tok T.CommentSingle⟩ _ p line_rule_first hpre st' more hr2, hpos]

/-- `--+body EOL` / `# +body EOL` -/
theorem line_hint_token (s : Array Cp) (p : Nat) (pre op body close rest : List Cp) (hop : LineOpen op)
    (h : s.toList = pre ++ op ++ [43] ++ body ++ close ++ rest) (hp : pre.length = p)
    (hbody : ∀ c ∈ body, c ≠ 13 ∧ c ≠ 10 ∧ c ≤ 1114111) (hctx : EolCtx close rest) :
    firstMatch (defaultCfg.env s) defaultCfg.rules p
      = some (.tok ["Comment", "Single", "Hint"], p + 3 + body.length + close.length) := by
  have h0 : (defaultCfg.env s).s.toList.drop p = op ++ (43 :: (body ++ (close ++ rest))) :=
    sfx_of_split s pre _ p (by simpa using h) hp
  have h2 : (defaultCfg.env s).s.toList.drop (p + 2) = 43 :: (body ++ (close ++ rest)) := by
    have := drop_add_of_append _ _ _ _ h0
    rwa [lineOpen_length op hop] at this
  have h3 := drop_succ_of_cons _ _ _ _ h2
  have hsz : p + 2 + 1 ≤ (defaultCfg.env s).s.size := by
    have := size_of_drop _ _ _ h0
    simp [lineOpen_length op hop] at this; omega
  have hopen := line_open _ p op _ hop h0
  obtain ⟨st', more, hd, hpos⟩ := line_tail_head (defaultCfg.env s) 2 csDot (cs 13) (cs 10) csDot_mem (cs_mem 13) (cs_mem 10)
    body close rest ⟨p + 2 + 1, [(1, p, p + 2)]⟩ h3 hbody hctx hsz
  have hr0 : derivs (defaultCfg.env s) lineHintRe ⟨p, []⟩ = st' :: more := by
    rw [lineHintRe, derivs_cat, hopen]
    simp only [List.flatMap_cons, List.flatMap_nil, List.append_nil]
    rw [derivs_cat_set_ok _ _ _ _ 43 _ h2 c43]
    exact hd
  have hdead : ∀ x : Rule, (deadOn 45 x && deadOn 35 x) = true → derivs (defaultCfg.env s) x.re ⟨p, []⟩ = [] := by
    intro x hx
    simp only [Bool.and_eq_true] at hx
    rcases lineOpen_first _ p op _ hop h0 with hc | hc
    · exact deadOn_at _ 45 x hx.1 p hc
    · exact deadOn_at _ 35 x hx.2 p hc
  rw [firstMatch_first _ _ ⟨lineHintRe, .tok hintLineTy⟩ _ p line_hint_rule_first hdead st' more hr0, hpos]
  have : p + 2 + 1 = p + 3 := rfl
  rw [this]
  rfl

end Sql
