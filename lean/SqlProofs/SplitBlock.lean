import SqlModel.Splitter
import SqlProofs.SplitScript
/-!
# SqlProofs.SplitBlock — procedural bodies keep the splitter level ≥ 1 and return it to where it was.

The block grammar is defined over *arbitrary tokens* classified by what `_change_splitlevel` sees of them
(`kindOf`): leaves are any tokens of kind `other`/`declare` (names, literals, operators, blanks, comments,
semicolons, THEN/ELSE/DO/LOOP/`END LOOP` keywords …), so the theorems hold for every spelling, casing and
whitespace/comment placement.
-/
namespace Sql

def tkind (cfg : SplitCfg) (t : Tok) : SKind := kindOf cfg t.tt t.val

/-- run, failing as soon as the level drops below `base` or a token trips the GO rule / raises -/
def safeRun (cfg : SplitCfg) (base : Int) : SplitFlags → Int → List Tok → Option (SplitFlags × Int)
  | f, l, [] => some (f, l)
  | f, l, t :: ts =>
    let r := kindStep f (tkind cfg t)
    if l + r.fst < base || !noGo cfg t then none else safeRun cfg base r.snd (l + r.fst) ts

theorem safeRun_append (cfg : SplitCfg) (base : Int) (a b : List Tok) : ∀ f l,
    safeRun cfg base f l (a ++ b) = (safeRun cfg base f l a).bind (fun r => safeRun cfg base r.fst r.snd b) := by
  induction a with
  | nil => intro f l; simp [safeRun]
  | cons t ts ih =>
    intro f l
    simp only [List.cons_append, safeRun]
    split
    · simp
    · exact ih _ _

theorem safeRun_weaken (cfg : SplitCfg) (b b' : Int) (h : b ≤ b') : ∀ (ts : List Tok) f l r,
    safeRun cfg b' f l ts = some r → safeRun cfg b f l ts = some r := by
  intro ts
  induction ts with
  | nil => intro f l r hs; simpa [safeRun] using hs
  | cons t ts ih =>
    intro f l r hs
    simp only [safeRun] at hs ⊢
    split at hs
    · simp at hs
    · rename_i hge
      simp only [Bool.or_eq_true, decide_eq_true_eq, not_or, Int.not_lt] at hge
      have : ¬ ((l + (kindStep f (tkind cfg t)).fst < b || !noGo cfg t) = true) := by
        simp only [Bool.or_eq_true, decide_eq_true_eq, not_or, Int.not_lt]
        exact ⟨by omega, hge.2⟩
      simp only [this, if_false]
      exact ih _ _ _ hs

/-- a run that never goes below a base ≥ 1 is quiet (no `;` is ever seen at level ≤ 0) and computes `runFL` -/
theorem safe_quiet (cfg : SplitCfg) (base : Int) (hb : 1 ≤ base) : ∀ (ts : List Tok) f l r,
    safeRun cfg base f l ts = some r → quiet cfg f l ts = true ∧ runFL cfg f l ts = r := by
  intro ts
  induction ts with
  | nil => intro f l r h; simp [safeRun] at h; simp [quiet, runFL, h]
  | cons t ts ih =>
    intro f l r h
    simp only [safeRun] at h
    split at h
    · simp at h
    · rename_i hge
      simp only [Bool.or_eq_true, decide_eq_true_eq, not_or, Int.not_lt, Bool.not_eq_true', Bool.not_eq_false] at hge
      obtain ⟨q, rf⟩ := ih _ _ _ h
      have hstep : changeSplitLevel cfg f t.tt t.val = kindStep f (tkind cfg t) := rfl
      refine ⟨?_, ?_⟩
      · simp only [quiet, hstep, Bool.and_eq_true, Bool.not_eq_true']
        refine ⟨⟨?_, hge.2⟩, q⟩
        have : ¬ (l + (kindStep f (tkind cfg t)).fst ≤ 0) := by omega
        simp [this]
      · simp only [runFL, hstep]; exact rf

/-! ## the grammar -/

/-- expression-level material: leaves, parentheses, CASE … END (nesting allowed) -/
inductive Ex where
  | tok (t : Tok)
  | paren (l : Tok) (inner : List Ex) (r : Tok)
  | caseE (c : Tok) (inner : List Ex) (e : Tok)

/-- block-level material: expressions (incl. `;`), BEGIN … END blocks, IF/FOR/WHILE … END IF/END FOR/END WHILE -/
inductive Item where
  | ex (e : Ex)
  | block (b : Tok) (inner : List Item) (e : Tok)
  | compound (o : Tok) (inner : List Item) (c : Tok)

mutual
def Ex.render : Ex → List Tok
  | .tok t => [t]
  | .paren l inner r => [l] ++ Ex.renderL inner ++ [r]
  | .caseE c inner e => [c] ++ Ex.renderL inner ++ [e]
def Ex.renderL : List Ex → List Tok
  | [] => []
  | x :: xs => x.render ++ Ex.renderL xs
end

mutual
def Item.render : Item → List Tok
  | .ex e => e.render
  | .block b inner e => [b] ++ Item.renderL inner ++ [e]
  | .compound o inner c => [o] ++ Item.renderL inner ++ [c]
def Item.renderL : List Item → List Tok
  | [] => []
  | x :: xs => x.render ++ Item.renderL xs
end

/-- a leaf: any token without effect on the level (kind `other`, or DECLARE which is inert inside a block) -/
def leafOK (cfg : SplitCfg) (t : Tok) : Bool :=
  (tkind cfg t == .other || tkind cfg t == .declare) && noGo cfg t

def kindIs (cfg : SplitCfg) (t : Tok) (k : SKind) : Bool := tkind cfg t == k && noGo cfg t

mutual
def Ex.wf (cfg : SplitCfg) : Ex → Bool
  | .tok t => leafOK cfg t
  | .paren l inner r => kindIs cfg l .lparen && Ex.wfL cfg inner && kindIs cfg r .rparen
  | .caseE c inner e => kindIs cfg c (.opener true) && Ex.wfL cfg inner && kindIs cfg e .end_
def Ex.wfL (cfg : SplitCfg) : List Ex → Bool
  | [] => true
  | x :: xs => x.wf cfg && Ex.wfL cfg xs
end

mutual
def Item.wf (cfg : SplitCfg) : Item → Bool
  | .ex e => e.wf cfg
  | .block b inner e => kindIs cfg b .begin_ && Item.wfL cfg inner && kindIs cfg e .end_
  | .compound o inner c => kindIs cfg o (.opener false) && Item.wfL cfg inner && kindIs cfg c .closer
def Item.wfL (cfg : SplitCfg) : List Item → Bool
  | [] => true
  | x :: xs => x.wf cfg && Item.wfL cfg xs
end

/-- inside a CREATE … BEGIN body -/
def Inside (f : SplitFlags) : Prop := f.isCreate = true ∧ 1 ≤ f.beginDepth

theorem safeRun_one (cfg : SplitCfg) (base : Int) (f : SplitFlags) (l : Int) (t : Tok)
    (hl : base ≤ l + (kindStep f (tkind cfg t)).fst) (hg : noGo cfg t = true) :
    safeRun cfg base f l [t] = some ((kindStep f (tkind cfg t)).snd, l + (kindStep f (tkind cfg t)).fst) := by
  have : ¬ ((l + (kindStep f (tkind cfg t)).fst < base || !noGo cfg t) = true) := by
    simp only [Bool.or_eq_true, decide_eq_true_eq, not_or, Int.not_lt, hg]
    exact ⟨hl, by simp⟩
  simp [safeRun, this]

/-- expressions restore flags and level and never go below the starting level -/
theorem ex_safe (cfg : SplitCfg) :
    (∀ (e : Ex) (f : SplitFlags) (l : Int), Inside f → e.wf cfg = true → safeRun cfg l f l e.render = some (f, l)) ∧
    (∀ (es : List Ex) (f : SplitFlags) (l : Int), Inside f → Ex.wfL cfg es = true →
        safeRun cfg l f l (Ex.renderL es) = some (f, l)) := by
  have key : ∀ e : Ex, ∀ (f : SplitFlags) (l : Int), Inside f → e.wf cfg = true →
      safeRun cfg l f l e.render = some (f, l) := by
    intro e
    induction e using Ex.rec
      (motive_2 := fun es => ∀ (f : SplitFlags) (l : Int), Inside f → Ex.wfL cfg es = true →
        safeRun cfg l f l (Ex.renderL es) = some (f, l)) with
    | tok t =>
      intro f l hin hw
      simp only [Ex.wf, leafOK, Bool.and_eq_true, Bool.or_eq_true, beq_iff_eq] at hw
      obtain ⟨hk, hg⟩ := hw
      have hs : kindStep f (tkind cfg t) = (0, f) := by
        rcases hk with hk | hk
        · rw [hk]; rfl
        · rw [hk]
          have : (f.beginDepth == 0) = false := by
            have := hin.2; simp; omega
          simp [kindStep, this]
      simp only [Ex.render]
      rw [safeRun_one cfg l f l t (by rw [hs]; simp) hg, hs]; simp
    | paren lp inner rp ih =>
      intro f l hin hw
      simp only [Ex.wf, kindIs, Bool.and_eq_true, beq_iff_eq] at hw
      obtain ⟨⟨⟨hk1, hg1⟩, hwi⟩, ⟨hk2, hg2⟩⟩ := hw
      simp only [Ex.render, safeRun_append]
      rw [safeRun_one cfg l f l lp (by rw [hk1]; show l ≤ l + 1; omega) hg1]
      simp only [hk1, kindStep, Option.bind_some]
      rw [safeRun_weaken cfg l (l + 1) (by omega) _ _ _ _ (ih f (l + 1) hin hwi)]
      simp only [Option.bind_some]
      rw [safeRun_one cfg l f (l + 1) rp (by rw [hk2]; show l ≤ l + 1 + -1; omega) hg2]
      simp only [hk2, kindStep]
      congr 2; omega
    | caseE c inner e ih =>
      intro f l hin hw
      simp only [Ex.wf, kindIs, Bool.and_eq_true, beq_iff_eq] at hw
      obtain ⟨⟨⟨hk1, hg1⟩, hwi⟩, ⟨hk2, hg2⟩⟩ := hw
      have hcond : (f.isCreate && decide (f.beginDepth > 0)) = true := by
        have := hin.2; simp [hin.1]; omega
      have hs1 : kindStep f (.opener true) = (1, { f with inCase := f.inCase + 1 }) := by
        simp [kindStep, hcond]
      have hin' : Inside { f with inCase := f.inCase + 1 } := hin
      have hs2 : kindStep { f with inCase := f.inCase + 1 } .end_ = (-1, f) := by
        cases f; simp [kindStep]
      simp only [Ex.render, safeRun_append]
      rw [safeRun_one cfg l f l c (by rw [hk1, hs1]; show l ≤ l + 1; omega) hg1]
      simp only [hk1, hs1, Option.bind_some]
      rw [safeRun_weaken cfg l (l + 1) (by omega) _ _ _ _ (ih _ (l + 1) hin' hwi)]
      simp only [Option.bind_some]
      rw [safeRun_one cfg l _ (l + 1) e (by rw [hk2, hs2]; show l ≤ l + 1 + -1; omega) hg2]
      simp only [hk2, hs2]
      congr 2; omega
    | nil => simp [Ex.renderL, safeRun]
    | cons x xs ih1 ih2 =>
      rename_i f l hin hw
      simp only [Ex.wfL, Bool.and_eq_true] at hw
      simp only [Ex.renderL, safeRun_append, ih1 f l hin hw.1, Option.bind_some, ih2 f l hin hw.2]
  refine ⟨key, ?_⟩
  intro es
  induction es with
  | nil => intro f l _ _; simp [Ex.renderL, safeRun]
  | cons x xs ih =>
    intro f l hin hw
    simp only [Ex.wfL, Bool.and_eq_true] at hw
    simp only [Ex.renderL, safeRun_append, key x f l hin hw.1, Option.bind_some, ih f l hin hw.2]

/-- block-level items restore flags and level, provided no CASE expression is open where they start -/
theorem item_safe (cfg : SplitCfg) :
    (∀ (it : Item) (f : SplitFlags) (l : Int), Inside f → f.inCase = 0 → it.wf cfg = true →
        safeRun cfg l f l it.render = some (f, l)) ∧
    (∀ (its : List Item) (f : SplitFlags) (l : Int), Inside f → f.inCase = 0 → Item.wfL cfg its = true →
        safeRun cfg l f l (Item.renderL its) = some (f, l)) := by
  have key : ∀ it : Item, ∀ (f : SplitFlags) (l : Int), Inside f → f.inCase = 0 → it.wf cfg = true →
      safeRun cfg l f l it.render = some (f, l) := by
    intro it
    induction it using Item.rec
      (motive_2 := fun its => ∀ (f : SplitFlags) (l : Int), Inside f → f.inCase = 0 → Item.wfL cfg its = true →
        safeRun cfg l f l (Item.renderL its) = some (f, l)) with
    | ex e =>
      intro f l hin _ hw
      exact (ex_safe cfg).1 e f l hin hw
    | block b inner e ih =>
      intro f l hin hc hw
      simp only [Item.wf, kindIs, Bool.and_eq_true, beq_iff_eq] at hw
      obtain ⟨⟨⟨hk1, hg1⟩, hwi⟩, ⟨hk2, hg2⟩⟩ := hw
      have hs1 : kindStep f .begin_ = (1, { f with beginDepth := f.beginDepth + 1 }) := by
        simp [kindStep, hin.1]
      have hin' : Inside { f with beginDepth := f.beginDepth + 1 } := ⟨hin.1, by simp⟩
      have hs2 : kindStep { f with beginDepth := f.beginDepth + 1 } .end_ = (-1, f) := by
        cases f; simp_all [kindStep]
      simp only [Item.render, safeRun_append]
      rw [safeRun_one cfg l f l b (by rw [hk1, hs1]; show l ≤ l + 1; omega) hg1]
      simp only [hk1, hs1, Option.bind_some]
      rw [safeRun_weaken cfg l (l + 1) (by omega) _ _ _ _ (ih _ (l + 1) hin' hc hwi)]
      simp only [Option.bind_some]
      rw [safeRun_one cfg l _ (l + 1) e (by rw [hk2, hs2]; show l ≤ l + 1 + -1; omega) hg2]
      simp only [hk2, hs2]
      congr 2; omega
    | compound o inner c ih =>
      intro f l hin hc hw
      simp only [Item.wf, kindIs, Bool.and_eq_true, beq_iff_eq] at hw
      obtain ⟨⟨⟨hk1, hg1⟩, hwi⟩, ⟨hk2, hg2⟩⟩ := hw
      have hcond : (f.isCreate && decide (f.beginDepth > 0)) = true := by
        have := hin.2; simp [hin.1]; omega
      have hs1 : kindStep f (.opener false) = (1, f) := by simp [kindStep, hcond]
      have hs2 : kindStep f .closer = (-1, f) := rfl
      simp only [Item.render, safeRun_append]
      rw [safeRun_one cfg l f l o (by rw [hk1, hs1]; show l ≤ l + 1; omega) hg1]
      simp only [hk1, hs1, Option.bind_some]
      rw [safeRun_weaken cfg l (l + 1) (by omega) _ _ _ _ (ih f (l + 1) hin hc hwi)]
      simp only [Option.bind_some]
      rw [safeRun_one cfg l _ (l + 1) c (by rw [hk2, hs2]; show l ≤ l + 1 + -1; omega) hg2]
      simp only [hk2, hs2]
      congr 2; omega
    | nil => simp [Item.renderL, safeRun]
    | cons x xs ih1 ih2 =>
      rename_i f l hin hc hw
      simp only [Item.wfL, Bool.and_eq_true] at hw
      simp only [Item.renderL, safeRun_append, ih1 f l hin hc hw.1, Option.bind_some, ih2 f l hin hc hw.2]
  refine ⟨key, ?_⟩
  intro its
  induction its with
  | nil => intro f l _ _ _; simp [Item.renderL, safeRun]
  | cons x xs ih =>
    intro f l hin hc hw
    simp only [Item.wfL, Bool.and_eq_true] at hw
    simp only [Item.renderL, safeRun_append, key x f l hin hc hw.1, Option.bind_some, ih f l hin hc hw.2]

theorem quiet_append (cfg : SplitCfg) (a b : List Tok) : ∀ f l,
    quiet cfg f l (a ++ b) = (quiet cfg f l a && quiet cfg (runFL cfg f l a).fst (runFL cfg f l a).snd b) := by
  induction a with
  | nil => intro f l; simp [quiet, runFL]
  | cons t ts ih => intro f l; simp only [List.cons_append, quiet, runFL, ih, Bool.and_assoc]

theorem runFL_append (cfg : SplitCfg) (a b : List Tok) : ∀ f l,
    runFL cfg f l (a ++ b) = runFL cfg (runFL cfg f l a).fst (runFL cfg f l a).snd b := by
  induction a with
  | nil => intro f l; simp [runFL]
  | cons t ts ih => intro f l; simp only [List.cons_append, runFL, ih]

theorem semi_kind (cfg : SplitCfg) (t : Tok) (h : isSemi t = true) : tkind cfg t = .other := by
  simp only [isSemi, Bool.and_eq_true, beq_iff_eq] at h
  unfold tkind kindOf
  rw [h.1, h.2]
  have e1 : (txt ";" == txt "(") = false := by decide
  have e2 : (txt ";" == txt ")") = false := by decide
  have e3 : (!TType.isIn T.Punctuation T.Keyword) = true := by decide
  simp [e1, e2, e3]

/-- **the body of a CREATE … BEGIN … END statement is quiet**: after any header that leaves the splitter at
level 0 with `is_create` set and no block open, `BEGIN items END` never lets a `;` be seen at level ≤ 0 and
returns flags and level to what they were after the header. -/
theorem create_block_quiet (cfg : SplitCfg) (hdr : List Tok) (f0 : SplitFlags)
    (hq : quiet cfg {} 0 hdr = true) (hr : runFL cfg {} 0 hdr = (f0, 0))
    (hc : f0.isCreate = true) (hbd : f0.beginDepth = 0) (hic : f0.inCase = 0)
    (b e : Tok) (hb : kindIs cfg b .begin_ = true) (he : kindIs cfg e .end_ = true)
    (items : List Item) (hw : Item.wfL cfg items = true) :
    quiet cfg {} 0 (hdr ++ ([b] ++ Item.renderL items ++ [e])) = true ∧
    runFL cfg {} 0 (hdr ++ ([b] ++ Item.renderL items ++ [e])) = (f0, 0) := by
  simp only [kindIs, Bool.and_eq_true, beq_iff_eq] at hb he
  have hstep : ∀ f (t : Tok), changeSplitLevel cfg f t.tt t.val = kindStep f (tkind cfg t) := fun _ _ => rfl
  let f1 : SplitFlags := { f0 with beginDepth := f0.beginDepth + 1 }
  have hs1 : kindStep f0 .begin_ = (1, f1) := by simp [kindStep, hc, f1]
  have hin1 : Inside f1 := ⟨hc, by simp [f1]⟩
  have hs2 : kindStep f1 .end_ = (-1, f0) := by
    cases f0; simp_all [kindStep, f1]
  have hitems := (item_safe cfg).2 items f1 1 hin1 hic hw
  obtain ⟨qi, ri⟩ := safe_quiet cfg 1 (by omega) _ _ _ _ hitems
  have nsb : isSemi b = false := by
    cases h : isSemi b
    · rfl
    · have := semi_kind cfg b h; rw [hb.1] at this; cases this
  have nse : isSemi e = false := by
    cases h : isSemi e
    · rfl
    · have := semi_kind cfg e h; rw [he.1] at this; cases this
  have qb : quiet cfg f0 0 [b] = true := by
    simp [quiet, hstep, hb.1, hs1, nsb, hb.2]
  have rb : runFL cfg f0 0 [b] = (f1, 1) := by
    simp [runFL, hstep, hb.1, hs1]
  have qe : quiet cfg f1 1 [e] = true := by
    simp [quiet, hstep, he.1, hs2, nse, he.2]
  have re : runFL cfg f1 1 [e] = (f0, 0) := by
    simp [runFL, hstep, he.1, hs2]
  have q1 : quiet cfg f0 0 ([b] ++ Item.renderL items) = true := by
    rw [quiet_append, qb, rb]; simpa using qi
  have r1 : runFL cfg f0 0 ([b] ++ Item.renderL items) = (f1, 1) := by
    rw [runFL_append, rb]; exact ri
  have q2 : quiet cfg f0 0 ([b] ++ Item.renderL items ++ [e]) = true := by
    rw [quiet_append, q1, r1]; simpa using qe
  have r2 : runFL cfg f0 0 ([b] ++ Item.renderL items ++ [e]) = (f0, 0) := by
    rw [runFL_append, r1]; exact re
  refine ⟨?_, ?_⟩
  · rw [quiet_append, hq, hr]; simpa using q2
  · rw [runFL_append, hr]; exact r2

end Sql
