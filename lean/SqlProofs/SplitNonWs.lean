import SqlModel.Pipeline
import SqlProofs.SplitPartition
import SqlProofs.LexScan
/-!
# SqlProofs.SplitNonWs — every statement the splitter yields contains a token that is not of a Whitespace type;
with the lexer fact that such a token starts with a non-space character: `split()` pieces are non-empty after `strip()`,
and the splitter never raises on lexer output (`value.split()[0]` of a Keyword token exists).
-/
namespace Sql

/-- the statement contains a token that is not of a Whitespace type -/
def HasNonWs (s : List Tok) : Prop := ∃ t ∈ s, t.isWhitespace = false

/-- invariant: yielded statements contain a non-whitespace token, and `consume_ws` is only set while such a token is pending -/
def SplitInvNW (st : SplitState) : Prop :=
  (∀ s ∈ st.done, HasNonWs s) ∧ (st.consumeWs = true → HasNonWs st.cur)

theorem splitYield_nw (cfg : SplitCfg) (st : SplitState) (t : Tok) (hinv : SplitInvNW st) :
    SplitInvNW (splitYield cfg st t) := by
  unfold splitYield
  split
  · rename_i hc
    simp only [Bool.and_eq_true] at hc
    refine ⟨?_, by intro h; exact absurd h (by simp)⟩
    intro s hs
    simp only [List.mem_append, List.mem_singleton] at hs
    rcases hs with hs | rfl
    · exact hinv.1 s hs
    · exact hinv.2 hc.1
  · exact hinv

theorem splitAdvance_cw (cfg : SplitCfg) (st1 st' : SplitState) (t : Tok) (h : splitAdvance cfg st1 t = .ok st') :
    st'.consumeWs = true → st1.consumeWs = true ∨ t.isWhitespace = false := by
  unfold splitAdvance at h
  simp only at h
  split at h
  · rename_i hc
    injection h with h; subst h
    intro _
    right
    simp only [Bool.and_eq_true, beq_iff_eq] at hc
    simp only [Tok.isWhitespace, hc.1.2]; decide
  · split at h
    · rename_i hk
      split at h
      · exact absurd h (by simp)
      · injection h with h
        subst h
        intro hcw
        simp only [beq_iff_eq] at hk
        split at hcw
        · right; simp only [Tok.isWhitespace, hk]; decide
        · left; exact hcw
    · injection h with h; subst h; intro hcw; left; exact hcw

theorem splitStep_nw (cfg : SplitCfg) (st st' : SplitState) (t : Tok) (hinv : SplitInvNW st)
    (h : splitStep cfg st t = .ok st') : SplitInvNW st' := by
  unfold splitStep at h
  have y := splitYield_nw cfg st t hinv
  obtain ⟨a1, a2⟩ := splitAdvance_spec cfg _ st' t h
  refine ⟨by rw [a1]; exact y.1, ?_⟩
  intro hcw
  rw [a2]
  rcases splitAdvance_cw cfg _ st' t h hcw with h1 | h1
  · obtain ⟨x, hx, hxw⟩ := y.2 h1
    exact ⟨x, by simp [hx], hxw⟩
  · exact ⟨t, by simp, h1⟩

theorem splitRun_nw (cfg : SplitCfg) : ∀ (ts : List Tok) (st st' : SplitState), SplitInvNW st →
    splitRun cfg st ts = .ok st' → SplitInvNW st' := by
  intro ts
  induction ts with
  | nil => intro st st' hinv h; simp [splitRun] at h; subst h; exact hinv
  | cons t ts ih =>
    intro st st' hinv h
    simp only [splitRun] at h
    split at h
    · rename_i st1 hst1
      exact ih st1 st' (splitStep_nw cfg st st1 t hinv hst1) h
    · exact absurd h (by simp)

/-- every statement the splitter returns contains a token that is not of a Whitespace type -/
theorem splitProcess_nonws (cfg : SplitCfg) (ts : List Tok) (sts : List (List Tok))
    (h : splitProcess cfg ts = .ok sts) : ∀ s ∈ sts, HasNonWs s := by
  unfold splitProcess at h
  split at h
  · exact absurd h (by simp)
  · rename_i st hst
    have hinv0 : SplitInvNW ({} : SplitState) :=
      ⟨fun s hs => absurd hs (by simp), fun h => absurd h (by simp)⟩
    have inv := splitRun_nw cfg ts {} st hinv0 hst
    split at h
    · rename_i hc
      injection h with h; subst h
      simp only [Bool.and_eq_true, Bool.not_eq_true', List.all_eq_false] at hc
      intro s hs
      simp only [List.mem_append, List.mem_singleton] at hs
      rcases hs with hs | rfl
      · exact inv.1 s hs
      · obtain ⟨x, hx, hxw⟩ := hc.2
        exact ⟨x, hx, by simpa using hxw⟩
    · injection h with h; subst h; exact inv.1

/-! ## `strip()` of a text with a non-space character -/

theorem mem_dropWhile_of_mem {α : Type} (p : α → Bool) (l : List α) (c : α) (hc : c ∈ l) (hp : p c = false) :
    c ∈ l.dropWhile p := by
  induction l with
  | nil => exact absurd hc (by simp)
  | cons a t ih =>
    simp only [List.mem_cons] at hc
    simp only [List.dropWhile_cons]
    split
    · rename_i ha
      rcases hc with rfl | hc
      · rw [hp] at ha; exact absurd ha (by simp)
      · exact ih hc
    · rcases hc with rfl | hc
      · simp
      · simp [hc]

theorem dropWhile_ne_nil_of_mem {α : Type} (p : α → Bool) (l : List α) (c : α) (hc : c ∈ l) (hp : p c = false) :
    l.dropWhile p ≠ [] := by
  intro h
  have := mem_dropWhile_of_mem p l c hc hp
  rw [h] at this; exact absurd this (by simp)

/-- a text containing a non-space character is non-empty after `strip()` -/
theorem pyStrip_ne_nil (v : Text) (c : Cp) (hc : c ∈ v) (hsp : isSpace c = false) : pyStrip v ≠ [] := by
  unfold pyStrip
  have h1 := mem_dropWhile_of_mem isSpace v c hc hsp
  have h2 : c ∈ (v.dropWhile isSpace).reverse := by simpa using h1
  have h3 := dropWhile_ne_nil_of_mem isSpace _ c h2 hsp
  intro h
  apply h3
  simpa using h

/-! ## consequences for lexer ∘ splitter -/

theorem stmt_has_nonspace (s : Array Cp) (sts : List (List Tok)) (h : lexSplit s = .ok sts) :
    ∀ st ∈ sts, ∃ c ∈ stmtText st, isSpace c = false := by
  unfold lexSplit at h
  split at h
  · exact absurd h (by simp)
  · rename_i ts hlex
    intro st hst
    obtain ⟨t, ht, hw⟩ := splitProcess_nonws defaultSplitCfg ts sts h st hst
    obtain ⟨tail, hcat, _, _⟩ := splitProcess_partition defaultSplitCfg ts sts h
    have hmem : t ∈ ts := by
      rw [← hcat]
      simp only [List.mem_append, List.mem_flatten]
      exact Or.inl ⟨st, hst, ht⟩
    obtain ⟨c, rest, hv, hc⟩ := lex_nonws_first s ts hlex t hmem hw
    refine ⟨c, ?_, hc⟩
    simp only [stmtText, List.mem_flatten, List.mem_map]
    exact ⟨t.val, ⟨t, ht, rfl⟩, by rw [hv]; simp⟩

/-- `value.split()[0]` exists for a value that starts with a non-space character -/
theorem splitFirst_some (v : Text) (h : StartsNonSpace v) : splitFirst isSpace v ≠ none := by
  obtain ⟨c, rest, rfl, hc⟩ := h
  simp [splitFirst, hc]

theorem splitAdvance_total (st : SplitState) (t : Tok) (ht : t.tt = T.Keyword → StartsNonSpace t.val) :
    ∃ st', splitAdvance defaultSplitCfg st t = .ok st' := by
  unfold splitAdvance
  simp only
  split
  · exact ⟨_, rfl⟩
  · split
    · rename_i hk
      simp only [beq_iff_eq] at hk
      have := splitFirst_some t.val (ht hk)
      split
      · rename_i hn
        exact absurd hn this
      · exact ⟨_, rfl⟩
    · exact ⟨_, rfl⟩

theorem splitRun_total : ∀ (ts : List Tok) (st : SplitState), (∀ t ∈ ts, t.tt = T.Keyword → StartsNonSpace t.val) →
    ∃ st', splitRun defaultSplitCfg st ts = .ok st' := by
  intro ts
  induction ts with
  | nil => intro st _; exact ⟨st, rfl⟩
  | cons t ts ih =>
    intro st h
    obtain ⟨st1, h1⟩ := splitAdvance_total (splitYield defaultSplitCfg st t) t (h t (by simp))
    obtain ⟨st', h'⟩ := ih st1 (fun x hx => h x (by simp [hx]))
    refine ⟨st', ?_⟩
    simp only [splitRun, splitStep, h1]
    exact h'

/-- lexer ∘ splitter never raises -/
theorem lexSplit_ok (s : Array Cp) : ∃ sts, lexSplit s = .ok sts := by
  obtain ⟨ts, hlex, _⟩ := lex_scan defaultCfg defaultRulesOK s
  have hk : ∀ t ∈ ts, t.tt = T.Keyword → StartsNonSpace t.val := by
    intro t ht hkw
    exact lex_nonws_first s ts hlex t ht (by rw [hkw]; decide)
  obtain ⟨st', h'⟩ := splitRun_total ts {} hk
  unfold lexSplit
  simp only [hlex, splitProcess, h']
  split <;> exact ⟨_, rfl⟩

end Sql
