import SqlProofs.IndentSpec
import SqlModel.Filters.Lift
/-!
# SqlProofs.ReindentBreaks — C10, reindent clause: clause keywords start their own line (node level)

`ReindentFilter._split_kwds` walks a child list with `_next_token`: the children whose type is exactly `T.Keyword` and whose
`normalized` is **searched** by one of `split_words` (so `FOR`, `ORDER`, `OFFSET` match `OR`/`SET` too), except `BETWEEN`
itself and one `AND` per pending `BETWEEN` (`kwStep`, the automaton of `Indent.splitKwdsGo`).  For each selected keyword the
loop body deletes a whitespace predecessor and inserts `nl()` unless `str(prev_)` ends in `\n`/`\r`.

Proved here (all for every option set / filter state / fuel):
* `rSplitKwds_lineBreak`, `rSplitKwds_nl` — the single-list statements (weak / strong input hypothesis);
* `rSplitStatementsGo_hyp` — `_split_statements`, which runs first, keeps the input hypothesis;
* `rDefault_breaks` — `_process_default`: after the recursive processing of the children the selected keywords are still
  directly preceded by an `nl()` token (`rMapKids_shape`: a leaf stays the same leaf, a group stays a group);
* `selectedOK_insertAt` — the only later mutations of such a list, insertions of further `nl()`-like tokens (the `END` break
  of `_process_case`, the statement separator of `process`), never separate the pair;
* `rFunction_breaks`, `rWhere_breaks`, `rDispatch_default_breaks`, `reindent_statement_breaks` — lifted to the handlers that
  hand the list to `_process_default` unchanged or with one inserted break, and to `ReindentFilter.process` on a statement;
* `selectedOK_pair`, `pair_text` — from the child list to the leaf sequence / the text: the keyword leaf directly follows a
  whitespace leaf, and in `str(stmt)` its value directly follows `\n` + the rest of that leaf's value (for `nl()`:
  `char * n`, so only indentation lies between the line break and the keyword).

Exemptions, exactly (each with a witness on the real code):
* (D) the previous child is a *whitespace* token whose text ends in a line break: it is deleted and, because `uprev` was
  taken before the deletion, nothing is inserted.  `ReindentFilter().process` on `parse('select a\nfrom t')` gives
  `'select afrom t'`; through `format()` (strip_whitespace first) the only such tokens are the filter's own `nl()` with zero
  indentation: `format('a , for', reindent=True)` = `'a, for'` (the break inserted by `_process_identifierlist` before the item
  `for` is `'\n'`, is deleted by `_split_kwds` and not replaced).  Excluded by `noWsBreakBefore` / `noBreakBefore`.
* (C) the previous child is not whitespace and its text ends in a line break (`'select a --c\nfrom t'`): nothing is inserted,
  the keyword is at the start of a line anyway.  Allowed by `lineBreakBefore`, excluded by `noBreakBefore`.
* lists `_split_kwds` never sees: everything inside a `Values` group (`_process_values` does not recurse and does not call
  `_split_kwds`: `format('values or (1)', reindent=True)` = `'\\nvalues or (1)'`);
  a `Where` group without a direct `WHERE` child (`'where ,x%s *set; in'`: `WHERE` is inside an IdentifierList) and a
  `Parenthesis` without a direct `(` child (`"( ::= 'or )"`: the `(` is inside an Identifier) return early, children included.
* not selected by `_next_token` in the first place: `BETWEEN`, and the `AND` that closes it.
The statement for every list of the tree at once (the lift through `_process_identifierlist`, `_process_case`,
`_process_parenthesis`, `_process_where` and the recursion, with the side conditions it forces) is `SqlProofs/ReindentLift*.lean`.
-/
set_option linter.unusedSimpArgs false
namespace Sql
open FNode (leaves leavesL)

def scanSt (isSplit : FNode → Bool) : Nat → List FNode → Nat
  | d, [] => d
  | d, k :: rest => scanSt isSplit (kwStep isSplit d k).1 rest

def lastOr : Option FNode → List FNode → Option FNode
  | prev, [] => prev
  | _, k :: l => lastOr (some k) l

theorem lastOr_cons (prev : Option FNode) (k : FNode) (l : List FNode) : lastOr prev (k :: l) = lastOr (some k) l := rfl

theorem lastOr_concat : ∀ (l : List FNode) (prev : Option FNode) (k : FNode), lastOr prev (l ++ [k]) = some k
  | [], _, _ => rfl
  | x :: l, _, k => by simp only [List.cons_append, lastOr, lastOr_concat l]

theorem selectedOK_append (isSplit : FNode → Bool) (chk : Option FNode → Bool) : ∀ (a b : List FNode) (d : Nat) (prev : Option FNode),
    selectedOK isSplit chk d prev (a ++ b) =
      (selectedOK isSplit chk d prev a && selectedOK isSplit chk (scanSt isSplit d a) (lastOr prev a) b)
  | [], b, d, prev => by simp [selectedOK, scanSt, lastOr]
  | k :: a, b, d, prev => by
    simp only [List.cons_append, selectedOK, scanSt, lastOr_cons, selectedOK_append isSplit chk a b, Bool.and_assoc]

theorem scanSt_append (isSplit : FNode → Bool) : ∀ (a b : List FNode) (d : Nat),
    scanSt isSplit d (a ++ b) = scanSt isSplit (scanSt isSplit d a) b
  | [], b, d => rfl
  | k :: a, b, d => by simp only [List.cons_append, scanSt, scanSt_append isSplit a b]

theorem lastOr_reverse_cons (prev : Option FNode) (k : FNode) (l : List FNode) : lastOr prev (k :: l).reverse = some k := by
  rw [List.reverse_cons, lastOr_concat]

theorem rIsSplit_ws (p : FNode) (h : p.isWhitespace = true) : rIsSplit p = false := by
  cases p with
  | grp c cv ks => rfl
  | tok tt v =>
    simp only [FNode.isWhitespace] at h
    simp only [rIsSplit, FNode.matchKwRe, Bool.and_eq_false_iff, beq_eq_false_iff_ne, ne_eq]
    left
    rintro rfl
    simp [T.Keyword, T.Whitespace, TType.isIn] at h

theorem isNlTok_ws (p : FNode) (h : isNlTok p = true) : p.isWhitespace = true := by
  cases p with
  | grp c cv ks => cases h
  | tok tt v => simp only [isNlTok, Bool.and_eq_true] at h; exact h.1

theorem kwStep_nonsplit (isSplit : FNode → Bool) (d : Nat) (k : FNode) (h : isSplit k = false) : kwStep isSplit d k = (d, false) := by
  simp [kwStep, h]


theorem splitKwdsGo_step (isSplit : FNode → Bool) (emit : List FNode → FNode → List FNode) (d : Nat) (done : List FNode)
    (k : FNode) (rest : List FNode) :
    splitKwdsGo isSplit emit d done (k :: rest) =
      if (kwStep isSplit d k).2 = true then splitKwdsGo isSplit emit 0 (emit done k) rest
      else splitKwdsGo isSplit emit (kwStep isSplit d k).1 (k :: done) rest := by
  conv => lhs; unfold splitKwdsGo
  unfold kwStep
  by_cases h1 : (!isSplit k) = true
  · simp [h1]
  · by_cases h2 : k.normIs "BETWEEN" = true
    · simp [h1, h2]
    · by_cases h3 : (decide (d > 0) && k.normIs "AND") = true
      · simp [h1, h2, h3]
      · simp [h1, h2, h3]

theorem kwStep_sel (isSplit : FNode → Bool) (d : Nat) (k : FNode) (h : (kwStep isSplit d k).2 = true) :
    kwStep isSplit d k = (0, true) := by
  unfold kwStep at h ⊢
  by_cases h1 : (!isSplit k) = true
  · simp [h1] at h
  · by_cases h2 : k.normIs "BETWEEN" = true
    · simp [h1, h2] at h
    · by_cases h3 : (decide (d > 0) && k.normIs "AND") = true
      · simp [h1, h2, h3] at h
      · simp [h1, h2, h3]

theorem selectedOK_single (isSplit : FNode → Bool) (chk : Option FNode → Bool) (d : Nat) (prev : Option FNode) (k : FNode) :
    selectedOK isSplit chk d prev [k] = (!(kwStep isSplit d k).2 || chk prev) := by
  simp [selectedOK]

/-- invariant of the zipper: the part already emitted is fine and the automaton is in state `d` -/
def KwInv (chk : Option FNode → Bool) (done : List FNode) (d : Nat) : Prop :=
  selectedOK rIsSplit chk 0 none done.reverse = true ∧ scanSt rIsSplit 0 done.reverse = d

theorem lastOr_reverse (done : List FNode) : lastOr none done.reverse = done.head? := by
  cases done with
  | nil => rfl
  | cons k l => rw [lastOr_reverse_cons]; rfl

theorem KwInv_push (chk : Option FNode → Bool) (done : List FNode) (d : Nat) (k : FNode) (h : KwInv chk done d)
    (hk : (kwStep rIsSplit d k).2 = false ∨ chk done.head? = true) : KwInv chk (k :: done) (kwStep rIsSplit d k).1 := by
  obtain ⟨h1, h2⟩ := h
  constructor
  · rw [List.reverse_cons, selectedOK_append, h1, h2, lastOr_reverse, selectedOK_single]
    rcases hk with hk | hk <;> simp [hk]
  · rw [List.reverse_cons, scanSt_append, h2]; rfl

theorem KwInv_drop_ws (chk : Option FNode → Bool) (p : FNode) (done' : List FNode) (d : Nat) (h : KwInv chk (p :: done') d)
    (hp : rIsSplit p = false) : KwInv chk done' d := by
  obtain ⟨h1, h2⟩ := h
  rw [List.reverse_cons, selectedOK_append, Bool.and_eq_true] at h1
  rw [List.reverse_cons, scanSt_append] at h2
  refine ⟨h1.1, ?_⟩
  simpa [scanSt, kwStep_nonsplit rIsSplit _ p hp] using h2

/-- the `while` body of `_split_kwds` re-establishes the invariant, with the keyword now properly preceded -/
theorem rEmitKwd_inv (nl : FNode) (hnl : isNlTok nl = true) (hyp chk : Option FNode → Bool) (h1 : chk (some nl) = true)
    (h2 : ∀ p, hyp (some p) = true → endsWithNl p.text = true → p.isWhitespace = false ∧ chk (some p) = true)
    (done : List FNode) (d : Nat) (k : FNode) (hinv : KwInv chk done d) (hsel : (kwStep rIsSplit d k).2 = true)
    (hh : hyp done.head? = true) :
    KwInv chk (rEmitKwd nl done k) 0 ∧ (rEmitKwd nl done k).head? = some k := by
  have hnlws := isNlTok_ws nl hnl
  have hnls := rIsSplit_ws nl hnlws
  have hk0 := kwStep_sel rIsSplit d k hsel
  -- pushing `nl` then `k` onto a list in state `d`
  have push2 : ∀ (base : List FNode), KwInv chk base d → KwInv chk (k :: nl :: base) 0 := by
    intro base hb
    have hb1 := KwInv_push chk base d nl hb (Or.inl (by rw [kwStep_nonsplit rIsSplit d nl hnls]))
    rw [kwStep_nonsplit rIsSplit d nl hnls] at hb1
    have hb2 := KwInv_push chk (nl :: base) d k hb1 (Or.inr (by simpa using h1))
    rw [hk0] at hb2
    exact hb2
  unfold rEmitKwd
  cases done with
  | nil => exact ⟨push2 [] hinv, rfl⟩
  | cons p done' =>
    simp only
    by_cases he : endsWithNl p.text = true
    · obtain ⟨hpw, hpc⟩ := h2 p hh he
      simp only [he, if_true, hpw, Bool.false_eq_true, if_false]
      refine ⟨?_, rfl⟩
      have := KwInv_push chk (p :: done') d k hinv (Or.inr hpc)
      rw [hk0] at this
      exact this
    · simp only [he, Bool.false_eq_true, if_false]
      refine ⟨?_, rfl⟩
      by_cases hpw : p.isWhitespace = true
      · simp only [hpw, if_true]
        exact push2 done' (KwInv_drop_ws chk p done' d hinv (rIsSplit_ws p hpw))
      · simp only [hpw, Bool.false_eq_true, if_false]
        exact push2 (p :: done') hinv

theorem splitKwdsGo_selectedOK (nl : FNode) (hnl : isNlTok nl = true) (hyp chk : Option FNode → Bool)
    (h1 : chk (some nl) = true)
    (h2 : ∀ p, hyp (some p) = true → endsWithNl p.text = true → p.isWhitespace = false ∧ chk (some p) = true) :
    ∀ (rest : List FNode) (d : Nat) (done : List FNode), KwInv chk done d →
      selectedOK rIsSplit hyp d done.head? rest = true →
      selectedOK rIsSplit chk 0 none (splitKwdsGo rIsSplit (rEmitKwd nl) d done rest) = true
  | [], d, done, hinv, _ => by simp only [splitKwdsGo]; exact hinv.1
  | k :: rest, d, done, hinv, hin => by
    rw [splitKwdsGo_step]
    simp only [selectedOK, Bool.and_eq_true] at hin
    by_cases hsel : (kwStep rIsSplit d k).2 = true
    · rw [if_pos hsel]
      have hh : hyp done.head? = true := by simpa [hsel] using hin.1
      obtain ⟨a, b⟩ := rEmitKwd_inv nl hnl hyp chk h1 h2 done d k hinv hsel hh
      apply splitKwdsGo_selectedOK nl hnl hyp chk h1 h2 rest 0 _ a
      rw [b]
      have := hin.2
      rw [kwStep_sel rIsSplit d k hsel] at this
      exact this
    · rw [if_neg hsel]
      have hsel' : (kwStep rIsSplit d k).2 = false := by simpa using hsel
      exact splitKwdsGo_selectedOK nl hnl hyp chk h1 h2 rest _ (k :: done) (KwInv_push chk done d k hinv (Or.inl hsel')) hin.2


/-! ## the two instances -/

theorem KwInv_nil (chk : Option FNode → Bool) : KwInv chk [] 0 := ⟨rfl, rfl⟩

/-- **`_split_kwds`, single list.**  If no selected keyword directly follows a whitespace child ending in a line break, then
after `_split_kwds` every selected keyword is directly preceded by an `nl()` token or by a non-whitespace child whose text
ends in a line break (a `--` comment). -/
theorem rSplitKwds_lineBreak (nl : FNode) (hnl : isNlTok nl = true) (ks : List FNode)
    (h : selectedOK rIsSplit noWsBreakBefore 0 none ks = true) :
    selectedOK rIsSplit lineBreakBefore 0 none (rSplitKwds nl ks) = true := by
  unfold rSplitKwds
  apply splitKwdsGo_selectedOK nl hnl noWsBreakBefore lineBreakBefore (by simp [lineBreakBefore, hnl]) ?_ ks 0 [] (KwInv_nil _) h
  intro p hp he
  simp only [noWsBreakBefore, he, Bool.and_true, Bool.not_eq_true'] at hp
  exact ⟨hp, by simp [lineBreakBefore, hp, he]⟩

/-- **`_split_kwds`, single list, strong form.**  If no selected keyword directly follows a child whose text ends in a line
break, then after `_split_kwds` every selected keyword is directly preceded by an `nl()` token. -/
theorem rSplitKwds_nl (nl : FNode) (hnl : isNlTok nl = true) (ks : List FNode)
    (h : selectedOK rIsSplit noBreakBefore 0 none ks = true) :
    selectedOK rIsSplit nlBefore 0 none (rSplitKwds nl ks) = true := by
  unfold rSplitKwds
  apply splitKwdsGo_selectedOK nl hnl noBreakBefore nlBefore (by simp [nlBefore, hnl]) ?_ ks 0 [] (KwInv_nil _) h
  intro p hp he
  simp [noBreakBefore, he] at hp

theorem isNlTok_rNl (cfg : RCfg) (st : RSt) (off : Int) : isNlTok (rNl cfg st off) = true := by
  simp [rNl, isNlTok, T.Whitespace, TType.isIn]

/-! ## `_split_statements` does not disturb the hypothesis -/

theorem rIsSplit_dml (k : FNode) (h : k.ttInArg Gen.reindentStmtTTypes = true) : rIsSplit k = false := by
  cases k with
  | grp c cv ks => rfl
  | tok tt v =>
    simp only [FNode.ttInArg, Sql.ttInArg, Gen.reindentStmtTTypes, List.contains_cons, List.contains_nil, Bool.or_false,
      Bool.or_eq_true, beq_iff_eq] at h
    simp only [rIsSplit, FNode.matchKwRe, Bool.and_eq_false_iff, beq_eq_false_iff_ne, ne_eq]
    left
    rcases h with h | h <;> subst h <;> decide

theorem rSplitStatementsGo_hyp (nl : FNode) (hnl : isNlTok nl = true) (hyp : Option FNode → Bool) :
    ∀ (rest : List FNode) (d : Nat) (done : List FNode), KwInv hyp done d →
      selectedOK rIsSplit hyp d done.head? rest = true →
      selectedOK rIsSplit hyp 0 none (rSplitStatementsGo nl done rest) = true
  | [], d, done, hinv, _ => by simp only [rSplitStatementsGo]; exact hinv.1
  | k :: rest, d, done, hinv, hin => by
    have hnls := rIsSplit_ws nl (isNlTok_ws nl hnl)
    simp only [selectedOK, Bool.and_eq_true] at hin
    unfold rSplitStatementsGo
    by_cases hk : k.ttInArg Gen.reindentStmtTTypes = true
    · rw [if_pos hk]
      have hks := rIsSplit_dml k hk
      have hstep := kwStep_nonsplit rIsSplit d k hks
      rw [hstep] at hin
      cases done with
      | nil =>
        simp only
        have := KwInv_push hyp [] d k hinv (Or.inl (by rw [hstep]))
        rw [hstep] at this
        exact rSplitStatementsGo_hyp nl hnl hyp rest d [k] this hin.2
      | cons p done' =>
        simp only
        have push2 : ∀ (base : List FNode), KwInv hyp base d → KwInv hyp (k :: nl :: base) d := by
          intro base hb
          have hb1 := KwInv_push hyp base d nl hb (Or.inl (by rw [kwStep_nonsplit rIsSplit d nl hnls]))
          rw [kwStep_nonsplit rIsSplit d nl hnls] at hb1
          have hb2 := KwInv_push hyp (nl :: base) d k hb1 (Or.inl (by rw [hstep]))
          rw [hstep] at hb2
          exact hb2
        by_cases hpw : p.isWhitespace = true
        · simp only [hpw, if_true]
          exact rSplitStatementsGo_hyp nl hnl hyp rest d _ (push2 done' (KwInv_drop_ws hyp p done' d hinv (rIsSplit_ws p hpw))) hin.2
        · simp only [hpw, Bool.false_eq_true, if_false]
          exact rSplitStatementsGo_hyp nl hnl hyp rest d _ (push2 (p :: done') hinv) hin.2
    · rw [if_neg hk]
      have hpush : (kwStep rIsSplit d k).2 = false ∨ hyp done.head? = true := by
        cases hs : (kwStep rIsSplit d k).2 with
        | false => left; rfl
        | true => right; simpa [hs] using hin.1
      exact rSplitStatementsGo_hyp nl hnl hyp rest _ (k :: done) (KwInv_push hyp done d k hinv hpush) hin.2


/-! ## later steps keep the keyword and its `nl()` together -/

/-- processing a child: a leaf stays what it is, a group stays a group -/
def SameShape (k k' : FNode) : Prop :=
  match k with
  | .tok tt v => k' = .tok tt v
  | .grp .. => k'.isGroup = true

inductive SameShapeL : List FNode → List FNode → Prop
  | nil : SameShapeL [] []
  | cons {a b : FNode} {as bs : List FNode} : SameShape a b → SameShapeL as bs → SameShapeL (a :: as) (b :: bs)

theorem rIsSplit_grp (k : FNode) (h : k.isGroup = true) : rIsSplit k = false := by
  cases k with
  | grp c cv ks => rfl
  | tok tt v => cases h

theorem kwStep_shape (d : Nat) (k k' : FNode) (h : SameShape k k') : kwStep rIsSplit d k' = kwStep rIsSplit d k := by
  cases k with
  | tok tt v => simp only [SameShape] at h; rw [h]
  | grp c cv ks =>
    simp only [SameShape] at h
    rw [kwStep_nonsplit rIsSplit d k' (rIsSplit_grp k' h), kwStep_nonsplit rIsSplit d _ rfl]

theorem nlBefore_shape (k k' : FNode) (h : SameShape k k') : nlBefore (some k') = nlBefore (some k) := by
  cases k with
  | tok tt v => simp only [SameShape] at h; rw [h]
  | grp c cv ks =>
    simp only [SameShape] at h
    cases k' with
    | tok tt v => cases h
    | grp c' cv' ks' => rfl

theorem selectedOK_shape : ∀ (ks ks' : List FNode), SameShapeL ks ks' → ∀ (d : Nat) (prev prev' : Option FNode),
    nlBefore prev' = nlBefore prev →
    selectedOK rIsSplit nlBefore d prev' ks' = selectedOK rIsSplit nlBefore d prev ks
  | _, _, .nil, _, _, _, _ => rfl
  | _, _, .cons (a := a) (b := b) (as := as) (bs := bs) hab hr, d, prev, prev', hp => by
    simp only [selectedOK, kwStep_shape d a b hab, hp]
    rw [selectedOK_shape as bs hr _ (some a) (some b) (nlBefore_shape a b hab)]

theorem rMapKids_shape (rec : Text → RSt → FNode → Except PyErr (FNode × RSt))
    (hrec : ∀ p s n n' s', rec p s n = .ok (n', s') → SameShape n n') :
    ∀ (ks : List FNode) (pre : Text) (st : RSt) (ks' : List FNode) (st' : RSt),
      rMapKids rec pre st ks = .ok (ks', st') → SameShapeL ks ks'
  | [], pre, st, ks', st', h => by
    simp only [rMapKids, Except.ok.injEq, Prod.mk.injEq] at h
    rw [← h.1]; exact .nil
  | k :: rest, pre, st, ks', st', h => by
    unfold rMapKids at h
    cases hk : rec pre st k with
    | error e => rw [hk] at h; cases h
    | ok r =>
      obtain ⟨k', st1⟩ := r
      rw [hk] at h
      simp only at h
      cases hr : rMapKids rec (pre ++ k'.text) st1 rest with
      | error e => rw [hr] at h; cases h
      | ok r2 =>
        obtain ⟨rest', st2⟩ := r2
        rw [hr] at h
        simp only [Except.ok.injEq, Prod.mk.injEq] at h
        rw [← h.1]
        exact .cons (hrec _ _ _ _ _ hk) (rMapKids_shape rec hrec rest _ _ _ _ hr)

/-- what the handlers need to know about the recursive call for this property -/
def RecShape (rec : RRec) : Prop := ∀ a p s n n' s', rec a p s n = .ok (n', s') → SameShape n n'

theorem rProcess_shape (cfg : RCfg) (fuel : Nat) : RecShape (fun a p s n => rProcess cfg fuel a p s n) := by
  intro a p s n n' s' h
  cases n with
  | tok tt v =>
    cases fuel <;> (simp only [rProcess, Except.ok.injEq, Prod.mk.injEq] at h; rw [← h.1]; rfl)
  | grp c cv ks =>
    cases fuel with
    | zero => simp [rProcess] at h
    | succ f =>
      simp only [rProcess] at h
      split at h
      · cases h
      · simp only [Except.ok.injEq, Prod.mk.injEq] at h
        rw [← h.1]; rfl

/-- **`_process_default`.**  Let `ks1` be the child list on which `_split_kwds` runs (`ks` after `_split_statements` if
`stmts`).  If in `ks1` no selected keyword directly follows a child whose text ends in a line break, then in the list
`_process_default` returns — after the children have been processed recursively — every selected keyword is still directly
preceded by an `nl()` token. -/
theorem rDefault_breaks (cfg : RCfg) (rec : RRec) (hrec : RecShape rec) (anc : List Cls) (pre : Text) (st : RSt) (stmts : Bool)
    (ks ks' : List FNode) (st' : RSt) (h : rDefault cfg rec anc pre st stmts ks = .ok (ks', st'))
    (hin : selectedOK rIsSplit noBreakBefore 0 none ks = true) :
    selectedOK rIsSplit nlBefore 0 none ks' = true := by
  unfold rDefault at h
  have hshape := rMapKids_shape (rec anc) (fun p s n n' s' hh => hrec anc p s n n' s' hh) _ _ _ _ _ h
  rw [selectedOK_shape _ _ hshape 0 none none rfl]
  apply rSplitKwds_nl _ (isNlTok_rNl cfg st 0)
  cases stmts with
  | false => exact hin
  | true =>
    simp only [if_true]
    exact rSplitStatementsGo_hyp _ (isNlTok_rNl cfg st 0) noBreakBefore ks 0 [] (KwInv_nil _) hin

theorem selectedOK_prev_mono (chk : Option FNode → Bool) (d : Nat) (prev x : Option FNode) (hx : chk x = true) :
    ∀ (l : List FNode), selectedOK rIsSplit chk d prev l = true → selectedOK rIsSplit chk d x l = true
  | [], _ => rfl
  | k :: r, h => by
    simp only [selectedOK, Bool.and_eq_true] at h ⊢
    exact ⟨by simp [hx], h.2⟩

/-- inserting one more `nl()`-like token anywhere (the `END` break of `_process_case`, the statement separator of
`process`) never separates a selected keyword from a preceding `nl()` token -/
theorem selectedOK_insertAt (x : FNode) (hx : isNlTok x = true) : ∀ (l : List FNode) (i d : Nat) (prev : Option FNode),
    selectedOK rIsSplit nlBefore d prev l = true → selectedOK rIsSplit nlBefore d prev (insertAt l i x) = true
  | l, 0, d, prev, h => by
    have hxs := rIsSplit_ws x (isNlTok_ws x hx)
    simp only [insertAt, List.take_zero, List.nil_append, List.drop_zero, selectedOK, kwStep_nonsplit rIsSplit d x hxs,
      Bool.not_false, Bool.true_or, Bool.true_and]
    exact selectedOK_prev_mono nlBefore d prev (some x) (by simp [nlBefore, hx]) l h
  | [], i+1, d, prev, _ => by
    have hxs := rIsSplit_ws x (isNlTok_ws x hx)
    simp [insertAt, selectedOK, kwStep_nonsplit rIsSplit d x hxs]
  | k :: r, i+1, d, prev, h => by
    simp only [selectedOK, Bool.and_eq_true] at h
    have : insertAt (k :: r) (i + 1) x = k :: insertAt r i x := by simp [insertAt]
    rw [this]
    simp only [selectedOK, Bool.and_eq_true]
    exact ⟨h.1, selectedOK_insertAt x hx r i _ _ h.2⟩


/-! ## the handlers that funnel into `_process_default` -/

theorem rFunction_breaks (cfg : RCfg) (rec : RRec) (hrec : RecShape rec) (anc : List Cls) (pre : Text) (st : RSt)
    (ks ks' : List FNode) (st' : RSt) (h : rFunction cfg rec anc pre st ks = .ok (ks', st'))
    (hin : selectedOK rIsSplit noBreakBefore 0 none ks = true) : selectedOK rIsSplit nlBefore 0 none ks' = true := by
  unfold rFunction at h
  split at h
  · cases h
  · exact rDefault_breaks cfg rec hrec _ _ _ _ _ _ _ h hin

/-- `_process_where` with a `WHERE` child at index `i`: the hypothesis is about the list after the break before `WHERE`
has been inserted -/
theorem rWhere_breaks (cfg : RCfg) (rec : RRec) (hrec : RecShape rec) (anc : List Cls) (pre : Text) (st : RSt)
    (ks ks' : List FNode) (st' : RSt) (i : Nat) (hi : ks.findIdx? (·.matchKw "WHERE") = some i)
    (h : rWhere cfg rec anc pre st ks = .ok (ks', st'))
    (hin : selectedOK rIsSplit noBreakBefore 0 none (insertAt ks i (rNl cfg st)) = true) :
    selectedOK rIsSplit nlBefore 0 none ks' = true := by
  unfold rWhere at h
  rw [hi] at h
  simp only at h
  split at h
  · cases h
  · rename_i r hr
    simp only [Except.ok.injEq, Prod.mk.injEq] at h
    rw [← h.1]
    exact rDefault_breaks cfg rec hrec _ _ _ _ _ _ _ hr hin

/-- `_process(tlist)` for the classes without a handler of their own (`Statement`, `Identifier`, `Comparison`, …) -/
theorem rDispatch_default_breaks (cfg : RCfg) (rec : RRec) (hrec : RecShape rec) (c : Cls) (anc : List Cls) (pre : Text)
    (st : RSt) (ks ks' : List FNode) (st' : RSt)
    (hc : c ≠ .Where ∧ c ≠ .Parenthesis ∧ c ≠ .Function ∧ c ≠ .IdentifierList ∧ c ≠ .Case ∧ c ≠ .Values)
    (h : rDispatch cfg rec c anc pre st ks = .ok (ks', st'))
    (hin : selectedOK rIsSplit noBreakBefore 0 none ks = true) : selectedOK rIsSplit nlBefore 0 none ks' = true := by
  unfold rDispatch at h
  obtain ⟨h1, h2, h3, h4, h5, h6⟩ := hc
  split at h
  · exact absurd rfl h1
  · exact absurd rfl h2
  · exact absurd rfl h3
  · exact absurd rfl h4
  · exact absurd rfl h5
  · exact absurd rfl h6
  · exact rDefault_breaks cfg rec hrec _ _ _ _ _ _ _ h hin

/-- **C10, reindent clause, statement level.**  `ReindentFilter.process(stmt)`: if in the statement's child list no selected
keyword directly follows a child whose text ends in a line break, then in the result every child that `_next_token` selects
(`split_words` match with the BETWEEN … AND exception) is directly preceded by a whitespace leaf whose value starts with
`\n` — for every option set, filter state, `_last_stmt` and fuel. -/
theorem reindent_statement_breaks (cfg : RCfg) (fuel : Nat) (st : RSt) (last : Option Text) (cv : Text) (ks : List FNode)
    (n' : FNode) (st' : RSt) (h : reindentProcess cfg fuel st last (.grp .Statement cv ks) = .ok (n', st'))
    (hin : selectedOK rIsSplit noBreakBefore 0 none ks = true) :
    ∃ ks', n' = .grp .Statement cv ks' ∧ selectedOK rIsSplit nlBefore 0 none ks' = true := by
  unfold reindentProcess at h
  split at h
  · cases h
  · rename_i r hr
    cases fuel with
    | zero => simp [rProcess] at hr
    | succ f =>
      simp only [rProcess] at hr
      split at hr
      · cases hr
      · rename_i r2 hd
        simp only [Except.ok.injEq, Prod.mk.injEq] at hr
        have hk := rDispatch_default_breaks cfg _ (rProcess_shape cfg f) .Statement _ _ _ _ _ _
          (by decide) hd hin
        rw [← hr.1] at h
        split at h
        · rename_i n0 last0 c0 cv0 ks0 t0 heq0
          simp only [Except.ok.injEq, Prod.mk.injEq] at h
          injection heq0 with e1 e2 e3
          subst e1 e2 e3
          refine ⟨_, h.1.symm, ?_⟩
          have := selectedOK_insertAt (.tok T.Whitespace (if t0.getLast? == some 10 then [10] else [10, 10]))
            (by split <;> rfl) _ 0 0 none hk
          simpa [insertAt] using this
        · simp only [Except.ok.injEq, Prod.mk.injEq] at h
          exact ⟨_, h.1.symm, hk⟩

/-! ## from the child list to the leaf sequence and the text -/

/-- a selected keyword inside a list that satisfies `selectedOK … nlBefore` has an `nl()` token right before it -/
theorem selectedOK_pair (a b : List FNode) (k : FNode) (d : Nat)
    (h : selectedOK rIsSplit nlBefore d none (a ++ k :: b) = true)
    (hsel : (kwStep rIsSplit (scanSt rIsSplit d a) k).2 = true) :
    ∃ a' p, a = a' ++ [p] ∧ isNlTok p = true := by
  rw [selectedOK_append, Bool.and_eq_true] at h
  have h2 := h.2
  simp only [selectedOK, hsel, Bool.not_true, Bool.false_or, Bool.and_eq_true] at h2
  have h3 := h2.1
  cases ha : a.reverse with
  | nil =>
    have : a = [] := by simpa using ha
    subst this
    simp [lastOr, nlBefore] at h3
  | cons p r =>
    have : a = r.reverse ++ [p] := by
      have := congrArg List.reverse ha
      simpa using this
    subst this
    rw [lastOr_concat] at h3
    exact ⟨r.reverse, p, rfl, h3⟩

/-- in the leaf sequence the keyword leaf directly follows that whitespace leaf, and in the text its value directly follows
`\n` + the rest of that leaf's value (the indentation `char * n` for an `nl()` token) -/
theorem pair_text (a' b : List FNode) (p : FNode) (tt : TType) (v : Text) (hp : isNlTok p = true) :
    ∃ w, FNode.textL (a' ++ [p] ++ FNode.tok tt v :: b) = FNode.textL a' ++ (10 :: w) ++ v ++ FNode.textL b ∧
      p.text = 10 :: w := by
  cases p with
  | grp c cv ks => cases hp
  | tok pt pv =>
    simp only [isNlTok, Bool.and_eq_true] at hp
    cases pv with
    | nil => simp at hp
    | cons c w =>
      have hc : c = 10 := by simpa using hp.2
      subst hc
      refine ⟨w, ?_, rfl⟩
      have happ : ∀ (x y : List FNode), FNode.textL (x ++ y) = FNode.textL x ++ FNode.textL y := by
        intro x y
        induction x with
        | nil => rfl
        | cons z x ih => simp [FNode.textL, ih]
      simp [happ, FNode.textL, FNode.text]

/-! ## exact indentation: the break before a selected keyword is `self.nl()` of the current state -/

/-- the previous sibling is a `Whitespace` leaf with exactly this value -/
def exactWsBefore (v : Text) : Option FNode → Bool
  | some (.tok tt w) => tt == T.Whitespace && w == v
  | _ => false

theorem selectedOK_shape_gen (chk : Option FNode → Bool)
    (hchk : ∀ k k', SameShape k k' → chk (some k') = chk (some k)) :
    ∀ (ks ks' : List FNode), SameShapeL ks ks' → ∀ (d : Nat) (prev prev' : Option FNode), chk prev' = chk prev →
    selectedOK rIsSplit chk d prev' ks' = selectedOK rIsSplit chk d prev ks
  | _, _, .nil, _, _, _, _ => rfl
  | _, _, .cons (a := a) (b := b) (as := as) (bs := bs) hab hr, d, prev, prev', hp => by
    simp only [selectedOK, kwStep_shape d a b hab, hp]
    rw [selectedOK_shape_gen chk hchk as bs hr _ (some a) (some b) (hchk a b hab)]

theorem exactWsBefore_shape (v : Text) (k k' : FNode) (h : SameShape k k') :
    exactWsBefore v (some k') = exactWsBefore v (some k) := by
  cases k with
  | tok tt w => simp only [SameShape] at h; rw [h]
  | grp c cv ks =>
    simp only [SameShape] at h
    cases k' with
    | tok tt w => cases h
    | grp c' cv' ks' => rfl

/-- the value of `self.nl()` in state `st` -/
def rNlValue (cfg : RCfg) (st : RSt) : Text := 10 :: repeatText cfg.char (max 0 (rLeadingWs cfg st))

theorem rNl_eq (cfg : RCfg) (st : RSt) : rNl cfg st = .tok T.Whitespace (rNlValue cfg st) := by
  simp [rNl, rNlValue]

/-- **`_process_default`, exact form.**  Under the strong input hypothesis every selected keyword of the returned list is
directly preceded by a `Whitespace` leaf whose value is exactly `'\n' + char * max(0, leading_ws)` of the state in which the
list was processed: between the line break and the keyword there is nothing but the indentation. -/
theorem rDefault_breaks_exact (cfg : RCfg) (rec : RRec) (hrec : RecShape rec) (anc : List Cls) (pre : Text) (st : RSt)
    (stmts : Bool) (ks ks' : List FNode) (st' : RSt) (h : rDefault cfg rec anc pre st stmts ks = .ok (ks', st'))
    (hin : selectedOK rIsSplit noBreakBefore 0 none ks = true) :
    selectedOK rIsSplit (exactWsBefore (rNlValue cfg st)) 0 none ks' = true := by
  unfold rDefault at h
  have hshape := rMapKids_shape (rec anc) (fun p s n n' s' hh => hrec anc p s n n' s' hh) _ _ _ _ _ h
  rw [selectedOK_shape_gen _ (exactWsBefore_shape _) _ _ hshape 0 none none rfl]
  unfold rSplitKwds
  have hnl := isNlTok_rNl cfg st 0
  apply splitKwdsGo_selectedOK _ hnl noBreakBefore (exactWsBefore (rNlValue cfg st)) ?_ ?_ _ 0 [] (KwInv_nil _)
  · cases stmts with
    | false => exact hin
    | true =>
      simp only [if_true]
      exact rSplitStatementsGo_hyp _ hnl noBreakBefore ks 0 [] (KwInv_nil _) hin
  · rw [rNl_eq]; simp [exactWsBefore]
  · intro p hp he
    simp [noBreakBefore, he] at hp

/-- text form: a selected keyword `v` that follows such a leaf appears in `str(stmt)` as `… '\n' indentation v …` -/
theorem pair_text_exact (a' b : List FNode) (ind v : Text) (tt : TType) :
    FNode.textL (a' ++ [FNode.tok T.Whitespace (10 :: ind)] ++ FNode.tok tt v :: b)
      = FNode.textL a' ++ (10 :: ind) ++ v ++ FNode.textL b := by
  have happ : ∀ (x y : List FNode), FNode.textL (x ++ y) = FNode.textL x ++ FNode.textL y := by
    intro x y
    induction x with
    | nil => rfl
    | cons z x ih => simp [FNode.textL, ih]
  simp [happ, FNode.textL, FNode.text]


end Sql
