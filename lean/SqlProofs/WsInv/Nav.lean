import SqlProofs.WsInv.Basic
import SqlProofs.AccessorSpec
/-!
# SqlProofs.WsInv.Nav — the searches of `TokenList` find corresponding children in `ks` and in `skelL ks`
-/
namespace Sql

/-- every child of the skeleton comes from a non-whitespace child -/
theorem skelL_getElem_inv : ∀ (ks : List Node) (j' : Nat) (y : Node), (skelL ks)[j']? = some y →
    ∃ j x, ks[j]? = some x ∧ x.isWhitespace = false ∧ y = x.skel ∧ rank ks j = j' := by
  intro ks
  induction ks with
  | nil => intro j' y h; simp at h
  | cons k rest ih =>
    intro j' y h
    by_cases hw : k.isWhitespace = true
    · rw [skelL_cons_ws hw] at h
      obtain ⟨j, x, h1, h2, h3, h4⟩ := ih j' y h
      refine ⟨j + 1, x, by simpa using h1, h2, h3, ?_⟩
      unfold rank at h4 ⊢
      simp only [List.take_succ_cons, skelL_cons_ws hw]
      exact h4
    · have hw' : k.isWhitespace = false := by simpa using hw
      rw [skelL_cons_nws hw'] at h
      cases j' with
      | zero =>
        simp only [List.getElem?_cons_zero, Option.some.injEq] at h
        exact ⟨0, k, rfl, hw', h.symm, by simp [rank]⟩
      | succ j' =>
        simp only [List.getElem?_cons_succ] at h
        obtain ⟨j, x, h1, h2, h3, h4⟩ := ih j' y h
        refine ⟨j + 1, x, by simpa using h1, h2, h3, ?_⟩
        unfold rank at h4 ⊢
        simp only [List.take_succ_cons, skelL_cons_nws hw', List.length_cons]
        omega

theorem rank_lt_of_lt {ks : List Node} {j i : Nat} {x : Node} (hx : ks[j]? = some x) (hw : x.isWhitespace = false)
    (h : j < i) : rank ks j < rank ks i := by
  have := rank_mono ks (show j + 1 ≤ i by omega)
  rw [rank_succ hx hw] at this
  omega

/-- how results are translated -/
def trHit (ks : List Node) (p : Nat × Node) : Nat × Node := (rank ks p.1, p.2.skel)

/-- forward search with a predicate that no whitespace leaf satisfies and that does not look inside groups -/
theorem tokenMatchingFwd_skel {ks : List Node} {f : Node → Bool} (start : Nat)
    (hfw : ∀ x, x.isWhitespace = true → f x = false) (hfs : ∀ x, f x.skel = f x) :
    tokenMatchingFwd (skelL ks) f (rank ks start) = (tokenMatchingFwd ks f start).map (trHit ks) := by
  cases h : tokenMatchingFwd ks f start with
  | none =>
    simp only [Option.map_none]
    rw [(Acc.tokenMatchingFwd_spec (skelL ks) f (rank ks start)).2]
    have hn := (Acc.tokenMatchingFwd_spec ks f start).2.1 h
    intro j' y hj hy
    obtain ⟨j, x, h1, h2, rfl, h4⟩ := skelL_getElem_inv ks j' y hy
    rw [hfs]
    apply hn j x ?_ h1
    by_cases hlt : j < start
    · have := rank_lt_of_lt h1 h2 hlt
      omega
    · omega
  | some p =>
    obtain ⟨i, k⟩ := p
    simp only [Option.map_some, trHit]
    rw [(Acc.tokenMatchingFwd_spec (skelL ks) f (rank ks start)).1]
    obtain ⟨h1, h2, h3, h4⟩ := (Acc.tokenMatchingFwd_spec ks f start).1 i k |>.1 h
    have hkw : k.isWhitespace = false := by
      cases hk : k.isWhitespace with
      | false => rfl
      | true => rw [hfw k hk] at h3; cases h3
    refine ⟨rank_mono ks h1, getElem_rank h2 hkw, by rw [hfs]; exact h3, ?_⟩
    intro j' y hj hji hy
    obtain ⟨j, x, hx1, hx2, rfl, hx4⟩ := skelL_getElem_inv ks j' y hy
    rw [hfs]
    apply h4 j x ?_ ?_ hx1
    · by_cases hlt : j < start
      · have := rank_lt_of_lt hx1 hx2 hlt
        omega
      · omega
    · by_cases hge : i ≤ j
      · have := rank_mono ks hge
        omega
      · omega

theorem skipMatcher_ws (cm : Bool) {x : Node} (h : x.isWhitespace = true) : skipMatcher true cm x = false := by
  simp [skipMatcher, h]

/-- `token_next(idx)` from a non-whitespace position -/
theorem tokenNext_skel {ks : List Node} {t : Nat} {x : Node} (cm : Bool) (hx : ks[t]? = some x)
    (hw : x.isWhitespace = false) :
    tokenNext (skelL ks) (rank ks t) true cm = (tokenNext ks t true cm).map (trHit ks) := by
  unfold tokenNext
  rw [← rank_succ hx hw]
  exact tokenMatchingFwd_skel (t + 1) (fun y hy => skipMatcher_ws cm hy) (fun y => skel_skipMatcher _ _ y)

/-- `token_next_by(…, idx)` with a predicate no whitespace leaf satisfies -/
theorem tokenNextBy_skel {u : Text → Text} {ks : List Node} {i : List Cls} {m : List MPat} {t : TArg} (start : Nat)
    (hfw : ∀ x, x.isWhitespace = true → imt u x i m t = false) :
    tokenNextBy u (skelL ks) i m t (rank ks start) = (tokenNextBy u ks i m t start).map (trHit ks) := by
  unfold tokenNextBy
  exact tokenMatchingFwd_skel start hfw (fun y => skel_imt u y i m t)

/-- `token_prev(idx)` -/
theorem tokenPrev_skel {ks : List Node} (t : Nat) (cm : Bool) :
    tokenPrev (skelL ks) (rank ks t) true cm = (tokenPrev ks t true cm).map (trHit ks) := by
  cases h : tokenPrev ks t true cm with
  | none =>
    simp only [Option.map_none]
    rw [(Acc.tokenPrev_spec (skelL ks) (rank ks t) true cm).2]
    have hn := (Acc.tokenPrev_spec ks t true cm).2.1 h
    intro j' y hj hy
    obtain ⟨j, x, h1, h2, rfl, h4⟩ := skelL_getElem_inv ks j' y hy
    unfold Acc.Skipped at hn ⊢
    rw [skel_skipMatcher]
    apply hn j x ?_ h1
    by_cases hge : t ≤ j
    · have := rank_mono ks hge
      omega
    · omega
  | some p =>
    obtain ⟨i, k⟩ := p
    simp only [Option.map_some, trHit]
    rw [(Acc.tokenPrev_spec (skelL ks) (rank ks t) true cm).1]
    obtain ⟨h1, h2, h3, h4⟩ := (Acc.tokenPrev_spec ks t true cm).1 i k |>.1 h
    unfold Acc.Skipped at h3 h4 ⊢
    have hkw : k.isWhitespace = false := by
      cases hk : k.isWhitespace with
      | false => rfl
      | true => exact absurd (skipMatcher_ws cm hk) h3
    refine ⟨rank_lt_of_lt h2 hkw h1, getElem_rank h2 hkw, by rw [skel_skipMatcher]; exact h3, ?_⟩
    intro j' y hij hjt hy
    obtain ⟨j, x, hx1, hx2, rfl, hx4⟩ := skelL_getElem_inv ks j' y hy
    rw [skel_skipMatcher]
    apply h4 j x ?_ ?_ hx1
    · by_cases hle : j ≤ i
      · have := rank_mono ks hle
        omega
      · omega
    · by_cases hge : t ≤ j
      · have := rank_mono ks hge
        omega
      · omega

end Sql
