import SqlProofs.WsInv.Invariant
import SqlProofs.BracketsKept
import SqlProofs.Group.SpecShape
/-!
# SqlProofs.WsInv.Ends — the ends of a parenthesis/bracket group when `group_where` runs

`group_where` takes `_groupable_tokens[-1]` (= `tokens[-2]` inside a parenthesis) without looking at `tokens[-1]`; the
commutation with `skel` needs the first and the last child of every parenthesis/bracket group to be neither whitespace
nor `WHERE` (`whOKL`).  Here this is *proved* for the tree that `group_where` receives from a flat statement:

* leaf level (`lendL`): the first and the last **leaf** of every parenthesis/bracket group is a plain token.  The two
  bracket-matching passes establish it (the group is built from its opening to its closing punctuation, `Shape`), the
  four other matching passes and `group_over`/`group_functions` keep the leaves of every such group (`Rw.brackets`);
* a group whose first leaf is plain cannot have a whitespace token or `WHERE` as its first child (`whOKL_of_brackets`).
-/
namespace Sql

variable {u : Text → Text}

def plainTok (u : Text → Text) (t : Tok) : Bool := plainEnd u (Node.tok t.tt t.val)

/-- non-empty, first and last leaf plain -/
def endsLeaf (u : Text → Text) (l : List Tok) : Bool :=
  (match l[0]? with | some t => plainTok u t | none => false) &&
    (match l[l.length - 1]? with | some t => plainTok u t | none => false)

def innerCls' (c : Cls) : Bool := Gen.groupableInner.contains c

mutual
/-- every parenthesis/bracket group, at any depth, has plain first and last leaves -/
def lendN (u : Text → Text) : Node → Bool
  | .tok _ _ => true
  | .grp c ks => (!innerCls' c || endsLeaf u (Node.leavesL ks)) && lendL u ks
def lendL (u : Text → Text) : List Node → Bool
  | [] => true
  | k :: ks => lendN u k && lendL u ks
end

theorem lendL_iff (ks : List Node) : lendL u ks = true ↔ ∀ x ∈ ks, lendN u x = true := by
  induction ks with
  | nil => simp [lendL]
  | cons k rest ih => simp [lendL, ih]

/-! ### `LeafRel` keeps plain ends -/
theorem plainTok_operator (v : Text) : plainEnd u (Node.tok T.Operator v) = true := by
  simp (config := { decide := true }) [plainEnd, imt, Node.isInstAny, Node.matchP, Node.match, Node.isWhitespace,
    Gen.group_where_token_next_by0_m, T.Operator, TType.isIn, T.Whitespace]

theorem LeafRel1.plain {a b : Tok} (h : LeafRel1 a b) (ha : plainTok u a = true) : plainTok u b = true := by
  obtain ⟨hv, ht | ht⟩ := h
  · have : b = a := by cases a; cases b; simp_all
    rw [this]; exact ha
  · unfold plainTok; rw [ht]; exact plainTok_operator _

theorem LeafRel.get {a b : List Tok} (h : LeafRel a b) :
    ∀ (i : Nat) (x : Tok), a[i]? = some x → ∃ y, b[i]? = some y ∧ LeafRel1 x y := by
  induction h with
  | nil => intro i x hx; simp at hx
  | cons h1 _ ih =>
    intro i x hx
    cases i with
    | zero => simp at hx; subst hx; exact ⟨_, by simp, h1⟩
    | succ i => simp at hx ⊢; exact ih i x hx

theorem endsLeaf_leafRel {a b : List Tok} (h : LeafRel a b) (ha : endsLeaf u a = true) : endsLeaf u b = true := by
  simp only [endsLeaf, Bool.and_eq_true] at ha ⊢
  have hlen := h.length
  constructor
  · cases h0 : a[0]? with
    | none => simp [h0] at ha
    | some x =>
      obtain ⟨y, hy, hxy⟩ := h.get 0 x h0
      simp only [h0] at ha
      simp only [hy]; exact hxy.plain ha.1
  · cases h0 : a[a.length - 1]? with
    | none => simp [h0] at ha
    | some x =>
      obtain ⟨y, hy, hxy⟩ := h.get _ x h0
      simp only [h0] at ha
      rw [← hlen]
      simp only [hy]; exact hxy.plain ha.2

/-! ### from the leaves to the children -/
/-- the property as a property of the list of bracket/block groups -/
def BrEnds (u : Text → Text) (es : List (Cls × List Tok)) : Prop :=
  ∀ e ∈ es, innerCls' e.1 = true → endsLeaf u e.2 = true

mutual
theorem lendN_brackets : (n : Node) → lendN u n = true → BrEnds u n.brackets
  | .tok _ _, _ => by intro e he; simp at he
  | .grp c ks, h => by
    simp only [lendN, Bool.and_eq_true, Bool.or_eq_true, Bool.not_eq_true'] at h
    intro e he
    rw [brackets_grp] at he
    rcases List.mem_append.1 he with h1 | h1
    · split at h1
      · simp only [List.mem_singleton] at h1
        subst h1
        intro hi
        rcases h.1 with h2 | h2
        · rw [hi] at h2; cases h2
        · exact h2
      · cases h1
    · exact lendL_brackets ks h.2 e h1
theorem lendL_brackets : (ks : List Node) → lendL u ks = true → BrEnds u (bracketsL ks)
  | [], _ => by intro e he; simp at he
  | k :: ks, h => by
    simp only [lendL, Bool.and_eq_true] at h
    intro e he
    rw [bracketsL_cons] at he
    rcases List.mem_append.1 he with h1 | h1
    · exact lendN_brackets k h.1 e h1
    · exact lendL_brackets ks h.2 e h1
end

theorem BrAll.ends {a b : List (Cls × List Tok)} (h : BrAll false a b) (ha : BrEnds u a) : BrEnds u b := by
  induction h with
  | nil => intro e he; cases he
  | @cons e e' es es' hr _ ih =>
    intro x hx
    cases hx with
    | head =>
      intro hi
      obtain ⟨hc, l2, extra, he', hl, hx⟩ := hr
      rw [he', hx rfl, List.append_nil]
      exact endsLeaf_leafRel hl (ha e List.mem_cons_self (by rw [hc]; exact hi))
    | tail _ hx => exact ih (fun y hy => ha y (List.mem_cons_of_mem _ hy)) x hx

theorem plainEnd_grp (c : Cls) (k : List Node) : plainEnd u (Node.grp c k) = true := by
  simp [plainEnd, imt, Node.isInstAny, matchP_grp_fun, Node.isWhitespace]

theorem whLevel_of_endsLeaf {c : Cls} {ks : List Node} (h : endsLeaf u (Node.leavesL ks) = true) :
    whLevel u c ks = true := by
  simp only [endsLeaf, Bool.and_eq_true] at h
  simp only [whLevel, Bool.or_eq_true, Bool.and_eq_true]
  right
  cases ks with
  | nil => simp at h
  | cons f rest =>
    constructor
    · simp only [List.getElem?_cons_zero]
      cases f with
      | grp c' k' => exact plainEnd_grp _ _
      | tok tt v =>
        have := h.1
        simpa [plainTok] using this
    · have hne : f :: rest ≠ [] := by simp
      have hsplit : f :: rest = (f :: rest).dropLast ++ [(f :: rest).getLast hne] := (List.dropLast_concat_getLast hne).symm
      generalize (f :: rest).getLast hne = l at hsplit
      generalize (f :: rest).dropLast = ini at hsplit
      rw [hsplit] at h ⊢
      have e1 : (ini ++ [l])[(ini ++ [l]).length - 1]? = some l := by simp
      rw [e1]
      simp only
      cases l with
      | grp c' k' => exact plainEnd_grp _ _
      | tok tt v =>
        have h2 := h.2
        rw [leavesL_append] at h2
        simp only [leavesL_cons, leaves_tok, leavesL_nil, List.append_nil] at h2
        have e2 : (Node.leavesL ini ++ [(⟨tt, v⟩ : Tok)])[(Node.leavesL ini ++ [(⟨tt, v⟩ : Tok)]).length - 1]? =
            some ⟨tt, v⟩ := by simp
        rw [e2] at h2
        simpa [plainTok] using h2

mutual
theorem whOKN_of_brackets : (n : Node) → BrEnds u n.brackets → whOKN u n = true
  | .tok _ _, _ => rfl
  | .grp c ks, h => by
    rw [brackets_grp] at h
    simp only [whOKN, Bool.and_eq_true]
    refine ⟨?_, whOKL_of_brackets ks (fun e he => h e (List.mem_append_right _ he))⟩
    by_cases hi : innerCls' c = true
    · have hsix : sixCls c = true := by
        cases c <;> simp_all (config := { decide := true }) [innerCls', sixCls]
      apply whLevel_of_endsLeaf
      exact h (c, Node.leavesL ks) (List.mem_append_left _ (by simp [hsix])) hi
    · simp only [innerCls'] at hi
      have hi' : Gen.groupableInner.contains c = false := by simpa using hi
      simp only [whLevel, hi', Bool.not_false, Bool.true_or]
theorem whOKL_of_brackets : (ks : List Node) → BrEnds u (bracketsL ks) → whOKL u ks = true
  | [], _ => rfl
  | k :: ks, h => by
    rw [bracketsL_cons] at h
    simp only [whOKL, Bool.and_eq_true]
    exact ⟨whOKN_of_brackets k (fun e he => h e (List.mem_append_left _ he)),
      whOKL_of_brackets ks (fun e he => h e (List.mem_append_right _ he))⟩
end

/-! ### the matching passes establish and keep `lendL` -/
/-- a node that is a plain token -/
def PlainTokNode (u : Text → Text) (x : Node) : Prop := ∃ tt v, x = Node.tok tt v ∧ plainEnd u x = true

/-- the delimiters of a parenthesis/bracket class are plain tokens -/
def DelimPlain (u : Text → Text) (cls : Cls) (isOpen isClose : Node → Bool) : Prop :=
  innerCls' cls = true → (∀ x, isOpen x = true → PlainTokNode u x) ∧ (∀ x, isClose x = true → PlainTokNode u x)

theorem plainEnd_punct (v : Text) : plainEnd u (Node.tok T.Punctuation v) = true := by
  simp (config := { decide := true }) [plainEnd, imt, Node.isInstAny, Node.matchP, Node.match, Node.isWhitespace,
    Gen.group_where_token_next_by0_m, T.Punctuation, TType.isIn, T.Whitespace]

theorem plainTokNode_of_punct {x : Node} {vs : Option (List Text)} (h : x.matchP u ⟨T.Punctuation, vs⟩ = true) :
    PlainTokNode u x := by
  cases x with
  | grp c k => simp [Node.matchP, Node.match] at h
  | tok tt v =>
    have : tt = T.Punctuation := by
      simp only [Node.matchP, Node.match] at h
      by_cases ht : tt = T.Punctuation
      · exact ht
      · simp [ht] at h
    subst this
    exact ⟨_, _, rfl, plainEnd_punct v⟩

theorem delimPlain_tables {c : Cls} {mo mc : List MPat} (h : matchingTables c = some (mo, mc)) :
    DelimPlain u c (isOpenTok u c mo) (isCloseTok u c mo mc) := by
  intro hi
  have hcases : c = .Parenthesis ∨ c = .SquareBrackets := by
    cases c <;> simp_all (config := { decide := true }) [innerCls']
  rcases hcases with rfl | rfl
  · simp only [matchingTables, Option.some.injEq, Prod.mk.injEq] at h
    obtain ⟨rfl, rfl⟩ := h
    constructor
    · intro x hx
      simp only [isOpenTok, Gen.Parenthesis_M_OPEN, List.any_cons, List.any_nil, Bool.or_false, Bool.and_eq_true] at hx
      exact plainTokNode_of_punct hx.2
    · intro x hx
      simp only [isCloseTok, Gen.Parenthesis_M_CLOSE, List.any_cons, List.any_nil, Bool.or_false,
        Bool.and_eq_true] at hx
      exact plainTokNode_of_punct hx.2
  · simp only [matchingTables, Option.some.injEq, Prod.mk.injEq] at h
    obtain ⟨rfl, rfl⟩ := h
    constructor
    · intro x hx
      simp only [isOpenTok, Gen.SquareBrackets_M_OPEN, List.any_cons, List.any_nil, Bool.or_false,
        Bool.and_eq_true] at hx
      exact plainTokNode_of_punct hx.2
    · intro x hx
      simp only [isCloseTok, Gen.SquareBrackets_M_CLOSE, List.any_cons, List.any_nil, Bool.or_false,
        Bool.and_eq_true] at hx
      exact plainTokNode_of_punct hx.2

/-- one level of the textbook matcher -/
theorem lendN_shape {isOpen isClose : Node → Bool} {cls : Cls} {ts : List Node} (hd : DelimPlain u cls isOpen isClose)
    (hts : ∀ x ∈ ts, lendN u x = true) {g : Node} (h : Shape isOpen isClose cls ts g) : lendN u g = true := by
  induction h with
  | old hk => exact hts _ hk
  | @new o c mid ho hc hoo hcc _ ih =>
    simp only [lendN, Bool.and_eq_true, Bool.or_eq_true, Bool.not_eq_true']
    constructor
    · by_cases hi : innerCls' cls = true
      · right
        obtain ⟨h1, h2⟩ := hd hi
        obtain ⟨tt, v, rfl, hp⟩ := h1 o hoo
        obtain ⟨tt', v', rfl, hp'⟩ := h2 c hcc
        have e : Node.leavesL (Node.tok tt v :: (mid ++ [Node.tok tt' v'])) =
            (⟨tt, v⟩ : Tok) :: (Node.leavesL mid ++ [(⟨tt', v'⟩ : Tok)]) := by
          simp [leavesL_append]
        rw [e]
        simp only [endsLeaf, List.getElem?_cons_zero, Bool.and_eq_true]
        refine ⟨hp, ?_⟩
        have e2 : ((⟨tt, v⟩ : Tok) :: (Node.leavesL mid ++ [(⟨tt', v'⟩ : Tok)])) =
            ((⟨tt, v⟩ : Tok) :: Node.leavesL mid) ++ [(⟨tt', v'⟩ : Tok)] := rfl
        rw [e2]
        have e3 : ((((⟨tt, v⟩ : Tok) :: Node.leavesL mid) ++ [(⟨tt', v'⟩ : Tok)]))[
            ((((⟨tt, v⟩ : Tok) :: Node.leavesL mid) ++ [(⟨tt', v'⟩ : Tok)])).length - 1]? = some ⟨tt', v'⟩ := by simp
        rw [e3]
        exact hp'
      · left; simpa using hi
    · apply (lendL_iff _).2
      intro x hx
      cases hx with
      | head => exact hts _ ho
      | tail _ hx =>
        rcases List.mem_append.1 hx with h1 | h1
        · exact ih x h1
        · simp only [List.mem_singleton] at h1; subst h1; exact hts _ hc

theorem lendL_specMatch {isOpen isClose : Node → Bool} {cls : Cls} {ts : List Node}
    (hd : DelimPlain u cls isOpen isClose) (hts : lendL u ts = true) :
    lendL u (specMatch isOpen isClose cls ts) = true :=
  (lendL_iff _).2 fun _ hg => lendN_shape hd ((lendL_iff ts).1 hts) (specMatch_shape hg)

mutual
theorem specRecNode_leaves (isOpen isClose : Node → Bool) (cls : Cls) :
    (k : Node) → (specRecNode isOpen isClose cls k).leaves = k.leaves
  | .tok _ _ => by simp [specRecNode]
  | .grp c ks => by
    simp only [specRecNode]
    split
    · rfl
    · simp only [leaves_grp, specMatch_leaves]
      exact specRecList_leaves isOpen isClose cls ks
theorem specRecList_leaves (isOpen isClose : Node → Bool) (cls : Cls) :
    (ks : List Node) → Node.leavesL (specRecList isOpen isClose cls ks) = Node.leavesL ks
  | [] => by simp [specRecList]
  | k :: ks => by
    simp only [specRecList, leavesL_cons]
    rw [specRecNode_leaves isOpen isClose cls k, specRecList_leaves isOpen isClose cls ks]
end

mutual
theorem lendN_specRec {isOpen isClose : Node → Bool} {cls : Cls} (hd : DelimPlain u cls isOpen isClose) :
    (k : Node) → lendN u k = true → lendN u (specRecNode isOpen isClose cls k) = true
  | .tok _ _, _ => by simp [specRecNode, lendN]
  | .grp c ks, h => by
    simp only [specRecNode]
    split
    · exact h
    · simp only [lendN, Bool.and_eq_true] at h ⊢
      refine ⟨?_, lendL_specMatch hd (lendL_specRec hd ks h.2)⟩
      rw [specMatch_leaves, specRecList_leaves]
      exact h.1
theorem lendL_specRec {isOpen isClose : Node → Bool} {cls : Cls} (hd : DelimPlain u cls isOpen isClose) :
    (ks : List Node) → lendL u ks = true → lendL u (specRecList isOpen isClose cls ks) = true
  | [], _ => by simp [specRecList, lendL]
  | k :: ks, h => by
    simp only [lendL, Bool.and_eq_true] at h
    simp only [specRecList, lendL, Bool.and_eq_true]
    exact ⟨lendN_specRec hd k h.1, lendL_specRec hd ks h.2⟩
end

theorem matchingPassOf_lend (c : Cls) {fuel : Nat} {c' : Cls} {ks r : List Node}
    (h : matchingPassOf u c fuel c' ks = .ok r) (hl : lendL u ks = true) : lendL u r = true := by
  unfold matchingPassOf at h
  cases hc : matchingTables c with
  | none => simp [hc, unknownPass] at h
  | some p =>
    obtain ⟨mo, mc⟩ := p
    simp only [hc, matchingPass] at h
    rw [groupMatching_eq_spec fuel ks r h, specMatchRec]
    exact lendL_specMatch (delimPlain_tables hc) (lendL_specRec (delimPlain_tables hc) ks hl)

theorem PassLend.ite' {P : Pass → Prop} {c : Prop} [Decidable c] {a b : Pass} (ha : c → P a) (hb : ¬c → P b) :
    P (if c then a else b) := by
  by_cases h : c
  · rw [if_pos h]; exact ha h
  · rw [if_neg h]; exact hb h

theorem passByName_lend (name : String) (hm : isMatchingName name = true) :
    ∀ fuel c ks r, passByName u name fuel c ks = .ok r → lendL u ks = true → lendL u r = true := by
  unfold passByName
  repeat' (first | apply PassLend.ite' (P := fun p : Pass => ∀ fuel c ks r, p fuel c ks = .ok r →
      lendL u ks = true → lendL u r = true) | intro (_ : (_ == _) = true) | intro (_ : ¬ ((_ == _) = true)))
  all_goals first
    | exact fun fuel c ks r h hl => matchingPassOf_lend _ h hl
    | (exfalso; simp_all (config := { decide := true }) [isMatchingName])

theorem runPasses_lend {fuel : Nat} {c : Cls} : ∀ (names : List String) (ks r : List Node),
    (∀ n ∈ names, isMatchingName n = true) → runPasses u fuel c names ks = .ok r → lendL u ks = true →
    lendL u r = true := by
  intro names
  induction names with
  | nil => intro ks r _ h hl; simp [runPasses] at h; subst h; exact hl
  | cons p ps ih =>
    intro ks r hn h hl
    simp only [runPasses] at h
    cases hp : passByName u p fuel c ks with
    | error e => simp [hp] at h
    | ok ks1 =>
      simp only [hp] at h
      exact ih _ _ (fun n hn' => hn n (List.mem_cons_of_mem _ hn')) h
        (passByName_lend p (hn p List.mem_cons_self) fuel c ks ks1 hp hl)

/-- the later passes (not matching, not `align_comments`) keep the leaves of every bracket/block group -/
theorem runPasses_brEnds {fuel : Nat} {c : Cls} : ∀ (names : List String) (ks r : List Node),
    (∀ n ∈ names, isMatchingName n = false ∧ n ≠ "align_comments") → runPasses u fuel c names ks = .ok r →
    BrEnds u (bracketsL ks) → BrEnds u (bracketsL r) := by
  intro names
  induction names with
  | nil => intro ks r _ h hl; simp [runPasses] at h; subst h; exact hl
  | cons p ps ih =>
    intro ks r hn h hl
    simp only [runPasses] at h
    cases hp : passByName u p fuel c ks with
    | error e => simp [hp] at h
    | ok ks1 =>
      simp only [hp] at h
      obtain ⟨h1, h2⟩ := hn p List.mem_cons_self
      have hrw := passByName_rw u p false h1 (fun h => absurd h h2) fuel c ks ks1 hp
      exact ih _ _ (fun n hn' => hn n (List.mem_cons_of_mem _ hn')) h (hrw.brackets.1.ends hl)

theorem lendL_flat (st : List Tok) : lendL u (flatStatement st) = true := by
  apply (lendL_iff _).2
  intro x hx
  simp only [flatStatement, List.mem_map] at hx
  obtain ⟨t, _, rfl⟩ := hx
  rfl

end Sql
