import SqlProofs.WsInv.Group
import SqlProofs.WsInv.Driver
import SqlModel.Grouping.WsDomain
/-!
# SqlProofs.WsInv.AdHoc — the `while token:` passes commute with deleting the whitespace children

Every loop searches with `token_next_by` for a type/pattern/class no whitespace leaf has, and looks around with
`token_next`/`token_prev` (which skip whitespace): the iterations of the run on `ks` and of the run on `skelL ks`
correspond one to one.  The loop bound of the second run is smaller (`len (skelL ks) + 1`); that it still suffices
is carried along (`len' < n' + tidx'`).
-/
namespace Sql

variable {u : Text → Text}

/-- the type of a whitespace leaf starts with `Text.Whitespace` -/
theorem ws_type_form {t : TType} (h : t.isIn T.Whitespace = true) : ∃ rest, t = "Text" :: "Whitespace" :: rest := by
  unfold TType.isIn T.Whitespace at h
  match t, h with
  | [], h => simp [List.isPrefixOf] at h
  | [_], h => simp [List.isPrefixOf] at h
  | a :: b :: rest, h =>
    simp only [List.isPrefixOf, Bool.and_eq_true, beq_iff_eq, Bool.and_true] at h
    obtain ⟨rfl, rfl⟩ := h
    exact ⟨rest, rfl⟩

/-- what `group_tokens(a, b)` does to the skeleton's length and to the rank just after the group -/
theorem groupTokens_skel_len {ks ks' : List Node} {cls : Cls} {a b : Nat} {ext : Bool} {xa : Node}
    (h : groupTokens ks cls a b true ext = .ok ks') (hab : a ≤ b) (ha : ks[a]? = some xa)
    (hwa : xa.isWhitespace = false) :
    (skelL ks').length + rank ks (b + 1) = (skelL ks).length + rank ks a + 1 ∧
      rank ks' (a + 1) = rank ks a + 1 ∧ ∀ s, s ≤ a → rank ks' s = rank ks s := by
  obtain ⟨r, hr, rfl⟩ := groupTokens_eq h
  have hshape := groupTokens'_shape hr hab
  obtain ⟨hat, hinst, hlt⟩ := groupTokens'_at hr
  have hgw : r.2.isWhitespace = false := by
    cases hg : r.2 with
    | tok tt v => rw [hg] at hinst; simp [Node.isInst] at hinst
    | grp c kids => rfl
  have hle : a ≤ ks.length := by omega
  have htk : ∀ s, s ≤ a → r.1.take s = ks.take s := by
    intro s hs
    rw [hshape, List.take_append_of_le_length (by simp [List.length_take]; omega), List.take_take]
    simp [Nat.min_eq_left hs]
  refine ⟨?_, ?_, fun s hs => rank_congr_take (htk s hs)⟩
  · have h1 : skelL r.1 = skelL (ks.take a) ++ r.2.skel :: skelL (ks.drop (b + 1)) := by
      rw [hshape, skelL_append, skelL_cons_nws hgw]
    have h2 := drop_rank ks (b + 1)
    have h3 : ((skelL ks).drop (rank ks (b + 1))).length = (skelL ks).length - rank ks (b + 1) := by simp
    have h4 := rank_le_length ks (b + 1)
    rw [h1, List.length_append, List.length_cons, ← h2, h3]
    unfold rank at *
    omega
  · rw [rank_succ hat hgw, rank_congr_take (htk a (Nat.le_refl _))]

/-- tactic: `imt … = false` on a whitespace leaf, for constant arguments -/
macro "imt_ws_tac" x:ident hw:ident : tactic => `(tactic| (
  cases $x:ident with
  | grp c ks => cases $hw:ident
  | tok t v =>
    obtain ⟨rest, hrest⟩ := ws_type_form $hw:ident
    subst hrest
    simp (config := { decide := true }) [imt, Node.isInstAny, Node.isInst, Node.matchP, Node.match, Node.ttIn,
      Node.ttEqAny, TType.isIn, List.isPrefixOf]))

theorem over_m0_ws (x : Node) (hw : x.isWhitespace = true) :
    imt u x [] Gen.group_over_token_next_by0_m .none = false := by
  unfold Gen.group_over_token_next_by0_m; imt_ws_tac x hw
theorem over_m1_ws (x : Node) (hw : x.isWhitespace = true) :
    imt u x [] Gen.group_over_token_next_by1_m .none = false := by
  unfold Gen.group_over_token_next_by1_m; imt_ws_tac x hw

/-- the pending `(tidx, token)` is a non-whitespace child -/
def PendOk (ks : List Node) (pend : Option (Nat × Node)) : Prop :=
  ∀ t x, pend = some (t, x) → ks[t]? = some x ∧ x.isWhitespace = false

/-- the bound of the run on the skeleton suffices -/
def BoundOk (ks : List Node) (pend : Option (Nat × Node)) (n' : Nat) : Prop :=
  ∀ t x, pend = some (t, x) → (skelL ks).length < n' + rank ks t

theorem pendOk_nextBy {ks : List Node} {i : List Cls} {m : List MPat} {t : TArg} {s : Nat}
    (hfw : ∀ x, x.isWhitespace = true → imt u x i m t = false) : PendOk ks (tokenNextBy u ks i m t s) := by
  intro j x h
  obtain ⟨_, h2, h3⟩ := tokenNextBy_spec h
  refine ⟨h2, ?_⟩
  cases hx : x.isWhitespace with
  | false => rfl
  | true => rw [hfw x hx] at h3; cases h3

theorem boundOk_nextBy {ks : List Node} {i : List Cls} {m : List MPat} {t : TArg} {s n' : Nat}
    (h : (skelL ks).length < n' + rank ks s) : BoundOk ks (tokenNextBy u ks i m t s) n' := by
  intro j x hj
  obtain ⟨h1, _, _⟩ := tokenNextBy_spec hj
  have := rank_mono ks h1
  omega

theorem boundOk_init (ks : List Node) (pend : Option (Nat × Node)) : BoundOk ks pend (loopBound (skelL ks)) := by
  intro t x _
  unfold loopBound
  omega

/-! ### group_over -/
theorem overLoop_skel : ∀ (n : Nat) (ks : List Node) (pend : Option (Nat × Node)) (r : List Node) (n' : Nat),
    overLoop u n ks pend = .ok r → PendOk ks pend → BoundOk ks pend n' →
    overLoop u n' (skelL ks) (pend.map (trHit ks)) = .ok (skelL r) := by
  intro n
  induction n with
  | zero =>
    intro ks pend r n' h _ _
    cases pend with
    | none => simp only [overLoop, Except.ok.injEq] at h; subst h; cases n' <;> rfl
    | some p => simp [overLoop] at h
  | succ n ih =>
    intro ks pend r n' h hp hb
    cases pend with
    | none => simp only [overLoop, Except.ok.injEq] at h; subst h; cases n' <;> rfl
    | some p =>
      obtain ⟨tidx, tok⟩ := p
      obtain ⟨hx, hxw⟩ := hp tidx tok rfl
      have hbb := hb tidx tok rfl
      have hrl := rank_le_length ks (tidx + 1)
      have hrs := rank_succ hx hxw
      cases n' with
      | zero => omega
      | succ n' =>
        simp only [overLoop, Option.map_some, trHit] at h ⊢
        rw [tokenNext_skel false hx hxw]
        have hstay : ∀ r, overLoop u n ks (tokenNextBy u ks [] Gen.group_over_token_next_by1_m .none (tidx + 1)) = .ok r →
            overLoop u n' (skelL ks)
              (tokenNextBy u (skelL ks) [] Gen.group_over_token_next_by1_m .none (rank ks tidx + 1)) = .ok (skelL r) := by
          intro r h
          rw [← hrs, tokenNextBy_skel (tidx + 1) over_m1_ws]
          exact ih _ _ _ _ h (pendOk_nextBy over_m1_ws) (boundOk_nextBy (by omega))
        cases hnx : tokenNext ks tidx with
        | none =>
          simp only [hnx, Option.map_none] at h ⊢
          exact hstay r h
        | some q =>
          obtain ⟨nidx, next⟩ := q
          obtain ⟨hlt, hnext, _⟩ := tokenNext_hit hnx
          have hnw : next.isWhitespace = false := by
            have := (tokenMatchingFwd_hit hnx).2.2.1
            simpa [skipMatcher] using this
          simp only [hnx, Option.map_some, trHit, skel_imt] at h ⊢
          split at h
          · rename_i hc
            rw [if_pos hc]
            cases hg : groupTokens ks Gen.group_over_group_tokens0_cls tidx nidx true
                Gen.group_over_group_tokens0_extend with
            | error e => simp [hg] at h
            | ok ks' =>
              simp only [hg] at h
              rw [groupTokens_skel hg (by omega) hx hxw hnext hnw]
              simp only
              obtain ⟨hl1, hl2, hl3⟩ := groupTokens_skel_len hg (by omega : tidx ≤ nidx) hx hxw
              have hrn := rank_succ hnext hnw
              have hm := rank_mono ks (by omega : tidx + 1 ≤ nidx)
              rw [← hl3 tidx (Nat.le_refl _), ← (by rw [hl2, hl3 tidx (Nat.le_refl _)] : rank ks' (tidx + 1) = rank ks' tidx + 1),
                tokenNextBy_skel (tidx + 1) over_m1_ws]
              exact ih _ _ _ _ h (pendOk_nextBy over_m1_ws) (boundOk_nextBy (by omega))
          · rename_i hc
            rw [if_neg hc]
            exact hstay r h

theorem groupOverBody_skel : KidsSkel (groupOverBody u) := by
  intro c ks r h
  unfold groupOverBody at h ⊢
  have := overLoop_skel _ _ _ _ (loopBound (skelL ks)) h (pendOk_nextBy over_m0_ws) (boundOk_init _ _)
  rw [← tokenNextBy_skel 0 over_m0_ws] at this
  exact this

/-! ### group_identifier -/
theorem identifier_t_ws (x : Node) (hw : x.isWhitespace = true) :
    imt u x [] [] Gen.group_identifier_ttypes = false := by
  unfold Gen.group_identifier_ttypes; imt_ws_tac x hw

theorem identifierLoop_skel : ∀ (n : Nat) (ks : List Node) (pend : Option (Nat × Node)) (r : List Node) (n' : Nat),
    identifierLoop u n ks pend = .ok r → PendOk ks pend → BoundOk ks pend n' →
    identifierLoop u n' (skelL ks) (pend.map (trHit ks)) = .ok (skelL r) := by
  intro n
  induction n with
  | zero =>
    intro ks pend r n' h _ _
    cases pend with
    | none => simp only [identifierLoop, Except.ok.injEq] at h; subst h; cases n' <;> rfl
    | some p => simp [identifierLoop] at h
  | succ n ih =>
    intro ks pend r n' h hp hb
    cases pend with
    | none => simp only [identifierLoop, Except.ok.injEq] at h; subst h; cases n' <;> rfl
    | some p =>
      obtain ⟨tidx, tok⟩ := p
      obtain ⟨hx, hxw⟩ := hp tidx tok rfl
      have hbb := hb tidx tok rfl
      have hrs := rank_succ hx hxw
      cases n' with
      | zero => have := rank_le_length ks (tidx + 1); omega
      | succ n' =>
        simp only [identifierLoop, Option.map_some, trHit] at h ⊢
        cases hg : groupTokens ks Gen.group_identifier_group_tokens0_cls tidx tidx true
            Gen.group_identifier_group_tokens0_extend with
        | error e => simp [hg] at h
        | ok ks' =>
          simp only [hg] at h
          rw [groupTokens_skel hg (Nat.le_refl _) hx hxw hx hxw]
          simp only
          obtain ⟨hl1, hl2, hl3⟩ := groupTokens_skel_len hg (Nat.le_refl _) hx hxw
          rw [← hl3 tidx (Nat.le_refl _), ← (by rw [hl2, hl3 tidx (Nat.le_refl _)] : rank ks' (tidx + 1) = rank ks' tidx + 1),
            tokenNextBy_skel (tidx + 1) identifier_t_ws]
          exact ih _ _ _ _ h (pendOk_nextBy identifier_t_ws) (boundOk_nextBy (by omega))

theorem groupIdentifierBody_skel : KidsSkel (groupIdentifierBody u) := by
  intro c ks r h
  unfold groupIdentifierBody at h ⊢
  have := identifierLoop_skel _ _ _ _ (loopBound (skelL ks)) h (pendOk_nextBy identifier_t_ws) (boundOk_init _ _)
  rw [← tokenNextBy_skel 0 identifier_t_ws] at this
  exact this

/-! ### group_aliased -/
theorem aliased_t0_ws (x : Node) (hw : x.isWhitespace = true) :
    imt u x Gen.group_aliased_I_ALIAS [] Gen.group_aliased_token_next_by0_t = false := by
  unfold Gen.group_aliased_I_ALIAS Gen.group_aliased_token_next_by0_t; imt_ws_tac x hw
theorem aliased_t1_ws (x : Node) (hw : x.isWhitespace = true) :
    imt u x Gen.group_aliased_I_ALIAS [] Gen.group_aliased_token_next_by1_t = false := by
  unfold Gen.group_aliased_I_ALIAS Gen.group_aliased_token_next_by1_t; imt_ws_tac x hw

theorem tokenNext_nws {ks : List Node} {t n : Nat} {k : Node} {cm : Bool} (h : tokenNext ks t true cm = some (n, k)) :
    k.isWhitespace = false := by
  have := (tokenMatchingFwd_hit h).2.2.1
  cases hk : k.isWhitespace with
  | false => rfl
  | true => rw [skipMatcher_ws cm hk] at this; cases this

theorem aliasedLoop_skel : ∀ (n : Nat) (ks : List Node) (pend : Option (Nat × Node)) (r : List Node) (n' : Nat),
    aliasedLoop u n ks pend = .ok r → PendOk ks pend → BoundOk ks pend n' →
    aliasedLoop u n' (skelL ks) (pend.map (trHit ks)) = .ok (skelL r) := by
  intro n
  induction n with
  | zero =>
    intro ks pend r n' h _ _
    cases pend with
    | none => simp only [aliasedLoop, Except.ok.injEq] at h; subst h; cases n' <;> rfl
    | some p => simp [aliasedLoop] at h
  | succ n ih =>
    intro ks pend r n' h hp hb
    cases pend with
    | none => simp only [aliasedLoop, Except.ok.injEq] at h; subst h; cases n' <;> rfl
    | some p =>
      obtain ⟨tidx, tok⟩ := p
      obtain ⟨hx, hxw⟩ := hp tidx tok rfl
      have hbb := hb tidx tok rfl
      have hrl := rank_le_length ks (tidx + 1)
      have hrs := rank_succ hx hxw
      cases n' with
      | zero => omega
      | succ n' =>
        simp only [aliasedLoop, Option.map_some, trHit] at h ⊢
        rw [tokenNext_skel false hx hxw]
        have hstay : ∀ r, aliasedLoop u n ks (tokenNextBy u ks Gen.group_aliased_I_ALIAS []
              Gen.group_aliased_token_next_by1_t (tidx + 1)) = .ok r →
            aliasedLoop u n' (skelL ks) (tokenNextBy u (skelL ks) Gen.group_aliased_I_ALIAS []
              Gen.group_aliased_token_next_by1_t (rank ks tidx + 1)) = .ok (skelL r) := by
          intro r h
          rw [← hrs, tokenNextBy_skel (tidx + 1) aliased_t1_ws]
          exact ih _ _ _ _ h (pendOk_nextBy aliased_t1_ws) (boundOk_nextBy (by omega))
        cases hnx : tokenNext ks tidx with
        | none =>
          simp only [hnx, Option.map_none] at h ⊢
          exact hstay r h
        | some q =>
          obtain ⟨nidx, next⟩ := q
          obtain ⟨hlt, hnext, _⟩ := tokenNext_hit hnx
          have hnw : next.isWhitespace = false := tokenNext_nws hnx
          simp only [hnx, Option.map_some, trHit, skel_isInstAny] at h ⊢
          split at h
          · rename_i hc
            rw [if_pos hc]
            cases hg : groupTokens ks Gen.group_aliased_group_tokens0_cls tidx nidx true
                Gen.group_aliased_group_tokens0_extend with
            | error e => simp [hg] at h
            | ok ks' =>
              simp only [hg] at h
              rw [groupTokens_skel hg (by omega) hx hxw hnext hnw]
              simp only
              obtain ⟨hl1, hl2, hl3⟩ := groupTokens_skel_len hg (by omega : tidx ≤ nidx) hx hxw
              have hrn := rank_succ hnext hnw
              have hm := rank_mono ks (by omega : tidx + 1 ≤ nidx)
              rw [← hl3 tidx (Nat.le_refl _), ← (by rw [hl2, hl3 tidx (Nat.le_refl _)] : rank ks' (tidx + 1) = rank ks' tidx + 1),
                tokenNextBy_skel (tidx + 1) aliased_t1_ws]
              exact ih _ _ _ _ h (pendOk_nextBy aliased_t1_ws) (boundOk_nextBy (by omega))
          · rename_i hc
            rw [if_neg hc]
            exact hstay r h

theorem groupAliasedBody_skel : KidsSkel (groupAliasedBody u) := by
  intro c ks r h
  unfold groupAliasedBody at h ⊢
  have := aliasedLoop_skel _ _ _ _ (loopBound (skelL ks)) h (pendOk_nextBy aliased_t0_ws) (boundOk_init _ _)
  rw [← tokenNextBy_skel 0 aliased_t0_ws] at this
  exact this

/-! ### group_order -/
theorem order_t0_ws (x : Node) (hw : x.isWhitespace = true) :
    imt u x [] [] Gen.group_order_token_next_by0_t = false := by
  unfold Gen.group_order_token_next_by0_t; imt_ws_tac x hw
theorem order_t1_ws (x : Node) (hw : x.isWhitespace = true) :
    imt u x [] [] Gen.group_order_token_next_by1_t = false := by
  unfold Gen.group_order_token_next_by1_t; imt_ws_tac x hw

theorem tokenPrev_nws {ks : List Node} {t p : Nat} {k : Node} {cm : Bool} (h : tokenPrev ks t true cm = some (p, k)) :
    k.isWhitespace = false := by
  obtain ⟨_, _, h3, _⟩ := (Acc.tokenPrev_spec ks t true cm).1 p k |>.1 h
  unfold Acc.Skipped at h3
  cases hk : k.isWhitespace with
  | false => rfl
  | true => exact absurd (skipMatcher_ws cm hk) h3

theorem orderLoop_skel : ∀ (n : Nat) (ks : List Node) (pend : Option (Nat × Node)) (r : List Node) (n' : Nat),
    orderLoop u n ks pend = .ok r → PendOk ks pend → BoundOk ks pend n' →
    orderLoop u n' (skelL ks) (pend.map (trHit ks)) = .ok (skelL r) := by
  intro n
  induction n with
  | zero =>
    intro ks pend r n' h _ _
    cases pend with
    | none => simp only [orderLoop, Except.ok.injEq] at h; subst h; cases n' <;> rfl
    | some p => simp [orderLoop] at h
  | succ n ih =>
    intro ks pend r n' h hp hb
    cases pend with
    | none => simp only [orderLoop, Except.ok.injEq] at h; subst h; cases n' <;> rfl
    | some p =>
      obtain ⟨tidx, tok⟩ := p
      obtain ⟨hx, hxw⟩ := hp tidx tok rfl
      have hbb := hb tidx tok rfl
      have hrl := rank_le_length ks (tidx + 1)
      have hrs := rank_succ hx hxw
      cases n' with
      | zero => omega
      | succ n' =>
        simp only [orderLoop, Option.map_some, trHit] at h ⊢
        rw [tokenPrev_skel tidx false]
        have hstay : ∀ r, orderLoop u n ks (tokenNextBy u ks [] [] Gen.group_order_token_next_by1_t (tidx + 1)) = .ok r →
            orderLoop u n' (skelL ks)
              (tokenNextBy u (skelL ks) [] [] Gen.group_order_token_next_by1_t (rank ks tidx + 1)) = .ok (skelL r) := by
          intro r h
          rw [← hrs, tokenNextBy_skel (tidx + 1) order_t1_ws]
          exact ih _ _ _ _ h (pendOk_nextBy order_t1_ws) (boundOk_nextBy (by omega))
        cases hpv : tokenPrev ks tidx with
        | none =>
          simp only [hpv, Option.map_none] at h ⊢
          exact hstay r h
        | some q =>
          obtain ⟨pidx, prev⟩ := q
          obtain ⟨hlt, hprev⟩ := tokenPrev_hit hpv
          have hpw : prev.isWhitespace = false := tokenPrev_nws hpv
          simp only [hpv, Option.map_some, trHit, skel_imt] at h ⊢
          split at h
          · rename_i hc
            rw [if_pos hc]
            cases hg : groupTokens ks Gen.group_order_group_tokens0_cls pidx tidx true
                Gen.group_order_group_tokens0_extend with
            | error e => simp [hg] at h
            | ok ks' =>
              simp only [hg] at h
              rw [groupTokens_skel hg (by omega) hprev hpw hx hxw]
              simp only
              obtain ⟨hl1, hl2, hl3⟩ := groupTokens_skel_len hg (by omega : pidx ≤ tidx) hprev hpw
              rw [← hl3 pidx (Nat.le_refl _), ← (by rw [hl2, hl3 pidx (Nat.le_refl _)] : rank ks' (pidx + 1) = rank ks' pidx + 1),
                tokenNextBy_skel (pidx + 1) order_t1_ws]
              exact ih _ _ _ _ h (pendOk_nextBy order_t1_ws) (boundOk_nextBy (by omega))
          · rename_i hc
            rw [if_neg hc]
            exact hstay r h

theorem groupOrderBody_skel : KidsSkel (groupOrderBody u) := by
  intro c ks r h
  unfold groupOrderBody at h ⊢
  have := orderLoop_skel _ _ _ _ (loopBound (skelL ks)) h (pendOk_nextBy order_t0_ws) (boundOk_init _ _)
  rw [← tokenNextBy_skel 0 order_t0_ws] at this
  exact this

/-! ### group_functions (the loop; the `CREATE TABLE` test is a hypothesis, see `WsInv/Invariant.lean`) -/
theorem functions_t0_ws (x : Node) (hw : x.isWhitespace = true) :
    imt u x [] [] Gen.group_functions_token_next_by0_t = false := by
  unfold Gen.group_functions_token_next_by0_t; imt_ws_tac x hw
theorem functions_t1_ws (x : Node) (hw : x.isWhitespace = true) :
    imt u x [] [] Gen.group_functions_token_next_by1_t = false := by
  unfold Gen.group_functions_token_next_by1_t; imt_ws_tac x hw

theorem functionsLoop_skel : ∀ (n : Nat) (ks : List Node) (pend : Option (Nat × Node)) (r : List Node) (n' : Nat),
    functionsLoop u n ks pend = .ok r → PendOk ks pend → BoundOk ks pend n' →
    functionsLoop u n' (skelL ks) (pend.map (trHit ks)) = .ok (skelL r) := by
  intro n
  induction n with
  | zero =>
    intro ks pend r n' h _ _
    cases pend with
    | none => simp only [functionsLoop, Except.ok.injEq] at h; subst h; cases n' <;> rfl
    | some p => simp [functionsLoop] at h
  | succ n ih =>
    intro ks pend r n' h hp hb
    cases pend with
    | none => simp only [functionsLoop, Except.ok.injEq] at h; subst h; cases n' <;> rfl
    | some p =>
      obtain ⟨tidx, tok⟩ := p
      obtain ⟨hx, hxw⟩ := hp tidx tok rfl
      have hbb := hb tidx tok rfl
      have hrl := rank_le_length ks (tidx + 1)
      have hrs := rank_succ hx hxw
      cases n' with
      | zero => omega
      | succ n' =>
        simp only [functionsLoop, Option.map_some, trHit] at h ⊢
        rw [tokenNext_skel false hx hxw]
        have hstay : ∀ r, functionsLoop u n ks (tokenNextBy u ks [] [] Gen.group_functions_token_next_by1_t (tidx + 1)) = .ok r →
            functionsLoop u n' (skelL ks)
              (tokenNextBy u (skelL ks) [] [] Gen.group_functions_token_next_by1_t (rank ks tidx + 1)) = .ok (skelL r) := by
          intro r h
          rw [← hrs, tokenNextBy_skel (tidx + 1) functions_t1_ws]
          exact ih _ _ _ _ h (pendOk_nextBy functions_t1_ws) (boundOk_nextBy (by omega))
        have hgo : ∀ (eidx : Nat) (xe : Node) (ks' : List Node), ks[eidx]? = some xe → xe.isWhitespace = false →
            tidx ≤ eidx →
            groupTokens ks Gen.group_functions_group_tokens0_cls tidx eidx true
              Gen.group_functions_group_tokens0_extend = .ok ks' →
            groupTokens (skelL ks) Gen.group_functions_group_tokens0_cls (rank ks tidx) (rank ks eidx) true
              Gen.group_functions_group_tokens0_extend = .ok (skelL ks') ∧
            ∀ r, functionsLoop u n ks' (tokenNextBy u ks' [] [] Gen.group_functions_token_next_by1_t (tidx + 1)) = .ok r →
              functionsLoop u n' (skelL ks')
                (tokenNextBy u (skelL ks') [] [] Gen.group_functions_token_next_by1_t (rank ks tidx + 1)) =
                  .ok (skelL r) := by
          intro eidx xe ks' hxe hxew hle hg
          refine ⟨groupTokens_skel hg hle hx hxw hxe hxew, ?_⟩
          intro r h
          obtain ⟨hl1, hl2, hl3⟩ := groupTokens_skel_len hg hle hx hxw
          have hm := rank_mono ks (by omega : tidx + 1 ≤ eidx + 1)
          rw [← hl3 tidx (Nat.le_refl _), ← (by rw [hl2, hl3 tidx (Nat.le_refl _)] : rank ks' (tidx + 1) = rank ks' tidx + 1),
            tokenNextBy_skel (tidx + 1) functions_t1_ws]
          exact ih _ _ _ _ h (pendOk_nextBy functions_t1_ws) (boundOk_nextBy (by omega))
        cases hnx : tokenNext ks tidx with
        | none =>
          simp only [hnx, Option.map_none] at h ⊢
          exact hstay r h
        | some q =>
          obtain ⟨nidx, next⟩ := q
          obtain ⟨hlt, hnext, _⟩ := tokenNext_hit hnx
          have hnw : next.isWhitespace = false := tokenNext_nws hnx
          simp only [hnx, Option.map_some, trHit, skel_isInstAny] at h ⊢
          split at h
          · rename_i hc
            rw [if_pos hc, tokenNext_skel false hnext hnw]
            cases hov : tokenNext ks nidx with
            | none =>
              simp only [hov, Option.map_none] at h ⊢
              cases hg : groupTokens ks Gen.group_functions_group_tokens0_cls tidx nidx true
                  Gen.group_functions_group_tokens0_extend with
              | error e => simp [hg] at h
              | ok ks' =>
                simp only [hg] at h
                obtain ⟨e1, e2⟩ := hgo nidx next ks' hnext hnw (by omega) hg
                rw [e1]
                exact e2 r h
            | some q2 =>
              obtain ⟨oidx, over⟩ := q2
              obtain ⟨hlt2, hover, _⟩ := tokenNext_hit hov
              have how : over.isWhitespace = false := tokenNext_nws hov
              simp only [hov, Option.map_some, trHit, skel_isInstAny] at h ⊢
              by_cases hio : over.isInstAny Gen.group_functions_isinstance1 = true
              · simp only [hio, ↓reduceIte] at h ⊢
                cases hg : groupTokens ks Gen.group_functions_group_tokens0_cls tidx oidx true
                    Gen.group_functions_group_tokens0_extend with
                | error e => simp [hg] at h
                | ok ks' =>
                  simp only [hg] at h
                  obtain ⟨e1, e2⟩ := hgo oidx over ks' hover how (by omega) hg
                  rw [e1]
                  exact e2 r h
              · simp only [hio, Bool.false_eq_true, ↓reduceIte] at h ⊢
                cases hg : groupTokens ks Gen.group_functions_group_tokens0_cls tidx nidx true
                    Gen.group_functions_group_tokens0_extend with
                | error e => simp [hg] at h
                | ok ks' =>
                  simp only [hg] at h
                  obtain ⟨e1, e2⟩ := hgo nidx next ks' hnext hnw (by omega) hg
                  rw [e1]
                  exact e2 r h
          · rename_i hc
            rw [if_neg hc]
            exact hstay r h

/-- `group_functions` at one level, given that the `CREATE TABLE` test has the same outcome -/
theorem groupFunctionsBody_skel {c : Cls} {ks r : List Node} (hs : functionsSkip u (skelL ks) = functionsSkip u ks)
    (h : groupFunctionsBody u c ks = .ok r) : groupFunctionsBody u c (skelL ks) = .ok (skelL r) := by
  unfold groupFunctionsBody at h ⊢
  rw [hs]
  split at h
  · rename_i hc
    rw [if_pos hc]
    cases h; rfl
  · rename_i hc
    rw [if_neg hc]
    have := functionsLoop_skel _ _ _ _ (loopBound (skelL ks)) h (pendOk_nextBy functions_t0_ws) (boundOk_init _ _)
    rw [← tokenNextBy_skel 0 functions_t0_ws] at this
    exact this

/-! ### group_values -/
theorem values_m_ws (x : Node) (hw : x.isWhitespace = true) :
    imt u x [] Gen.group_values_token_next_by0_m .none = false := by
  unfold Gen.group_values_token_next_by0_m; imt_ws_tac x hw

theorem valuesLoop_skel : ∀ (n : Nat) (ks : List Node) (pend : Option (Nat × Node)) (e r : Option Nat) (n' : Nat),
    valuesLoop n ks pend e = .ok r → PendOk ks pend → BoundOk ks pend n' →
    valuesLoop n' (skelL ks) (pend.map (trHit ks)) (e.map (rank ks)) = .ok (r.map (rank ks)) ∧
      ∀ en, r = some en → e = some en ∨
        ∃ t x y, pend = some (t, x) ∧ t ≤ en ∧ ks[en]? = some y ∧ y.isWhitespace = false := by
  intro n
  induction n with
  | zero =>
    intro ks pend e r n' h _ _
    cases pend with
    | none =>
      simp only [valuesLoop, Except.ok.injEq] at h; subst h
      exact ⟨by cases n' <;> rfl, fun en h => Or.inl h⟩
    | some p => simp [valuesLoop] at h
  | succ n ih =>
    intro ks pend e r n' h hp hb
    cases pend with
    | none =>
      simp only [valuesLoop, Except.ok.injEq] at h; subst h
      exact ⟨by cases n' <;> rfl, fun en h => Or.inl h⟩
    | some p =>
      obtain ⟨tidx, tok⟩ := p
      obtain ⟨hx, hxw⟩ := hp tidx tok rfl
      have hbb := hb tidx tok rfl
      have hrl := rank_le_length ks (tidx + 1)
      have hrs := rank_succ hx hxw
      cases n' with
      | zero => omega
      | succ n' =>
        simp only [valuesLoop, Option.map_some, trHit] at h ⊢
        have hp2 : PendOk ks (tokenNext ks tidx) := by
          intro j y hj
          exact ⟨(tokenNext_hit hj).2.1, tokenNext_nws hj⟩
        have hb2 : BoundOk ks (tokenNext ks tidx) n' := by
          intro j y hj
          have := rank_mono ks (by have := (tokenNext_hit hj).1; omega : tidx + 1 ≤ j)
          omega
        obtain ⟨h1, h2⟩ := ih _ _ _ _ n' h hp2 hb2
        refine ⟨?_, ?_⟩
        · rw [tokenNext_skel false hx hxw, skel_isInstAny]
          have e1 : (if tok.isInstAny Gen.group_values_isinstance0 = true then some (rank ks tidx)
              else Option.map (rank ks) e) =
              Option.map (rank ks) (if tok.isInstAny Gen.group_values_isinstance0 = true then some tidx else e) := by
            split <;> rfl
          rw [e1]
          exact h1
        · intro en hen
          rcases h2 en hen with h3 | ⟨t, x, y, h3, h4, h5, h6⟩
          · split at h3
            · simp only [Option.some.injEq] at h3
              subst h3
              exact Or.inr ⟨tidx, tok, tok, rfl, Nat.le_refl _, hx, hxw⟩
            · exact Or.inl h3
          · have := (tokenNext_hit h3).1
            exact Or.inr ⟨tidx, tok, y, rfl, by omega, h5, h6⟩

theorem groupValuesBody_skel : KidsSkel (groupValuesBody u) := by
  intro c ks r h
  unfold groupValuesBody at h ⊢
  have e0 := tokenNextBy_skel (u := u) (ks := ks) 0 values_m_ws
  have hr0 : rank ks 0 = 0 := by simp [rank]
  rw [hr0] at e0
  rw [e0]
  cases hnb : tokenNextBy u ks [] Gen.group_values_token_next_by0_m .none 0 with
  | none =>
    simp only [hnb, Except.ok.injEq] at h
    subst h
    rfl
  | some q =>
    obtain ⟨startIdx, token⟩ := q
    simp only [hnb] at h
    simp only [Option.map_some, trHit]
    have hp : PendOk ks (some (startIdx, token)) := by
      rw [← hnb]; exact pendOk_nextBy values_m_ws
    obtain ⟨hx, hxw⟩ := hp startIdx token rfl
    cases hv : valuesLoop (loopBound ks) ks (some (startIdx, token)) none with
    | error e => simp [hv] at h
    | ok re =>
      obtain ⟨h1, h2⟩ := valuesLoop_skel _ _ _ _ _ (loopBound (skelL ks)) hv hp (boundOk_init _ _)
      simp only [Option.map_some, Option.map_none, trHit] at h1
      rw [h1]
      cases re with
      | none =>
        simp only [hv, Except.ok.injEq] at h
        subst h
        rfl
      | some endIdx =>
        simp only [hv] at h
        simp only [Option.map_some]
        rcases h2 endIdx rfl with h3 | ⟨t, x, y, h3, h4, h5, h6⟩
        · cases h3
        · simp only [Option.some.injEq, Prod.mk.injEq] at h3
          obtain ⟨rfl, rfl⟩ := h3
          exact groupTokens_skel h h4 hx hxw h5 h6

/-! ### group_where

`group_where` is the one place where the *last* child of a list is used without looking at it:
`tlist._groupable_tokens[-1]`, which for a parenthesis/bracket group is `tokens[-2]`.  The clause then extends to the
child before the closing bracket — provided the last child *is* the closing bracket.  `EndsOk`: in a
parenthesis/bracket group the first and the last child are neither whitespace nor the keyword `WHERE`. -/
theorem where_m0_ws (x : Node) (hw : x.isWhitespace = true) :
    imt u x [] Gen.group_where_token_next_by0_m .none = false := by
  unfold Gen.group_where_token_next_by0_m; imt_ws_tac x hw
theorem where_m1_ws (x : Node) (hw : x.isWhitespace = true) :
    imt u x [] Gen.group_where_token_next_by1_m .none = false := by
  unfold Gen.group_where_token_next_by1_m; imt_ws_tac x hw
theorem where_m2_ws (x : Node) (hw : x.isWhitespace = true) :
    imt u x [] Gen.group_where_token_next_by2_m .none = false := by
  unfold Gen.group_where_token_next_by2_m; imt_ws_tac x hw

def EndsOk (u : Text → Text) (c : Cls) (ks : List Node) : Prop :=
  Gen.groupableInner.contains c = true →
    (∃ f, ks[0]? = some f ∧ plainEnd u f = true) ∧ (∃ l, ks[ks.length - 1]? = some l ∧ plainEnd u l = true)

theorem rank_zero (ks : List Node) : rank ks 0 = 0 := by simp [rank]

theorem groupTokens_skel_gen {ks ks' : List Node} {cls : Cls} {a b e' : Nat} {ext : Bool} {xa : Node}
    (h : groupTokens ks cls a b true ext = .ok ks') (hab : a ≤ b)
    (ha : ks[a]? = some xa) (hwa : xa.isWhitespace = false) (hrb1 : e' + 1 = rank ks (b + 1)) :
    groupTokens (skelL ks) cls (rank ks a) e' true ext = .ok (skelL ks') := by
  obtain ⟨r, hr, rfl⟩ := groupTokens_eq h
  unfold groupTokens
  rw [groupTokens'_skel_gen hr hab ha hwa hrb1]

theorem whereEnd_skel {c : Cls} {ks : List Node} {tidx b : Nat} {x : Node} (h : whereEnd u c ks tidx = .ok b)
    (hx : ks[tidx]? = some x) (hxw : x.isWhitespace = false)
    (hxm : imt u x [] Gen.group_where_token_next_by0_m .none = true) (he : EndsOk u c ks) :
    ∃ e', whereEnd u c (skelL ks) (rank ks tidx) = .ok e' ∧ e' + 1 = rank ks (b + 1) ∧ tidx ≤ b ∧
      b + 1 ≤ ks.length ∧ (Gen.groupableInner.contains c = true → b + 2 ≤ ks.length ∧ 1 ≤ tidx) := by
  have hlt : tidx < ks.length := (List.getElem?_eq_some_iff.1 hx).1
  have hrs := rank_succ hx hxw
  have hinner : Gen.groupableInner.contains c = true → 1 ≤ tidx ∧ tidx + 2 ≤ ks.length ∧
      rank ks (ks.length - 1) + 1 = (skelL ks).length ∧ 1 ≤ rank ks tidx := by
    intro hc
    obtain ⟨⟨f, hf, hfp⟩, ⟨l, hl, hlp⟩⟩ := he hc
    simp only [plainEnd, Bool.and_eq_true, Bool.not_eq_true'] at hfp hlp
    have h0 : tidx ≠ 0 := by
      intro h0; subst h0
      rw [hx] at hf; cases hf
      rw [hxm] at hfp; exact absurd hfp.2 (by simp)
    have h1 : tidx ≠ ks.length - 1 := by
      intro h1
      rw [← h1, hx] at hl; cases hl
      rw [hxm] at hlp; exact absurd hlp.2 (by simp)
    have hr1 : rank ks 1 = 1 := by
      have := rank_succ hf hfp.1
      rw [rank_zero] at this
      simpa using this
    have hrl := rank_succ hl hlp.1
    have e : ks.length - 1 + 1 = ks.length := by omega
    rw [e, rank_of_ge (Nat.le_refl _)] at hrl
    have := rank_mono ks (by omega : 1 ≤ tidx)
    exact ⟨by omega, by omega, hrl.symm, by omega⟩
  unfold whereEnd at h ⊢
  rw [← hrs, tokenNextBy_skel (tidx + 1) where_m1_ws]
  cases hnb : tokenNextBy u ks [] Gen.group_where_token_next_by1_m .none (tidx + 1) with
  | some q =>
    obtain ⟨eidx, k⟩ := q
    obtain ⟨h1, h2, h3⟩ := tokenNextBy_spec hnb
    have hkl : eidx < ks.length := (List.getElem?_eq_some_iff.1 h2).1
    have hm := rank_mono ks h1
    simp only [hnb, Option.map_some, trHit] at h ⊢
    rw [if_pos (by omega : eidx ≥ 1)] at h
    rw [if_pos (by omega : rank ks eidx ≥ 1)]
    simp only [Except.ok.injEq] at h
    subst h
    refine ⟨_, rfl, ?_, by omega, by omega, fun hc => ⟨by omega, (hinner hc).1⟩⟩
    have : eidx - 1 + 1 = eidx := by omega
    rw [this]; omega
  | none =>
    simp only [hnb, Option.map_none] at h ⊢
    unfold groupableLastIdx at h ⊢
    by_cases hc : Gen.groupableInner.contains c = true
    · rw [if_pos hc] at h ⊢
      obtain ⟨i1, i2, i3, i4⟩ := hinner hc
      have hm := rank_mono ks (by omega : tidx + 1 ≤ ks.length - 1)
      split at h
      · simp only [Except.ok.injEq] at h
        subst h
        rw [if_pos (by omega : (skelL ks).length ≥ 3)]
        refine ⟨_, rfl, ?_, by omega, by omega, fun _ => ⟨by omega, i1⟩⟩
        have : ks.length - 2 + 1 = ks.length - 1 := by omega
        rw [this]; omega
      · cases h
    · rw [if_neg hc] at h ⊢
      have hl' := rank_le_length ks (tidx + 1)
      split at h
      · simp only [Except.ok.injEq] at h
        subst h
        rw [if_pos (by omega : (skelL ks).length ≥ 1)]
        refine ⟨_, rfl, ?_, by omega, by omega, fun h => absurd h hc⟩
        have : ks.length - 1 + 1 = ks.length := by omega
        rw [this, rank_of_ge (Nat.le_refl _)]; omega
      · cases h

theorem whereLoop_skel {c : Cls} : ∀ (n : Nat) (ks : List Node) (pend : Option (Nat × Node)) (r : List Node) (n' : Nat),
    whereLoop u c n ks pend = .ok r → PendOk ks pend →
    (∀ t x, pend = some (t, x) → imt u x [] Gen.group_where_token_next_by0_m .none = true) →
    BoundOk ks pend n' → EndsOk u c ks →
    whereLoop u c n' (skelL ks) (pend.map (trHit ks)) = .ok (skelL r) := by
  intro n
  induction n with
  | zero =>
    intro ks pend r n' h _ _ _ _
    cases pend with
    | none => simp only [whereLoop, Except.ok.injEq] at h; subst h; cases n' <;> rfl
    | some p => simp [whereLoop] at h
  | succ n ih =>
    intro ks pend r n' h hp hpm hb he
    cases pend with
    | none => simp only [whereLoop, Except.ok.injEq] at h; subst h; cases n' <;> rfl
    | some p =>
      obtain ⟨tidx, tok⟩ := p
      obtain ⟨hx, hxw⟩ := hp tidx tok rfl
      have hxm := hpm tidx tok rfl
      have hbb := hb tidx tok rfl
      have hrl := rank_le_length ks (tidx + 1)
      have hrs := rank_succ hx hxw
      cases n' with
      | zero => omega
      | succ n' =>
        simp only [whereLoop, Option.map_some, trHit] at h ⊢
        cases hwe : whereEnd u c ks tidx with
        | error e => simp [hwe] at h
        | ok b =>
          simp only [hwe] at h
          obtain ⟨e', he1, he2, he3, he4, he5⟩ := whereEnd_skel hwe hx hxw hxm he
          rw [he1]
          simp only
          cases hg : groupTokens ks Gen.group_where_group_tokens0_cls tidx b true
              Gen.group_where_group_tokens0_extend with
          | error e => simp [hg] at h
          | ok ks' =>
            simp only [hg] at h
            rw [groupTokens_skel_gen hg he3 hx hxw he2]
            simp only
            obtain ⟨hl1, hl2, hl3⟩ := groupTokens_skel_len hg he3 hx hxw
            have hm := rank_mono ks (by omega : tidx + 1 ≤ b + 1)
            rw [← hl3 tidx (Nat.le_refl _), ← (by rw [hl2, hl3 tidx (Nat.le_refl _)] : rank ks' (tidx + 1) = rank ks' tidx + 1),
              tokenNextBy_skel (tidx + 1) where_m2_ws]
            refine ih _ _ _ _ h (pendOk_nextBy where_m2_ws) ?_ (boundOk_nextBy (by omega)) ?_
            · intro t x hh
              exact (tokenNextBy_spec hh).2.2
            · -- the ends of the list are untouched
              intro hc
              obtain ⟨⟨f, hf, hfp⟩, ⟨l, hl, hlp⟩⟩ := he hc
              obtain ⟨i1, i2⟩ := he5 hc
              obtain ⟨rr, hr, rfl⟩ := groupTokens_eq hg
              have hshape := groupTokens'_shape hr he3
              have hlt : tidx < ks.length := (List.getElem?_eq_some_iff.1 hx).1
              have hlen : rr.1.length = tidx + 1 + (ks.length - (b + 1)) := by
                rw [hshape]; simp [List.length_take]; omega
              refine ⟨⟨f, ?_, hfp⟩, ⟨l, ?_, hlp⟩⟩
              · rw [hshape, List.getElem?_append_left (by simp [List.length_take]; omega), List.getElem?_take]
                simp [i2, hf]
                omega
              · rw [hlen, hshape, List.getElem?_append_right (by simp [List.length_take]; omega)]
                have e1 : tidx + 1 + (ks.length - (b + 1)) - 1 - (List.take tidx ks).length =
                    (ks.length - (b + 1) - 1) + 1 := by
                  simp [List.length_take]; omega
                rw [e1, List.getElem?_cons_succ, List.getElem?_drop]
                have e2 : b + 1 + (ks.length - (b + 1) - 1) = ks.length - 1 := by omega
                rw [e2]; exact hl

/-- `group_where` at one level -/
theorem groupWhereBody_skel {c : Cls} {ks r : List Node} (he : EndsOk u c ks)
    (h : groupWhereBody u c ks = .ok r) : groupWhereBody u c (skelL ks) = .ok (skelL r) := by
  unfold groupWhereBody at h ⊢
  have := whereLoop_skel _ _ _ _ (loopBound (skelL ks)) h (pendOk_nextBy where_m0_ws)
    (fun t x hh => (tokenNextBy_spec hh).2.2) (boundOk_init _ _) he
  rw [← tokenNextBy_skel 0 where_m0_ws] at this
  exact this

end Sql
