import SqlProofs.WsInv.Driver
/-!
# SqlProofs.WsInv.DriverPasses — `PostS` for the ten `_group` configurations other than `group_assignment`
-/
namespace Sql

variable {u : Text → Text}

/-! ### the `post` functions -/
theorem shape_id {cur : List Node} {t : Nat} {y : Node} (hy : cur[t]? = some y) (hw : y.isWhitespace = false) :
    ∃ y1, y1.isWhitespace = false ∧ cur = cur.take t ++ y1 :: cur.drop (t + 1) :=
  ⟨y, hw, list_split_at hy⟩

theorem postPrevNext_shape {cur : List Node} {p t : Nat} {n : Option Nat} {r : List Node × Nat × Nat} {y : Node}
    (h : postPrevNext cur p t n = .ok r) (hy : cur[t]? = some y) (hw : y.isWhitespace = false) :
    (r.2.1 = p ∨ r.2.1 = t) ∧ (r.2.2 = t ∨ ∃ n', n = some n' ∧ r.2.2 = n') ∧
      ∃ y1, y1.isWhitespace = false ∧ r.1 = cur.take t ++ y1 :: cur.drop (t + 1) := by
  unfold postPrevNext at h
  cases n with
  | none => simp at h
  | some n' =>
    simp only [Except.ok.injEq] at h
    subst h
    exact ⟨Or.inl rfl, Or.inr ⟨n', rfl, rfl⟩, shape_id hy hw⟩

theorem postPrevNext_skel {cur : List Node} {p t : Nat} {n : Option Nat} {r : List Node × Nat × Nat}
    (h : postPrevNext cur p t n = .ok r) :
    postPrevNext (skelL cur) (rank cur p) (rank cur t) (n.map (rank cur)) =
      .ok (skelL r.1, rank cur r.2.1, rank cur r.2.2) := by
  unfold postPrevNext at h ⊢
  cases n with
  | none => simp at h
  | some n' =>
    simp only [Except.ok.injEq] at h
    subst h
    rfl

theorem postTokNext_shape {cur : List Node} {p t : Nat} {n : Option Nat} {r : List Node × Nat × Nat} {y : Node}
    (h : postTokNext cur p t n = .ok r) (hy : cur[t]? = some y) (hw : y.isWhitespace = false) :
    (r.2.1 = p ∨ r.2.1 = t) ∧ (r.2.2 = t ∨ ∃ n', n = some n' ∧ r.2.2 = n') ∧
      ∃ y1, y1.isWhitespace = false ∧ r.1 = cur.take t ++ y1 :: cur.drop (t + 1) := by
  unfold postTokNext at h
  cases n with
  | none => simp at h
  | some n' =>
    simp only [Except.ok.injEq] at h
    subst h
    exact ⟨Or.inr rfl, Or.inr ⟨n', rfl, rfl⟩, shape_id hy hw⟩

theorem postTokNext_skel {cur : List Node} {p t : Nat} {n : Option Nat} {r : List Node × Nat × Nat}
    (h : postTokNext cur p t n = .ok r) :
    postTokNext (skelL cur) (rank cur p) (rank cur t) (n.map (rank cur)) =
      .ok (skelL r.1, rank cur r.2.1, rank cur r.2.2) := by
  unfold postTokNext at h ⊢
  cases n with
  | none => simp at h
  | some n' =>
    simp only [Except.ok.injEq] at h
    subst h
    rfl

theorem postPrevTok_shape {cur : List Node} {p t : Nat} {n : Option Nat} {r : List Node × Nat × Nat} {y : Node}
    (h : postPrevTok cur p t n = .ok r) (hy : cur[t]? = some y) (hw : y.isWhitespace = false) :
    (r.2.1 = p ∨ r.2.1 = t) ∧ (r.2.2 = t ∨ ∃ n', n = some n' ∧ r.2.2 = n') ∧
      ∃ y1, y1.isWhitespace = false ∧ r.1 = cur.take t ++ y1 :: cur.drop (t + 1) := by
  unfold postPrevTok at h
  simp only [Except.ok.injEq] at h
  subst h
  exact ⟨Or.inl rfl, Or.inl rfl, shape_id hy hw⟩

theorem postPrevTok_skel {cur : List Node} {p t : Nat} {n : Option Nat} {r : List Node × Nat × Nat}
    (h : postPrevTok cur p t n = .ok r) :
    postPrevTok (skelL cur) (rank cur p) (rank cur t) (n.map (rank cur)) =
      .ok (skelL r.1, rank cur r.2.1, rank cur r.2.2) := by
  unfold postPrevTok at h ⊢
  simp only [Except.ok.injEq] at h
  subst h
  rfl

theorem postPeriod_shape {cur : List Node} {p t : Nat} {n : Option Nat} {r : List Node × Nat × Nat} {y : Node}
    (h : postPeriod u cur p t n = .ok r) (hy : cur[t]? = some y) (hw : y.isWhitespace = false) :
    (r.2.1 = p ∨ r.2.1 = t) ∧ (r.2.2 = t ∨ ∃ n', n = some n' ∧ r.2.2 = n') ∧
      ∃ y1, y1.isWhitespace = false ∧ r.1 = cur.take t ++ y1 :: cur.drop (t + 1) := by
  unfold postPeriod at h
  cases n with
  | none =>
    simp only [Except.ok.injEq] at h
    subst h
    exact ⟨Or.inl rfl, Or.inl rfl, shape_id hy hw⟩
  | some n' =>
    simp only at h
    cases hn : cur[n']? with
    | none => simp [hn] at h
    | some nx =>
      simp only [hn] at h
      split at h
      · simp only [Except.ok.injEq] at h
        subst h
        exact ⟨Or.inl rfl, Or.inr ⟨n', rfl, rfl⟩, shape_id hy hw⟩
      · simp only [Except.ok.injEq] at h
        subst h
        exact ⟨Or.inl rfl, Or.inl rfl, shape_id hy hw⟩

theorem postPeriod_skel {cur : List Node} {p t : Nat} {n : Option Nat} {r : List Node × Nat × Nat}
    (h : postPeriod u cur p t n = .ok r)
    (hn : ∀ n', n = some n' → ∃ xn, cur[n']? = some xn ∧ xn.isWhitespace = false) :
    postPeriod u (skelL cur) (rank cur p) (rank cur t) (n.map (rank cur)) =
      .ok (skelL r.1, rank cur r.2.1, rank cur r.2.2) := by
  unfold postPeriod at h ⊢
  cases n with
  | none =>
    simp only [Except.ok.injEq] at h
    subst h
    rfl
  | some n' =>
    obtain ⟨xn, hxn, hxw⟩ := hn n' rfl
    simp only [hxn] at h
    simp only [Option.map_some, getElem_rank hxn hxw, skel_imt]
    split at h
    · rename_i hc
      simp only [Except.ok.injEq] at h
      subst h
      rw [if_pos hc]
    · rename_i hc
      simp only [Except.ok.injEq] at h
      subst h
      rw [if_neg hc]

/-- re-typing a non-whitespace child to `Operator` commutes with `skel` -/
theorem skelL_set {cur : List Node} {t : Nat} {x x' : Node} (hx : cur[t]? = some x) (hw : x.isWhitespace = false)
    (hw' : x'.isWhitespace = false) : skelL (cur.set t x') = (skelL cur).set (rank cur t) x'.skel := by
  have hlt : t < cur.length := (List.getElem?_eq_some_iff.1 hx).1
  have h1 : cur.set t x' = cur.take t ++ x' :: cur.drop (t + 1) := by
    rw [List.set_eq_take_append_cons_drop]; simp [hlt]
  have h2 : skelL cur = skelL (cur.take t) ++ x.skel :: skelL (cur.drop (t + 1)) := by
    conv => lhs; rw [list_split_at hx]
    rw [skelL_append, skelL_cons_nws hw]
  rw [h1, skelL_append, skelL_cons_nws hw', h2]
  unfold rank
  rw [List.set_append_right _ _ (Nat.le_refl _)]
  simp

theorem setTType_nws {x : Node} (hw : x.isWhitespace = false) :
    (x.setTType Gen.group_operator_ttype_set0).isWhitespace = false := by
  cases x with
  | tok tt v => rfl
  | grp c ks => rfl

theorem skel_setTType (x : Node) (tt : TType) : (x.setTType tt).skel = x.skel.setTType tt := by
  cases x with
  | tok t v => rfl
  | grp c ks => simp [Node.setTType]

theorem postOperator_shape {cur : List Node} {p t : Nat} {n : Option Nat} {r : List Node × Nat × Nat} {y : Node}
    (h : postOperator cur p t n = .ok r) (hy : cur[t]? = some y) (hw : y.isWhitespace = false) :
    (r.2.1 = p ∨ r.2.1 = t) ∧ (r.2.2 = t ∨ ∃ n', n = some n' ∧ r.2.2 = n') ∧
      ∃ y1, y1.isWhitespace = false ∧ r.1 = cur.take t ++ y1 :: cur.drop (t + 1) := by
  unfold postOperator at h
  simp only [hy] at h
  cases n with
  | none => simp at h
  | some n' =>
    simp only [Except.ok.injEq] at h
    subst h
    have hlt : t < cur.length := (List.getElem?_eq_some_iff.1 hy).1
    refine ⟨Or.inl rfl, Or.inr ⟨n', rfl, rfl⟩, _, setTType_nws hw, ?_⟩
    simp only
    rw [List.set_eq_take_append_cons_drop]; simp [hlt]

theorem postOperator_skel {cur : List Node} {p t : Nat} {n : Option Nat} {r : List Node × Nat × Nat} {xt : Node}
    (h : postOperator cur p t n = .ok r) (hy : cur[t]? = some xt) (hw : xt.isWhitespace = false) :
    postOperator (skelL cur) (rank cur p) (rank cur t) (n.map (rank cur)) =
      .ok (skelL r.1, rank cur r.2.1, rank cur r.2.2) := by
  unfold postOperator at h ⊢
  simp only [hy] at h
  simp only [getElem_rank hy hw]
  cases n with
  | none => simp at h
  | some n' =>
    simp only [Except.ok.injEq] at h
    subst h
    simp only [Option.map_some]
    rw [skelL_set hy hw (setTType_nws hw), skel_setTType]

/-! ### the configurations -/
theorem postS_typecasts (u) : PostS (cfgTypecasts u) where
  shape := fun _ _ _ _ _ _ h hy hw => postPrevNext_shape h hy hw
  skel := fun _ _ t _ _ _ _ h _ _ _ _ _ => postPrevNext_skel (t := t) h
  isMatch := fun x => by simp [cfgTypecasts]
  validPrev := fun _ => rfl
  validNext := fun o => by cases o <;> rfl

theorem postS_tzcasts (u) : PostS (cfgTzcasts u) where
  shape := fun _ _ _ _ _ _ h hy hw => postPrevNext_shape h hy hw
  skel := fun _ _ t _ _ _ _ h _ _ _ _ _ => postPrevNext_skel (t := t) h
  isMatch := fun x => by simp [cfgTzcasts]
  validPrev := fun _ => rfl
  validNext := fun o => by cases o <;> simp [cfgTzcasts]

theorem postS_typedLiteral0 (u) : PostS (cfgTypedLiteral0 u) where
  shape := fun _ _ _ _ _ _ h hy hw => postTokNext_shape h hy hw
  skel := fun _ p _ _ _ _ _ h _ _ _ _ _ => postTokNext_skel (p := p) h
  isMatch := fun x => by simp [cfgTypedLiteral0]
  validPrev := fun _ => rfl
  validNext := fun o => by cases o <;> simp [cfgTypedLiteral0]

theorem postS_typedLiteral1 (u) : PostS (cfgTypedLiteral1 u) where
  shape := fun _ _ _ _ _ _ h hy hw => postTokNext_shape h hy hw
  skel := fun _ p _ _ _ _ _ h _ _ _ _ _ => postTokNext_skel (p := p) h
  isMatch := fun x => by simp [cfgTypedLiteral1]
  validPrev := fun _ => rfl
  validNext := fun o => by cases o <;> simp [cfgTypedLiteral1]

theorem postS_period (u) : PostS (cfgPeriod u) where
  shape := fun _ _ _ _ _ _ h hy hw => postPeriod_shape h hy hw
  skel := fun _ _ _ _ _ _ _ h _ _ _ _ hn => postPeriod_skel h hn
  isMatch := fun x => by simp [cfgPeriod]
  validPrev := fun x => by simp [cfgPeriod]
  validNext := fun _ => rfl

theorem skel_as_match (x : Node) :
    (x.skel.isKeyword && x.skel.normalized u == txt "AS") = (x.isKeyword && x.normalized u == txt "AS") := by
  cases x with
  | tok tt v => simp
  | grp c ks => simp [Node.isKeyword]

theorem skel_null_or (x : Node) :
    (x.skel.normalized u == txt "NULL" || !x.skel.isKeyword) = (x.normalized u == txt "NULL" || !x.isKeyword) := by
  cases x with
  | tok tt v => simp
  | grp c ks => simp [Node.isKeyword]

theorem skel_kw_null (x : Node) :
    (x.skel.isKeyword && x.skel.normalized u == txt "NULL") = (x.isKeyword && x.normalized u == txt "NULL") := by
  cases x with
  | tok tt v => simp
  | grp c ks => simp [Node.isKeyword]

theorem postS_as (u) : PostS (cfgAs u) where
  shape := fun _ _ _ _ _ _ h hy hw => postPrevNext_shape h hy hw
  skel := fun _ _ t _ _ _ _ h _ _ _ _ _ => postPrevNext_skel (t := t) h
  isMatch := fun x => skel_as_match x
  validPrev := fun x => skel_null_or x
  validNext := fun o => by cases o <;> simp [cfgAs, imtOpt]

theorem postS_comparison (u) : PostS (cfgComparison u) where
  shape := fun _ _ _ _ _ _ h hy hw => postPrevNext_shape h hy hw
  skel := fun _ _ t _ _ _ _ h _ _ _ _ _ => postPrevNext_skel (t := t) h
  isMatch := fun x => by simp [cfgComparison]
  validPrev := fun x => by simp only [cfgComparison, validComparison, skel_imt, skel_kw_null]
  validNext := fun o => by
    cases o with
    | none => rfl
    | some x => simp only [cfgComparison, validComparison, Option.map_some, skel_imt, skel_kw_null]

theorem postS_arrays (u) : PostS (cfgArrays u) where
  shape := fun _ _ _ _ _ _ h hy hw => postPrevTok_shape h hy hw
  skel := fun _ _ _ n _ _ _ h _ _ _ _ _ => postPrevTok_skel (n := n) h
  isMatch := fun x => by simp [cfgArrays]
  validPrev := fun x => by simp [cfgArrays]
  validNext := fun _ => rfl

theorem postS_operator (u) : PostS (cfgOperator u) where
  shape := fun _ _ _ _ _ _ h hy hw => postOperator_shape h hy hw
  skel := fun _ _ _ _ _ _ _ h _ _ hy hw _ => postOperator_skel h hy hw
  isMatch := fun x => by simp [cfgOperator]
  validPrev := fun x => by simp [cfgOperator, validOperator]
  validNext := fun o => by cases o <;> simp [cfgOperator, validOperator]

theorem postS_identifierList (u) : PostS (cfgIdentifierList u) where
  shape := fun _ _ _ _ _ _ h hy hw => postPrevNext_shape h hy hw
  skel := fun _ _ t _ _ _ _ h _ _ _ _ _ => postPrevNext_skel (t := t) h
  isMatch := fun x => by simp [cfgIdentifierList]
  validPrev := fun x => by simp [cfgIdentifierList, validIdentifierList, imtOpt]
  validNext := fun o => by cases o <;> simp [cfgIdentifierList, validIdentifierList, imtOpt]

/-- `group_typed_literal`: two `_group` runs -/
theorem typedLiteralPass_skel (u : Text → Text) : PassSkel (typedLiteralPass u) := by
  intro fuel c ks r h
  simp only [typedLiteralPass] at h ⊢
  cases h0 : groupDriver (cfgTypedLiteral0 u) fuel ks with
  | error e => simp [h0] at h
  | ok ks1 =>
    simp only [h0] at h
    have e0 : groupDriver (cfgTypedLiteral0 u) fuel (skelL ks) = .ok (skelL ks1) :=
      groupDriver_skel fuel _ (postS_typedLiteral0 u) c ks ks1 h0
    rw [e0]
    exact groupDriver_skel fuel _ (postS_typedLiteral1 u) c ks1 r h

end Sql
