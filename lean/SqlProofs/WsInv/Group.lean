import SqlProofs.WsInv.Nav
import SqlProofs.Group.GoodTokens
import SqlProofs.Group.GoodDriver
/-!
# SqlProofs.WsInv.Group — `group_tokens` and the recursion into sub-groups commute with `skel`
-/
namespace Sql

theorem rank_take {ks : List Node} {a n : Nat} (h : a ≤ n) : rank (ks.take n) a = rank ks a := by
  unfold rank
  rw [List.take_take, Nat.min_eq_left h]

theorem skelL_pySlice {ks : List Node} {a e : Nat} (hae : a ≤ e) :
    pySlice (skelL ks) (rank ks a) (rank ks e) = skelL (pySlice ks a e) := by
  unfold pySlice
  rw [take_rank, ← rank_take hae, drop_rank]

theorem skelL_grp_cons (c : Cls) (kids rest : List Node) :
    skelL (Node.grp c kids :: rest) = Node.grp c (skelL kids) :: skelL rest := by
  rw [skelL_cons_nws (by rfl)]; simp

/-- **`group_tokens` on `[a, b]` whose start is not whitespace corresponds to the call on `[rank a, rank (b+1) − 1]`**
(the end point may be whitespace: `group_where` ends a clause on the token before the next keyword) -/
theorem groupTokens'_skel_gen {ks : List Node} {cls : Cls} {a b e' : Nat} {ext : Bool} {r : List Node × Node} {xa : Node}
    (h : groupTokens' ks cls a b true ext = .ok r) (hab : a ≤ b)
    (ha : ks[a]? = some xa) (hwa : xa.isWhitespace = false) (hrb1 : e' + 1 = rank ks (b + 1)) :
    groupTokens' (skelL ks) cls (rank ks a) e' true ext = .ok (skelL r.1, r.2.skel) := by
  have hra : (skelL ks)[rank ks a]? = some xa.skel := getElem_rank ha hwa
  have hra1 : rank ks a + 1 = rank ks (a + 1) := (rank_succ ha hwa).symm
  have hrab : rank ks a ≤ e' := by
    have := rank_mono ks (by omega : a + 1 ≤ b + 1)
    omega
  have hnew : (List.take (rank ks a) (skelL ks) ++ Node.grp cls (pySlice (skelL ks) (rank ks a) (e' + 1)) ::
        List.drop (max (rank ks a) (e' + 1)) (skelL ks),
      Node.grp cls (pySlice (skelL ks) (rank ks a) (e' + 1))) =
      (skelL (ks.take a ++ Node.grp cls (pySlice ks a (b + 1)) :: ks.drop (max a (b + 1))),
        (Node.grp cls (pySlice ks a (b + 1))).skel) := by
    rw [Nat.max_eq_right (by omega : rank ks a ≤ e' + 1), Nat.max_eq_right (by omega : a ≤ b + 1),
      hrb1, skelL_pySlice (by omega), take_rank, drop_rank, skelL_append, skelL_grp_cons, skel_grp]
  unfold groupTokens' at h ⊢
  rw [ha] at h
  rw [hra]
  simp only [↓reduceIte] at h ⊢
  cases xa with
  | tok tt v =>
    simp only [skel_tok, Except.ok.injEq] at h ⊢
    subst h
    exact hnew
  | grp c kids =>
    simp only [skel_grp] at h ⊢
    have hi : (Node.grp c (skelL kids)).isInst cls = (Node.grp c kids).isInst cls := rfl
    rw [hi]
    by_cases hc : (ext && (Node.grp c kids).isInst cls) = true
    · rw [if_pos hc] at h ⊢
      simp only [Except.ok.injEq] at h ⊢
      subst h
      rw [Nat.max_eq_right (by omega : rank ks a + 1 ≤ e' + 1), Nat.max_eq_right (by omega : a + 1 ≤ b + 1),
        hrb1, hra1, skelL_pySlice (by omega), take_rank, drop_rank, skelL_append, skelL_grp_cons, skel_grp,
        skelL_append]
    · rw [if_neg hc] at h ⊢
      simp only [Except.ok.injEq] at h ⊢
      subst h
      exact hnew

/-- **`group_tokens` on `[a, b]` with non-whitespace end points corresponds to the call on `[rank a, rank b]`** -/
theorem groupTokens'_skel {ks : List Node} {cls : Cls} {a b : Nat} {ext : Bool} {r : List Node × Node} {xa xb : Node}
    (h : groupTokens' ks cls a b true ext = .ok r) (hab : a ≤ b)
    (ha : ks[a]? = some xa) (hwa : xa.isWhitespace = false) (hb : ks[b]? = some xb) (hwb : xb.isWhitespace = false) :
    groupTokens' (skelL ks) cls (rank ks a) (rank ks b) true ext = .ok (skelL r.1, r.2.skel) :=
  groupTokens'_skel_gen h hab ha hwa (rank_succ hb hwb).symm

theorem groupTokens_skel {ks ks' : List Node} {cls : Cls} {a b : Nat} {ext : Bool} {xa xb : Node}
    (h : groupTokens ks cls a b true ext = .ok ks') (hab : a ≤ b)
    (ha : ks[a]? = some xa) (hwa : xa.isWhitespace = false) (hb : ks[b]? = some xb) (hwb : xb.isWhitespace = false) :
    groupTokens (skelL ks) cls (rank ks a) (rank ks b) true ext = .ok (skelL ks') := by
  obtain ⟨r, hr, rfl⟩ := groupTokens_eq h
  unfold groupTokens
  rw [groupTokens'_skel hr hab ha hwa hb hwb]

/-! ### recursion into sub-groups -/
/-- a function on child lists commutes with `skel` -/
def KidsSkel (f : Cls → List Node → Except PyErr (List Node)) : Prop :=
  ∀ c ks r, f c ks = .ok r → f c (skelL ks) = .ok (skelL r)

/-- a pass commutes with `skel` (with the same fuel: `skel` does not deepen the tree) -/
def PassSkel (p : Pass) : Prop := ∀ fuel, KidsSkel (p fuel)

/-- the recursion into the group children, `f` commuting with `skel` on the children it is applied to -/
theorem mapGroups_skel_on {elig : Node → Bool} {f : Cls → List Node → Except PyErr (List Node)}
    (helig : ∀ k, elig k.skel = elig k) :
    ∀ ks r, (∀ c kids r', Node.grp c kids ∈ ks → f c kids = .ok r' → f c (skelL kids) = .ok (skelL r')) →
      mapGroups elig f ks = .ok r → mapGroups elig f (skelL ks) = .ok (skelL r) := by
  intro ks
  induction ks with
  | nil => intro r _ h; simp [mapGroups] at h; subst h; simp [mapGroups]
  | cons k rest ih =>
    intro r hf h
    have ih := fun r hr => ih r (fun c kids r' hm => hf c kids r' (List.mem_cons_of_mem _ hm)) hr
    cases k with
    | tok tt v =>
      simp only [mapGroups] at h
      cases hr : mapGroups elig f rest with
      | error e => simp [hr] at h
      | ok rest' =>
        simp only [hr, Except.ok.injEq] at h
        subst h
        by_cases hw : (Node.tok tt v).isWhitespace = true
        · rw [skelL_cons_ws hw, skelL_cons_ws hw]; exact ih _ hr
        · have hw' : (Node.tok tt v).isWhitespace = false := by simpa using hw
          rw [skelL_cons_nws hw', skelL_cons_nws hw']
          simp only [skel_tok, mapGroups, ih _ hr]
    | grp c kids =>
      have hw' : ∀ kk, (Node.grp c kk).isWhitespace = false := fun _ => rfl
      simp only [mapGroups] at h
      rw [skelL_cons_nws (hw' kids)]
      simp only [skel_grp, mapGroups]
      have he : elig (Node.grp c (skelL kids)) = elig (Node.grp c kids) := by
        have := helig (Node.grp c kids); simpa using this
      rw [he]
      by_cases hel : elig (.grp c kids) = true
      · rw [if_pos hel] at h ⊢
        cases hk : f c kids with
        | error e => simp [hk] at h
        | ok kids' =>
          simp only [hk] at h
          cases hr : mapGroups elig f rest with
          | error e => simp [hr] at h
          | ok rest' =>
            simp only [hr, Except.ok.injEq] at h
            subst h
            rw [hf _ _ _ List.mem_cons_self hk, ih _ hr, skelL_cons_nws (hw' kids')]
            simp
      · rw [if_neg hel] at h ⊢
        cases hr : mapGroups elig f rest with
        | error e => simp [hr] at h
        | ok rest' =>
          simp only [hr, Except.ok.injEq] at h
          subst h
          rw [ih _ hr, skelL_cons_nws (hw' kids)]
          simp

theorem mapGroups_skel {elig : Node → Bool} {f : Cls → List Node → Except PyErr (List Node)}
    (helig : ∀ k, elig k.skel = elig k) (hf : KidsSkel f) :
    ∀ ks r, mapGroups elig f ks = .ok r → mapGroups elig f (skelL ks) = .ok (skelL r) :=
  fun ks r h => mapGroups_skel_on helig ks r (fun c kids r' _ hk => hf c kids r' hk) h

/-- `f` commutes with `skel` on the child lists satisfying `P` -/
def KidsSkelOn (P : Cls → List Node → Prop) (f : Cls → List Node → Except PyErr (List Node)) : Prop :=
  ∀ c ks r, P c ks → f c ks = .ok r → f c (skelL ks) = .ok (skelL r)

/-- `@recurse`: `P` is inherited by the group children, and gives `Q` at a level once its children are processed -/
theorem recursePass_skel_on {skip : List Cls} {body : Cls → List Node → Except PyErr (List Node)}
    {P Q : Cls → List Node → Prop}
    (hher : ∀ c ks, P c ks → ∀ c' kids, Node.grp c' kids ∈ ks → P c' kids)
    (htr : ∀ fuel c ks ks1, P c ks →
      mapGroups (fun k => !k.isInstAny skip) (recursePass skip body fuel) ks = .ok ks1 → Q c ks1)
    (hb : ∀ c ks r, Q c ks → body c ks = .ok r → body c (skelL ks) = .ok (skelL r)) :
    ∀ fuel, KidsSkelOn P (recursePass skip body fuel) := by
  intro fuel
  induction fuel with
  | zero => intro c ks r _ h; simp [recursePass] at h
  | succ n ih =>
    intro c ks r hP h
    simp only [recursePass] at h ⊢
    cases hm : mapGroups (fun k => !k.isInstAny skip) (recursePass skip body n) ks with
    | error e => simp [hm] at h
    | ok ks1 =>
      simp only [hm] at h
      rw [mapGroups_skel_on (by intro k; simp) _ _
        (fun c' kids r' hmem hk => ih c' kids r' (hher c ks hP c' kids hmem) hk) hm]
      exact hb _ _ _ (htr n c ks ks1 hP hm) h

theorem recursePass_skel {skip : List Cls} {body : Cls → List Node → Except PyErr (List Node)} (hb : KidsSkel body) :
    PassSkel (recursePass skip body) := by
  intro fuel
  induction fuel with
  | zero => intro c ks r h; simp [recursePass] at h
  | succ n ih =>
    intro c ks r h
    simp only [recursePass] at h ⊢
    cases hm : mapGroups (fun k => !k.isInstAny skip) (recursePass skip body n) ks with
    | error e => simp [hm] at h
    | ok ks1 =>
      simp only [hm] at h
      rw [mapGroups_skel (by intro k; simp) ih _ _ hm]
      exact hb _ _ _ h

theorem adHocPass_skel (skip : Option (List Cls)) {body : Cls → List Node → Except PyErr (List Node)}
    (hb : KidsSkel body) : PassSkel (adHocPass skip body) := by
  unfold adHocPass
  split
  · exact recursePass_skel hb
  · exact fun _ => hb

end Sql
