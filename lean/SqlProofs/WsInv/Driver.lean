import SqlProofs.WsInv.Group
import SqlProofs.Group.TotalDriver
/-!
# SqlProofs.WsInv.Driver — the parent-level loop of `_group` commutes with deleting the whitespace children

Two runs of `drvLoop`: on the snapshot `ks` and on `skelL ks`.  The relation `Sim` carries
* the alignment invariant of the run on `ks` (after `m` stale whitespace elements the rest of the snapshot is
  `cur.drop (t+1)`, `t = idx + m − off`; the child at `t` is the snapshot element itself or — right after a grouping
  that absorbed `next_` — the group just made, which is not whitespace);
* the correspondence of the two states: `cur' = skelL cur`, `prev' = (rank pidx, skel prev_)`, `idx' − off' = rank t`.

It needs `post` to group `[pidx|tidx, tidx|nidx]` (`PostS`): all configurations except `group_assignment`, whose
`post` runs on to the next `;` — there the stale indexes depend on the number of whitespace tokens (finding).
-/
namespace Sql

theorem skelL_length_count (l : List Node) : (skelL l).length = (l.map (·.isWhitespace)).count false := by
  induction l with
  | nil => rfl
  | cons k ks ih =>
    cases hk : k.isWhitespace with
    | true => rw [skelL_cons_ws hk, ih]; simp [hk]
    | false => rw [skelL_cons_nws hk]; simp [hk, ih]

/-- `rank` only depends on which children are whitespace -/
theorem rank_congr_ws {ks ks' : List Node} (h : ks.map (·.isWhitespace) = ks'.map (·.isWhitespace)) (i : Nat) :
    rank ks i = rank ks' i := by
  unfold rank
  rw [skelL_length_count, skelL_length_count, List.map_take, List.map_take, h]

theorem rank_congr_take {ks ks' : List Node} {i : Nat} (h : ks.take i = ks'.take i) : rank ks i = rank ks' i := by
  unfold rank; rw [h]

theorem list_split_at {α : Type} {l : List α} {t : Nat} {y : α} (h : l[t]? = some y) :
    l = l.take t ++ y :: l.drop (t + 1) := by
  have hlt : t < l.length := (List.getElem?_eq_some_iff.1 h).1
  have hy : l[t] = y := (List.getElem?_eq_some_iff.1 h).2
  conv => lhs; rw [← List.take_append_drop t l, List.drop_eq_getElem_cons hlt, hy]

/-- replacing one non-whitespace child by another non-whitespace child -/
structure Repl (cur cur1 : List Node) (t : Nat) : Prop where
  rank : ∀ i, rank cur1 i = rank cur i
  drop : cur1.drop (t + 1) = cur.drop (t + 1)
  take : cur1.take t = cur.take t
  at_ : ∃ y1, cur1[t]? = some y1 ∧ y1.isWhitespace = false
  len : cur1.length = cur.length

theorem repl_of_splice {cur cur1 : List Node} {t : Nat} {y y1 : Node} (hy : cur[t]? = some y)
    (hw : y.isWhitespace = false) (hw1 : y1.isWhitespace = false) (h : cur1 = cur.take t ++ y1 :: cur.drop (t + 1)) :
    Repl cur cur1 t := by
  have hlt : t < cur.length := (List.getElem?_eq_some_iff.1 hy).1
  have hlen : (cur.take t).length = t := by simp [List.length_take]; omega
  refine ⟨?_, ?_, ?_, ⟨y1, ?_, hw1⟩, ?_⟩
  · intro i
    apply rank_congr_ws
    conv => rhs; rw [list_split_at hy]
    rw [h]
    simp [hw, hw1]
  · rw [h]; exact drop_splice _ _ (by omega) _ _
  · rw [h, List.take_append_of_le_length (by omega), List.take_take]; simp
  · rw [h, List.getElem?_append_right (by omega), hlen]; simp
  · rw [h]; simp [List.length_take]; omega

theorem Repl.get_lt {cur cur1 : List Node} {t i : Nat} (h : Repl cur cur1 t) (hi : i < t) : cur1[i]? = cur[i]? := by
  have h1 : (cur1.take t)[i]? = cur1[i]? := by rw [List.getElem?_take]; simp [hi]
  have h2 : (cur.take t)[i]? = cur[i]? := by rw [List.getElem?_take]; simp [hi]
  rw [← h1, ← h2, h.take]

theorem Repl.get_gt {cur cur1 : List Node} {t i : Nat} (h : Repl cur cur1 t) (hi : t < i) : cur1[i]? = cur[i]? := by
  have h1 : (cur1.drop (t + 1))[i - (t + 1)]? = cur1[i]? := by rw [List.getElem?_drop]; congr 1; omega
  have h2 : (cur.drop (t + 1))[i - (t + 1)]? = cur[i]? := by rw [List.getElem?_drop]; congr 1; omega
  rw [← h1, ← h2, h.drop]

/-! ## what `post` must satisfy -/
structure PostS (cfg : DrvCfg) : Prop where
  shape : ∀ cur p t n r y, cfg.post cur p t n = .ok r → cur[t]? = some y → y.isWhitespace = false →
    (r.2.1 = p ∨ r.2.1 = t) ∧ (r.2.2 = t ∨ ∃ n', n = some n' ∧ r.2.2 = n') ∧
    ∃ y1, y1.isWhitespace = false ∧ r.1 = cur.take t ++ y1 :: cur.drop (t + 1)
  skel : ∀ cur p t n r xp xt, cfg.post cur p t n = .ok r → cur[p]? = some xp → xp.isWhitespace = false →
    cur[t]? = some xt → xt.isWhitespace = false →
    (∀ n', n = some n' → ∃ xn, cur[n']? = some xn ∧ xn.isWhitespace = false) →
    cfg.post (skelL cur) (rank cur p) (rank cur t) (n.map (rank cur)) =
      .ok (skelL r.1, rank cur r.2.1, rank cur r.2.2)
  isMatch : ∀ x, cfg.isMatch x.skel = cfg.isMatch x
  validPrev : ∀ x, cfg.validPrev x.skel = cfg.validPrev x
  validNext : ∀ o : Option Node, cfg.validNext (o.map Node.skel) = cfg.validNext o

/-- the three tests do not look inside groups -/
structure PredS (cfg : DrvCfg) : Prop where
  isMatch : ∀ x, cfg.isMatch x.skel = cfg.isMatch x
  validPrev : ∀ x, cfg.validPrev x.skel = cfg.validPrev x
  validNext : ∀ o : Option Node, cfg.validNext (o.map Node.skel) = cfg.validNext o

theorem PostS.pred {cfg : DrvCfg} (hp : PostS cfg) : PredS cfg := ⟨hp.isMatch, hp.validPrev, hp.validNext⟩

/-! ## the simulation relation -/
structure Sim (snap : List Node) (idx : Nat) (st : DrvSt) (idx' : Nat) (st' : DrvSt) (m : Nat) : Prop where
  ws : ∀ x ∈ snap.take m, x.isWhitespace = true
  off : st.off ≤ (idx : Int) + m
  drop : snap.drop (m + 1) = st.cur.drop (((idx : Int) + m - st.off).toNat + 1)
  head : ∀ x, snap[m]? = some x → ∃ y, st.cur[((idx : Int) + m - st.off).toNat]? = some y ∧
    (y = x ∨ (y.isWhitespace = false ∧ x.isWhitespace = false))
  prev : ∀ pidx p, st.prev = some (pidx, p) → pidx ≤ ((idx : Int) + m - st.off).toNat ∧
    ∃ z, st.cur[pidx]? = some z ∧ z.isWhitespace = false
  cur' : st'.cur = skelL st.cur
  prev' : st'.prev = st.prev.map (trHit st.cur)
  off' : (idx' : Int) - st'.off = (rank st.cur ((idx : Int) + m - st.off).toNat : Nat)

theorem sim_init (ks : List Node) : Sim ks 0 (drvInit ks) 0 (drvInit (skelL ks)) 0 := by
  refine ⟨by simp, by simp [drvInit], by simp [drvInit], ?_, by intro pidx p hpp; simp [drvInit] at hpp, rfl, rfl, ?_⟩
  · intro x hx
    exact ⟨x, by simpa [drvInit] using hx, Or.inl rfl⟩
  · simp [drvInit, rank]

/-- a stale whitespace element: only the run on `ks` steps -/
theorem sim_stale {token : Node} {tl : List Node} {idx idx' k : Nat} {st st' : DrvSt} (r : List Bool)
    (h : Sim (token :: tl) idx st idx' st' (k + 1)) : Sim tl (idx + 1) { st with reached := r } idx' st' k := by
  obtain ⟨hws, hoff, hdrop, hhead, hprev, hcur, hpv, hoff'⟩ := h
  have e : ((idx + 1 : Nat) : Int) + (k : Nat) - st.off = (idx : Int) + ((k + 1 : Nat) : Int) - st.off := by
    push_cast; omega
  refine ⟨?_, ?_, ?_, ?_, ?_, hcur, hpv, ?_⟩
  · intro x hx
    exact hws x (by simp only [List.take_succ_cons]; exact List.mem_cons_of_mem _ hx)
  · simp only; push_cast at hoff ⊢; omega
  · simp only [List.drop_succ_cons] at hdrop
    simp only
    rw [e]; exact hdrop
  · intro x hx
    simp only
    rw [e]
    exact hhead x (by simpa using hx)
  · intro pidx p hpp
    simp only
    rw [e]
    exact hprev pidx p hpp
  · simp only
    rw [e]; exact hoff'

/-- the facts at a visited element (`m = 0`) -/
theorem Sim.at0 {token : Node} {tl : List Node} {idx idx' : Nat} {st st' : DrvSt}
    (h : Sim (token :: tl) idx st idx' st' 0) :
    ∃ t : Nat, (t : Int) = (idx : Int) - st.off ∧ tl = st.cur.drop (t + 1) ∧
      (∃ y, st.cur[t]? = some y ∧ (y = token ∨ (y.isWhitespace = false ∧ token.isWhitespace = false))) ∧
      (∀ pidx p, st.prev = some (pidx, p) → pidx ≤ t ∧ ∃ z, st.cur[pidx]? = some z ∧ z.isWhitespace = false) ∧
      (idx' : Int) - st'.off = (rank st.cur t : Nat) := by
  obtain ⟨_, hoff, hdrop, hhead, hprev, _, _, hoff'⟩ := h
  simp only [Int.natCast_zero, Int.add_zero, List.drop_succ_cons, List.drop_zero] at hoff hdrop hhead hprev hoff'
  refine ⟨((idx : Int) - st.off).toNat, by omega, hdrop, hhead token (by simp), hprev, hoff'⟩

/-- the state after an iteration that moves on by one child, the list unchanged -/
theorem sim_next {tl : List Node} {idx t : Nat} {st st' : DrvSt} {y : Node}
    (htid : (t : Int) = (idx : Int) - st.off) (hdrop : tl = st.cur.drop (t + 1)) (hy : st.cur[t]? = some y)
    (hcur : st'.cur = skelL st.cur)
    (pv : Option (Nat × Node)) (r r' : List Bool) (i1 : Nat) (o1 : Int)
    (hpv : ∀ pidx p, pv = some (pidx, p) → pidx ≤ t + 1 ∧ ∃ z, st.cur[pidx]? = some z ∧ z.isWhitespace = false)
    (ho : (i1 : Int) - o1 = (rank st.cur (t + 1) : Nat)) :
    Sim tl (idx + 1) { st with reached := r, prev := pv } i1
      { st' with off := o1, reached := r', prev := pv.map (trHit st.cur) } 0 := by
  have e : (((idx + 1 : Nat) : Int) + ((0 : Nat) : Int) - st.off).toNat = t + 1 := by push_cast; omega
  refine ⟨by simp, ?_, ?_, ?_, ?_, hcur, rfl, ?_⟩
  · simp only; push_cast; omega
  · simp only
    rw [e, hdrop, drop_drop_add]
  · intro x hx
    simp only
    rw [e]
    refine ⟨x, ?_, Or.inl rfl⟩
    rw [hdrop] at hx
    simpa [List.getElem?_drop] using hx
  · intro pidx p hpp
    simp only
    rw [e]
    exact hpv pidx p hpp
  · simp only
    rw [e]; exact ho

/-- `drvStep` at a visited non-whitespace element, the three guards resolved -/
theorem drvStep_nws {cfg : DrvCfg} {st : DrvSt} {idx : Nat} {token : Node} (tidx : Nat)
    (htid : (tidx : Int) = (idx : Int) - st.off) (hw : token.isWhitespace = false) :
    drvStep cfg st idx token =
      (if cfg.isMatch token then
        match st.prev with
        | none => .ok { st with reached := true :: st.reached, prev := some (tidx, token) }
        | some (pidx, prev) =>
          if cfg.validPrev prev && cfg.validNext ((tokenNext st.cur tidx).map (·.2)) then
            match cfg.post st.cur pidx tidx ((tokenNext st.cur tidx).map (·.1)) with
            | .error e => .error e
            | .ok (cur1, fromIdx, toIdx) =>
              match groupTokens' cur1 cfg.cls fromIdx toIdx true cfg.extend with
              | .error e => .error e
              | .ok (cur2, grp) =>
                .ok { st with reached := true :: st.reached, cur := cur2,
                              off := st.off + ((toIdx : Int) - (fromIdx : Int)), prev := some (fromIdx, grp) }
          else .ok { st with reached := true :: st.reached, prev := some (tidx, token) }
      else .ok { st with reached := true :: st.reached, prev := some (tidx, token) }) := by
  have h1 : ¬ ((idx : Int) - st.off < 0) := by omega
  have h2 : ((idx : Int) - st.off).toNat = tidx := by omega
  unfold drvStep
  rw [if_neg h1]
  simp only [hw, h2, Bool.false_eq_true, ↓reduceIte]
  rfl

/-- the state after a grouping `[from, to]`, `from ≤ t`, `to = t` or `to` the next non-whitespace child -/
theorem sim_group {tl : List Node} {idx idx' t fromIdx toIdx : Nat} {st st' : DrvSt} {cur1 cur2 : List Node}
    {grp y : Node} (htid : (t : Int) = (idx : Int) - st.off) (hdrop : tl = st.cur.drop (t + 1))
    (hy : st.cur[t]? = some y) (hyw : y.isWhitespace = false) (R : Repl st.cur cur1 t)
    (hshape : cur2 = cur1.take fromIdx ++ grp :: cur1.drop (toIdx + 1)) (hgw : grp.isWhitespace = false)
    (hfrom : fromIdx ≤ t)
    (hto : toIdx = t ∨ (t < toIdx ∧ (∃ xn, st.cur[toIdx]? = some xn ∧ xn.isWhitespace = false) ∧
      ∀ i x, t < i → i < toIdx → st.cur[i]? = some x → x.isWhitespace = true))
    (hoff' : (idx' : Int) - st'.off = (rank st.cur t : Nat)) (r r' : List Bool) :
    ∃ m1, Sim tl (idx + 1)
      { st with reached := r, cur := cur2, off := st.off + ((toIdx : Int) - (fromIdx : Int)), prev := some (fromIdx, grp) }
      (idx' + 1)
      { cur := skelL cur2, off := st'.off + (((rank cur1 toIdx : Nat) : Int) - ((rank cur1 fromIdx : Nat) : Int)),
        prev := some (rank cur1 fromIdx, grp.skel), reached := r' } m1 := by
  obtain ⟨y1, hy1, hy1w⟩ := R.at_
  have hlt1 : t < cur1.length := (List.getElem?_eq_some_iff.1 hy1).1
  have hfl : fromIdx ≤ cur1.length := by omega
  have hat : cur2[fromIdx]? = some grp := by
    rw [hshape, List.getElem?_append_right (by simp [List.length_take]; omega)]
    simp [List.length_take, Nat.min_eq_left hfl]
  have hd2 : cur2.drop (fromIdx + 1) = cur1.drop (toIdx + 1) := by rw [hshape]; exact drop_splice _ _ hfl _ _
  have hr2 : rank cur2 fromIdx = rank cur1 fromIdx := by
    apply rank_congr_take
    rw [hshape, List.take_append_of_le_length (by simp [List.length_take]; omega), List.take_take]; simp
  have hrt : rank st.cur (t + 1) = rank st.cur t + 1 := rank_succ hy hyw
  have hrm := rank_mono st.cur hfrom
  rcases hto with rfl | ⟨hlt, ⟨xn, hxn, hxnw⟩, hbetween⟩
  · -- grouped up to the token itself
    refine ⟨0, ?_⟩
    have e : (((idx + 1 : Nat) : Int) + ((0 : Nat) : Int) -
        (st.off + ((toIdx : Int) - (fromIdx : Int)))).toNat = fromIdx + 1 := by push_cast; omega
    have hd3 : cur2.drop (fromIdx + 1) = tl := by rw [hd2, R.drop, hdrop]
    refine ⟨by simp, ?_, ?_, ?_, ?_, rfl, ?_, ?_⟩
    · simp only; push_cast; omega
    · simp only
      rw [e, ← hd3, drop_drop_add]
    · intro x hx
      simp only
      rw [e]
      refine ⟨x, ?_, Or.inl rfl⟩
      rw [← hd3] at hx
      simpa [List.getElem?_drop] using hx
    · intro pidx p hpp
      simp only [Option.some.injEq, Prod.mk.injEq] at hpp
      obtain ⟨rfl, rfl⟩ := hpp
      simp only
      rw [e]
      exact ⟨by omega, grp, hat, hgw⟩
    · simp only [Option.map_some, trHit, hr2]
    · simp only
      rw [e, rank_succ hat hgw, hr2, R.rank, R.rank]
      push_cast; omega
  · -- grouped up to `next_`: the whitespace in between becomes stale
    refine ⟨toIdx - t - 1, ?_⟩
    have e : (((idx + 1 : Nat) : Int) + ((toIdx - t - 1 : Nat) : Int) -
        (st.off + ((toIdx : Int) - (fromIdx : Int)))).toNat = fromIdx := by push_cast; omega
    have hrto : rank st.cur toIdx = rank st.cur t + 1 := by
      rw [← hrt]
      exact rank_ws_run (by omega) (fun i x h1 h2 hx => hbetween i x (by omega) h2 hx)
    refine ⟨?_, ?_, ?_, ?_, ?_, rfl, ?_, ?_⟩
    · intro x hx
      rw [hdrop] at hx
      obtain ⟨i, hi, hxi⟩ := List.getElem_of_mem hx
      simp only [List.length_take, List.length_drop] at hi
      have : st.cur[t + 1 + i]? = some x := by
        rw [← hxi]
        simp [List.getElem_take, List.getElem_drop]
      exact hbetween (t + 1 + i) x (by omega) (by omega) this
    · simp only; push_cast; omega
    · simp only
      rw [e, hd2, hdrop, drop_drop_add]
      have e2 : t + 1 + (toIdx - t - 1 + 1) = toIdx + 1 := by omega
      have := drop_congr_add R.drop (toIdx - t - 1 + 1)
      rw [e2] at this ⊢
      exact this.symm
    · intro x hx
      simp only
      rw [e]
      refine ⟨grp, hat, Or.inr ⟨hgw, ?_⟩⟩
      rw [hdrop, List.getElem?_drop] at hx
      have e3 : t + 1 + (toIdx - t - 1) = toIdx := by omega
      rw [e3, hxn] at hx
      cases hx; exact hxnw
    · intro pidx p hpp
      simp only [Option.some.injEq, Prod.mk.injEq] at hpp
      obtain ⟨rfl, rfl⟩ := hpp
      simp only
      rw [e]
      exact ⟨Nat.le_refl _, grp, hat, hgw⟩
    · simp only [Option.map_some, trHit, hr2]
    · simp only
      rw [e, hr2, R.rank, R.rank, hrto]
      push_cast; omega

/-- a whitespace element: the run on `skelL ks` does not move -/
theorem drvStep_sim_ws {cfg : DrvCfg} {token : Node} {tl : List Node} {idx idx' m : Nat} {st st' st1 : DrvSt}
    (hsim : Sim (token :: tl) idx st idx' st' m) (hw : token.isWhitespace = true)
    (h : drvStep cfg st idx token = .ok st1) :
    (∃ m1, Sim tl (idx + 1) st1 idx' st' m1) ∧ ∃ b, st1.reached = b :: st.reached := by
  cases m with
  | succ k =>
    obtain ⟨r, hr⟩ := drvStep_ws (cfg := cfg) (st := st) (idx := idx) hw
    have hr' : ∃ b, r = b :: st.reached := by
      unfold drvStep at hr
      split at hr
      · simp only [Except.ok.injEq, DrvSt.mk.injEq] at hr; exact ⟨_, hr.2.2.2.symm⟩
      · simp only [hw, ↓reduceIte, Except.ok.injEq, DrvSt.mk.injEq] at hr; exact ⟨_, hr.2.2.2.symm⟩
    rw [hr] at h
    cases h
    exact ⟨⟨k, sim_stale r hsim⟩, hr'⟩
  | zero =>
    obtain ⟨t, htid, hdrop, ⟨y, hy, hyt⟩, hprev, hoff'⟩ := hsim.at0
    have hyx : y = token := by
      rcases hyt with h1 | ⟨_, h2⟩
      · exact h1
      · rw [hw] at h2; cases h2
    subst hyx
    have h1 : ¬ ((idx : Int) - st.off < 0) := by omega
    unfold drvStep at h
    rw [if_neg h1] at h
    simp only [hw, ↓reduceIte, Except.ok.injEq] at h
    subst h
    refine ⟨⟨0, ?_⟩, ⟨_, rfl⟩⟩
    have := sim_next (st' := st') htid hdrop hy hsim.cur' st.prev (true :: st.reached) st'.reached idx' st'.off
      (by intro pidx p hpp
          obtain ⟨h1, h2⟩ := hprev pidx p hpp
          exact ⟨by omega, h2⟩)
      (by rw [rank_succ_ws hy hw]; exact hoff')
    rw [← hsim.prev'] at this
    exact this

/-- a non-whitespace element: both runs step, and stay related -/
theorem drvStep_sim_nws {cfg : DrvCfg} (hpr : PredS cfg) {token : Node} (hp : cfg.isMatch token = true → PostS cfg) {tl : List Node} {idx idx' m : Nat}
    {st st' st1 : DrvSt} (hsim : Sim (token :: tl) idx st idx' st' m) (hw : token.isWhitespace = false)
    (h : drvStep cfg st idx token = .ok st1) :
    ∃ st1' m1, drvStep cfg st' idx' token.skel = .ok st1' ∧ Sim tl (idx + 1) st1 (idx' + 1) st1' m1 ∧
      st1.reached = true :: st.reached ∧ st1'.reached = true :: st'.reached := by
  cases m with
  | succ k =>
    have := hsim.ws token (by simp)
    rw [hw] at this; cases this
  | zero =>
  obtain ⟨t, htid, hdrop, ⟨y, hy, hyt⟩, hprev, hoff'⟩ := hsim.at0
  have hyw : y.isWhitespace = false := by
    rcases hyt with rfl | ⟨h1, _⟩
    · exact hw
    · exact h1
  have hcur := hsim.cur'
  have hpv := hsim.prev'
  have htid' : ((rank st.cur t : Nat) : Int) = (idx' : Int) - st'.off := hoff'.symm
  have hplain : ∃ st1' m1,
      (Except.ok { st' with reached := true :: st'.reached, prev := some (rank st.cur t, token.skel) } :
        Except PyErr DrvSt) = .ok st1' ∧
      Sim tl (idx + 1) { st with reached := true :: st.reached, prev := some (t, token) } (idx' + 1) st1' m1 ∧
      True ∧ st1'.reached = true :: st'.reached := by
    refine ⟨_, 0, rfl, ?_, trivial, rfl⟩
    exact sim_next (st' := st') htid hdrop hy hcur (some (t, token)) (true :: st.reached) (true :: st'.reached)
      (idx' + 1) st'.off
      (by intro pidx p hpp
          simp only [Option.some.injEq, Prod.mk.injEq] at hpp
          obtain ⟨rfl, rfl⟩ := hpp
          exact ⟨by omega, y, hy, hyw⟩)
      (by rw [rank_succ hy hyw]; push_cast; omega)
  rw [drvStep_nws t htid hw] at h
  rw [drvStep_nws (rank st.cur t) htid' (by simpa using hw), hpr.isMatch]
  by_cases hm : cfg.isMatch token = true
  · rw [if_pos hm] at h ⊢
    have hp := hp hm
    cases hpvs : st.prev with
    | none =>
      rw [hpvs] at hpv
      simp only [Option.map_none] at hpv
      simp only [hpvs] at h
      simp only [hpv]
      cases h
      obtain ⟨a, b, h1, h2, _, h4⟩ := hplain
      exact ⟨a, b, h1, h2, rfl, h4⟩
    | some q =>
      obtain ⟨pidx, prev⟩ := q
      rw [hpvs] at hpv
      simp only [Option.map_some, trHit] at hpv
      simp only [hpvs] at h
      simp only [hpv]
      rw [hcur]
      rw [hcur] at hplain
      have hnx : tokenNext (skelL st.cur) (rank st.cur t) = (tokenNext st.cur t).map (trHit st.cur) :=
        tokenNext_skel false hy hyw
      have e2 : ((tokenNext st.cur t).map (trHit st.cur)).map (·.2) =
          ((tokenNext st.cur t).map (·.2)).map Node.skel := by cases tokenNext st.cur t <;> rfl
      have e1 : ((tokenNext st.cur t).map (trHit st.cur)).map (·.1) =
          ((tokenNext st.cur t).map (·.1)).map (rank st.cur) := by cases tokenNext st.cur t <;> rfl
      rw [hnx, e2, e1, hpr.validPrev, hpr.validNext]
      by_cases hv : (cfg.validPrev prev && cfg.validNext ((tokenNext st.cur t).map (·.2))) = true
      · rw [if_pos hv] at h ⊢
        obtain ⟨hpt, z, hz, hzw⟩ := hprev pidx prev hpvs
        cases hpost : cfg.post st.cur pidx t ((tokenNext st.cur t).map (·.1)) with
        | error e => simp [hpost] at h
        | ok r =>
          obtain ⟨cur1, fromIdx, toIdx⟩ := r
          simp only [hpost] at h
          cases hgt : groupTokens' cur1 cfg.cls fromIdx toIdx true cfg.extend with
          | error e => simp [hgt] at h
          | ok r2 =>
            obtain ⟨cur2, grp⟩ := r2
            simp only [hgt, Except.ok.injEq] at h
            subst h
            have hnn : ∀ n', (tokenNext st.cur t).map (·.1) = some n' →
                t < n' ∧ (∃ xn, st.cur[n']? = some xn ∧ xn.isWhitespace = false) ∧
                  ∀ i x, t < i → i < n' → st.cur[i]? = some x → x.isWhitespace = true := by
              intro n' hn
              cases hq : tokenNext st.cur t with
              | none => simp [hq] at hn
              | some q =>
                obtain ⟨n2, k2⟩ := q
                simp only [hq, Option.map_some, Option.some.injEq] at hn
                subst hn
                obtain ⟨h1, h2, h3⟩ := tokenNext_hit hq
                refine ⟨h1, ⟨k2, h2, ?_⟩, h3⟩
                have := (tokenMatchingFwd_hit hq).2.2.1
                simpa [skipMatcher] using this
            have hpost' := hp.skel _ _ _ _ _ z y hpost hz hzw hy hyw (fun n' hn => (hnn n' hn).2.1)
            obtain ⟨hfrom, hto, y1, hy1w, hc1⟩ := hp.shape _ _ _ _ _ y hpost hy hyw
            simp only at hpost' hfrom hto hc1
            have R : Repl st.cur cur1 t := repl_of_splice hy hyw hy1w hc1
            obtain ⟨y1', hy1', hy1w'⟩ := R.at_
            have hfl : fromIdx ≤ t := by rcases hfrom with rfl | rfl <;> omega
            have hft : fromIdx ≤ toIdx := by
              rcases hto with rfl | ⟨n', hn, rfl⟩
              · exact hfl
              · have := (hnn _ hn).1; omega
            have hfx : ∃ xa, cur1[fromIdx]? = some xa ∧ xa.isWhitespace = false := by
              by_cases hft' : fromIdx = t
              · subst hft'; exact ⟨y1', hy1', hy1w'⟩
              · rcases hfrom with rfl | rfl
                · rw [R.get_lt (by omega)]; exact ⟨z, hz, hzw⟩
                · exact absurd rfl hft'
            have htx : ∃ xb, cur1[toIdx]? = some xb ∧ xb.isWhitespace = false := by
              rcases hto with rfl | ⟨n', hn, rfl⟩
              · exact ⟨y1', hy1', hy1w'⟩
              · obtain ⟨h1, ⟨xn, hxn, hxnw⟩, _⟩ := hnn _ hn
                rw [R.get_gt h1]; exact ⟨xn, hxn, hxnw⟩
            obtain ⟨xa, hxa, hxaw⟩ := hfx
            obtain ⟨xb, hxb, hxbw⟩ := htx
            have hgt' := groupTokens'_skel hgt hft hxa hxaw hxb hxbw
            simp only at hgt'
            rw [hpost']
            simp only
            rw [← R.rank fromIdx, ← R.rank toIdx, hgt']
            simp only
            have hshape := groupTokens'_shape hgt hft
            simp only at hshape
            have hgw : grp.isWhitespace = false := by
              obtain ⟨_, hinst, _⟩ := groupTokens'_at hgt
              simp only at hinst
              cases grp with
              | tok tt v => simp [Node.isInst] at hinst
              | grp c kids => rfl
            have hto' : toIdx = t ∨ (t < toIdx ∧ (∃ xn, st.cur[toIdx]? = some xn ∧ xn.isWhitespace = false) ∧
                ∀ i x, t < i → i < toIdx → st.cur[i]? = some x → x.isWhitespace = true) := by
              rcases hto with rfl | ⟨n', hn, rfl⟩
              · exact Or.inl rfl
              · exact Or.inr (hnn _ hn)
            obtain ⟨m1, hs1⟩ := sim_group (st' := st') htid hdrop hy hyw R hshape hgw hfl hto' hoff'
              (true :: st.reached) (true :: st'.reached)
            exact ⟨_, m1, rfl, hs1, by first | trivial | rfl, rfl⟩
      · rw [if_neg hv] at h ⊢
        cases h
        obtain ⟨a, b, h1, h2, _, h4⟩ := hplain
        exact ⟨a, b, h1, h2, rfl, h4⟩
  · rw [if_neg hm] at h ⊢
    cases h
    obtain ⟨a, b, h1, h2, _, h4⟩ := hplain
    exact ⟨a, b, h1, h2, rfl, h4⟩

/-- the `reached` flags of the non-whitespace snapshot elements are all `true` -/
inductive Flags : List Node → List Bool → Prop
  | nil : Flags [] []
  | cons {x : Node} {b : Bool} {ks : List Node} {fl : List Bool} :
      (x.isWhitespace = false → b = true) → Flags ks fl → Flags (x :: ks) (b :: fl)

theorem drvLoop_sim {cfg : DrvCfg} (hpr : PredS cfg) :
    ∀ (snap : List Node) (idx : Nat) (st : DrvSt) (idx' : Nat) (st' : DrvSt) (m : Nat) (fin : DrvSt),
      (∀ x ∈ snap, cfg.isMatch x = true → PostS cfg) →
      Sim snap idx st idx' st' m → drvLoop cfg snap idx st = .ok fin →
      ∃ fin', drvLoop cfg (skelL snap) idx' st' = .ok fin' ∧ fin'.cur = skelL fin.cur ∧
        (∃ fl, fin.reached = fl.reverse ++ st.reached ∧ Flags snap fl) ∧
        (∃ fl', fin'.reached = fl'.reverse ++ st'.reached ∧ Flags (skelL snap) fl') := by
  intro snap
  induction snap with
  | nil =>
    intro idx st idx' st' m fin _ hsim h
    simp only [drvLoop, Except.ok.injEq] at h
    subst h
    exact ⟨st', rfl, hsim.cur', ⟨[], rfl, Flags.nil⟩, ⟨[], rfl, Flags.nil⟩⟩
  | cons token tl ih =>
    intro idx st idx' st' m fin hp hsim h
    have hp' : ∀ x ∈ tl, cfg.isMatch x = true → PostS cfg := fun x hx => hp x (List.mem_cons_of_mem _ hx)
    simp only [drvLoop] at h
    cases hs : drvStep cfg st idx token with
    | error e => simp [hs] at h
    | ok st1 =>
      simp only [hs] at h
      cases hw : token.isWhitespace with
      | true =>
        obtain ⟨⟨m1, hsim1⟩, b, hb⟩ := drvStep_sim_ws hsim hw hs
        obtain ⟨fin', h1, h2, ⟨fl, h3, h4⟩, h5⟩ := ih _ _ _ _ _ _ hp' hsim1 h
        refine ⟨fin', by rw [skelL_cons_ws hw]; exact h1, h2, ⟨b :: fl, ?_, ?_⟩, by rw [skelL_cons_ws hw]; exact h5⟩
        · rw [h3, hb]; simp
        · exact Flags.cons (fun h => by rw [hw] at h; cases h) h4
      | false =>
        obtain ⟨st1', m1, hs', hsim1, hb, hb'⟩ := drvStep_sim_nws hpr (hp token List.mem_cons_self) hsim hw hs
        obtain ⟨fin', h1, h2, ⟨fl, h3, h4⟩, ⟨fl', h5, h6⟩⟩ := ih _ _ _ _ _ _ hp' hsim1 h
        refine ⟨fin', ?_, h2, ⟨true :: fl, ?_, ?_⟩, ⟨true :: fl', ?_, ?_⟩⟩
        · rw [skelL_cons_nws hw]
          simp only [drvLoop, hs']
          exact h1
        · rw [h3, hb]; simp
        · exact Flags.cons (fun _ => rfl) h4
        · rw [h5, hb']; simp
        · rw [skelL_cons_nws hw]
          exact Flags.cons (fun _ => rfl) h6

/-- when every group child was reached, the recursion of `_group` is a plain `mapGroups` -/
theorem mapGroupsWhere_of_flags {f : Cls → List Node → Except PyErr (List Node)} {cls : Cls} {ks : List Node}
    {fl : List Bool} (h : Flags ks fl) :
    mapGroupsWhere f (drvEligible cls fl ks) ks = mapGroups (fun k => !k.isInst cls) f ks := by
  induction h with
  | nil => simp [mapGroupsWhere, mapGroups]
  | @cons x b ks fl hb _ ih =>
    cases x with
    | tok tt v => simp only [drvEligible, mapGroupsWhere, mapGroups, ih]
    | grp c kids =>
      have : b = true := hb rfl
      subst this
      simp only [drvEligible, Node.isGroup, Bool.true_and, mapGroupsWhere, mapGroups, ih]

theorem PostS.recurse {cfg : DrvCfg} (hp : PostS cfg) : PostS { cfg with recurse := true } :=
  ⟨hp.shape, hp.skel, hp.isMatch, hp.validPrev, hp.validNext⟩

/-- **`_group` commutes with deleting the whitespace children** (for a configuration satisfying `PostS`) -/
theorem groupDriver_skel : ∀ (fuel : Nat) (cfg : DrvCfg), PostS cfg →
    KidsSkel (fun _ ks => groupDriver cfg fuel ks) := by
  intro fuel
  induction fuel with
  | zero => intro cfg _ c ks r h; simp [groupDriver] at h
  | succ n ih =>
    intro cfg hp c ks r h
    simp only [groupDriver] at h ⊢
    by_cases hr : cfg.recurse = true
    · rw [if_pos hr] at h ⊢
      cases hd : drvLoop cfg ks 0 (drvInit ks) with
      | error e => simp [hd] at h
      | ok dry =>
        simp only [hd] at h
        obtain ⟨dry', hd', _, ⟨fl, hfl, hF⟩, ⟨fl', hfl', hF'⟩⟩ := drvLoop_sim hp.pred _ _ _ _ _ _ _ (fun _ _ _ => hp) (sim_init ks) hd
        have e1 : dry.reached.reverse = fl := by rw [hfl]; simp [drvInit]
        have e2 : dry'.reached.reverse = fl' := by rw [hfl']; simp [drvInit]
        rw [e1, mapGroupsWhere_of_flags hF] at h
        rw [hd']
        simp only
        rw [e2, mapGroupsWhere_of_flags hF']
        cases hm : mapGroups (fun k => !k.isInst cfg.cls)
            (fun _ kids => groupDriver { cfg with recurse := true } n kids) ks with
        | error e => simp [hm] at h
        | ok ks1 =>
          simp only [hm] at h
          have hm' := mapGroups_skel (elig := fun k => !k.isInst cfg.cls) (fun k => by simp)
            (ih { cfg with recurse := true } hp.recurse) ks ks1 hm
          rw [hm']
          simp only
          cases hl : drvLoop cfg ks1 0 (drvInit ks1) with
          | error e => simp [hl] at h
          | ok st =>
            simp only [hl, Except.ok.injEq] at h
            subst h
            obtain ⟨fin', hl', hc, _, _⟩ := drvLoop_sim hp.pred _ _ _ _ _ _ _ (fun _ _ _ => hp) (sim_init ks1) hl
            rw [hl']
            simp only [hc]
    · rw [if_neg hr] at h ⊢
      cases hl : drvLoop cfg ks 0 (drvInit ks) with
      | error e => simp [hl] at h
      | ok st =>
        simp only [hl, Except.ok.injEq] at h
        subst h
        obtain ⟨fin', hl', hc, _, _⟩ := drvLoop_sim hp.pred _ _ _ _ _ _ _ (fun _ _ _ => hp) (sim_init ks) hl
        rw [hl']
        simp only [hc]

theorem driverPass_skel {cfg : DrvCfg} (hp : PostS cfg) : PassSkel (driverPass cfg) :=
  fun fuel => groupDriver_skel fuel cfg hp

end Sql
