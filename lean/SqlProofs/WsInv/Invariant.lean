import SqlProofs.WsInv.AdHoc
import SqlProofs.WsInv.DriverPasses
import SqlProofs.WsInv.Matching
import SqlProofs.LeadingKeyword
import SqlProofs.GroupLeavesStrict
/-!
# SqlProofs.WsInv.Invariant — the five passes that commute with `skel` only on a domain

* `group_comments`, `align_comments`: on trees without comment tokens / `Comment` groups they do nothing.
* `group_assignment`: on trees without a `:=` token it does nothing.
* `group_functions`: its `CREATE TABLE … AS` test reads the *text* of every child, whitespace included
  (`functionsSkip`); the two runs agree when the test has the same outcome at every level (`fnOK`).
* `group_where`: `_groupable_tokens[-1]` takes the last child of a parenthesis without looking at it; it commutes on
  trees satisfying `whOKL`, which `Ends.lean` proves for the tree `group_where` receives.
-/
namespace Sql

variable {u : Text → Text}

/-! ## what the recursion into the children keeps: the top-level shape of a child list -/
inductive TopSimL (R : List Node → List Node → Prop) : List Node → List Node → Prop
  | nil : TopSimL R [] []
  | tok (tt : TType) (v : Text) {a b : List Node} : TopSimL R a b → TopSimL R (.tok tt v :: a) (.tok tt v :: b)
  | grp (c : Cls) {k k' : List Node} {a b : List Node} : R k k' → TopSimL R a b →
      TopSimL R (.grp c k :: a) (.grp c k' :: b)

theorem mapGroups_topSimL {R : List Node → List Node → Prop} (hrefl : ∀ k, R k k) {elig : Node → Bool}
    {f : Cls → List Node → Except PyErr (List Node)} (hf : ∀ c k r, f c k = .ok r → R k r) :
    ∀ ks ks1, mapGroups elig f ks = .ok ks1 → TopSimL R ks ks1 := by
  intro ks
  induction ks with
  | nil => intro ks1 h; simp [mapGroups] at h; subst h; exact .nil
  | cons k rest ih =>
    intro ks1 h
    cases k with
    | tok tt v =>
      simp only [mapGroups] at h
      cases hr : mapGroups elig f rest with
      | error e => simp [hr] at h
      | ok rest' =>
        simp only [hr, Except.ok.injEq] at h
        subst h
        exact .tok tt v (ih _ hr)
    | grp c kids =>
      simp only [mapGroups] at h
      split at h
      · cases hk : f c kids with
        | error e => simp [hk] at h
        | ok kids' =>
          simp only [hk] at h
          cases hr : mapGroups elig f rest with
          | error e => simp [hr] at h
          | ok rest' =>
            simp only [hr, Except.ok.injEq] at h
            subst h
            exact .grp c (hf _ _ _ hk) (ih _ hr)
      · cases hr : mapGroups elig f rest with
        | error e => simp [hr] at h
        | ok rest' =>
          simp only [hr, Except.ok.injEq] at h
          subst h
          exact .grp c (hrefl _) (ih _ hr)

/-- a test that only looks at the top constructor -/
def TopOnly (p : Node → Bool) : Prop := ∀ c k k', p (.grp c k) = p (.grp c k')

theorem TopSimL.get {R : List Node → List Node → Prop} {p : Node → Bool} (hp : TopOnly p) {a b : List Node}
    (h : TopSimL R a b) : a.length = b.length ∧ ∀ (i : Nat) (x : Node), a[i]? = some x → ∃ y, b[i]? = some y ∧ p y = p x := by
  induction h with
  | nil => exact ⟨rfl, fun (i : Nat) (x : Node) hx => by simp at hx⟩
  | tok tt v _ ih =>
    refine ⟨by simp [ih.1], ?_⟩
    intro i x hx
    cases i with
    | zero => simp at hx; subst hx; exact ⟨_, by simp, rfl⟩
    | succ i => simp at hx ⊢; exact ih.2 i x hx
  | @grp c k k' _ _ _ _ ih =>
    refine ⟨by simp [ih.1], ?_⟩
    intro i x hx
    cases i with
    | zero => simp at hx; subst hx; exact ⟨Node.grp c k', by simp, hp _ _ _⟩
    | succ i => simp at hx ⊢; exact ih.2 i x hx

theorem TopSimL.all {R : List Node → List Node → Prop} {p : Node → Bool} (hp : TopOnly p) {a b : List Node}
    (h : TopSimL R a b) (ha : ∀ x ∈ a, p x = true) : ∀ y ∈ b, p y = true := by
  induction h with
  | nil => intro y hy; cases hy
  | tok tt v _ ih =>
    intro y hy
    cases hy with
    | head => exact ha _ List.mem_cons_self
    | tail _ hy => exact ih (fun x hx => ha x (List.mem_cons_of_mem _ hx)) y hy
  | grp c _ _ ih =>
    intro y hy
    cases hy with
    | head => rw [hp c _ _]; exact ha _ List.mem_cons_self
    | tail _ hy => exact ih (fun x hx => ha x (List.mem_cons_of_mem _ hx)) y hy

/-! ## group_where -/
theorem matchP_grp_fun (c : Cls) (k : List Node) : Node.matchP u (Node.grp c k) = fun _ => false := by
  funext p; rfl

theorem plainEnd_topOnly : TopOnly (plainEnd u) := by
  intro c k k'
  simp [plainEnd, imt, Node.isInstAny, matchP_grp_fun, Node.isWhitespace]

theorem EndsOk.topSim {R : List Node → List Node → Prop} {c : Cls} {ks ks1 : List Node} (h : TopSimL R ks ks1)
    (he : EndsOk u c ks) : EndsOk u c ks1 := by
  intro hc
  obtain ⟨⟨f, hf, hfp⟩, ⟨l, hl, hlp⟩⟩ := he hc
  obtain ⟨hlen, hget⟩ := h.get (plainEnd_topOnly (u := u))
  obtain ⟨f1, hf1, hfp1⟩ := hget 0 f hf
  obtain ⟨l1, hl1, hlp1⟩ := hget _ l hl
  exact ⟨⟨f1, hf1, by rw [hfp1]; exact hfp⟩, ⟨l1, by rw [← hlen]; exact hl1, by rw [hlp1]; exact hlp⟩⟩

theorem endsOk_of_whLevel {c : Cls} {ks : List Node} (h : whLevel u c ks = true) : EndsOk u c ks := by
  intro hc
  simp only [whLevel, hc, Bool.not_true, Bool.false_or, Bool.and_eq_true] at h
  obtain ⟨h1, h2⟩ := h
  constructor
  · cases hf : ks[0]? with
    | none => simp [hf] at h1
    | some f => simp only [hf] at h1; exact ⟨f, rfl, h1⟩
  · cases hl : ks[ks.length - 1]? with
    | none => simp [hl] at h2
    | some l => simp only [hl] at h2; exact ⟨l, rfl, h2⟩

theorem whOKL_mem {ks : List Node} (h : whOKL u ks = true) {c : Cls} {kids : List Node}
    (hm : Node.grp c kids ∈ ks) : whLevel u c kids = true ∧ whOKL u kids = true := by
  induction ks with
  | nil => cases hm
  | cons k rest ih =>
    simp only [whOKL, Bool.and_eq_true] at h
    cases hm with
    | head => simpa [whOKN] using h.1
    | tail _ hm => exact ih h.2 hm

/-- **`group_where` commutes with `skel`** on trees whose parenthesis/bracket groups have plain ends -/
theorem wherePass_skel (fuel : Nat) :
    KidsSkelOn (fun c ks => whLevel u c ks = true ∧ whOKL u ks = true)
      (recursePass [.Where] (groupWhereBody u) fuel) :=
  recursePass_skel_on (Q := fun c ks => EndsOk u c ks)
    (fun _ _ hP _ _ hm => whOKL_mem hP.2 hm)
    (fun _ _ _ _ hP hm =>
      (endsOk_of_whLevel hP.1).topSim (mapGroups_topSimL (R := fun _ _ => True) (fun _ => trivial)
        (fun _ _ _ _ => trivial) _ _ hm))
    (fun _ _ _ hQ h => groupWhereBody_skel hQ h) fuel

/-! ## align_comments: nothing to do without `Comment` groups -/
mutual
/-- no `Comment` group at any depth -/
def noCmtN : Node → Bool
  | .tok _ _ => true
  | .grp c ks => c != .Comment && noCmtL ks
def noCmtL : List Node → Bool
  | [] => true
  | k :: ks => noCmtN k && noCmtL ks
end

theorem noCmtL_iff (ks : List Node) : noCmtL ks = true ↔ ∀ x ∈ ks, noCmtN x = true := by
  induction ks with
  | nil => simp [noCmtL]
  | cons k rest ih => simp [noCmtL, ih]

theorem noCmtL_append (a b : List Node) : noCmtL (a ++ b) = (noCmtL a && noCmtL b) := by
  induction a with
  | nil => simp [noCmtL]
  | cons k a ih => simp [noCmtL, ih, Bool.and_assoc]

theorem noCmt_isInst {x : Node} (h : noCmtN x = true) : x.isInst .Comment = false := by
  cases x with
  | tok tt v => rfl
  | grp c ks =>
    simp only [noCmtN, Bool.and_eq_true, bne_iff_ne, ne_eq] at h
    simp only [Node.isInst]
    cases c <;> simp_all

theorem alignBody_id {c : Cls} {ks : List Node} (h : ∀ x ∈ ks, x.isInst .Comment = false) :
    alignCommentsBody u c ks = .ok ks := by
  unfold alignCommentsBody
  rw [Acc.tokenNextBy_none_of_forall]
  · cases loopBound ks <;> rfl
  · intro k hk
    have := h k hk
    simp [imt, Gen.align_comments_token_next_by0_i, Node.isInstAny, this]

theorem mem_skelL {ks : List Node} {y : Node} (h : y ∈ skelL ks) : ∃ x ∈ ks, y = x.skel := by
  obtain ⟨i, hi, hy⟩ := List.getElem_of_mem h
  have : (skelL ks)[i]? = some y := by rw [List.getElem?_eq_getElem hi, hy]
  obtain ⟨j, x, h1, _, h3, _⟩ := skelL_getElem_inv ks i y this
  exact ⟨x, List.mem_of_getElem? h1, h3⟩

/-- **`align_comments` commutes with `skel`** on trees without `Comment` groups (it returns them unchanged) -/
theorem alignPass_skel (fuel : Nat) :
    KidsSkelOn (fun _ ks => noCmtL ks = true) (recursePass [] (alignCommentsBody u) fuel) :=
  recursePass_skel_on (Q := fun _ ks => ∀ x ∈ ks, x.isInst .Comment = false)
    (fun _ ks hP c' kids hm => by
      have := (noCmtL_iff ks).1 hP _ hm
      simp only [noCmtN, Bool.and_eq_true] at this
      exact this.2)
    (fun _ _ ks ks1 hP hm => by
      have hall : ∀ x ∈ ks, (fun x : Node => !x.isInst .Comment) x = true := by
        intro x hx
        simp [noCmt_isInst ((noCmtL_iff ks).1 hP x hx)]
      have := (mapGroups_topSimL (R := fun _ _ => True) (fun _ => trivial) (fun _ _ _ _ => trivial) _ _ hm).all
        (p := fun x : Node => !x.isInst .Comment) (fun _ _ _ => rfl) hall
      intro y hy
      simpa using this y hy)
    (fun c ks r hQ h => by
      rw [alignBody_id hQ] at h
      cases h
      apply alignBody_id
      intro y hy
      obtain ⟨x, hx, rfl⟩ := mem_skelL hy
      rw [skel_isInst]; exact hQ x hx) fuel

/-! ### `Comment` groups only come from `group_comments` -/
theorem noCmtL_take {ks : List Node} (h : noCmtL ks = true) (n : Nat) : noCmtL (ks.take n) = true :=
  (noCmtL_iff _).2 fun x hx => (noCmtL_iff ks).1 h x (List.mem_of_mem_take hx)
theorem noCmtL_drop {ks : List Node} (h : noCmtL ks = true) (n : Nat) : noCmtL (ks.drop n) = true :=
  (noCmtL_iff _).2 fun x hx => (noCmtL_iff ks).1 h x (List.mem_of_mem_drop hx)
theorem noCmtL_pySlice {ks : List Node} (h : noCmtL ks = true) (a b : Nat) : noCmtL (pySlice ks a b) = true :=
  noCmtL_drop (noCmtL_take h b) a

theorem RwC.noCmt {mt : Bool} {ks ks' : List Node} (h : RwC mt ks ks') : noCmtL ks = true → noCmtL ks' = true := by
  induction h with
  | refl => exact id
  | trans _ _ ih1 ih2 => exact fun h => ih2 (ih1 h)
  | @group ks cls a b ie ext r hg hc _ _ =>
    intro hn
    rcases groupTokens'_cases hg with ⟨c, kids, _, hst, hinst, rfl⟩ | ⟨_, _, rfl⟩
    · have hk := (noCmtL_iff ks).1 hn _ (List.mem_of_getElem? hst)
      simp only [noCmtN, Bool.and_eq_true] at hk
      simp only [noCmtL_append, noCmtL, noCmtN, noCmtL_take hn, noCmtL_drop hn, hk.1, hk.2, noCmtL_pySlice hn,
        Bool.and_self]
    · have : (cls != Cls.Comment) = true := by simpa using hc
      simp only [noCmtL_append, noCmtL, noCmtN, noCmtL_take hn, noCmtL_drop hn, noCmtL_pySlice hn, this,
        Bool.and_self]
  | @retype ks i v _ =>
    intro hn
    apply (noCmtL_iff _).2
    intro x hx
    rcases List.mem_or_eq_of_mem_set hx with hx | rfl
    · exact (noCmtL_iff ks).1 hn x hx
    · rfl
  | inside _ ih =>
    intro hn
    simp only [noCmtL, noCmtN, Bool.and_true, Bool.and_eq_true] at hn ⊢
    exact ⟨hn.1, ih hn.2⟩
  | ctx pre post _ ih =>
    intro hn
    simp only [noCmtL_append, Bool.and_eq_true] at hn ⊢
    exact ⟨⟨hn.1.1, ih hn.1.2⟩, hn.2⟩

theorem runPasses_noCmt {fuel : Nat} {c : Cls} : ∀ (names : List String) (ks ks' : List Node),
    (∀ n ∈ names, n ≠ "group_comments" ∧ n ≠ "align_comments") → runPasses u fuel c names ks = .ok ks' →
    noCmtL ks = true → noCmtL ks' = true := by
  intro names
  induction names with
  | nil => intro ks ks' _ h hn; simp [runPasses] at h; subst h; exact hn
  | cons p ps ih =>
    intro ks ks' hnames h hn
    simp only [runPasses] at h
    cases hp : passByName u p fuel c ks with
    | error e => simp [hp] at h
    | ok ks1 =>
      simp only [hp] at h
      obtain ⟨h1, h2⟩ := hnames p List.mem_cons_self
      have hrw := passByName_rwC (u := u) p true h1 h2 (fun _ => rfl) fuel c ks ks1 hp
      exact ih _ _ (fun n hn => hnames n (List.mem_cons_of_mem _ hn)) h (hrw.noCmt hn)

/-! ## group_comments: nothing to do on a flat list without comment tokens -/
theorem mapGroups_flat {elig : Node → Bool} {f : Cls → List Node → Except PyErr (List Node)} :
    ∀ ks : List Node, (∀ x ∈ ks, x.isGroup = false) → mapGroups elig f ks = .ok ks := by
  intro ks
  induction ks with
  | nil => intro _; rfl
  | cons k rest ih =>
    intro h
    cases k with
    | tok tt v => simp [mapGroups, ih (fun x hx => h x (List.mem_cons_of_mem _ hx))]
    | grp c kids => have := h _ List.mem_cons_self; simp [Node.isGroup] at this

theorem commentsBody_id {c : Cls} {ks : List Node} (h : ∀ x ∈ ks, x.isGroup = false ∧ x.ttIn T.Comment = false) :
    groupCommentsBody u c ks = .ok ks := by
  unfold groupCommentsBody
  rw [Acc.tokenNextBy_none_of_forall]
  · cases loopBound ks <;> rfl
  · intro k hk
    obtain ⟨h1, h2⟩ := h k hk
    cases k with
    | grp c kids => simp [Node.isGroup] at h1
    | tok tt v =>
      simp only [Node.ttIn] at h2
      simp [imt, Gen.group_comments_token_next_by0_t, Node.isInstAny, Node.ttIn, h2, T.Comment] at h2 ⊢

theorem commentsPass_flat {fuel : Nat} {c : Cls} {ks r : List Node}
    (hf : ∀ x ∈ ks, x.isGroup = false ∧ x.ttIn T.Comment = false)
    (h : passByName u "group_comments" fuel c ks = .ok r) :
    r = ks ∧ passByName u "group_comments" fuel c (skelL ks) = .ok (skelL ks) := by
  rw [passByName_comments_eq] at h ⊢
  cases fuel with
  | zero => simp [recursePass] at h
  | succ n =>
    have hf' : ∀ y ∈ skelL ks, y.isGroup = false ∧ y.ttIn T.Comment = false := by
      intro y hy
      obtain ⟨x, hx, rfl⟩ := mem_skelL hy
      simpa using hf x hx
    simp only [recursePass, mapGroups_flat ks (fun x hx => (hf x hx).1), commentsBody_id hf, Except.ok.injEq] at h
    simp only [recursePass, mapGroups_flat _ (fun x hx => (hf' x hx).1), commentsBody_id hf']
    exact ⟨h.symm, trivial⟩

/-! ## group_assignment: nothing to do without a `:=` token -/
theorem predS_assignment (u : Text → Text) : PredS (cfgAssignment u) where
  isMatch := fun x => by simp [cfgAssignment]
  validPrev := fun x => by simp [cfgAssignment, validAssignment]
  validNext := fun o => by cases o <;> simp [cfgAssignment, validAssignment]

theorem groupDriver_skel_noMatch : ∀ (fuel : Nat) (cfg : DrvCfg) (ks r : List Node), PredS cfg →
    (∀ x : Node, (∀ l ∈ x.leaves, l.tt ≠ T.Assignment) → cfg.isMatch x = false) → NoAssign ks →
    groupDriver cfg fuel ks = .ok r → groupDriver cfg fuel (skelL ks) = .ok (skelL r) := by
  intro fuel
  induction fuel with
  | zero => intro cfg ks r _ _ _ h; simp [groupDriver] at h
  | succ n ih =>
    intro cfg ks r hpr hm hna h
    have hnm : ∀ x ∈ ks, cfg.isMatch x = true → PostS cfg := by
      intro x hx hmx
      rw [hm x (fun l hl => hna l (mem_leaves_of_mem hx l hl))] at hmx
      cases hmx
    simp only [groupDriver] at h ⊢
    by_cases hr : cfg.recurse = true
    · rw [if_pos hr] at h ⊢
      cases hd : drvLoop cfg ks 0 (drvInit ks) with
      | error e => simp [hd] at h
      | ok dry =>
        simp only [hd] at h
        obtain ⟨dry', hd', _, ⟨fl, hfl, hF⟩, ⟨fl', hfl', hF'⟩⟩ := drvLoop_sim hpr _ _ _ _ _ _ _ hnm (sim_init ks) hd
        have e1 : dry.reached.reverse = fl := by rw [hfl]; simp [drvInit]
        have e2 : dry'.reached.reverse = fl' := by rw [hfl']; simp [drvInit]
        rw [hd']
        simp only
        rw [e2, mapGroupsWhere_of_flags hF']
        cases hmg : mapGroupsWhere (fun _ kids => groupDriver { cfg with recurse := true } n kids)
            (drvEligible cfg.cls dry.reached.reverse ks) ks with
        | error e => simp [hmg] at h
        | ok ks1 =>
          simp only [hmg] at h
          have hkid : ∀ c kids, Node.grp c kids ∈ ks → NoAssign kids :=
            fun c kids hmem l hl => hna l (mem_leaves_of_mem hmem l (by simpa using hl))
          have h1 : ks1 = ks := mapGroupsWhere_id _ _ _ (by
            intro c kids r' hmem hk
            exact groupDriver_noMatch n { cfg with recurse := true } kids r' hm (hkid c kids hmem) hk) hmg
          subst h1
          rw [e1, mapGroupsWhere_of_flags hF] at hmg
          have hm' := mapGroups_skel_on (elig := fun k => !k.isInst cfg.cls) (fun k => by simp) _ _
            (fun c kids r' hmem hk => ih { cfg with recurse := true } kids r'
              ⟨hpr.isMatch, hpr.validPrev, hpr.validNext⟩ hm (hkid c kids hmem) hk) hmg
          rw [hm']
          simp only
          cases hl : drvLoop cfg ks1 0 (drvInit ks1) with
          | error e => simp [hl] at h
          | ok st =>
            simp only [hl, Except.ok.injEq] at h
            subst h
            obtain ⟨fin', hl', hc, _, _⟩ := drvLoop_sim hpr _ _ _ _ _ _ _ hnm (sim_init ks1) hl
            rw [hl']
            simp only [hc]
    · rw [if_neg hr] at h ⊢
      cases hl : drvLoop cfg ks 0 (drvInit ks) with
      | error e => simp [hl] at h
      | ok st =>
        simp only [hl, Except.ok.injEq] at h
        subst h
        obtain ⟨fin', hl', hc, _, _⟩ := drvLoop_sim hpr _ _ _ _ _ _ _ hnm (sim_init ks) hl
        rw [hl']
        simp only [hc]

/-- **`group_assignment` commutes with `skel`** on trees without a `:=` token -/
theorem assignmentPass_skel {fuel : Nat} {c : Cls} {ks r : List Node} (hna : NoAssign ks)
    (h : driverPass (cfgAssignment u) fuel c ks = .ok r) :
    driverPass (cfgAssignment u) fuel c (skelL ks) = .ok (skelL r) :=
  groupDriver_skel_noMatch fuel _ ks r (predS_assignment u) (fun _ hx => assignment_noMatch hx) hna h

/-! ## group_functions: the `CREATE TABLE … AS` test -/
def nwsTok (t : Tok) : Bool := !t.tt.isIn T.Whitespace

mutual
theorem leaves_skel : (n : Node) → n.isWhitespace = false → n.skel.leaves = n.leaves.filter nwsTok
  | .tok tt v, h => by
    simp only [Node.isWhitespace] at h
    simp [nwsTok, h]
  | .grp c ks, _ => by
    simp only [skel_grp, leaves_grp]
    exact leavesL_skelL ks
theorem leavesL_skelL : (ks : List Node) → Node.leavesL (skelL ks) = (Node.leavesL ks).filter nwsTok
  | [] => by simp
  | k :: ks => by
    cases hk : k.isWhitespace with
    | true =>
      rw [skelL_cons_ws hk, leavesL_skelL ks]
      cases k with
      | grp c kids => cases hk
      | tok tt v =>
        simp only [Node.isWhitespace] at hk
        simp [nwsTok, hk]
    | false =>
      rw [skelL_cons_nws hk, leavesL_cons, leavesL_cons, List.filter_append, leaves_skel k hk, leavesL_skelL ks]
end

/-- the children correspond: same tokens, groups of the same class with the same leaves -/
abbrev KidSim := TopSimL (fun k k' => Node.leavesL k' = Node.leavesL k)

theorem KidSim.values {ks ks1 : List Node} (h : KidSim ks ks1) : ks1.map Node.value = ks.map Node.value := by
  induction h with
  | nil => rfl
  | tok tt v _ ih => simp [ih]
  | grp c hr _ ih =>
    simp only [List.map_cons, ih, Node.value, Node.text]
    rw [text_eq_leaves, text_eq_leaves, hr]

theorem KidSim.skelValues {ks ks1 : List Node} (h : KidSim ks ks1) :
    (skelL ks1).map Node.value = (skelL ks).map Node.value := by
  induction h with
  | nil => rfl
  | tok tt v _ ih =>
    cases hw : (Node.tok tt v).isWhitespace with
    | true => rw [skelL_cons_ws hw, skelL_cons_ws hw]; exact ih
    | false => rw [skelL_cons_nws hw, skelL_cons_nws hw]; simp [ih]
  | grp c hr _ ih =>
    rw [skelL_grp_cons, skelL_grp_cons]
    simp only [List.map_cons, ih, Node.value, Node.text]
    rw [text_eq_leaves, text_eq_leaves, leavesL_skelL, leavesL_skelL, hr]

/-- `functionsSkip` only reads the values of the children -/
def fnSkipV (u : Text → Text) (vs : List Text) : Bool :=
  vs.any (fun v => u v == txt "CREATE") && vs.any (fun v => u v == txt "TABLE") && !(vs.any (fun v => u v == txt "AS"))

theorem functionsSkip_values (ks : List Node) : functionsSkip u ks = fnSkipV u (ks.map Node.value) := by
  simp [functionsSkip, fnSkipV, List.any_map, Function.comp_def]

theorem fnOKL_mem {ks : List Node} (h : fnOKL u ks = true) {c : Cls} {kids : List Node}
    (hm : Node.grp c kids ∈ ks) : fnLevel u kids = true ∧ fnOKL u kids = true := by
  induction ks with
  | nil => cases hm
  | cons k rest ih =>
    simp only [fnOKL, Bool.and_eq_true] at h
    cases hm with
    | head => simpa [fnOKN] using h.1
    | tail _ hm => exact ih h.2 hm

/-- **`group_functions` commutes with `skel`** on trees where the `CREATE TABLE` test is not affected by whitespace -/
theorem functionsPass_skel (fuel : Nat) :
    KidsSkelOn (fun _ ks => fnLevel u ks = true ∧ fnOKL u ks = true)
      (recursePass [.Function] (groupFunctionsBody u) fuel) :=
  recursePass_skel_on (Q := fun _ ks => functionsSkip u (skelL ks) = functionsSkip u ks)
    (fun _ _ hP _ _ hm => fnOKL_mem hP.2 hm)
    (fun n _ ks ks1 hP hm => by
      have hsim : KidSim ks ks1 := mapGroups_topSimL (R := fun k k' => Node.leavesL k' = Node.leavesL k) (fun _ => rfl)
        (fun c k r h => recursePass_leaves_eq (groupFunctionsBody_leaves u) n c k r h) _ _ hm
      have h1 : functionsSkip u (skelL ks) = functionsSkip u ks := by simpa [fnLevel] using hP.1
      rw [functionsSkip_values, functionsSkip_values, hsim.values, hsim.skelValues, ← functionsSkip_values,
        ← functionsSkip_values]
      exact h1)
    (fun _ _ _ hQ h => groupFunctionsBody_skel hQ h) fuel

end Sql
