import SqlProofs.WsInv.Group
/-!
# SqlProofs.WsInv.Matching — `_group_matching` commutes with deleting the whitespace children

`_group_matching` skips whitespace tokens explicitly (`if token.is_whitespace: continue`); through the refinement
`matchLoop_eq_spec` it is enough to show that the textbook stack matcher `specMatch` commutes with `skelL`.
-/
namespace Sql

theorem skelL_flatten (l : List (List Node)) : skelL l.flatten = (l.map skelL).flatten := by
  induction l with
  | nil => rfl
  | cons a l ih => simp [skelL_append, ih]

theorem skelL_singleton {t : Node} (h : t.isWhitespace = false) : skelL [t] = [t.skel] := by
  rw [skelL_cons_nws h]; rfl

theorem specStep_skel_ws {isOpen isClose : Node → Bool} {cls : Cls} (hwo : ∀ x, x.isWhitespace = true → isOpen x = false)
    (hwc : ∀ x, x.isWhitespace = true → isClose x = false) {st : List (List Node)} (hne : st ≠ []) {t : Node}
    (hw : t.isWhitespace = true) :
    (specStep isOpen isClose cls st t).map skelL = st.map skelL ∧ specStep isOpen isClose cls st t ≠ [] := by
  unfold specStep
  rw [hwo t hw, hwc t hw]
  cases st with
  | nil => exact absurd rfl hne
  | cons top rest =>
    simp [skelL_append, skelL_cons_ws hw]

theorem specStep_skel_nws {isOpen isClose : Node → Bool} {cls : Cls} (hso : ∀ x, isOpen x.skel = isOpen x)
    (hsc : ∀ x, isClose x.skel = isClose x) {st : List (List Node)} (hne : st ≠ []) {t : Node}
    (hw : t.isWhitespace = false) :
    (specStep isOpen isClose cls st t).map skelL = specStep isOpen isClose cls (st.map skelL) t.skel ∧
      specStep isOpen isClose cls st t ≠ [] := by
  unfold specStep
  rw [hso, hsc]
  by_cases ho : isOpen t = true
  · simp [ho, skelL_singleton hw]
  · simp only [ho, Bool.false_eq_true, ↓reduceIte]
    by_cases hc : isClose t = true
    · simp only [hc, ↓reduceIte]
      cases st with
      | nil => exact absurd rfl hne
      | cons fr rest =>
        cases rest with
        | nil => simp [skelL_append, skelL_singleton hw]
        | cons parent rest => simp [skelL_append, skelL_singleton hw, skelL_grp_cons]
    · simp only [hc, Bool.false_eq_true, ↓reduceIte]
      cases st with
      | nil => exact absurd rfl hne
      | cons top rest => simp [skelL_append, skelL_singleton hw]

theorem specFrames_skel {isOpen isClose : Node → Bool} {cls : Cls} (hwo : ∀ x, x.isWhitespace = true → isOpen x = false)
    (hwc : ∀ x, x.isWhitespace = true → isClose x = false) (hso : ∀ x, isOpen x.skel = isOpen x)
    (hsc : ∀ x, isClose x.skel = isClose x) :
    ∀ (ts : List Node) (st : List (List Node)), st ≠ [] →
      (specFrames isOpen isClose cls st ts).map skelL = specFrames isOpen isClose cls (st.map skelL) (skelL ts) := by
  intro ts
  induction ts with
  | nil => intro st _; simp [specFrames]
  | cons t ts ih =>
    intro st hne
    have hunf : ∀ (s : List (List Node)) (x : Node) (xs : List Node),
        specFrames isOpen isClose cls s (x :: xs) = specFrames isOpen isClose cls (specStep isOpen isClose cls s x) xs :=
      fun _ _ _ => rfl
    rw [hunf]
    cases hw : t.isWhitespace with
    | true =>
      obtain ⟨h1, h2⟩ := specStep_skel_ws (cls := cls) hwo hwc hne hw
      rw [ih _ h2, h1, skelL_cons_ws hw]
    | false =>
      obtain ⟨h1, h2⟩ := specStep_skel_nws (cls := cls) hso hsc hne hw
      rw [ih _ h2, h1, skelL_cons_nws hw, hunf]

/-- **the textbook matcher commutes with `skel`** -/
theorem specMatch_skel {isOpen isClose : Node → Bool} {cls : Cls} (hwo : ∀ x, x.isWhitespace = true → isOpen x = false)
    (hwc : ∀ x, x.isWhitespace = true → isClose x = false) (hso : ∀ x, isOpen x.skel = isOpen x)
    (hsc : ∀ x, isClose x.skel = isClose x) (ts : List Node) :
    specMatch isOpen isClose cls (skelL ts) = skelL (specMatch isOpen isClose cls ts) := by
  unfold specMatch
  rw [skelL_flatten, List.map_reverse, specFrames_skel hwo hwc hso hsc ts [[]] (by simp)]
  rfl

theorem skel_matchP_fun (u : Text → Text) (x : Node) : Node.matchP u x.skel = Node.matchP u x := by
  funext p; simp

theorem isOpenTok_ws {u : Text → Text} {cls : Cls} {mOpen : List MPat} (x : Node) (h : x.isWhitespace = true) :
    isOpenTok u cls mOpen x = false := by simp [isOpenTok, h]
theorem isCloseTok_ws {u : Text → Text} {cls : Cls} {mOpen mClose : List MPat} (x : Node) (h : x.isWhitespace = true) :
    isCloseTok u cls mOpen mClose x = false := by simp [isCloseTok, h]
theorem isOpenTok_skel {u : Text → Text} {cls : Cls} {mOpen : List MPat} (x : Node) :
    isOpenTok u cls mOpen x.skel = isOpenTok u cls mOpen x := by simp [isOpenTok, skel_matchP_fun]
theorem isCloseTok_skel {u : Text → Text} {cls : Cls} {mOpen mClose : List MPat} (x : Node) :
    isCloseTok u cls mOpen mClose x.skel = isCloseTok u cls mOpen mClose x := by simp [isCloseTok, isOpenTok, skel_matchP_fun]

/-- **`_group_matching` commutes with `skel`**, with the same fuel -/
theorem groupMatching_skel {u : Text → Text} {cls : Cls} {mOpen mClose : List MPat} :
    ∀ fuel, KidsSkel (fun _ ks => groupMatching u cls mOpen mClose fuel ks) := by
  intro fuel
  induction fuel with
  | zero => intro c ks r h; simp [groupMatching] at h
  | succ n ih =>
    intro c ks r h
    simp only [groupMatching] at h ⊢
    cases hm : mapGroups (fun k => !k.isInst cls) (fun _ kids => groupMatching u cls mOpen mClose n kids) ks with
    | error e => simp [hm] at h
    | ok ks1 =>
      simp only [hm] at h
      have hm' := mapGroups_skel (elig := fun k => !k.isInst cls) (fun k => by simp) ih ks ks1 hm
      rw [hm']
      simp only
      cases hl : matchLoop u cls mOpen mClose ks1 0 { cur := ks1, opens := [], off := 0 } with
      | error e => simp [hl] at h
      | ok st =>
        simp only [hl, Except.ok.injEq] at h
        subst h
        obtain ⟨st', hl'⟩ := matchLoop_total u cls mOpen mClose (skelL ks1)
        rw [hl']
        simp only [matchLoop_eq_spec hl', matchLoop_eq_spec hl]
        rw [specMatch_skel isOpenTok_ws isCloseTok_ws isOpenTok_skel isCloseTok_skel]

theorem matchingPassOf_skel (u : Text → Text) (c : Cls) : PassSkel (matchingPassOf u c) := by
  intro fuel c' ks r h
  unfold matchingPassOf at h ⊢
  cases hc : matchingTables c with
  | none => simp [hc, unknownPass] at h
  | some p =>
    obtain ⟨o, cl⟩ := p
    simp only [hc, matchingPass] at h ⊢
    exact groupMatching_skel fuel c' ks r h

end Sql
