import SqlModel.Grouping.Skel
import SqlModel.Grouping
import SqlProofs.Group.Nav
import SqlProofs.MatchSpec
/-!
# SqlProofs.WsInv.Basic — `skel` (the tree without whitespace leaves): lists, navigation, `group_tokens`

Positions are translated by `rank ks t` = the number of non-whitespace children before index `t`.
The searches `_token_matching`/`token_next`/`token_prev`/`token_next_by` skip whitespace (or use a predicate that no
whitespace leaf satisfies), so they find corresponding children in `ks` and in `skelL ks`; a `group_tokens` call on
`[a, b]` whose end points are not whitespace corresponds to the call on `[rank a, rank b]`.
-/
namespace Sql

@[simp] theorem skelL_nil : skelL [] = [] := by simp [skelL]
theorem skelL_cons (k : Node) (ks : List Node) :
    skelL (k :: ks) = if k.isWhitespace then skelL ks else k.skel :: skelL ks := by simp [skelL]
@[simp] theorem skel_tok (tt : TType) (v : Text) : (Node.tok tt v).skel = Node.tok tt v := by simp [Node.skel]
@[simp] theorem skel_grp (c : Cls) (ks : List Node) : (Node.grp c ks).skel = Node.grp c (skelL ks) := by simp [Node.skel]

theorem skelL_cons_ws {k : Node} (h : k.isWhitespace = true) (ks : List Node) : skelL (k :: ks) = skelL ks := by
  rw [skelL_cons, if_pos h]
theorem skelL_cons_nws {k : Node} (h : k.isWhitespace = false) (ks : List Node) :
    skelL (k :: ks) = k.skel :: skelL ks := by
  rw [skelL_cons, if_neg (by simp [h])]

theorem skelL_append (a b : List Node) : skelL (a ++ b) = skelL a ++ skelL b := by
  induction a with
  | nil => simp
  | cons k a ih =>
    by_cases h : k.isWhitespace = true
    · simp [skelL_cons, h, ih]
    · simp [skelL_cons, h, ih]

@[simp] theorem skel_isWhitespace (k : Node) : k.skel.isWhitespace = k.isWhitespace := by cases k <;> rfl
@[simp] theorem skel_isGroup (k : Node) : k.skel.isGroup = k.isGroup := by cases k <;> rfl
@[simp] theorem skel_isInst (k : Node) (c : Cls) : k.skel.isInst c = k.isInst c := by cases k <;> rfl
@[simp] theorem skel_isInstAny (k : Node) (cs : List Cls) : k.skel.isInstAny cs = k.isInstAny cs := by
  cases k <;> rfl
@[simp] theorem skel_ttype (k : Node) : k.skel.ttype? = k.ttype? := by cases k <;> rfl
@[simp] theorem skel_ttIn (k : Node) (t : TType) : k.skel.ttIn t = k.ttIn t := by cases k <;> rfl
@[simp] theorem skel_ttEqAny (k : Node) (ts : List TType) : k.skel.ttEqAny ts = k.ttEqAny ts := by cases k <;> rfl
@[simp] theorem skel_isKeyword (k : Node) : k.skel.isKeyword = k.isKeyword := by cases k <;> rfl
@[simp] theorem skel_isNewline (k : Node) : k.skel.isNewline = k.isNewline := by cases k <;> rfl
@[simp] theorem skel_matchP (u : Text → Text) (k : Node) (p : MPat) : k.skel.matchP u p = k.matchP u p := by
  cases k <;> rfl
@[simp] theorem skel_matchAny (u : Text → Text) (k : Node) (ps : List MPat) : k.skel.matchAny u ps = k.matchAny u ps := by
  cases k <;> rfl
@[simp] theorem skel_imt (u : Text → Text) (k : Node) (i : List Cls) (m : List MPat) (t : TArg) :
    imt u k.skel i m t = imt u k i m t := by
  cases k <;> rfl
@[simp] theorem skel_skipMatcher (a b : Bool) (k : Node) : skipMatcher a b k.skel = skipMatcher a b k := by
  simp [skipMatcher]

/-- all whitespace leaves: nothing is left -/
theorem skelL_ws {l : List Node} (h : ∀ x ∈ l, x.isWhitespace = true) : skelL l = [] := by
  induction l with
  | nil => rfl
  | cons x xs ih =>
    rw [skelL_cons_ws (h x List.mem_cons_self)]
    exact ih (fun y hy => h y (List.mem_cons_of_mem _ hy))

/-- number of non-whitespace children before index `t` -/
def rank (ks : List Node) (t : Nat) : Nat := (skelL (ks.take t)).length

theorem skelL_split (ks : List Node) (t : Nat) : skelL ks = skelL (ks.take t) ++ skelL (ks.drop t) := by
  rw [← skelL_append, List.take_append_drop]

theorem take_rank (ks : List Node) (t : Nat) : (skelL ks).take (rank ks t) = skelL (ks.take t) := by
  rw [skelL_split ks t]; unfold rank; simp

theorem drop_rank (ks : List Node) (t : Nat) : (skelL ks).drop (rank ks t) = skelL (ks.drop t) := by
  rw [skelL_split ks t]; unfold rank; simp

theorem rank_mono (ks : List Node) {a b : Nat} (h : a ≤ b) : rank ks a ≤ rank ks b := by
  unfold rank
  have h1 : (ks.take b).take a = ks.take a := by rw [List.take_take, Nat.min_eq_left h]
  have : ks.take b = ks.take a ++ (ks.take b).drop a := by
    conv => lhs; rw [← List.take_append_drop a (ks.take b), h1]
  rw [this, skelL_append, List.length_append]
  omega

/-- stepping over a non-whitespace child -/
theorem rank_succ {ks : List Node} {t : Nat} {x : Node} (hx : ks[t]? = some x) (hw : x.isWhitespace = false) :
    rank ks (t + 1) = rank ks t + 1 := by
  unfold rank
  rw [List.take_add_one, hx, skelL_append]
  simp [skelL_cons_nws hw]

theorem rank_succ_ws {ks : List Node} {t : Nat} {x : Node} (hx : ks[t]? = some x) (hw : x.isWhitespace = true) :
    rank ks (t + 1) = rank ks t := by
  unfold rank
  rw [List.take_add_one, hx, skelL_append]
  simp [skelL_cons_ws hw]

/-- the child at a non-whitespace position sits at `rank` in the skeleton -/
theorem getElem_rank {ks : List Node} {t : Nat} {x : Node} (hx : ks[t]? = some x) (hw : x.isWhitespace = false) :
    (skelL ks)[rank ks t]? = some x.skel := by
  have h1 : ks.drop t = x :: ks.drop (t + 1) := by
    have hlt : t < ks.length := (List.getElem?_eq_some_iff.1 hx).1
    rw [List.drop_eq_getElem_cons hlt]
    congr 1
    exact (List.getElem?_eq_some_iff.1 hx).2
  have h2 := drop_rank ks t
  rw [h1, skelL_cons_nws hw] at h2
  have : ((skelL ks).drop (rank ks t))[0]? = some x.skel := by rw [h2]; rfl
  simpa [List.getElem?_drop] using this

theorem rank_le_length (ks : List Node) (t : Nat) : rank ks t ≤ (skelL ks).length := by
  rw [skelL_split ks t]; unfold rank; simp

/-- beyond the end the rank is the length of the skeleton -/
theorem rank_of_ge {ks : List Node} {t : Nat} (h : ks.length ≤ t) : rank ks t = (skelL ks).length := by
  unfold rank; rw [List.take_of_length_le h]

/-- a run of whitespace does not change the rank -/
theorem rank_ws_run {ks : List Node} {a b : Nat} (hab : a ≤ b)
    (h : ∀ i x, a ≤ i → i < b → ks[i]? = some x → x.isWhitespace = true) : rank ks b = rank ks a := by
  induction b with
  | zero => have : a = 0 := by omega
            rw [this]
  | succ b ih =>
    by_cases hb : a = b + 1
    · rw [hb]
    · have ih' := ih (by omega) (fun i x h1 h2 hx => h i x h1 (by omega) hx)
      cases hx : ks[b]? with
      | none =>
        have hlen : ks.length ≤ b := by
          cases Nat.lt_or_ge b ks.length with
          | inl hlt => rw [List.getElem?_eq_getElem hlt] at hx; cases hx
          | inr hge => exact hge
        rw [rank_of_ge (by omega), ← ih', rank_of_ge hlen]
      | some x => rw [rank_succ_ws hx (h b x (by omega) (by omega) hx), ih']

end Sql
