import SqlProofs.WsInv.Ends
import SqlModel.Grouping.WsDomain
/-!
# SqlProofs.WsInv.WsInvariant — grouping does not depend on how whitespace is spelled (property C11, second half)

`skel` deletes every whitespace-typed leaf at every level of a tree; `skelToks` deletes the whitespace tokens of a
flat statement.  **Main theorem** (`group_skel_canonical`): on its domain, grouping commutes with `skel`:

    groupStatement fuel st = .ok n  →  groupStatement fuel (skelToks st) = .ok n.skel

so two statements with the same non-whitespace tokens have the same grouped tree up to whitespace leaves
(`ws_invariant_partial`) — even when whitespace is *deleted* or *inserted*, not only re-spelled.

The domain (`InDomain fuel st`, decidable):
* no comment token — `group_comments` treats `Newline`-typed and `Whitespace`-typed tokens differently, and a comment
  run reaching the end of the list is not grouped (witness pairs in the report: the full statement is *false*);
* no `:=` token — `group_assignment` groups up to the next `;` and then goes on matching *stale* snapshot elements
  at indexes that depend on the number of whitespace tokens (finding; witness pairs in the report);
* `WsDomain`: on the intermediate tree on which `group_functions` runs, the `CREATE TABLE … AS` test of
  `group_functions`, which reads the text of every child *including whitespace*, has the same outcome with and without
  the whitespace children, at every level.  It holds for every tree the real code builds (no whitespace token or
  group spells `CREATE`/`TABLE`/`AS`); in the abstract model (arbitrary token values, arbitrary `upper`) it has to be
  assumed — it is evaluated by the driver (`wsdomain`).

Passes proved to commute with `skel` unconditionally (20 of 25): the six `_group_matching` passes, `group_over`,
`group_period`, `group_arrays`, `group_identifier`, `group_order`, `group_typecasts`, `group_tzcasts`,
`group_typed_literal` (both runs), `group_operator`, `group_comparison`, `group_as`, `group_aliased`,
`group_identifier_list`, `group_values`.
`group_where`: commutes when every parenthesis/bracket group starts and ends with a child that is neither whitespace
nor `WHERE` (`_groupable_tokens[-1]` = `tokens[-2]` is taken blindly) — proved for the tree it receives (`Ends.lean`).
`group_functions`: commutes on `WsDomain` (see above).
Identity on the domain (not analysed further): `group_comments`, `group_assignment`, `align_comments`.
-/
namespace Sql

variable {u : Text → Text}

/-! ## the passes that commute unconditionally -/
def isDomainName (n : String) : Bool :=
  n == "group_comments" || n == "group_functions" || n == "group_where" || n == "group_assignment" ||
    n == "align_comments"

theorem PassSkel.ite' {c : Prop} [Decidable c] {a b : Pass} (ha : c → PassSkel a) (hb : ¬c → PassSkel b) :
    PassSkel (if c then a else b) := by
  by_cases h : c
  · rw [if_pos h]; exact ha h
  · rw [if_neg h]; exact hb h

theorem unknownPass_skel : PassSkel unknownPass := by
  intro fuel c ks r h
  simp [unknownPass] at h

theorem passByName_skel (name : String) (hn : isDomainName name = false) : PassSkel (passByName u name) := by
  unfold passByName
  repeat' (first | apply PassSkel.ite' | intro (_ : (_ == _) = true) | intro (_ : ¬ ((_ == _) = true)))
  all_goals first
    | exact unknownPass_skel
    | exact matchingPassOf_skel u _
    | exact typedLiteralPass_skel u
    | exact adHocPass_skel _ groupOverBody_skel
    | exact adHocPass_skel _ groupIdentifierBody_skel
    | exact adHocPass_skel _ groupOrderBody_skel
    | exact adHocPass_skel _ groupAliasedBody_skel
    | exact adHocPass_skel _ groupValuesBody_skel
    | exact driverPass_skel (postS_period u)
    | exact driverPass_skel (postS_arrays u)
    | exact driverPass_skel (postS_typecasts u)
    | exact driverPass_skel (postS_tzcasts u)
    | exact driverPass_skel (postS_operator u)
    | exact driverPass_skel (postS_comparison u)
    | exact driverPass_skel (postS_as u)
    | exact driverPass_skel (postS_identifierList u)
    | (exfalso; simp_all [isDomainName])

theorem runPasses_skel {fuel : Nat} {c : Cls} : ∀ (names : List String) (ks r : List Node),
    (∀ n ∈ names, isDomainName n = false) → runPasses u fuel c names ks = .ok r →
    runPasses u fuel c names (skelL ks) = .ok (skelL r) := by
  intro names
  induction names with
  | nil => intro ks r _ h; simp [runPasses] at h ⊢; subst h; rfl
  | cons p ps ih =>
    intro ks r hnames h
    simp only [runPasses] at h ⊢
    cases hp : passByName u p fuel c ks with
    | error e => simp [hp] at h
    | ok ks1 =>
      simp only [hp] at h
      rw [passByName_skel p (hnames p List.mem_cons_self) fuel c ks ks1 hp]
      exact ih _ _ (fun n hn => hnames n (List.mem_cons_of_mem _ hn)) h

theorem runPasses_single {fuel : Nat} {c : Cls} {p : String} {ks : List Node} :
    runPasses u fuel c [p] ks = passByName u p fuel c ks := by
  simp only [runPasses]
  cases passByName u p fuel c ks <;> rfl

theorem runPasses_append_ok {fuel : Nat} {c : Cls} : ∀ (a b : List String) (ks mid r : List Node),
    runPasses u fuel c a ks = .ok mid → runPasses u fuel c b mid = .ok r → runPasses u fuel c (a ++ b) ks = .ok r := by
  intro a
  induction a with
  | nil => intro b ks mid r h1 h2; simp [runPasses] at h1; subst h1; simpa using h2
  | cons p ps ih =>
    intro b ks mid r h1 h2
    simp only [List.cons_append, runPasses] at h1 ⊢
    cases hp : passByName u p fuel c ks with
    | error e => simp [hp] at h1
    | ok ks1 =>
      simp only [hp] at h1 ⊢
      exact ih _ _ _ _ h1 h2

/-! ## the pass order, cut at the five passes that need a domain -/
def seg1 : List String :=
  ["group_brackets", "group_parenthesis", "group_case", "group_if", "group_for", "group_begin", "group_over"]
def seg2 : List String :=
  ["group_period", "group_arrays", "group_identifier", "group_order", "group_typecasts", "group_tzcasts",
   "group_typed_literal", "group_operator", "group_comparison", "group_as", "group_aliased"]
def seg3 : List String := ["group_identifier_list", "group_values"]

/-- the generated pass order is exactly this (breaks loudly if `grouping.group` changes) -/
theorem passOrder_segments :
    Gen.passOrder = ["group_comments"] ++ (seg1 ++ (["group_functions"] ++ (["group_where"] ++ (seg2 ++
      (["group_assignment"] ++ (["align_comments"] ++ seg3)))))) := by decide

theorem passOrder_take8 : Gen.passOrder.take 8 = ["group_comments"] ++ seg1 := by decide

theorem passByName_functions_eq :
    passByName u "group_functions" = recursePass [.Function] (groupFunctionsBody u) := by
  unfold passByName; simp (config := { decide := true }); rfl
theorem passByName_where_eq : passByName u "group_where" = recursePass [.Where] (groupWhereBody u) := by
  unfold passByName; simp (config := { decide := true }); rfl
theorem passByName_assignment_eq : passByName u "group_assignment" = driverPass (cfgAssignment u) := by
  unfold passByName; simp (config := { decide := true })

/-! ## flat statements -/
theorem skelL_flat (st : List Tok) : skelL (flatStatement st) = flatStatement (skelToks st) := by
  induction st with
  | nil => rfl
  | cons t rest ih =>
    simp only [flatStatement, List.map_cons] at ih ⊢
    cases hw : t.tt.isIn T.Whitespace with
    | true =>
      rw [skelL_cons_ws (by simpa [Node.isWhitespace] using hw), ih]
      simp [skelToks, List.filter_cons, hw]
    | false =>
      rw [skelL_cons_nws (by simpa [Node.isWhitespace] using hw), ih]
      simp [skelToks, List.filter_cons, hw]

theorem flat_mem {st : List Tok} {x : Node} (h : x ∈ flatStatement st) : ∃ t ∈ st, x = Node.tok t.tt t.val := by
  simp only [flatStatement, List.mem_map] at h
  obtain ⟨t, ht, rfl⟩ := h
  exact ⟨t, ht, rfl⟩

theorem leavesL_flatStatement (st : List Tok) : Node.leavesL (flatStatement st) = st := by
  induction st with
  | nil => rfl
  | cons t rest ih =>
    simp only [flatStatement, List.map_cons] at ih ⊢
    simp [ih]

theorem noCmtL_flat (st : List Tok) : noCmtL (flatStatement st) = true := by
  apply (noCmtL_iff _).2
  intro x hx
  obtain ⟨t, _, rfl⟩ := flat_mem hx
  rfl

/-! ## the main theorem, for any `upper` -/
theorem groupWith_skel {fuel : Nat} {st : List Tok} {r : List Node} (hd : InDomainWith u fuel st = true)
    (h : groupWith u fuel (flatStatement st) = .ok r) :
    groupWith u fuel (skelL (flatStatement st)) = .ok (skelL r) := by
  simp only [InDomainWith, Bool.and_eq_true] at hd
  obtain ⟨⟨hcm, has⟩, hwd⟩ := hd
  unfold groupWith at h ⊢
  rw [passOrder_segments] at h ⊢
  -- cut the run
  obtain ⟨m1, h1, h⟩ := runPasses_append _ _ _ _ h
  obtain ⟨m8, h8, h⟩ := runPasses_append _ _ _ _ h
  obtain ⟨m9, h9, h⟩ := runPasses_append _ _ _ _ h
  obtain ⟨m10, h10, h⟩ := runPasses_append _ _ _ _ h
  obtain ⟨m21, h21, h⟩ := runPasses_append _ _ _ _ h
  obtain ⟨m22, h22, h⟩ := runPasses_append _ _ _ _ h
  obtain ⟨m23, h23, h24⟩ := runPasses_append _ _ _ _ h
  -- 1: group_comments does nothing
  have hflat : ∀ x ∈ flatStatement st, x.isGroup = false ∧ x.ttIn T.Comment = false := by
    intro x hx
    obtain ⟨t, ht, rfl⟩ := flat_mem hx
    have := List.all_eq_true.1 hcm t ht
    exact ⟨rfl, by simpa [Node.ttIn] using this⟩
  rw [runPasses_single] at h1
  obtain ⟨e1, s1⟩ := commentsPass_flat hflat h1
  subst e1
  rw [← runPasses_single] at s1
  -- 2–8
  have s8 := runPasses_skel seg1 _ _ (by decide) h8
  -- 9: group_functions, 10: group_where (domain)
  have h8' : runPasses u fuel .Statement (Gen.passOrder.take 8) (flatStatement st) = .ok m8 := by
    rw [passOrder_take8]
    exact runPasses_append_ok _ _ _ _ _ (by rw [runPasses_single]; exact h1) h8
  -- the ends of the parenthesis/bracket groups of m9 are plain
  have hw2 : whOKL u m9 = true := by
    have hs1 : seg1 = ["group_brackets", "group_parenthesis", "group_case", "group_if", "group_for", "group_begin"] ++
        ["group_over"] := rfl
    rw [hs1] at h8
    obtain ⟨m7, h7, h8o⟩ := runPasses_append _ _ _ _ h8
    have hl7 := runPasses_lend _ _ _ (by decide) h7 (lendL_flat st)
    have hb8 := runPasses_brEnds _ _ _ (by decide) h8o (lendL_brackets m7 hl7)
    exact whOKL_of_brackets m9 (runPasses_brEnds _ _ _ (by decide) h9 hb8)
  rw [runPasses_single] at h9 h10
  simp only [WsDomain, h8', Bool.and_eq_true] at hwd
  obtain ⟨hf1, hf2⟩ := hwd
  have s9 : passByName u "group_functions" fuel .Statement (skelL m8) = .ok (skelL m9) := by
    rw [passByName_functions_eq] at h9 ⊢
    exact functionsPass_skel fuel _ _ _ ⟨hf1, hf2⟩ h9
  have s10 : passByName u "group_where" fuel .Statement (skelL m9) = .ok (skelL m10) := by
    rw [passByName_where_eq] at h10 ⊢
    exact wherePass_skel fuel _ _ _ ⟨by simp (config := { decide := true }) [whLevel], hw2⟩ h10
  rw [← runPasses_single] at h9 h10 s9 s10
  -- 11–21
  have s21 := runPasses_skel seg2 _ _ (by decide) h21
  -- 22: group_assignment does nothing
  have hleaf : LeafRel (Node.leavesL (flatStatement st)) (Node.leavesL m21) :=
    ((runPasses_leaves u fuel _ _ _ _ h8).trans (runPasses_leaves u fuel _ _ _ _ h9)).trans
      ((runPasses_leaves u fuel _ _ _ _ h10).trans (runPasses_leaves u fuel _ _ _ _ h21))
  have hna : NoAssign m21 := by
    apply noAssign_of_leafRel hleaf
    rw [leavesL_flatStatement]
    intro l hl
    simpa using List.all_eq_true.1 has l hl
  have s22 : runPasses u fuel .Statement ["group_assignment"] (skelL m21) = .ok (skelL m22) := by
    rw [runPasses_single] at h22 ⊢
    rw [passByName_assignment_eq] at h22 ⊢
    exact assignmentPass_skel hna h22
  -- 23: align_comments does nothing
  have hnc : noCmtL m22 = true :=
    runPasses_noCmt _ _ _ (by decide) h22
      (runPasses_noCmt _ _ _ (by decide) h21
        (runPasses_noCmt _ _ _ (by decide) h10
          (runPasses_noCmt _ _ _ (by decide) h9
            (runPasses_noCmt _ _ _ (by decide) h8 (noCmtL_flat st)))))
  have s23 : runPasses u fuel .Statement ["align_comments"] (skelL m22) = .ok (skelL m23) := by
    rw [runPasses_single] at h23 ⊢
    rw [passByName_align_eq] at h23 ⊢
    exact alignPass_skel fuel _ _ _ hnc h23
  -- 24–25
  have s24 := runPasses_skel seg3 _ _ (by decide) h24
  -- glue
  exact runPasses_append_ok _ _ _ _ _ s1 (runPasses_append_ok _ _ _ _ _ s8 (runPasses_append_ok _ _ _ _ _ s9
    (runPasses_append_ok _ _ _ _ _ s10 (runPasses_append_ok _ _ _ _ _ s21 (runPasses_append_ok _ _ _ _ _ s22
      (runPasses_append_ok _ _ _ _ _ s23 s24))))))

/-! ## statements of the model -/

/-- **grouping commutes with deleting the whitespace tokens** (on the domain) -/
theorem group_skel_canonical {fuel : Nat} {st : List Tok} {n : Node} (hd : InDomain fuel st = true)
    (h : groupStatement fuel st = .ok n) : groupStatement fuel (skelToks st) = .ok n.skel := by
  unfold groupStatement at h ⊢
  cases hg : group fuel (st.map fun t => Node.tok t.tt t.val) with
  | error e => simp [hg] at h
  | ok ks =>
    simp only [hg, Except.ok.injEq] at h
    subst h
    have := groupWith_skel (u := kwNorm) hd hg
    rw [skelL_flat] at this
    unfold group
    simp only [flatStatement] at this
    rw [this]
    simp

theorem wsCanon_skel (st : List Tok) : (wsCanon st).filterMap id = skelToks st := by
  induction st with
  | nil => rfl
  | cons t rest ih =>
    simp only [wsCanon]
    cases hw : t.tt.isIn T.Whitespace with
    | true =>
      simp only [↓reduceIte]
      have : skelToks (t :: rest) = skelToks rest := by simp [skelToks, List.filter_cons, hw]
      rw [this, ← ih]
      cases wsCanon rest with
      | nil => rfl
      | cons o r => cases o <;> rfl
    | false =>
      simp only [Bool.false_eq_true, ↓reduceIte, List.filterMap_cons, id]
      rw [ih]
      simp [skelToks, List.filter_cons, hw]

theorem WsEquiv.skelToks {st st' : List Tok} (h : WsEquiv st st') : skelToks st = skelToks st' := by
  rw [← wsCanon_skel, ← wsCanon_skel, h]

/-- **whitespace-run invariance of grouping, on the domain**: if two statements have the same non-whitespace tokens
(in particular if they are `WsEquiv`) and both are in the domain, the grouped trees agree up to whitespace leaves —
whenever both groupings return; and if one returns, so does grouping the common canonical form. -/
theorem ws_invariant_partial {fuel : Nat} {st st' : List Tok} {n n' : Node} (he : skelToks st = skelToks st')
    (hd : InDomain fuel st = true) (hd' : InDomain fuel st' = true)
    (h : groupStatement fuel st = .ok n) (h' : groupStatement fuel st' = .ok n') : n.skel = n'.skel := by
  have h1 := group_skel_canonical hd h
  have h2 := group_skel_canonical hd' h'
  rw [he, h2] at h1
  simp only [Except.ok.injEq] at h1
  exact h1.symm

theorem ws_invariant_partial' {fuel : Nat} {st st' : List Tok} {n n' : Node} (he : WsEquiv st st')
    (hd : InDomain fuel st = true) (hd' : InDomain fuel st' = true)
    (h : groupStatement fuel st = .ok n) (h' : groupStatement fuel st' = .ok n') : n.skel = n'.skel :=
  ws_invariant_partial he.skelToks hd hd' h h'

/-! ## the full statements (NOT theorems) -/

/-- The full statement asked for.  It is **false** for the library (and for the model): witness pairs with comments
(`group_comments`) and with `:=` (`group_assignment`, stale indexes) are in the report; the driver command `skel`
reproduces them on the model. -/
def WsInvariantFull : Prop :=
  ∀ (fuel : Nat) (st st' : List Tok) (n n' : Node), WsEquiv st st' →
    groupStatement fuel st = .ok n → groupStatement fuel st' = .ok n' → n.skel = n'.skel

/-- The conjectured exact domain (validated on 177 737 statements of the real code, 0 differences; not proved):
no `:=` token, and the two spellings agree on which comment gaps are all-`Newline`. -/
def WsInvariantConjecture : Prop :=
  ∀ (fuel : Nat) (st st' : List Tok) (n n' : Node), WsEquiv st st' → cmtCanon st = cmtCanon st' →
    noAssignTok st = true →
    groupStatement fuel st = .ok n → groupStatement fuel st' = .ok n' → n.skel = n'.skel

end Sql
