import SqlProofs.WsRespell.SqueezeCells
import SqlProofs.WsRespell.Theorem
/-!
# SqlProofs.WsRespell.SqueezeToks — squeezed token lists and their expansions
-/
namespace Sql

def blankTok : Tok := ⟨T.Whitespace, [32]⟩

/-- `xs` spells an expansion of the squeezed token list `cs`: a token that is not white space keeps its value, a one-character white-space token
becomes a non-empty string of white-space characters -/
inductive ExpandsTo : List Tok → List Text → Prop
  | nil : ExpandsTo [] []
  | keep (t : Tok) (l : List Tok) (xs : List Text) : t.tt.isIn T.Whitespace = false → ExpandsTo l xs → ExpandsTo (t :: l) (t.val :: xs)
  | ws (t : Tok) (b : Cp) (v : Text) (l : List Tok) (xs : List Text) : t.tt.isIn T.Whitespace = true → t.val = [b] → isSpace b = true →
      v ≠ [] → (∀ a ∈ v, isSpace a = true) → ExpandsTo l xs → ExpandsTo (t :: l) (v :: xs)

/-- `toks` squeezes to `cs`, and `xs` lists the texts of its pieces (the value of a token, the text of a whole run) -/
inductive SqRel : List Tok → List Tok → List Text → Prop
  | nil : SqRel [] [] []
  | keep (t : Tok) (l cs : List Tok) (xs : List Text) : t.tt.isIn T.Whitespace = false → SqRel l cs xs → SqRel (t :: l) (t :: cs) (t.val :: xs)
  | run (w l cs : List Tok) (xs : List Text) : w ≠ [] → (∀ x ∈ w, x.tt.isIn T.Whitespace = true) →
      (∀ t r, l = t :: r → t.tt.isIn T.Whitespace = false) → SqRel l cs xs → SqRel (w ++ l) (blankTok :: cs) (tokensText w :: xs)


theorem mem_takeWhile_true {α : Type} (p : α → Bool) : ∀ (l : List α) (x : α), x ∈ l.takeWhile p → p x = true := by
  intro l
  induction l with
  | nil => intro x h; simp at h
  | cons a t ih =>
    intro x h
    simp only [List.takeWhile_cons] at h
    split at h
    · rename_i ha
      simp only [List.mem_cons] at h
      rcases h with rfl | h
      · exact ha
      · exact ih x h
    · simp at h

theorem dropWhile_head_false {α : Type} (p : α → Bool) : ∀ (l : List α) (a : α) (t : List α), l.dropWhile p = a :: t → p a = false := by
  intro l
  induction l with
  | nil => intro a t h; simp at h
  | cons b r ih =>
    intro a t h
    simp only [List.dropWhile_cons] at h
    split at h
    · exact ih a t h
    · rename_i hb
      injection h with h1 _
      subst h1
      simpa using hb

theorem squeezeGo_true (l : List Tok) : squeezeGo true l = squeezeGo false (l.dropWhile (fun t => t.tt.isIn T.Whitespace)) := by
  induction l with
  | nil => rfl
  | cons t r ih =>
    simp only [squeezeGo, List.dropWhile_cons]
    cases h : t.tt.isIn T.Whitespace with
    | true => simp only [if_true]; exact ih
    | false => simp [squeezeGo, h]

theorem sqRel_squeeze : ∀ (n : Nat) (toks : List Tok), toks.length = n → ∃ xs, SqRel toks (squeezeToks toks) xs := by
  intro n
  induction n using Nat.strongRecOn with
  | _ n ih =>
    intro toks hn
    cases toks with
    | nil => exact ⟨[], .nil⟩
    | cons t r =>
      cases h : t.tt.isIn T.Whitespace with
      | false =>
        obtain ⟨xs, hx⟩ := ih r.length (by simp at hn; omega) r rfl
        refine ⟨t.val :: xs, ?_⟩
        have : squeezeToks (t :: r) = t :: squeezeToks r := by simp [squeezeToks, squeezeGo, h]
        rw [this]; exact .keep t r _ xs h hx
      | true =>
        let p := fun t : Tok => t.tt.isIn T.Whitespace
        have hsq : squeezeToks (t :: r) = blankTok :: squeezeToks (r.dropWhile p) := by
          simp only [squeezeToks, squeezeGo, h, if_true, Bool.false_eq_true, if_false, squeezeGo_true]; rfl
        have hlen : (r.dropWhile p).length ≤ r.length := by
          have := congrArg List.length (List.takeWhile_append_dropWhile (p := p) (l := r))
          simp only [List.length_append] at this; omega
        obtain ⟨xs, hx⟩ := ih (r.dropWhile p).length (by simp at hn; omega) (r.dropWhile p) rfl
        refine ⟨tokensText (t :: r.takeWhile p) :: xs, ?_⟩
        rw [hsq]
        have hsplit : t :: r = (t :: r.takeWhile p) ++ r.dropWhile p := by simp [List.takeWhile_append_dropWhile]
        rw [hsplit]
        refine .run _ _ _ xs (by simp) ?_ ?_ hx
        · intro x hx'
          simp only [List.mem_cons] at hx'
          rcases hx' with rfl | hx'
          · exact h
          · exact mem_takeWhile_true p _ x hx'
        · intro t2 r2 he
          exact dropWhile_head_false p r t2 r2 he

theorem SqRel.expands {toks cs : List Tok} {xs : List Text} (h : SqRel toks cs xs) (hok : WsOK toks) : ExpandsTo cs xs := by
  induction h with
  | nil => exact .nil
  | keep t l cs xs hws _ ih => exact .keep t cs xs hws (ih hok.tail)
  | run w l cs xs hne hall _ _ ih =>
    have hokl : WsOK l := fun x hx => hok x (by simp [hx])
    refine .ws blankTok 32 (tokensText w) cs xs (by decide) rfl (by decide +kernel) ?_ ?_ (ih hokl)
    · cases w with
      | nil => exact absurd rfl hne
      | cons x w' =>
        have := (hok x (by simp) (hall x (by simp))).1
        simp only [tokensText_cons]
        intro he
        exact this (List.append_eq_nil_iff.mp he).1
    · intro a ha
      simp only [tokensText, List.mem_flatten, List.mem_map] at ha
      obtain ⟨v, ⟨x, hx, rfl⟩, ha⟩ := ha
      exact (hok x (by simp [hx]) (hall x hx)).2 a ha

theorem SqRel.text {toks cs : List Tok} {xs : List Text} (h : SqRel toks cs xs) : xs.flatten = tokensText toks := by
  induction h with
  | nil => rfl
  | keep t l cs xs _ _ ih => simp [tokensText_cons, ih]
  | run w l cs xs _ _ _ _ ih => simp [tokensText_append, ih]

theorem respelledAny_append : ∀ (a b l' : List Tok), RespelledWsAny (a ++ b) l' →
    ∃ a' b', l' = a' ++ b' ∧ RespelledWsAny a a' ∧ RespelledWsAny b b' := by
  intro a
  induction a with
  | nil => intro b l' h; exact ⟨[], l', rfl, .nil, h⟩
  | cons t a ih =>
    intro b l' h
    simp only [List.cons_append] at h
    cases h with
    | keep _ _ l'' hws hr =>
      obtain ⟨a', b', e, h1, h2⟩ := ih b l'' hr
      exact ⟨t :: a', b', by simp [e], .keep t a a' hws h1, h2⟩
    | ws _ t' _ l'' hws hne hsp hr =>
      obtain ⟨a', b', e, h1, h2⟩ := ih b l'' hr
      exact ⟨t' :: a', b', by simp [e], .ws t t' a a' hws hne hsp h1, h2⟩

/-- a re-spelled run is a non-empty string of white-space characters -/
theorem respelledAny_run : ∀ (w w' : List Tok), RespelledWsAny w w' → w ≠ [] → (∀ x ∈ w, x.tt.isIn T.Whitespace = true) →
    tokensText w' ≠ [] ∧ ∀ a ∈ tokensText w', isSpace a = true := by
  intro w w' h
  induction h with
  | nil => intro hne; exact absurd rfl hne
  | keep t l l' hws _ _ => intro _ hall; rw [hall t (by simp)] at hws; exact absurd hws (by simp)
  | ws t t' l l' _ hne hsp hr ih =>
    intro _ hall
    constructor
    · simp only [tokensText_cons]
      intro he; exact hne (List.append_eq_nil_iff.mp he).1
    · intro a ha
      simp only [tokensText_cons, List.mem_append] at ha
      rcases ha with ha | ha
      · exact hsp a ha
      · cases l with
        | nil => cases hr; simp [tokensText] at ha
        | cons x l2 => exact (ih (by simp) (fun y hy => hall y (by simp [hy]))).2 a ha

/-- the re-spelled list expands the same squeezed list -/
theorem SqRel.respelled {toks cs : List Tok} {xs : List Text} (h : SqRel toks cs xs) : ∀ toks', RespelledWsAny toks toks' →
    ∃ xs', ExpandsTo cs xs' ∧ xs'.flatten = tokensText toks' := by
  induction h with
  | nil => intro toks' hr; cases hr; exact ⟨[], .nil, rfl⟩
  | keep t l cs xs hws _ ih =>
    intro toks' hr
    cases hr with
    | ws _ _ _ _ hw _ _ _ => rw [hws] at hw; exact absurd hw (by simp)
    | keep _ _ l' _ hr' =>
      obtain ⟨xs', h1, h2⟩ := ih l' hr'
      exact ⟨t.val :: xs', .keep t cs xs' hws h1, by simp [tokensText_cons, h2]⟩
  | run w l cs xs hne hall _ _ ih =>
    intro toks' hr
    obtain ⟨w', l', e, h1, h2⟩ := respelledAny_append w l toks' hr
    obtain ⟨xs', h3, h4⟩ := ih l' h2
    obtain ⟨r1, r2⟩ := respelledAny_run w w' h1 hne hall
    exact ⟨tokensText w' :: xs', .ws blankTok 32 _ cs xs' (by decide) rfl (by decide +kernel) r1 r2 h3, by simp [e, tokensText_append, h4]⟩

end Sql
