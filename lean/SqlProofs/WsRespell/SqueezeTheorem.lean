import SqlProofs.WsRespell.SqueezeScan3
/-!
# SqlProofs.WsRespell.SqueezeTheorem — `ws_respell_any_lex`: the LENGTH-CHANGING lexical step of C11

If `lex s = toks`, `wsRespellableAny toks` and `toks'` replaces the value of every Whitespace-typed token by ANY non-empty string of white-space
characters, the text of `toks'` lexes to a token list `WsEquiv` to `toks`.  Proof: both texts are expansions of the squeezed text (every run = one
blank); a rule of the run class has corresponding derivations on the squeezed text and on each expansion (`corr_derivs`), the other rules are
killed or decided by the window analyses; the scan chains are compared token by token (`squeeze_scan`).
-/
namespace Sql

theorem wsToksOK_spec (toks : List Tok) (h : wsToksOK toks = true) : WsOK toks := by
  intro t ht hws
  simp only [wsToksOK, List.all_eq_true, Bool.or_eq_true, Bool.not_eq_true', Bool.and_eq_true, List.isEmpty_eq_false_iff] at h
  rcases h t ht with h1 | ⟨h1, h2⟩
  · rw [hws] at h1; exact absurd h1 (by simp)
  · exact ⟨h1, h2⟩

/-- **the lexical step of C11 for re-spellings that change the length of white-space runs** -/
theorem ws_respell_any_lex (s : Array Cp) (toks toks' : List Tok) (hl : lex defaultCfg s = .ok toks)
    (hd : wsRespellableAny toks = true) (hR : RespelledWsAny toks toks') :
    ∃ ts', lex defaultCfg (tokensText toks').toArray = .ok ts' ∧ WsEquiv ts' toks := by
  simp only [wsRespellableAny, Bool.and_eq_true] at hd
  have hok := wsToksOK_spec toks hd.1
  obtain ⟨xs, hsq⟩ := sqRel_squeeze toks.length toks rfl
  have HT := hsq.expands hok
  obtain ⟨xs', HT', hx'⟩ := hsq.respelled toks' hR
  have hs : s = xs.flatten.toArray := by
    have h1 := lex_text s toks hl
    rw [hsq.text, ← h1]
  obtain ⟨ts', hl', hscan'⟩ := lex_scan defaultCfg defaultRulesOK (tokensText toks').toArray
  refine ⟨ts', hl', ?_⟩
  have hscan := lex_default_scan s toks hl
  rw [hs] at hscan
  rw [← hx'] at hscan'
  exact squeeze_scan (squeezeToks toks) xs xs' HT HT' toks (squeezeToks toks) xs hsq [] [] [] xs' false ts' rfl rfl rfl .nil .nil HT' hok
    (by simpa [tokensText] using hd.2) (by intro h; exact absurd h (by simp)) (by simpa using hscan) (by simpa using hscan')

/-- the hypothesis is not vacuous -/
theorem wsRespellableAny_examples :
    (match lex defaultCfg (txt "select a, t.b from t where x = 1 and not y order by a desc").toArray with
     | .ok ts => wsRespellableAny ts | .error _ => false) = true ∧
    (match lex defaultCfg (txt "select 1 -- c\n").toArray with
     | .ok ts => wsRespellableAny ts | .error _ => true) = false := by
  constructor <;> decide +kernel

/-- table fact: all but ten rules are in the run class (comments, line break, white space, the quote family and the dollar rule are not) -/
theorem rules_in_class : (defaultCfg.rules.filter (fun r => !classRe r.re)).length = 10 := by decide +kernel

end Sql
