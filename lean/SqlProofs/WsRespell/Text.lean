import SqlProofs.WsRespell.Theorem
/-!
# SqlProofs.WsRespell.Text — the same theorem stated on the re-spelled TEXT (run-wise)

`WsTextRel toks l'`: reading `l'` token by token, a token that is not of a Whitespace type finds its own value, a Whitespace-typed token
finds as many characters as it had, all of them `\s`.  Since consecutive white-space tokens only ask for white-space characters, this is a
condition per RUN: any text of the same length with the same frozen tokens at the same offsets and arbitrary white-space characters in
the gaps (`\r\n` may straddle what used to be two tokens).
-/
namespace Sql

def WsTextRel : List Tok → List Cp → Prop
  | [], l' => l' = []
  | t :: ts, l' =>
    (if t.tt.isIn T.Whitespace = true then t.val.length ≤ l'.length ∧ ∀ c ∈ l'.take t.val.length, isSpace c = true
     else l'.take t.val.length = t.val) ∧ WsTextRel ts (l'.drop t.val.length)

theorem wsTextRel_reslice : ∀ (toks : List Tok) (l' : List Cp), WsTextRel toks l' →
    RespelledWs toks (reslice l' toks) ∧ tokensText (reslice l' toks) = l' := by
  intro toks
  induction toks with
  | nil => intro l' h; simp only [WsTextRel] at h; subst h; exact ⟨.nil, rfl⟩
  | cons t ts ih =>
    intro l' h
    obtain ⟨h1, h2⟩ := h
    obtain ⟨r1, r2⟩ := ih _ h2
    have htxt : tokensText (reslice l' (t :: ts)) = l' := by
      simp only [reslice, tokensText_cons, r2, List.take_append_drop]
    refine ⟨?_, htxt⟩
    by_cases hws : t.tt.isIn T.Whitespace = true
    · simp only [hws, if_true] at h1
      exact .ws t ⟨t.tt, l'.take t.val.length⟩ ts _ hws (by simp [List.length_take]; omega) h1.2 r1
    · have hws' : t.tt.isIn T.Whitespace = false := by simpa using hws
      simp only [hws', Bool.false_eq_true, if_false] at h1
      have : (⟨t.tt, l'.take t.val.length⟩ : Tok) = t := by rw [h1]
      simp only [reslice, this]
      exact .keep t ts _ hws' r1

/-- **text form of `ws_respell_lex`**: every text that keeps the tokens that are not white space where they were and puts white-space
characters (any, run by run) in between lexes to an equivalent token list -/
theorem ws_respell_text (s s' : Array Cp) (toks : List Tok) (hl : lex defaultCfg s = .ok toks) (hd : wsRespellable toks = true)
    (hrel : WsTextRel toks s'.toList) : ∃ ts', lex defaultCfg s' = .ok ts' ∧ WsEquiv ts' toks := by
  obtain ⟨hR, htxt⟩ := wsTextRel_reslice toks s'.toList hrel
  obtain ⟨ts', h1, h2⟩ := ws_respell_lex s toks _ hl hd hR
  refine ⟨ts', ?_, h2⟩
  rw [htxt] at h1
  simpa using h1

end Sql
