import SqlProofs.WsRespell.Def
/-!
# SqlProofs.WsRespell.Rel — two texts that differ only in WHICH white-space character stands where

`WsRel E' E`: same length, and at every position the same character or two `\s` characters.  A white-space safe expression has the same
derivations on both (`derivs_ws`), and the scan step is the same wherever the certificate `fmCert` holds and the killed rules are dead on
both texts (`firstMatch_ws`).
-/
namespace Sql

theorem spaceAll_mem (S : CpSet) (h : spaceAll S = true) (c : Cp) (hc : isSpace c = true) : S.mem c = true := by
  simp only [spaceAll, List.all_eq_true] at h
  exact h c (CpSet.mem_elems _ c hc)

theorem spaceNone_mem (S : CpSet) (h : spaceNone S = true) (c : Cp) (hc : isSpace c = true) : S.mem c = false := by
  simp only [spaceNone, List.all_eq_true, Bool.not_eq_true'] at h
  exact h c (CpSet.mem_elems _ c hc)

theorem wsClosed_eq (S : CpSet) (h : wsClosedSet S = true) (a b : Cp) (ha : isSpace a = true) (hb : isSpace b = true) :
    S.mem a = S.mem b := by
  simp only [wsClosedSet, Bool.or_eq_true] at h
  rcases h with h | h
  · rw [spaceAll_mem S h a ha, spaceAll_mem S h b hb]
  · rw [spaceNone_mem S h a ha, spaceNone_mem S h b hb]

structure WsRel (E' E : Env) : Prop where
  size : E'.s.size = E.s.size
  char : ∀ i : Nat, E'.s[i]? = E.s[i]? ∨ ∃ a b, E'.s[i]? = some a ∧ E.s[i]? = some b ∧ isSpace a = true ∧ isSpace b = true
  word : E'.word = E.word
  wordNoSpace : spaceNone E.word = true

theorem isWordAt_ws {E' E : Env} (H : WsRel E' E) (i : Nat) : isWordAt E' i = isWordAt E i := by
  simp only [isWordAt, H.word]
  rcases H.char i with h | ⟨a, b, h1, h2, ha, hb⟩
  · rw [h]
  · rw [h1, h2]
    simp only
    rw [spaceNone_mem _ H.wordNoSpace a ha, spaceNone_mem _ H.wordNoSpace b hb]

theorem derivs_ws {E' E : Env} (H : WsRel E' E) : ∀ r : Re, wsSafeRe r = true → derivs E' r = derivs E r := by
  have hsz := H.size
  intro r
  induction r with
  | eps => intro _; funext st; rfl
  | set S =>
    intro hr; funext st
    simp only [wsSafeRe] at hr
    simp only [derivs]
    rcases H.char st.pos with h | ⟨a, b, h1, h2, ha, hb⟩
    · rw [h]
    · simp only [h1, h2, wsClosed_eq S hr a b ha hb]
  | cat a b iha ihb =>
    intro hr; funext st
    simp only [wsSafeRe, Bool.and_eq_true] at hr
    simp only [derivs, iha hr.1, ihb hr.2]
  | alt a b iha ihb =>
    intro hr; funext st
    simp only [wsSafeRe, Bool.and_eq_true] at hr
    simp only [derivs, iha hr.1, ihb hr.2]
  | rep lo hi g r ih =>
    intro hr; funext st
    simp only [wsSafeRe] at hr
    simp only [derivs, ih hr, hsz]
  | grp n r ih =>
    intro hr; funext st
    simp only [wsSafeRe] at hr
    simp only [derivs, ih hr]
  | bref n => intro hr; simp [wsSafeRe] at hr
  | look ahead neg w r ih =>
    intro hr; funext st
    simp only [wsSafeRe] at hr
    simp only [derivs, ih hr]
  | atEnd => intro hr; simp [wsSafeRe] at hr
  | wordB =>
    intro _; funext st
    simp only [derivs, isWordAt_ws H]

/-- the scan step under the certificate: safe rules decide alike, killed rules are dead on both texts -/
theorem firstMatch_ws {E' E : Env} (H : WsRel E' E) (K : WCtx) (c0 : Cp) (p : Nat)
    (hkill : ∀ r : Re, killRe K c0 r = true → derivs E r ⟨p, []⟩ = [] ∧ derivs E' r ⟨p, []⟩ = []) :
    ∀ rules : List Rule, fmCert K c0 E p rules = true → firstMatch E' rules p = firstMatch E rules p := by
  intro rules
  induction rules with
  | nil => intro _; rfl
  | cons r rs ih =>
    intro hc
    simp only [fmCert] at hc
    by_cases hs : wsSafeRe r.re = true
    · simp only [hs, if_true] at hc
      simp only [firstMatch, matchAt, derivs_ws H r.re hs]
      cases hm : (derivs E r.re ⟨p, []⟩).head? with
      | some st => rfl
      | none =>
        simp only [matchAt, hm] at hc
        exact ih hc
    · have hs' : wsSafeRe r.re = false := by simpa using hs
      simp only [hs', Bool.false_eq_true, if_false, Bool.and_eq_true] at hc
      have := hkill r.re hc.1
      simp only [firstMatch, matchAt, this.1, this.2, List.head?_nil]
      exact ih hc.2

end Sql
