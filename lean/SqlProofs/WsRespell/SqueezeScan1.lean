import SqlProofs.WsRespell.SqueezeToks
/-!
# SqlProofs.WsRespell.SqueezeScan1 — cells of a squeezed token list, token boundaries, windows, and the scan step on an expansion
-/
namespace Sql

def cellsOf : List Tok → List Text → List (List Cp)
  | t :: l, v :: xs => (if t.tt.isIn T.Whitespace then [v] else t.val.map (fun c => [c])) ++ cellsOf l xs
  | _, _ => []

def flagsOf : List Tok → List Bool
  | [] => []
  | t :: l => (if t.tt.isIn T.Whitespace then [true] else t.val.map (fun _ => false)) ++ flagsOf l

theorem cells_frozen : ∀ v : List Cp, CellsOK v (v.map (fun _ => false)) (v.map (fun c => [c])) ∧ (v.map (fun c => [c])).flatten = v := by
  intro v
  induction v with
  | nil => exact ⟨.nil, rfl⟩
  | cons c v ih => exact ⟨.frozen c _ _ _ ih.1, by simp [ih.2]⟩

theorem expandsTo_cells {cs : List Tok} {xs : List Text} (h : ExpandsTo cs xs) :
    CellsOK (tokensText cs) (flagsOf cs) (cellsOf cs xs) ∧ (cellsOf cs xs).flatten = xs.flatten ∧
      (cellsOf cs xs).length = (tokensText cs).length ∧ cs.length = xs.length := by
  induction h with
  | nil => exact ⟨.nil, rfl, rfl, rfl⟩
  | keep t l xs hws _ ih =>
    obtain ⟨i1, i2, i3, i4⟩ := ih
    simp only [cellsOf, flagsOf, hws, Bool.false_eq_true, if_false, tokensText_cons]
    refine ⟨(cells_frozen t.val).1.append i1, by simp [(cells_frozen t.val).2, i2], by simp [i3], by simp [i4]⟩
  | ws t b v l xs hws hv hb hne hsp _ ih =>
    obtain ⟨i1, i2, i3, i4⟩ := ih
    simp only [cellsOf, flagsOf, hws, if_true, tokensText_cons, hv]
    refine ⟨?_, by simp [i2], by simp [i3], by simp [i4]⟩
    exact CellsOK.run b v _ _ _ hb hne hsp i1

theorem cellsOf_append : ∀ (pre : List Tok) (xpre : List Text) (rest : List Tok) (xrest : List Text), pre.length = xpre.length →
    cellsOf (pre ++ rest) (xpre ++ xrest) = cellsOf pre xpre ++ cellsOf rest xrest := by
  intro pre
  induction pre with
  | nil => intro xpre rest xrest h; cases xpre with
    | nil => simp [cellsOf]
    | cons _ _ => simp at h
  | cons t pre ih =>
    intro xpre rest xrest h
    cases xpre with
    | nil => simp at h
    | cons v xpre =>
      simp only [List.cons_append, cellsOf, List.append_assoc]
      rw [ih xpre rest xrest (by simpa using h)]

/-- the image of a token boundary -/
theorem phi_boundary {pre : List Tok} {xpre : List Text} (h : ExpandsTo pre xpre) (rest : List Tok) (xrest : List Text) :
    phiCells (cellsOf (pre ++ rest) (xpre ++ xrest)) (tokensText pre).length = xpre.flatten.length := by
  obtain ⟨_, h2, h3, h4⟩ := expandsTo_cells h
  rw [cellsOf_append pre xpre rest xrest h4, phiCells, ← h3, List.take_left', h2]
  rfl

theorem expandsTo_append {pre : List Tok} {xpre : List Text} {rest : List Tok} {xrest : List Text} (h1 : ExpandsTo pre xpre)
    (h2 : ExpandsTo rest xrest) : ExpandsTo (pre ++ rest) (xpre ++ xrest) := by
  induction h1 with
  | nil => simpa using h2
  | keep t l xs hws _ ih => exact .keep t _ _ hws ih
  | ws t b v l xs a1 a2 a3 a4 a5 _ ih => exact .ws t b v _ _ a1 a2 a3 a4 a5 ih

/-- the frozen text in front of the next white-space token is the same in the squeezed text and in the expansion -/
theorem frozen_split_any {l : List Tok} {xs : List Text} (h : ExpandsTo l xs) :
    ((frozenRun l).2 = true → ∃ c tl c' tl', tokensText l = (frozenRun l).1 ++ c :: tl ∧ xs.flatten = (frozenRun l).1 ++ c' :: tl' ∧
        isSpace c = true ∧ isSpace c' = true) ∧
    ((frozenRun l).2 = false → tokensText l = (frozenRun l).1 ∧ xs.flatten = (frozenRun l).1) := by
  induction h with
  | nil => simp [frozenRun, tokensText]
  | keep t l xs hws _ ih =>
    obtain ⟨h1, h2⟩ := ih
    simp only [frozenRun, hws, Bool.false_eq_true, if_false, tokensText_cons, List.flatten_cons]
    constructor
    · intro hb
      obtain ⟨c, tl, c', tl', e1, e2, s1, s2⟩ := h1 hb
      exact ⟨c, tl, c', tl', by rw [e1, List.append_assoc], by rw [e2, List.append_assoc], s1, s2⟩
    · intro hb
      obtain ⟨e1, e2⟩ := h2 hb
      exact ⟨by rw [e1], by rw [e2]⟩
  | ws t b v l xs hws hv hb hne hsp _ _ =>
    simp only [frozenRun, hws, if_true, tokensText_cons, List.nil_append, List.flatten_cons, hv]
    constructor
    · intro _
      cases hv' : v with
      | nil => exact absurd hv' hne
      | cons c' tv' =>
        exact ⟨b, tokensText l, c', tv' ++ xs.flatten, by simp, by simp, hb, hsp c' (by rw [hv']; simp)⟩
    · intro h; simp at h

theorem window_texts_any {l : List Tok} {xs : List Text} (h : ExpandsTo l xs) (w : Array Cp) (excl : List CpSet)
    (hw : tokWindow l = some (w, excl)) :
    ∃ c tl c' tl', tokensText l = w.toList ++ c :: tl ∧ xs.flatten = w.toList ++ c' :: tl' ∧
      (∀ X ∈ excl, X.mem c = false) ∧ (∀ X ∈ excl, X.mem c' = false) := by
  obtain ⟨h1, h2⟩ := frozen_split_any h
  simp only [tokWindow] at hw
  cases hb : (frozenRun l).2 with
  | true =>
    simp only [hb, if_true, Option.some.injEq, Prod.mk.injEq] at hw
    obtain ⟨rfl, rfl⟩ := hw
    obtain ⟨c, tl, c', tl', e1, e2, s1, s2⟩ := h1 hb
    refine ⟨c, tl, c', tl', by simpa using e1, by simpa using e2, ?_, ?_⟩
    · intro X hX; simp only [List.mem_singleton] at hX; subst hX; exact nonSpace_of_space c s1
    · intro X hX; simp only [List.mem_singleton] at hX; subst hX; exact nonSpace_of_space c' s2
  | false =>
    simp only [hb, Bool.false_eq_true, if_false] at hw
    obtain ⟨e1, e2⟩ := h2 hb
    cases hrev : (frozenRun l).1.reverse with
    | nil => rw [hrev] at hw; simp at hw
    | cons c revInit =>
      rw [hrev] at hw
      simp only [Option.some.injEq, Prod.mk.injEq] at hw
      obtain ⟨rfl, rfl⟩ := hw
      have hfr : (frozenRun l).1 = revInit.reverse ++ [c] := by
        have := congrArg List.reverse hrev
        simpa using this
      exact ⟨c, [], c, [], by rw [e1, hfr, List.toList_toArray], by rw [e2, hfr, List.toList_toArray], exclOf_sound c, exclOf_sound c⟩

/-- **the scan step on an expansion**: under the certificate (evaluated on the squeezed text) the first matching rule is the same, and its
end is the image of the squeezed end (class rule) or the same offset (window-exact rule) -/
theorem firstMatch_any {EX EC : Env} {φ : Nat → Nat} {isRun : Nat → Bool} (H : Expand EX EC φ isRun) (K : WCtx) (c0 : Cp) (p : Nat)
    (hp : p ≤ EC.s.size)
    (hkill : ∀ r : Re, killRe K c0 r = true → derivs EC r ⟨p, []⟩ = [] ∧ derivs EX r ⟨φ p, []⟩ = [])
    (hexact : ∀ (r : Re) (e : Nat) (l : List Nat), aexact K r 0 = some (e :: l) →
      (∃ st more, derivs EC r ⟨p, []⟩ = st :: more ∧ st.pos = p + e) ∧ (∃ st more, derivs EX r ⟨φ p, []⟩ = st :: more ∧ st.pos = φ p + e)) :
    ∀ rules : List Rule, fmCertAny K c0 EC p rules = true →
      (firstMatch EC rules p = none ∧ firstMatch EX rules (φ p) = none) ∨
      ∃ act eC eX, firstMatch EC rules p = some (act, eC) ∧ firstMatch EX rules (φ p) = some (act, eX) ∧
        ((eX = φ eC ∧ eC ≤ EC.s.size) ∨ ∃ e, eC = p + e ∧ eX = φ p + e) := by
  intro rules
  induction rules with
  | nil => intro _; exact Or.inl ⟨rfl, rfl⟩
  | cons r rs ih =>
    intro hc
    simp only [fmCertAny] at hc
    by_cases hcl : classRe r.re = true
    · simp only [hcl, if_true] at hc
      simp only [classRe, Bool.and_eq_true, Bool.not_eq_true'] at hcl
      have hcorr := corr_derivs H r.re hcl.1 ⟨φ p, []⟩ ⟨p, []⟩ rfl hp
      rw [hcl.2] at hcorr
      rcases hcorr.head_false with ⟨e1, e2⟩ | ⟨x, y, M, M', e1, e2, e3, e4⟩
      · simp only [matchAt, e2, List.head?_nil] at hc
        simp only [firstMatch, matchAt, e1, e2, List.head?_nil]
        exact ih hc
      · right
        exact ⟨r.act, y.pos, x.pos, by simp [firstMatch, matchAt, e2], by simp [firstMatch, matchAt, e1], Or.inl ⟨e3, e4⟩⟩
    · have hcl' : classRe r.re = false := by simpa using hcl
      simp only [hcl', Bool.false_eq_true, if_false] at hc
      by_cases hk : killRe K c0 r.re = true
      · simp only [hk, if_true] at hc
        obtain ⟨k1, k2⟩ := hkill r.re hk
        simp only [firstMatch, matchAt, k1, k2, List.head?_nil]
        exact ih hc
      · have hk' : killRe K c0 r.re = false := by simpa using hk
        simp only [hk', Bool.false_eq_true, if_false] at hc
        cases ha : aexact K r.re 0 with
        | none => rw [ha] at hc; simp at hc
        | some l =>
          cases l with
          | nil => rw [ha] at hc; simp at hc
          | cons e l =>
            obtain ⟨⟨s1, m1, d1, p1⟩, ⟨s2, m2, d2, p2⟩⟩ := hexact r.re e l ha
            right
            exact ⟨r.act, s1.pos, s2.pos, by simp [firstMatch, matchAt, d1], by simp [firstMatch, matchAt, d2], Or.inr ⟨e, p1, p2⟩⟩

end Sql
