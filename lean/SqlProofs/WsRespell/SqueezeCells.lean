import SqlProofs.WsRespell.SqueezeRe3
/-!
# SqlProofs.WsRespell.SqueezeCells — building an `Expand` from a character-wise description

`cells[i]` is what character `i` of the squeezed text becomes in the expansion: itself (`flags[i] = false`) or a non-empty string of white-space
characters (`flags[i] = true`, and the character is white space).
-/
namespace Sql

/-- character-wise: a frozen character keeps itself, a run character becomes a non-empty white-space string -/
inductive CellsOK : List Cp → List Bool → List (List Cp) → Prop
  | nil : CellsOK [] [] []
  | frozen (c : Cp) (C : List Cp) (F : List Bool) (X : List (List Cp)) : CellsOK C F X → CellsOK (c :: C) (false :: F) ([c] :: X)
  | run (c : Cp) (v : List Cp) (C : List Cp) (F : List Bool) (X : List (List Cp)) : isSpace c = true → v ≠ [] →
      (∀ a ∈ v, isSpace a = true) → CellsOK C F X → CellsOK (c :: C) (true :: F) (v :: X)

theorem CellsOK.append {C1 C2 : List Cp} {F1 F2 : List Bool} {X1 X2 : List (List Cp)} (h1 : CellsOK C1 F1 X1) (h2 : CellsOK C2 F2 X2) :
    CellsOK (C1 ++ C2) (F1 ++ F2) (X1 ++ X2) := by
  induction h1 with
  | nil => simpa using h2
  | frozen c C F X _ ih => exact .frozen c _ _ _ ih
  | run c v C F X a b d _ ih => exact .run c v _ _ _ a b d ih

theorem CellsOK.length {C : List Cp} {F : List Bool} {X : List (List Cp)} (h : CellsOK C F X) : F.length = C.length ∧ X.length = C.length := by
  induction h with
  | nil => exact ⟨rfl, rfl⟩
  | frozen c C F X _ ih => simp [ih.1, ih.2]
  | run c v C F X _ _ _ _ ih => simp [ih.1, ih.2]

theorem CellsOK.get {C : List Cp} {F : List Bool} {X : List (List Cp)} (h : CellsOK C F X) : ∀ i, i < C.length →
    ∃ c f v, C[i]? = some c ∧ F[i]? = some f ∧ X[i]? = some v ∧ v ≠ [] ∧
      ((f = false ∧ v = [c]) ∨ (f = true ∧ isSpace c = true ∧ ∀ a ∈ v, isSpace a = true)) := by
  induction h with
  | nil => intro i hi; simp at hi
  | frozen c C F X _ ih =>
    intro i hi
    cases i with
    | zero => exact ⟨c, false, [c], rfl, rfl, rfl, by simp, Or.inl ⟨rfl, rfl⟩⟩
    | succ i => simpa using ih i (by simpa using hi)
  | run c v C F X a b d _ ih =>
    intro i hi
    cases i with
    | zero => exact ⟨c, true, v, rfl, rfl, rfl, b, Or.inr ⟨rfl, a, d⟩⟩
    | succ i => simpa using ih i (by simpa using hi)

def phiCells (X : List (List Cp)) (i : Nat) : Nat := ((X.take i).flatten).length
def runAt (F : List Bool) (i : Nat) : Bool := F[i]?.getD false

theorem phiCells_succ (X : List (List Cp)) (i : Nat) (v : List Cp) (h : X[i]? = some v) :
    phiCells X (i + 1) = phiCells X i + v.length := by
  simp only [phiCells]
  rw [List.take_succ, h]
  simp

theorem flatten_at (X : List (List Cp)) (i : Nat) (v : List Cp) (h : X[i]? = some v) :
    X.flatten = (X.take i).flatten ++ (v ++ (X.drop (i + 1)).flatten) := by
  have hlt : i < X.length := by
    cases hx : X[i]? with
    | none => rw [hx] at h; simp at h
    | some _ => exact (List.getElem?_eq_some_iff.mp hx).1
  have hv : X[i] = v := by
    have := List.getElem?_eq_getElem hlt
    rw [this] at h; injection h
  have : X = X.take i ++ (X[i] :: X.drop (i + 1)) := by
    have h1 := (List.take_append_drop i X).symm
    rw [List.drop_eq_getElem_cons hlt] at h1
    exact h1
  conv => lhs; rw [this]
  simp [hv]

theorem phiCells_char (X : List (List Cp)) (i : Nat) (v : List Cp) (h : X[i]? = some v) (k : Nat) (hk : k < v.length) :
    X.flatten[phiCells X i + k]? = v[k]? := by
  rw [flatten_at X i v h, phiCells, List.getElem?_append_right (by omega)]
  have : (X.take i).flatten.length + k - (X.take i).flatten.length = k := by omega
  rw [this, List.getElem?_append_left hk]

/-- **the expansion structure of a character-wise description** -/
theorem expand_of_cells (C : List Cp) (F : List Bool) (X : List (List Cp)) (h : CellsOK C F X) :
    Expand (defaultCfg.env X.flatten.toArray) (defaultCfg.env C.toArray) (phiCells X) (runAt F) := by
  have hlen := h.length
  have hsz : (defaultCfg.env C.toArray).s.size = C.length := by simp [LexCfg.env]
  refine ⟨rfl, ?_, by simp [phiCells], ?_, ?_, ?_⟩
  · have : (defaultCfg.env C.toArray).word = defaultCfg.word := rfl
    rw [this]; decide +kernel
  · rw [hsz]
    simp only [phiCells]
    rw [List.take_of_length_le (by omega)]
    simp [LexCfg.env]
  · intro i hi hr
    rw [hsz] at hi
    obtain ⟨c, f, v, hc, hf, hv, hne, hcase⟩ := h.get i hi
    have hfr : f = false := by simpa [runAt, hf] using hr
    rcases hcase with ⟨_, hvc⟩ | ⟨hft, _⟩
    · subst hvc
      refine ⟨by rw [phiCells_succ X i _ hv]; rfl, ?_⟩
      have := phiCells_char X i [c] hv 0 (by simp)
      show X.flatten.toArray[phiCells X i]? = C.toArray[i]?
      simpa [hc] using this
    · rw [hfr] at hft; exact absurd hft (by simp)
  · intro i hi hr
    rw [hsz] at hi
    obtain ⟨c, f, v, hc, hf, hv, hne, hcase⟩ := h.get i hi
    have hfr : f = true := by simpa [runAt, hf] using hr
    rcases hcase with ⟨hff, _⟩ | ⟨_, hcs, hvs⟩
    · rw [hfr] at hff; exact absurd hff (by simp)
    · have hpos : 0 < v.length := List.length_pos_iff.mpr hne
      refine ⟨by rw [phiCells_succ X i v hv]; omega, ⟨c, by show C.toArray[i]? = some c; simpa using hc, hcs⟩, ?_⟩
      intro j h1 h2
      rw [phiCells_succ X i v hv] at h2
      have hk : j - phiCells X i < v.length := by omega
      have := phiCells_char X i v hv (j - phiCells X i) hk
      have e : phiCells X i + (j - phiCells X i) = j := by omega
      rw [e] at this
      refine ⟨v[j - phiCells X i], ?_, hvs _ (by simp)⟩
      show X.flatten.toArray[j]? = _
      rw [List.getElem?_toArray, this, List.getElem?_eq_getElem hk]

end Sql
