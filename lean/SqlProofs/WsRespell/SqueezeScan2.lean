import SqlProofs.WsRespell.SqueezeScan1
import SqlProofs.WsRespell.Step
/-!
# SqlProofs.WsRespell.SqueezeScan2 — at a certified token, two expansions of the same squeezed text emit the same token
-/
namespace Sql

theorem phi_inj {EX EC : Env} {φ : Nat → Nat} {isRun : Nat → Bool} (H : Expand EX EC φ isRun) (a b : Nat) (ha : a ≤ EC.s.size)
    (hb : b ≤ EC.s.size) (h : φ a = φ b) : a = b := by
  cases Nat.lt_or_ge a b with
  | inl hlt => have := H.lt_of_lt a b hb hlt; omega
  | inr hge =>
    cases Nat.eq_or_lt_of_le hge with
    | inl e => exact e.symm
    | inr hlt => have := H.lt_of_lt b a ha hlt; omega

/-- everything the step needs to know about one text at the start of the token -/
structure AtTok (E : Env) (pos : Nat) (K : WCtx) (c0 : Cp) : Prop where
  c0 : E.s[pos]? = some c0
  sound : ∃ c, WSound K E pos c

theorem AtTok.kill {E : Env} {pos : Nat} {K : WCtx} {c0 : Cp} (h : AtTok E pos K c0) (r : Re) (hk : killRe K c0 r = true) :
    derivs E r ⟨pos, []⟩ = [] := by
  obtain ⟨c, hs⟩ := h.sound
  exact kill_sound K E pos c0 c h.c0 hs r hk

theorem AtTok.exact {E : Env} {pos : Nat} {K : WCtx} {c0 : Cp} (h : AtTok E pos K c0) (r : Re) (e : Nat) (l : List Nat)
    (ha : aexact K r 0 = some (e :: l)) : ∃ st more, derivs E r ⟨pos, []⟩ = st :: more ∧ st.pos = pos + e := by
  obtain ⟨c, hs⟩ := h.sound
  exact aexact_head K E pos c hs r e l ha

/-- the scan step of an expansion at a certified token, from the scan step of the squeezed text -/
theorem step_from_squeezed {EX EC : Env} {φ : Nat → Nat} {isRun : Nat → Bool} (H : Expand EX EC φ isRun) (K : WCtx) (c0 : Cp) (p L : Nat)
    (hpL : p + L ≤ EC.s.size) (hb : φ (p + L) = φ p + L) (hC : AtTok EC p K c0) (hX : AtTok EX (φ p) K c0)
    (hcert : fmCertAny K c0 EC p defaultCfg.rules = true) :
    (firstMatch EC defaultCfg.rules p = none → firstMatch EX defaultCfg.rules (φ p) = none) ∧
    (∀ act, firstMatch EC defaultCfg.rules p = some (act, p + L) → firstMatch EX defaultCfg.rules (φ p) = some (act, φ p + L)) ∧
    (firstMatch EX defaultCfg.rules (φ p) = none → firstMatch EC defaultCfg.rules p = none) ∧
    (∀ act, firstMatch EX defaultCfg.rules (φ p) = some (act, φ p + L) → firstMatch EC defaultCfg.rules p = some (act, p + L)) := by
  have hfm := firstMatch_any H K c0 p (by omega) (fun r hk => ⟨hC.kill r hk, hX.kill r hk⟩)
    (fun r e l ha => ⟨hC.exact r e l ha, hX.exact r e l ha⟩) defaultCfg.rules hcert
  rcases hfm with ⟨n1, n2⟩ | ⟨act, eC, eX, f1, f2, hrel⟩
  · refine ⟨fun _ => n2, fun a h => by rw [n1] at h; simp at h, fun _ => n1, fun a h => by rw [n2] at h; simp at h⟩
  · refine ⟨fun h => by rw [f1] at h; simp at h, ?_, fun h => by rw [f2] at h; simp at h, ?_⟩
    · intro a h
      rw [f1] at h
      simp only [Option.some.injEq, Prod.mk.injEq] at h
      obtain ⟨rfl, rfl⟩ := h
      rw [f2]
      rcases hrel with ⟨e1, _⟩ | ⟨e, e1, e2⟩
      · rw [e1, hb]
      · have : e = L := by omega
        rw [e2, this]
    · intro a h
      rw [f2] at h
      simp only [Option.some.injEq, Prod.mk.injEq] at h
      obtain ⟨rfl, rfl⟩ := h
      rw [f1]
      rcases hrel with ⟨e1, e2⟩ | ⟨e, e1, e2⟩
      · have : eC = p + L := phi_inj H eC (p + L) e2 hpL (by rw [hb, ← e1])
        rw [this]
      · have : e = L := by omega
        rw [e1, this]

end Sql
