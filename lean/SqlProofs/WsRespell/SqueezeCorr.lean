import SqlProofs.WsRespell.SqueezeDef
import SqlProofs.WsRespell.Rel
import SqlProofs.Lex.Shift
/-!
# SqlProofs.WsRespell.SqueezeCorr — an expansion of a squeezed text, and corresponding lists of matcher states

`Expand EX EC φ isRun`: `EC` is the squeezed text, `EX` a text in which every position `i` of `EC` with `isRun i` (a white-space character) is
blown up to `φ (i+1) - φ i ≥ 1` white-space characters and every other position keeps its character.  `Corr a LX LC`: the list `LX` of states
on `EX` is the list `LC` of states on `EC` moved by `φ`, in the same order, with additional *doomed* states (positions strictly inside a
blown-up run) interspersed — only if `a = true`.
-/
namespace Sql

structure Expand (EX EC : Env) (φ : Nat → Nat) (isRun : Nat → Bool) : Prop where
  word : EX.word = EC.word
  wordNoSpace : spaceNone EC.word = true
  phi0 : φ 0 = 0
  size : φ EC.s.size = EX.s.size
  frozen : ∀ i, i < EC.s.size → isRun i = false → φ (i + 1) = φ i + 1 ∧ EX.s[φ i]? = EC.s[i]?
  run : ∀ i, i < EC.s.size → isRun i = true → φ i < φ (i + 1) ∧ (∃ c, EC.s[i]? = some c ∧ isSpace c = true) ∧
          ∀ j, φ i ≤ j → j < φ (i + 1) → ∃ c, EX.s[j]? = some c ∧ isSpace c = true

/-- strictly inside a blown-up run -/
def Doomed (EC : Env) (φ : Nat → Nat) (isRun : Nat → Bool) (j : Nat) : Prop :=
  ∃ i, i < EC.s.size ∧ isRun i = true ∧ φ i < j ∧ j < φ (i + 1)

section
variable {EX EC : Env} {φ : Nat → Nat} {isRun : Nat → Bool}

theorem Expand.step_lt (H : Expand EX EC φ isRun) (i : Nat) (hi : i < EC.s.size) : φ i < φ (i + 1) := by
  cases hr : isRun i with
  | false => have := (H.frozen i hi hr).1; omega
  | true => exact (H.run i hi hr).1

theorem Expand.mono (H : Expand EX EC φ isRun) : ∀ (k i : Nat), i + k ≤ EC.s.size → φ i ≤ φ (i + k) ∧ (0 < k → φ i < φ (i + k)) := by
  intro k
  induction k with
  | zero => intro i _; exact ⟨Nat.le_refl _, fun h => absurd h (by omega)⟩
  | succ k ih =>
    intro i hik
    have h1 := ih i (by omega)
    have h2 := H.step_lt (i + k) (by omega)
    have e : i + (k + 1) = i + k + 1 := by omega
    rw [e]
    exact ⟨by omega, fun _ => by omega⟩

theorem Expand.lt_of_lt (H : Expand EX EC φ isRun) (i k : Nat) (hk : k ≤ EC.s.size) (h : i < k) : φ i < φ k := by
  have := (H.mono (k - i) i (by omega)).2 (by omega)
  have e : i + (k - i) = k := by omega
  rw [e] at this; exact this

theorem Expand.le_size (H : Expand EX EC φ isRun) (i : Nat) (hi : i ≤ EC.s.size) : φ i ≤ EX.s.size := by
  have := (H.mono (EC.s.size - i) i (by omega)).1
  have e : i + (EC.s.size - i) = EC.s.size := by omega
  rw [e, H.size] at this; exact this

theorem Expand.lt_iff (H : Expand EX EC φ isRun) (i k : Nat) (hi : i ≤ EC.s.size) (hk : k ≤ EC.s.size) : φ i < φ k ↔ i < k := by
  constructor
  · intro h
    cases Nat.lt_or_ge i k with
    | inl h' => exact h'
    | inr h' =>
      cases Nat.eq_or_lt_of_le h' with
      | inl e => subst e; omega
      | inr h'' => have := H.lt_of_lt k i hi h''; omega
  · exact H.lt_of_lt i k hk

theorem Expand.get_end (H : Expand EX EC φ isRun) : EX.s[φ EC.s.size]? = none ∧ EC.s[EC.s.size]? = none := by
  rw [H.size]; simp

/-- the character under a doomed position is white space -/
theorem Doomed.space (H : Expand EX EC φ isRun) {j : Nat} (hd : Doomed EC φ isRun j) : ∃ c, EX.s[j]? = some c ∧ isSpace c = true := by
  obtain ⟨i, hi, hr, h1, h2⟩ := hd
  exact (H.run i hi hr).2.2 j (by omega) h2

/-- a doomed position is not the image of a position -/
theorem Doomed.not_image (H : Expand EX EC φ isRun) {j : Nat} (hd : Doomed EC φ isRun j) (k : Nat) (hk : k ≤ EC.s.size) : φ k ≠ j := by
  obtain ⟨i, hi, _, h1, h2⟩ := hd
  intro e
  subst e
  have a := (H.lt_iff i k (by omega) hk).mp h1
  have b := (H.lt_iff k (i + 1) hk (by omega)).mp h2
  omega

end

/-! ## corresponding lists -/

inductive Corr (EC : Env) (φ : Nat → Nat) (isRun : Nat → Bool) : Bool → List St → List St → Prop
  | nil (a : Bool) : Corr EC φ isRun a [] []
  | doomed (d : St) (L L' : List St) : Doomed EC φ isRun d.pos → Corr EC φ isRun true L L' → Corr EC φ isRun true (d :: L) L'
  | img (a : Bool) (x y : St) (L L' : List St) : x.pos = φ y.pos → y.pos ≤ EC.s.size → Corr EC φ isRun a L L' →
      Corr EC φ isRun a (x :: L) (y :: L')

section
variable {EC : Env} {φ : Nat → Nat} {isRun : Nat → Bool}

theorem Corr.toTrue {a : Bool} {L L' : List St} (h : Corr EC φ isRun a L L') : Corr EC φ isRun true L L' := by
  induction h with
  | nil a => exact .nil true
  | doomed d L L' hd _ ih => exact .doomed d L L' hd ih
  | img a x y L L' h1 h2 _ ih => exact .img true x y L L' h1 h2 ih

theorem Corr.mono {a b : Bool} {L L' : List St} (h : Corr EC φ isRun a L L') (hab : a = true → b = true) : Corr EC φ isRun b L L' := by
  cases b with
  | true => exact h.toTrue
  | false =>
    cases a with
    | false => exact h
    | true => exact absurd (hab rfl) (by simp)

theorem Corr.append {a : Bool} {L1 L1' L2 L2' : List St} (h1 : Corr EC φ isRun a L1 L1') (h2 : Corr EC φ isRun a L2 L2') :
    Corr EC φ isRun a (L1 ++ L2) (L1' ++ L2') := by
  induction h1 with
  | nil a => simpa using h2
  | doomed d L L' hd _ ih => exact .doomed d _ _ hd (ih h2)
  | img a x y L L' e1 e2 _ ih => exact .img a x y _ _ e1 e2 (ih h2)

/-- a list of doomed states corresponds to the empty list -/
theorem Corr.allDoomed : ∀ (L : List St), (∀ d ∈ L, Doomed EC φ isRun d.pos) → Corr EC φ isRun true L [] := by
  intro L
  induction L with
  | nil => intro _; exact .nil true
  | cons d L ih => intro h; exact .doomed d L [] (h d (by simp)) (ih (fun x hx => h x (by simp [hx])))

theorem Corr.flatMap {a b : Bool} {L L' : List St} (f g : St → List St) (h : Corr EC φ isRun a L L')
    (himg : ∀ x y, x.pos = φ y.pos → y.pos ≤ EC.s.size → Corr EC φ isRun b (f x) (g y))
    (hdoom : ∀ d, Doomed EC φ isRun d.pos → Corr EC φ isRun b (f d) []) :
    Corr EC φ isRun b (L.flatMap f) (L'.flatMap g) := by
  induction h with
  | nil a => exact .nil b
  | doomed d L L' hd _ ih =>
    simp only [List.flatMap_cons]
    have := (hdoom d hd).append ih
    simpa using this
  | img a x y L L' e1 e2 _ ih =>
    simp only [List.flatMap_cons]
    exact (himg x y e1 e2).append ih

theorem Corr.filter {a : Bool} {L L' : List St} (p q : St → Bool) (h : Corr EC φ isRun a L L')
    (hpq : ∀ x y, x.pos = φ y.pos → y.pos ≤ EC.s.size → p x = q y) : Corr EC φ isRun a (L.filter p) (L'.filter q) := by
  induction h with
  | nil a => exact .nil a
  | doomed d L L' hd _ ih =>
    simp only [List.filter_cons]
    split
    · exact .doomed d _ _ hd ih
    · exact ih
  | img a x y L L' e1 e2 _ ih =>
    simp only [List.filter_cons, hpq x y e1 e2]
    split
    · exact .img a x y _ _ e1 e2 ih
    · exact ih

theorem Corr.map {a : Bool} {L L' : List St} (f g : St → St) (h : Corr EC φ isRun a L L')
    (hf : ∀ x, (f x).pos = x.pos) (hg : ∀ y, (g y).pos = y.pos) : Corr EC φ isRun a (L.map f) (L'.map g) := by
  induction h with
  | nil a => exact .nil a
  | doomed d L L' hd _ ih => exact .doomed (f d) _ _ (by rw [hf]; exact hd) ih
  | img a x y L L' e1 e2 _ ih => exact .img a (f x) (g y) _ _ (by rw [hf, hg]; exact e1) (by rw [hg]; exact e2) ih

/-- without doomed states: both empty or both non-empty with corresponding heads -/
theorem Corr.head_false {L L' : List St} (h : Corr EC φ isRun false L L') :
    (L = [] ∧ L' = []) ∨ ∃ x y M M', L = x :: M ∧ L' = y :: M' ∧ x.pos = φ y.pos ∧ y.pos ≤ EC.s.size := by
  cases h with
  | nil _ => exact Or.inl ⟨rfl, rfl⟩
  | img _ x y M M' e1 e2 _ => exact Or.inr ⟨x, y, M, M', rfl, rfl, e1, e2⟩

theorem Corr.isEmpty_false {L L' : List St} (h : Corr EC φ isRun false L L') : L.isEmpty = L'.isEmpty := by
  rcases h.head_false with ⟨rfl, rfl⟩ | ⟨x, y, M, M', rfl, rfl, _, _⟩ <;> rfl

end
end Sql
