import SqlProofs.WsRespell.Step
/-!
# SqlProofs.WsRespell.Main — the lexical step of C11

`ws_respell_lex`: if `lex s = toks`, `wsRespellable toks`, and `toks'` is `toks` with the value of every Whitespace-typed token replaced by
white-space characters (any of `\s`: blank, tab, every line-break kind, NBSP …), as many as before, then the text of `toks'` lexes, and its
token list is `WsEquiv` to `toks`: the same non-whitespace tokens (types and values) in the same order with white space in the same gaps —
exactly the relation `whitespace_count_invariant` consumes.  (The new white-space tokens themselves may differ in number and type: `\r\n`
is one Newline token, two blanks are two Whitespace tokens.)
-/
namespace Sql

theorem last_space_pos (l : List Cp) (p : Nat) (v X : List Cp) (h : l.drop p = v ++ X) (hl : lastIsSpace v = true) :
    ∃ d, l[p + v.length - 1]? = some d ∧ isSpace d = true := by
  simp only [lastIsSpace] at hl
  cases hg : v.getLast? with
  | none => rw [hg] at hl; simp at hl
  | some d =>
    rw [hg] at hl
    refine ⟨d, ?_, hl⟩
    rw [List.getLast?_eq_getElem?] at hg
    have hpos : 0 < v.length := by
      cases v with
      | nil => simp at hg
      | cons _ _ => simp
    have : l[p + (v.length - 1)]? = (l.drop p)[v.length - 1]? := by rw [List.getElem?_drop]
    have e : p + v.length - 1 = p + (v.length - 1) := by omega
    rw [e, this, h, List.getElem?_append_left (by omega)]
    exact hg

theorem respell_scan (s s' : Array Cp) (H : WsRel (defaultCfg.env s') (defaultCfg.env s)) :
    ∀ (n : Nat) (rest rest' : List Tok) (p : Nat) (ps : Bool), rest.length = n → RespelledWs rest rest' →
      s.toList.drop p = tokensText rest → s'.toList.drop p = tokensText rest' →
      wsCertFrom (defaultCfg.env s) ps p rest = true →
      (ps = true → ∃ d d', s[p - 1]? = some d ∧ s'[p - 1]? = some d' ∧ isSpace d = true ∧ isSpace d' = true) →
      Scan defaultCfg (defaultCfg.env s) p rest → ∀ ts', Scan defaultCfg (defaultCfg.env s') p ts' →
      wsCanon ts' = wsCanon rest := by
  intro n
  induction n using Nat.strongRecOn with
  | _ n ih =>
    intro rest rest' p ps hn hR h1 h2 hcert hprev hscan ts' hscan'
    have hok := cert_wsOK _ rest ps p hcert
    have hsz' : (defaultCfg.env s').s.size = s'.size := rfl
    cases rest with
    | nil =>
      cases hR
      have hlen : s'.size ≤ p := by
        have := congrArg List.length h2
        simp [tokensText] at this; omega
      cases hscan' with
      | done _ _ => rfl
      | err _ c _ hc _ _ => have := (Array.getElem?_eq_some_iff.mp hc).1; omega
      | tok _ _ _ _ _ _ _ _ _ => omega
    | cons t r =>
      cases hws : t.tt.isIn T.Whitespace with
      | false =>
        cases hR with
        | ws _ t' _ l' hw _ _ _ => rw [hws] at hw; exact absurd hw (by simp)
        | keep _ _ r' _ hR' =>
          simp only [wsCertFrom, hws, Bool.false_eq_true, if_false, Bool.and_eq_true] at hcert
          obtain ⟨htc, hcert'⟩ := hcert
          obtain ⟨tsP, rfl, hsP, hsE⟩ := nonws_step s s' H t r r' p ps hws hR' hok h1 h2 htc hprev hscan ts' hscan'
          rw [wsCanon_nonws_cons t _ hws, wsCanon_nonws_cons t _ hws]
          congr 1
          have d1 : s.toList.drop (p + t.val.length) = tokensText r :=
            drop_add_of_append _ p t.val _ (by rw [h1, tokensText_cons])
          have d2 : s'.toList.drop (p + t.val.length) = tokensText r' :=
            drop_add_of_append _ p t.val _ (by rw [h2, tokensText_cons])
          refine ih r.length (by simp at hn; omega) r r' (p + t.val.length) (lastIsSpace t.val) rfl hR' d1 d2 hcert' ?_ hsE tsP hsP
          intro hl
          obtain ⟨d, hd, hds⟩ := last_space_pos s.toList p t.val (tokensText r) (by rw [h1, tokensText_cons]) hl
          obtain ⟨d', hd', hds'⟩ := last_space_pos s'.toList p t.val (tokensText r') (by rw [h2, tokensText_cons]) hl
          exact ⟨d, d', by simpa using hd, by simpa using hd', hds, hds'⟩
      | true =>
        obtain ⟨run, rest2, run', rest2', e1, e2, hall, hhead, hR2, hlen, hs1, hs2, hcount, hne⟩ := ws_prefix (t :: r) rest' hR hok
        obtain ⟨hrne, hpos⟩ := hne t r rfl hws
        have hsE : Scan defaultCfg (defaultCfg.env s) (p + (tokensText run).length) rest2 :=
          scan_append _ _ run p rest2 (by rw [← e1]; exact hscan)
        have hc2 := cert_run _ run rest2 ps p hall hrne (by rw [← e1]; exact hcert)
        have d1 : s.toList.drop (p + (tokensText run).length) = tokensText rest2 :=
          drop_add_of_append _ p (tokensText run) _ (by rw [h1, e1, tokensText_append])
        have d2 : s'.toList.drop (p + (tokensText run).length) = tokensText rest2' := by
          rw [← hlen]
          exact drop_add_of_append _ p (tokensText run') _ (by rw [h2, e2, tokensText_append])
        have hrunE' : ∀ k, k < (tokensText run).length → ∃ c, s'[p + k]? = some c ∧ isSpace c = true := by
          intro k hk
          have hk' : k < (tokensText run').length := by omega
          have : s'[p + k]? = (s'.toList.drop p)[k]? := by rw [List.getElem?_drop, Array.getElem?_toList]
          rw [this, h2, e2, tokensText_append, List.getElem?_append_left hk']
          exact ⟨(tokensText run')[k], by simp, hs2 _ (by simp)⟩
        have hrunE : ∀ k, k < (tokensText run).length → ∃ c, s[p + k]? = some c ∧ isSpace c = true := by
          intro k hk
          have : s[p + k]? = (s.toList.drop p)[k]? := by rw [List.getElem?_drop, Array.getElem?_toList]
          rw [this, h1, e1, tokensText_append, List.getElem?_append_left hk]
          exact ⟨(tokensText run)[k], by simp, hs1 _ (by simp)⟩
        have hsp : SpBetween (defaultCfg.env s') p (p + (tokensText run).length) := by
          intro i hi1 hi2
          obtain ⟨c, hc, hcs⟩ := hrunE' (i - p) (by omega)
          exact ⟨c, by have : p + (i - p) = i := by omega
                       rw [this] at hc; exact hc, hcs⟩
        have hq : p + (tokensText run).length ≤ s'.size := by
          have := congrArg List.length h2
          rw [e2, tokensText_append] at this
          simp only [List.length_drop, Array.length_toList, List.length_append] at this
          omega
        have hend : ∀ c, (defaultCfg.env s').s[p + (tokensText run).length]? = some c → isSpace c = false := by
          intro c hc
          cases rest2 with
          | nil =>
            cases hR2
            have := get_of_drop_nil (defaultCfg.env s') _ (by show s'.toList.drop _ = []; rw [d2]; rfl)
            rw [this] at hc; exact absurd hc (by simp)
          | cons t2 r2 =>
            have hw2 := hhead t2 r2 rfl
            cases hR2 with
            | ws _ _ _ _ hw _ _ _ => rw [hw2] at hw; exact absurd hw (by simp)
            | keep _ _ r2' _ _ =>
              simp only [wsCertFrom, hw2, Bool.false_eq_true, if_false, Bool.and_eq_true, tokCert] at hc2
              cases hv : t2.val with
              | nil => rw [hv] at hc2; simp at hc2
              | cons c0 tv =>
                rw [hv] at hc2
                simp only [Bool.and_eq_true, Bool.not_eq_true'] at hc2
                have := get_of_drop_cons (defaultCfg.env s') _ c0 (tv ++ tokensText r2')
                  (by show s'.toList.drop _ = _; rw [d2, tokensText_cons, hv]; rfl)
                rw [this] at hc
                injection hc with hc
                subst hc
                exact hc2.1.1
        obtain ⟨w, rest'', hts, hw, hwne, hsP⟩ :=
          scan_space_region s' (p + (tokensText run).length) hq hend _ p rfl (by omega) hsp ts' hscan'
        have hIH := ih rest2.length (by
            have : 0 < run.length := List.length_pos_iff.mpr hrne
            simp only [List.length_cons] at hcount hn; omega)
          rest2 rest2' (p + (tokensText run).length) true rfl hR2 d1 d2 hc2 (by
            intro _
            obtain ⟨c, hc, hcs⟩ := hrunE ((tokensText run).length - 1) (by omega)
            obtain ⟨c', hc', hcs'⟩ := hrunE' ((tokensText run).length - 1) (by omega)
            have e : p + (tokensText run).length - 1 = p + ((tokensText run).length - 1) := by omega
            exact ⟨c, c', by rw [e]; exact hc, by rw [e]; exact hc', hcs, hcs'⟩) hsE rest'' hsP
        rw [hts, e1, wsCanon_ws_run w rest'' (hwne (by omega)) hw, wsCanon_ws_run run rest2 hrne hall, hIH]

end Sql
