import SqlProofs.WsRespell.SqueezeScan2
import SqlProofs.WsRespell.Main
/-!
# SqlProofs.WsRespell.SqueezeScan3 — the scan chains of two expansions of one squeezed token list
-/
namespace Sql

def PrevSp (E : Env) (pos : Nat) : Prop := ∃ d, E.s[pos - 1]? = some d ∧ isSpace d = true

theorem env_drop (a b : List Cp) : (defaultCfg.env (a ++ b).toArray).s.toList.drop a.length = b := by
  show (a ++ b).toArray.toList.drop a.length = b
  simp

theorem atTok_of (E : Env) (hw : E.word = defaultCfg.word) (pos : Nat) (w : Array Cp) (c : Cp) (tl : List Cp) (excl : List CpSet) (ps : Bool)
    (c0 : Cp) (rest0 : List Cp) (ht : E.s.toList.drop pos = w.toList ++ c :: tl) (h0 : E.s.toList.drop pos = c0 :: rest0)
    (hex : ∀ X ∈ excl, X.mem c = false) (hprev : ps = true → PrevSp E pos) : AtTok E pos (wsK w excl ps) c0 :=
  ⟨get_of_drop_cons E pos c0 rest0 h0, c, wsK_sound E hw pos w c tl excl ps ht hex hprev⟩

theorem lastIsSpace_of_all (v : List Cp) (hne : v ≠ []) (h : ∀ a ∈ v, isSpace a = true) : lastIsSpace v = true := by
  simp only [lastIsSpace]
  cases hg : v.getLast? with
  | none => simp [List.getLast?_eq_none_iff] at hg; exact absurd hg hne
  | some d => exact h d (List.mem_of_getLast? hg)

theorem run_text_ok (w : List Tok) (hne : w ≠ []) (hall : ∀ x ∈ w, x.tt.isIn T.Whitespace = true) (hok : WsOK w) :
    tokensText w ≠ [] ∧ ∀ a ∈ tokensText w, isSpace a = true := by
  constructor
  · cases w with
    | nil => exact absurd rfl hne
    | cons x w' =>
      have := (hok x (by simp) (hall x (by simp))).1
      simp only [tokensText_cons]
      intro he
      exact this (List.append_eq_nil_iff.mp he).1
  · intro a ha
    simp only [tokensText, List.mem_flatten, List.mem_map] at ha
    obtain ⟨v, ⟨x, hx, rfl⟩, ha⟩ := ha
    exact (hok x hx (hall x hx)).2 a ha

theorem squeeze_scan (cs : List Tok) (xsT xsT' : List Text) (HT : ExpandsTo cs xsT) (HT' : ExpandsTo cs xsT') :
    ∀ (restT restC : List Tok) (xrest : List Text), SqRel restT restC xrest →
    ∀ (preC : List Tok) (xpre xpre' xrest' : List Text) (ps : Bool) (ts' : List Tok),
      cs = preC ++ restC → xsT = xpre ++ xrest → xsT' = xpre' ++ xrest' → ExpandsTo preC xpre → ExpandsTo preC xpre' →
      ExpandsTo restC xrest' → WsOK restT →
      wsCertAnyFrom (defaultCfg.env (tokensText cs).toArray) ps (tokensText preC).length restC = true →
      (ps = true → PrevSp (defaultCfg.env (tokensText cs).toArray) (tokensText preC).length ∧
        PrevSp (defaultCfg.env xsT.flatten.toArray) xpre.flatten.length ∧ PrevSp (defaultCfg.env xsT'.flatten.toArray) xpre'.flatten.length) →
      Scan defaultCfg (defaultCfg.env xsT.flatten.toArray) xpre.flatten.length restT →
      Scan defaultCfg (defaultCfg.env xsT'.flatten.toArray) xpre'.flatten.length ts' → wsCanon ts' = wsCanon restT := by
  -- the two expansion structures
  have HX : Expand (defaultCfg.env xsT.flatten.toArray) (defaultCfg.env (tokensText cs).toArray) (phiCells (cellsOf cs xsT)) (runAt (flagsOf cs)) := by
    have := expand_of_cells (tokensText cs) (flagsOf cs) (cellsOf cs xsT) (expandsTo_cells HT).1
    rw [(expandsTo_cells HT).2.1] at this; exact this
  have HX' : Expand (defaultCfg.env xsT'.flatten.toArray) (defaultCfg.env (tokensText cs).toArray) (phiCells (cellsOf cs xsT')) (runAt (flagsOf cs)) := by
    have := expand_of_cells (tokensText cs) (flagsOf cs) (cellsOf cs xsT') (expandsTo_cells HT').1
    rw [(expandsTo_cells HT').2.1] at this; exact this
  have hszC : (defaultCfg.env (tokensText cs).toArray).s.size = (tokensText cs).length := by simp [LexCfg.env]
  intro restT restC xrest hsq
  induction hsq with
  | nil =>
    intro preC xpre xpre' xrest' ps ts' hcs hxs hxs' hpre hpre' hrest _ _ _ _ hscan'
    cases hrest
    have hlen : (defaultCfg.env xsT'.flatten.toArray).s.size ≤ xpre'.flatten.length := by
      rw [hxs']; simp [LexCfg.env]
    cases hscan' with
    | done _ _ => rfl
    | err _ c _ hc _ _ => have := (Array.getElem?_eq_some_iff.mp hc).1; omega
    | tok _ _ _ _ _ _ _ _ _ => omega
  | keep t l cs' xs hws hsq' ih =>
    intro preC xpre xpre' xrest' ps ts' hcs hxs hxs' hpre hpre' hrest hok hcert hprev hscan hscan'
    cases hrest with
    | ws _ _ _ _ _ hw _ _ _ _ _ => rw [hws] at hw; exact absurd hw (by simp)
    | keep _ _ xs'' _ hrest' =>
      simp only [wsCertAnyFrom, hws, Bool.false_eq_true, if_false, Bool.and_eq_true, tokCertAny] at hcert
      obtain ⟨htc, hcert'⟩ := hcert
      cases hv : t.val with
      | nil => rw [hv] at htc; simp at htc
      | cons c0 tv =>
        rw [hv] at htc
        simp only [Bool.and_eq_true, Bool.not_eq_true'] at htc
        obtain ⟨hc0, hwin⟩ := htc
        cases hW : tokWindow (t :: cs') with
        | none => rw [hW] at hwin; simp at hwin
        | some we =>
          obtain ⟨w, excl⟩ := we
          rw [hW] at hwin
          simp only at hwin
          have hexpT : ExpandsTo (t :: cs') (t.val :: xs) := .keep t cs' xs hws (hsq'.expands hok.tail)
          have hexpT' : ExpandsTo (t :: cs') (t.val :: xs'') := .keep t cs' xs'' hws hrest'
          obtain ⟨c, tl, c1, tl1, e1, e2, x1, x2⟩ := window_texts_any hexpT w excl hW
          obtain ⟨_, _, c2, tl2, _, e4, _, x4⟩ := window_texts_any hexpT' w excl hW
          -- drops
          have dC : (defaultCfg.env (tokensText cs).toArray).s.toList.drop (tokensText preC).length = tokensText (t :: cs') := by
            rw [hcs, tokensText_append]; exact env_drop _ _
          have dT : (defaultCfg.env xsT.flatten.toArray).s.toList.drop xpre.flatten.length = (t.val :: xs).flatten := by
            rw [hxs, List.flatten_append]; exact env_drop _ _
          have dT' : (defaultCfg.env xsT'.flatten.toArray).s.toList.drop xpre'.flatten.length = (t.val :: xs'').flatten := by
            rw [hxs', List.flatten_append]; exact env_drop _ _
          have aC : AtTok (defaultCfg.env (tokensText cs).toArray) (tokensText preC).length (wsK w excl ps) c0 :=
            atTok_of _ rfl _ w c tl excl ps c0 (tv ++ tokensText cs') (by rw [dC, e1]) (by rw [dC, tokensText_cons, hv]; rfl) x1
              (fun h => (hprev h).1)
          have aT : AtTok (defaultCfg.env xsT.flatten.toArray) xpre.flatten.length (wsK w excl ps) c0 :=
            atTok_of _ rfl _ w c1 tl1 excl ps c0 (tv ++ xs.flatten) (by rw [dT, e2]) (by rw [dT, List.flatten_cons, hv]; rfl) x2
              (fun h => (hprev h).2.1)
          have aT' : AtTok (defaultCfg.env xsT'.flatten.toArray) xpre'.flatten.length (wsK w excl ps) c0 :=
            atTok_of _ rfl _ w c2 tl2 excl ps c0 (tv ++ xs''.flatten) (by rw [dT', e4]) (by rw [dT', List.flatten_cons, hv]; rfl) x4
              (fun h => (hprev h).2.2)
          -- boundaries
          have hpreT1 : ExpandsTo (preC ++ [t]) (xpre ++ [t.val]) := expandsTo_append hpre (.keep t [] [] hws .nil)
          have hpreT1' : ExpandsTo (preC ++ [t]) (xpre' ++ [t.val]) := expandsTo_append hpre' (.keep t [] [] hws .nil)
          have hcs1 : cs = (preC ++ [t]) ++ cs' := by rw [hcs]; simp
          have b0 : phiCells (cellsOf cs xsT) (tokensText preC).length = xpre.flatten.length := by
            rw [hcs, hxs]; exact phi_boundary hpre _ _
          have b0' : phiCells (cellsOf cs xsT') (tokensText preC).length = xpre'.flatten.length := by
            rw [hcs, hxs']; exact phi_boundary hpre' _ _
          have hL : (tokensText (preC ++ [t])).length = (tokensText preC).length + t.val.length := by
            simp [tokensText_append, tokensText_cons, tokensText]
          have b1 : phiCells (cellsOf cs xsT) ((tokensText preC).length + t.val.length) = xpre.flatten.length + t.val.length := by
            have := phi_boundary hpreT1 cs' xs
            rw [hL] at this
            have e : xsT = (xpre ++ [t.val]) ++ xs := by rw [hxs]; simp
            rw [hcs1, e, this]; simp
          have b1' : phiCells (cellsOf cs xsT') ((tokensText preC).length + t.val.length) = xpre'.flatten.length + t.val.length := by
            have := phi_boundary hpreT1' cs' xs''
            rw [hL] at this
            have e : xsT' = (xpre' ++ [t.val]) ++ xs'' := by rw [hxs']; simp
            rw [hcs1, e, this]; simp
          have hpL : (tokensText preC).length + t.val.length ≤ (defaultCfg.env (tokensText cs).toArray).s.size := by
            rw [hszC, hcs1, tokensText_append, List.length_append, hL]; omega
          have sT := step_from_squeezed HX (wsK w excl ps) c0 (tokensText preC).length t.val.length hpL (by rw [b1, b0]) aC
            (by rw [b0]; exact aT) hwin
          have sT' := step_from_squeezed HX' (wsK w excl ps) c0 (tokensText preC).length t.val.length hpL (by rw [b1', b0']) aC
            (by rw [b0']; exact aT') hwin
          rw [b0] at sT; rw [b0'] at sT'
          -- the two scans emit `t`
          have hlt' : xpre'.flatten.length < (defaultCfg.env xsT'.flatten.toArray).s.size := (Array.getElem?_eq_some_iff.mp aT'.c0).1
          have key : ∃ tsP, ts' = t :: tsP ∧ Scan defaultCfg (defaultCfg.env xsT'.flatten.toArray) (xpre'.flatten.length + t.val.length) tsP ∧
              Scan defaultCfg (defaultCfg.env xsT.flatten.toArray) (xpre.flatten.length + t.val.length) l := by
            cases hscan with
            | err _ cE _ hcE hfmE hsE =>
              rw [aT.c0] at hcE; injection hcE with hcE; subst hcE
              have hnC := sT.2.2.1 hfmE
              have hnT' := sT'.1 hnC
              cases hscan' with
              | done _ hp => omega
              | tok _ _ _ _ _ _ hfmP _ _ => rw [hnT'] at hfmP; simp at hfmP
              | err _ cP tsP hcP _ hsP =>
                rw [aT'.c0] at hcP; injection hcP with hcP; subst hcP
                exact ⟨tsP, rfl, hsP, hsE⟩
            | tok _ act e _ hpe hes hfmE hact hsE =>
              have hlenE := extract_length (defaultCfg.env xsT.flatten.toArray) xpre.flatten.length e (by omega) hes
              have he : xpre.flatten.length + ((defaultCfg.env xsT.flatten.toArray).s.extract xpre.flatten.length e).toList.length = e := by
                rw [hlenE]; omega
              have hfmE' : firstMatch (defaultCfg.env xsT.flatten.toArray) defaultCfg.rules xpre.flatten.length =
                  some (act, xpre.flatten.length + ((defaultCfg.env xsT.flatten.toArray).s.extract xpre.flatten.length e).toList.length) := by
                rw [he]; exact hfmE
              have hC := sT.2.2.2 act hfmE'
              have hT' := sT'.2.1 act hC
              cases hscan' with
              | done _ hp => omega
              | err _ _ _ _ hfmP _ => rw [hT'] at hfmP; simp at hfmP
              | tok _ actP eP tsP hpeP hesP hfmP hactP hsP =>
                rw [hT'] at hfmP
                simp only [Option.some.injEq, Prod.mk.injEq] at hfmP
                obtain ⟨rfl, rfl⟩ := hfmP
                have hext : ((defaultCfg.env xsT'.flatten.toArray).s.extract xpre'.flatten.length
                      (xpre'.flatten.length + ((defaultCfg.env xsT.flatten.toArray).s.extract xpre.flatten.length e).toList.length)).toList =
                    ((defaultCfg.env xsT.flatten.toArray).s.extract xpre.flatten.length e).toList := by
                  rw [extract_toList, dT', List.flatten_cons]
                  exact take_of_append_len _ _ _ (by simp)
                refine ⟨tsP, by rw [hext], hsP, ?_⟩
                rw [he]; exact hsE
          obtain ⟨tsP, rfl, hsP, hsE⟩ := key
          rw [wsCanon_nonws_cons t _ hws, wsCanon_nonws_cons t _ hws]
          congr 1
          have q1 : (xpre ++ [t.val]).flatten.length = xpre.flatten.length + t.val.length := by simp
          have q1' : (xpre' ++ [t.val]).flatten.length = xpre'.flatten.length + t.val.length := by simp
          refine ih (preC ++ [t]) (xpre ++ [t.val]) (xpre' ++ [t.val]) xs'' (lastIsSpace t.val) tsP hcs1 (by rw [hxs]; simp)
            (by rw [hxs']; simp) hpreT1 hpreT1' hrest' hok.tail (by rw [hL]; exact hcert') ?_ (by rw [q1]; exact hsE) (by rw [q1']; exact hsP)
          intro hl
          rw [hL, q1, q1']
          obtain ⟨d, hd, hds⟩ := last_space_pos _ _ t.val (tokensText cs') (by rw [dC, tokensText_cons]) hl
          obtain ⟨d1, hd1, hds1⟩ := last_space_pos _ _ t.val xs.flatten (by rw [dT, List.flatten_cons]) hl
          obtain ⟨d2, hd2, hds2⟩ := last_space_pos _ _ t.val xs''.flatten (by rw [dT', List.flatten_cons]) hl
          exact ⟨⟨d, by simpa using hd, hds⟩, ⟨d1, by simpa using hd1, hds1⟩, ⟨d2, by simpa using hd2, hds2⟩⟩
  | run w l cs' xs hne hall hmax hsq' ih =>
    intro preC xpre xpre' xrest' ps ts' hcs hxs hxs' hpre hpre' hrest hok hcert hprev hscan hscan'
    have hbws : blankTok.tt.isIn T.Whitespace = true := by decide
    cases hrest with
    | keep _ _ _ hw _ => rw [hbws] at hw; exact absurd hw (by simp)
    | ws _ b v _ xs'' _ hbv hb hvne hvsp hrest' =>
      have hokw : WsOK w := fun x hx => hok x (by simp [hx])
      have hokl : WsOK l := fun x hx => hok x (by simp [hx])
      obtain ⟨hWne, hWsp⟩ := run_text_ok w hne hall hokw
      simp only [wsCertAnyFrom, hbws, if_true, Bool.and_eq_true] at hcert
      have hcert' := hcert.2
      have hb1 : blankTok.val.length = 1 := rfl
      rw [hb1] at hcert'
      have dC : (defaultCfg.env (tokensText cs).toArray).s.toList.drop (tokensText preC).length = tokensText (blankTok :: cs') := by
        rw [hcs, tokensText_append]; exact env_drop _ _
      have dT : (defaultCfg.env xsT.flatten.toArray).s.toList.drop xpre.flatten.length = (tokensText w :: xs).flatten := by
        rw [hxs, List.flatten_append]; exact env_drop _ _
      have dT' : (defaultCfg.env xsT'.flatten.toArray).s.toList.drop xpre'.flatten.length = (v :: xs'').flatten := by
        rw [hxs', List.flatten_append]; exact env_drop _ _
      have hsE : Scan defaultCfg (defaultCfg.env xsT.flatten.toArray) (xpre.flatten.length + (tokensText w).length) l :=
        scan_append _ _ w _ l hscan
      have dT'2 : (defaultCfg.env xsT'.flatten.toArray).s.toList.drop (xpre'.flatten.length + v.length) = xs''.flatten :=
        drop_add_of_append _ _ v _ (by rw [dT', List.flatten_cons])
      have hsp' : SpBetween (defaultCfg.env xsT'.flatten.toArray) xpre'.flatten.length (xpre'.flatten.length + v.length) := by
        intro i h1 h2
        have hk : i - xpre'.flatten.length < v.length := by omega
        have := getElem?_of_drop (defaultCfg.env xsT'.flatten.toArray) xpre'.flatten.length (i - xpre'.flatten.length) _ dT'
        have e : xpre'.flatten.length + (i - xpre'.flatten.length) = i := by omega
        rw [e, List.flatten_cons, List.getElem?_append_left hk] at this
        exact ⟨v[i - xpre'.flatten.length], by rw [this]; simp, hvsp _ (by simp)⟩
      have hvpos0 : 0 < v.length := List.length_pos_iff.mpr hvne
      have hq : xpre'.flatten.length + v.length ≤ xsT'.flatten.toArray.size := by
        have := congrArg List.length dT'
        simp only [List.length_drop, List.flatten_cons, List.length_append] at this
        have e : (defaultCfg.env xsT'.flatten.toArray).s.toList.length = xsT'.flatten.toArray.size := by simp [LexCfg.env]
        rw [e] at this; omega
      have hend : ∀ c, (defaultCfg.env xsT'.flatten.toArray).s[xpre'.flatten.length + v.length]? = some c → isSpace c = false := by
        intro c hc
        cases hsq' with
        | nil =>
          cases hrest'
          have := get_of_drop_nil (defaultCfg.env xsT'.flatten.toArray) _ (by rw [dT'2]; rfl)
          rw [this] at hc; exact absurd hc (by simp)
        | run w2 l2 cs2 xs2 hne2 hall2 _ _ =>
          cases w2 with
          | nil => exact absurd rfl hne2
          | cons x w2' =>
            have := hmax x (w2' ++ l2) rfl
            rw [hall2 x (by simp)] at this; exact absurd this (by simp)
        | keep t2 l2 cs2 xs2 hws2 _ =>
          cases hrest' with
          | ws _ _ _ _ _ hw _ _ _ _ _ => rw [hws2] at hw; exact absurd hw (by simp)
          | keep _ _ xs3 _ _ =>
            simp only [wsCertAnyFrom, hws2, Bool.false_eq_true, if_false, Bool.and_eq_true, tokCertAny] at hcert'
            cases hv2 : t2.val with
            | nil => rw [hv2] at hcert'; simp at hcert'
            | cons c0 tv =>
              rw [hv2] at hcert'
              simp only [Bool.and_eq_true, Bool.not_eq_true'] at hcert'
              have := get_of_drop_cons (defaultCfg.env xsT'.flatten.toArray) _ c0 (tv ++ xs3.flatten)
                (by rw [dT'2, List.flatten_cons, hv2]; rfl)
              rw [this] at hc
              injection hc with hc
              subst hc
              exact hcert'.1.1
      obtain ⟨w', rest'', hts, hw', hwne, hsP⟩ :=
        scan_space_region xsT'.flatten.toArray (xpre'.flatten.length + v.length) hq hend _ xpre'.flatten.length rfl (by omega) hsp' ts' hscan'
      have hvpos : 0 < v.length := List.length_pos_iff.mpr hvne
      have hWpos : 0 < (tokensText w).length := List.length_pos_iff.mpr hWne
      have hpre1 : ExpandsTo (preC ++ [blankTok]) (xpre ++ [tokensText w]) :=
        expandsTo_append hpre (.ws blankTok 32 _ [] [] hbws rfl (by decide +kernel) hWne hWsp .nil)
      have hpre1' : ExpandsTo (preC ++ [blankTok]) (xpre' ++ [v]) :=
        expandsTo_append hpre' (.ws blankTok 32 _ [] [] hbws rfl (by decide +kernel) hvne hvsp .nil)
      have hL : (tokensText (preC ++ [blankTok])).length = (tokensText preC).length + 1 := by
        simp [tokensText_append, tokensText_cons, tokensText, blankTok]
      have q1 : (xpre ++ [tokensText w]).flatten.length = xpre.flatten.length + (tokensText w).length := by simp
      have q1' : (xpre' ++ [v]).flatten.length = xpre'.flatten.length + v.length := by simp
      have hIH := ih (preC ++ [blankTok]) (xpre ++ [tokensText w]) (xpre' ++ [v]) xs'' true rest'' (by rw [hcs]; simp) (by rw [hxs]; simp)
        (by rw [hxs']; simp) hpre1 hpre1' hrest' hokl (by rw [hL]; exact hcert') (by
          intro _
          rw [hL, q1, q1']
          obtain ⟨d, hd, hds⟩ := last_space_pos _ _ [32] (tokensText cs') (by rw [dC, tokensText_cons]; rfl) (by decide +kernel)
          obtain ⟨d1, hd1, hds1⟩ := last_space_pos _ _ (tokensText w) xs.flatten (by rw [dT, List.flatten_cons])
            (lastIsSpace_of_all _ hWne hWsp)
          obtain ⟨d2, hd2, hds2⟩ := last_space_pos _ _ v xs''.flatten (by rw [dT', List.flatten_cons]) (lastIsSpace_of_all _ hvne hvsp)
          exact ⟨⟨d, by simpa using hd, hds⟩, ⟨d1, by simpa using hd1, hds1⟩, ⟨d2, by simpa using hd2, hds2⟩⟩)
        (by rw [q1]; exact hsE) (by rw [q1']; exact hsP)
      rw [hts, wsCanon_ws_run w' rest'' (hwne (by omega)) hw', wsCanon_ws_run w l hne hall, hIH]

end Sql
