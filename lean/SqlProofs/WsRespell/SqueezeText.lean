import SqlProofs.WsRespell.SqueezeTheorem
/-!
# SqlProofs.WsRespell.SqueezeText — text form of `ws_respell_any_lex`
-/
namespace Sql

/-- `l'` spells the tokens that are not white space, in order, with a non-empty string of white-space characters wherever the token list has a
Whitespace-typed token (consecutive white-space tokens: consecutive such strings, i.e. any run of length ≥ their number) -/
inductive WsTextRelAny : List Tok → List Cp → Prop
  | nil : WsTextRelAny [] []
  | keep (t : Tok) (ts : List Tok) (rest : List Cp) : t.tt.isIn T.Whitespace = false → WsTextRelAny ts rest →
      WsTextRelAny (t :: ts) (t.val ++ rest)
  | ws (t : Tok) (v : List Cp) (ts : List Tok) (rest : List Cp) : t.tt.isIn T.Whitespace = true → v ≠ [] → (∀ c ∈ v, isSpace c = true) →
      WsTextRelAny ts rest → WsTextRelAny (t :: ts) (v ++ rest)

theorem wsTextRelAny_toks {toks : List Tok} {l' : List Cp} (h : WsTextRelAny toks l') :
    ∃ toks', RespelledWsAny toks toks' ∧ tokensText toks' = l' := by
  induction h with
  | nil => exact ⟨[], .nil, rfl⟩
  | keep t ts rest hws _ ih =>
    obtain ⟨ts', h1, h2⟩ := ih
    exact ⟨t :: ts', .keep t ts ts' hws h1, by rw [tokensText_cons, h2]⟩
  | ws t v ts rest hws hne hsp _ ih =>
    obtain ⟨ts', h1, h2⟩ := ih
    exact ⟨⟨t.tt, v⟩ :: ts', .ws t ⟨t.tt, v⟩ ts ts' hws hne hsp h1, by rw [tokensText_cons, h2]⟩

/-- **re-spelled text, any run lengths ⇒ equivalent tokens** -/
theorem ws_respell_any_text (s s' : Array Cp) (toks : List Tok) (hl : lex defaultCfg s = .ok toks) (hd : wsRespellableAny toks = true)
    (hrel : WsTextRelAny toks s'.toList) : ∃ ts', lex defaultCfg s' = .ok ts' ∧ WsEquiv ts' toks := by
  obtain ⟨toks', hR, htxt⟩ := wsTextRelAny_toks hrel
  obtain ⟨ts', h1, h2⟩ := ws_respell_any_lex s toks toks' hl hd hR
  refine ⟨ts', ?_, h2⟩
  rw [htxt] at h1
  simpa using h1

end Sql
