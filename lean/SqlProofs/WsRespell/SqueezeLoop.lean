import SqlProofs.WsRespell.SqueezeRe1
/-!
# SqlProofs.WsRespell.SqueezeLoop — a loop `rep lo none g (set S)` with `S ⊇ \s`, `lo ≤ 1`, over a blown-up run
-/
namespace Sql

section
variable {EX EC : Env} {φ : Nat → Nat} {isRun : Nat → Bool}

theorem repAux_none_succ (step : St → List St) (g : Bool) (f lo : Nat) (st : St) :
    repAux step g (f + 1) lo none st =
      (if g then
        ((step st).filter (fun st' => st.pos < st'.pos)).flatMap (fun st' => repAux step g f (lo - 1) none st') ++ (if lo = 0 then [st] else [])
       else
        (if lo = 0 then [st] else []) ++ ((step st).filter (fun st' => st.pos < st'.pos)).flatMap (fun st' => repAux step g f (lo - 1) none st')) := by
  simp [repAux]

/-- both invariants of the loop, by induction on the distance of the `EX` position from the end of the text -/
theorem wsLoop_inv (H : Expand EX EC φ isRun) (S : CpSet) (hS : spaceAll S = true) (g : Bool) :
    ∀ (μ : Nat),
      (∀ (x y : St) (i fX fC : Nat), EX.s.size - x.pos = μ → i < EC.s.size → isRun i = true → φ i < x.pos → x.pos < φ (i + 1) →
          y.pos = i + 1 → EX.s.size < x.pos + fX → EC.s.size < y.pos + fC →
          Corr EC φ isRun true (repAux (derivs EX (.set S)) g fX 0 none x) (repAux (derivs EC (.set S)) g fC 0 none y)) ∧
      (∀ (x y : St) (lo fX fC : Nat), EX.s.size - x.pos = μ → x.pos = φ y.pos → y.pos ≤ EC.s.size → lo ≤ 1 →
          EX.s.size < x.pos + fX → EC.s.size < y.pos + fC →
          Corr EC φ isRun true (repAux (derivs EX (.set S)) g fX lo none x) (repAux (derivs EC (.set S)) g fC lo none y)) := by
  intro μ
  induction μ using Nat.strongRecOn with
  | _ μ ih =>
    constructor
    · -- inside a run
      intro x y i fX fC hμ hi hr h1 h2 hy hfX hfC
      obtain ⟨c, hc, hcs⟩ := (H.run i hi hr).2.2 x.pos (by omega) h2
      have hltX : x.pos < EX.s.size := (Array.getElem?_eq_some_iff.mp hc).1
      cases fX with
      | zero => omega
      | succ fx =>
        have hmem : S.mem c = true := spaceAll_mem S hS c hcs
        have hstep : derivs EX (.set S) x = [{ x with pos := x.pos + 1 }] := by
          rw [derivs_set_some EX S x c hc, hmem]; rfl
        have hmore : Corr EC φ isRun true
            (((derivs EX (.set S) x).filter (fun st' => x.pos < st'.pos)).flatMap (fun st' => repAux (derivs EX (.set S)) g fx (0 - 1) none st'))
            (repAux (derivs EC (.set S)) g fC 0 none y) := by
          rw [hstep]
          simp only [List.filter_cons, Nat.lt_add_one, decide_true, if_true, List.filter_nil, List.flatMap_cons, List.flatMap_nil,
            List.append_nil, Nat.zero_sub]
          by_cases he : x.pos + 1 = φ (i + 1)
          · exact (ih (EX.s.size - (x.pos + 1)) (by omega)).2 { x with pos := x.pos + 1 } y 0 fx fC rfl (by simp [he, hy]) (by omega)
              (by omega) (by simp; omega) hfC
          · exact (ih (EX.s.size - (x.pos + 1)) (by omega)).1 { x with pos := x.pos + 1 } y i fx fC rfl hi hr (by simp; omega)
              (by simp; omega) hy (by simp; omega) hfC
        have hdoom : Doomed EC φ isRun x.pos := ⟨i, hi, hr, h1, h2⟩
        rw [repAux_none_succ]
        cases g with
        | true =>
          simp only [if_true]
          have := hmore.append (Corr.allDoomed [x] (by intro d hd; simp at hd; subst hd; exact hdoom))
          simpa using this
        | false =>
          simp only [Bool.false_eq_true, if_false, List.singleton_append]
          exact .doomed x _ _ hdoom hmore
    · -- at corresponding positions
      intro x y lo fX fC hμ hxy hy hlo hfX hfC
      have hxle : x.pos ≤ EX.s.size := by rw [hxy]; exact H.le_size y.pos hy
      cases fX with
      | zero => omega
      | succ fx =>
        cases fC with
        | zero => omega
        | succ fc =>
          have hstop : Corr EC φ isRun true (if lo = 0 then [x] else []) (if lo = 0 then [y] else []) := by
            split
            · exact .img true x y [] [] hxy hy (.nil true)
            · exact .nil true
          have hlo' : lo - 1 = 0 := by omega
          have hmore : Corr EC φ isRun true
              (((derivs EX (.set S) x).filter (fun st' => x.pos < st'.pos)).flatMap (fun st' => repAux (derivs EX (.set S)) g fx (lo - 1) none st'))
              (((derivs EC (.set S) y).filter (fun st' => y.pos < st'.pos)).flatMap (fun st' => repAux (derivs EC (.set S)) g fc (lo - 1) none st')) := by
            rw [hlo']
            cases Nat.eq_or_lt_of_le hy with
            | inl e =>
              have hX : EX.s[x.pos]? = none := by rw [hxy, e]; exact H.get_end.1
              have hC : EC.s[y.pos]? = none := by rw [e]; exact H.get_end.2
              rw [derivs_set_none' EX S x hX, derivs_set_none' EC S y hC]
              exact .nil true
            | inr hlt =>
              cases hr : isRun y.pos with
              | false =>
                obtain ⟨f1, f2⟩ := H.frozen y.pos hlt hr
                have hcy : EC.s[y.pos]? = some EC.s[y.pos] := Array.getElem?_eq_getElem hlt
                have hcx : EX.s[x.pos]? = some EC.s[y.pos] := by rw [hxy, f2, hcy]
                have hxs : x.pos < EX.s.size := (Array.getElem?_eq_some_iff.mp hcx).1
                rw [derivs_set_some EX S x _ hcx, derivs_set_some EC S y _ hcy]
                cases hm : S.mem EC.s[y.pos] with
                | false => exact .nil true
                | true =>
                  simp only [if_true, List.filter_cons, Nat.lt_add_one, decide_true, List.filter_nil, List.flatMap_cons,
                    List.flatMap_nil, List.append_nil]
                  exact (ih (EX.s.size - (x.pos + 1)) (by omega)).2 { x with pos := x.pos + 1 } { y with pos := y.pos + 1 } 0 fx fc rfl
                    (by simp [hxy, f1]) (by simp; omega) (by omega) (by simp; omega) (by simp; omega)
              | true =>
                obtain ⟨r1, ⟨b, hb, hbs⟩, r3⟩ := H.run y.pos hlt hr
                obtain ⟨a, ha, has⟩ := r3 (φ y.pos) (Nat.le_refl _) r1
                have hcx : EX.s[x.pos]? = some a := by rw [hxy]; exact ha
                rw [derivs_set_some EX S x a hcx, derivs_set_some EC S y b hb, spaceAll_mem S hS a has, spaceAll_mem S hS b hbs]
                simp only [if_true, List.filter_cons, Nat.lt_add_one, decide_true, List.filter_nil, List.flatMap_cons,
                  List.flatMap_nil, List.append_nil]
                have hxs : x.pos < EX.s.size := (Array.getElem?_eq_some_iff.mp hcx).1
                by_cases he : x.pos + 1 = φ (y.pos + 1)
                · exact (ih (EX.s.size - (x.pos + 1)) (by omega)).2 { x with pos := x.pos + 1 } { y with pos := y.pos + 1 } 0 fx fc rfl
                    (by simp [he]) (by simp; omega) (by omega) (by simp; omega) (by simp; omega)
                · exact (ih (EX.s.size - (x.pos + 1)) (by omega)).1 { x with pos := x.pos + 1 } { y with pos := y.pos + 1 } y.pos fx fc rfl
                    hlt hr (by simp; omega) (by simp; omega) rfl (by simp; omega) (by simp; omega)
          rw [repAux_none_succ, repAux_none_succ]
          cases g with
          | true => simp only [if_true]; exact hmore.append hstop
          | false => simp only [Bool.false_eq_true, if_false]; exact hstop.append hmore

theorem wsLoop_corr (H : Expand EX EC φ isRun) (S : CpSet) (hS : spaceAll S = true) (g : Bool) (lo : Nat) (hlo : lo ≤ 1)
    (x y : St) (hxy : x.pos = φ y.pos) (hy : y.pos ≤ EC.s.size) :
    Corr EC φ isRun true (derivs EX (.rep lo none g (.set S)) x) (derivs EC (.rep lo none g (.set S)) y) := by
  simp only [derivs]
  exact (wsLoop_inv H S hS g _).2 x y lo _ _ rfl hxy hy hlo (by omega) (by omega)

end
end Sql
