import SqlProofs.WsRespell.Region
import SqlModel.Grouping.WsDomain
/-!
# SqlProofs.WsRespell.Lists — the re-spelling relation on token lists and its bookkeeping
-/
namespace Sql

/-- `toks'` is `toks` with the value of every Whitespace-typed token replaced by white-space characters, as many as before -/
inductive RespelledWs : List Tok → List Tok → Prop
  | nil : RespelledWs [] []
  | keep (t : Tok) (l l' : List Tok) : t.tt.isIn T.Whitespace = false → RespelledWs l l' → RespelledWs (t :: l) (t :: l')
  | ws (t t' : Tok) (l l' : List Tok) : t.tt.isIn T.Whitespace = true → t'.val.length = t.val.length →
      (∀ c ∈ t'.val, isSpace c = true) → RespelledWs l l' → RespelledWs (t :: l) (t' :: l')

/-- every Whitespace-typed token has a non-empty value of white-space characters (always true of lexed lists; part of the certificate) -/
def WsOK (l : List Tok) : Prop := ∀ t ∈ l, t.tt.isIn T.Whitespace = true → t.val ≠ [] ∧ ∀ c ∈ t.val, isSpace c = true

theorem tokensText_cons (t : Tok) (l : List Tok) : tokensText (t :: l) = t.val ++ tokensText l := by
  simp [tokensText]

theorem tokensText_append (a b : List Tok) : tokensText (a ++ b) = tokensText a ++ tokensText b := by
  simp [tokensText]

theorem textLen_eq (l : List Tok) : textLen l = (tokensText l).length := rfl

theorem cert_wsOK (E : Env) : ∀ (l : List Tok) (ps : Bool) (p : Nat), wsCertFrom E ps p l = true → WsOK l := by
  intro l
  induction l with
  | nil => intro _ _ _ t ht; simp at ht
  | cons x xs ih =>
    intro ps p h t ht hws
    simp only [wsCertFrom] at h
    simp only [List.mem_cons] at ht
    split at h
    · simp only [Bool.and_eq_true, Bool.not_eq_true', List.isEmpty_eq_false_iff, List.all_eq_true] at h
      rcases ht with rfl | ht
      · exact ⟨h.1.1, h.1.2⟩
      · exact ih _ _ h.2 t ht hws
    · rename_i hx
      simp only [Bool.and_eq_true] at h
      rcases ht with rfl | ht
      · rw [hws] at hx; exact absurd rfl hx
      · exact ih _ _ h.2 t ht hws

theorem WsOK.tail {t : Tok} {l : List Tok} (h : WsOK (t :: l)) : WsOK l := fun x hx => h x (by simp [hx])

/-- positions correspond: same character, or two white-space characters -/
theorem respelled_chars : ∀ (l l' : List Tok), RespelledWs l l' → WsOK l →
    (tokensText l').length = (tokensText l).length ∧
    ∀ i : Nat, (tokensText l')[i]? = (tokensText l)[i]? ∨
      ∃ a b, (tokensText l')[i]? = some a ∧ (tokensText l)[i]? = some b ∧ isSpace a = true ∧ isSpace b = true := by
  intro l l' h
  induction h with
  | nil => intro _; exact ⟨rfl, fun i => Or.inl rfl⟩
  | keep t l l' _ _ ih =>
    intro hok
    obtain ⟨hl, hc⟩ := ih hok.tail
    refine ⟨by simp [tokensText_cons, hl], ?_⟩
    intro i
    simp only [tokensText_cons]
    by_cases hi : i < t.val.length
    · left; rw [List.getElem?_append_left hi, List.getElem?_append_left hi]
    · rw [List.getElem?_append_right (by omega), List.getElem?_append_right (by omega)]
      exact hc (i - t.val.length)
  | ws t t' l l' hws hlen hsp _ ih =>
    intro hok
    obtain ⟨hl, hc⟩ := ih hok.tail
    refine ⟨by simp [tokensText_cons, hl, hlen], ?_⟩
    intro i
    simp only [tokensText_cons]
    by_cases hi : i < t.val.length
    · right
      have hi' : i < t'.val.length := by omega
      rw [List.getElem?_append_left hi, List.getElem?_append_left hi']
      refine ⟨t'.val[i], t.val[i], by simp, by simp, hsp _ (by simp), (hok t (by simp) hws).2 _ (by simp)⟩
    · rw [List.getElem?_append_right (by omega), List.getElem?_append_right (by omega), hlen]
      exact hc (i - t.val.length)

/-- the frozen text in front of the next white-space token is the same in both texts, and a white-space character follows in both -/
theorem frozen_split : ∀ (l l' : List Tok), RespelledWs l l' → WsOK l →
    ((frozenRun l).2 = true → ∃ c tl c' tl', tokensText l = (frozenRun l).1 ++ c :: tl ∧ tokensText l' = (frozenRun l).1 ++ c' :: tl' ∧
        isSpace c = true ∧ isSpace c' = true) ∧
    ((frozenRun l).2 = false → tokensText l = (frozenRun l).1 ∧ tokensText l' = (frozenRun l).1) := by
  intro l l' h
  induction h with
  | nil => intro _; simp [frozenRun, tokensText]
  | keep t l l' hws _ ih =>
    intro hok
    obtain ⟨h1, h2⟩ := ih hok.tail
    simp only [frozenRun, hws, Bool.false_eq_true, if_false, tokensText_cons]
    constructor
    · intro hb
      obtain ⟨c, tl, c', tl', e1, e2, s1, s2⟩ := h1 hb
      exact ⟨c, tl, c', tl', by rw [e1, List.append_assoc], by rw [e2, List.append_assoc], s1, s2⟩
    · intro hb
      obtain ⟨e1, e2⟩ := h2 hb
      exact ⟨by rw [e1], by rw [e2]⟩
  | ws t t' l l' hws hlen hsp _ _ =>
    intro hok
    simp only [frozenRun, hws, if_true, tokensText_cons, List.nil_append]
    constructor
    · intro _
      obtain ⟨hne, hall⟩ := hok t (by simp) hws
      cases hv : t.val with
      | nil => exact absurd hv hne
      | cons c tv =>
        cases hv' : t'.val with
        | nil => rw [hv, hv'] at hlen; simp at hlen
        | cons c' tv' =>
          refine ⟨c, tv ++ tokensText l, c', tv' ++ tokensText l', by simp, by simp, ?_, ?_⟩
          · exact hall c (by rw [hv]; simp)
          · exact hsp c' (by rw [hv']; simp)
    · intro h; simp at h

/-- a leading `none` removed -/
def dropNone : List (Option Tok) → List (Option Tok)
  | none :: r => r
  | r => r

theorem wsCanon_ws_cons (t : Tok) (x : List Tok) (h : t.tt.isIn T.Whitespace = true) :
    wsCanon (t :: x) = none :: dropNone (wsCanon x) := by
  simp only [wsCanon, h, if_true]
  cases hx : wsCanon x with
  | nil => rfl
  | cons o r =>
    cases o with
    | none => rfl
    | some y => rfl

theorem wsCanon_ws_run : ∀ (w x : List Tok), w ≠ [] → (∀ t ∈ w, t.tt.isIn T.Whitespace = true) →
    wsCanon (w ++ x) = none :: dropNone (wsCanon x) := by
  intro w
  induction w with
  | nil => intro x h; exact absurd rfl h
  | cons t w ih =>
    intro x _ hall
    simp only [List.cons_append]
    rw [wsCanon_ws_cons t _ (hall t (by simp))]
    cases w with
    | nil => rfl
    | cons t2 w2 =>
      rw [ih x (by simp) (fun y hy => hall y (by simp [hy]))]
      rfl

theorem wsCanon_nonws_cons (t : Tok) (x : List Tok) (h : t.tt.isIn T.Whitespace = false) :
    wsCanon (t :: x) = some t :: wsCanon x := by
  simp [wsCanon, h]

end Sql
