import SqlProofs.WsRespell.GapDef
import SqlProofs.WsRespell.SqueezeText
import SqlProofs.WsInv.WsInvariant
/-!
# SqlProofs.WsRespell.Gap — what the boundary certificate gives (one boundary), and what is conjectured (several boundaries)

`gap_boundary_respell`: if boundary `j` of the lexed list `toks` is certified, then EVERY text that spells one of the two variants (no white
space / some white space at boundary `j`, every other boundary as in `toks`) with arbitrary white-space strings for the runs lexes to the
significant tokens of `toks`, types and values.  The proof composes the certificate (the variant lexes to the right significant tokens and
is `wsRespellableAny`) with `ws_respell_any_text`.

Changing SEVERAL boundaries at once is not covered by a theorem: `GapConjecture`.  The missing argument is the independence of the
certificates — a zero-width cell in the squeezed form makes two positions of the squeezed text share one position of the expansion
(before and behind the gap), with different neighbours, so `corr_derivs` needs a second kind of doomed state on the squeezed side and a
condition on every class consulted at the gap (`S.mem b₀ = S.mem blank`); this is a development of the size of `Squeeze*.lean`.
-/
namespace Sql

theorem sigToks_of_wsEquiv {a b : List Tok} (h : WsEquiv a b) : gapSigToks a = gapSigToks b := WsEquiv.skelToks h

/-- **one certified boundary**: every spelling of either variant lexes to the significant tokens of `toks` -/
theorem gap_boundary_respell (toks : List Tok) (j : Nat) (withWs : Bool) (hg : gapFree toks j = true) (s' : Array Cp) :
    ∀ tsV, lex defaultCfg (tokensText (gapVariant toks j withWs)).toArray = .ok tsV → WsTextRelAny tsV s'.toList →
      ∃ ts', lex defaultCfg s' = .ok ts' ∧ gapSigToks ts' = gapSigToks toks := by
  intro tsV hl hrel
  have hv : gapVariantOK toks j withWs = true := by
    simp only [gapFree, Bool.and_eq_true] at hg
    cases withWs with
    | true => exact hg.2
    | false => exact hg.1
  simp only [gapVariantOK, hl, Bool.and_eq_true, decide_eq_true_eq] at hv
  obtain ⟨ts', h1, h2⟩ := ws_respell_any_text _ s' tsV hl hv.2 hrel
  exact ⟨ts', h1, by rw [sigToks_of_wsEquiv h2, hv.1]⟩

/-- a certified boundary: both variants lex, to the significant tokens of `toks` -/
theorem gap_variants_lex (toks : List Tok) (j : Nat) (hg : gapFree toks j = true) (withWs : Bool) :
    ∃ tsV, lex defaultCfg (tokensText (gapVariant toks j withWs)).toArray = .ok tsV ∧ gapSigToks tsV = gapSigToks toks ∧
      wsRespellableAny tsV = true := by
  have hv : gapVariantOK toks j withWs = true := by
    simp only [gapFree, Bool.and_eq_true] at hg
    cases withWs with
    | true => exact hg.2
    | false => exact hg.1
  simp only [gapVariantOK] at hv
  cases hl : lex defaultCfg (tokensText (gapVariant toks j withWs)).toArray with
  | error e => rw [hl] at hv; simp at hv
  | ok tsV =>
    rw [hl] at hv
    simp only [Bool.and_eq_true, decide_eq_true_eq] at hv
    exact ⟨tsV, rfl, hv.1, hv.2⟩

/-- `toks'` has the significant tokens of `toks` in the same order; white-space tokens were added or removed only at certified boundaries
(`k` = number of significant tokens passed so far); elsewhere a run stays a run (of any spelling) and no run appears -/
inductive GapRel (cert : Nat → Bool) : Nat → Bool → List Tok → List Tok → Prop
  | nil (k : Nat) (b : Bool) : GapRel cert k b [] []
  | sig (k : Nat) (b : Bool) (t : Tok) (l l' : List Tok) : t.tt.isIn T.Whitespace = false → GapRel cert (k + 1) false l l' →
      GapRel cert k b (t :: l) (t :: l')
  | wsBoth (k : Nat) (b : Bool) (t t' : Tok) (l l' : List Tok) : t.tt.isIn T.Whitespace = true → t'.tt.isIn T.Whitespace = true →
      GapRel cert k true l l' → GapRel cert k b (t :: l) (t' :: l')
  | wsDrop (k : Nat) (b : Bool) (t : Tok) (l l' : List Tok) : t.tt.isIn T.Whitespace = true → (0 < k ∧ cert (k - 1) = true ∨ b = true) →
      GapRel cert k b l l' → GapRel cert k b (t :: l) l'
  | wsAdd (k : Nat) (b : Bool) (t' : Tok) (l l' : List Tok) : t'.tt.isIn T.Whitespace = true → t'.val ≠ [] → (∀ c ∈ t'.val, isSpace c = true) →
      (0 < k ∧ cert (k - 1) = true ∨ b = true) → GapRel cert k b l l' → GapRel cert k b l (t' :: l')

/-- **NOT proved** — white space added/removed at any number of certified boundaries at once (and re-spelled anywhere): validated on the
real lexer (see the report), missing: independence of the boundary certificates -/
def GapConjecture : Prop :=
  ∀ (s : Array Cp) (toks toks' : List Tok), lex defaultCfg s = .ok toks → wsRespellableAny toks = true →
    GapRel (gapFree toks) 0 false toks toks' → (∀ t ∈ toks', t.tt.isIn T.Whitespace = true → t.val ≠ [] ∧ ∀ c ∈ t.val, isSpace c = true) →
    ∃ ts', lex defaultCfg (tokensText toks').toArray = .ok ts' ∧ gapSigToks ts' = gapSigToks toks

end Sql
