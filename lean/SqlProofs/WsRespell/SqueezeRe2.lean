import SqlProofs.WsRespell.SqueezeLoop
/-!
# SqlProofs.WsRespell.SqueezeRe2 — `corr_derivs`: an expression of the run class has corresponding derivations on every expansion
-/
namespace Sql

section
variable {EX EC : Env} {φ : Nat → Nat} {isRun : Nat → Bool}

theorem Corr.flatMap_false {b : Bool} {L L' : List St} (f g : St → List St) (h : Corr EC φ isRun false L L')
    (himg : ∀ x y, x ∈ L → y ∈ L' → x.pos = φ y.pos → y.pos ≤ EC.s.size → Corr EC φ isRun b (f x) (g y)) :
    Corr EC φ isRun b (L.flatMap f) (L'.flatMap g) := by
  generalize ha : false = a at h
  induction h with
  | nil a => exact .nil b
  | doomed d L L' hd _ _ => exact absurd ha (by simp)
  | img a x y L L' e1 e2 _ ih =>
    simp only [List.flatMap_cons]
    exact (himg x y (by simp) (by simp) e1 e2).append
      (ih (fun x' y' hx hy => himg x' y' (by simp [hx]) (by simp [hy])) ha)

theorem Corr.mem_img {a : Bool} {L L' : List St} (h : Corr EC φ isRun a L L') : ∀ y ∈ L', y.pos ≤ EC.s.size := by
  induction h with
  | nil a => intro y hy; simp at hy
  | doomed d L L' _ _ ih => exact ih
  | img a x y L L' _ e2 _ ih =>
    intro z hz
    simp only [List.mem_cons] at hz
    rcases hz with rfl | hz
    · exact e2
    · exact ih z hz

theorem repAux_succ (step : St → List St) (g : Bool) (f lo : Nat) (hi : Option Nat) (st : St) :
    repAux step g (f + 1) lo hi st =
      if hi = some 0 then (if lo = 0 then [st] else []) else
      (if g then
        ((step st).filter (fun st' => st.pos < st'.pos)).flatMap (fun st' => repAux step g f (lo - 1) (hi.map (· - 1)) st') ++ (if lo = 0 then [st] else [])
       else
        (if lo = 0 then [st] else []) ++ ((step st).filter (fun st' => st.pos < st'.pos)).flatMap (fun st' => repAux step g f (lo - 1) (hi.map (· - 1)) st')) := by
  simp [repAux]

/-- a repetition whose body never ends inside a run -/
theorem rep_corr_false (H : Expand EX EC φ isRun) (stepX stepC : St → List St)
    (hstep : ∀ x y, x.pos = φ y.pos → y.pos ≤ EC.s.size → Corr EC φ isRun false (stepX x) (stepC y)) (g : Bool) :
    ∀ (μ : Nat) (x y : St) (lo : Nat) (hi : Option Nat) (fX fC : Nat), EC.s.size - y.pos = μ → x.pos = φ y.pos → y.pos ≤ EC.s.size →
      EX.s.size < x.pos + fX → EC.s.size < y.pos + fC →
      Corr EC φ isRun false (repAux stepX g fX lo hi x) (repAux stepC g fC lo hi y) := by
  intro μ
  induction μ using Nat.strongRecOn with
  | _ μ ih =>
    intro x y lo hi fX fC hμ hxy hy hfX hfC
    have hxle : x.pos ≤ EX.s.size := by rw [hxy]; exact H.le_size y.pos hy
    cases fX with
    | zero => omega
    | succ fx =>
      cases fC with
      | zero => omega
      | succ fc =>
        have hstop : Corr EC φ isRun false (if lo = 0 then [x] else []) (if lo = 0 then [y] else []) := by
          split
          · exact .img false x y [] [] hxy hy (.nil false)
          · exact .nil false
        rw [repAux_succ, repAux_succ]
        split
        · exact hstop
        · have hfil := (hstep x y hxy hy).filter (fun st' => decide (x.pos < st'.pos)) (fun st' => decide (y.pos < st'.pos))
            (by intro x' y' e1 e2
                have := H.lt_iff y.pos y'.pos hy e2
                simp only [decide_eq_decide]
                rw [hxy, e1]; exact this)
          have hmore := Corr.flatMap_false (b := false)
            (fun st' => repAux stepX g fx (lo - 1) (hi.map (· - 1)) st') (fun st' => repAux stepC g fc (lo - 1) (hi.map (· - 1)) st') hfil
            (by intro x' y' hx' hy' e1 e2
                have hp : y.pos < y'.pos := by
                  have := (List.mem_filter.mp hy').2
                  simpa using this
                have hpx : x.pos < x'.pos := by
                  have := (List.mem_filter.mp hx').2
                  simpa using this
                exact ih (EC.s.size - y'.pos) (by omega) x' y' _ _ fx fc rfl e1 e2 (by omega) (by omega))
          cases g with
          | true => simp only [if_true]; exact hmore.append hstop
          | false => simp only [Bool.false_eq_true, if_false]; exact hstop.append hmore

/-- an optional group (`hi = some 1`) whose body may end inside a run -/
theorem rep_corr_opt (stepX stepC : St → List St) (a : Bool) (g : Bool) (lo : Nat) (x y : St) (hxy : x.pos = φ y.pos) (hy : y.pos ≤ EC.s.size)
    (hstep : Corr EC φ isRun a (stepX x) (stepC y)) (hlt : ∀ x' y' : St, x'.pos = φ y'.pos → y'.pos ≤ EC.s.size → (x.pos < x'.pos ↔ y.pos < y'.pos))
    (fX fC : Nat) (hfX : 0 < fX) (hfC : 0 < fC) :
    Corr EC φ isRun a (repAux stepX g fX lo (some 1) x) (repAux stepC g fC lo (some 1) y) := by
  cases fX with
  | zero => omega
  | succ fx =>
    cases fC with
    | zero => omega
    | succ fc =>
      have hstop : Corr EC φ isRun a (if lo = 0 then [x] else []) (if lo = 0 then [y] else []) := by
        split
        · exact .img a x y [] [] hxy hy (.nil a)
        · exact .nil a
      rw [repAux_succ, repAux_succ]
      simp only [Option.some.injEq, Nat.succ_ne_zero, if_false, Option.map_some, Nat.sub_self, repAux_hiZero_sq]
      have hfil := hstep.filter (fun st' => decide (x.pos < st'.pos)) (fun st' => decide (y.pos < st'.pos))
        (by intro x' y' e1 e2; simp only [decide_eq_decide]; exact hlt x' y' e1 e2)
      have hmore : Corr EC φ isRun a
          (((stepX x).filter (fun st' => decide (x.pos < st'.pos))).flatMap (fun st' => if lo - 1 = 0 then [st'] else []))
          (((stepC y).filter (fun st' => decide (y.pos < st'.pos))).flatMap (fun st' => if lo - 1 = 0 then [st'] else [])) := by
        by_cases hl : lo - 1 = 0
        · simp only [hl, if_true]
          have e : ∀ l : List St, l.flatMap (fun st' => [st']) = l := by
            intro l; induction l with
            | nil => rfl
            | cons a t ih => simp only [List.flatMap_cons, ih]; rfl
          rw [e, e]; exact hfil
        · simp only [hl, if_false]
          have e : ∀ l : List St, l.flatMap (fun _ => ([] : List St)) = [] := by
            intro l; induction l with
            | nil => rfl
            | cons a t ih => simp only [List.flatMap_cons, ih]; rfl
          rw [e, e]; exact .nil a
      cases g with
      | true => simp only [if_true]; exact hmore.append hstop
      | false => simp only [Bool.false_eq_true, if_false]; exact hstop.append hmore

end
end Sql
