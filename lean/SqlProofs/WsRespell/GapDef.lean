import SqlProofs.WsRespell.SqueezeDef
import SqlModel.Grouping.Skel
/-!
# SqlProofs.WsRespell.GapDef — per-boundary certificate for ADDING or REMOVING white space between two significant tokens

A *boundary* is the place between two consecutive tokens that are not of a Whitespace type (numbered from 0 in the list of significant
tokens), whether or not white space stands there now.  `gapFree toks j`: take the squeezed token list, put **no** white space at boundary `j`
(variant 0) and **one blank** (variant 1), leave every other boundary as it is; both variant texts must lex to the significant tokens of
`toks` (types and values), and both variant token lists must satisfy `wsRespellableAny` (so that every re-spelling of their runs is covered
by `ws_respell_any_lex`).  This is a decidable statement about ONE changed boundary; that the certificates of different boundaries are
independent is `GapConjecture` (Gap.lean) — validated, not proved.
-/
namespace Sql

def gapSigToks (toks : List Tok) : List Tok := skelToks toks

/-- the squeezed list with boundary `j` forced to hold a blank (`withWs`) or nothing; `k` counts the significant tokens seen so far,
`pend` says that the current gap (after significant token `k-1`) already emitted its white space -/
def gapVariantGo (j : Nat) (withWs : Bool) : Nat → List Tok → List Tok
  | _, [] => []
  | k, t :: rest =>
    if t.tt.isIn T.Whitespace then
      -- the run behind significant token k-1 (boundary k-1), or leading white space (k = 0)
      (if k = j + 1 then (if withWs then [t] else []) else [t]) ++ gapVariantGo j withWs k rest
    else
      -- a significant token; if boundary j is right in front of it and no white-space token stood there, add the blank
      t :: (match rest with
            | [] => []
            | n :: _ =>
              (if k = j ∧ withWs ∧ n.tt.isIn T.Whitespace = false then [⟨T.Whitespace, [32]⟩] else []) ++ gapVariantGo j withWs (k + 1) rest)

/-- variant of the squeezed token list at boundary `j` -/
def gapVariant (toks : List Tok) (j : Nat) (withWs : Bool) : List Tok := gapVariantGo j withWs 0 (squeezeToks toks)

def gapVariantOK (toks : List Tok) (j : Nat) (withWs : Bool) : Bool :=
  match lex defaultCfg (tokensText (gapVariant toks j withWs)).toArray with
  | .ok ts => decide (gapSigToks ts = gapSigToks toks) && wsRespellableAny ts
  | .error _ => false

/-- **the certificate of boundary `j`** -/
def gapFree (toks : List Tok) (j : Nat) : Bool := gapVariantOK toks j false && gapVariantOK toks j true

def gapBits (toks : List Tok) : List Bool :=
  (List.range ((gapSigToks toks).length - 1)).map (gapFree toks)

end Sql
