import SqlProofs.WsRespell.Lists2
import SqlProofs.LexShift
/-!
# SqlProofs.WsRespell.Step — at a certified token both scan chains emit the same token
-/
namespace Sql

theorem take_of_append_len {α : Type} (a b : List α) (n : Nat) (h : a.length = n) : (a ++ b).take n = a := by
  subst h; simp

theorem nonws_step (s s' : Array Cp) (H : WsRel (defaultCfg.env s') (defaultCfg.env s)) (t : Tok) (r r' : List Tok) (p : Nat) (ps : Bool)
    (hws : t.tt.isIn T.Whitespace = false) (hR' : RespelledWs r r') (hok : WsOK (t :: r))
    (h1 : s.toList.drop p = tokensText (t :: r)) (h2 : s'.toList.drop p = tokensText (t :: r'))
    (htc : tokCert (defaultCfg.env s) ps p t r = true)
    (hprev : ps = true → ∃ d d', s[p - 1]? = some d ∧ s'[p - 1]? = some d' ∧ isSpace d = true ∧ isSpace d' = true)
    (hscan : Scan defaultCfg (defaultCfg.env s) p (t :: r)) (ts' : List Tok) (hscan' : Scan defaultCfg (defaultCfg.env s') p ts') :
    ∃ tsP, ts' = t :: tsP ∧ Scan defaultCfg (defaultCfg.env s') (p + t.val.length) tsP ∧
      Scan defaultCfg (defaultCfg.env s) (p + t.val.length) r := by
  simp only [tokCert] at htc
  cases hv : t.val with
  | nil => rw [hv] at htc; simp at htc
  | cons c0 tv =>
    rw [hv] at htc
    simp only [Bool.and_eq_true, Bool.not_eq_true'] at htc
    obtain ⟨hc0, hwin⟩ := htc
    cases hW : tokWindow (t :: r) with
    | none => rw [hW] at hwin; simp at hwin
    | some we =>
      obtain ⟨w, excl⟩ := we
      rw [hW] at hwin
      simp only at hwin
      obtain ⟨c, tl, c', tl', e1, e2, x1, x2⟩ := window_texts (t :: r) (t :: r') (.keep t r r' hws hR') hok w excl hW
      have hd1 : (defaultCfg.env s).s.toList.drop p = c0 :: (tv ++ tokensText r) := by
        show s.toList.drop p = _
        rw [h1, tokensText_cons, hv]; rfl
      have hd2 : (defaultCfg.env s').s.toList.drop p = c0 :: (tv ++ tokensText r') := by
        show s'.toList.drop p = _
        rw [h2, tokensText_cons, hv]; rfl
      have hp0 := get_of_drop_cons _ p c0 _ hd1
      have hp0' := get_of_drop_cons _ p c0 _ hd2
      have HS : WSound (wsK w excl ps) (defaultCfg.env s) p c :=
        wsK_sound _ rfl p w c tl excl ps (by show s.toList.drop p = _; rw [h1, e1]) x1
          (fun h => by obtain ⟨d, d', a1, _, a3, _⟩ := hprev h; exact ⟨d, a1, a3⟩)
      have HS' : WSound (wsK w excl ps) (defaultCfg.env s') p c' :=
        wsK_sound _ rfl p w c' tl' excl ps (by show s'.toList.drop p = _; rw [h2, e2]) x2
          (fun h => by obtain ⟨d, d', _, a2, _, a4⟩ := hprev h; exact ⟨d', a2, a4⟩)
      have hfm := firstMatch_ws H (wsK w excl ps) c0 p
        (fun r hr => ⟨kill_sound _ _ p c0 c hp0 HS r hr, kill_sound _ _ p c0 c' hp0' HS' r hr⟩) defaultCfg.rules hwin
      have hlt' : p < (defaultCfg.env s').s.size := (Array.getElem?_eq_some_iff.mp hp0').1
      cases hscan with
      | err _ cE _ hcE hfmE hsE =>
        rw [hp0] at hcE
        injection hcE with hcE
        subst hcE
        cases hscan' with
        | done _ hp => omega
        | tok _ actP eP tsP _ _ hfmP _ _ => rw [hfm, hfmE] at hfmP; simp at hfmP
        | err _ cP tsP hcP _ hsP =>
          rw [hp0'] at hcP
          injection hcP with hcP
          subst hcP
          have htv : tv = [] := by
            have : [c0] = c0 :: tv := hv
            injection this with _ h; exact h.symm
          subst htv
          exact ⟨tsP, rfl, hsP, hsE⟩
      | tok _ act e _ hpe hes hfmE hact hsE =>
        cases hscan' with
        | done _ hp => omega
        | err _ cP tsP _ hfmP _ => rw [hfm, hfmE] at hfmP; simp at hfmP
        | tok _ actP eP tsP hpeP hesP hfmP hactP hsP =>
          rw [hfm, hfmE] at hfmP
          simp only [Option.some.injEq, Prod.mk.injEq] at hfmP
          obtain ⟨rfl, rfl⟩ := hfmP
          have hlenE := extract_length (defaultCfg.env s) p e (by omega) hes
          have hvalE : ((defaultCfg.env s).s.extract p e).toList.length = e - p := hlenE
          have hext : ((defaultCfg.env s').s.extract p e).toList = ((defaultCfg.env s).s.extract p e).toList := by
            rw [extract_toList (defaultCfg.env s').s p e]
            show (s'.toList.drop p).take (e - p) = _
            rw [h2, tokensText_cons]
            exact take_of_append_len _ _ _ hvalE
          have hv' : ((defaultCfg.env s).s.extract p e).toList = c0 :: tv := hv
          have he : p + (c0 :: tv).length = e := by rw [← hv', hvalE]; omega
          refine ⟨tsP, ?_, ?_, ?_⟩
          · rw [hext]
          · rw [he]; exact hsP
          · rw [he]; exact hsE

end Sql
