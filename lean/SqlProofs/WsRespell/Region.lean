import SqlProofs.WsRespell.Kill
/-!
# SqlProofs.WsRespell.Region — over a stretch of white-space characters the scan loop emits white-space tokens and stops exactly at its end
-/
namespace Sql

/-- the expression can only consume `\s` characters -/
def onlySp : Re → Bool
  | .eps | .wordB | .atEnd => true
  | .set S => S.subsetOf Gen.spaceSet
  | .cat a b | .alt a b => onlySp a && onlySp b
  | .rep _ _ _ r | .grp _ r => onlySp r
  | .look .. => true
  | .bref _ => false

/-- all positions in `[a, b)` hold white-space characters -/
def SpBetween (E : Env) (a b : Nat) : Prop := ∀ i, a ≤ i → i < b → ∃ c, E.s[i]? = some c ∧ isSpace c = true

def SpStep (E : Env) (a b : St) : Prop := a.pos ≤ b.pos ∧ SpBetween E a.pos b.pos

theorem SpStep.refl (E : Env) (a : St) : SpStep E a a := ⟨Nat.le_refl _, fun i h1 h2 => by omega⟩

theorem SpStep.trans {E : Env} {a b c : St} (h1 : SpStep E a b) (h2 : SpStep E b c) : SpStep E a c := by
  refine ⟨Nat.le_trans h1.1 h2.1, ?_⟩
  intro i hi1 hi2
  by_cases h : i < b.pos
  · exact h1.2 i hi1 h
  · exact h2.2 i (by omega) hi2

theorem repAux_closure (E : Env) (step : St → List St) (g : Bool) (hstep : ∀ a b, b ∈ step a → SpStep E a b) :
    ∀ (fuel lo : Nat) (hi : Option Nat) (st st' : St), st' ∈ repAux step g fuel lo hi st → SpStep E st st' := by
  intro fuel
  induction fuel with
  | zero =>
    intro lo hi st st' h
    simp only [repAux] at h
    split at h
    · simp only [List.mem_singleton] at h; subst h; exact SpStep.refl E _
    · simp at h
  | succ fuel ih =>
    intro lo hi st st' h
    simp only [repAux] at h
    have hstop : ∀ x, x ∈ (if lo = 0 then [st] else []) → SpStep E st x := by
      intro x hx
      split at hx
      · simp only [List.mem_singleton] at hx; subst hx; exact SpStep.refl E _
      · simp at hx
    split at h
    · exact hstop st' h
    · have hmore : ∀ x, x ∈ ((step st).filter (fun st' => st.pos < st'.pos)).flatMap
          (fun st' => repAux step g fuel (lo - 1) (hi.map (· - 1)) st') → SpStep E st x := by
        intro x hx
        simp only [List.mem_flatMap, List.mem_filter] at hx
        obtain ⟨m, ⟨hm, _⟩, hx⟩ := hx
        exact (hstep st m hm).trans (ih _ _ m x hx)
      split at h
      · simp only [List.mem_append] at h
        rcases h with h | h
        · exact hmore st' h
        · exact hstop st' h
      · simp only [List.mem_append] at h
        rcases h with h | h
        · exact hstop st' h
        · exact hmore st' h

theorem onlySp_sound (E : Env) : ∀ r : Re, onlySp r = true → ∀ st st', st' ∈ derivs E r st → SpStep E st st' := by
  intro r
  induction r with
  | eps =>
    intro _ st st' h
    simp only [derivs, List.mem_singleton] at h; subst h; exact SpStep.refl E _
  | set S =>
    intro hr st st' h
    simp only [onlySp] at hr
    simp only [derivs] at h
    cases hc : E.s[st.pos]? with
    | none => rw [hc] at h; simp at h
    | some c =>
      rw [hc] at h
      simp only at h
      split at h
      · rename_i hm
        simp only [List.mem_singleton] at h; subst h
        refine ⟨by simp, ?_⟩
        intro i h1 h2
        simp only at h2
        have hi : i = st.pos := by omega
        subst hi
        refine ⟨c, hc, ?_⟩
        cases hsp : Gen.spaceSet.mem c with
        | true => exact hsp
        | false => rw [CpSet.subsetOf_sound S Gen.spaceSet hr c hsp] at hm; exact absurd hm (by simp)
      · simp at h
  | cat a b iha ihb =>
    intro hr st st' h
    simp only [onlySp, Bool.and_eq_true] at hr
    simp only [derivs, List.mem_flatMap] at h
    obtain ⟨m, hm, h⟩ := h
    exact (iha hr.1 st m hm).trans (ihb hr.2 m st' h)
  | alt a b iha ihb =>
    intro hr st st' h
    simp only [onlySp, Bool.and_eq_true] at hr
    simp only [derivs, List.mem_append] at h
    rcases h with h | h
    · exact iha hr.1 st st' h
    · exact ihb hr.2 st st' h
  | rep lo hi g r ih =>
    intro hr st st' h
    simp only [onlySp] at hr
    simp only [derivs] at h
    exact repAux_closure E (derivs E r) g (fun a b hb => ih hr a b hb) _ _ _ _ _ h
  | grp n r ih =>
    intro hr st st' h
    simp only [onlySp] at hr
    simp only [derivs, List.mem_map] at h
    obtain ⟨m, hm, rfl⟩ := h
    exact ih hr st m hm
  | bref n => intro hr; simp [onlySp] at hr
  | look ahead neg w r _ =>
    intro _ st st' h
    have : st' = st := by
      unfold derivs at h
      simp only at h
      generalize (if ahead = true then !(derivs E r st).isEmpty
        else if st.pos < w then false
        else (derivs E r { st with pos := st.pos - w }).any (fun st' => st'.pos == st.pos)) = ok at h
      split at h
      · simpa using h
      · simp at h
    subst this; exact SpStep.refl E _
  | atEnd =>
    intro _ st st' h
    simp only [derivs] at h
    split at h
    · simp only [List.mem_singleton] at h; subst h; exact SpStep.refl E _
    · simp at h
  | wordB =>
    intro _ st st' h
    simp only [derivs] at h
    split at h
    · simp only [List.mem_singleton] at h; subst h; exact SpStep.refl E _
    · simp at h

/-- table obligation: every rule that yields a token of a Whitespace type can only consume `\s` characters -/
theorem ws_rules_onlySp : (defaultCfg.rules.all fun x => !wsAct x.act || onlySp x.re) = true := by decide +kernel

theorem firstMatch_mem (E : Env) : ∀ (rules : List Rule) (p : Nat) (act : Action) (e : Nat), firstMatch E rules p = some (act, e) →
    ∃ r ∈ rules, r.act = act ∧ ∃ st ∈ derivs E r.re ⟨p, []⟩, st.pos = e := by
  intro rules
  induction rules with
  | nil => intro p act e h; simp [firstMatch] at h
  | cons r rs ih =>
    intro p act e h
    simp only [firstMatch, matchAt] at h
    cases hd : derivs E r.re ⟨p, []⟩ with
    | nil =>
      rw [hd] at h
      simp only [List.head?_nil] at h
      obtain ⟨x, hx, h1, h2⟩ := ih p act e h
      exact ⟨x, by simp [hx], h1, h2⟩
    | cons st more =>
      rw [hd] at h
      simp only [List.head?_cons, Option.some.injEq, Prod.mk.injEq] at h
      exact ⟨r, by simp, h.1, st, by rw [hd]; simp, h.2⟩

/-- **over a stretch `[a, q)` of white-space characters that ends at the end of the text or in front of another character, the scan chain
consists of Whitespace-typed tokens up to exactly `q`** -/
theorem scan_space_region (s : Array Cp) (q : Nat) (hq : q ≤ s.size)
    (hend : ∀ c, (defaultCfg.env s).s[q]? = some c → isSpace c = false) :
    ∀ (n a : Nat), q - a = n → a ≤ q → SpBetween (defaultCfg.env s) a q → ∀ ts, Scan defaultCfg (defaultCfg.env s) a ts →
      ∃ w rest, ts = w ++ rest ∧ (∀ x ∈ w, x.tt.isIn T.Whitespace = true) ∧ (a < q → w ≠ []) ∧
        Scan defaultCfg (defaultCfg.env s) q rest := by
  intro n
  induction n using Nat.strongRecOn with
  | _ n ih =>
    intro a hn haq hsp ts hscan
    by_cases hlt : a < q
    · obtain ⟨c, hc, hcs⟩ := hsp a (Nat.le_refl _) hlt
      obtain ⟨tt, e', hfm, htt⟩ := firstMatch_at_space s a c hc hcs
      cases hscan with
      | done _ hp => have : (defaultCfg.env s).s.size = s.size := rfl; omega
      | err _ c' ts' hc' hfm' _ => rw [hfm] at hfm'; simp at hfm'
      | tok _ act e ts' hae hes hfm' hact hs' =>
        rw [hfm] at hfm'
        simp only [Option.some.injEq, Prod.mk.injEq] at hfm'
        obtain ⟨rfl, rfl⟩ := hfm'
        obtain ⟨r, hr, hract, st, hst, hpos⟩ := firstMatch_mem _ _ _ _ _ hfm
        have hall := ws_rules_onlySp
        simp only [List.all_eq_true, Bool.or_eq_true, Bool.not_eq_true'] at hall
        have honly : onlySp r.re = true := by
          rcases hall r hr with h | h
          · rw [hract] at h; simp [wsAct, htt] at h
          · exact h
        have hstep := onlySp_sound _ r.re honly _ _ hst
        have heq : e' ≤ q := by
          cases Nat.lt_or_ge q e' with
          | inr h => exact h
          | inl h =>
            obtain ⟨d, hd, hds⟩ := hstep.2 q haq (by rw [hpos]; exact h)
            rw [hend d hd] at hds; exact absurd hds (by simp)
        have hsp' : SpBetween (defaultCfg.env s) e' q := fun i h1 h2 => hsp i (by omega) h2
        obtain ⟨w, rest, hts, hw, _, hrest⟩ := ih (q - e') (by omega) e' rfl heq hsp' ts' hs'
        refine ⟨_ :: w, rest, by rw [hts]; rfl, ?_, fun _ => by simp, hrest⟩
        intro x hx
        simp only [List.mem_cons] at hx
        rcases hx with rfl | hx
        · simpa [tokType] using htt
        · exact hw x hx
    · have : a = q := by omega
      subst this
      exact ⟨[], ts, rfl, by simp, fun h => absurd h hlt, hscan⟩

end Sql
