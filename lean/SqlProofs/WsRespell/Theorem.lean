import SqlProofs.WsRespell.Main
import SqlProofs.LexCase
/-!
# SqlProofs.WsRespell.Theorem — `ws_respell_lex`, and its composition with keyword re-casing (`respell_lex`)
-/
namespace Sql

theorem word_no_space : spaceNone defaultCfg.word = true := by decide +kernel

/-- the input is the text of its tokens -/
theorem lex_text (s : Array Cp) (toks : List Tok) (hl : lex defaultCfg s = .ok toks) : s.toList = tokensText toks := by
  obtain ⟨ts0, h0, hflat, _⟩ := lex_ok defaultCfg defaultRulesOK (by decide +kernel) s
  rw [hl] at h0; injection h0 with h0; subst h0
  exact hflat.symm

/-- **the lexical step of C11, white-space part** (character-for-character re-spelling of the white-space tokens):
if `toks` is the lexer's output, `wsRespellable toks` holds and `toks'` replaces the value of every Whitespace-typed token by white-space
characters of the same number, then the text of `toks'` lexes, to a list with the same non-whitespace tokens in the same order and white
space in the same gaps (`WsEquiv`) -/
theorem ws_respell_lex (s : Array Cp) (toks toks' : List Tok) (hl : lex defaultCfg s = .ok toks)
    (hd : wsRespellable toks = true) (hR : RespelledWs toks toks') :
    ∃ ts', lex defaultCfg (tokensText toks').toArray = .ok ts' ∧ WsEquiv ts' toks := by
  have htext := lex_text s toks hl
  have hs : (tokensText toks).toArray = s := by rw [← htext]
  simp only [wsRespellable, hs] at hd
  have hok := cert_wsOK _ toks false 0 hd
  obtain ⟨hlen, hchar⟩ := respelled_chars toks toks' hR hok
  have H : WsRel (defaultCfg.env (tokensText toks').toArray) (defaultCfg.env s) := by
    refine ⟨?_, ?_, rfl, word_no_space⟩
    · show (tokensText toks').toArray.size = s.size
      have : s.size = (tokensText toks).length := by rw [← htext]; simp
      rw [this]; simpa using hlen
    · intro i
      show (tokensText toks').toArray[i]? = s[i]? ∨ ∃ a b, (tokensText toks').toArray[i]? = some a ∧ s[i]? = some b ∧ _
      have e1 : (tokensText toks').toArray[i]? = (tokensText toks')[i]? := by simp
      have e2 : s[i]? = (tokensText toks)[i]? := by rw [← htext]; simp
      rw [e1, e2]
      exact hchar i
  obtain ⟨ts', hl', hscan'⟩ := lex_scan defaultCfg defaultRulesOK (tokensText toks').toArray
  refine ⟨ts', hl', ?_⟩
  exact respell_scan s (tokensText toks').toArray H toks.length toks toks' 0 false rfl hR (by simpa using htext) (by simp) hd
    (by intro h; exact absurd h (by simp)) (lex_default_scan s toks hl) ts' hscan'

/-- **re-spelled text ⇒ equivalent tokens** (keyword/identifier letter case and white-space characters together):
`toksC` is the lexer's output with the letter case of any tokens changed (ASCII), `toks'` replaces its white-space tokens character for
character; if `wsRespellable toksC`, the text of `toks'` lexes to a list `WsEquiv` to `toksC`, and `toksC` itself is `CaseRel` to the
original tokens (same types, values equal up to ASCII case): what `respell_group_case` and `whitespace_count_invariant` consume -/
theorem respell_lex (s : Array Cp) (toks toksC toks' : List Tok) (hl : lex defaultCfg s = .ok toks) (hc : CaseRel toksC toks)
    (hd : wsRespellable toksC = true) (hR : RespelledWs toksC toks') :
    ∃ ts', lex defaultCfg (tokensText toks').toArray = .ok ts' ∧ WsEquiv ts' toksC :=
  ws_respell_lex _ toksC toks' (relex_case_mapped s toks toksC hl hc) hd hR

/-- the hypothesis is not vacuous: a small query is respellable, a comment is not -/
theorem wsRespellable_examples :
    (match lex defaultCfg (txt "select a, t.b from t where x = 1 order by a").toArray with
     | .ok ts => wsRespellable ts | .error _ => false) = true ∧
    (match lex defaultCfg (txt "select 1 -- c\n").toArray with
     | .ok ts => wsRespellable ts | .error _ => true) = false := by
  constructor <;> decide +kernel

/-! ## what is NOT proved: re-spelling that changes the LENGTH of a white-space run -/

/-- `toks'` is `toks` with the value of every Whitespace-typed token replaced by ANY non-empty string of white-space characters -/
inductive RespelledWsAny : List Tok → List Tok → Prop
  | nil : RespelledWsAny [] []
  | keep (t : Tok) (l l' : List Tok) : t.tt.isIn T.Whitespace = false → RespelledWsAny l l' → RespelledWsAny (t :: l) (t :: l')
  | ws (t t' : Tok) (l l' : List Tok) : t.tt.isIn T.Whitespace = true → t'.val ≠ [] →
      (∀ c ∈ t'.val, isSpace c = true) → RespelledWsAny l l' → RespelledWsAny (t :: l) (t' :: l')

/-- The length-changing statement (`a  b` vs `a b`).  **A conjecture, not a theorem**: validated on the real lexer (4 385 in-domain texts x 8
random re-spellings of every run, lengths 1..3, all `\s` characters: no counterexample) but not proved.  What is missing is a *stuttering*
argument for the white-space safe rules that read through a run (`NOT\s+NULL`, `(?=\s*\.)`, an unterminated quote …): on runs of different
length their derivation lists differ in length, only the first derivation corresponds.  `ws_respell_lex` covers every re-spelling that keeps
the number of white-space characters (blank ↔ tab ↔ any line break, `\r\n` ↔ two other characters). -/
def WsRespellLexAnyConjecture : Prop :=
  ∀ (s : Array Cp) (toks toks' : List Tok), lex defaultCfg s = .ok toks → wsRespellable toks = true → RespelledWsAny toks toks' →
    ∃ ts', lex defaultCfg (tokensText toks').toArray = .ok ts' ∧ WsEquiv ts' toks

end Sql
