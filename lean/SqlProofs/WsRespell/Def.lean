import SqlProofs.Lex.Window
import SqlProofs.LexScan
/-!
# SqlProofs.WsRespell.Def — `wsRespellable`: the decidable hypothesis of the lexical step of C11

A lexed token list is *white-space respellable* when, for every token that is not of a Whitespace type, the scan step that produced it
can be shown not to depend on WHICH white-space characters stand in the white-space tokens around it:

* every rule tried at the token's start before (and including) the matching one is either **white-space safe** — each of its character
  classes contains all `\s` characters or none, and it has no back-reference and no `$` (`wsSafeRe`) — so that it makes exactly the same
  decisions on two texts that differ only in which white-space character stands where (`derivs_ws`);
* or it is **killed**: it has no derivation at this position whatever white-space characters are used, because the first character of the
  token rules it out (`start … = dead`) or because the window analysis `aover` on the frozen text up to the next white-space token returns
  the empty list of end positions (`aover … = some []`).

The matching rule itself must be safe (this excludes comments — their rules look for a line end —, dollar-quoted literals and what the
double-quote fallback rule yields); a `#` or `-` token directly followed by white space is excluded because the comment rules cannot be
killed there (`# ` opens a comment, `#\n` does not: genuinely unstable).
-/
namespace Sql

/-- every `\s` character is in `S` -/
def spaceAll (S : CpSet) : Bool := Gen.spaceSet.elems.all S.mem
/-- no `\s` character is in `S` -/
def spaceNone (S : CpSet) : Bool := Gen.spaceSet.elems.all (fun c => !S.mem c)
def wsClosedSet (S : CpSet) : Bool := spaceAll S || spaceNone S

/-- the expression treats all white-space characters alike -/
def wsSafeRe : Re → Bool
  | .eps | .wordB => true
  | .set S => wsClosedSet S
  | .cat a b | .alt a b => wsSafeRe a && wsSafeRe b
  | .rep _ _ _ r | .grp _ r | .look _ _ _ r => wsSafeRe r
  | .bref _ | .atEnd => false

/-- complement of a sorted list of ranges inside `[lo, 1114111]` -/
def complRanges : Nat → List (Nat × Nat) → List (Nat × Nat)
  | lo, [] => if lo ≤ 1114111 then [(lo, 1114111)] else []
  | lo, (a, b) :: rs => (if lo < a then [(lo, a - 1)] else []) ++ complRanges (b + 1) rs

/-- every code point that is not `\s` -/
def nonSpaceSet : CpSet := ⟨complRanges 0 Gen.spaceSet.ranges⟩

/-- the window context of a token: the frozen text `w`, what is known about the character behind it, and whether a white-space character
stands in front of the token -/
def wsK (w : Array Cp) (excl : List CpSet) (prevSpace : Bool) : WCtx :=
  { w := w, excl := excl, prevExcl := if prevSpace then [nonSpaceSet] else [], word := defaultCfg.word }

/-- the rule has no derivation here: ruled out by the first character, or by the window analysis -/
def killRe (K : WCtx) (c0 : Cp) (r : Re) : Bool := start c0 r == .dead || aover K r 0 == some []

/-- every rule up to the first safe rule that matches is safe or killed -/
def fmCert (K : WCtx) (c0 : Cp) (E : Env) (p : Nat) : List Rule → Bool
  | [] => true
  | r :: rs =>
    if wsSafeRe r.re then
      (match matchAt E r.re p with
       | some _ => true
       | none => fmCert K c0 E p rs)
    else killRe K c0 r.re && fmCert K c0 E p rs

/-- the text of the tokens up to (not including) the next token of a Whitespace type, and whether there is such a token -/
def frozenRun : List Tok → Text × Bool
  | [] => ([], false)
  | t :: rest => if t.tt.isIn T.Whitespace then ([], true) else ((t.val ++ (frozenRun rest).1), (frozenRun rest).2)

/-- all code points except `c` (for `1 ≤ c`) -/
def exclOf (c : Cp) : List CpSet := if 1 ≤ c ∧ c ≤ 1114111 then [csNot c] else []

/-- window and knowledge about the character behind it: up to the next white-space token (then a `\s` character follows), or, at the end
of the text, up to the last character (then exactly that character follows) -/
def tokWindow (l : List Tok) : Option (Array Cp × List CpSet) :=
  if (frozenRun l).2 then some ((frozenRun l).1.toArray, [nonSpaceSet])
  else match (frozenRun l).1.reverse with
    | [] => none
    | c :: revInit => some (revInit.reverse.toArray, exclOf c)

def lastIsSpace (v : Text) : Bool := match v.getLast? with | some c => isSpace c | none => false

def tokCert (E : Env) (prevSpace : Bool) (p : Nat) (t : Tok) (rest : List Tok) : Bool :=
  match t.val with
  | [] => false
  | c0 :: _ =>
    !isSpace c0 &&
    (match tokWindow (t :: rest) with
     | none => false
     | some (w, excl) => fmCert (wsK w excl prevSpace) c0 E p defaultCfg.rules)

def wsCertFrom (E : Env) : Bool → Nat → List Tok → Bool
  | _, _, [] => true
  | prevSpace, p, t :: rest =>
    if t.tt.isIn T.Whitespace then
      !t.val.isEmpty && t.val.all isSpace && wsCertFrom E true (p + t.val.length) rest
    else
      tokCert E prevSpace p t rest && wsCertFrom E (lastIsSpace t.val) (p + t.val.length) rest

/-- per-token verdicts (for the driver) -/
def wsCertBits (E : Env) : Bool → Nat → List Tok → List Bool
  | _, _, [] => []
  | prevSpace, p, t :: rest =>
    if t.tt.isIn T.Whitespace then
      (!t.val.isEmpty && t.val.all isSpace) :: wsCertBits E true (p + t.val.length) rest
    else
      tokCert E prevSpace p t rest :: wsCertBits E (lastIsSpace t.val) (p + t.val.length) rest

def tokensText (toks : List Tok) : Text := (toks.map (·.val)).flatten

/-- **the decidable hypothesis**: a function of the token list alone -/
def wsRespellable (toks : List Tok) : Bool :=
  wsCertFrom (defaultCfg.env (tokensText toks).toArray) false 0 toks

end Sql
