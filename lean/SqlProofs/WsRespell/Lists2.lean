import SqlProofs.WsRespell.Lists
/-!
# SqlProofs.WsRespell.Lists2 — the leading white-space run, the certificate behind it, and the window of a token in both texts
-/
namespace Sql

/-- split off the leading run of Whitespace-typed tokens, in both lists -/
theorem ws_prefix : ∀ (l l' : List Tok), RespelledWs l l' → WsOK l →
    ∃ run rest2 run' rest2', l = run ++ rest2 ∧ l' = run' ++ rest2' ∧ (∀ x ∈ run, x.tt.isIn T.Whitespace = true) ∧
      (∀ t r, rest2 = t :: r → t.tt.isIn T.Whitespace = false) ∧ RespelledWs rest2 rest2' ∧
      (tokensText run').length = (tokensText run).length ∧ (∀ c ∈ tokensText run, isSpace c = true) ∧
      (∀ c ∈ tokensText run', isSpace c = true) ∧ run.length + rest2.length = l.length ∧
      (∀ t r, l = t :: r → t.tt.isIn T.Whitespace = true → run ≠ [] ∧ 0 < (tokensText run).length) := by
  intro l l' h
  induction h with
  | nil =>
    intro _
    exact ⟨[], [], [], [], rfl, rfl, by simp, by simp, .nil, rfl, by simp [tokensText], by simp [tokensText], rfl, by simp⟩
  | keep t l l' hws hr _ =>
    intro _
    refine ⟨[], t :: l, [], t :: l', rfl, rfl, by simp, ?_, .keep t l l' hws hr, rfl, by simp [tokensText], by simp [tokensText],
      by simp, ?_⟩
    · intro t2 r he; injection he with he _; subst he; exact hws
    · intro t2 r he hw; injection he with he _; subst he; rw [hws] at hw; exact absurd hw (by simp)
  | ws t t' l l' hws hlen hsp _ ih =>
    intro hok
    obtain ⟨run, rest2, run', rest2', e1, e2, hall, hhead, hr, hl, hs1, hs2, hcount, _⟩ := ih hok.tail
    obtain ⟨hne, hsp0⟩ := hok t (by simp) hws
    refine ⟨t :: run, rest2, t' :: run', rest2', by simp [e1], by simp [e2], ?_, hhead, hr, ?_, ?_, ?_, ?_, ?_⟩
    · intro x hx
      simp only [List.mem_cons] at hx
      rcases hx with rfl | hx
      · exact hws
      · exact hall x hx
    · simp [tokensText_cons, hl, hlen]
    · intro c hc
      simp only [tokensText_cons, List.mem_append] at hc
      rcases hc with hc | hc
      · exact hsp0 c hc
      · exact hs1 c hc
    · intro c hc
      simp only [tokensText_cons, List.mem_append] at hc
      rcases hc with hc | hc
      · exact hsp c hc
      · exact hs2 c hc
    · simp only [List.length_cons]; omega
    · intro _ _ _ _
      refine ⟨by simp, ?_⟩
      simp only [tokensText_cons, List.length_append]
      have : 0 < t.val.length := List.length_pos_iff.mpr hne
      omega

/-- behind a non-empty run of white-space tokens the certificate continues with `prevSpace = true` -/
theorem cert_run (E : Env) : ∀ (run rest2 : List Tok) (ps : Bool) (p : Nat), (∀ x ∈ run, x.tt.isIn T.Whitespace = true) → run ≠ [] →
    wsCertFrom E ps p (run ++ rest2) = true → wsCertFrom E true (p + (tokensText run).length) rest2 = true := by
  intro run
  induction run with
  | nil => intro _ _ _ _ h; exact absurd rfl h
  | cons t w ih =>
    intro rest2 ps p hall _ hc
    simp only [List.cons_append, wsCertFrom, hall t (by simp), if_true, Bool.and_eq_true] at hc
    cases w with
    | nil =>
      simp only [List.nil_append] at hc
      simpa [tokensText] using hc.2
    | cons t2 w2 =>
      have := ih rest2 true (p + t.val.length) (fun x hx => hall x (by simp [hx])) (by simp) hc.2
      rw [tokensText_cons, List.length_append, ← Nat.add_assoc]
      exact this

/-- both texts read the window of a token, then a character the exclusions are right about -/
theorem window_texts (l l' : List Tok) (h : RespelledWs l l') (hok : WsOK l) (w : Array Cp) (excl : List CpSet)
    (hw : tokWindow l = some (w, excl)) :
    ∃ c tl c' tl', tokensText l = w.toList ++ c :: tl ∧ tokensText l' = w.toList ++ c' :: tl' ∧
      (∀ X ∈ excl, X.mem c = false) ∧ (∀ X ∈ excl, X.mem c' = false) := by
  obtain ⟨h1, h2⟩ := frozen_split l l' h hok
  simp only [tokWindow] at hw
  cases hb : (frozenRun l).2 with
  | true =>
    simp only [hb, if_true, Option.some.injEq, Prod.mk.injEq] at hw
    obtain ⟨rfl, rfl⟩ := hw
    obtain ⟨c, tl, c', tl', e1, e2, s1, s2⟩ := h1 hb
    refine ⟨c, tl, c', tl', by simpa using e1, by simpa using e2, ?_, ?_⟩
    · intro X hX; simp only [List.mem_singleton] at hX; subst hX; exact nonSpace_of_space c s1
    · intro X hX; simp only [List.mem_singleton] at hX; subst hX; exact nonSpace_of_space c' s2
  | false =>
    simp only [hb, Bool.false_eq_true, if_false] at hw
    obtain ⟨e1, e2⟩ := h2 hb
    cases hrev : (frozenRun l).1.reverse with
    | nil => rw [hrev] at hw; simp at hw
    | cons c revInit =>
      rw [hrev] at hw
      simp only [Option.some.injEq, Prod.mk.injEq] at hw
      obtain ⟨rfl, rfl⟩ := hw
      have hfr : (frozenRun l).1 = revInit.reverse ++ [c] := by
        have := congrArg List.reverse hrev
        simpa using this
      exact ⟨c, [], c, [], by rw [e1, hfr, List.toList_toArray], by rw [e2, hfr, List.toList_toArray], exclOf_sound c, exclOf_sound c⟩

end Sql
