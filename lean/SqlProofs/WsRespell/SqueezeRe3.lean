import SqlProofs.WsRespell.SqueezeRe2
/-!
# SqlProofs.WsRespell.SqueezeRe3 — `corr_derivs`
-/
namespace Sql

section
variable {EX EC : Env} {φ : Nat → Nat} {isRun : Nat → Bool}

theorem isWordAt_optMem (E : Env) (i : Nat) : isWordAt E i = optMem E.word E.s[i]? := by
  simp only [isWordAt, optMem]
  cases E.s[i]? <;> rfl

theorem derivs_lookahead (E : Env) (neg : Bool) (w : Nat) (r : Re) (st : St) :
    derivs E (.look true neg w r) st = if ((!(derivs E r st).isEmpty) != neg) = true then [st] else [] := by
  simp [derivs]

theorem derivs_lookbehind1 (E : Env) (neg : Bool) (S : CpSet) (st : St) :
    derivs E (.look false neg 1 (.set S)) st =
      (if ((if st.pos < 1 then false else
        (derivs E (.set S) { st with pos := st.pos - 1 }).any fun st' => st'.pos == st.pos) != neg) = true
       then [st] else []) := rfl

theorem derivs_wordB (E : Env) (st : St) :
    derivs E .wordB st = if ((decide (st.pos > 0) && isWordAt E (st.pos - 1)) != isWordAt E st.pos) = true then [st] else [] := rfl

theorem lookb_val (E : Env) (S : CpSet) (st : St) (h1 : ¬ st.pos < 1) :
    ((derivs E (.set S) { st with pos := st.pos - 1 }).any fun st' => st'.pos == st.pos) = optMem S E.s[st.pos - 1]? := by
  cases hc : E.s[st.pos - 1]? with
  | none =>
    rw [derivs_set_none' E S _ (by simpa using hc)]
    rfl
  | some c =>
    rw [derivs_set_some E S _ c (by simpa using hc)]
    cases hm : S.mem c with
    | false => simp [optMem, hm]
    | true =>
      simp only [if_true, List.any_cons, List.any_nil, Bool.or_false, optMem, hm, beq_iff_eq]
      omega

/-- **an expression of the run class has corresponding derivations on the squeezed text and on every expansion of it**: from corresponding
positions, the derivations on the expansion are those on the squeezed text moved by `φ`, in the same order, plus — only if `dm r` — states
strictly inside blown-up runs -/
theorem corr_derivs (H : Expand EX EC φ isRun) : ∀ r : Re, inC r = true → ∀ x y : St, x.pos = φ y.pos → y.pos ≤ EC.s.size →
    Corr EC φ isRun (dm r) (derivs EX r x) (derivs EC r y) := by
  intro r
  induction r with
  | eps =>
    intro _ x y hxy hy
    exact .img _ x y [] [] hxy hy (.nil _)
  | set S =>
    intro hr x y hxy hy
    simp only [inC] at hr
    have hdm : dm (.set S) = false := rfl
    rw [hdm]
    rcases H.cur y.pos hy with heq | ⟨a, b, ha, hb, has, hbs⟩
    · cases hc : EC.s[y.pos]? with
      | none =>
        rw [derivs_set_none' EC S y hc, derivs_set_none' EX S x (by rw [hxy, heq, hc])]
        exact .nil false
      | some c =>
        have hcx : EX.s[x.pos]? = some c := by rw [hxy, heq, hc]
        rw [derivs_set_some EC S y c hc, derivs_set_some EX S x c hcx]
        cases hm : S.mem c with
        | false => exact .nil false
        | true =>
          have hns : isSpace c = false := by
            cases hsp : isSpace c with
            | false => rfl
            | true => rw [spaceNone_mem S hr c hsp] at hm; exact absurd hm (by simp)
          have hs := (H.succ_of_nonspace y.pos c hc hns).1
          have hlt : y.pos < EC.s.size := (Array.getElem?_eq_some_iff.mp hc).1
          simp only [if_true]
          exact .img false _ _ [] [] (by simp [hxy, hs]) (by simp; omega) (.nil false)
    · have hcx : EX.s[x.pos]? = some a := by rw [hxy]; exact ha
      rw [derivs_set_some EC S y b hb, derivs_set_some EX S x a hcx, spaceNone_mem S hr a has, spaceNone_mem S hr b hbs]
      exact .nil false
  | cat a b iha ihb =>
    intro hr x y hxy hy
    simp only [inC, Bool.and_eq_true, Bool.or_eq_true, Bool.not_eq_true'] at hr
    obtain ⟨⟨hca, hcb⟩, hcond⟩ := hr
    simp only [derivs]
    have h1 := iha hca x y hxy hy
    cases hda : dm a with
    | false =>
      rw [hda] at h1
      have := Corr.flatMap_false (b := dm b) (derivs EX b) (derivs EC b) h1 (fun x' y' _ _ e1 e2 => ihb hcb x' y' e1 e2)
      exact this.mono (by intro h; simp [dm, h])
    | true =>
      rw [hda] at h1
      have hinert : inertWs b = true := by
        rcases hcond with h | h
        · rw [hda] at h; exact absurd h (by simp)
        · exact h
      have hflag : dm (.cat a b) = (!deadWs b || dm b) := by simp [dm, hda]
      rw [hflag]
      refine Corr.flatMap (derivs EX b) (derivs EC b) h1 ?_ ?_
      · intro x' y' e1 e2
        exact (ihb hcb x' y' e1 e2).mono (by intro h; simp [h])
      · intro d hd
        cases hdw : deadWs b with
        | true => rw [doomed_dead H b hdw d hd]; exact .nil _
        | false =>
          simp only [Bool.not_false, Bool.true_or]
          exact Corr.allDoomed _ (fun st' hst' => by rw [doomed_inert H b hinert d hd st' hst']; exact hd)
  | alt a b iha ihb =>
    intro hr x y hxy hy
    simp only [inC, Bool.and_eq_true] at hr
    simp only [derivs]
    exact ((iha hr.1 x y hxy hy).mono (by intro h; simp [dm, h])).append ((ihb hr.2 x y hxy hy).mono (by intro h; simp [dm, h]))
  | grp n r ih =>
    intro hr x y hxy hy
    simp only [inC] at hr
    simp only [derivs]
    have hdm : dm (.grp n r) = dm r := rfl
    rw [hdm]
    exact (ih hr x y hxy hy).map _ _ (fun _ => rfl) (fun _ => rfl)
  | rep lo hi g r ih =>
    intro hr x y hxy hy
    simp only [inC] at hr
    have hxle : x.pos ≤ EX.s.size := by rw [hxy]; exact H.le_size y.pos hy
    by_cases hw : isWsLoop hi r = true
    · simp only [hw, if_true, decide_eq_true_eq] at hr
      have hdm : dm (.rep lo hi g r) = true := by simp [dm, hw]
      rw [hdm]
      cases hi with
      | some _ => simp [isWsLoop] at hw
      | none =>
        cases r with
        | set S =>
          have hS : spaceAll S = true := by simpa [isWsLoop] using hw
          exact wsLoop_corr H S hS g lo hr x y hxy hy
        | eps => simp [isWsLoop] at hw
        | cat _ _ => simp [isWsLoop] at hw
        | alt _ _ => simp [isWsLoop] at hw
        | rep _ _ _ _ => simp [isWsLoop] at hw
        | grp _ _ => simp [isWsLoop] at hw
        | bref _ => simp [isWsLoop] at hw
        | look _ _ _ _ => simp [isWsLoop] at hw
        | atEnd => simp [isWsLoop] at hw
        | wordB => simp [isWsLoop] at hw
    · have hw' : isWsLoop hi r = false := by simpa using hw
      simp only [hw', Bool.false_eq_true, if_false, Bool.and_eq_true, Bool.or_eq_true, Bool.not_eq_true', beq_iff_eq] at hr
      have hdm : dm (.rep lo hi g r) = dm r := by simp [dm, hw']
      rw [hdm]
      simp only [derivs]
      cases hdr : dm r with
      | false =>
        exact rep_corr_false H (derivs EX r) (derivs EC r) (fun x' y' e1 e2 => by have := ih hr.1 x' y' e1 e2; rw [hdr] at this; exact this)
          g _ x y lo hi _ _ rfl hxy hy (by omega) (by omega)
      | true =>
        have hhi : hi = some 1 := by
          rcases hr.2 with h | h
          · rw [hdr] at h; exact absurd h (by simp)
          · exact h
        subst hhi
        have hstep := ih hr.1 x y hxy hy
        rw [hdr] at hstep
        exact rep_corr_opt (derivs EX r) (derivs EC r) true g lo x y hxy hy hstep
          (fun x' y' e1 e2 => by rw [hxy, e1]; exact H.lt_iff y.pos y'.pos hy e2) _ _ (by omega) (by omega)
  | bref n => intro hr; simp [inC] at hr
  | look ahead neg w r ih =>
    intro hr x y hxy hy
    have hdm : dm (.look ahead neg w r) = false := rfl
    rw [hdm]
    cases ahead with
    | true =>
      simp only [inC, if_true, Bool.and_eq_true, Bool.not_eq_true'] at hr
      have hin := ih hr.1 x y hxy hy
      rw [hr.2] at hin
      rw [derivs_lookahead, derivs_lookahead, hin.isEmpty_false]
      split
      · exact .img false x y [] [] hxy hy (.nil false)
      · exact .nil false
    | false =>
      simp only [inC, Bool.false_eq_true, if_false, Bool.and_eq_true, beq_iff_eq] at hr
      obtain ⟨hw, hr⟩ := hr
      subst hw
      cases r with
      | set S =>
        simp only at hr
        rw [derivs_lookbehind1, derivs_lookbehind1]
        have hval : (if x.pos < 1 then false else
              (derivs EX (.set S) { x with pos := x.pos - 1 }).any fun st' => st'.pos == x.pos) =
            (if y.pos < 1 then false else
              (derivs EC (.set S) { y with pos := y.pos - 1 }).any fun st' => st'.pos == y.pos) := by
          by_cases h0 : y.pos = 0
          · have : x.pos = 0 := by rw [hxy, h0, H.phi0]
            simp [h0, this]
          · obtain ⟨hp, hrel⟩ := H.prev y.pos hy (by omega)
            have hx1 : ¬ x.pos < 1 := by rw [hxy]; omega
            have hy1 : ¬ y.pos < 1 := by omega
            simp only [hx1, hy1, if_false]
            rw [lookb_val EX S x hx1, lookb_val EC S y hy1, hxy]
            exact optMem_rel S hr hrel
        rw [hval]
        generalize (if y.pos < 1 then false else
              (derivs EC (.set S) { y with pos := y.pos - 1 }).any fun st' => st'.pos == y.pos) = bb
        split
        · exact .img false x y [] [] hxy hy (.nil false)
        · exact .nil false
      | eps => simp at hr
      | cat _ _ => simp at hr
      | alt _ _ => simp at hr
      | rep _ _ _ _ => simp at hr
      | grp _ _ => simp at hr
      | bref _ => simp at hr
      | look _ _ _ _ => simp at hr
      | atEnd => simp at hr
      | wordB => simp at hr
  | atEnd => intro hr; simp [inC] at hr
  | wordB =>
    intro _ x y hxy hy
    have hdm : dm .wordB = false := rfl
    rw [hdm, derivs_wordB, derivs_wordB]
    have hwc : wsClosedSet EC.word = true := by simp [wsClosedSet, H.wordNoSpace]
    have hafter : isWordAt EX x.pos = isWordAt EC y.pos := by
      rw [isWordAt_optMem, isWordAt_optMem, H.word, hxy]
      exact optMem_rel _ hwc (H.cur y.pos hy)
    have hbefore : (decide (x.pos > 0) && isWordAt EX (x.pos - 1)) = (decide (y.pos > 0) && isWordAt EC (y.pos - 1)) := by
      by_cases h0 : y.pos = 0
      · have : x.pos = 0 := by rw [hxy, h0, H.phi0]
        simp [h0, this]
      · obtain ⟨hp, hrel⟩ := H.prev y.pos hy (by omega)
        have d1 : decide (x.pos > 0) = true := by simp; rw [hxy]; exact hp
        have d2 : decide (y.pos > 0) = true := by simp; omega
        rw [d1, d2, isWordAt_optMem, isWordAt_optMem, H.word, hxy]
        simp only [Bool.true_and]
        exact optMem_rel _ hwc hrel
    rw [hafter, hbefore]
    split
    · exact .img false x y [] [] hxy hy (.nil false)
    · exact .nil false

end
end Sql
