import SqlProofs.WsRespell.Rel
/-!
# SqlProofs.WsRespell.Kill — a killed rule has no derivation, on any text that shows the token's window
-/
namespace Sql

theorem nonSpace_table : Gen.spaceSet.elems.all (fun c => !nonSpaceSet.mem c) = true := by decide +kernel

theorem nonSpace_of_space (c : Cp) (h : isSpace c = true) : nonSpaceSet.mem c = false := by
  have := nonSpace_table
  simp only [List.all_eq_true, Bool.not_eq_true'] at this
  exact this c (CpSet.mem_elems _ c h)

theorem exclOf_sound (c : Cp) : ∀ X ∈ exclOf c, X.mem c = false := by
  intro X hX
  simp only [exclOf] at hX
  split at hX
  · rename_i hc
    simp only [List.mem_singleton] at hX
    subst hX
    cases h : (csNot c).mem c with
    | false => rfl
    | true => exact absurd ((csNot_mem c hc c).mp h).1 (by simp)
  · simp at hX

theorem covers_nil (p : Nat) (l : List St) (h : Covers p [] l) : l = [] := by
  cases l with
  | nil => rfl
  | cons x xs =>
    obtain ⟨o, ho, _⟩ := h x (by simp)
    simp at ho

/-- a killed rule has no derivation at `p` on any text that reads the window there -/
theorem kill_sound (K : WCtx) (E : Env) (p : Nat) (c0 c : Cp) (hc0 : E.s[p]? = some c0) (H : WSound K E p c) (r : Re)
    (h : killRe K c0 r = true) : derivs E r ⟨p, []⟩ = [] := by
  simp only [killRe, Bool.or_eq_true, beq_iff_eq] at h
  rcases h with h | h
  · exact dead_at E c0 r h p hc0
  · exact covers_nil p _ (aover_sound K E p c H r 0 [] h ⟨p, []⟩ rfl)

/-- the window context of a token is sound on every text that reads `w`, then `c`, at `p`, has a white-space character in front of `p` if
`prevSpace` says so, and uses the default word class -/
theorem wsK_sound (E : Env) (hw : E.word = defaultCfg.word) (p : Nat) (w : Array Cp) (c : Cp) (tl : List Cp) (excl : List CpSet)
    (prevSpace : Bool) (ht : E.s.toList.drop p = w.toList ++ c :: tl) (hex : ∀ X ∈ excl, X.mem c = false)
    (hprev : prevSpace = true → ∃ d, E.s[p - 1]? = some d ∧ isSpace d = true) : WSound (wsK w excl prevSpace) E p c := by
  refine ⟨⟨tl, ht⟩, hex, ?_, hw⟩
  by_cases hp : p = 0
  · exact Or.inl hp
  · right
    cases hps : prevSpace with
    | true =>
      obtain ⟨d, hd, hsp⟩ := hprev hps
      refine ⟨d, hd, ?_⟩
      intro X hX
      simp only [wsK, if_true, List.mem_singleton] at hX
      subst hX
      exact nonSpace_of_space d hsp
    | false =>
      have hlt : p < E.s.toList.length := by
        have : (E.s.toList.drop p).length ≠ 0 := by rw [ht]; simp
        simp only [List.length_drop] at this
        omega
      have hlt' : p - 1 < E.s.size := by simp at hlt; omega
      refine ⟨E.s[p - 1], Array.getElem?_eq_getElem hlt', ?_⟩
      intro X hX
      simp [wsK] at hX

end Sql
