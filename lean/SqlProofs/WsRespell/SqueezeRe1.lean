import SqlProofs.WsRespell.SqueezeCorr
/-!
# SqlProofs.WsRespell.SqueezeRe1 — characters at corresponding positions; starts at doomed positions
-/
namespace Sql

/-- two optional characters: the same, or two white-space characters -/
def CharRelO (a b : Option Cp) : Prop := a = b ∨ ∃ x y, a = some x ∧ b = some y ∧ isSpace x = true ∧ isSpace y = true

def optMem (S : CpSet) : Option Cp → Bool
  | some c => S.mem c
  | none => false

theorem optMem_rel (S : CpSet) (hS : wsClosedSet S = true) {a b : Option Cp} (h : CharRelO a b) : optMem S a = optMem S b := by
  rcases h with rfl | ⟨x, y, rfl, rfl, hx, hy⟩
  · rfl
  · exact wsClosed_eq S hS x y hx hy

section
variable {EX EC : Env} {φ : Nat → Nat} {isRun : Nat → Bool}

/-- the characters under corresponding positions -/
theorem Expand.cur (H : Expand EX EC φ isRun) (i : Nat) (hi : i ≤ EC.s.size) : CharRelO EX.s[φ i]? EC.s[i]? := by
  cases Nat.eq_or_lt_of_le hi with
  | inl e => subst e; left; rw [H.get_end.1, H.get_end.2]
  | inr hlt =>
    cases hr : isRun i with
    | false => left; exact (H.frozen i hlt hr).2
    | true =>
      obtain ⟨h1, ⟨b, hb, hbs⟩, h3⟩ := H.run i hlt hr
      obtain ⟨a, ha, has⟩ := h3 (φ i) (Nat.le_refl _) h1
      exact Or.inr ⟨a, b, ha, hb, has, hbs⟩

/-- the characters in front of corresponding positions -/
theorem Expand.prev (H : Expand EX EC φ isRun) (i : Nat) (hi : i ≤ EC.s.size) (h0 : 0 < i) :
    0 < φ i ∧ CharRelO EX.s[φ i - 1]? EC.s[i - 1]? := by
  have hk : i - 1 < EC.s.size := by omega
  have e : i - 1 + 1 = i := by omega
  have hpos : 0 < φ i := by
    have := H.step_lt (i - 1) hk
    rw [e] at this; omega
  refine ⟨hpos, ?_⟩
  cases hr : isRun (i - 1) with
  | false =>
    obtain ⟨h1, h2⟩ := H.frozen (i - 1) hk hr
    rw [e] at h1
    left
    have : φ i - 1 = φ (i - 1) := by omega
    rw [this]; exact h2
  | true =>
    obtain ⟨h1, ⟨b, hb, hbs⟩, h3⟩ := H.run (i - 1) hk hr
    rw [e] at h1 h3
    obtain ⟨a, ha, has⟩ := h3 (φ i - 1) (by omega) (by omega)
    exact Or.inr ⟨a, b, ha, hb, has, hbs⟩

/-- at a frozen character both sides step by one -/
theorem Expand.succ_of_nonspace (H : Expand EX EC φ isRun) (i : Nat) (c : Cp) (hc : EC.s[i]? = some c) (hns : isSpace c = false) :
    φ (i + 1) = φ i + 1 ∧ EX.s[φ i]? = some c := by
  have hlt : i < EC.s.size := (Array.getElem?_eq_some_iff.mp hc).1
  cases hr : isRun i with
  | false => have := H.frozen i hlt hr; exact ⟨this.1, by rw [this.2, hc]⟩
  | true =>
    obtain ⟨_, ⟨b, hb, hbs⟩, _⟩ := H.run i hlt hr
    rw [hc] at hb; injection hb with hb; subst hb; rw [hns] at hbs; exact absurd hbs (by simp)

/-- from a doomed position an expression that is inert on white space yields only states at that position -/
theorem doomed_inert (H : Expand EX EC φ isRun) (r : Re) (hr : inertWs r = true) (d : St) (hd : Doomed EC φ isRun d.pos) :
    ∀ st' ∈ derivs EX r d, st'.pos = d.pos := by
  obtain ⟨c, hc, hcs⟩ := hd.space H
  have hs := start_sound EX c r
  simp only [inertWs, List.all_eq_true, bne_iff_ne, ne_eq] at hr
  have hne := hr c (CpSet.mem_elems _ c hcs)
  cases hst : start c r with
  | any => exact absurd hst hne
  | stay => rw [hst] at hs; exact hs d hc
  | dead => rw [hst] at hs; exact Start.dead_stay EX c r hs d hc

theorem doomed_dead (H : Expand EX EC φ isRun) (r : Re) (hr : deadWs r = true) (d : St) (hd : Doomed EC φ isRun d.pos) :
    derivs EX r d = [] := by
  obtain ⟨c, hc, hcs⟩ := hd.space H
  simp only [deadWs, List.all_eq_true, beq_iff_eq] at hr
  exact dead_at EX c r (hr c (CpSet.mem_elems _ c hcs)) d.pos hc |> fun h => by
    have := start_sound EX c r
    rw [hr c (CpSet.mem_elems _ c hcs)] at this
    exact this d hc

theorem derivs_set_some (E : Env) (S : CpSet) (st : St) (c : Cp) (h : E.s[st.pos]? = some c) :
    derivs E (.set S) st = if S.mem c then [{ st with pos := st.pos + 1 }] else [] := by
  simp [derivs, h]

theorem derivs_set_none' (E : Env) (S : CpSet) (st : St) (h : E.s[st.pos]? = none) : derivs E (.set S) st = [] := by
  simp [derivs, h]

theorem repAux_hiZero_sq (step : St → List St) (g : Bool) : ∀ (f lo : Nat) (st : St),
    repAux step g f lo (some 0) st = if lo = 0 then [st] else [] := by
  intro f lo st
  cases f with
  | zero => rfl
  | succ f => simp [repAux]

end
end Sql
