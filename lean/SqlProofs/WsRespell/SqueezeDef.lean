import SqlProofs.WsRespell.Def
import SqlProofs.Lex.WindowExact
/-!
# SqlProofs.WsRespell.SqueezeDef — the hypothesis of the LENGTH-CHANGING lexical step: `wsRespellableAny`

The token list is *squeezed* (every run of Whitespace-typed tokens becomes one blank) and the certificate is evaluated on the squeezed text, which
every re-spelling of the white-space runs shares.  A rule tried at a token is fine when

* it is in the **run class** (`inC`: white-space characters are consumed only by loops `rep lo none (set S)` with `lo ≤ 1` and `S ⊇ \s`, every other
  class is disjoint from `\s`, what follows a loop in the same sequence consumes nothing at a white-space character, look-behinds are one class that
  treats all white space alike, no back-reference, no `$`) and cannot end inside a run (`dm = false`) — such a rule has corresponding derivations on
  every expansion of the squeezed text (`SqueezeRe.lean`); or
* it is **killed** by the first character / the window analysis (as for `wsRespellable`); or
* it is the matching rule and the exact window analysis `aexact` computes its first derivation from the frozen window alone.
-/
namespace Sql

/-- no derivation starts at a white-space character -/
def deadWs (r : Re) : Bool := Gen.spaceSet.elems.all (fun c => start c r == .dead)
/-- at a white-space character the expression consumes nothing -/
def inertWs (r : Re) : Bool := Gen.spaceSet.elems.all (fun c => start c r != .any)

/-- `rep lo none g (set S)` with `S ⊇ \s` -/
def isWsLoop (hi : Option Nat) (r : Re) : Bool :=
  hi.isNone && (match r with | .set S => spaceAll S | _ => false)

/-- may a derivation that starts outside a run end strictly inside one? (over-approximation) -/
def dm : Re → Bool
  | .eps | .set _ | .bref _ | .atEnd | .wordB | .look .. => false
  | .cat a b => (dm a && !deadWs b) || dm b
  | .alt a b => dm a || dm b
  | .grp _ r => dm r
  | .rep _ hi _ r => isWsLoop hi r || dm r

/-- the run class -/
def inC : Re → Bool
  | .eps | .wordB => true
  | .set S => spaceNone S
  | .cat a b => inC a && inC b && (!dm a || inertWs b)
  | .alt a b => inC a && inC b
  | .grp _ r => inC r
  | .rep lo hi _ r => if isWsLoop hi r then decide (lo ≤ 1) else inC r && (!dm r || hi == some 1)
  | .look ahead _ w r =>
    if ahead then inC r && !dm r
    else w == 1 && (match r with | .set S => wsClosedSet S | _ => false)
  | .bref _ | .atEnd => false

def classRe (r : Re) : Bool := inC r && !dm r

/-- every run of Whitespace-typed tokens becomes one blank -/
def squeezeGo : Bool → List Tok → List Tok
  | _, [] => []
  | inRun, t :: rest =>
    if t.tt.isIn T.Whitespace then (if inRun then squeezeGo true rest else ⟨T.Whitespace, [32]⟩ :: squeezeGo true rest)
    else t :: squeezeGo false rest

def squeezeToks (toks : List Tok) : List Tok := squeezeGo false toks

def fmCertAny (K : WCtx) (c0 : Cp) (E : Env) (p : Nat) : List Rule → Bool
  | [] => true
  | r :: rs =>
    if classRe r.re then
      (match matchAt E r.re p with
       | some _ => true
       | none => fmCertAny K c0 E p rs)
    else if killRe K c0 r.re then fmCertAny K c0 E p rs
    else (match aexact K r.re 0 with
          | some (_ :: _) => true
          | _ => false)

def tokCertAny (E : Env) (prevSpace : Bool) (p : Nat) (t : Tok) (rest : List Tok) : Bool :=
  match t.val with
  | [] => false
  | c0 :: _ =>
    !isSpace c0 &&
    (match tokWindow (t :: rest) with
     | none => false
     | some (w, excl) => fmCertAny (wsK w excl prevSpace) c0 E p defaultCfg.rules)

def wsCertAnyFrom (E : Env) : Bool → Nat → List Tok → Bool
  | _, _, [] => true
  | prevSpace, p, t :: rest =>
    if t.tt.isIn T.Whitespace then
      !t.val.isEmpty && t.val.all isSpace && wsCertAnyFrom E true (p + t.val.length) rest
    else
      tokCertAny E prevSpace p t rest && wsCertAnyFrom E (lastIsSpace t.val) (p + t.val.length) rest

def wsCertAnyBits (E : Env) : Bool → Nat → List Tok → List Bool
  | _, _, [] => []
  | prevSpace, p, t :: rest =>
    if t.tt.isIn T.Whitespace then
      (!t.val.isEmpty && t.val.all isSpace) :: wsCertAnyBits E true (p + t.val.length) rest
    else
      tokCertAny E prevSpace p t rest :: wsCertAnyBits E (lastIsSpace t.val) (p + t.val.length) rest

/-- white-space tokens of the original list are non-empty strings of `\s` characters -/
def wsToksOK (toks : List Tok) : Bool :=
  toks.all fun t => !t.tt.isIn T.Whitespace || (!t.val.isEmpty && t.val.all isSpace)

/-- **the decidable hypothesis of the length-changing step**: the certificate on the squeezed token list -/
def wsRespellableAny (toks : List Tok) : Bool :=
  wsToksOK toks &&
  wsCertAnyFrom (defaultCfg.env (tokensText (squeezeToks toks)).toArray) false 0 (squeezeToks toks)

end Sql
