import SqlModel.Bookkeeping
/-!
# SqlProofs.Bookkeeping — `group_tokens` keeps the object graph a well-formed tree

`Inv h rank T`: every child of a group names that group as its `parent`; no object occurs twice (children lists are duplicate-free, and by
the parent clause no object is a child of two groups); the graph is acyclic (`rank` strictly decreases from a group to its children); every
group is non-empty; and the cached `value` of every group is its current text (`T`, the unique solution of the text equations).
`rank` and `T` are ghosts (not present in Python).  Main results: `mkStatement_inv`, `groupTokens_inv`, `runOps_wf`.

The invariant is split: `Inv0` (everything except "groups are non-empty") is kept by *every* returning `group_tokens` call, also one with an
empty slice, and by `ttype` assignments (`groupTokens_inv0`, `setTType_inv0`, `runHOps_wf0`); `Inv` = `Inv0` + non-empty groups.
-/
namespace Sql.BK

structure Inv0 (h : Heap) (rank : Nat → Nat) (T : Nat → Text) : Prop where
  range : ∀ g ks, (h.obj g).kids = some ks → g < h.size ∧ ∀ k ∈ ks, k < h.size
  par : ∀ g ks, (h.obj g).kids = some ks → ∀ k ∈ ks, (h.obj k).parent = some g
  nodup : ∀ g ks, (h.obj g).kids = some ks → ks.Nodup
  rk : ∀ g ks, (h.obj g).kids = some ks → ∀ k ∈ ks, rank k < rank g
  leafT : ∀ l, (h.obj l).kids = none → T l = (h.obj l).value
  grpT : ∀ g ks, (h.obj g).kids = some ks → T g = (ks.map T).flatten
  cache : ∀ g ks, (h.obj g).kids = some ks → (h.obj g).value = T g

structure Inv (h : Heap) (rank : Nat → Nat) (T : Nat → Text) : Prop extends Inv0 h rank T where
  nonempty : ∀ g ks, (h.obj g).kids = some ks → ks ≠ []

/-- the well-formedness users rely on, ghosts hidden -/
def WF (h : Heap) : Prop := ∃ rank T, Inv h rank T

/-- well-formedness without "groups are non-empty" -/
def WF0 (h : Heap) : Prop := ∃ rank T, Inv0 h rank T

theorem WF.toWF0 {h : Heap} : WF h → WF0 h := fun ⟨rank, T, hinv⟩ => ⟨rank, T, hinv.toInv0⟩

/-- `Inv0` only reads `size`, `parent`, `kids` and `value` -/
theorem Inv0.of_same {h h' : Heap} {rank : Nat → Nat} {T : Nat → Text} (hsz : h'.size = h.size)
    (hsame : ∀ j, (h'.obj j).parent = (h.obj j).parent ∧ (h'.obj j).kids = (h.obj j).kids ∧ (h'.obj j).value = (h.obj j).value)
    (hinv : Inv0 h rank T) : Inv0 h' rank T := by
  refine ⟨?_, ?_, ?_, ?_, ?_, ?_, ?_⟩
  · intro g ks hk; rw [(hsame g).2.1] at hk; rw [hsz]; exact hinv.range g ks hk
  · intro g ks hk k hm; rw [(hsame g).2.1] at hk; rw [(hsame k).1]; exact hinv.par g ks hk k hm
  · intro g ks hk; rw [(hsame g).2.1] at hk; exact hinv.nodup g ks hk
  · intro g ks hk k hm; rw [(hsame g).2.1] at hk; exact hinv.rk g ks hk k hm
  · intro l hl; rw [(hsame l).2.1] at hl; rw [(hsame l).2.2]; exact hinv.leafT l hl
  · intro g ks hk; rw [(hsame g).2.1] at hk; exact hinv.grpT g ks hk
  · intro g ks hk; rw [(hsame g).2.1] at hk; rw [(hsame g).2.2]; exact hinv.cache g ks hk

/-- with enough recursion budget `str()` computes the text -/
theorem strF_eq {h : Heap} {rank : Nat → Nat} {T : Nat → Text} (hinv : Inv0 h rank T) :
    ∀ (f i : Nat), rank i < f → strF h f i = T i := by
  intro f
  induction f with
  | zero => intro i hi; omega
  | succ f ih =>
    intro i hi
    simp only [strF]
    cases hk : (h.obj i).kids with
    | none => simp only; exact (hinv.leafT i hk).symm
    | some ks =>
      simp only
      rw [hinv.grpT i ks hk]
      congr 1
      apply List.map_congr_left
      intro k hkm
      exact ih k (by have := hinv.rk i ks hk k hkm; omega)

/-- `str()` only looks below: a walk that starts below `self` never reaches an object `st` that is a child of nothing below `self`, so it
is unchanged by writes to `st` and to objects not strictly below `self` -/
theorem strF_frame {h hx : Heap} {rank : Nat → Nat} {T : Nat → Text} (hinv : Inv0 h rank T) (self st : Nat)
    (hnokid : ∀ i ks, (h.obj i).kids = some ks → st ∈ ks → ¬ rank i < rank self)
    (hagree : ∀ j, rank j < rank self → j ≠ st → (hx.obj j).kids = (h.obj j).kids ∧ (hx.obj j).value = (h.obj j).value) :
    ∀ (f i : Nat), rank i < rank self → i ≠ st → strF hx f i = strF h f i := by
  intro f
  induction f with
  | zero => intro i _ _; rfl
  | succ f ih =>
    intro i hi hne
    simp only [strF]
    obtain ⟨hk, hv⟩ := hagree i hi hne
    rw [hk]
    cases hki : (h.obj i).kids with
    | none => simp only; exact hv
    | some ks =>
      simp only
      congr 1
      apply List.map_congr_left
      intro k hkm
      have hrk := hinv.rk i ks hki k hkm
      apply ih k (by omega)
      intro heq
      exact hnokid i ks hki (heq ▸ hkm) hi

/-! ## list facts about Python slices -/

theorem slice_split {α : Type} (l : List α) (a b : Nat) : l = l.take a ++ pySlice l a b ++ l.drop (max a b) := by
  unfold pySlice
  by_cases hab : a ≤ b
  · rw [Nat.max_eq_right hab]
    have h1 : l = l.take b ++ l.drop b := (List.take_append_drop b l).symm
    have h2 : l.take b = (l.take b).take a ++ (l.take b).drop a := (List.take_append_drop a _).symm
    have h3 : (l.take b).take a = l.take a := by rw [List.take_take, Nat.min_eq_left hab]
    rw [h3] at h2
    calc l = l.take b ++ l.drop b := h1
      _ = (l.take a ++ (l.take b).drop a) ++ l.drop b := by rw [← h2]
  · have hba : b ≤ a := by omega
    rw [Nat.max_eq_left hba]
    have : (l.take b).drop a = [] := by
      apply List.drop_eq_nil_of_le
      rw [List.length_take]; omega
    rw [this, List.append_nil, List.take_append_drop]

theorem slice_sublist {α : Type} (l : List α) (a b : Nat) : (pySlice l a b).Sublist l := by
  unfold pySlice
  exact (List.drop_sublist _ _).trans (List.take_sublist _ _)

theorem mem_of_mem_slice {α : Type} {l : List α} {a b : Nat} {x : α} (h : x ∈ pySlice l a b) : x ∈ l :=
  (slice_sublist l a b).subset h

end Sql.BK

namespace Sql.BK

/-! ## the branch that creates a new group -/

/-- the heap after `group_tokens` created a new group, in closed form -/
def newHeap (h : Heap) (self : Nat) (cls : Cls) (ks : List Nat) (start endIdx : Nat) (V : Text) : Heap :=
  { size := h.size + 1
    obj := fun j =>
      if j = h.size then { parent := some self, kids := some (pySlice ks start endIdx), cls := cls, value := V }
      else if j = self then { h.obj self with kids := some (ks.take start ++ h.size :: ks.drop (max start endIdx)) }
      else if (pySlice ks start endIdx).contains j then { h.obj j with parent := some h.size }
      else h.obj j }

/-- the heap on which `str(grp)` is evaluated in that branch -/
def newMid (h : Heap) (cls : Cls) (sub : List Nat) : Heap :=
  (h.alloc { parent := none, kids := some sub, cls := cls, value := [] }).setParents sub h.size

theorem groupTokens_new (str : Heap → Nat → Text) (h : Heap) (self : Nat) (cls : Cls) (start stop : Nat) (ie ext : Bool)
    (ks : List Nat) (st : Nat) (hk : (h.obj self).kids = some ks) (hst : ks[start]? = some st)
    (hb : (ext && isInst (h.obj st) cls) = false)
    (hself : self < h.size) (hsub : ∀ k ∈ pySlice ks start (stop + (if ie then 1 else 0)), k < h.size ∧ k ≠ self) :
    groupTokens str h self cls start stop ie ext =
      .ok (newHeap h self cls ks start (stop + (if ie then 1 else 0))
            (str (newMid h cls (pySlice ks start (stop + (if ie then 1 else 0)))) h.size), h.size) := by
  unfold groupTokens
  simp only [hk, hst, hb]
  simp only [Bool.false_eq_true, if_false]
  congr 1
  congr 1
  unfold newHeap newMid
  simp only [Heap.setParents, Heap.setParent, Heap.setKids, Heap.setValue, Heap.setObj, Heap.alloc]
  congr 1
  funext j
  have hne : self ≠ h.size := by omega
  by_cases hjg : j = h.size
  · subst hjg
    have hns : h.size ∉ pySlice ks start (stop + (if ie then 1 else 0)) := by
      intro hm
      have := (hsub _ hm).1
      omega
    simp [hns, hne.symm]
  · by_cases hjs : j = self
    · subst hjs
      have hns : j ∉ pySlice ks start (stop + (if ie then 1 else 0)) := fun hm => (hsub _ hm).2 rfl
      simp [hns, hjg, hk]
    · by_cases hjm : j ∈ pySlice ks start (stop + (if ie then 1 else 0))
      · simp [hjm, hjg, hjs]
      · simp [hjm, hjg, hjs]

end Sql.BK

namespace Sql.BK

section NewGroup
variable {h : Heap} {rank : Nat → Nat} {T : Nat → Text} {self : Nat} {cls : Cls} {ks : List Nat} {start endIdx : Nat} {V : Text}

/-- ghost rank after the new group was put between `self` and the grouped children: everything at or above `self`'s level moves up by one,
the group takes `self`'s old level -/
def rankNew (rank : Nat → Nat) (self g : Nat) (j : Nat) : Nat :=
  if j = g then rank self else if rank self ≤ rank j then rank j + 1 else rank j

def textNew (T : Nat → Text) (g : Nat) (t : Text) (j : Nat) : Text := if j = g then t else T j

theorem newHeap_kids_cases {j : Nat} {ks' : List Nat}
    (hk' : ((newHeap h self cls ks start endIdx V).obj j).kids = some ks') :
    (j = h.size ∧ ks' = pySlice ks start endIdx) ∨
    (j ≠ h.size ∧ j = self ∧ ks' = ks.take start ++ h.size :: ks.drop (max start endIdx)) ∨
    (j ≠ h.size ∧ j ≠ self ∧ (h.obj j).kids = some ks') := by
  unfold newHeap at hk'
  simp only at hk'
  by_cases hjg : j = h.size
  · left
    rw [if_pos hjg] at hk'
    exact ⟨hjg, (Option.some.inj hk').symm⟩
  · rw [if_neg hjg] at hk'
    by_cases hjs : j = self
    · right; left
      rw [if_pos hjs] at hk'
      exact ⟨hjg, hjs, (Option.some.inj hk').symm⟩
    · right; right
      rw [if_neg hjs] at hk'
      refine ⟨hjg, hjs, ?_⟩
      split at hk'
      · exact hk'
      · exact hk'

/-- everything but "non-empty" survives also an empty slice (`start ≥ endIdx`: the new group is empty and is inserted before `start`) -/
theorem newHeap_inv0 (hinv : Inv0 h rank T) (hk : (h.obj self).kids = some ks) (hstart : start < ks.length)
    (hV : V = ((pySlice ks start endIdx).map T).flatten) :
    Inv0 (newHeap h self cls ks start endIdx V) (rankNew rank self h.size)
      (textNew T h.size ((pySlice ks start endIdx).map T).flatten) := by
  -- facts about the pieces of `ks`
  have hsplit := slice_split ks start endIdx
  have hrange := hinv.range self ks hk
  have hselfLt : self < h.size := hrange.1
  have hksLt : ∀ k ∈ ks, k < h.size := hrange.2
  have hksRank : ∀ k ∈ ks, rank k < rank self := hinv.rk self ks hk
  have hnd : ks.Nodup := hinv.nodup self ks hk
  have hsubMem : ∀ k, k ∈ pySlice ks start endIdx → k ∈ ks := fun k hm => mem_of_mem_slice hm
  have hpreMem : ∀ k, k ∈ ks.take start → k ∈ ks := fun k hm => List.mem_of_mem_take hm
  have hpostMem : ∀ k, k ∈ ks.drop (max start endIdx) → k ∈ ks := fun k hm => List.mem_of_mem_drop hm
  have hnd3 : (ks.take start ++ pySlice ks start endIdx ++ ks.drop (max start endIdx)).Nodup := by rw [← hsplit]; exact hnd
  have hdisj1 : ∀ k, k ∈ ks.take start → k ∉ pySlice ks start endIdx := by
    intro k h1 h2
    have := (List.nodup_append.mp (List.nodup_append.mp hnd3).1).2.2 k h1 k h2
    exact this rfl
  have hdisj2 : ∀ k, k ∈ ks.drop (max start endIdx) → k ∉ pySlice ks start endIdx := by
    intro k h1 h2
    have := (List.nodup_append.mp hnd3).2.2 k (List.mem_append_right _ h2) k h1
    exact this rfl
  have hgNotKs : h.size ∉ ks := fun hm => Nat.lt_irrefl _ (hksLt _ hm)
  have hselfNotKs : self ∉ ks := fun hm => Nat.lt_irrefl _ (hksRank _ hm)
  -- accessors of the new heap
  have objG : (newHeap h self cls ks start endIdx V).obj h.size =
      { parent := some self, kids := some (pySlice ks start endIdx), cls := cls, value := V } := by
    simp [newHeap]
  have objOther : ∀ j, j ≠ h.size → j ≠ self → j ∉ pySlice ks start endIdx →
      (newHeap h self cls ks start endIdx V).obj j = h.obj j := by
    intro j h1 h2 h3; simp [newHeap, h1, h2, h3]
  have objSub : ∀ j, j ∈ pySlice ks start endIdx →
      (newHeap h self cls ks start endIdx V).obj j = { h.obj j with parent := some h.size } := by
    intro j hm
    have h1 : j ≠ h.size := fun he => hgNotKs (he ▸ hsubMem j hm)
    have h2 : j ≠ self := fun he => hselfNotKs (he ▸ hsubMem j hm)
    simp [newHeap, h1, h2, hm]
  have objSelf : (newHeap h self cls ks start endIdx V).obj self =
      { h.obj self with kids := some (ks.take start ++ h.size :: ks.drop (max start endIdx)) } := by
    have h1 : self ≠ h.size := by omega
    simp [newHeap, h1]
  -- kids / value / parent of old objects that are not `self`
  have kidsOld : ∀ j, j ≠ h.size → j ≠ self → ((newHeap h self cls ks start endIdx V).obj j).kids = (h.obj j).kids := by
    intro j h1 h2
    by_cases hm : j ∈ pySlice ks start endIdx
    · rw [objSub j hm]
    · rw [objOther j h1 h2 hm]
  have valueOld : ∀ j, j ≠ h.size → ((newHeap h self cls ks start endIdx V).obj j).value = (h.obj j).value := by
    intro j h1
    by_cases h2 : j = self
    · subst h2; rw [objSelf]
    · by_cases hm : j ∈ pySlice ks start endIdx
      · rw [objSub j hm]
      · rw [objOther j h1 h2 hm]
  have TNewOld : ∀ j, j ≠ h.size → textNew T h.size ((pySlice ks start endIdx).map T).flatten j = T j := by
    intro j h1; simp [textNew, h1]
  have TNewMap : ∀ l : List Nat, (∀ k ∈ l, k ∈ ks) → l.map (textNew T h.size ((pySlice ks start endIdx).map T).flatten) = l.map T := by
    intro l hl
    apply List.map_congr_left
    intro k hkm
    exact TNewOld k (fun he => hgNotKs (he ▸ hl k hkm))
  have rankSelf : rankNew rank self h.size self = rank self + 1 := by
    have h1 : self ≠ h.size := by omega
    simp [rankNew, h1]
  have rankG : rankNew rank self h.size h.size = rank self := by simp [rankNew]
  have rankLow : ∀ k, k ∈ ks → rankNew rank self h.size k = rank k := by
    intro k hm
    have h1 : k ≠ h.size := fun he => hgNotKs (he ▸ hm)
    have h2 := hksRank k hm
    have h3 : ¬ rank self ≤ rank k := by omega
    simp [rankNew, h1, h3]
  have rankMono : ∀ a b, a ≠ h.size → b ≠ h.size → rank a < rank b → rankNew rank self h.size a < rankNew rank self h.size b := by
    intro a b ha hb hab
    simp only [rankNew, ha, hb, if_false]
    split <;> split <;> omega
  refine ⟨?_, ?_, ?_, ?_, ?_, ?_, ?_⟩
  · -- range
    intro j ks' hk'
    rcases newHeap_kids_cases hk' with ⟨rfl, rfl⟩ | ⟨_, rfl, rfl⟩ | ⟨_, _, hold⟩
    · refine ⟨by simp [newHeap], ?_⟩
      intro k hm
      have := hksLt k (hsubMem k hm)
      simp only [newHeap]; omega
    · refine ⟨by simp only [newHeap]; omega, ?_⟩
      intro k hm
      simp only [newHeap]
      rcases List.mem_append.mp hm with h1 | h1
      · have := hksLt k (hpreMem k h1); omega
      · rcases List.mem_cons.mp h1 with rfl | h1
        · omega
        · have := hksLt k (hpostMem k h1); omega
    · have := hinv.range j ks' hold
      refine ⟨by simp only [newHeap]; omega, ?_⟩
      intro k hm
      have := this.2 k hm
      simp only [newHeap]; omega
  · -- parent
    intro j ks' hk' k hm
    rcases newHeap_kids_cases hk' with ⟨rfl, rfl⟩ | ⟨_, rfl, rfl⟩ | ⟨hjg, hjs, hold⟩
    · rw [objSub k hm]
    · rcases List.mem_append.mp hm with h1 | h1
      · have hkks := hpreMem k h1
        rw [objOther k (fun he => hgNotKs (he ▸ hkks)) (fun he => hselfNotKs (he ▸ hkks)) (hdisj1 k h1)]
        exact hinv.par j ks hk k hkks
      · rcases List.mem_cons.mp h1 with rfl | h1
        · rw [objG]
        · have hkks := hpostMem k h1
          rw [objOther k (fun he => hgNotKs (he ▸ hkks)) (fun he => hselfNotKs (he ▸ hkks)) (hdisj2 k h1)]
          exact hinv.par j ks hk k hkks
    · have hpk := hinv.par j ks' hold k hm
      have hklt := (hinv.range j ks' hold).2 k hm
      have h1 : k ≠ h.size := by omega
      have h3 : k ∉ pySlice ks start endIdx := by
        intro hm2
        have := hinv.par self ks hk k (hsubMem k hm2)
        rw [this] at hpk
        exact hjs (Option.some.inj hpk).symm
      by_cases h2 : k = self
      · subst h2; rw [objSelf]; exact hpk
      · rw [objOther k h1 h2 h3]; exact hpk
  · -- nodup
    intro j ks' hk'
    rcases newHeap_kids_cases hk' with ⟨rfl, rfl⟩ | ⟨_, rfl, rfl⟩ | ⟨_, _, hold⟩
    · exact List.Nodup.sublist (slice_sublist ks start endIdx) hnd
    · have hpp : (ks.take start ++ ks.drop (max start endIdx)).Nodup := by
        refine List.Nodup.sublist ?_ hnd3
        rw [List.append_assoc]
        exact List.Sublist.append (List.Sublist.refl _) (List.sublist_append_right _ _)
      rw [List.nodup_append] at hpp ⊢
      refine ⟨hpp.1, ?_, ?_⟩
      · rw [List.nodup_cons]
        exact ⟨fun hm => hgNotKs (hpostMem _ hm), hpp.2.1⟩
      · intro a ha b hb
        rcases List.mem_cons.mp hb with rfl | hb
        · intro he; exact hgNotKs (he ▸ hpreMem a ha)
        · exact hpp.2.2 a ha b hb
    · exact hinv.nodup j ks' hold
  · -- rank
    intro j ks' hk' k hm
    rcases newHeap_kids_cases hk' with ⟨rfl, rfl⟩ | ⟨_, rfl, rfl⟩ | ⟨hjg, hjs, hold⟩
    · rw [rankG, rankLow k (hsubMem k hm)]; exact hksRank k (hsubMem k hm)
    · rw [rankSelf]
      rcases List.mem_append.mp hm with h1 | h1
      · rw [rankLow k (hpreMem k h1)]; have := hksRank k (hpreMem k h1); omega
      · rcases List.mem_cons.mp h1 with rfl | h1
        · rw [rankG]; omega
        · rw [rankLow k (hpostMem k h1)]; have := hksRank k (hpostMem k h1); omega
    · have hklt := (hinv.range j ks' hold).2 k hm
      exact rankMono k j (by omega) hjg (hinv.rk j ks' hold k hm)
  · -- leaf text
    intro l hl
    have hlg : l ≠ h.size := by
      intro he; rw [he, objG] at hl; cases hl
    have hls : l ≠ self := by
      intro he; rw [he, objSelf] at hl; cases hl
    rw [TNewOld l hlg, valueOld l hlg]
    rw [kidsOld l hlg hls] at hl
    exact hinv.leafT l hl
  · -- group text
    intro j ks' hk'
    rcases newHeap_kids_cases hk' with ⟨rfl, rfl⟩ | ⟨_, rfl, rfl⟩ | ⟨hjg, hjs, hold⟩
    · rw [TNewMap _ hsubMem]; simp [textNew]
    · have h1 : j ≠ h.size := by omega
      rw [TNewOld j h1, hinv.grpT j ks hk]
      rw [List.map_append, List.map_cons, TNewMap _ hpreMem, TNewMap _ hpostMem]
      have : textNew T h.size ((pySlice ks start endIdx).map T).flatten h.size = ((pySlice ks start endIdx).map T).flatten := by
        simp [textNew]
      rw [this]
      conv => lhs; rw [hsplit]
      simp [List.map_append, List.flatten_append]
    · rw [TNewOld j hjg, hinv.grpT j ks' hold]
      congr 1
      symm
      apply List.map_congr_left
      intro k hm
      have hklt := (hinv.range j ks' hold).2 k hm
      exact TNewOld k (by omega)
  · -- cache
    intro j ks' hk'
    rcases newHeap_kids_cases hk' with ⟨rfl, rfl⟩ | ⟨_, rfl, rfl⟩ | ⟨hjg, hjs, hold⟩
    · rw [objG]; simp [textNew, hV]
    · have h1 : j ≠ h.size := by omega
      rw [TNewOld j h1, valueOld j h1]; exact hinv.cache j ks hk
    · rw [TNewOld j hjg, valueOld j hjg]; exact hinv.cache j ks' hold

/-- with a non-empty slice the groups stay non-empty -/
theorem newHeap_nonempty (hne : ∀ g ks, (h.obj g).kids = some ks → ks ≠ []) (hlt : start < endIdx) (hstart : start < ks.length) :
    ∀ g ks', ((newHeap h self cls ks start endIdx V).obj g).kids = some ks' → ks' ≠ [] := by
  have hsubNe : pySlice ks start endIdx ≠ [] := by
    intro he
    have : (pySlice ks start endIdx).length = 0 := by rw [he]; rfl
    unfold pySlice at this
    rw [List.length_drop, List.length_take] at this
    omega
  intro j ks' hk'
  rcases newHeap_kids_cases hk' with ⟨rfl, rfl⟩ | ⟨_, rfl, rfl⟩ | ⟨_, _, hold⟩
  · exact hsubNe
  · simp
  · exact hne j ks' hold

theorem newHeap_inv (hinv : Inv h rank T) (hk : (h.obj self).kids = some ks) (hlt : start < endIdx) (hstart : start < ks.length)
    (hV : V = ((pySlice ks start endIdx).map T).flatten) :
    Inv (newHeap h self cls ks start endIdx V) (rankNew rank self h.size)
      (textNew T h.size ((pySlice ks start endIdx).map T).flatten) :=
  ⟨newHeap_inv0 hinv.toInv0 hk hstart hV, newHeap_nonempty hinv.nonempty hlt hstart⟩

end NewGroup

end Sql.BK

namespace Sql.BK

/-! ## the branch that extends an existing group -/

/-- the heap after `group_tokens(…, extend=True)` appended the slice to the group `st`, in closed form -/
def extHeap (h : Heap) (self st : Nat) (ks kst : List Nat) (start endIdx : Nat) (V : Text) : Heap :=
  { size := h.size
    obj := fun j =>
      if j = st then { h.obj st with kids := some (kst ++ pySlice ks (start + 1) endIdx), value := V }
      else if j = self then { h.obj self with kids := some (pyDelSlice ks (start + 1) endIdx) }
      else if (pySlice ks (start + 1) endIdx).contains j then { h.obj j with parent := some st }
      else h.obj j }

/-- the heap on which `str(start)` is evaluated in that branch -/
def extMid (h : Heap) (self st : Nat) (ks kst : List Nat) (start endIdx : Nat) : Heap :=
  (h.setKids st (kst ++ pySlice ks (start + 1) endIdx)).setKids self (pyDelSlice ks (start + 1) endIdx)

theorem groupTokens_ext (str : Heap → Nat → Text) (h : Heap) (self : Nat) (cls : Cls) (start stop : Nat) (ie ext : Bool)
    (ks kst : List Nat) (st : Nat) (hk : (h.obj self).kids = some ks) (hst : ks[start]? = some st)
    (hkst : (h.obj st).kids = some kst)
    (hb : (ext && isInst (h.obj st) cls) = true)
    (hne : st ≠ self) (hsub : ∀ k ∈ pySlice ks (start + 1) (stop + (if ie then 1 else 0)), k ≠ st ∧ k ≠ self) :
    groupTokens str h self cls start stop ie ext =
      .ok (extHeap h self st ks kst start (stop + (if ie then 1 else 0))
            (str (extMid h self st ks kst start (stop + (if ie then 1 else 0))) st), st) := by
  unfold groupTokens
  simp only [hk, hst, hb]
  simp only [if_true]
  congr 1
  congr 1
  unfold extHeap extMid
  simp only [Heap.setParents, Heap.setKids, Heap.setValue, Heap.setObj, hkst, Option.getD_some]
  congr 1
  funext j
  by_cases hjt : j = st
  · subst hjt
    have hns : j ∉ pySlice ks (start + 1) (stop + (if ie then 1 else 0)) := fun hm => (hsub _ hm).1 rfl
    simp [hns, hne]
  · by_cases hjs : j = self
    · subst hjs
      have hns : j ∉ pySlice ks (start + 1) (stop + (if ie then 1 else 0)) := fun hm => (hsub _ hm).2 rfl
      simp [hns, hjt, hk, hne]
    · by_cases hjm : j ∈ pySlice ks (start + 1) (stop + (if ie then 1 else 0))
      · simp [hjm, hjt, hjs]
      · simp [hjm, hjt, hjs]

end Sql.BK

namespace Sql.BK

section Extend
variable {h : Heap} {rank : Nat → Nat} {T : Nat → Text} {self st : Nat} {ks kst : List Nat} {start endIdx : Nat} {V : Text}

theorem extHeap_kids_cases {j : Nat} {ks' : List Nat}
    (hk' : ((extHeap h self st ks kst start endIdx V).obj j).kids = some ks') :
    (j = st ∧ ks' = kst ++ pySlice ks (start + 1) endIdx) ∨
    (j ≠ st ∧ j = self ∧ ks' = pyDelSlice ks (start + 1) endIdx) ∨
    (j ≠ st ∧ j ≠ self ∧ (h.obj j).kids = some ks') := by
  unfold extHeap at hk'
  simp only at hk'
  by_cases hjg : j = st
  · left
    rw [if_pos hjg] at hk'
    exact ⟨hjg, (Option.some.inj hk').symm⟩
  · rw [if_neg hjg] at hk'
    by_cases hjs : j = self
    · right; left
      rw [if_pos hjs] at hk'
      exact ⟨hjg, hjs, (Option.some.inj hk').symm⟩
    · right; right
      rw [if_neg hjs] at hk'
      refine ⟨hjg, hjs, ?_⟩
      split at hk'
      · exact hk'
      · exact hk'

theorem take_succ_of_getElem? {α : Type} (l : List α) (n : Nat) (x : α) (hx : l[n]? = some x) : l.take (n + 1) = l.take n ++ [x] := by
  rw [List.take_succ, hx]; rfl

theorem extHeap_inv0 (hinv : Inv0 h rank T) (hk : (h.obj self).kids = some ks) (hst : ks[start]? = some st)
    (hkst : (h.obj st).kids = some kst)
    (hV : V = T st ++ ((pySlice ks (start + 1) endIdx).map T).flatten) :
    Inv0 (extHeap h self st ks kst start endIdx V) (rankNew rank self st)
      (textNew T st (T st ++ ((pySlice ks (start + 1) endIdx).map T).flatten)) := by
  have hsplit := slice_split ks (start + 1) endIdx
  have htake := take_succ_of_getElem? ks start st hst
  have hstMem : st ∈ ks := List.mem_of_getElem? hst
  have hrange := hinv.range self ks hk
  have hksLt : ∀ k ∈ ks, k < h.size := hrange.2
  have hksRank : ∀ k ∈ ks, rank k < rank self := hinv.rk self ks hk
  have hkstRank : ∀ k ∈ kst, rank k < rank st := hinv.rk st kst hkst
  have hstRank : rank st < rank self := hksRank st hstMem
  have hnd : ks.Nodup := hinv.nodup self ks hk
  have hndst : kst.Nodup := hinv.nodup st kst hkst
  have hstSelf : st ≠ self := by intro he; rw [he] at hstRank; exact Nat.lt_irrefl _ hstRank
  have hsubMem : ∀ k, k ∈ pySlice ks (start + 1) endIdx → k ∈ ks := fun k hm => mem_of_mem_slice hm
  have hpreMem : ∀ k, k ∈ ks.take start → k ∈ ks := fun k hm => List.mem_of_mem_take hm
  have hpostMem : ∀ k, k ∈ ks.drop (max (start + 1) endIdx) → k ∈ ks := fun k hm => List.mem_of_mem_drop hm
  have hnd3 : ((ks.take start ++ [st]) ++ pySlice ks (start + 1) endIdx ++ ks.drop (max (start + 1) endIdx)).Nodup := by
    rw [← htake, ← hsplit]; exact hnd
  have hnd3' := List.nodup_append.mp hnd3
  have hnd2' := List.nodup_append.mp hnd3'.1
  have hnd1' := List.nodup_append.mp hnd2'.1
  have hstNotSub : st ∉ pySlice ks (start + 1) endIdx := by
    intro hm
    exact hnd2'.2.2 st (List.mem_append_right _ (List.mem_singleton.mpr rfl)) st hm rfl
  have hstNotPre : st ∉ ks.take start := by
    intro hm
    exact hnd1'.2.2 st hm st (List.mem_singleton.mpr rfl) rfl
  have hstNotPost : st ∉ ks.drop (max (start + 1) endIdx) := by
    intro hm
    exact hnd3'.2.2 st (List.mem_append_left _ (List.mem_append_right _ (List.mem_singleton.mpr rfl))) st hm rfl
  have hpreNotSub : ∀ k, k ∈ ks.take start → k ∉ pySlice ks (start + 1) endIdx := by
    intro k h1 h2
    exact hnd2'.2.2 k (List.mem_append_left _ h1) k h2 rfl
  have hpostNotSub : ∀ k, k ∈ ks.drop (max (start + 1) endIdx) → k ∉ pySlice ks (start + 1) endIdx := by
    intro k h1 h2
    exact hnd3'.2.2 k (List.mem_append_right _ h2) k h1 rfl
  have hselfNotKs : self ∉ ks := fun hm => Nat.lt_irrefl _ (hksRank _ hm)
  have hkstNotKs : ∀ k, k ∈ kst → k ∉ ks := by
    intro k h1 h2
    have p1 := hinv.par st kst hkst k h1
    have p2 := hinv.par self ks hk k h2
    rw [p1] at p2
    exact hstSelf (Option.some.inj p2)
  have hstNotKst : st ∉ kst := fun hm => Nat.lt_irrefl _ (hkstRank _ hm)
  have hselfNotKst : self ∉ kst := by
    intro hm; have := hkstRank _ hm; omega
  have hdel : pyDelSlice ks (start + 1) endIdx = ks.take start ++ st :: ks.drop (max (start + 1) endIdx) := by
    unfold pyDelSlice; rw [htake]; simp
  -- accessors
  have objSt : (extHeap h self st ks kst start endIdx V).obj st =
      { h.obj st with kids := some (kst ++ pySlice ks (start + 1) endIdx), value := V } := by simp [extHeap]
  have objSelf : (extHeap h self st ks kst start endIdx V).obj self =
      { h.obj self with kids := some (pyDelSlice ks (start + 1) endIdx) } := by
    simp [extHeap, hstSelf.symm]
  have objSub : ∀ j, j ∈ pySlice ks (start + 1) endIdx →
      (extHeap h self st ks kst start endIdx V).obj j = { h.obj j with parent := some st } := by
    intro j hm
    have h1 : j ≠ st := fun he => hstNotSub (he ▸ hm)
    have h2 : j ≠ self := fun he => hselfNotKs (he ▸ hsubMem j hm)
    simp [extHeap, h1, h2, hm]
  have objOther : ∀ j, j ≠ st → j ≠ self → j ∉ pySlice ks (start + 1) endIdx →
      (extHeap h self st ks kst start endIdx V).obj j = h.obj j := by
    intro j h1 h2 h3; simp [extHeap, h1, h2, h3]
  have kidsOld : ∀ j, j ≠ st → j ≠ self → ((extHeap h self st ks kst start endIdx V).obj j).kids = (h.obj j).kids := by
    intro j h1 h2
    by_cases hm : j ∈ pySlice ks (start + 1) endIdx
    · rw [objSub j hm]
    · rw [objOther j h1 h2 hm]
  have valueOld : ∀ j, j ≠ st → ((extHeap h self st ks kst start endIdx V).obj j).value = (h.obj j).value := by
    intro j h1
    by_cases h2 : j = self
    · subst h2; rw [objSelf]
    · by_cases hm : j ∈ pySlice ks (start + 1) endIdx
      · rw [objSub j hm]
      · rw [objOther j h1 h2 hm]
  have TNewOld : ∀ j, j ≠ st → textNew T st (T st ++ ((pySlice ks (start + 1) endIdx).map T).flatten) j = T j := by
    intro j h1; simp [textNew, h1]
  have TNewSt : textNew T st (T st ++ ((pySlice ks (start + 1) endIdx).map T).flatten) st =
      T st ++ ((pySlice ks (start + 1) endIdx).map T).flatten := by simp [textNew]
  have TNewMap : ∀ l : List Nat, st ∉ l →
      l.map (textNew T st (T st ++ ((pySlice ks (start + 1) endIdx).map T).flatten)) = l.map T := by
    intro l hl
    apply List.map_congr_left
    intro k hkm
    exact TNewOld k (fun he => hl (he ▸ hkm))
  have rankSelf : rankNew rank self st self = rank self + 1 := by simp [rankNew, hstSelf.symm]
  have rankSt : rankNew rank self st st = rank self := by simp [rankNew]
  have rankLow : ∀ k, k ≠ st → rank k < rank self → rankNew rank self st k = rank k := by
    intro k h1 h2
    have h3 : ¬ rank self ≤ rank k := by omega
    simp [rankNew, h1, h3]
  have rankMono : ∀ a b, a ≠ st → b ≠ st → rank a < rank b → rankNew rank self st a < rankNew rank self st b := by
    intro a b ha hb hab
    simp only [rankNew, ha, hb, if_false]
    split <;> split <;> omega
  refine ⟨?_, ?_, ?_, ?_, ?_, ?_, ?_⟩
  · -- range
    intro j ks' hk'
    have hsz : (extHeap h self st ks kst start endIdx V).size = h.size := rfl
    rw [hsz]
    rcases extHeap_kids_cases hk' with ⟨rfl, rfl⟩ | ⟨_, rfl, rfl⟩ | ⟨_, _, hold⟩
    · refine ⟨hksLt j hstMem, ?_⟩
      intro k hm
      rcases List.mem_append.mp hm with h1 | h1
      · exact (hinv.range j kst hkst).2 k h1
      · exact hksLt k (hsubMem k h1)
    · refine ⟨hrange.1, ?_⟩
      intro k hm
      rw [hdel] at hm
      rcases List.mem_append.mp hm with h1 | h1
      · exact hksLt k (hpreMem k h1)
      · rcases List.mem_cons.mp h1 with rfl | h1
        · exact hksLt k hstMem
        · exact hksLt k (hpostMem k h1)
    · exact hinv.range j ks' hold
  · -- parent
    intro j ks' hk' k hm
    rcases extHeap_kids_cases hk' with ⟨rfl, rfl⟩ | ⟨_, rfl, rfl⟩ | ⟨hjg, hjs, hold⟩
    · rcases List.mem_append.mp hm with h1 | h1
      · have hkne : k ≠ j := fun he => hstNotKst (he ▸ h1)
        have hkns : k ≠ self := fun he => hselfNotKst (he ▸ h1)
        have hknsub : k ∉ pySlice ks (start + 1) endIdx := fun h2 => hkstNotKs k h1 (hsubMem k h2)
        rw [objOther k hkne hkns hknsub]
        exact hinv.par j kst hkst k h1
      · rw [objSub k h1]
    · rw [hdel] at hm
      rcases List.mem_append.mp hm with h1 | h1
      · have hkks := hpreMem k h1
        rw [objOther k (fun he => hstNotPre (he ▸ h1)) (fun he => hselfNotKs (he ▸ hkks)) (hpreNotSub k h1)]
        exact hinv.par j ks hk k hkks
      · rcases List.mem_cons.mp h1 with rfl | h1
        · rw [objSt]; exact hinv.par j ks hk k hstMem
        · have hkks := hpostMem k h1
          rw [objOther k (fun he => hstNotPost (he ▸ h1)) (fun he => hselfNotKs (he ▸ hkks)) (hpostNotSub k h1)]
          exact hinv.par j ks hk k hkks
    · have hpk := hinv.par j ks' hold k hm
      have h1 : k ≠ st := by
        intro he
        have := hinv.par self ks hk st hstMem
        rw [he, this] at hpk
        exact hjs (Option.some.inj hpk).symm
      have h3 : k ∉ pySlice ks (start + 1) endIdx := by
        intro hm2
        have := hinv.par self ks hk k (hsubMem k hm2)
        rw [this] at hpk
        exact hjs (Option.some.inj hpk).symm
      by_cases h2 : k = self
      · subst h2; rw [objSelf]; exact hpk
      · rw [objOther k h1 h2 h3]; exact hpk
  · -- nodup
    intro j ks' hk'
    rcases extHeap_kids_cases hk' with ⟨rfl, rfl⟩ | ⟨_, rfl, rfl⟩ | ⟨_, _, hold⟩
    · rw [List.nodup_append]
      refine ⟨hndst, List.Nodup.sublist (slice_sublist ks (start + 1) endIdx) hnd, ?_⟩
      intro a ha b hb he
      exact hkstNotKs a ha (he ▸ hsubMem b hb)
    · refine List.Nodup.sublist ?_ hnd
      unfold pyDelSlice
      conv => rhs; rw [← List.take_append_drop (start + 1) ks]
      apply List.Sublist.append (List.Sublist.refl _)
      have : max (start + 1) endIdx = (start + 1) + (max (start + 1) endIdx - (start + 1)) := by omega
      rw [this, ← List.drop_drop]
      exact List.drop_sublist _ _
    · exact hinv.nodup j ks' hold
  · -- rank
    intro j ks' hk' k hm
    rcases extHeap_kids_cases hk' with ⟨rfl, rfl⟩ | ⟨_, rfl, rfl⟩ | ⟨hjg, hjs, hold⟩
    · rw [rankSt]
      rcases List.mem_append.mp hm with h1 | h1
      · have := hkstRank k h1
        rw [rankLow k (fun he => hstNotKst (he ▸ h1)) (by omega)]; omega
      · rw [rankLow k (fun he => hstNotSub (he ▸ h1)) (hksRank k (hsubMem k h1))]; exact hksRank k (hsubMem k h1)
    · rw [rankSelf]
      rw [hdel] at hm
      rcases List.mem_append.mp hm with h1 | h1
      · rw [rankLow k (fun he => hstNotPre (he ▸ h1)) (hksRank k (hpreMem k h1))]
        have := hksRank k (hpreMem k h1); omega
      · rcases List.mem_cons.mp h1 with rfl | h1
        · rw [rankSt]; omega
        · rw [rankLow k (fun he => hstNotPost (he ▸ h1)) (hksRank k (hpostMem k h1))]
          have := hksRank k (hpostMem k h1); omega
    · have h1 : k ≠ st := by
        intro he
        have hpk := hinv.par j ks' hold k hm
        have := hinv.par self ks hk st hstMem
        rw [he, this] at hpk
        exact hjs (Option.some.inj hpk).symm
      exact rankMono k j h1 hjg (hinv.rk j ks' hold k hm)
  · -- leaf text
    intro l hl
    have hlg : l ≠ st := by
      intro he; rw [he, objSt] at hl; cases hl
    have hls : l ≠ self := by
      intro he; rw [he, objSelf] at hl; cases hl
    rw [TNewOld l hlg, valueOld l hlg]
    rw [kidsOld l hlg hls] at hl
    exact hinv.leafT l hl
  · -- group text
    intro j ks' hk'
    rcases extHeap_kids_cases hk' with ⟨rfl, rfl⟩ | ⟨_, rfl, rfl⟩ | ⟨hjg, hjs, hold⟩
    · rw [TNewSt, List.map_append, TNewMap _ hstNotKst, TNewMap _ hstNotSub, List.flatten_append, hinv.grpT j kst hkst]
    · rw [TNewOld j hstSelf.symm, hinv.grpT j ks hk, hdel]
      rw [List.map_append, List.map_cons, TNewMap _ hstNotPre, TNewMap _ hstNotPost, TNewSt]
      conv => lhs; rw [hsplit, htake]
      simp [List.map_append, List.flatten_append]
    · rw [TNewOld j hjg, hinv.grpT j ks' hold]
      congr 1
      symm
      apply TNewMap
      intro hm
      have hpk := hinv.par j ks' hold st hm
      have := hinv.par self ks hk st hstMem
      rw [this] at hpk
      exact hjs (Option.some.inj hpk).symm
  · -- cache
    intro j ks' hk'
    rcases extHeap_kids_cases hk' with ⟨rfl, rfl⟩ | ⟨_, rfl, rfl⟩ | ⟨hjg, hjs, hold⟩
    · rw [objSt, TNewSt]; exact hV
    · rw [TNewOld j hstSelf.symm, valueOld j hstSelf.symm]; exact hinv.cache j ks hk
    · rw [TNewOld j hjg, valueOld j hjg]; exact hinv.cache j ks' hold

/-- extending a group never empties a group (whatever the slice) -/
theorem extHeap_nonempty (hne : ∀ g ks, (h.obj g).kids = some ks → ks ≠ []) (hst : ks[start]? = some st)
    (hkst : (h.obj st).kids = some kst) :
    ∀ g ks', ((extHeap h self st ks kst start endIdx V).obj g).kids = some ks' → ks' ≠ [] := by
  have htake := take_succ_of_getElem? ks start st hst
  have hdel : pyDelSlice ks (start + 1) endIdx = ks.take start ++ st :: ks.drop (max (start + 1) endIdx) := by
    unfold pyDelSlice; rw [htake]; simp
  intro j ks' hk'
  rcases extHeap_kids_cases hk' with ⟨rfl, rfl⟩ | ⟨_, rfl, rfl⟩ | ⟨_, _, hold⟩
  · have := hne j kst hkst
    intro he
    exact this (List.append_eq_nil_iff.mp he).1
  · rw [hdel]; simp
  · exact hne j ks' hold

theorem extHeap_inv (hinv : Inv h rank T) (hk : (h.obj self).kids = some ks) (hst : ks[start]? = some st)
    (hkst : (h.obj st).kids = some kst)
    (hV : V = T st ++ ((pySlice ks (start + 1) endIdx).map T).flatten) :
    Inv (extHeap h self st ks kst start endIdx V) (rankNew rank self st)
      (textNew T st (T st ++ ((pySlice ks (start + 1) endIdx).map T).flatten)) :=
  ⟨extHeap_inv0 hinv.toInv0 hk hst hkst hV, extHeap_nonempty hinv.nonempty hst hkst⟩

end Extend

end Sql.BK

namespace Sql.BK

/-! ## one call, any sequence of calls, the initial statement -/

theorem rankNew_le (rank : Nat → Nat) (self g : Nat) (R : Nat) (hR : ∀ i, rank i ≤ R) : ∀ i, rankNew rank self g i ≤ R + 1 := by
  intro i
  simp only [rankNew]
  have h1 := hR i
  have h2 := hR self
  split
  · omega
  · split <;> omega

/-- **one call of `group_tokens` keeps `Inv0`**, for every group `self`, class, slice (also an empty one) and flag combination on which the
call returns, provided the recursion budget of `str()` exceeds the depth (`rank self`); with a non-empty slice
(`start < end + include_end`) groups also stay non-empty. -/
theorem groupTokens_inv0 {h h' : Heap} {rank : Nat → Nat} {T : Nat → Text} (fuel : Nat) (self : Nat) (cls : Cls) (start stop : Nat)
    (ie ext : Bool) (g : Nat) (hinv : Inv0 h rank T) (hfuel : rank self < fuel)
    (hcall : groupTokens (fun hx i => strF hx fuel i) h self cls start stop ie ext = .ok (h', g)) :
    ∃ rank' T', Inv0 h' rank' T' ∧ (∀ R, (∀ i, rank i ≤ R) → ∀ i, rank' i ≤ R + 1) ∧
      (start < stop + (if ie then 1 else 0) → (∀ g ks, (h.obj g).kids = some ks → ks ≠ []) →
        ∀ g ks, (h'.obj g).kids = some ks → ks ≠ []) := by
  cases hk : (h.obj self).kids with
  | none => simp [groupTokens, hk] at hcall
  | some ks =>
    cases hst : ks[start]? with
    | none => simp [groupTokens, hk, hst] at hcall
    | some st =>
      have hstMem : st ∈ ks := List.mem_of_getElem? hst
      have hksRank : ∀ k ∈ ks, rank k < rank self := hinv.rk self ks hk
      have hksLt := (hinv.range self ks hk).2
      have hselfLt := (hinv.range self ks hk).1
      have hstSelf : st ≠ self := by intro he; have := hksRank st hstMem; rw [he] at this; exact Nat.lt_irrefl _ this
      obtain ⟨f, rfl⟩ : ∃ f, fuel = f + 1 := ⟨fuel - 1, by omega⟩
      cases hb : (ext && isInst (h.obj st) cls) with
      | true =>
        have hsome : (h.obj st).kids.isSome = true := by
          simp only [isInst, Bool.and_eq_true] at hb
          exact hb.2.1
        obtain ⟨kst, hkst⟩ := Option.isSome_iff_exists.mp hsome
        have hnd : ks.Nodup := hinv.nodup self ks hk
        have htake := take_succ_of_getElem? ks start st hst
        have hsplit := slice_split ks (start + 1) (stop + (if ie then 1 else 0))
        have hstNotSub : st ∉ pySlice ks (start + 1) (stop + (if ie then 1 else 0)) := by
          intro hm
          have hnd3 : ((ks.take start ++ [st]) ++ pySlice ks (start + 1) (stop + (if ie then 1 else 0)) ++
              ks.drop (max (start + 1) (stop + (if ie then 1 else 0)))).Nodup := by rw [← htake, ← hsplit]; exact hnd
          exact (List.nodup_append.mp (List.nodup_append.mp hnd3).1).2.2 st (List.mem_append_right _ (List.mem_singleton.mpr rfl)) st hm rfl
        have hsub : ∀ k ∈ pySlice ks (start + 1) (stop + (if ie then 1 else 0)), k ≠ st ∧ k ≠ self := by
          intro k hm
          refine ⟨fun he => hstNotSub (he ▸ hm), ?_⟩
          intro he
          have := hksRank k (mem_of_mem_slice hm)
          rw [he] at this; exact Nat.lt_irrefl _ this
        rw [groupTokens_ext _ h self cls start stop ie ext ks kst st hk hst hkst hb hstSelf hsub] at hcall
        injection hcall with hcall
        injection hcall with hh hg
        subst hh
        refine ⟨_, _, extHeap_inv0 hinv hk hst hkst ?_, fun R hR => rankNew_le rank self st R hR,
          fun _ hne => extHeap_nonempty hne hst hkst⟩
        -- the value `str(start)` computed on the intermediate heap is the text
        have hmidSt : ((extMid h self st ks kst start (stop + (if ie then 1 else 0))).obj st).kids =
            some (kst ++ pySlice ks (start + 1) (stop + (if ie then 1 else 0))) := by
          simp [extMid, Heap.setKids, Heap.setObj, hstSelf]
        have hagree : ∀ j, rank j < rank self → j ≠ st →
            ((extMid h self st ks kst start (stop + (if ie then 1 else 0))).obj j).kids = (h.obj j).kids ∧
            ((extMid h self st ks kst start (stop + (if ie then 1 else 0))).obj j).value = (h.obj j).value := by
          intro j hj hne
          have hjs : j ≠ self := by intro he; rw [he] at hj; exact Nat.lt_irrefl _ hj
          simp [extMid, Heap.setKids, Heap.setObj, hjs, hne]
        have hnokid : ∀ i ks', (h.obj i).kids = some ks' → st ∈ ks' → ¬ rank i < rank self := by
          intro i ks' hki hm hlt
          have p1 := hinv.par i ks' hki st hm
          have p2 := hinv.par self ks hk st hstMem
          rw [p1] at p2
          have : i = self := Option.some.inj p2
          rw [this] at hlt; exact Nat.lt_irrefl _ hlt
        have hwalk : ∀ k, rank k < rank self → k ≠ st →
            strF (extMid h self st ks kst start (stop + (if ie then 1 else 0))) f k = T k := by
          intro k hk1 hk2
          rw [strF_frame hinv self st hnokid hagree f k hk1 hk2]
          exact strF_eq hinv f k (by omega)
        simp only [strF, hmidSt]
        rw [List.map_append, List.flatten_append, hinv.grpT st kst hkst]
        congr 1
        · congr 1
          apply List.map_congr_left
          intro k hm
          have h1 := hinv.rk st kst hkst k hm
          have h2 := hksRank st hstMem
          exact hwalk k (by omega) (by intro he; rw [he] at h1; exact Nat.lt_irrefl _ h1)
        · congr 1
          apply List.map_congr_left
          intro k hm
          exact hwalk k (hksRank k (mem_of_mem_slice hm)) (hsub k hm).1
      | false =>
        have hsub : ∀ k ∈ pySlice ks start (stop + (if ie then 1 else 0)), k < h.size ∧ k ≠ self := by
          intro k hm
          refine ⟨hksLt k (mem_of_mem_slice hm), ?_⟩
          intro he
          have := hksRank k (mem_of_mem_slice hm)
          rw [he] at this; exact Nat.lt_irrefl _ this
        rw [groupTokens_new _ h self cls start stop ie ext ks st hk hst hb hselfLt hsub] at hcall
        injection hcall with hcall
        injection hcall with hh hg
        subst hh
        have hstart : start < ks.length := by
          rcases List.getElem?_eq_some_iff.mp hst with ⟨hlt, _⟩
          exact hlt
        refine ⟨_, _, newHeap_inv0 hinv hk hstart ?_, fun R hR => rankNew_le rank self h.size R hR,
          fun hpre hne => newHeap_nonempty hne hpre hstart⟩
        have hgNotSub : h.size ∉ pySlice ks start (stop + (if ie then 1 else 0)) := by
          intro hm; have := (hsub _ hm).1; omega
        have hmidG : ((newMid h cls (pySlice ks start (stop + (if ie then 1 else 0)))).obj h.size).kids =
            some (pySlice ks start (stop + (if ie then 1 else 0))) := by
          simp [newMid, Heap.setParents, Heap.alloc, hgNotSub]
        have hagree : ∀ j, rank j < rank self → j ≠ h.size →
            ((newMid h cls (pySlice ks start (stop + (if ie then 1 else 0)))).obj j).kids = (h.obj j).kids ∧
            ((newMid h cls (pySlice ks start (stop + (if ie then 1 else 0)))).obj j).value = (h.obj j).value := by
          intro j _ hne
          by_cases hm : j ∈ pySlice ks start (stop + (if ie then 1 else 0))
          · simp [newMid, Heap.setParents, Heap.alloc, hne, hm]
          · simp [newMid, Heap.setParents, Heap.alloc, hne, hm]
        have hnokid : ∀ i ks', (h.obj i).kids = some ks' → h.size ∈ ks' → ¬ rank i < rank self := by
          intro i ks' hki hm _
          have := (hinv.range i ks' hki).2 _ hm
          exact Nat.lt_irrefl _ this
        simp only [strF, hmidG]
        congr 1
        apply List.map_congr_left
        intro k hm
        have hk1 := hksRank k (mem_of_mem_slice hm)
        rw [strF_frame hinv self h.size hnokid hagree f k hk1 (by have := (hsub k hm).1; omega)]
        exact strF_eq hinv f k (by omega)

/-- **one call of `group_tokens` keeps the invariant**, for every group `self`, class, slice and flag combination on which the call
returns (the slice must be non-empty: `start < end + include_end`, as in every call the grouping passes make), provided the recursion budget
of `str()` exceeds the depth (`rank self`). -/
theorem groupTokens_inv {h h' : Heap} {rank : Nat → Nat} {T : Nat → Text} (fuel : Nat) (self : Nat) (cls : Cls) (start stop : Nat)
    (ie ext : Bool) (g : Nat) (hinv : Inv h rank T) (hfuel : rank self < fuel)
    (hpre : start < stop + (if ie then 1 else 0))
    (hcall : groupTokens (fun hx i => strF hx fuel i) h self cls start stop ie ext = .ok (h', g)) :
    ∃ rank' T', Inv h' rank' T' ∧ ∀ R, (∀ i, rank i ≤ R) → ∀ i, rank' i ≤ R + 1 := by
  obtain ⟨rank', T', h0, hb, hne⟩ := groupTokens_inv0 fuel self cls start stop ie ext g hinv.toInv0 hfuel hcall
  exact ⟨rank', T', ⟨h0, hne hpre hinv.nonempty⟩, hb⟩

/-! ## `ttype` assignments, mixed scripts -/

theorem setTType_same {h h' : Heap} {self idx x : Nat} {tt : TType} (hcall : h.setTType self idx tt = .ok (h', x)) :
    h'.size = h.size ∧ (∃ ks, (h.obj self).kids = some ks ∧ ks[idx]? = some x) ∧ (h'.obj x).ttype = tt ∧
    (∀ j, (h'.obj j).parent = (h.obj j).parent ∧ (h'.obj j).kids = (h.obj j).kids ∧ (h'.obj j).cls = (h.obj j).cls ∧
          (h'.obj j).value = (h.obj j).value) ∧ (∀ j, j ≠ x → (h'.obj j).ttype = (h.obj j).ttype) := by
  simp only [Heap.setTType] at hcall
  split at hcall
  · cases hcall
  · rename_i ks hk
    split at hcall
    · cases hcall
    · rename_i y hi
      injection hcall with hcall
      injection hcall with hh hx
      subst hh; subst hx
      refine ⟨rfl, ⟨ks, hk, hi⟩, by simp [Heap.setObj], ?_, ?_⟩
      · intro j
        by_cases hj : j = y
        · subst hj; simp [Heap.setObj]
        · simp [Heap.setObj, hj]
      · intro j hj; simp [Heap.setObj, hj]

/-- a `ttype` assignment keeps `Inv0` (no clause of it mentions `ttype`), with the same ghosts -/
theorem setTType_inv0 {h h' : Heap} {rank : Nat → Nat} {T : Nat → Text} {self idx x : Nat} {tt : TType} (hinv : Inv0 h rank T)
    (hcall : h.setTType self idx tt = .ok (h', x)) : Inv0 h' rank T := by
  obtain ⟨hsz, _, _, hsame, _⟩ := setTType_same hcall
  exact Inv0.of_same hsz (fun j => ⟨(hsame j).1, (hsame j).2.1, (hsame j).2.2.2⟩) hinv

/-- a `ttype` assignment keeps `Inv` too -/
theorem setTType_inv {h h' : Heap} {rank : Nat → Nat} {T : Nat → Text} {self idx x : Nat} {tt : TType} (hinv : Inv h rank T)
    (hcall : h.setTType self idx tt = .ok (h', x)) : Inv h' rank T := by
  refine ⟨setTType_inv0 hinv.toInv0 hcall, ?_⟩
  obtain ⟨_, _, _, hsame, _⟩ := setTType_same hcall
  intro g ks hk
  rw [(hsame g).2.1] at hk
  exact hinv.nonempty g ks hk

theorem HOp.run_inv0 {h h' : Heap} {rank : Nat → Nat} {T : Nat → Text} (fuel : Nat) (op : HOp) (g : Nat) (hinv : Inv0 h rank T)
    (hfuel : ∀ i, rank i < fuel) (hcall : op.run (fun hx i => strF hx fuel i) h = .ok (h', g)) :
    ∃ rank' T', Inv0 h' rank' T' ∧ (∀ R, (∀ i, rank i ≤ R) → ∀ i, rank' i ≤ R + 1) := by
  cases op with
  | group op =>
    simp only [HOp.run] at hcall
    obtain ⟨rank', T', h0, hb, _⟩ := groupTokens_inv0 fuel op.self op.cls op.start op.stop op.includeEnd op.extend g hinv
      (hfuel op.self) hcall
    exact ⟨rank', T', h0, hb⟩
  | setType self idx tt =>
    simp only [HOp.run] at hcall
    exact ⟨rank, T, setTType_inv0 hinv hcall, fun R hR i => Nat.le_succ_of_le (hR i)⟩

/-- **every mixed history.** After any script of `group_tokens` calls (any slices, also empty ones) and `ttype` assignments the heap
satisfies everything but "groups are non-empty" — for every recursion budget above `depth + number of operations`. -/
theorem runHOps_wf0 (fuel : Nat) : ∀ (ops : List HOp) (h : Heap) (rank : Nat → Nat) (T : Nat → Text) (R : Nat),
    Inv0 h rank T → (∀ i, rank i ≤ R) → R + ops.length < fuel → WF0 (runHOps (fun hx i => strF hx fuel i) h ops).1 := by
  intro ops
  induction ops with
  | nil => intro h rank T R hinv _ _; exact ⟨rank, T, hinv⟩
  | cons op rest ih =>
    intro h rank T R hinv hR hfuel
    simp only [runHOps]
    simp only [List.length_cons] at hfuel
    cases hc : op.run (fun hx i => strF hx fuel i) h with
    | error e =>
      simp only
      exact ih h rank T R hinv hR (by omega)
    | ok r =>
      obtain ⟨h', g⟩ := r
      simp only
      obtain ⟨rank', T', hinv', hb⟩ := HOp.run_inv0 fuel op g hinv (fun i => by have := hR i; omega) hc
      exact ih h' rank' T' (R + 1) hinv' (hb R hR) (by omega)

/-- a script of `group_tokens` calls is a script of heap operations -/
theorem runOps_eq_runHOps (str : Heap → Nat → Text) (h : Heap) (ops : List Op) : runOps str h ops = runHOps str h (ops.map HOp.group) := by
  induction ops generalizing h with
  | nil => rfl
  | cons op rest ih =>
    simp only [runOps, List.map_cons, runHOps, HOp.run]
    cases hc : groupTokens str h op.self op.cls op.start op.stop op.includeEnd op.extend with
    | error e => simp only [ih]
    | ok r => obtain ⟨h', g⟩ := r; simp only [ih]

/-- **every history.** Starting from a well-formed heap, after any script of `group_tokens` calls (on any groups, with any classes, slices
and flags; calls that raise change nothing) the heap is well-formed — for every recursion budget above `depth + number of calls`. -/
theorem runOps_wf (fuel : Nat) : ∀ (ops : List Op) (h : Heap) (rank : Nat → Nat) (T : Nat → Text) (R : Nat),
    Inv h rank T → (∀ i, rank i ≤ R) → R + ops.length < fuel →
    (∀ op ∈ ops, op.start < op.stop + (if op.includeEnd then 1 else 0)) →
    WF (runOps (fun hx i => strF hx fuel i) h ops).1 := by
  intro ops
  induction ops with
  | nil => intro h rank T R hinv _ _ _; exact ⟨rank, T, hinv⟩
  | cons op rest ih =>
    intro h rank T R hinv hR hfuel hops
    simp only [runOps]
    have hrest : ∀ o ∈ rest, o.start < o.stop + (if o.includeEnd then 1 else 0) := fun o ho => hops o (List.mem_cons_of_mem _ ho)
    simp only [List.length_cons] at hfuel
    cases hc : groupTokens (fun hx i => strF hx fuel i) h op.self op.cls op.start op.stop op.includeEnd op.extend with
    | error e =>
      simp only
      exact ih h rank T R hinv hR (by omega) hrest
    | ok r =>
      obtain ⟨h', g⟩ := r
      simp only
      have hself := hR op.self
      obtain ⟨rank', T', hinv', hb⟩ := groupTokens_inv fuel op.self op.cls op.start op.stop op.includeEnd op.extend g hinv
        (by omega) (hops op (List.mem_cons_self ..)) hc
      exact ih h' rank' T' (R + 1) hinv' (hb R hR) (by omega) hrest

/-- the statement the splitter builds is well-formed -/
theorem mkStatement_inv (vals : List Text) (hne : vals ≠ []) :
    Inv (mkStatement vals) (fun j => if j = vals.length then 1 else 0)
      (fun j => if j < vals.length then vals.getD j [] else if j = vals.length then vals.flatten else []) := by
  have hkids : ∀ g ks, ((mkStatement vals).obj g).kids = some ks → g = vals.length ∧ ks = List.range vals.length := by
    intro g ks hk
    simp only [mkStatement] at hk
    split at hk
    · cases hk
    · split at hk
      · rename_i h2; exact ⟨h2, (Option.some.inj hk).symm⟩
      · cases hk
  have hmap : (List.range vals.length).map (fun j => if j < vals.length then vals.getD j [] else if j = vals.length then vals.flatten else [])
      = vals := by
    apply List.ext_getElem
    · simp
    · intro i h1 h2
      simp only [List.length_map, List.length_range] at h1
      simp [h1, List.getD_eq_getElem?_getD, List.getElem?_eq_getElem h1]
  refine ⟨⟨?_, ?_, ?_, ?_, ?_, ?_, ?_⟩, ?_⟩
  · intro g ks hk
    obtain ⟨rfl, rfl⟩ := hkids g ks hk
    refine ⟨by simp [mkStatement], ?_⟩
    intro k hm
    have := List.mem_range.mp hm
    simp only [mkStatement]; omega
  · intro g ks hk k hm
    obtain ⟨rfl, rfl⟩ := hkids g ks hk
    have := List.mem_range.mp hm
    simp [mkStatement, this]
  · intro g ks hk
    obtain ⟨rfl, rfl⟩ := hkids g ks hk
    exact List.nodup_range
  · intro g ks hk k hm
    obtain ⟨rfl, rfl⟩ := hkids g ks hk
    have := List.mem_range.mp hm
    have hne' : k ≠ vals.length := by omega
    simp [hne']
  · intro l hl
    simp only [mkStatement] at hl ⊢
    by_cases h1 : l < vals.length
    · simp [h1]
    · by_cases h2 : l = vals.length
      · simp [h1, h2] at hl
      · simp [h1, h2]
  · intro g ks hk
    obtain ⟨rfl, rfl⟩ := hkids g ks hk
    rw [hmap]; simp
  · intro g ks hk
    obtain ⟨rfl, rfl⟩ := hkids g ks hk
    simp [mkStatement]
  · intro g ks hk
    obtain ⟨rfl, rfl⟩ := hkids g ks hk
    intro he
    have : vals.length = 0 := by simpa using he
    exact hne (List.eq_nil_of_length_eq_zero this)

/-- **the whole life of a statement**: built by the splitter from its (non-empty) token list, then regrouped by any script of
`group_tokens` calls with non-empty slices — the heap stays well-formed (recursion budget above `number of calls + 1`). -/
theorem statement_history_wf (vals : List Text) (hne : vals ≠ []) (ops : List Op) (fuel : Nat) (hfuel : 1 + ops.length < fuel)
    (hops : ∀ op ∈ ops, op.start < op.stop + (if op.includeEnd then 1 else 0)) :
    WF (runOps (fun hx i => strF hx fuel i) (mkStatement vals) ops).1 :=
  runOps_wf fuel ops _ _ _ 1 (mkStatement_inv vals hne) (by intro i; split <;> omega) hfuel hops

/-- token types do not matter for the invariant -/
theorem withTypes_inv0 {h : Heap} {rank : Nat → Nat} {T : Nat → Text} (f : Nat → TType) (hinv : Inv0 h rank T) :
    Inv0 (h.withTypes f) rank T :=
  Inv0.of_same (h := h) (h' := h.withTypes f) rfl (fun _ => ⟨rfl, rfl, rfl⟩) hinv

theorem withTypes_inv {h : Heap} {rank : Nat → Nat} {T : Nat → Text} (f : Nat → TType) (hinv : Inv h rank T) :
    Inv (h.withTypes f) rank T :=
  ⟨withTypes_inv0 f hinv.toInv0, fun g ks hk => hinv.nonempty g ks hk⟩

/-- the statement the splitter builds, with token types, is well-formed -/
theorem mkStatementT_inv (toks : List Tok) (hne : toks ≠ []) :
    Inv (mkStatementT toks) (fun j => if j = toks.length then 1 else 0)
      (fun j => if j < toks.length then (toks.map (·.val)).getD j []
        else if j = toks.length then (toks.map (·.val)).flatten else []) := by
  have hne' : toks.map (·.val) ≠ [] := by
    intro he; exact hne (List.map_eq_nil_iff.mp he)
  have h := withTypes_inv (fun j => (toks.getD j default).tt) (mkStatement_inv (toks.map (·.val)) hne')
  simp only [List.length_map] at h
  exact h

/-! ## what well-formedness means for a user of the tree -/

/-- every child's `parent` names the group that contains it -/
theorem WF0.parent_names_container {h : Heap} (hw : WF0 h) (g k : Nat) (ks : List Nat)
    (hk : (h.obj g).kids = some ks) (hm : k ∈ ks) : (h.obj k).parent = some g := by
  obtain ⟨_, _, hinv⟩ := hw; exact hinv.par g ks hk k hm

/-- no object occurs twice: not twice in one group, not in two groups -/
theorem WF0.occurs_once {h : Heap} (hw : WF0 h) (g g' k : Nat) (ks ks' : List Nat)
    (hk : (h.obj g).kids = some ks) (hk' : (h.obj g').kids = some ks') (hm : k ∈ ks) (hm' : k ∈ ks') :
    g = g' ∧ ks.Nodup := by
  obtain ⟨_, _, hinv⟩ := hw
  have p1 := hinv.par g ks hk k hm
  have p2 := hinv.par g' ks' hk' k hm'
  rw [p1] at p2
  exact ⟨Option.some.inj p2, hinv.nodup g ks hk⟩

/-- every group is non-empty -/
theorem WF.group_nonempty {h : Heap} (hw : WF h) (g : Nat) (ks : List Nat) (hk : (h.obj g).kids = some ks) : ks ≠ [] := by
  obtain ⟨_, _, hinv⟩ := hw; exact hinv.nonempty g ks hk

/-- the cached `value` of every group equals `str()` of the group (for every sufficiently large recursion budget) -/
theorem WF0.cached_value_is_text {h : Heap} (hw : WF0 h) : ∃ F, ∀ fuel, F ≤ fuel → ∀ g ks, (h.obj g).kids = some ks → g < h.size →
    (h.obj g).value = strF h fuel g := by
  obtain ⟨rank, T, hinv⟩ := hw
  refine ⟨((List.range h.size).map rank).foldl max 0 + 1, ?_⟩
  intro fuel hF g ks hk hg
  rw [hinv.cache g ks hk]
  symm
  apply strF_eq hinv
  have : rank g ≤ ((List.range h.size).map rank).foldl max 0 := by
    have hmem : rank g ∈ (List.range h.size).map rank := List.mem_map.mpr ⟨g, List.mem_range.mpr hg, rfl⟩
    have : ∀ (l : List Nat) (a x : Nat), x ∈ l → x ≤ l.foldl max a := by
      intro l
      induction l with
      | nil => intro a x hx; cases hx
      | cons y l ih =>
        intro a x hx
        simp only [List.foldl_cons]
        rcases List.mem_cons.mp hx with rfl | hx
        · have : ∀ (l : List Nat) (a : Nat), a ≤ l.foldl max a := by
            intro l
            induction l with
            | nil => intro a; exact Nat.le_refl _
            | cons z l ih2 => intro a; simp only [List.foldl_cons]; exact Nat.le_trans (Nat.le_max_left _ _) (ih2 _)
          exact Nat.le_trans (Nat.le_max_right _ _) (this l _)
        · exact ih _ x hx
    exact this _ 0 _ hmem
  omega

/-- every child's `parent` names the group that contains it -/
theorem WF.parent_names_container {h : Heap} (hw : WF h) (g k : Nat) (ks : List Nat)
    (hk : (h.obj g).kids = some ks) (hm : k ∈ ks) : (h.obj k).parent = some g :=
  hw.toWF0.parent_names_container g k ks hk hm

/-- no object occurs twice: not twice in one group, not in two groups -/
theorem WF.occurs_once {h : Heap} (hw : WF h) (g g' k : Nat) (ks ks' : List Nat)
    (hk : (h.obj g).kids = some ks) (hk' : (h.obj g').kids = some ks') (hm : k ∈ ks) (hm' : k ∈ ks') :
    g = g' ∧ ks.Nodup :=
  hw.toWF0.occurs_once g g' k ks ks' hk hk' hm hm'

/-- the cached `value` of every group equals `str()` of the group (for every sufficiently large recursion budget) -/
theorem WF.cached_value_is_text {h : Heap} (hw : WF h) : ∃ F, ∀ fuel, F ≤ fuel → ∀ g ks, (h.obj g).kids = some ks → g < h.size →
    (h.obj g).value = strF h fuel g :=
  hw.toWF0.cached_value_is_text

end Sql.BK
