import SqlProofs.Group.RwPasses
/-!
# SqlProofs.BracketsKept — the six bracket/block classes survive the later passes (property C09, end to end)

`bracketsL ks`: the pre-order list of `(class, leaves)` of all groups in `ks` whose class is one of Parenthesis,
SquareBrackets, Case, If, For, Begin.

`later_pass_brackets`: a pass other than the six `_group_matching` passes keeps this list — same classes in the
same order, the leaves of each group related by `LeafRel` (a leaf may have been re-typed to Operator) — except that
`align_comments` may *extend* the leaves of a group at its end (it appends the following whitespace and Comment
group to the preceding group, whatever its class).  So no later pass creates or dissolves a group of these classes
or moves a leaf across their opening boundary; across the closing boundary only `align_comments` does, inwards.
`group_brackets_kept` states it for `grouping.group`: the bracket/block groups of the final tree are those present
after `group_begin`, up to that extension.
-/
namespace Sql

mutual
/-- pre-order list of the bracket/block groups below a node, each with its leaves -/
def Node.brackets : Node → List (Cls × List Tok)
  | .tok _ _ => []
  | .grp c ks => (if sixCls c then [(c, Node.leavesL ks)] else []) ++ bracketsL ks
def bracketsL : List Node → List (Cls × List Tok)
  | [] => []
  | k :: ks => k.brackets ++ bracketsL ks
end

@[simp] theorem bracketsL_nil : bracketsL [] = [] := by simp [bracketsL]
@[simp] theorem bracketsL_cons (k : Node) (ks : List Node) : bracketsL (k :: ks) = k.brackets ++ bracketsL ks := by
  simp [bracketsL]
@[simp] theorem brackets_tok (tt : TType) (v : Text) : (Node.tok tt v).brackets = [] := by simp [Node.brackets]
theorem brackets_grp (c : Cls) (ks : List Node) :
    (Node.grp c ks).brackets = (if sixCls c then [(c, Node.leavesL ks)] else []) ++ bracketsL ks := by
  simp [Node.brackets]

theorem bracketsL_append (a b : List Node) : bracketsL (a ++ b) = bracketsL a ++ bracketsL b := by
  induction a with
  | nil => simp
  | cons k a ih => simp [ih]

/-! ### the relation between the lists before and after -/
/-- one entry: same class; the new leaves are the old ones (up to `LeafRel`) followed by `extra`, which is empty
unless extension is allowed -/
def BrRel (al : Bool) (e e' : Cls × List Tok) : Prop :=
  e.1 = e'.1 ∧ ∃ l2 extra, e'.2 = l2 ++ extra ∧ LeafRel e.2 l2 ∧ (al = false → extra = [])

inductive BrAll (al : Bool) : List (Cls × List Tok) → List (Cls × List Tok) → Prop
  | nil : BrAll al [] []
  | cons {e e' : Cls × List Tok} {es es' : List (Cls × List Tok)} :
      BrRel al e e' → BrAll al es es' → BrAll al (e :: es) (e' :: es')

theorem BrRel.refl (al : Bool) (e : Cls × List Tok) : BrRel al e e :=
  ⟨rfl, e.2, [], by simp, LeafRel.refl _, fun _ => rfl⟩

theorem LeafRel.split_left {a b c : List Tok} (h : LeafRel (a ++ b) c) :
    ∃ c1 c2, c = c1 ++ c2 ∧ LeafRel a c1 ∧ LeafRel b c2 := by
  induction a generalizing c with
  | nil => exact ⟨[], c, rfl, .nil, h⟩
  | cons x a ih =>
    cases h with
    | cons hx hrest =>
      obtain ⟨c1, c2, rfl, h1, h2⟩ := ih hrest
      exact ⟨_ :: c1, c2, rfl, .cons hx h1, h2⟩

theorem LeafRel.eq_nil {c : List Tok} (h : LeafRel [] c) : c = [] := by cases h; rfl

theorem BrRel.trans {al : Bool} {e e' e'' : Cls × List Tok} (h1 : BrRel al e e') (h2 : BrRel al e' e'') :
    BrRel al e e'' := by
  obtain ⟨hc1, l2, x, he', hl1, hx⟩ := h1
  obtain ⟨hc2, l3, y, he'', hl2, hy⟩ := h2
  rw [he'] at hl2
  obtain ⟨l3a, l3b, rfl, ha, hb⟩ := hl2.split_left
  refine ⟨hc1.trans hc2, l3a, l3b ++ y, by rw [he'']; simp, hl1.trans ha, ?_⟩
  intro hal
  rw [hx hal] at hb
  rw [hb.eq_nil, hy hal]; rfl

theorem BrAll.refl (al : Bool) (es : List (Cls × List Tok)) : BrAll al es es := by
  induction es with
  | nil => exact .nil
  | cons e es ih => exact .cons (BrRel.refl al e) ih

theorem BrAll.of_eq {al : Bool} {es es' : List (Cls × List Tok)} (h : es = es') : BrAll al es es' :=
  h ▸ BrAll.refl al es

theorem BrAll.trans {al : Bool} {a b c : List (Cls × List Tok)} (h1 : BrAll al a b) (h2 : BrAll al b c) :
    BrAll al a c := by
  induction h1 generalizing c with
  | nil => cases h2; exact .nil
  | cons hab _ ih =>
    cases h2 with
    | cons hbc h2' => exact .cons (hab.trans hbc) (ih h2')

theorem BrAll.append {al : Bool} {a a' b b' : List (Cls × List Tok)} (h1 : BrAll al a a') (h2 : BrAll al b b') :
    BrAll al (a ++ b) (a' ++ b') := by
  induction h1 with
  | nil => simpa using h2
  | cons hx _ ih => exact .cons hx ih

theorem BrAll.length {al : Bool} {a b : List (Cls × List Tok)} (h : BrAll al a b) : a.length = b.length := by
  induction h with
  | nil => rfl
  | cons _ _ ih => simp [ih]

/-- the classes, in order, are unchanged -/
theorem BrAll.classes {al : Bool} {a b : List (Cls × List Tok)} (h : BrAll al a b) :
    a.map (·.1) = b.map (·.1) := by
  induction h with
  | nil => rfl
  | cons hx _ ih => simp [hx.1, ih]

/-! ### the elementary steps -/
theorem six_of_plain {cls : Cls} (h : plainCls cls = true) : sixCls cls = false := by
  simp only [plainCls, Bool.and_eq_true, Bool.not_eq_true'] at h
  exact h.1

/-- a `group_tokens` call with a plain class leaves the bracket list untouched -/
theorem groupTokens'_brackets {ks : List Node} {cls : Cls} {a b : Nat} {ie ext : Bool} {r : List Node × Node}
    (h : groupTokens' ks cls a b ie ext = .ok r) (hp : plainCls cls = true) : bracketsL r.1 = bracketsL ks := by
  have hsix := six_of_plain hp
  have hnew : ∀ e, bracketsL (ks.take a ++ Node.grp cls (pySlice ks a e) :: ks.drop (max a e)) = bracketsL ks := by
    intro e
    conv => rhs; rw [← pySlice_partition ks a e]
    simp [bracketsL_append, brackets_grp, hsix]
  unfold groupTokens' at h
  cases hst : ks[a]? with
  | none => simp [hst] at h
  | some st =>
    simp only [hst] at h
    generalize (b + if ie = true then 1 else 0) = e at h
    cases st with
    | tok tt v =>
      simp only [Except.ok.injEq] at h
      subst h
      exact hnew e
    | grp c kids =>
      simp only at h
      by_cases hc : (ext && (Node.grp c kids).isInst cls) = true
      · rw [if_pos hc] at h
        simp only [Except.ok.injEq] at h
        subst h
        have hcc : c = cls := by
          simp only [Bool.and_eq_true, Node.isInst, Bool.or_eq_true, beq_iff_eq] at hc
          rcases hc.2 with h1 | h1
          · subst h1; simp [plainCls] at hp
          · exact h1
        have htake : ks.take (a + 1) = ks.take a ++ [Node.grp c kids] := by
          rw [List.take_add_one, hst]; rfl
        conv => rhs; rw [← pySlice_partition ks (a + 1) e, htake]
        simp [bracketsL_append, brackets_grp, hcc, hsix]
      · rw [if_neg hc] at h
        simp only [Except.ok.injEq] at h
        subst h
        exact hnew e

/-- the `TokenList`-extend call of `align_comments`: the extended group's entry (if it is a bracket/block group)
gains leaves at its end, nothing else changes -/
theorem groupTokens'_brackets_align {ks : List Node} {a b : Nat} {ie : Bool} {r : List Node × Node}
    (h : groupTokens' ks .TokenList a b ie true = .ok r) : BrAll true (bracketsL ks) (bracketsL r.1) := by
  have hsix : sixCls .TokenList = false := by decide
  unfold groupTokens' at h
  cases hst : ks[a]? with
  | none => simp [hst] at h
  | some st =>
    simp only [hst] at h
    generalize (b + if ie = true then 1 else 0) = e at h
    cases st with
    | tok tt v =>
      simp only [Except.ok.injEq] at h
      subst h
      apply BrAll.of_eq
      conv => lhs; rw [← pySlice_partition ks a e]
      simp [bracketsL_append, brackets_grp, hsix]
    | grp c kids =>
      simp only [Node.isInst, beq_self_eq_true, Bool.true_or, Bool.and_self, ↓reduceIte, Except.ok.injEq] at h
      subst h
      have htake : ks.take (a + 1) = ks.take a ++ [Node.grp c kids] := by
        rw [List.take_add_one, hst]; rfl
      conv => lhs; rw [← pySlice_partition ks (a + 1) e, htake]
      simp only [bracketsL_append, bracketsL_cons, bracketsL_nil, List.append_nil, brackets_grp, List.append_assoc,
        leavesL_append]
      refine (BrAll.refl _ _).append ?_
      by_cases hc : sixCls c = true
      · simp only [hc, ↓reduceIte, List.cons_append, List.nil_append]
        refine .cons ⟨rfl, _, _, rfl, LeafRel.refl _, fun h => by cases h⟩ (BrAll.refl _ _)
      · simp only [hc, Bool.false_eq_true, ↓reduceIte, List.nil_append]
        exact BrAll.refl _ _

theorem setTType_brackets (x : Node) (tt : TType) : (x.setTType tt).brackets = x.brackets := by
  cases x <;> simp [Node.setTType]

theorem bracketsL_set {ks : List Node} {i : Nat} {x x' : Node} (hx : ks[i]? = some x) (hb : x'.brackets = x.brackets) :
    bracketsL (ks.set i x') = bracketsL ks := by
  induction ks generalizing i with
  | nil => simp at hx
  | cons k rest ih =>
    cases i with
    | zero =>
      simp only [List.getElem?_cons_zero, Option.some.injEq] at hx
      subst hx
      simp [hb]
    | succ i =>
      simp only [List.getElem?_cons_succ] at hx
      simp [ih hx]

theorem set_setTType_leaves' : ∀ (cur : List Node) (i : Nat) (t : Node), cur[i]? = some t →
    LeafRel (Node.leavesL cur) (Node.leavesL (cur.set i (t.setTType T.Operator))) :=
  set_setTType_leaves

/-- **every `Rw` sequence keeps the bracket/block groups** (and the leaves) -/
theorem Rw.brackets {al : Bool} {ks ks' : List Node} (h : Rw al ks ks') :
    BrAll al (bracketsL ks) (bracketsL ks') ∧ LeafRel (Node.leavesL ks) (Node.leavesL ks') := by
  induction h with
  | refl ks => exact ⟨BrAll.refl _ _, LeafRel.refl _⟩
  | trans _ _ ih1 ih2 => exact ⟨ih1.1.trans ih2.1, ih1.2.trans ih2.2⟩
  | group h hp =>
    exact ⟨BrAll.of_eq (groupTokens'_brackets h hp).symm, LeafRel.of_eq (groupTokens'_leaves h).symm⟩
  | align hal h =>
    subst hal
    exact ⟨groupTokens'_brackets_align h, LeafRel.of_eq (groupTokens'_leaves h).symm⟩
  | retype hx =>
    exact ⟨BrAll.of_eq (bracketsL_set hx (setTType_brackets _ _)).symm, set_setTType_leaves _ _ _ hx⟩
  | @inside c kids kids' _ ih =>
    refine ⟨?_, by simpa using ih.2⟩
    simp only [bracketsL_cons, bracketsL_nil, List.append_nil, brackets_grp]
    refine BrAll.append ?_ ih.1
    by_cases hc : sixCls c = true
    · simp only [hc, ↓reduceIte]
      exact .cons ⟨rfl, _, [], by simp, ih.2, fun _ => rfl⟩ .nil
    · simp only [hc, Bool.false_eq_true, ↓reduceIte]
      exact .nil
  | ctx pre post _ ih =>
    refine ⟨?_, ?_⟩
    · simp only [bracketsL_append]
      exact ((BrAll.refl _ _).append ih.1).append (BrAll.refl _ _)
    · simp only [leavesL_append]
      exact ((LeafRel.refl _).append ih.2).append (LeafRel.refl _)

/-! ### the passes -/
/-- **a pass other than the six matching passes keeps the bracket/block groups**; only `align_comments` may extend
their leaves at the end -/
theorem later_pass_brackets {u : Text → Text} {name : String} {fuel : Nat} {c : Cls} {ks ks' : List Node}
    (hm : isMatchingName name = false) (h : passByName u name fuel c ks = .ok ks') :
    BrAll (name == "align_comments") (bracketsL ks) (bracketsL ks') :=
  (passByName_rw u name _ hm (by intro h; simp [h]) fuel c ks ks' h).brackets.1

theorem runPasses_brackets {u : Text → Text} {fuel : Nat} {c : Cls} :
    ∀ (names : List String) (ks ks' : List Node), (∀ n ∈ names, isMatchingName n = false) →
      runPasses u fuel c names ks = .ok ks' → BrAll true (bracketsL ks) (bracketsL ks') := by
  intro names
  induction names with
  | nil => intro ks ks' _ h; simp [runPasses] at h; subst h; exact BrAll.refl _ _
  | cons p ps ih =>
    intro ks ks' hn h
    simp only [runPasses] at h
    cases hp : passByName u p fuel c ks with
    | error e => simp [hp] at h
    | ok ks1 =>
      simp only [hp] at h
      have h1 := (passByName_rw u p true (hn p List.mem_cons_self) (fun _ => rfl) fuel c ks ks1 hp).brackets.1
      exact h1.trans (ih _ _ (fun n hn' => hn n (List.mem_cons_of_mem _ hn')) h)

theorem runPasses_append {u : Text → Text} {fuel : Nat} {c : Cls} :
    ∀ (a b : List String) (ks ks' : List Node), runPasses u fuel c (a ++ b) ks = .ok ks' →
      ∃ mid, runPasses u fuel c a ks = .ok mid ∧ runPasses u fuel c b mid = .ok ks' := by
  intro a
  induction a with
  | nil => intro b ks ks' h; exact ⟨ks, by simp [runPasses], by simpa using h⟩
  | cons p ps ih =>
    intro b ks ks' h
    simp only [List.cons_append, runPasses] at h ⊢
    cases hp : passByName u p fuel c ks with
    | error e => simp [hp] at h
    | ok ks1 =>
      simp only [hp] at h ⊢
      exact ih _ _ _ h

/-- the generated pass order: after its first seven entries (`group_comments` and the six matching passes) no
matching pass occurs -/
theorem passOrder_later : (Gen.passOrder.drop 7).all (fun n => !isMatchingName n) = true := by decide

/-- **end to end**: the bracket/block groups of `grouping.group`'s result are those of the tree right after the
last `_group_matching` pass (`group_begin`), up to re-typing of leaves to Operator and comments appended at the end -/
theorem groupWith_brackets_kept {u : Text → Text} {fuel : Nat} {ks ks' : List Node}
    (h : groupWith u fuel ks = .ok ks') :
    ∃ mid, runPasses u fuel .Statement (Gen.passOrder.take 7) ks = .ok mid ∧
      BrAll true (bracketsL mid) (bracketsL ks') := by
  unfold groupWith at h
  rw [← List.take_append_drop 7 Gen.passOrder] at h
  obtain ⟨mid, h1, h2⟩ := runPasses_append _ _ _ _ h
  refine ⟨mid, h1, runPasses_brackets _ _ _ ?_ h2⟩
  intro n hn
  have := List.all_eq_true.1 passOrder_later n hn
  simpa using this

theorem group_brackets_kept {fuel : Nat} {ks ks' : List Node} (h : group fuel ks = .ok ks') :
    ∃ mid, runPasses kwNorm fuel .Statement (Gen.passOrder.take 7) ks = .ok mid ∧
      BrAll true (bracketsL mid) (bracketsL ks') :=
  groupWith_brackets_kept h

end Sql
