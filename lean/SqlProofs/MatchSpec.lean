import SqlModel.Grouping.MatchSpec
import SqlProofs.Group.GoodMatching
import SqlProofs.Group.SpecShape
/-!
# SqlProofs.MatchSpec — `_group_matching` is the textbook stack matcher (property C09)

`matchLoop_eq_spec`: from its initial state the parent-level loop of `_group_matching` never fails and ends with
`cur = specMatch isOpenTok isCloseTok cls snapshot`.
Invariant (`SInv`): with `frames` the spec's stack after the tokens read so far and `rest` the unread snapshot,
`cur = frames.reverse.flatten ++ rest`, `opens` = the start offsets of the non-base frames, and
`idx = off + |frames.reverse.flatten|` (so `tidx = idx − off` is the position of the head of `rest` in `cur`).
-/
namespace Sql

/-! ### what `matchStep` does, by the class of the token -/
theorem matchStep_open {upper : Text → Text} {cls : Cls} {mOpen mClose : List MPat} {st : MatchSt} {idx : Nat}
    {t : Node} (h : isOpenTok upper cls mOpen t = true) :
    matchStep upper cls mOpen mClose st idx t = .ok { st with opens := (idx - st.off) :: st.opens } := by
  simp only [isOpenTok, Bool.and_eq_true, Bool.not_eq_true'] at h
  unfold matchStep
  simp only [h.1.1, h.1.2, h.2, Bool.false_eq_true, ↓reduceIte]

theorem matchStep_close {upper : Text → Text} {cls : Cls} {mOpen mClose : List MPat} {st : MatchSt} {idx : Nat}
    {t : Node} (h : isCloseTok upper cls mOpen mClose t = true) :
    matchStep upper cls mOpen mClose st idx t =
      match st.opens with
      | [] => .ok st
      | o :: rest =>
        match groupTokens st.cur cls o (idx - st.off) with
        | .error e => .error e
        | .ok cur' => .ok { cur := cur', opens := rest, off := st.off + (idx - st.off - o) } := by
  simp only [isCloseTok, isOpenTok, Bool.and_eq_true, Bool.not_eq_true'] at h
  obtain ⟨⟨⟨h1, h2⟩, h3⟩, h4⟩ := h
  have h3' : mOpen.any (t.matchP upper) = false := by simpa [h1, h2] using h3
  unfold matchStep
  simp only [h1, h2, h3', h4, Bool.false_eq_true, ↓reduceIte]
  rfl

theorem matchStep_other {upper : Text → Text} {cls : Cls} {mOpen mClose : List MPat} {st : MatchSt} {idx : Nat}
    {t : Node} (ho : isOpenTok upper cls mOpen t = false) (hc : isCloseTok upper cls mOpen mClose t = false) :
    matchStep upper cls mOpen mClose st idx t = .ok st := by
  unfold matchStep
  simp only
  by_cases h1 : t.isWhitespace = true
  · simp [h1]
  · by_cases h2 : (t.isGroup && !t.isInst cls) = true
    · simp [h1, h2]
    · by_cases h3 : mOpen.any (t.matchP upper) = true
      · simp [isOpenTok, h1, h2, h3] at ho
      · by_cases h4 : mClose.any (t.matchP upper) = true
        · simp [isCloseTok, isOpenTok, h1, h2, h3, h4] at hc
        · simp [h1, h2, h3, h4]

/-- `group_tokens(cls, a, b)` (no extension) on an index in range: the value -/
theorem groupTokens_new {ks : List Node} {cls : Cls} {a b : Nat} (ha : a < ks.length) :
    groupTokens ks cls a b true false =
      .ok (ks.take a ++ Node.grp cls (pySlice ks a (b + 1)) :: ks.drop (max a (b + 1))) := by
  unfold groupTokens groupTokens'
  rw [List.getElem?_eq_getElem ha]
  simp only [Bool.false_and, Bool.false_eq_true, ↓reduceIte]
  cases ks[a] <;> rfl

/-! ### the invariant -/
/-- start offsets of the non-base frames, innermost first (`st` is innermost-first) -/
def frameOffsets : List (List Node) → List Nat
  | [] => []
  | [_] => []
  | _ :: rest => rest.reverse.flatten.length :: frameOffsets rest

structure SInv (st : MatchSt) (frames : List (List Node)) (rest : List Node) (idx : Nat) : Prop where
  ne : frames ≠ []
  cur : st.cur = frames.reverse.flatten ++ rest
  opens : st.opens = frameOffsets frames
  idx : idx = st.off + frames.reverse.flatten.length

theorem matchStep_spec {upper : Text → Text} {cls : Cls} {mOpen mClose : List MPat} {st : MatchSt}
    {frames : List (List Node)} {t : Node} {rest : List Node} {idx : Nat} (h : SInv st frames (t :: rest) idx) :
    ∃ st', matchStep upper cls mOpen mClose st idx t = .ok st' ∧
      SInv st' (specStep (isOpenTok upper cls mOpen) (isCloseTok upper cls mOpen mClose) cls frames t) rest
        (idx + 1) := by
  obtain ⟨hne, hcur, hop, hidx⟩ := h
  have htidx : idx - st.off = frames.reverse.flatten.length := by omega
  unfold specStep
  by_cases ho : isOpenTok upper cls mOpen t = true
  · rw [matchStep_open ho, if_pos ho]
    refine ⟨_, rfl, by simp, ?_, ?_, ?_⟩
    · simp [hcur]
    · cases frames with
      | nil => exact absurd rfl hne
      | cons a as => simp [frameOffsets, hop, htidx]
    · simp only [List.reverse_cons, List.flatten_append, List.flatten_cons, List.flatten_nil, List.append_nil,
        List.length_append, List.length_cons, List.length_nil]
      omega
  · rw [if_neg ho]
    have ho' : isOpenTok upper cls mOpen t = false := by simpa using ho
    by_cases hc : isCloseTok upper cls mOpen mClose t = true
    · rw [matchStep_close hc, if_pos hc]
      match frames, hne with
      | [base], _ =>
        simp only [frameOffsets] at hop
        simp only [hop]
        refine ⟨_, rfl, by simp, ?_, by simp [frameOffsets, hop], ?_⟩
        · simp [hcur]
        · simp only [List.reverse_cons, List.reverse_nil, List.nil_append, List.flatten_cons, List.flatten_nil,
            List.append_nil, List.length_append, List.length_cons, List.length_nil] at hidx ⊢
          omega
      | fr :: parent :: more, _ =>
        simp only [frameOffsets] at hop
        simp only [hop]
        generalize hB : (parent :: more).reverse.flatten = B at *
        have e1 : (fr :: parent :: more).reverse.flatten = B ++ fr := by rw [← hB]; simp
        rw [e1] at hcur htidx hidx
        have hlen : B.length < st.cur.length := by rw [hcur]; simp; omega
        rw [htidx, groupTokens_new hlen]
        simp only
        refine ⟨_, rfl, by simp, ?_, ?_, ?_⟩
        · -- the list equation
          simp only
          have e2 : ((parent ++ [Node.grp cls (fr ++ [t])]) :: more).reverse.flatten
              = B ++ [Node.grp cls (fr ++ [t])] := by rw [← hB]; simp
          rw [e2, hcur]
          have t1 : List.take B.length (B ++ fr ++ t :: rest) = B := by
            rw [List.append_assoc]; simp
          have t2 : pySlice (B ++ fr ++ t :: rest) B.length ((B ++ fr).length + 1) = fr ++ [t] := by
            unfold pySlice
            have : (B ++ fr ++ t :: rest) = (B ++ fr ++ [t]) ++ rest := by simp
            rw [this]
            have l : (B ++ fr).length + 1 = (B ++ fr ++ [t]).length := by
              simp only [List.length_append, List.length_cons, List.length_nil]
            rw [l, List.take_left' rfl, List.append_assoc, List.drop_left' rfl]
          have t3 : List.drop (max B.length ((B ++ fr).length + 1)) (B ++ fr ++ t :: rest) = rest := by
            rw [Nat.max_eq_right (by simp; omega)]
            have : (B ++ fr ++ t :: rest) = (B ++ fr ++ [t]) ++ rest := by simp
            rw [this]
            have l : (B ++ fr).length + 1 = (B ++ fr ++ [t]).length := by
              simp only [List.length_append, List.length_cons, List.length_nil]
            rw [l, List.drop_left' rfl]
          rw [t1, t2, t3]
          simp
        · cases more <;> simp [frameOffsets]
        · simp only
          have e2 : ((parent ++ [Node.grp cls (fr ++ [t])]) :: more).reverse.flatten
              = B ++ [Node.grp cls (fr ++ [t])] := by rw [← hB]; simp
          rw [e2]
          simp only [List.length_append, List.length_cons, List.length_nil] at hidx ⊢
          omega
    · rw [if_neg hc]
      have hc' : isCloseTok upper cls mOpen mClose t = false := by simpa using hc
      rw [matchStep_other ho' hc']
      match frames, hne with
      | top :: more, _ =>
        refine ⟨_, rfl, by simp, ?_, ?_, ?_⟩
        · simp [hcur]
        · cases more <;> simp [frameOffsets, hop]
        · simp only [List.reverse_cons, List.flatten_append, List.flatten_cons, List.flatten_nil, List.append_nil,
            List.length_append, List.length_cons, List.length_nil] at hidx ⊢
          omega

theorem matchLoop_spec {upper : Text → Text} {cls : Cls} {mOpen mClose : List MPat} :
    ∀ (snap : List Node) (idx : Nat) (st : MatchSt) (frames : List (List Node)), SInv st frames snap idx →
      ∃ st', matchLoop upper cls mOpen mClose snap idx st = .ok st' ∧
        st'.cur = (specFrames (isOpenTok upper cls mOpen) (isCloseTok upper cls mOpen mClose) cls frames
          snap).reverse.flatten := by
  intro snap
  induction snap with
  | nil =>
    intro idx st frames h
    exact ⟨st, by simp [matchLoop], by simpa [specFrames] using h.cur⟩
  | cons t rest ih =>
    intro idx st frames h
    obtain ⟨st1, hs, hinv⟩ := matchStep_spec (upper := upper) (cls := cls) (mOpen := mOpen) (mClose := mClose) h
    obtain ⟨st', hl, hcur⟩ := ih _ _ _ hinv
    refine ⟨st', by simp only [matchLoop, hs]; exact hl, ?_⟩
    simpa [specFrames] using hcur

theorem sInv_init (snap : List Node) : SInv { cur := snap, opens := [], off := 0 } [[]] snap 0 :=
  ⟨by simp, by simp, by simp [frameOffsets], by simp⟩

/-- **totality**: from its initial state the loop never raises (every `group_tokens` call is in range) -/
theorem matchLoop_total (upper : Text → Text) (cls : Cls) (mOpen mClose : List MPat) (snap : List Node) :
    ∃ st, matchLoop upper cls mOpen mClose snap 0 { cur := snap, opens := [], off := 0 } = .ok st :=
  let ⟨st, h, _⟩ := matchLoop_spec (upper := upper) (cls := cls) (mOpen := mOpen) (mClose := mClose)
    snap 0 _ _ (sInv_init snap)
  ⟨st, h⟩

/-- **refinement**: the loop of `_group_matching` computes the textbook stack matcher -/
theorem matchLoop_eq_spec {upper : Text → Text} {cls : Cls} {mOpen mClose : List MPat} {snap : List Node}
    {st : MatchSt} (h : matchLoop upper cls mOpen mClose snap 0 { cur := snap, opens := [], off := 0 } = .ok st) :
    st.cur = specMatch (isOpenTok upper cls mOpen) (isCloseTok upper cls mOpen mClose) cls snap := by
  obtain ⟨st', h', hcur⟩ := matchLoop_spec (upper := upper) (cls := cls) (mOpen := mOpen) (mClose := mClose)
    snap 0 _ _ (sInv_init snap)
  rw [h] at h'
  cases h'
  exact hcur

/-! ## through the recursion: `groupMatching` is `specMatchRec` -/

theorem mapGroups_eq_specRecList {isOpen isClose : Node → Bool} {cls : Cls}
    {f : Cls → List Node → Except PyErr (List Node)} :
    ∀ (ks ks1 : List Node),
      (∀ c kids kids', Node.grp c kids ∈ ks → f c kids = .ok kids' → kids' = specMatchRec isOpen isClose cls kids) →
      mapGroups (fun k => !k.isInst cls) f ks = .ok ks1 → ks1 = specRecList isOpen isClose cls ks := by
  intro ks
  induction ks with
  | nil => intro ks1 _ h; simp [mapGroups] at h; subst h; simp [specRecList]
  | cons k rest ih =>
    intro ks1 hf h
    have ihr := fun r hr => ih r (fun c kids kids' hm => hf c kids kids' (List.mem_cons_of_mem _ hm)) hr
    cases k with
    | tok tt v =>
      simp only [mapGroups] at h
      cases hr : mapGroups (fun k => !k.isInst cls) f rest with
      | error e => simp [hr] at h
      | ok rest' =>
        simp only [hr, Except.ok.injEq] at h
        subst h
        simp [specRecList, specRecNode, ihr _ hr]
    | grp c kids =>
      simp only [mapGroups] at h
      by_cases he : (Node.grp c kids).isInst cls = true
      · simp only [he, Bool.not_true, Bool.false_eq_true, ↓reduceIte] at h
        cases hr : mapGroups (fun k => !k.isInst cls) f rest with
        | error e => simp [hr] at h
        | ok rest' =>
          simp only [hr, Except.ok.injEq] at h
          subst h
          simp [specRecList, specRecNode, he, ihr _ hr]
      · have he' : (Node.grp c kids).isInst cls = false := by simpa using he
        simp only [he', Bool.not_false, ↓reduceIte] at h
        cases hk : f c kids with
        | error e => simp [hk] at h
        | ok kids' =>
          simp only [hk] at h
          cases hr : mapGroups (fun k => !k.isInst cls) f rest with
          | error e => simp [hr] at h
          | ok rest' =>
            simp only [hr, Except.ok.injEq] at h
            subst h
            have := hf c kids kids' (List.mem_cons_self) hk
            simp [specRecList, specRecNode, he', ihr _ hr, this, specMatchRec]

/-- **`_group_matching` is the recursive textbook matcher** whenever it returns (i.e. whenever the fuel suffices) -/
theorem groupMatching_eq_spec {upper : Text → Text} {cls : Cls} {mOpen mClose : List MPat} :
    ∀ (fuel : Nat) (ks ks' : List Node), groupMatching upper cls mOpen mClose fuel ks = .ok ks' →
      ks' = specMatchRec (isOpenTok upper cls mOpen) (isCloseTok upper cls mOpen mClose) cls ks := by
  intro fuel
  induction fuel with
  | zero => intro ks ks' h; simp [groupMatching] at h
  | succ n ih =>
    intro ks ks' h
    simp only [groupMatching] at h
    cases hm : mapGroups (fun k => !k.isInst cls) (fun _ kids => groupMatching upper cls mOpen mClose n kids) ks with
    | error e => simp [hm] at h
    | ok ks1 =>
      simp only [hm] at h
      cases hl : matchLoop upper cls mOpen mClose ks1 0 { cur := ks1, opens := [], off := 0 } with
      | error e => simp [hl] at h
      | ok st =>
        simp only [hl, Except.ok.injEq] at h
        subst h
        have h1 := mapGroups_eq_specRecList (isOpen := isOpenTok upper cls mOpen)
          (isClose := isCloseTok upper cls mOpen mClose) ks ks1 (fun _ kids kids' _ hk => ih kids kids' hk) hm
        rw [matchLoop_eq_spec hl, h1, specMatchRec]

/-! ### and it returns as soon as the fuel exceeds the nesting depth -/
theorem depth_le_of_mem {ks : List Node} {k : Node} (h : k ∈ ks) : k.depth ≤ depthL ks := by
  induction ks with
  | nil => cases h
  | cons x xs ih =>
    simp only [depthL]
    cases h with
    | head => exact Nat.le_max_left _ _
    | tail _ h => exact Nat.le_trans (ih h) (Nat.le_max_right _ _)

theorem mapGroups_specRecList_ok {isOpen isClose : Node → Bool} {cls : Cls}
    {f : Cls → List Node → Except PyErr (List Node)} :
    ∀ (ks : List Node),
      (∀ c kids, Node.grp c kids ∈ ks → f c kids = .ok (specMatchRec isOpen isClose cls kids)) →
      mapGroups (fun k => !k.isInst cls) f ks = .ok (specRecList isOpen isClose cls ks) := by
  intro ks
  induction ks with
  | nil => intro _; simp [mapGroups, specRecList]
  | cons k rest ih =>
    intro hf
    have ihr := ih (fun c kids hm => hf c kids (List.mem_cons_of_mem _ hm))
    cases k with
    | tok tt v => simp [mapGroups, ihr, specRecList, specRecNode]
    | grp c kids =>
      by_cases he : (Node.grp c kids).isInst cls = true
      · simp [mapGroups, he, ihr, specRecList, specRecNode]
      · have he' : (Node.grp c kids).isInst cls = false := by simpa using he
        simp [mapGroups, he', ihr, specRecList, specRecNode, hf c kids List.mem_cons_self, specMatchRec]

/-- **totality**: with fuel above the nesting depth `_group_matching` returns the recursive matcher's result;
its only possible failure is running out of recursion depth -/
theorem groupMatching_total {upper : Text → Text} {cls : Cls} {mOpen mClose : List MPat} :
    ∀ (fuel : Nat) (ks : List Node), depthL ks < fuel →
      groupMatching upper cls mOpen mClose fuel ks =
        .ok (specMatchRec (isOpenTok upper cls mOpen) (isCloseTok upper cls mOpen mClose) cls ks) := by
  intro fuel
  induction fuel with
  | zero => intro ks h; omega
  | succ n ih =>
    intro ks hd
    simp only [groupMatching]
    have hm := mapGroups_specRecList_ok (isOpen := isOpenTok upper cls mOpen)
      (isClose := isCloseTok upper cls mOpen mClose) (cls := cls)
      (f := fun _ kids => groupMatching upper cls mOpen mClose n kids) ks (by
        intro c kids hmem
        apply ih
        have := depth_le_of_mem hmem
        simp only [Node.depth] at this
        omega)
    rw [hm]
    simp only
    obtain ⟨st, hst⟩ := matchLoop_total upper cls mOpen mClose
      (specRecList (isOpenTok upper cls mOpen) (isCloseTok upper cls mOpen mClose) cls ks)
    rw [hst]
    simp only [matchLoop_eq_spec hst, specMatchRec]

/-! ## shape of what `_group_matching` builds at one level -/

/-- an opener is a leaf matching `M_OPEN`; a closer is a leaf matching `M_CLOSE` -/
theorem isOpenTok_leaf {upper : Text → Text} {cls : Cls} {mOpen : List MPat} {k : Node}
    (h : isOpenTok upper cls mOpen k = true) :
    ∃ tt v, k = Node.tok tt v ∧ mOpen.any ((Node.tok tt v).matchP upper) = true := by
  simp only [isOpenTok, Bool.and_eq_true] at h
  cases k with
  | tok tt v => exact ⟨tt, v, rfl, h.2⟩
  | grp c ks =>
    have := h.2
    simp [Node.matchP, Node.match] at this

theorem isCloseTok_leaf {upper : Text → Text} {cls : Cls} {mOpen mClose : List MPat} {k : Node}
    (h : isCloseTok upper cls mOpen mClose k = true) :
    ∃ tt v, k = Node.tok tt v ∧ mClose.any ((Node.tok tt v).matchP upper) = true := by
  simp only [isCloseTok, Bool.and_eq_true] at h
  cases k with
  | tok tt v => exact ⟨tt, v, rfl, h.2⟩
  | grp c ks =>
    have := h.2
    simp [Node.matchP, Node.match] at this

/-- every child the loop leaves in `tlist` is a child it found there, or a group `[opening token, …, closing token]`
with the same property inside -/
theorem matchLoop_shape {upper : Text → Text} {cls : Cls} {mOpen mClose : List MPat} {snap : List Node}
    {st : MatchSt} (h : matchLoop upper cls mOpen mClose snap 0 { cur := snap, opens := [], off := 0 } = .ok st)
    {g : Node} (hg : g ∈ st.cur) :
    Shape (isOpenTok upper cls mOpen) (isCloseTok upper cls mOpen mClose) cls snap g := by
  rw [matchLoop_eq_spec h] at hg
  exact specMatch_shape hg

end Sql
