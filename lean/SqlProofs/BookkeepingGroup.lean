import SqlProofs.BookkeepingAbsScript
import SqlProofs.GroupNonEmpty
/-!
# SqlProofs.BookkeepingGroup — the tree `grouping.group` computes is the abstraction of a well-formed object graph

`runPure_heap`: every pure script (operations at paths) that succeeds on the abstraction of `root` can be replayed on the heap: the path
leads to an object, the operation on that object returns, and the abstraction of the new heap is the new tree.
`groupStatement_is_heap_history`: `grouping.group` is a pure script (`SqlProofs/PureScript.lean`), so for every token list on which
the pure model returns a tree there is a script of heap operations (`group_tokens` calls and `ttype` assignments) from the heap the
splitter builds, all of whose operations return, whose final heap is well-formed (`WF`: every child names its container as `parent`, no
object occurs twice, the graph is acyclic, every group is non-empty, every cached `value` is the text) and in which the pure tree of the
statement object is exactly the tree the pure model computes.
-/
namespace Sql.BK

/-- a path along which a pure operation succeeds leads to a group object -/
theorem path_exists {h : Heap} {A : Nat → Node} (hA : IsAbs h A) (f : List Node → Except PyErr (List Node)) :
    ∀ (p : List Nat) (r : Nat) (t : Node), Node.updAt f p (A r) = .ok t →
      ∃ x ks, IsPath h r p x ∧ (h.obj x).kids = some ks ∧ ∃ ks1, f (ks.map A) = .ok ks1 := by
  intro p
  induction p with
  | nil =>
    intro r t hu
    cases hk : (h.obj r).kids with
    | none => rw [hA.leaf r hk] at hu; simp [Node.updAt] at hu
    | some ks =>
      rw [hA.grp r ks hk] at hu
      simp only [Node.updAt] at hu
      cases hf : f (ks.map A) with
      | error e => rw [hf] at hu; cases hu
      | ok ks1 => exact ⟨r, ks, .nil r, hk, ks1, hf⟩
  | cons i p ih =>
    intro r t hu
    cases hk : (h.obj r).kids with
    | none => rw [hA.leaf r hk] at hu; simp [Node.updAt] at hu
    | some ks =>
      rw [hA.grp r ks hk] at hu
      simp only [Node.updAt, List.getElem?_map] at hu
      cases hy : ks[i]? with
      | none => rw [hy] at hu; simp at hu
      | some y =>
        rw [hy] at hu
        simp only [Option.map_some] at hu
        cases hu' : Node.updAt f p (A y) with
        | error e => rw [hu'] at hu; cases hu
        | ok t' =>
          obtain ⟨x, ksx, hp, hkx, hfx⟩ := ih y t' hu'
          exact ⟨x, ksx, .cons hk hy hp, hkx, hfx⟩

/-- the heap operation on object `x` a pure operation stands for -/
def HOp.ofPure (x : Nat) : POp → HOp
  | .group cls a b ie ext => .group ⟨x, cls, a, b, ie, ext⟩
  | .setType idx tt => .setType x idx tt

theorem HOp.ofPure_toPure (x : Nat) (op : POp) : (HOp.ofPure x op).toPure = op := by cases op <;> rfl
theorem HOp.ofPure_target (x : Nat) (op : POp) : (HOp.ofPure x op).target = x := by cases op <;> rfl

/-- where the pure operation succeeds on the abstraction of the children, the heap operation returns -/
theorem HOp.run_ok_of_pure {h : Heap} {A : Nat → Node} (str : Heap → Nat → Text) {x : Nat} {ks : List Nat} {ks1 : List Node}
    (hk : (h.obj x).kids = some ks) (op : POp) (hf : op.run (ks.map A) = .ok ks1) :
    ∃ r, (HOp.ofPure x op).run str h = .ok r := by
  cases op with
  | group cls a b ie ext =>
    simp only [POp.run, Sql.groupTokens, Sql.groupTokens', List.getElem?_map] at hf
    cases hst : ks[a]? with
    | none => rw [hst] at hf; simp at hf
    | some st =>
      simp only [HOp.ofPure, HOp.run, groupTokens, hk, hst]
      split
      · exact ⟨_, rfl⟩
      · exact ⟨_, rfl⟩
  | setType idx tt =>
    simp only [POp.run, List.getElem?_map] at hf
    cases hst : ks[idx]? with
    | none => rw [hst] at hf; simp at hf
    | some st =>
      simp only [HOp.ofPure, HOp.run, Heap.setTType, hk, hst]
      exact ⟨_, rfl⟩

/-- **every pure script that succeeds on the abstraction can be replayed on the heap** -/
theorem runPure_heap (fuel root : Nat) : ∀ (pops : List (List Nat × POp)) (h : Heap) (rank : Nat → Nat) (T : Nat → Text) (R : Nat)
    (A : Nat → Node) (t' : Node),
    Inv0 h rank T → (∀ i, rank i ≤ R) → R + pops.length < fuel → AllReach h root → IsAbs h A →
    runPure (A root) pops = .ok t' →
    ∃ hops : List HOp, hops.length = pops.length ∧
      (∀ e ∈ (runHOps (fun hx i => strF hx fuel i) h hops).2, ∃ g, e = .ok g) ∧
      WF0 (runHOps (fun hx i => strF hx fuel i) h hops).1 ∧
      AllReach (runHOps (fun hx i => strF hx fuel i) h hops).1 root ∧
      ∃ A', IsAbs (runHOps (fun hx i => strF hx fuel i) h hops).1 A' ∧ A' root = t' := by
  intro pops
  induction pops with
  | nil =>
    intro h rank T R A t' hinv _ _ hall hA hrun
    simp only [runPure] at hrun
    injection hrun with hrun
    exact ⟨[], rfl, by simp [runHOps], ⟨rank, T, hinv⟩, hall, A, hA, hrun⟩
  | cons po pops ih =>
    intro h rank T R A t' hinv hR hfuel hall hA hrun
    obtain ⟨p, op⟩ := po
    simp only [List.length_cons] at hfuel
    simp only [runPure] at hrun
    cases hu : Node.updAt op.run p (A root) with
    | error e => rw [hu] at hrun; cases hrun
    | ok t1 =>
      rw [hu] at hrun
      simp only at hrun
      obtain ⟨x, ks, hp, hk, ks1, hf⟩ := path_exists hA op.run p root t1 hu
      obtain ⟨r, hc⟩ := HOp.run_ok_of_pure (A := A) (fun hx i => strF hx fuel i) hk op hf
      obtain ⟨h', g⟩ := r
      obtain ⟨rank', T', hinv', hb⟩ := HOp.run_inv0 fuel (HOp.ofPure x op) g hinv (fun i => by have := hR i; omega) hc
      have hA1 : IsAbs h' (fun i => absF h' (rank' i + 1) i) := isAbs_absF hinv'
      obtain ⟨_, hpath⟩ := HOp.run_abs _ hinv hc hA hA1
      have hthis := hpath root p (by rw [HOp.ofPure_target]; exact hp)
      rw [HOp.ofPure_toPure, hu] at hthis
      injection hthis with hthis
      have hall1 := HOp.run_allReach _ hinv hc hall
      obtain ⟨hops, hlen, hok, hw, hall', A', hA', hroot⟩ := ih h' rank' T' (R + 1) _ t' hinv' (hb R hR) (by omega) hall1 hA1
        (by rw [← hthis]; exact hrun)
      refine ⟨HOp.ofPure x op :: hops, by simp [hlen], ?_, ?_, ?_, A', ?_, hroot⟩
      · simp only [runHOps, hc]
        intro e he
        rcases List.mem_cons.mp he with rfl | he
        · exact ⟨g, rfl⟩
        · exact hok e he
      · simp only [runHOps, hc]; exact hw
      · simp only [runHOps, hc]; exact hall'
      · simp only [runHOps, hc]; exact hA'

/-! ## non-empty groups, from the tree -/

theorem noEmpty_of_mem : ∀ {l : List Node} {k : Node}, noEmptyL l = true → k ∈ l → k.noEmpty = true
  | [], _, _, hm => by cases hm
  | x :: l, k, h, hm => by
    simp only [noEmptyL, Bool.and_eq_true] at h
    rcases List.mem_cons.mp hm with rfl | hm
    · exact h.1
    · exact noEmpty_of_mem h.2 hm

theorem noEmpty_of_path {h : Heap} {A : Nat → Node} (hA : IsAbs h A) {r x : Nat} {p : List Nat} (hp : IsPath h r p x) :
    (A r).noEmpty = true → (A x).noEmpty = true := by
  induction hp with
  | nil r => exact id
  | @cons r ks i k p x hk hi _ ih =>
    intro hr
    apply ih
    rw [hA.grp r ks hk] at hr
    simp only [Node.noEmpty, Bool.and_eq_true] at hr
    exact noEmpty_of_mem hr.2 (List.mem_map.mpr ⟨k, List.mem_of_getElem? hi, rfl⟩)

/-- if the tree of `root` has no empty group and every group object is reachable from `root`, every group object is non-empty -/
theorem nonempty_of_noEmpty {h : Heap} {A : Nat → Node} {root : Nat} (hA : IsAbs h A) (hall : AllReach h root)
    (hne : (A root).noEmpty = true) : ∀ g ks, (h.obj g).kids = some ks → ks ≠ [] := by
  intro g ks hk he
  subst he
  obtain ⟨p, hp⟩ := hall g [] hk
  have := noEmpty_of_path hA hp hne
  rw [hA.grp g [] hk] at this
  simp [Node.noEmpty] at this

/-- **the tree `grouping.group` computes is the abstraction of a well-formed object graph**: for every non-empty token list on which the
pure model returns `tree`, some script of heap operations from the heap the splitter builds has only returning operations, ends in a
well-formed heap in which every group is reachable from the statement object, and the pure tree of the statement object is `tree`. -/
theorem groupStatement_is_heap_history {fuel0 : Nat} {toks : List Tok} {tree : Node} (hne : toks ≠ [])
    (h : groupStatement fuel0 toks = .ok tree) :
    ∃ (hops : List HOp) (fuel : Nat),
      (∀ e ∈ (runHOps (fun hx i => strF hx fuel i) (mkStatementT toks) hops).2, ∃ g, e = .ok g) ∧
      WF (runHOps (fun hx i => strF hx fuel i) (mkStatementT toks) hops).1 ∧
      AllReach (runHOps (fun hx i => strF hx fuel i) (mkStatementT toks) hops).1 toks.length ∧
      ∃ A, IsAbs (runHOps (fun hx i => strF hx fuel i) (mkStatementT toks) hops).1 A ∧ A toks.length = tree := by
  obtain ⟨pops, hpops⟩ := groupStatement_scr h
  have hinv := mkStatementT_inv toks hne
  have hA0 : IsAbs (mkStatementT toks) _ := isAbs_absF hinv.toInv0
  have hroot := mkStatementT_abs toks hA0
  have hflat : Node.grp .Statement (toks.map fun t => Node.tok t.tt t.val) = .grp .Statement (flatStatement toks) := rfl
  rw [hflat, ← hroot] at hpops
  obtain ⟨hops, _, hok, hw0, hall, A', hA', hr⟩ := runPure_heap (2 + pops.length) toks.length pops _ _ _ 1 _ tree hinv.toInv0
    (by intro i; split <;> omega) (by omega) (mkStatementT_allReach toks) hA0 hpops
  refine ⟨hops, 2 + pops.length, hok, ?_, hall, A', hA', hr⟩
  obtain ⟨rank, T, hinv0⟩ := hw0
  have hne' := nonempty_of_noEmpty hA' hall (by rw [hr]; exact groupStatement_nonempty h hne)
  exact ⟨rank, T, ⟨hinv0, hne'⟩⟩

end Sql.BK
