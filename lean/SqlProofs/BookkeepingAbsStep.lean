import SqlProofs.BookkeepingAbs
/-!
# SqlProofs.BookkeepingAbsStep — one `group_tokens` call on the heap is one pure `groupTokens` at the path of `self`

`groupTokens_abs`: in a heap satisfying `Inv`, if `Heap.groupTokens` (with ANY `str`: the abstraction does not look at cached values)
returns `(h', g)`, `A` is the abstraction of `h` and `A'` an abstraction of `h'`, then

* `A self = grp c ks0`, the pure `Sql.groupTokens' ks0 cls a b ie ext` returns `(ks1, grp)`, `A' self = grp c ks1` and `A' g = grp`;
* frame: `A' j = A j` for every object `j ≠ g` from which `self` cannot be reached;
* path: for every object `r` and path `p` from `r` to `self`, `A' r` is `A r` with the pure call applied at `p`.
-/
namespace Sql.BK

variable {h h' : Heap} {rank : Nat → Nat} {T : Nat → Text} {A A' : Nat → Node} {self g : Nat}

/-- what both branches of `group_tokens` leave alone -/
def Same (h h' : Heap) (self g : Nat) : Prop :=
  ∀ j, j ≠ self → j ≠ g →
    (h'.obj j).kids = (h.obj j).kids ∧ (h'.obj j).cls = (h.obj j).cls ∧ (h'.obj j).value = (h.obj j).value ∧
      (h'.obj j).ttype = (h.obj j).ttype

/-- frame: objects from which `self` cannot be reached keep their tree -/
theorem frame_gen (hinv : Inv0 h rank T) (hA : IsAbs h A) (hA' : IsAbs h' A') (hsame : Same h h' self g)
    (hg : ∀ i ks, (h.obj i).kids = some ks → g ∈ ks → i = self) :
    ∀ (n j : Nat), rank j < n → j ≠ g → ¬ Reach h j self → A' j = A j := by
  intro n
  induction n with
  | zero => intro j hj; omega
  | succ n ih =>
    intro j hj hjg hnr
    have hjs : j ≠ self := by intro he; exact hnr (he ▸ Reach.refl h _)
    obtain ⟨e1, e2, e3, e4⟩ := hsame j hjs hjg
    cases hk : (h.obj j).kids with
    | none =>
      rw [hA.leaf j hk, hA'.leaf j (by rw [e1]; exact hk), e3, e4]
    | some ks =>
      rw [hA.grp j ks hk, hA'.grp j ks (by rw [e1]; exact hk), e2]
      congr 1
      apply List.map_congr_left
      intro k hkm
      have hr := hinv.rk j ks hk k hkm
      apply ih k (by omega)
      · intro he
        exact hjs (hg j ks hk (he ▸ hkm))
      · intro hr'
        exact hnr ((Reach.child hk hkm).trans hr')

/-- path: the tree of an ancestor changes exactly at the path to `self` -/
theorem path_gen (hinv : Inv0 h rank T) (hA : IsAbs h A) (hA' : IsAbs h' A') (hsame : Same h h' self g)
    (hg : ∀ i ks, (h.obj i).kids = some ks → g ∈ ks → i = self) (hgs : ¬ Reach h g self)
    (f : List Node → Except PyErr (List Node)) {c : Cls} {ks0 ks1 : List Node}
    (h0 : A self = .grp c ks0) (h1 : A' self = .grp c ks1) (hf : f ks0 = .ok ks1) :
    ∀ (p : List Nat) (r : Nat), IsPath h r p self → Node.updAt f p (A r) = .ok (A' r) := by
  intro p
  induction p with
  | nil =>
    intro r hp
    have := hp.nil_inv
    subst this
    rw [h0, h1]
    simp only [Node.updAt, hf]
  | cons i p ih =>
    intro r hp
    cases hp with
    | @cons _ ks _ k _ _ hk hi hp' =>
      have hrk := (IsPath.cons hk hi hp').rank_le hinv
      simp only [List.length_cons] at hrk
      have hrs : r ≠ self := by intro he; rw [he] at hrk; omega
      have hrg : r ≠ g := by intro he; exact hgs (he ▸ ⟨_, IsPath.cons hk hi hp'⟩)
      obtain ⟨e1, e2, _, _⟩ := hsame r hrs hrg
      rw [hA.grp r ks hk, hA'.grp r ks (by rw [e1]; exact hk), e2]
      have hik : (ks.map A)[i]? = some (A k) := by rw [List.getElem?_map, hi]; rfl
      simp only [Node.updAt, hik, ih k hp']
      congr 2
      apply List.ext_getElem?
      intro j
      rw [List.getElem?_set, List.getElem?_map, List.getElem?_map]
      by_cases hji : i = j
      · subst hji
        have hlt : i < (ks.map A).length := by
          rw [List.length_map]; exact (List.getElem?_eq_some_iff.mp hi).1
        simp only [if_true, hlt, hi, Option.map_some]
      · simp only [hji, if_false]
        cases hj : ks[j]? with
        | none => rfl
        | some k' =>
          simp only [Option.map_some]
          congr 1
          symm
          have hk'm : k' ∈ ks := List.mem_of_getElem? hj
          have hr := hinv.rk r ks hk k' hk'm
          apply frame_gen hinv hA hA' hsame hg (rank k' + 1) k' (by omega)
          · intro he
            exact hrs (hg r ks hk (he ▸ hk'm))
          · exact sibling_not_reach hinv hk hi hp' hj (fun he => hji he.symm)

theorem pySlice_map {α β : Type} (f : α → β) (l : List α) (a b : Nat) : pySlice (l.map f) a b = (pySlice l a b).map f := by
  simp only [pySlice, List.map_take, List.map_drop]

/-- the children of `self` keep their trees, except `g` -/
theorem kids_frame (hinv : Inv0 h rank T) (hA : IsAbs h A) (hA' : IsAbs h' A') (hsame : Same h h' self g)
    (hg : ∀ i ks, (h.obj i).kids = some ks → g ∈ ks → i = self) {j : Nat} (hj : rank j < rank self) (hjg : j ≠ g) :
    A' j = A j := by
  apply frame_gen hinv hA hA' hsame hg (rank j + 1) j (by omega) hjg
  intro hr
  have := hr.rank_le hinv
  omega

/-- the result of one call, in terms of the abstraction -/
structure StepAbs (h h' : Heap) (A A' : Nat → Node) (self g : Nat) (cls : Cls) (a b : Nat) (ie ext : Bool) :
    Prop where
  /-- the pure call on the children of `self` -/
  call : ∃ c ks0 ks1 grp, A self = .grp c ks0 ∧ Sql.groupTokens' ks0 cls a b ie ext = .ok (ks1, grp) ∧
    A' self = .grp c ks1 ∧ A' g = grp
  /-- frame -/
  frame : ∀ j, j ≠ g → ¬ Reach h j self → A' j = A j
  /-- path -/
  path : ∀ r p, IsPath h r p self →
    Node.updAt (POp.group cls a b ie ext).run p (A r) = .ok (A' r)

theorem stepAbs_of (hinv : Inv0 h rank T) (hA : IsAbs h A) (hA' : IsAbs h' A') (hsame : Same h h' self g)
    (hg : ∀ i ks, (h.obj i).kids = some ks → g ∈ ks → i = self) (hgs : ¬ Reach h g self)
    {cls : Cls} {a b : Nat} {ie ext : Bool} {c : Cls} {ks0 ks1 : List Node} {grp : Node}
    (h0 : A self = .grp c ks0) (hp : Sql.groupTokens' ks0 cls a b ie ext = .ok (ks1, grp))
    (h1 : A' self = .grp c ks1) (h2 : A' g = grp) : StepAbs h h' A A' self g cls a b ie ext := by
  refine ⟨⟨c, ks0, ks1, grp, h0, hp, h1, h2⟩, ?_, ?_⟩
  · intro j hjg hnr
    exact frame_gen hinv hA hA' hsame hg (rank j + 1) j (by omega) hjg hnr
  · intro r p hpath
    exact path_gen hinv hA hA' hsame hg hgs _ h0 h1 (by simp only [POp.run, Sql.groupTokens, hp]) p r hpath

/-- **one call of `group_tokens` on the heap is the pure `groupTokens` at the path of `self`** -/
theorem groupTokens_abs (str : Heap → Nat → Text) (hinv : Inv0 h rank T) {cls : Cls} {a b : Nat} {ie ext : Bool}
    (hcall : groupTokens str h self cls a b ie ext = .ok (h', g)) (hA : IsAbs h A) (hA' : IsAbs h' A') :
    StepAbs h h' A A' self g cls a b ie ext := by
  cases hk : (h.obj self).kids with
  | none => simp [groupTokens, hk] at hcall
  | some ks =>
    cases hst : ks[a]? with
    | none => simp [groupTokens, hk, hst] at hcall
    | some st =>
      have hstMem : st ∈ ks := List.mem_of_getElem? hst
      have hksRank : ∀ k ∈ ks, rank k < rank self := hinv.rk self ks hk
      have hksLt := (hinv.range self ks hk).2
      have hselfLt := (hinv.range self ks hk).1
      have hstSelf : st ≠ self := by intro he; have := hksRank st hstMem; rw [he] at this; exact Nat.lt_irrefl _ this
      have hnd : ks.Nodup := hinv.nodup self ks hk
      have hAself := hA.grp self ks hk
      have hast : (ks.map A)[a]? = some (A st) := by rw [List.getElem?_map, hst]; rfl
      cases hb : (ext && isInst (h.obj st) cls) with
      | true =>
        have hsome : (h.obj st).kids.isSome = true := by
          simp only [isInst, Bool.and_eq_true] at hb
          exact hb.2.1
        obtain ⟨kst, hkst⟩ := Option.isSome_iff_exists.mp hsome
        have htake := take_succ_of_getElem? ks a st hst
        have hsplit := slice_split ks (a + 1) (b + (if ie then 1 else 0))
        have hnd3 : ((ks.take a ++ [st]) ++ pySlice ks (a + 1) (b + (if ie then 1 else 0)) ++
            ks.drop (max (a + 1) (b + (if ie then 1 else 0)))).Nodup := by rw [← htake, ← hsplit]; exact hnd
        have hstNotSub : st ∉ pySlice ks (a + 1) (b + (if ie then 1 else 0)) := by
          intro hm
          exact (List.nodup_append.mp (List.nodup_append.mp hnd3).1).2.2 st (List.mem_append_right _ (List.mem_singleton.mpr rfl)) st hm rfl
        have hstNotPre : st ∉ ks.take a := by
          intro hm
          exact (List.nodup_append.mp (List.nodup_append.mp (List.nodup_append.mp hnd3).1).1).2.2 st hm st
            (List.mem_singleton.mpr rfl) rfl
        have hstNotPost : st ∉ ks.drop (max (a + 1) (b + (if ie then 1 else 0))) := by
          intro hm
          exact (List.nodup_append.mp hnd3).2.2 st
            (List.mem_append_left _ (List.mem_append_right _ (List.mem_singleton.mpr rfl))) st hm rfl
        have hsub : ∀ k ∈ pySlice ks (a + 1) (b + (if ie then 1 else 0)), k ≠ st ∧ k ≠ self := by
          intro k hm
          refine ⟨fun he => hstNotSub (he ▸ hm), ?_⟩
          intro he
          have := hksRank k (mem_of_mem_slice hm)
          rw [he] at this; exact Nat.lt_irrefl _ this
        rw [groupTokens_ext _ h self cls a b ie ext ks kst st hk hst hkst hb hstSelf hsub] at hcall
        injection hcall with hcall
        injection hcall with hh hgg
        subst hh
        subst hgg
        -- the shape of the new heap
        have hsame : Same h (extHeap h self st ks kst a (b + (if ie then 1 else 0))
            (str (extMid h self st ks kst a (b + (if ie then 1 else 0))) st)) self st := by
          intro j hjs hjt
          by_cases hm : j ∈ pySlice ks (a + 1) (b + (if ie then 1 else 0))
          · simp [extHeap, hjs, hjt, hm]
          · simp [extHeap, hjs, hjt, hm]
        have hg : ∀ i ks', (h.obj i).kids = some ks' → st ∈ ks' → i = self := by
          intro i ks' hki hm
          have p1 := hinv.par i ks' hki st hm
          have p2 := hinv.par self ks hk st hstMem
          rw [p1] at p2
          exact Option.some.inj p2
        have hgs : ¬ Reach h st self := by
          intro hr
          have := hr.rank_le hinv
          have := hksRank st hstMem
          omega
        have hkf : ∀ k, rank k < rank self → k ≠ st → A' k = A k :=
          fun k hk1 hk2 => kids_frame hinv hA hA' hsame hg hk1 hk2
        have hkSt' : ((extHeap h self st ks kst a (b + (if ie then 1 else 0))
            (str (extMid h self st ks kst a (b + (if ie then 1 else 0))) st)).obj st).kids =
            some (kst ++ pySlice ks (a + 1) (b + (if ie then 1 else 0))) := by
          simp [extHeap]
        have hcSt' : ((extHeap h self st ks kst a (b + (if ie then 1 else 0))
            (str (extMid h self st ks kst a (b + (if ie then 1 else 0))) st)).obj st).cls = (h.obj st).cls := by
          simp [extHeap]
        have hkSelf' : ((extHeap h self st ks kst a (b + (if ie then 1 else 0))
            (str (extMid h self st ks kst a (b + (if ie then 1 else 0))) st)).obj self).kids =
            some (pyDelSlice ks (a + 1) (b + (if ie then 1 else 0))) := by
          simp [extHeap, hstSelf.symm]
        have hcSelf' : ((extHeap h self st ks kst a (b + (if ie then 1 else 0))
            (str (extMid h self st ks kst a (b + (if ie then 1 else 0))) st)).obj self).cls = (h.obj self).cls := by
          simp [extHeap, hstSelf.symm]
        have hASt := hA.grp st kst hkst
        have hA'St : A' st = .grp (h.obj st).cls
            (kst.map A ++ pySlice (ks.map A) (a + 1) (b + (if ie then 1 else 0))) := by
          rw [hA'.grp st _ hkSt', hcSt', List.map_append, pySlice_map]
          congr 2
          · apply List.map_congr_left
            intro k hm
            have h1 := hinv.rk st kst hkst k hm
            have h2 := hksRank st hstMem
            exact hkf k (by omega) (by intro he; rw [he] at h1; exact Nat.lt_irrefl _ h1)
          · apply List.map_congr_left
            intro k hm
            exact hkf k (hksRank k (mem_of_mem_slice hm)) (hsub k hm).1
        have hA'Self : A' self = .grp (h.obj self).cls
            ((ks.map A).take a ++ A' st :: (ks.map A).drop (max (a + 1) (b + (if ie then 1 else 0)))) := by
          rw [hA'.grp self _ hkSelf', hcSelf']
          congr 1
          simp only [pyDelSlice]
          rw [htake, List.map_append, List.map_append, ← List.map_take, ← List.map_drop]
          simp only [List.map_cons, List.map_nil, List.append_assoc, List.singleton_append]
          congr 1
          · apply List.map_congr_left
            intro k hm
            exact hkf k (hksRank k (List.mem_of_mem_take hm)) (fun he => hstNotPre (he ▸ hm))
          · congr 1
            apply List.map_congr_left
            intro k hm
            exact hkf k (hksRank k (List.mem_of_mem_drop hm)) (fun he => hstNotPost (he ▸ hm))
        have hinst : (ext && (A st).isInst cls) = true := by
          rw [hASt]
          simp only [isInst, hsome, Bool.true_and] at hb
          simpa [Node.isInst] using hb
        refine stepAbs_of hinv hA hA' hsame hg hgs hAself ?_ hA'Self rfl
        simp only [Sql.groupTokens', hast]
        rw [hASt] at hinst ⊢
        simp only [hinst, if_true]
        rw [hA'St]
      | false =>
        have hsub : ∀ k ∈ pySlice ks a (b + (if ie then 1 else 0)), k < h.size ∧ k ≠ self := by
          intro k hm
          refine ⟨hksLt k (mem_of_mem_slice hm), ?_⟩
          intro he
          have := hksRank k (mem_of_mem_slice hm)
          rw [he] at this; exact Nat.lt_irrefl _ this
        rw [groupTokens_new _ h self cls a b ie ext ks st hk hst hb hselfLt hsub] at hcall
        injection hcall with hcall
        injection hcall with hh hgg
        subst hh
        subst hgg
        have hgNotSub : h.size ∉ pySlice ks a (b + (if ie then 1 else 0)) := by
          intro hm; have := (hsub _ hm).1; omega
        have hselfNe : self ≠ h.size := by omega
        have hsame : Same h (newHeap h self cls ks a (b + (if ie then 1 else 0))
            (str (newMid h cls (pySlice ks a (b + (if ie then 1 else 0)))) h.size)) self h.size := by
          intro j hjs hjg
          by_cases hm : j ∈ pySlice ks a (b + (if ie then 1 else 0))
          · simp [newHeap, hjs, hjg, hm]
          · simp [newHeap, hjs, hjg, hm]
        have hg : ∀ i ks', (h.obj i).kids = some ks' → h.size ∈ ks' → i = self := by
          intro i ks' hki hm
          have := (hinv.range i ks' hki).2 _ hm
          exact absurd this (Nat.lt_irrefl _)
        have hgs : ¬ Reach h h.size self := by
          rintro ⟨p, hp⟩
          cases hp with
          | nil => exact hselfNe rfl
          | cons hk' _ _ =>
            have := (hinv.range _ _ hk').1
            exact Nat.lt_irrefl _ this
        have hkf : ∀ k, k ∈ ks → A' k = A k := by
          intro k hm
          exact kids_frame hinv hA hA' hsame hg (hksRank k hm) (by have := hksLt k hm; omega)
        have hkG' : ((newHeap h self cls ks a (b + (if ie then 1 else 0))
            (str (newMid h cls (pySlice ks a (b + (if ie then 1 else 0)))) h.size)).obj h.size).kids =
            some (pySlice ks a (b + (if ie then 1 else 0))) := by
          simp [newHeap]
        have hcG' : ((newHeap h self cls ks a (b + (if ie then 1 else 0))
            (str (newMid h cls (pySlice ks a (b + (if ie then 1 else 0)))) h.size)).obj h.size).cls = cls := by
          simp [newHeap]
        have hkSelf' : ((newHeap h self cls ks a (b + (if ie then 1 else 0))
            (str (newMid h cls (pySlice ks a (b + (if ie then 1 else 0)))) h.size)).obj self).kids =
            some (ks.take a ++ h.size :: ks.drop (max a (b + (if ie then 1 else 0)))) := by
          simp [newHeap, hselfNe]
        have hcSelf' : ((newHeap h self cls ks a (b + (if ie then 1 else 0))
            (str (newMid h cls (pySlice ks a (b + (if ie then 1 else 0)))) h.size)).obj self).cls = (h.obj self).cls := by
          simp [newHeap, hselfNe]
        have hA'G : A' h.size = .grp cls (pySlice (ks.map A) a (b + (if ie then 1 else 0))) := by
          rw [hA'.grp h.size _ hkG', hcG', pySlice_map]
          congr 1
          apply List.map_congr_left
          intro k hm
          exact hkf k (mem_of_mem_slice hm)
        have hA'Self : A' self = .grp (h.obj self).cls
            ((ks.map A).take a ++ A' h.size :: (ks.map A).drop (max a (b + (if ie then 1 else 0)))) := by
          rw [hA'.grp self _ hkSelf', hcSelf']
          congr 1
          rw [List.map_append, ← List.map_take, ← List.map_drop]
          simp only [List.map_cons]
          congr 1
          · apply List.map_congr_left
            intro k hm
            exact hkf k (List.mem_of_mem_take hm)
          · congr 1
            apply List.map_congr_left
            intro k hm
            exact hkf k (List.mem_of_mem_drop hm)
        refine stepAbs_of hinv hA hA' hsame hg hgs hAself ?_ hA'Self rfl
        simp only [Sql.groupTokens', hast]
        rw [hA'G]
        cases hkst : (h.obj st).kids with
        | none =>
          rw [hA.leaf st hkst]
        | some kst =>
          have hinst : (ext && (A st).isInst cls) = false := by
            rw [hA.grp st kst hkst]
            simp only [isInst, hkst, Option.isSome_some, Bool.true_and] at hb
            simpa [Node.isInst] using hb
          rw [hA.grp st kst hkst] at hinst ⊢
          simp only [hinst]
          simp

/-- a call that raises on the heap raises the same exception in the pure model -/
theorem groupTokens_abs_error (str : Heap → Nat → Text) {cls : Cls} {a b : Nat} {ie ext : Bool} {e : PyErr}
    (hcall : groupTokens str h self cls a b ie ext = .error e) (hA : IsAbs h A) :
    Node.updAt (POp.group cls a b ie ext).run [] (A self) = .error e := by
  cases hk : (h.obj self).kids with
  | none =>
    simp only [groupTokens, hk] at hcall
    injection hcall with hcall
    subst hcall
    rw [hA.leaf self hk]
    rfl
  | some ks =>
    cases hst : ks[a]? with
    | none =>
      simp only [groupTokens, hk, hst] at hcall
      injection hcall with hcall
      subst hcall
      rw [hA.grp self ks hk]
      have : (ks.map A)[a]? = none := by rw [List.getElem?_map, hst]; rfl
      simp only [Node.updAt, POp.run, Sql.groupTokens, Sql.groupTokens', this]
    | some st =>
      simp only [groupTokens, hk, hst] at hcall
      split at hcall <;> cases hcall

end Sql.BK

/-! ## `ttype` assignments, and both kinds of operation together -/

namespace Sql.BK

variable {h h' : Heap} {rank : Nat → Nat} {T : Nat → Text} {A A' : Nat → Node} {self g : Nat}

/-- the object whose child list a heap operation addresses -/
def HOp.target : HOp → Nat
  | .group op => op.self
  | .setType s _ _ => s

/-- the pure operation a heap operation stands for -/
def HOp.toPure : HOp → POp
  | .group op => .group op.cls op.start op.stop op.includeEnd op.extend
  | .setType _ idx tt => .setType idx tt

/-- **`tlist[idx].ttype = tt` on the heap is the pure assignment at the path of `tlist`** -/
theorem setTType_abs (hinv : Inv0 h rank T) {idx x : Nat} {tt : TType} (hcall : h.setTType self idx tt = .ok (h', x))
    (hA : IsAbs h A) (hA' : IsAbs h' A') :
    (∃ c ks0 ks1, A self = .grp c ks0 ∧ (POp.setType idx tt).run ks0 = .ok ks1 ∧ A' self = .grp c ks1) ∧
    (∀ j, j ≠ x → ¬ Reach h j self → A' j = A j) ∧
    (∀ r p, IsPath h r p self → Node.updAt (POp.setType idx tt).run p (A r) = .ok (A' r)) := by
  obtain ⟨_, ⟨ks, hk, hi⟩, htt, hall, hoth⟩ := setTType_same hcall
  have hxMem : x ∈ ks := List.mem_of_getElem? hi
  have hksRank : ∀ k ∈ ks, rank k < rank self := hinv.rk self ks hk
  have hnd : ks.Nodup := hinv.nodup self ks hk
  have hsame : Same h h' self x := fun j _ hjx => ⟨(hall j).2.1, (hall j).2.2.1, (hall j).2.2.2, hoth j hjx⟩
  have hg : ∀ i ks', (h.obj i).kids = some ks' → x ∈ ks' → i = self := by
    intro i ks' hki hm
    have p1 := hinv.par i ks' hki x hm
    have p2 := hinv.par self ks hk x hxMem
    rw [p1] at p2
    exact Option.some.inj p2
  have hgs : ¬ Reach h x self := by
    intro hr
    have := hr.rank_le hinv
    have := hksRank x hxMem
    omega
  have hkf : ∀ k, rank k < rank self → k ≠ x → A' k = A k := fun k hk1 hk2 => kids_frame hinv hA hA' hsame hg hk1 hk2
  have hAself := hA.grp self ks hk
  have hx : A' x = (A x).setTType tt := by
    cases hkx : (h.obj x).kids with
    | none =>
      rw [hA.leaf x hkx, hA'.leaf x (by rw [(hall x).2.1]; exact hkx), htt, (hall x).2.2.2]
      rfl
    | some kx =>
      rw [hA.grp x kx hkx, hA'.grp x kx (by rw [(hall x).2.1]; exact hkx), (hall x).2.2.1]
      simp only [Node.setTType]
      congr 1
      apply List.map_congr_left
      intro k hm
      have h1 := hinv.rk x kx hkx k hm
      have h2 := hksRank x hxMem
      exact hkf k (by omega) (by intro he; rw [he] at h1; exact Nat.lt_irrefl _ h1)
  have hmap : ks.map A' = (ks.map A).set idx ((A x).setTType tt) := by
    apply List.ext_getElem?
    intro j
    rw [List.getElem?_set, List.getElem?_map, List.getElem?_map]
    by_cases hji : idx = j
    · subst hji
      have hlt : idx < (ks.map A).length := by
        rw [List.length_map]; exact (List.getElem?_eq_some_iff.mp hi).1
      simp only [if_true, hlt, hi, Option.map_some, hx]
    · simp only [hji, if_false]
      cases hj : ks[j]? with
      | none => rfl
      | some k' =>
        simp only [Option.map_some]
        congr 1
        have hk'm : k' ∈ ks := List.mem_of_getElem? hj
        apply hkf k' (hksRank k' hk'm)
        intro he
        subst he
        exact hji (getElem?_inj_of_nodup hnd hi hj)
  have hA'self : A' self = .grp (h.obj self).cls ((ks.map A).set idx ((A x).setTType tt)) := by
    rw [hA'.grp self ks (by rw [(hall self).2.1]; exact hk), (hall self).2.2.1, hmap]
  have hrun : (POp.setType idx tt).run (ks.map A) = .ok ((ks.map A).set idx ((A x).setTType tt)) := by
    have : (ks.map A)[idx]? = some (A x) := by rw [List.getElem?_map, hi]; rfl
    simp only [POp.run, this]
  refine ⟨⟨_, _, _, hAself, hrun, hA'self⟩, ?_, ?_⟩
  · intro j hjx hnr
    exact frame_gen hinv hA hA' hsame hg (rank j + 1) j (by omega) hjx hnr
  · intro r p hpath
    exact path_gen hinv hA hA' hsame hg hgs _ hAself hA'self hrun p r hpath

/-- **a heap operation is its pure operation at the path of the object it addresses** (frame + path) -/
theorem HOp.run_abs (str : Heap → Nat → Text) (hinv : Inv0 h rank T) {op : HOp} (hcall : op.run str h = .ok (h', g))
    (hA : IsAbs h A) (hA' : IsAbs h' A') :
    (∀ j, j ≠ g → ¬ Reach h j op.target → A' j = A j) ∧
    (∀ r p, IsPath h r p op.target → Node.updAt op.toPure.run p (A r) = .ok (A' r)) := by
  cases op with
  | group o =>
    obtain ⟨_, hf, hp⟩ := groupTokens_abs str hinv hcall hA hA'
    exact ⟨hf, hp⟩
  | setType s idx tt =>
    obtain ⟨_, hf, hp⟩ := setTType_abs hinv hcall hA hA'
    exact ⟨hf, hp⟩

/-- an operation that raises on the heap raises the same exception in the pure model -/
theorem HOp.run_abs_error (str : Heap → Nat → Text) {op : HOp} {e : PyErr} (hcall : op.run str h = .error e) (hA : IsAbs h A) :
    Node.updAt op.toPure.run [] (A op.target) = .error e ∨
      (∃ s idx tt, op = .setType s idx tt ∧ (h.obj s).kids = none ∧ e = .typeError) := by
  cases op with
  | group o => exact Or.inl (groupTokens_abs_error str hcall hA)
  | setType s idx tt =>
    simp only [HOp.run, Heap.setTType] at hcall
    cases hk : (h.obj s).kids with
    | none =>
      rw [hk] at hcall
      injection hcall with hcall
      exact Or.inr ⟨s, idx, tt, rfl, hk, hcall.symm⟩
    | some ks =>
      rw [hk] at hcall
      simp only at hcall
      cases hi : ks[idx]? with
      | none =>
        rw [hi] at hcall
        injection hcall with hcall
        subst hcall
        left
        simp only [HOp.target, HOp.toPure]
        rw [hA.grp s ks hk]
        have : (ks.map A)[idx]? = none := by rw [List.getElem?_map, hi]; rfl
        simp only [Node.updAt, POp.run, this]
      | some x => rw [hi] at hcall; cases hcall

end Sql.BK
