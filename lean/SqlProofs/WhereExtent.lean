import SqlModel.Grouping.AdHoc
import SqlProofs.Group.Nav
import SqlProofs.MatchSpec
/-!
# SqlProofs.WhereExtent — the extent of the `Where` groups built by `group_where` (property C13)

For one level (`groupWhereBody`, i.e. `group_where` on one `tlist` after its sub-groups have been handled):

* `whereLoop_iter`: one iteration.  With the pending WHERE keyword at index `t` of the current list `L`, the list
  becomes `L[:t] ++ [Where(L[t..e])] ++ L[e+1:]` where `e = j − 1` if `j` is the first index `> t` whose child matches
  `Where.M_CLOSE`, and otherwise the last groupable index (`len−1`; `len−2` inside Parenthesis/SquareBrackets).
* `whereLoop_prefix`: later iterations never touch indexes `≤ t` (they search from `t+1`).
* `where_first_extent_close` / `where_first_extent_end`: hence for the FIRST child matching `Where.M_OPEN` (index `i`)
  the result has, at index `i`, exactly the group of the original children `i … j−1` (resp. `i … last`), and the
  children before `i` are unchanged.
* several WHEREs: `whereLoop_iter` applies to every iteration, i.e. to every WHERE keyword that is still a child of
  this list when the search reaches it — it then heads its own group.  A WHERE keyword lying between an earlier
  WHERE and that one's first closer is *inside* the earlier group (it is one of `L[t..e]`), so it is never reached;
  one after the closer is reached.  `where_none_left`: when the pass returns, no child of the list matches
  `Where.M_OPEN` any more.
-/
namespace Sql

/-- the child matches `Where.M_OPEN` (the search pattern of `group_where`) -/
def isWhereOpen (u : Text → Text) (k : Node) : Bool := imt u k [] Gen.group_where_token_next_by0_m .none

/-- the child matches `Where.M_CLOSE` -/
def isWhereClose (u : Text → Text) (k : Node) : Bool := imt u k [] Gen.group_where_token_next_by1_m .none

/-- index of the last element of `_groupable_tokens` -/
def lastGroupable (c : Cls) (ks : List Node) : Nat :=
  if Gen.groupableInner.contains c then ks.length - 2 else ks.length - 1

/-- where the group started at `t` ends -/
theorem whereEnd_spec {u : Text → Text} {c : Cls} {ks : List Node} {t e : Nat} (h : whereEnd u c ks t = .ok e) :
    (∃ j cl, tokenNextBy u ks [] Gen.group_where_token_next_by1_m .none (t + 1) = some (j, cl) ∧ e + 1 = j) ∨
    (tokenNextBy u ks [] Gen.group_where_token_next_by1_m .none (t + 1) = none ∧ e = lastGroupable c ks) := by
  unfold whereEnd at h
  cases hnb : tokenNextBy u ks [] Gen.group_where_token_next_by1_m .none (t + 1) with
  | none =>
    right
    simp only [hnb] at h
    refine ⟨rfl, ?_⟩
    unfold groupableLastIdx at h
    unfold lastGroupable
    split at h
    · rename_i hin
      split at h
      · cases h; rw [if_pos hin]
      · cases h
    · rename_i hin
      split at h
      · cases h; rw [if_neg hin]
      · cases h
  | some q =>
    obtain ⟨j, cl⟩ := q
    left
    have := (tokenNextBy_spec hnb).1
    simp only [hnb] at h
    refine ⟨j, cl, rfl, ?_⟩
    split at h
    · cases h; omega
    · omega

/-- **one iteration**: the WHERE keyword at `t` and everything up to `e` become one `Where` group -/
theorem whereLoop_iter {u : Text → Text} {c : Cls} {n : Nat} {ks ks' : List Node} {t : Nat} {tok : Node}
    (h : whereLoop u c (n + 1) ks (some (t, tok)) = .ok ks') (ht : t < ks.length) :
    ∃ e, whereEnd u c ks t = .ok e ∧
      whereLoop u c n (ks.take t ++ Node.grp .Where (pySlice ks t (e + 1)) :: ks.drop (max t (e + 1)))
        (tokenNextBy u (ks.take t ++ Node.grp .Where (pySlice ks t (e + 1)) :: ks.drop (max t (e + 1)))
          [] Gen.group_where_token_next_by2_m .none (t + 1)) = .ok ks' := by
  simp only [whereLoop] at h
  cases he : whereEnd u c ks t with
  | error err => simp [he] at h
  | ok e =>
    simp only [he] at h
    have hg : groupTokens ks Gen.group_where_group_tokens0_cls t e true Gen.group_where_group_tokens0_extend =
        .ok (ks.take t ++ Node.grp .Where (pySlice ks t (e + 1)) :: ks.drop (max t (e + 1))) :=
      groupTokens_new ht
    rw [hg] at h
    exact ⟨e, rfl, h⟩

theorem take_splice {α : Type} (l : List α) (a s : Nat) (hs : s ≤ a) (ha : a ≤ l.length) (g : α) (tl : List α) :
    (l.take a ++ g :: tl).take s = l.take s := by
  rw [List.take_append_of_le_length (by simp [List.length_take]; omega), List.take_take]
  simp [Nat.min_eq_left hs]

/-- **later iterations leave the prefix alone** -/
theorem whereLoop_prefix {u : Text → Text} {c : Cls} : ∀ (n : Nat) (ks : List Node) (pend : Option (Nat × Node))
    (ks' : List Node) (s : Nat), whereLoop u c n ks pend = .ok ks' →
      (∀ t tok, pend = some (t, tok) → s ≤ t ∧ t < ks.length) → ks'.take s = ks.take s := by
  intro n
  induction n with
  | zero =>
    intro ks pend ks' s h _
    cases pend with
    | none => simp [whereLoop] at h; subst h; rfl
    | some p => simp [whereLoop] at h
  | succ n ih =>
    intro ks pend ks' s h hp
    cases pend with
    | none => simp [whereLoop] at h; subst h; rfl
    | some p =>
      obtain ⟨t, tok⟩ := p
      obtain ⟨hst, htl⟩ := hp t tok rfl
      obtain ⟨e, _, h2⟩ := whereLoop_iter h htl
      rw [ih _ _ _ s h2 ?_]
      · exact take_splice ks t s hst (Nat.le_of_lt htl) _ _
      · intro t2 tok2 hq
        obtain ⟨h1, h3, _⟩ := tokenNextBy_spec hq
        exact ⟨by omega, (List.getElem?_eq_some_iff.1 h3).1⟩

/-- the element at `t` after the iteration that groups there, in the final list -/
theorem whereLoop_at {u : Text → Text} {c : Cls} {n : Nat} {ks ks' : List Node} {t : Nat} {tok : Node}
    (h : whereLoop u c (n + 1) ks (some (t, tok)) = .ok ks') (ht : t < ks.length) :
    ∃ e, whereEnd u c ks t = .ok e ∧ ks'.take t = ks.take t ∧
      ks'[t]? = some (Node.grp .Where (pySlice ks t (e + 1))) := by
  obtain ⟨e, he, h2⟩ := whereLoop_iter h ht
  have hpre := whereLoop_prefix _ _ _ _ (t + 1) h2 (by
    intro t2 tok2 hq
    obtain ⟨h1, h3, _⟩ := tokenNextBy_spec hq
    exact ⟨h1, (List.getElem?_eq_some_iff.1 h3).1⟩)
  refine ⟨e, he, ?_, ?_⟩
  · have := congrArg (List.take t) hpre
    rw [List.take_take, List.take_take, Nat.min_eq_left (by omega)] at this
    rw [this]
    exact take_splice ks t t (Nat.le_refl _) (Nat.le_of_lt ht) _ _
  · have h1 : (ks'.take (t + 1))[t]? = ks'[t]? := by rw [List.getElem?_take]; simp
    rw [← h1, hpre, List.getElem?_take]
    simp only [Nat.lt_add_one, ↓reduceIte]
    rw [List.getElem?_append_right (by simp [List.length_take]; omega)]
    simp [List.length_take, Nat.min_eq_left (Nat.le_of_lt ht)]

/-- **the first WHERE, closed by a keyword**: with `i` the first child matching `Where.M_OPEN` and `j` the first
index `> i` whose child matches `Where.M_CLOSE`, the result has the group of the original children `i … j−1` at
index `i`, after the unchanged children `0 … i−1` -/
theorem where_first_extent_close {u : Text → Text} {c : Cls} {ks ks' : List Node} {i j : Nat} {tok cl : Node}
    (h : groupWhereBody u c ks = .ok ks')
    (hi : tokenNextBy u ks [] Gen.group_where_token_next_by0_m .none 0 = some (i, tok))
    (hj : tokenNextBy u ks [] Gen.group_where_token_next_by1_m .none (i + 1) = some (j, cl)) :
    ks'.take i = ks.take i ∧ ks'[i]? = some (Node.grp .Where ((ks.take j).drop i)) := by
  unfold groupWhereBody loopBound at h
  rw [hi] at h
  have hlen : i < ks.length := (List.getElem?_eq_some_iff.1 (tokenNextBy_spec hi).2.1).1
  obtain ⟨e, he, hpre, hat⟩ := whereLoop_at h hlen
  rcases whereEnd_spec he with ⟨j', cl', hj', hej⟩ | ⟨hnone, _⟩
  · rw [hj] at hj'
    cases hj'
    rw [hej] at hat
    exact ⟨hpre, hat⟩
  · rw [hj] at hnone; cases hnone

/-- **the first WHERE, not closed**: without a closing keyword the group runs to the last groupable child -/
theorem where_first_extent_end {u : Text → Text} {c : Cls} {ks ks' : List Node} {i : Nat} {tok : Node}
    (h : groupWhereBody u c ks = .ok ks')
    (hi : tokenNextBy u ks [] Gen.group_where_token_next_by0_m .none 0 = some (i, tok))
    (hj : tokenNextBy u ks [] Gen.group_where_token_next_by1_m .none (i + 1) = none) :
    ks'.take i = ks.take i ∧
      ks'[i]? = some (Node.grp .Where ((ks.take (lastGroupable c ks + 1)).drop i)) := by
  unfold groupWhereBody loopBound at h
  rw [hi] at h
  have hlen : i < ks.length := (List.getElem?_eq_some_iff.1 (tokenNextBy_spec hi).2.1).1
  obtain ⟨e, he, hpre, hat⟩ := whereLoop_at h hlen
  rcases whereEnd_spec he with ⟨j', cl', hj', _⟩ | ⟨_, hel⟩
  · rw [hj] at hj'; cases hj'
  · rw [hel] at hat
    exact ⟨hpre, hat⟩

/-- what "first" means: no child before `i` matches `Where.M_OPEN`, none strictly between `i` and `j` matches
`Where.M_CLOSE` -/
theorem where_first_minimal {u : Text → Text} {ks : List Node} {i j : Nat} {tok cl : Node}
    (hi : tokenNextBy u ks [] Gen.group_where_token_next_by0_m .none 0 = some (i, tok))
    (hj : tokenNextBy u ks [] Gen.group_where_token_next_by1_m .none (i + 1) = some (j, cl)) :
    ks[i]? = some tok ∧ isWhereOpen u tok = true ∧ (∀ i' x, i' < i → ks[i']? = some x → isWhereOpen u x = false) ∧
    i < j ∧ ks[j]? = some cl ∧ isWhereClose u cl = true ∧
    (∀ j' x, i < j' → j' < j → ks[j']? = some x → isWhereClose u x = false) := by
  obtain ⟨_, h2, h3⟩ := tokenNextBy_spec hi
  obtain ⟨h4, h5, h6⟩ := tokenNextBy_spec hj
  exact ⟨h2, h3, fun i' x hlt hx => tokenNextBy_first hi i' x (Nat.zero_le _) hlt hx, by omega, h5, h6,
    fun j' x h1 h2' hx => tokenNextBy_first hj j' x (by omega) h2' hx⟩

/-! ### several WHEREs: none is left at this level -/
theorem whereLoop_none_left {u : Text → Text} {c : Cls} : ∀ (n : Nat) (ks : List Node) (pend : Option (Nat × Node))
    (ks' : List Node) (s : Nat), whereLoop u c n ks pend = .ok ks' →
      (∀ t tok, pend = some (t, tok) → s ≤ t ∧ t < ks.length ∧
        ∀ i x, s ≤ i → i < t → ks[i]? = some x → isWhereOpen u x = false) →
      (pend = none → ∀ i x, s ≤ i → ks[i]? = some x → isWhereOpen u x = false) →
      (∀ i x, i < s → ks[i]? = some x → isWhereOpen u x = false) →
      ∀ x ∈ ks', isWhereOpen u x = false := by
  intro n
  induction n with
  | zero =>
    intro ks pend ks' s h _ hnone hlow
    cases pend with
    | none =>
      simp [whereLoop] at h; subst h
      intro x hx
      obtain ⟨i, hi, rfl⟩ := List.getElem_of_mem hx
      by_cases his : i < s
      · exact hlow i _ his (List.getElem?_eq_getElem hi)
      · exact hnone rfl i _ (by omega) (List.getElem?_eq_getElem hi)
    | some p => simp [whereLoop] at h
  | succ n ih =>
    intro ks pend ks' s h hp hnone hlow
    cases pend with
    | none =>
      simp [whereLoop] at h; subst h
      intro x hx
      obtain ⟨i, hi, rfl⟩ := List.getElem_of_mem hx
      by_cases his : i < s
      · exact hlow i _ his (List.getElem?_eq_getElem hi)
      · exact hnone rfl i _ (by omega) (List.getElem?_eq_getElem hi)
    | some p =>
      obtain ⟨t, tok⟩ := p
      obtain ⟨hst, htl, hbetween⟩ := hp t tok rfl
      obtain ⟨e, _, h2⟩ := whereLoop_iter h htl
      generalize hL : (ks.take t ++ Node.grp .Where (pySlice ks t (e + 1)) :: ks.drop (max t (e + 1))) = L at h2
      have hLlow : ∀ i x, i < t + 1 → L[i]? = some x → isWhereOpen u x = false := by
        intro i x hi hx
        rw [← hL] at hx
        by_cases hit : i < t
        · rw [List.getElem?_append_left (by simp [List.length_take]; omega), List.getElem?_take] at hx
          simp only [hit, ↓reduceIte] at hx
          by_cases his : i < s
          · exact hlow i x his hx
          · exact hbetween i x (by omega) hit hx
        · have : i = t := by omega
          subst this
          rw [List.getElem?_append_right (by simp [List.length_take]; omega)] at hx
          simp [List.length_take, Nat.min_eq_left (Nat.le_of_lt htl)] at hx
          subst hx
          simp [isWhereOpen, imt, Node.isInstAny, Node.matchP, Node.match]
      refine ih L _ ks' (t + 1) h2 ?_ ?_ hLlow
      · intro t2 tok2 hq
        obtain ⟨h1, h3, _⟩ := tokenNextBy_spec hq
        exact ⟨h1, (List.getElem?_eq_some_iff.1 h3).1, fun i x hi hlt hx => tokenNextBy_first hq i x hi hlt hx⟩
      · intro hq i x hi hx
        exact tokenNextBy_none hq i x hi hx

/-- **when `group_where` returns, no child of the list matches `Where.M_OPEN`**: every WHERE keyword that was still
a child of this list when the search reached it now heads a `Where` group -/
theorem where_none_left {u : Text → Text} {c : Cls} {ks ks' : List Node} (h : groupWhereBody u c ks = .ok ks') :
    ∀ x ∈ ks', isWhereOpen u x = false := by
  unfold groupWhereBody loopBound at h
  refine whereLoop_none_left _ _ _ _ 0 h ?_ ?_ (by intro i x hi; omega)
  · intro t tok hq
    obtain ⟨h1, h3, _⟩ := tokenNextBy_spec hq
    exact ⟨h1, (List.getElem?_eq_some_iff.1 h3).1, fun i x hi hlt hx => tokenNextBy_first hq i x hi hlt hx⟩
  · intro hq i x hi hx
    exact tokenNextBy_none hq i x hi hx

end Sql
