import SqlProofs.FilterSpec
/-!
# SqlProofs.SpacesSpec — `SpacesAroundOperatorsFilter` (as fixed in repo commit f036566): idempotence and normal form
-/
namespace Sql
open FNode (leaves leavesL)
/-! ## `SpacesAroundOperatorsFilter` is idempotent (tree level) -/

theorem isSpaceOp_wsTok : isSpaceOp wsTok = false := by decide
theorem wsTok_isWhitespace : wsTok.isWhitespace = true := by decide

/-- an operator child is not whitespace (from the generated type tuple) -/
theorem isSpaceOp_not_ws (k : FNode) (h : isSpaceOp k = true) : k.isWhitespace = false := by
  cases k with
  | grp c cv ks => rfl
  | tok tt v =>
    simp only [isSpaceOp, FNode.ttInArg, Sql.ttInArg, Gen.spaceOpTTypes, List.contains_cons, List.contains_nil,
      Bool.or_false, Bool.or_eq_true, beq_iff_eq] at h
    rcases h with h | h <;> subst h <;> rfl

/-- `spacesGo` looks at `prev` only through `needsBlank` -/
theorem spacesGo_prev_congr (p q : Option FNode) (h : needsBlank p = needsBlank q) : ∀ l, spacesGo p l = spacesGo q l
  | [] => rfl
  | k :: rest => by
    unfold spacesGo
    rw [h]

theorem needsBlank_ws : needsBlank (some wsTok) = false := by decide

/-- the head of the output is whitespace / absent whenever the head of the input is -/
theorem spacesGo_head_ws (p : Option FNode) : ∀ (l : List FNode), needsBlank l.head? = false → needsBlank p = false →
    needsBlank (spacesGo p l).head? = false
  | [], _, _ => rfl
  | k :: rest, hk, hp => by
    unfold spacesGo
    have hkw : k.isWhitespace = true := by simpa [needsBlank] using hk
    have hop : isSpaceOp k = false := by
      cases h : isSpaceOp k with
      | false => rfl
      | true => rw [isSpaceOp_not_ws k h] at hkw; cases hkw
    simp [hop, needsBlank, hkw]

theorem spacesGo_idem : ∀ (l : List FNode) (p : Option FNode), spacesGo p (spacesGo p l) = spacesGo p l
  | [], p => rfl
  | k :: rest, p => by
    by_cases hop : isSpaceOp k = true
    · have hkw := isSpaceOp_not_ws k hop
      have hnk : needsBlank (some k) = true := by simp [needsBlank, hkw]
      -- the tail of the first pass and its behaviour under the second pass
      have tail : ∀ q, needsBlank q = false →
          spacesGo q (k :: (if needsBlank rest.head? = true then wsTok :: spacesGo (some wsTok) rest else spacesGo (some k) rest))
            = k :: (if needsBlank rest.head? = true then wsTok :: spacesGo (some wsTok) rest else spacesGo (some k) rest) := by
        intro q hq
        cases hr : needsBlank rest.head? with
        | true =>
          simp only [if_true]
          rw [spacesGo, if_pos hop, hq]
          simp only [Bool.false_eq_true, if_false, List.nil_append, List.head?_cons, needsBlank_ws]
          congr 1
          rw [spacesGo, if_neg (by simp [isSpaceOp_wsTok]), spacesGo_idem rest (some wsTok)]
        | false =>
          simp only [Bool.false_eq_true, if_false]
          rw [spacesGo, if_pos hop, hq]
          have hh : needsBlank (spacesGo (some k) rest).head? = false := by
            cases rest with
            | nil => rfl
            | cons x r =>
              unfold spacesGo
              have hxw : x.isWhitespace = true := by simpa [needsBlank] using hr
              have hxop : isSpaceOp x = false := by
                cases h : isSpaceOp x with
                | false => rfl
                | true => rw [isSpaceOp_not_ws x h] at hxw; cases hxw
              simp [hxop, needsBlank, hxw]
          simp only [Bool.false_eq_true, if_false, List.nil_append, hh]
          rw [spacesGo_idem rest (some k)]
      cases hp : needsBlank p with
      | true =>
        have e1 : spacesGo p (k :: rest) = wsTok :: k :: (if needsBlank rest.head? = true then wsTok :: spacesGo (some wsTok) rest else spacesGo (some k) rest) := by
          rw [spacesGo, if_pos hop, hp]; rfl
        rw [e1, spacesGo, if_neg (by simp [isSpaceOp_wsTok])]
        congr 1
        exact tail (some wsTok) needsBlank_ws
      | false =>
        have e1 : spacesGo p (k :: rest) = k :: (if needsBlank rest.head? = true then wsTok :: spacesGo (some wsTok) rest else spacesGo (some k) rest) := by
          rw [spacesGo, if_pos hop, hp]; rfl
        rw [e1]
        exact tail p hp
    · have e1 : spacesGo p (k :: rest) = k :: spacesGo (some k) rest := by rw [spacesGo, if_neg hop]
      rw [e1, spacesGo, if_neg hop, spacesGo_idem rest (some k)]

theorem spacesLevel_idem (ks : List FNode) : spacesLevel (spacesLevel ks) = spacesLevel ks := spacesGo_idem ks none


theorem mem_spacesGo : ∀ (l : List FNode) (p : Option FNode) (x : FNode), x ∈ spacesGo p l → x = wsTok ∨ x ∈ l
  | [], p, x, h => by simp [spacesGo] at h
  | k :: rest, p, x, h => by
    unfold spacesGo at h
    by_cases hop : isSpaceOp k = true
    · rw [if_pos hop] at h
      rcases List.mem_append.mp h with h1 | h1
      · left
        cases hp : needsBlank p with
        | true => rw [hp] at h1; simpa using h1
        | false => rw [hp] at h1; simp at h1
      · rcases List.mem_cons.mp h1 with rfl | h2
        · right; exact List.mem_cons_self
        · cases hr : needsBlank rest.head? with
          | true =>
            rw [hr] at h2
            simp only [if_true] at h2
            rcases List.mem_cons.mp h2 with rfl | h3
            · left; rfl
            · rcases mem_spacesGo rest _ x h3 with h4 | h4
              · left; exact h4
              · right; exact List.mem_cons_of_mem _ h4
          | false =>
            rw [hr] at h2
            simp only [Bool.false_eq_true, if_false] at h2
            rcases mem_spacesGo rest _ x h2 with h4 | h4
            · left; exact h4
            · right; exact List.mem_cons_of_mem _ h4
    · rw [if_neg hop] at h
      rcases List.mem_cons.mp h with rfl | h2
      · right; exact List.mem_cons_self
      · rcases mem_spacesGo rest _ x h2 with h4 | h4
        · left; exact h4
        · right; exact List.mem_cons_of_mem _ h4

theorem bottomUpL_fixed (f : Nat → Cls → List FNode → Except PyErr (List FNode)) (fuel d : Nat) :
    ∀ (l : List FNode), (∀ x ∈ l, bottomUp f fuel d x = .ok x) → bottomUpL f fuel d l = .ok l
  | [], _ => by unfold bottomUpL; rfl
  | k :: rest, h => by
    unfold bottomUpL
    rw [h k List.mem_cons_self]
    simp only
    rw [bottomUpL_fixed f fuel d rest (fun x hx => h x (List.mem_cons_of_mem _ hx))]

/-- the level function of `SpacesAroundOperatorsFilter` as given to `bottomUp` -/
def spLevel : Nat → Cls → List FNode → Except PyErr (List FNode) := fun _ _ ks => .ok (spacesLevel ks)

mutual
theorem spaces_fixed : ∀ (n : FNode) (fuel d : Nat) (n' : FNode), bottomUp spLevel fuel d n = .ok n' →
    bottomUp spLevel fuel d n' = .ok n'
  | .tok tt v, fuel, d, n', h => by
    unfold bottomUp at h
    simp only [Except.ok.injEq] at h
    rw [← h]; unfold bottomUp; rfl
  | .grp c cv ks, fuel, d, n', h => by
    unfold bottomUp at h
    cases fuel with
    | zero => simp at h
    | succ fuel' =>
      simp only at h
      cases hk : bottomUpL spLevel fuel' (d + 1) ks with
      | error e => rw [hk] at h; cases h
      | ok ks' =>
        rw [hk] at h
        simp only [spLevel, Except.ok.injEq] at h
        rw [← h]
        have hfix := spaces_fixedL ks fuel' (d + 1) ks' hk
        have hall : ∀ x ∈ spacesLevel ks', bottomUp spLevel fuel' (d + 1) x = .ok x := by
          intro x hx
          rcases mem_spacesGo ks' none x hx with rfl | hx'
          · unfold bottomUp wsTok; rfl
          · exact hfix x hx'
        unfold bottomUp
        simp only
        rw [bottomUpL_fixed spLevel fuel' (d + 1) _ hall]
        simp only [spLevel, spacesLevel_idem]
theorem spaces_fixedL : ∀ (ns : List FNode) (fuel d : Nat) (ns' : List FNode), bottomUpL spLevel fuel d ns = .ok ns' →
    ∀ x ∈ ns', bottomUp spLevel fuel d x = .ok x
  | [], fuel, d, ns', h => by
    unfold bottomUpL at h
    simp only [Except.ok.injEq] at h
    rw [← h]; simp
  | k :: rest, fuel, d, ns', h => by
    unfold bottomUpL at h
    cases hk : bottomUp spLevel fuel d k with
    | error e => rw [hk] at h; cases h
    | ok k' =>
      rw [hk] at h
      simp only at h
      cases hr : bottomUpL spLevel fuel d rest with
      | error e => rw [hr] at h; cases h
      | ok rest' =>
        rw [hr] at h
        simp only [Except.ok.injEq] at h
        rw [← h]
        intro x hx
        rcases List.mem_cons.mp hx with rfl | hx'
        · exact spaces_fixed k fuel d _ hk
        · exact spaces_fixedL rest fuel d rest' hr x hx'
end

/-- the fixed-point clause of C10 at tree level: whatever `SpacesAroundOperatorsFilter` returns, it returns unchanged when
applied again (every tree, every fuel) -/
theorem spaces_idempotent (fuel : Nat) (n n' : FNode) (h : spacesAroundOperators fuel n = .ok n') :
    spacesAroundOperators fuel n' = .ok n' :=
  spaces_fixed n fuel 0 n' h

/-! ## normal form of `SpacesAroundOperatorsFilter` -/

/-- every operator child has, on each side, a whitespace sibling or the end of the list (`prev` is what precedes the list) -/
def opsSpaced : Option FNode → List FNode → Bool
  | _, [] => true
  | prev, k :: rest => (!isSpaceOp k || (!needsBlank prev && !needsBlank rest.head?)) && opsSpaced (some k) rest

namespace FNode
mutual
/-- `P` holds for the child list of every group of the tree -/
def allLists (P : List FNode → Bool) : FNode → Bool
  | .tok .. => true
  | .grp _ _ ks => P ks && allListsL P ks
def allListsL (P : List FNode → Bool) : List FNode → Bool
  | [] => true
  | k :: ks => allLists P k && allListsL P ks
end
end FNode

theorem opsSpaced_congr (p q : Option FNode) (h : needsBlank p = needsBlank q) (l : List FNode) : opsSpaced p l = opsSpaced q l := by
  cases l with
  | nil => rfl
  | cons k rest => simp [opsSpaced, h]

theorem spacesGo_head_after_op (k : FNode) (rest : List FNode) (hr : needsBlank rest.head? = false) :
    needsBlank (spacesGo (some k) rest).head? = false := by
  cases rest with
  | nil => rfl
  | cons x r =>
    unfold spacesGo
    have hxw : x.isWhitespace = true := by simpa [needsBlank] using hr
    have hxop : isSpaceOp x = false := by
      cases h : isSpaceOp x with
      | false => rfl
      | true => rw [isSpaceOp_not_ws x h] at hxw; cases hxw
    simp [hxop, needsBlank, hxw]

theorem opsSpaced_spacesGo : ∀ (l : List FNode) (p : Option FNode), opsSpaced p (spacesGo p l) = true
  | [], p => rfl
  | k :: rest, p => by
    by_cases hop : isSpaceOp k = true
    · have tail : ∀ q, needsBlank q = false →
          opsSpaced q (k :: (if needsBlank rest.head? = true then wsTok :: spacesGo (some wsTok) rest else spacesGo (some k) rest)) = true := by
        intro q hq
        cases hr : needsBlank rest.head? with
        | true =>
          simp only [if_true, opsSpaced, hq, List.head?_cons, needsBlank_ws, isSpaceOp_wsTok]
          simp [opsSpaced_spacesGo rest (some wsTok)]
        | false =>
          simp only [Bool.false_eq_true, if_false, opsSpaced, hq, spacesGo_head_after_op k rest hr]
          simp [opsSpaced_spacesGo rest (some k)]
      cases hp : needsBlank p with
      | true =>
        have e1 : spacesGo p (k :: rest) = wsTok :: k :: (if needsBlank rest.head? = true then wsTok :: spacesGo (some wsTok) rest else spacesGo (some k) rest) := by
          rw [spacesGo, if_pos hop, hp]; rfl
        rw [e1, opsSpaced]
        simp only [isSpaceOp_wsTok, Bool.not_false, Bool.true_or, Bool.true_and]
        exact tail (some wsTok) needsBlank_ws
      | false =>
        have e1 : spacesGo p (k :: rest) = k :: (if needsBlank rest.head? = true then wsTok :: spacesGo (some wsTok) rest else spacesGo (some k) rest) := by
          rw [spacesGo, if_pos hop, hp]; rfl
        rw [e1]
        exact tail p hp
    · have e1 : spacesGo p (k :: rest) = k :: spacesGo (some k) rest := by rw [spacesGo, if_neg hop]
      rw [e1, opsSpaced]
      simp [hop, opsSpaced_spacesGo rest (some k)]

theorem allLists_wsTok (P : List FNode → Bool) : wsTok.allLists P = true := rfl

theorem allListsL_of_mem (P : List FNode → Bool) : ∀ (l : List FNode), (∀ x ∈ l, x.allLists P = true) → FNode.allListsL P l = true
  | [], _ => rfl
  | k :: rest, h => by
    unfold FNode.allListsL
    rw [h k List.mem_cons_self, allListsL_of_mem P rest (fun x hx => h x (List.mem_cons_of_mem _ hx))]
    rfl

mutual
theorem spaces_nf_node : ∀ (n : FNode) (fuel d : Nat) (n' : FNode), bottomUp spLevel fuel d n = .ok n' →
    n'.allLists (opsSpaced none) = true
  | .tok tt v, fuel, d, n', h => by
    unfold bottomUp at h
    simp only [Except.ok.injEq] at h
    rw [← h]; rfl
  | .grp c cv ks, fuel, d, n', h => by
    unfold bottomUp at h
    cases fuel with
    | zero => simp at h
    | succ fuel' =>
      simp only at h
      cases hk : bottomUpL spLevel fuel' (d + 1) ks with
      | error e => rw [hk] at h; cases h
      | ok ks' =>
        rw [hk] at h
        simp only [spLevel, Except.ok.injEq] at h
        rw [← h]
        have hkids := spaces_nf_list ks fuel' (d + 1) ks' hk
        unfold FNode.allLists
        rw [Bool.and_eq_true]
        refine ⟨opsSpaced_spacesGo ks' none, allListsL_of_mem _ _ ?_⟩
        intro x hx
        rcases mem_spacesGo ks' none x hx with rfl | hx'
        · rfl
        · exact hkids x hx'
theorem spaces_nf_list : ∀ (ns : List FNode) (fuel d : Nat) (ns' : List FNode), bottomUpL spLevel fuel d ns = .ok ns' →
    ∀ x ∈ ns', x.allLists (opsSpaced none) = true
  | [], fuel, d, ns', h => by
    unfold bottomUpL at h
    simp only [Except.ok.injEq] at h
    rw [← h]; simp
  | k :: rest, fuel, d, ns', h => by
    unfold bottomUpL at h
    cases hk : bottomUp spLevel fuel d k with
    | error e => rw [hk] at h; cases h
    | ok k' =>
      rw [hk] at h
      simp only at h
      cases hr : bottomUpL spLevel fuel d rest with
      | error e => rw [hr] at h; cases h
      | ok rest' =>
        rw [hr] at h
        simp only [Except.ok.injEq] at h
        rw [← h]
        intro x hx
        rcases List.mem_cons.mp hx with rfl | hx'
        · exact spaces_nf_node k fuel d _ hk
        · exact spaces_nf_list rest fuel d rest' hr x hx'
end

/-- C10, `use_space_around_operators`: in the result every child whose type is exactly `Operator` or `Operator.Comparison`
has a whitespace-typed sibling (or the end of its list) directly before and directly after it — in every list of the tree -/
theorem spaces_nf (fuel : Nat) (n n' : FNode) (h : spacesAroundOperators fuel n = .ok n') :
    n'.allLists (opsSpaced none) = true :=
  spaces_nf_node n fuel 0 n' h


end Sql
