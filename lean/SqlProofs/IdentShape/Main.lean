import SqlProofs.IdentShape.Table
import SqlProofs.IdentShape.Context
import SqlProofs.IdentShape.Names
/-!
# SqlProofs.IdentShape.Main — the identifier accessors return the written parts, in context

**Enumerated** (the decided table, `Table.lean`): the 19 statement contexts of `contexts` (select list of 1–3 items in
every position, neighbours of other forms, FROM list, JOIN … ON, UPDATE/INSERT target, subqueries), the 30 spellings of
the reference (`[q .] n [[as] k]`, each part a `Name` or a double-quoted `String.Symbol` token), one single-character
whitespace token between lexemes.
**Universally quantified** (`respell_group_names`): the value of every identifier-typed leaf (so every name, quoted with
`"…"`/back-ticks or not, of the reference *and* of its neighbours), the letter case and inner whitespace of every
keyword, the value of every whitespace token — any `f` with `AdmissibleNames kwNorm f`; and the fuel `≥ skelFuel`.
-/
namespace Sql
namespace Acc

/-- **C12, in context.**  For every context and reference spelling of the table and every admissible re-spelling `f` of
its tokens, the grouped tree contains an `Identifier` whose `get_real_name`, `get_parent_name`, `get_alias`, `get_name`,
`has_alias` return the re-spelled name, qualifier and alias with quotes removed (`RefAccessors`). -/
theorem identifier_accessors_in_context (c : Ctx) (hc : c ∈ contexts) (r : RefSpec) (hr : r ∈ refSpecs)
    (f : TType → Text → Text) (ha : AdmissibleNames kwNorm f) (fuel : Nat) (hfuel : skelFuel ≤ fuel) :
    ∃ (ts : List Tok) (tree : Node) (K : List Node) (qual : Option Node) (name : Node) (alias : Option Node),
      lex defaultCfg (c.pre ++ r.text ++ c.post).toArray = .ok ts ∧
      groupStatement fuel (ts.map fun t => ⟨t.tt, f t.tt t.val⟩) = .ok tree ∧
      K ∈ identKids tree ∧
      qual.map Node.value = r.qualText ∧ name.value = r.nameText ∧ alias.map Node.value = r.aliasText ∧
      RefAccessors f K qual name alias :=
  accessors_of_skelCheck (mkSkel c r) (table_ok c hc r hr) f ha fuel hfuel

/-! ### the same with the written values spelled out, for a renaming -/

theorem renameRespell_ident (σ kwMap wsMap : Text → Text) {t : TType} (ht : t = T.Name ∨ t = T.StringSymbol)
    (v : Text) : renameRespell σ kwMap wsMap t v = σ v := by
  rcases ht with rfl | rfl
  · have h1 : TType.isIn T.Name T.Keyword = false := by decide
    have h2 : TType.isIn T.Name T.Whitespace = false := by decide
    simp [renameRespell, h1, h2]
  · have h1 : TType.isIn T.StringSymbol T.Keyword = false := by decide
    have h2 : TType.isIn T.StringSymbol T.Whitespace = false := by decide
    simp [renameRespell, h1, h2]

theorem unquoted_respell_part (σ kwMap wsMap : Text → Text) {k : Node} (h : IsPart k) :
    unquoted (some (respell (renameRespell σ kwMap wsMap) k)) = (removeQuotes (σ k.value)).map some := by
  obtain ⟨t, ht, hv⟩ := part_value_respell (f := renameRespell σ kwMap wsMap) h
  simp only [unquoted, hv, renameRespell_ident σ kwMap wsMap ht]

/-- **C12 for renamings.**  Replace the placeholder names by `σ` (every renamed name and its replacement `NameOk`: quoted,
or containing a digit, `_` or a letter other than a b c e l r s t, or simply not one of the 35 contiguous pieces of
`create`/`table`/`as`), re-case/re-space keywords by `kwMap`,
change whitespace values by `wsMap`: the accessors of the reference's `Identifier` return `remove_quotes` of the
written name `σ n1`, qualifier `σ q1` and alias `σ k1`. -/
theorem identifier_accessors_renamed (c : Ctx) (hc : c ∈ contexts) (r : RefSpec) (hr : r ∈ refSpecs)
    (σ kwMap wsMap : Text → Text) (hσ : ∀ v, σ v = v ∨ (NameOk (σ v) ∧ NameOk v))
    (hk : ∀ v, CtxEq kwNorm (kwMap v) v) (hw : ∀ v, CtxEq kwNorm (wsMap v) v) (fuel : Nat) (hfuel : skelFuel ≤ fuel) :
    ∃ (ts : List Tok) (tree : Node) (K : List Node),
      lex defaultCfg (c.pre ++ r.text ++ c.post).toArray = .ok ts ∧
      groupStatement fuel (ts.map fun t => ⟨t.tt, renameRespell σ kwMap wsMap t.tt t.val⟩) = .ok tree ∧
      K ∈ identKids tree ∧
      getRealName kwNorm .Identifier K = (removeQuotes (σ r.nameText)).map some ∧
      getParentName kwNorm K = (match r.qualText with
        | none => .ok none
        | some q => (removeQuotes (σ q)).map some) ∧
      getAlias kwNorm .Identifier K = (match r.aliasText with
        | none => .ok none
        | some a => (removeQuotes (σ a)).map some) ∧
      getName kwNorm .Identifier K = pyOrName
        (match r.aliasText with
          | none => .ok none
          | some a => (removeQuotes (σ a)).map some)
        ((removeQuotes (σ r.nameText)).map some) := by
  obtain ⟨ts, tree, K, qual, name, alias, hlex, hg, hK, hvq, hvn, hva, hacc⟩ :=
    identifier_accessors_in_context c hc r hr _ (admissible_renameRespell σ kwMap wsMap hσ hk hw) fuel hfuel
  have hreal : unquoted (some (respell (renameRespell σ kwMap wsMap) name)) =
      (removeQuotes (σ r.nameText)).map some := by
    rw [unquoted_respell_part σ kwMap wsMap hacc.partName, hvn]
  have hopt : ∀ (o : Option Node) (ot : Option Text), (∀ x, o = some x → IsPart x) → o.map Node.value = ot →
      unquoted (o.map (respell (renameRespell σ kwMap wsMap))) =
        (match ot with
          | none => .ok none
          | some a => (removeQuotes (σ a)).map some) := by
    intro o ot hp hv
    cases o with
    | none => cases hv; rfl
    | some x =>
      cases hv
      simp only [Option.map_some]
      exact unquoted_respell_part σ kwMap wsMap (hp x rfl)
  refine ⟨ts, tree, K, hlex, hg, hK, ?_, ?_, ?_, ?_⟩
  · rw [hacc.realName, hreal]
  · rw [hacc.parentName, hopt qual _ hacc.partQual hvq]
  · rw [hacc.aliasName, hopt alias _ hacc.partAlias hva]
  · rw [hacc.name, hopt alias _ hacc.partAlias hva, hreal]

end Acc
end Sql

namespace Sql
namespace Acc

/-- the hypotheses are satisfiable: write `"Order Id"` for `n1`, `` `s 1` `` for `q1`, `o` for `k1`, keep everything else -/
def exampleRename (v : Text) : Text :=
  if v == txt "n1" then txt "\"Order Id\"" else if v == txt "q1" then txt "`s 1`" else if v == txt "k1" then txt "o"
  else v

example : ∀ v, exampleRename v = v ∨ (NameOk (exampleRename v) ∧ NameOk v) := by
  intro v
  unfold exampleRename
  split
  · rename_i h
    have : v = txt "n1" := by simpa using h
    subst this
    exact Or.inr ⟨Or.inl ⟨34, by decide +kernel, by decide +kernel⟩, Or.inl ⟨49, by decide +kernel, by decide +kernel⟩⟩
  · split
    · rename_i h
      have : v = txt "q1" := by simpa using h
      subst this
      exact Or.inr ⟨Or.inl ⟨96, by decide +kernel, by decide +kernel⟩, Or.inl ⟨49, by decide +kernel, by decide +kernel⟩⟩
    · split
      · rename_i h
        have : v = txt "k1" := by simpa using h
        subst this
        exact Or.inr ⟨Or.inl ⟨111, by decide +kernel, by decide +kernel⟩,
          Or.inl ⟨49, by decide +kernel, by decide +kernel⟩⟩
      · exact Or.inl rfl

end Acc
end Sql
