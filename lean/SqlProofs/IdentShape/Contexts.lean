import SqlProofs.IdentShape.Skeletons
/-!
# SqlProofs.IdentShape.Contexts — the statement contexts of the skeleton table (`R` = the reference)

select list of one, two, three items (every position) · neighbours of other forms in the same list · FROM list (alone,
first, second, among aliased neighbours) · JOIN … ON · UPDATE target · INSERT target · subquery in FROM (reference in its
select list / in its FROM) · subquery in the select list.
-/
namespace Sql
namespace Acc

def ctxSel1 : Ctx := ⟨"select R from v", txt "select ", txt " from v"⟩
def ctxSel2a : Ctx := ⟨"select R, y from v", txt "select ", txt ", y from v"⟩
def ctxSel2b : Ctx := ⟨"select y, R from v", txt "select y, ", txt " from v"⟩
def ctxSel3a : Ctx := ⟨"select R, y, z from v", txt "select ", txt ", y, z from v"⟩
def ctxSel3b : Ctx := ⟨"select y, R, z from v", txt "select y, ", txt ", z from v"⟩
def ctxSel3c : Ctx := ⟨"select y, z, R from v", txt "select y, z, ", txt " from v"⟩
def ctxSelN1 : Ctx := ⟨"select y.z as u, R from v", txt "select y.z as u, ", txt " from v"⟩
def ctxSelN2 : Ctx := ⟨"select R, f(y) u, 1 from v", txt "select ", txt ", f(y) u, 1 from v"⟩
def ctxSelN3 : Ctx := ⟨"select 'str', R, y z from v", txt "select 'str', ", txt ", y z from v"⟩
def ctxFrom1 : Ctx := ⟨"select x from R", txt "select x from ", []⟩
def ctxFrom2a : Ctx := ⟨"select x from R, y", txt "select x from ", txt ", y"⟩
def ctxFrom2b : Ctx := ⟨"select x from y, R", txt "select x from y, ", []⟩
def ctxFrom3 : Ctx := ⟨"select x from y u, R, z as w", txt "select x from y u, ", txt ", z as w"⟩
def ctxJoin : Ctx := ⟨"select x from y join R on y.u = 1", txt "select x from y join ", txt " on y.u = 1"⟩
def ctxUpdate : Ctx := ⟨"update R set x = 1", txt "update ", txt " set x = 1"⟩
def ctxInsert : Ctx := ⟨"insert into R values (1)", txt "insert into ", txt " values (1)"⟩
def ctxSubFromSel : Ctx := ⟨"select x from (select R from v) y", txt "select x from (select ", txt " from v) y"⟩
def ctxSubFromFrom : Ctx := ⟨"select x from (select y from R) z", txt "select x from (select y from ", txt ") z"⟩
def ctxSubSel : Ctx := ⟨"select x, (select R from v) from u", txt "select x, (select ", txt " from v) from u"⟩

def contexts : List Ctx :=
  [ctxSel1, ctxSel2a, ctxSel2b, ctxSel3a, ctxSel3b, ctxSel3c, ctxSelN1, ctxSelN2, ctxSelN3, ctxFrom1, ctxFrom2a,
   ctxFrom2b, ctxFrom3, ctxJoin, ctxUpdate, ctxInsert, ctxSubFromSel, ctxSubFromFrom, ctxSubSel]

/-- the three chunks a context's 30 skeletons are decided in -/
theorem all_of_chunks (c : Ctx) (h1 : ((skelsOf c).take 10).all skelCheck = true)
    (h2 : (((skelsOf c).drop 10).take 10).all skelCheck = true) (h3 : ((skelsOf c).drop 20).all skelCheck = true) :
    (skelsOf c).all skelCheck = true := by
  have e : skelsOf c = (skelsOf c).take 10 ++ (((skelsOf c).drop 10).take 10 ++ (skelsOf c).drop 20) := by
    rw [show (skelsOf c).drop 20 = ((skelsOf c).drop 10).drop 10 by simp [List.drop_drop], List.take_append_drop,
      List.take_append_drop]
  rw [e, List.all_append, List.all_append, h1, h2, h3]; rfl

end Acc
end Sql
