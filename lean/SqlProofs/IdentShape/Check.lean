import SqlProofs.IdentShape.CheckCore
import SqlProofs.Respell.Group
/-!
# SqlProofs.IdentShape.Check — the recognised shapes and the `Identifier` nodes of a tree under re-spelling
(the recogniser itself is in `CheckCore.lean`, which the decided tables import: they do not depend on `Respell/`)
-/
namespace Sql
namespace Acc

/-! ### the shape survives re-spelling -/

def AliasPart.respell (f : TType → Text → Text) : AliasPart → AliasPart
  | .none => .none
  | .implicit ws a => .implicit (ws.map (Sql.respell f)) (Sql.respell f a)
  | .explicit ws1 as ws2 a =>
    .explicit (ws1.map (Sql.respell f)) (Sql.respell f as) (ws2.map (Sql.respell f)) (Sql.respell f a)

variable {f : TType → Text → Text}

theorem identShape_respell {upper : Text → Text} (ha : AdmissibleNames upper f) (q : Option Node) (n : Node)
    (al : AliasPart) :
    (identShape q n al).map (respell f) = identShape (q.map (respell f)) (respell f n) (al.respell f) := by
  have hdot : f T.Punctuation [46] = [46] := ha.plain T.Punctuation [46] (by decide) (by decide)
  cases q <;> cases al <;>
    simp [identShape, qualRender, AliasPart.render, AliasPart.respell, dotTok, respell_tok, hdot]

theorem isNameTok_respell {k : Node} (h : IsNameTok k) : IsNameTok (respell f k) := by
  obtain ⟨v, rfl | rfl⟩ := h
  · exact ⟨f T.Name v, Or.inl rfl⟩
  · exact ⟨f T.StringSymbol v, Or.inr rfl⟩

theorem isPart_respell {k : Node} (h : IsPart k) : IsPart (respell f k) := by
  rcases h with h | ⟨t, ht, rfl⟩
  · exact Or.inl (isNameTok_respell h)
  · exact Or.inr ⟨respell f t, isNameTok_respell ht, by simp⟩

theorem isWsTok_respell {k : Node} (h : IsWsTok k) : IsWsTok (respell f k) := by
  obtain ⟨v, rfl | rfl⟩ := h
  · exact ⟨f T.Whitespace v, Or.inl rfl⟩
  · exact ⟨f T.Newline v, Or.inr rfl⟩

theorem isAsTok_respell {upper : Text → Text} (ha : AdmissibleNames upper f) {k : Node} (h : IsAsTok upper k) :
    IsAsTok upper (respell f k) := by
  obtain ⟨v, rfl, hv⟩ := h
  exact ⟨f T.Keyword v, rfl, by rw [ha.kw T.Keyword v (by decide), hv]⟩

theorem wfp_respell {upper : Text → Text} (ha : AdmissibleNames upper f) {al : AliasPart} (h : al.WFP upper) :
    (al.respell f).WFP upper := by
  cases al with
  | none => trivial
  | implicit ws a =>
    obtain ⟨h1, h2, h3⟩ := h
    refine ⟨by simpa using h1, ?_, isPart_respell h3⟩
    intro k hk
    obtain ⟨k0, hk0, rfl⟩ := List.mem_map.1 hk
    exact isWsTok_respell (h2 k0 hk0)
  | explicit ws1 as ws2 a =>
    obtain ⟨h1, h2, h3, h4, h5, h6⟩ := h
    refine ⟨by simpa using h1, ?_, isAsTok_respell ha h3, by simpa using h4, ?_, isPart_respell h6⟩
    · intro k hk
      obtain ⟨k0, hk0, rfl⟩ := List.mem_map.1 hk
      exact isWsTok_respell (h2 k0 hk0)
    · intro k hk
      obtain ⟨k0, hk0, rfl⟩ := List.mem_map.1 hk
      exact isWsTok_respell (h5 k0 hk0)

theorem alias?_respell (al : AliasPart) : (al.respell f).alias? = al.alias?.map (respell f) := by
  cases al <;> rfl

/-- the written text of a part after re-spelling: `f` applied to its (single) name leaf -/
theorem part_value_respell {k : Node} (h : IsPart k) :
    ∃ t, (t = T.Name ∨ t = T.StringSymbol) ∧ (respell f k).value = f t k.value := by
  rcases h with h | ⟨t, ht, rfl⟩
  · obtain ⟨v, rfl | rfl⟩ := h
    · exact ⟨T.Name, Or.inl rfl, rfl⟩
    · exact ⟨T.StringSymbol, Or.inr rfl, rfl⟩
  · obtain ⟨v, rfl | rfl⟩ := ht
    · exact ⟨T.Name, Or.inl rfl, by simp [Node.value, Node.text, Node.textL]⟩
    · exact ⟨T.StringSymbol, Or.inr rfl, by simp [Node.value, Node.text, Node.textL]⟩

mutual
theorem identKids_respell : (n : Node) → identKids (respell f n) = (identKids n).map (List.map (respell f))
  | .tok t v => by simp [identKids]
  | .grp c ks => by
    have := identKidsL_respell ks
    by_cases hc : (c == Cls.Identifier) = true
    · simp [identKids, hc, this]
    · simp [identKids, hc, this]
theorem identKidsL_respell : (ks : List Node) →
    identKidsL (ks.map (respell f)) = (identKidsL ks).map (List.map (respell f))
  | [] => rfl
  | k :: ks => by
    simp only [List.map_cons, identKidsL, List.map_append]
    rw [identKids_respell k, identKidsL_respell ks]
end

end Acc
end Sql
