import SqlProofs.IdentShape.CheckCore
import SqlModel.Grouping
/-!
# SqlProofs.IdentShape.Skeletons — the finite family of statement skeletons of property C12

A skeleton is a statement text over placeholder names with single blanks, together with the placeholders of the
reference it contains.  The reference is `[q1 .] n1 [[as] k1]`, each part written plain (`n1`, a `Name` token) or
double-quoted (`"n1"`, a `String.Symbol` token): 30 spellings.  The contexts are listed in `contexts`.
`skelCheck` lexes the text with the real rule table, groups it, and looks for an `Identifier` node whose children parse
(`parseIdent`) into exactly the placeholder parts.
-/
namespace Sql
namespace Acc

structure Skel where
  text : Text
  qual : Option Text
  name : Text
  alias : Option Text
deriving Repr

/-- plain or double-quoted spelling of a placeholder -/
def spellPart (quoted : Bool) (base : Text) : Text := if quoted then [34] ++ base ++ [34] else base

/-- how the alias is attached -/
inductive AliasKind where | none | withAs | implicit
deriving Repr, DecidableEq

structure RefSpec where
  qual : Option Bool          -- `some quoted?`
  name : Bool
  alias : AliasKind
  aliasQuoted : Bool
deriving Repr

def pQ : Text := txt "q1"
def pN : Text := txt "n1"
def pK : Text := txt "k1"

def RefSpec.qualText (r : RefSpec) : Option Text := r.qual.map (fun b => spellPart b pQ)
def RefSpec.nameText (r : RefSpec) : Text := spellPart r.name pN
def RefSpec.aliasText (r : RefSpec) : Option Text :=
  match r.alias with
  | .none => none
  | _ => some (spellPart r.aliasQuoted pK)

/-- the reference as written -/
def RefSpec.text (r : RefSpec) : Text :=
  (match r.qualText with | none => [] | some q => q ++ [46]) ++ r.nameText ++
  (match r.alias with
   | .none => []
   | .withAs => txt " as " ++ spellPart r.aliasQuoted pK
   | .implicit => [32] ++ spellPart r.aliasQuoted pK)

/-- the 30 spellings of a reference -/
def refSpecs : List RefSpec :=
  [none, some false, some true].flatMap fun q =>
  [false, true].flatMap fun n =>
  [(AliasKind.none, false), (.withAs, false), (.withAs, true), (.implicit, false), (.implicit, true)].map fun a =>
    { qual := q, name := n, alias := a.1, aliasQuoted := a.2 }

/-- a context: the statement text before and after the reference -/
structure Ctx where
  name : String
  pre : Text
  post : Text

def mkSkel (c : Ctx) (r : RefSpec) : Skel :=
  { text := c.pre ++ r.text ++ c.post, qual := r.qualText, name := r.nameText, alias := r.aliasText }

def skelsOf (c : Ctx) : List Skel := refSpecs.map (mkSkel c)

/-- recursion fuel used for the skeletons (every skeleton nests at most four levels); more fuel gives the same tree -/
def skelFuel : Nat := 8

def skelTokens (sk : Skel) : Except PyErr (List Tok) := lex defaultCfg sk.text.toArray

def skelTree (sk : Skel) : Except PyErr Node :=
  match skelTokens sk with
  | .error e => .error e
  | .ok ts => groupStatement skelFuel ts

/-- the children list `K` of an `Identifier` parses into exactly the placeholders of the skeleton -/
def refCheck (sk : Skel) (K : List Node) : Bool :=
  match parseIdent kwNorm K with
  | some (q, n, al) => q.map Node.value == sk.qual && n.value == sk.name && al.alias?.map Node.value == sk.alias
  | none => false

def skelCheck (sk : Skel) : Bool :=
  match skelTree sk with
  | .ok tree => (identKids tree).any (refCheck sk)
  | .error _ => false

end Acc
end Sql
