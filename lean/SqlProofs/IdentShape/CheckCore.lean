import SqlProofs.IdentShape.AccShape
/-!
# SqlProofs.IdentShape.CheckCore — a decidable recogniser of the identifier shapes, and where identifiers sit in a tree

`parseIdent` recognises the children lists `[q .]? n (ws [AS ws]? a)?` with single whitespace tokens and returns the
parts; `parseIdent_sound` turns a successful parse into the hypotheses of the accessor theorems of `AccShape.lean`.
`identKids` lists the children lists of all `Identifier` nodes of a tree (pre-order); it commutes with re-spelling.
-/
namespace Sql
namespace Acc

def isNameTokB : Node → Bool
  | .tok t _ => t == T.Name || t == T.StringSymbol
  | .grp .. => false

def isPartB : Node → Bool
  | .tok t _ => t == T.Name || t == T.StringSymbol
  | .grp .Identifier [k] => isNameTokB k
  | .grp .. => false

def isWsTokB : Node → Bool
  | .tok t _ => t == T.Whitespace || t == T.Newline
  | .grp .. => false

def isDotB : Node → Bool
  | .tok t v => t == T.Punctuation && v == [46]
  | .grp .. => false

def isAsTokB (up : Text → Text) : Node → Bool
  | .tok t v => t == T.Keyword && up v == up [65, 83]
  | .grp .. => false

theorem isNameTokB_sound {k : Node} (h : isNameTokB k = true) : IsNameTok k := by
  cases k with
  | grp c ks => simp [isNameTokB] at h
  | tok t v =>
    simp only [isNameTokB, Bool.or_eq_true, beq_iff_eq] at h
    rcases h with rfl | rfl
    · exact ⟨v, Or.inl rfl⟩
    · exact ⟨v, Or.inr rfl⟩

theorem isPartB_sound {k : Node} (h : isPartB k = true) : IsPart k := by
  cases k with
  | tok t v => exact Or.inl (isNameTokB_sound h)
  | grp c ks =>
    cases c <;> try (simp [isPartB] at h)
    cases ks with
    | nil => simp [isPartB] at h
    | cons a rest =>
      cases rest with
      | nil => exact Or.inr ⟨a, isNameTokB_sound (by simpa [isPartB] using h), rfl⟩
      | cons b rest => simp [isPartB] at h

theorem isWsTokB_sound {k : Node} (h : isWsTokB k = true) : IsWsTok k := by
  cases k with
  | grp c ks => simp [isWsTokB] at h
  | tok t v =>
    simp only [isWsTokB, Bool.or_eq_true, beq_iff_eq] at h
    rcases h with rfl | rfl
    · exact ⟨v, Or.inl rfl⟩
    · exact ⟨v, Or.inr rfl⟩

theorem isDotB_sound {k : Node} (h : isDotB k = true) : k = dotTok := by
  cases k with
  | grp c ks => simp [isDotB] at h
  | tok t v =>
    simp only [isDotB, Bool.and_eq_true, beq_iff_eq] at h
    obtain ⟨rfl, rfl⟩ := h
    rfl

theorem isAsTokB_sound {up : Text → Text} {k : Node} (h : isAsTokB up k = true) : IsAsTok up k := by
  cases k with
  | grp c ks => simp [isAsTokB] at h
  | tok t v =>
    simp only [isAsTokB, Bool.and_eq_true, beq_iff_eq] at h
    obtain ⟨rfl, hv⟩ := h
    exact ⟨v, rfl, hv⟩

/-- recognise `[q .]? n (ws [AS ws]? a)?` (single whitespace tokens) -/
def parseIdent (up : Text → Text) : List Node → Option (Option Node × Node × AliasPart)
  | [n] => if isPartB n then some (none, n, .none) else none
  | [x, y, z] =>
    if isDotB y then (if isPartB x && isPartB z then some (some x, z, .none) else none)
    else if isPartB x && isWsTokB y && isPartB z then some (none, x, .implicit [y] z) else none
  | [x, y, z, u, a] =>
    if isDotB y then
      (if isPartB x && isPartB z && isWsTokB u && isPartB a then some (some x, z, .implicit [u] a) else none)
    else if isPartB x && isWsTokB y && isAsTokB up z && isWsTokB u && isPartB a then
      some (none, x, .explicit [y] z [u] a)
    else none
  | [q, d, n, w1, as, w2, a] =>
    if isPartB q && isDotB d && isPartB n && isWsTokB w1 && isAsTokB up as && isWsTokB w2 && isPartB a then
      some (some q, n, .explicit [w1] as [w2] a)
    else none
  | _ => none

theorem noQual : ∀ q' : Node, (none : Option Node) = some q' → IsPart q' := fun _ h => nomatch h

theorem parseIdent_sound {up : Text → Text} {ks : List Node} {q : Option Node} {n : Node} {al : AliasPart}
    (h : parseIdent up ks = some (q, n, al)) :
    ks = identShape q n al ∧ (∀ q', q = some q' → IsPart q') ∧ IsPart n ∧ al.WFP up := by
  unfold parseIdent at h
  split at h
  · split at h
    · rename_i hn; cases h
      exact ⟨rfl, noQual, isPartB_sound hn, trivial⟩
    · cases h
  · split at h
    · rename_i hd
      split at h
      · rename_i hp; cases h
        simp only [Bool.and_eq_true] at hp
        refine ⟨by simp [identShape, qualRender, AliasPart.render, isDotB_sound hd], ?_, isPartB_sound hp.2, trivial⟩
        intro q' hq; cases hq; exact isPartB_sound hp.1
      · cases h
    · split at h
      · rename_i hp; cases h
        simp only [Bool.and_eq_true] at hp
        refine ⟨by simp [identShape, qualRender, AliasPart.render], noQual, isPartB_sound hp.1.1, ?_⟩
        exact ⟨by simp, by intro k hk; simp at hk; subst hk; exact isWsTokB_sound hp.1.2, isPartB_sound hp.2⟩
      · cases h
  · split at h
    · rename_i hd
      split at h
      · rename_i hp; cases h
        simp only [Bool.and_eq_true] at hp
        refine ⟨by simp [identShape, qualRender, AliasPart.render, isDotB_sound hd], ?_, isPartB_sound hp.1.1.2, ?_⟩
        · intro q' hq; cases hq; exact isPartB_sound hp.1.1.1
        · exact ⟨by simp, by intro k hk; simp at hk; subst hk; exact isWsTokB_sound hp.1.2, isPartB_sound hp.2⟩
      · cases h
    · split at h
      · rename_i hp; cases h
        simp only [Bool.and_eq_true] at hp
        refine ⟨by simp [identShape, qualRender, AliasPart.render], noQual,
          isPartB_sound hp.1.1.1.1, ?_⟩
        exact ⟨by simp, by intro k hk; simp at hk; subst hk; exact isWsTokB_sound hp.1.1.1.2,
          isAsTokB_sound hp.1.1.2, by simp, by intro k hk; simp at hk; subst hk; exact isWsTokB_sound hp.1.2,
          isPartB_sound hp.2⟩
      · cases h
  · split at h
    · rename_i hp; cases h
      simp only [Bool.and_eq_true] at hp
      refine ⟨by simp [identShape, qualRender, AliasPart.render, isDotB_sound hp.1.1.1.1.1.2], ?_,
        isPartB_sound hp.1.1.1.1.2, ?_⟩
      · intro q' hq; cases hq; exact isPartB_sound hp.1.1.1.1.1.1
      · exact ⟨by simp, by intro k hk; simp at hk; subst hk; exact isWsTokB_sound hp.1.1.1.2,
          isAsTokB_sound hp.1.1.2, by simp, by intro k hk; simp at hk; subst hk; exact isWsTokB_sound hp.1.2,
          isPartB_sound hp.2⟩
    · cases h
  · cases h

/-! ### the `Identifier` nodes of a tree -/

mutual
/-- the children lists of all `Identifier` nodes below (and including) a node, in pre-order -/
def identKids : Node → List (List Node)
  | .tok .. => []
  | .grp c ks => (if c == .Identifier then [ks] else []) ++ identKidsL ks
def identKidsL : List Node → List (List Node)
  | [] => []
  | k :: ks => identKids k ++ identKidsL ks
end


end Acc
end Sql
