import SqlProofs.IdentShape.Skeletons
import SqlProofs.IdentShape.Check
import SqlProofs.GroupTotal
/-!
# SqlProofs.IdentShape.Context — from a checked skeleton to the accessors of every re-spelling of it

`accessors_of_skelCheck`: if `skelCheck sk` holds (a decidable fact about the placeholder statement), then for every
re-spelling `f` with `AdmissibleNames kwNorm f` — any values for the identifier leaves, any letter case of keywords,
any whitespace values, as far as `group_functions`' three words are not hit — and every fuel `≥ skelFuel`, the grouped
tree of the re-spelled tokens contains an `Identifier` on whose children the five accessors return the re-spelled
qualifier, name and alias with quotes removed.
-/
namespace Sql
namespace Acc

theorem groupStatement_mono {fuel fuel' : Nat} {st : List Tok} {n : Node} (hle : fuel ≤ fuel')
    (h : groupStatement fuel st = .ok n) : groupStatement fuel' st = .ok n := by
  unfold groupStatement at h ⊢
  cases hg : group fuel (st.map fun t => Node.tok t.tt t.val) with
  | error e => simp [hg] at h
  | ok ks =>
    simp only [hg] at h
    rw [group_mono hle hg]
    exact h

/-- what the accessors return on the children `K` of the reference's `Identifier`, in terms of the re-spelled parts -/
structure RefAccessors (f : TType → Text → Text) (K : List Node) (qual : Option Node) (name : Node)
    (alias : Option Node) : Prop where
  partName : IsPart name
  partQual : ∀ q, qual = some q → IsPart q
  partAlias : ∀ a, alias = some a → IsPart a
  realName : getRealName kwNorm .Identifier K = unquoted (some (respell f name))
  parentName : getParentName kwNorm K = unquoted (qual.map (respell f))
  aliasName : getAlias kwNorm .Identifier K = unquoted (alias.map (respell f))
  name : getName kwNorm .Identifier K =
    pyOrName (unquoted (alias.map (respell f))) (unquoted (some (respell f name)))
  hasAlias : (∀ a, alias = some a → (respell f a).value ≠ []) → hasAlias kwNorm .Identifier K = .ok alias.isSome

theorem alias?_isPart {up : Text → Text} {al : AliasPart} (h : al.WFP up) : ∀ a, al.alias? = some a → IsPart a := by
  cases al with
  | none => intro a ha; cases ha
  | implicit ws x => intro a ha; cases ha; exact h.2.2
  | explicit ws1 as ws2 x => intro a ha; cases ha; exact h.2.2.2.2.2

theorem accessors_of_skelCheck (sk : Skel) (h : skelCheck sk = true) (f : TType → Text → Text)
    (ha : AdmissibleNames kwNorm f) (fuel : Nat) (hfuel : skelFuel ≤ fuel) :
    ∃ (ts : List Tok) (tree : Node) (K : List Node) (qual : Option Node) (name : Node) (alias : Option Node),
      skelTokens sk = .ok ts ∧
      groupStatement fuel (ts.map fun t => ⟨t.tt, f t.tt t.val⟩) = .ok tree ∧
      K ∈ identKids tree ∧
      qual.map Node.value = sk.qual ∧ name.value = sk.name ∧ alias.map Node.value = sk.alias ∧
      RefAccessors f K qual name alias := by
  unfold skelCheck at h
  cases htree : skelTree sk with
  | error e => simp [htree] at h
  | ok tree0 =>
    simp only [htree, List.any_eq_true] at h
    obtain ⟨K0, hK0, hcheck⟩ := h
    unfold skelTree at htree
    cases hts : skelTokens sk with
    | error e => simp [hts] at htree
    | ok ts =>
      simp only [hts] at htree
      unfold refCheck at hcheck
      cases hparse : parseIdent kwNorm K0 with
      | none => simp [hparse] at hcheck
      | some r =>
        obtain ⟨q, n, al⟩ := r
        simp only [hparse, Bool.and_eq_true, beq_iff_eq] at hcheck
        obtain ⟨⟨hvq, hvn⟩, hva⟩ := hcheck
        obtain ⟨hshape, hq, hn, hal⟩ := parseIdent_sound hparse
        have hgs : groupStatement fuel (ts.map fun t => ⟨t.tt, f t.tt t.val⟩) = .ok (respell f tree0) := by
          rw [respell_groupStatement_names ha, groupStatement_mono hfuel htree]; rfl
        have hmem : K0.map (respell f) ∈ identKids (respell f tree0) := by
          rw [identKids_respell]; exact List.mem_map.2 ⟨K0, hK0, rfl⟩
        have hKs : K0.map (respell f) = identShape (q.map (respell f)) (respell f n) (al.respell f) := by
          rw [hshape, identShape_respell ha]
        have hq' : ∀ q', q.map (respell f) = some q' → IsPart q' := by
          intro q' hq'
          cases q with
          | none => cases hq'
          | some q0 => cases hq'; exact isPart_respell (hq q0 rfl)
        have hn' := isPart_respell (f := f) hn
        have hal' := wfp_respell ha hal
        refine ⟨ts, respell f tree0, K0.map (respell f), q, n, al.alias?, rfl, hgs, hmem, hvq, hvn, hva, ?_⟩
        rw [hKs]
        refine ⟨hn, hq, alias?_isPart hal, ?_, ?_, ?_, ?_, ?_⟩
        · exact getRealName_identShapeP kwNorm .Identifier rfl _ _ _ hq' hn' hal'
        · exact getParentName_identShapeP kwNorm _ _ _ hq' hn' hal'
        · rw [getAlias_identShapeP kwNorm .Identifier rfl _ _ _ hq' hn' hal', alias?_respell]
        · rw [getName_identShapeP kwNorm .Identifier rfl _ _ _ hq' hn' hal', alias?_respell]
        · intro hne
          rw [hasAlias_identShapeP kwNorm .Identifier rfl _ _ _ hq' hn' hal' (by
            intro a haa
            rw [alias?_respell] at haa
            cases hx : al.alias? with
            | none => rw [hx] at haa; cases haa
            | some a0 => rw [hx] at haa; cases haa; exact hne a0 hx), alias?_respell]
          cases al.alias? <;> rfl

end Acc
end Sql
