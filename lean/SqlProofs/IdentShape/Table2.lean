import SqlProofs.IdentShape.Table2.SubAsFrom
import SqlProofs.IdentShape.Table2.SubAsJoin
import SqlProofs.IdentShape.Table2.SubAsSel
import SqlProofs.IdentShape.Table2.CteBody
import SqlProofs.IdentShape.Table2.SubAsFromFrom
import SqlProofs.IdentShape.Table2.SubAsJoinFrom
import SqlProofs.IdentShape.Table2.CteBodyFrom
/-!
# SqlProofs.IdentShape.Table2 — the second context list: references inside subqueries already wrapped into an Identifier
-/
namespace Sql
namespace Acc

theorem contexts2_ok : ∀ c ∈ contexts2, (skelsOf c).all skelCheck = true := by
  intro c hc
  simp only [contexts2, List.mem_cons, List.not_mem_nil, or_false] at hc
  rcases hc with rfl | hc
  · exact ctxSubAsFrom_ok
  rcases hc with rfl | hc
  · exact ctxSubAsJoin_ok
  rcases hc with rfl | hc
  · exact ctxSubAsSel_ok
  rcases hc with rfl | hc
  · exact ctxCteBody_ok
  rcases hc with rfl | hc
  · exact ctxSubAsFromFrom_ok
  rcases hc with rfl | hc
  · exact ctxSubAsJoinFrom_ok
  subst hc
  exact ctxCteBodyFrom_ok

/-- **the decided table, second context list** -/
theorem table2_ok : ∀ c ∈ contexts2, ∀ r ∈ refSpecs, skelCheck (mkSkel c r) = true := by
  intro c hc r hr
  exact List.all_eq_true.1 (contexts2_ok c hc) _ (List.mem_map.2 ⟨r, hr, rfl⟩)

end Acc
end Sql
