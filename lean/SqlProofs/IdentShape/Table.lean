import SqlProofs.IdentShape.Table.Sel1
import SqlProofs.IdentShape.Table.Sel2a
import SqlProofs.IdentShape.Table.Sel2b
import SqlProofs.IdentShape.Table.Sel3a
import SqlProofs.IdentShape.Table.Sel3b
import SqlProofs.IdentShape.Table.Sel3c
import SqlProofs.IdentShape.Table.SelN1
import SqlProofs.IdentShape.Table.SelN2
import SqlProofs.IdentShape.Table.SelN3
import SqlProofs.IdentShape.Table.From1
import SqlProofs.IdentShape.Table.From2a
import SqlProofs.IdentShape.Table.From2b
import SqlProofs.IdentShape.Table.From3
import SqlProofs.IdentShape.Table.Join
import SqlProofs.IdentShape.Table.Update
import SqlProofs.IdentShape.Table.Insert
import SqlProofs.IdentShape.Table.SubFromSel
import SqlProofs.IdentShape.Table.SubFromFrom
import SqlProofs.IdentShape.Table.SubSel
/-!
# SqlProofs.IdentShape.Table — every skeleton of the table has its reference as a canonical `Identifier`
-/
namespace Sql
namespace Acc

theorem contexts_ok : ∀ c ∈ contexts, (skelsOf c).all skelCheck = true := by
  intro c hc
  simp only [contexts, List.mem_cons, List.not_mem_nil, or_false] at hc
  rcases hc with rfl | hc
  · exact ctxSel1_ok
  rcases hc with rfl | hc
  · exact ctxSel2a_ok
  rcases hc with rfl | hc
  · exact ctxSel2b_ok
  rcases hc with rfl | hc
  · exact ctxSel3a_ok
  rcases hc with rfl | hc
  · exact ctxSel3b_ok
  rcases hc with rfl | hc
  · exact ctxSel3c_ok
  rcases hc with rfl | hc
  · exact ctxSelN1_ok
  rcases hc with rfl | hc
  · exact ctxSelN2_ok
  rcases hc with rfl | hc
  · exact ctxSelN3_ok
  rcases hc with rfl | hc
  · exact ctxFrom1_ok
  rcases hc with rfl | hc
  · exact ctxFrom2a_ok
  rcases hc with rfl | hc
  · exact ctxFrom2b_ok
  rcases hc with rfl | hc
  · exact ctxFrom3_ok
  rcases hc with rfl | hc
  · exact ctxJoin_ok
  rcases hc with rfl | hc
  · exact ctxUpdate_ok
  rcases hc with rfl | hc
  · exact ctxInsert_ok
  rcases hc with rfl | hc
  · exact ctxSubFromSel_ok
  rcases hc with rfl | hc
  · exact ctxSubFromFrom_ok
  subst hc
  exact ctxSubSel_ok

/-- **the decided table**: for every context and every spelling of the reference, the grouped tree of the skeleton
contains an `Identifier` whose children parse into exactly the placeholder qualifier, name and alias -/
theorem table_ok : ∀ c ∈ contexts, ∀ r ∈ refSpecs, skelCheck (mkSkel c r) = true := by
  intro c hc r hr
  exact List.all_eq_true.1 (contexts_ok c hc) _ (List.mem_map.2 ⟨r, hr, rfl⟩)

end Acc
end Sql
