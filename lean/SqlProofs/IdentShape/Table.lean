import SqlProofs.IdentShape.Table.Sel1
import SqlProofs.IdentShape.Table.Sel2a
import SqlProofs.IdentShape.Table.Sel2b
import SqlProofs.IdentShape.Table.Sel3a
import SqlProofs.IdentShape.Table.Sel3b
import SqlProofs.IdentShape.Table.Sel3c
import SqlProofs.IdentShape.Table.SelN1
import SqlProofs.IdentShape.Table.SelN2
import SqlProofs.IdentShape.Table.SelN3
import SqlProofs.IdentShape.Table.From1
import SqlProofs.IdentShape.Table.From2a
import SqlProofs.IdentShape.Table.From2b
import SqlProofs.IdentShape.Table.From3
import SqlProofs.IdentShape.Table.Join
import SqlProofs.IdentShape.Table.Update
import SqlProofs.IdentShape.Table.Insert
import SqlProofs.IdentShape.Table.SubFromSel
import SqlProofs.IdentShape.Table.SubFromFrom
import SqlProofs.IdentShape.Table.SubSel
/-!
# SqlProofs.IdentShape.Table — every skeleton of the table has its reference as a canonical `Identifier`
-/
namespace Sql
namespace Acc

/-- **the decided table**: for every context and every spelling of the reference, the grouped tree of the skeleton
contains an `Identifier` whose children parse into exactly the placeholder qualifier, name and alias -/
theorem table_ok : ∀ c ∈ contexts, ∀ r ∈ refSpecs, skelCheck (mkSkel c r) = true := by
  intro c hc r hr
  have key : (skelsOf c).all skelCheck = true := by
    simp only [contexts, List.mem_cons, List.not_mem_nil, or_false] at hc
    rcases hc with rfl | rfl | rfl | rfl | rfl | rfl | rfl | rfl | rfl | rfl | rfl | rfl | rfl | rfl | rfl | rfl | rfl | rfl | rfl
  · exact ctxSel1_ok
  · exact ctxSel2a_ok
  · exact ctxSel2b_ok
  · exact ctxSel3a_ok
  · exact ctxSel3b_ok
  · exact ctxSel3c_ok
  · exact ctxSelN1_ok
  · exact ctxSelN2_ok
  · exact ctxSelN3_ok
  · exact ctxFrom1_ok
  · exact ctxFrom2a_ok
  · exact ctxFrom2b_ok
  · exact ctxFrom3_ok
  · exact ctxJoin_ok
  · exact ctxUpdate_ok
  · exact ctxInsert_ok
  · exact ctxSubFromSel_ok
  · exact ctxSubFromFrom_ok
  · exact ctxSubSel_ok
  exact List.all_eq_true.1 key _ (List.mem_map.2 ⟨r, hr, rfl⟩)

end Acc
end Sql
