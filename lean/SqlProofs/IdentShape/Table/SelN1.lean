import SqlProofs.IdentShape.Contexts
/-! skeleton table, context `ctxSelN1`: 30 reference spellings, decided by kernel evaluation of the real lexer rules,
`groupStatement` and `parseIdent` (three chunks of ten) -/
namespace Sql
namespace Acc

set_option maxRecDepth 1000000 in
theorem ctxSelN1_a : ((skelsOf ctxSelN1).take 10).all skelCheck = true := by decide +kernel
set_option maxRecDepth 1000000 in
theorem ctxSelN1_b : (((skelsOf ctxSelN1).drop 10).take 10).all skelCheck = true := by decide +kernel
set_option maxRecDepth 1000000 in
theorem ctxSelN1_c : ((skelsOf ctxSelN1).drop 20).all skelCheck = true := by decide +kernel

theorem ctxSelN1_ok : (skelsOf ctxSelN1).all skelCheck = true := all_of_chunks _ ctxSelN1_a ctxSelN1_b ctxSelN1_c

end Acc
end Sql
