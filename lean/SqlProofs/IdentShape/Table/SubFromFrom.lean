import SqlProofs.IdentShape.Contexts
import SqlProofs.IdentShape.Table.SubFromSel  -- build-order only: the decided lemmas need ~4 GB each, at most four run at a time
/-! skeleton table, context `ctxSubFromFrom`: 30 reference spellings, decided by kernel evaluation of the real lexer rules,
`groupStatement` and `parseIdent` (three chunks of ten) -/
namespace Sql
namespace Acc

set_option maxRecDepth 1000000 in
theorem ctxSubFromFrom_a : ((skelsOf ctxSubFromFrom).take 10).all skelCheck = true := by decide +kernel
set_option maxRecDepth 1000000 in
theorem ctxSubFromFrom_b : (((skelsOf ctxSubFromFrom).drop 10).take 10).all skelCheck = true := by decide +kernel
set_option maxRecDepth 1000000 in
theorem ctxSubFromFrom_c : ((skelsOf ctxSubFromFrom).drop 20).all skelCheck = true := by decide +kernel

theorem ctxSubFromFrom_ok : (skelsOf ctxSubFromFrom).all skelCheck = true := all_of_chunks _ ctxSubFromFrom_a ctxSubFromFrom_b ctxSubFromFrom_c

end Acc
end Sql
