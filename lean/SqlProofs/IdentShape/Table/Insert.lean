import SqlProofs.IdentShape.Contexts
import SqlProofs.IdentShape.Table.Update  -- build-order only: the decided lemmas need ~4 GB each, at most four run at a time
/-! skeleton table, context `ctxInsert`: 30 reference spellings, decided by kernel evaluation of the real lexer rules,
`groupStatement` and `parseIdent` (three chunks of ten) -/
namespace Sql
namespace Acc

set_option maxRecDepth 1000000 in
theorem ctxInsert_a : ((skelsOf ctxInsert).take 10).all skelCheck = true := by decide +kernel
set_option maxRecDepth 1000000 in
theorem ctxInsert_b : (((skelsOf ctxInsert).drop 10).take 10).all skelCheck = true := by decide +kernel
set_option maxRecDepth 1000000 in
theorem ctxInsert_c : ((skelsOf ctxInsert).drop 20).all skelCheck = true := by decide +kernel

theorem ctxInsert_ok : (skelsOf ctxInsert).all skelCheck = true := all_of_chunks _ ctxInsert_a ctxInsert_b ctxInsert_c

end Acc
end Sql
