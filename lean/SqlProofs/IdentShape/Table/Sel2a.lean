import SqlProofs.IdentShape.Contexts
import SqlProofs.IdentShape.Table.Sel1  -- build-order only: the decided lemmas need ~4 GB each, at most four run at a time
/-! skeleton table, context `ctxSel2a`: 30 reference spellings, decided by kernel evaluation of the real lexer rules,
`groupStatement` and `parseIdent` (three chunks of ten) -/
namespace Sql
namespace Acc

set_option maxRecDepth 1000000 in
theorem ctxSel2a_a : ((skelsOf ctxSel2a).take 10).all skelCheck = true := by decide +kernel
set_option maxRecDepth 1000000 in
theorem ctxSel2a_b : (((skelsOf ctxSel2a).drop 10).take 10).all skelCheck = true := by decide +kernel
set_option maxRecDepth 1000000 in
theorem ctxSel2a_c : ((skelsOf ctxSel2a).drop 20).all skelCheck = true := by decide +kernel

theorem ctxSel2a_ok : (skelsOf ctxSel2a).all skelCheck = true := all_of_chunks _ ctxSel2a_a ctxSel2a_b ctxSel2a_c

end Acc
end Sql
