import SqlProofs.IdentShape.Contexts
import SqlProofs.IdentShape.Table.From2a  -- build-order only: the decided lemmas need ~4 GB each, at most four run at a time
/-! skeleton table, context `ctxFrom2b`: 30 reference spellings, decided by kernel evaluation of the real lexer rules,
`groupStatement` and `parseIdent` (three chunks of ten) -/
namespace Sql
namespace Acc

set_option maxRecDepth 1000000 in
theorem ctxFrom2b_a : ((skelsOf ctxFrom2b).take 10).all skelCheck = true := by decide +kernel
set_option maxRecDepth 1000000 in
theorem ctxFrom2b_b : (((skelsOf ctxFrom2b).drop 10).take 10).all skelCheck = true := by decide +kernel
set_option maxRecDepth 1000000 in
theorem ctxFrom2b_c : ((skelsOf ctxFrom2b).drop 20).all skelCheck = true := by decide +kernel

theorem ctxFrom2b_ok : (skelsOf ctxFrom2b).all skelCheck = true := all_of_chunks _ ctxFrom2b_a ctxFrom2b_b ctxFrom2b_c

end Acc
end Sql
