import SqlProofs.IdentShape.Contexts
import SqlProofs.IdentShape.Table.SelN3  -- build-order only: the decided lemmas need ~4 GB each, at most four run at a time
/-! skeleton table, context `ctxUpdate`: 30 reference spellings, decided by kernel evaluation of the real lexer rules,
`groupStatement` and `parseIdent` (three chunks of ten) -/
namespace Sql
namespace Acc

set_option maxRecDepth 1000000 in
theorem ctxUpdate_a : ((skelsOf ctxUpdate).take 10).all skelCheck = true := by decide +kernel
set_option maxRecDepth 1000000 in
theorem ctxUpdate_b : (((skelsOf ctxUpdate).drop 10).take 10).all skelCheck = true := by decide +kernel
set_option maxRecDepth 1000000 in
theorem ctxUpdate_c : ((skelsOf ctxUpdate).drop 20).all skelCheck = true := by decide +kernel

theorem ctxUpdate_ok : (skelsOf ctxUpdate).all skelCheck = true := all_of_chunks _ ctxUpdate_a ctxUpdate_b ctxUpdate_c

end Acc
end Sql
