import SqlProofs.IdentShape.Contexts
import SqlProofs.IdentShape.Table.From1  -- build-order only: the decided lemmas need ~4 GB each, at most four run at a time
/-! skeleton table, context `ctxFrom2a`: 30 reference spellings, decided by kernel evaluation of the real lexer rules,
`groupStatement` and `parseIdent` (three chunks of ten) -/
namespace Sql
namespace Acc

set_option maxRecDepth 1000000 in
theorem ctxFrom2a_a : ((skelsOf ctxFrom2a).take 10).all skelCheck = true := by decide +kernel
set_option maxRecDepth 1000000 in
theorem ctxFrom2a_b : (((skelsOf ctxFrom2a).drop 10).take 10).all skelCheck = true := by decide +kernel
set_option maxRecDepth 1000000 in
theorem ctxFrom2a_c : ((skelsOf ctxFrom2a).drop 20).all skelCheck = true := by decide +kernel

theorem ctxFrom2a_ok : (skelsOf ctxFrom2a).all skelCheck = true := all_of_chunks _ ctxFrom2a_a ctxFrom2a_b ctxFrom2a_c

end Acc
end Sql
