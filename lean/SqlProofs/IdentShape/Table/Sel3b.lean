import SqlProofs.IdentShape.Contexts
import SqlProofs.IdentShape.Table.Sel3a  -- build-order only: the decided lemmas need ~4 GB each, at most four run at a time
/-! skeleton table, context `ctxSel3b`: 30 reference spellings, decided by kernel evaluation of the real lexer rules,
`groupStatement` and `parseIdent` (three chunks of ten) -/
namespace Sql
namespace Acc

set_option maxRecDepth 1000000 in
theorem ctxSel3b_a : ((skelsOf ctxSel3b).take 10).all skelCheck = true := by decide +kernel
set_option maxRecDepth 1000000 in
theorem ctxSel3b_b : (((skelsOf ctxSel3b).drop 10).take 10).all skelCheck = true := by decide +kernel
set_option maxRecDepth 1000000 in
theorem ctxSel3b_c : ((skelsOf ctxSel3b).drop 20).all skelCheck = true := by decide +kernel

theorem ctxSel3b_ok : (skelsOf ctxSel3b).all skelCheck = true := all_of_chunks _ ctxSel3b_a ctxSel3b_b ctxSel3b_c

end Acc
end Sql
