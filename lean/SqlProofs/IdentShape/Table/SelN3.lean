import SqlProofs.IdentShape.Contexts
import SqlProofs.IdentShape.Table.Sel3c  -- build-order only: the decided lemmas need ~4 GB each, at most four run at a time
/-! skeleton table, context `ctxSelN3`: 30 reference spellings, decided by kernel evaluation of the real lexer rules,
`groupStatement` and `parseIdent` (three chunks of ten) -/
namespace Sql
namespace Acc

set_option maxRecDepth 1000000 in
theorem ctxSelN3_a : ((skelsOf ctxSelN3).take 10).all skelCheck = true := by decide +kernel
set_option maxRecDepth 1000000 in
theorem ctxSelN3_b : (((skelsOf ctxSelN3).drop 10).take 10).all skelCheck = true := by decide +kernel
set_option maxRecDepth 1000000 in
theorem ctxSelN3_c : ((skelsOf ctxSelN3).drop 20).all skelCheck = true := by decide +kernel

theorem ctxSelN3_ok : (skelsOf ctxSelN3).all skelCheck = true := all_of_chunks _ ctxSelN3_a ctxSelN3_b ctxSelN3_c

end Acc
end Sql
