import SqlProofs.IdentShape.Contexts
import SqlProofs.IdentShape.Table.SelN1  -- build-order only: the decided lemmas need ~4 GB each, at most four run at a time
/-! skeleton table, context `ctxSel3c`: 30 reference spellings, decided by kernel evaluation of the real lexer rules,
`groupStatement` and `parseIdent` (three chunks of ten) -/
namespace Sql
namespace Acc

set_option maxRecDepth 1000000 in
theorem ctxSel3c_a : ((skelsOf ctxSel3c).take 10).all skelCheck = true := by decide +kernel
set_option maxRecDepth 1000000 in
theorem ctxSel3c_b : (((skelsOf ctxSel3c).drop 10).take 10).all skelCheck = true := by decide +kernel
set_option maxRecDepth 1000000 in
theorem ctxSel3c_c : ((skelsOf ctxSel3c).drop 20).all skelCheck = true := by decide +kernel

theorem ctxSel3c_ok : (skelsOf ctxSel3c).all skelCheck = true := all_of_chunks _ ctxSel3c_a ctxSel3c_b ctxSel3c_c

end Acc
end Sql
