import SqlProofs.IdentShape.Contexts
import SqlProofs.IdentShape.Table.SelN2  -- build-order only: the decided lemmas need ~4 GB each, at most four run at a time
/-! skeleton table, context `ctxSubFromSel`: 30 reference spellings, decided by kernel evaluation of the real lexer rules,
`groupStatement` and `parseIdent` (three chunks of ten) -/
namespace Sql
namespace Acc

set_option maxRecDepth 1000000 in
theorem ctxSubFromSel_a : ((skelsOf ctxSubFromSel).take 10).all skelCheck = true := by decide +kernel
set_option maxRecDepth 1000000 in
theorem ctxSubFromSel_b : (((skelsOf ctxSubFromSel).drop 10).take 10).all skelCheck = true := by decide +kernel
set_option maxRecDepth 1000000 in
theorem ctxSubFromSel_c : ((skelsOf ctxSubFromSel).drop 20).all skelCheck = true := by decide +kernel

theorem ctxSubFromSel_ok : (skelsOf ctxSubFromSel).all skelCheck = true := all_of_chunks _ ctxSubFromSel_a ctxSubFromSel_b ctxSubFromSel_c

end Acc
end Sql
