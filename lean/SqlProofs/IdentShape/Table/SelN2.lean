import SqlProofs.IdentShape.Contexts
/-! skeleton table, context `ctxSelN2`: 30 reference spellings, decided by kernel evaluation of the real lexer rules,
`groupStatement` and `parseIdent` (three chunks of ten) -/
namespace Sql
namespace Acc

set_option maxRecDepth 1000000 in
theorem ctxSelN2_a : ((skelsOf ctxSelN2).take 10).all skelCheck = true := by decide +kernel
set_option maxRecDepth 1000000 in
theorem ctxSelN2_b : (((skelsOf ctxSelN2).drop 10).take 10).all skelCheck = true := by decide +kernel
set_option maxRecDepth 1000000 in
theorem ctxSelN2_c : ((skelsOf ctxSelN2).drop 20).all skelCheck = true := by decide +kernel

theorem ctxSelN2_ok : (skelsOf ctxSelN2).all skelCheck = true := all_of_chunks _ ctxSelN2_a ctxSelN2_b ctxSelN2_c

end Acc
end Sql
