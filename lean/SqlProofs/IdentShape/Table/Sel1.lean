import SqlProofs.IdentShape.Contexts
/-! skeleton table, context `ctxSel1`: 30 reference spellings, decided by kernel evaluation of the real lexer rules,
`groupStatement` and `parseIdent` (three chunks of ten) -/
namespace Sql
namespace Acc

set_option maxRecDepth 1000000 in
theorem ctxSel1_a : ((skelsOf ctxSel1).take 10).all skelCheck = true := by decide +kernel
set_option maxRecDepth 1000000 in
theorem ctxSel1_b : (((skelsOf ctxSel1).drop 10).take 10).all skelCheck = true := by decide +kernel
set_option maxRecDepth 1000000 in
theorem ctxSel1_c : ((skelsOf ctxSel1).drop 20).all skelCheck = true := by decide +kernel

theorem ctxSel1_ok : (skelsOf ctxSel1).all skelCheck = true := all_of_chunks _ ctxSel1_a ctxSel1_b ctxSel1_c

end Acc
end Sql
