import SqlProofs.IdentShape.Contexts
import SqlProofs.IdentShape.Table.From2b  -- build-order only: the decided lemmas need ~4 GB each, at most four run at a time
/-! skeleton table, context `ctxFrom3`: 30 reference spellings, decided by kernel evaluation of the real lexer rules,
`groupStatement` and `parseIdent` (three chunks of ten) -/
namespace Sql
namespace Acc

set_option maxRecDepth 1000000 in
theorem ctxFrom3_a : ((skelsOf ctxFrom3).take 10).all skelCheck = true := by decide +kernel
set_option maxRecDepth 1000000 in
theorem ctxFrom3_b : (((skelsOf ctxFrom3).drop 10).take 10).all skelCheck = true := by decide +kernel
set_option maxRecDepth 1000000 in
theorem ctxFrom3_c : ((skelsOf ctxFrom3).drop 20).all skelCheck = true := by decide +kernel

theorem ctxFrom3_ok : (skelsOf ctxFrom3).all skelCheck = true := all_of_chunks _ ctxFrom3_a ctxFrom3_b ctxFrom3_c

end Acc
end Sql
