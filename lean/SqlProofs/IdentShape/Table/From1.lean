import SqlProofs.IdentShape.Contexts
/-! skeleton table, context `ctxFrom1`: 30 reference spellings, decided by kernel evaluation of the real lexer rules,
`groupStatement` and `parseIdent` (three chunks of ten) -/
namespace Sql
namespace Acc

set_option maxRecDepth 1000000 in
theorem ctxFrom1_a : ((skelsOf ctxFrom1).take 10).all skelCheck = true := by decide +kernel
set_option maxRecDepth 1000000 in
theorem ctxFrom1_b : (((skelsOf ctxFrom1).drop 10).take 10).all skelCheck = true := by decide +kernel
set_option maxRecDepth 1000000 in
theorem ctxFrom1_c : ((skelsOf ctxFrom1).drop 20).all skelCheck = true := by decide +kernel

theorem ctxFrom1_ok : (skelsOf ctxFrom1).all skelCheck = true := all_of_chunks _ ctxFrom1_a ctxFrom1_b ctxFrom1_c

end Acc
end Sql
