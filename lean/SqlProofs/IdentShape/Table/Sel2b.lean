import SqlProofs.IdentShape.Contexts
import SqlProofs.IdentShape.Table.Sel2a  -- build-order only: the decided lemmas need ~4 GB each, at most four run at a time
/-! skeleton table, context `ctxSel2b`: 30 reference spellings, decided by kernel evaluation of the real lexer rules,
`groupStatement` and `parseIdent` (three chunks of ten) -/
namespace Sql
namespace Acc

set_option maxRecDepth 1000000 in
theorem ctxSel2b_a : ((skelsOf ctxSel2b).take 10).all skelCheck = true := by decide +kernel
set_option maxRecDepth 1000000 in
theorem ctxSel2b_b : (((skelsOf ctxSel2b).drop 10).take 10).all skelCheck = true := by decide +kernel
set_option maxRecDepth 1000000 in
theorem ctxSel2b_c : ((skelsOf ctxSel2b).drop 20).all skelCheck = true := by decide +kernel

theorem ctxSel2b_ok : (skelsOf ctxSel2b).all skelCheck = true := all_of_chunks _ ctxSel2b_a ctxSel2b_b ctxSel2b_c

end Acc
end Sql
