import SqlProofs.IdentShape.Contexts
import SqlProofs.IdentShape.Table.SubFromFrom  -- build-order only: the decided lemmas need ~4 GB each, at most four run at a time
/-! skeleton table, context `ctxSubSel`: 30 reference spellings, decided by kernel evaluation of the real lexer rules,
`groupStatement` and `parseIdent` (three chunks of ten) -/
namespace Sql
namespace Acc

set_option maxRecDepth 1000000 in
theorem ctxSubSel_a : ((skelsOf ctxSubSel).take 10).all skelCheck = true := by decide +kernel
set_option maxRecDepth 1000000 in
theorem ctxSubSel_b : (((skelsOf ctxSubSel).drop 10).take 10).all skelCheck = true := by decide +kernel
set_option maxRecDepth 1000000 in
theorem ctxSubSel_c : ((skelsOf ctxSubSel).drop 20).all skelCheck = true := by decide +kernel

theorem ctxSubSel_ok : (skelsOf ctxSubSel).all skelCheck = true := all_of_chunks _ ctxSubSel_a ctxSubSel_b ctxSubSel_c

end Acc
end Sql
