import SqlProofs.IdentShape.Contexts
import SqlProofs.IdentShape.Table.Sel2b  -- build-order only: the decided lemmas need ~4 GB each, at most four run at a time
/-! skeleton table, context `ctxSel3a`: 30 reference spellings, decided by kernel evaluation of the real lexer rules,
`groupStatement` and `parseIdent` (three chunks of ten) -/
namespace Sql
namespace Acc

set_option maxRecDepth 1000000 in
theorem ctxSel3a_a : ((skelsOf ctxSel3a).take 10).all skelCheck = true := by decide +kernel
set_option maxRecDepth 1000000 in
theorem ctxSel3a_b : (((skelsOf ctxSel3a).drop 10).take 10).all skelCheck = true := by decide +kernel
set_option maxRecDepth 1000000 in
theorem ctxSel3a_c : ((skelsOf ctxSel3a).drop 20).all skelCheck = true := by decide +kernel

theorem ctxSel3a_ok : (skelsOf ctxSel3a).all skelCheck = true := all_of_chunks _ ctxSel3a_a ctxSel3a_b ctxSel3a_c

end Acc
end Sql
