import SqlProofs.IdentShape.Contexts
import SqlProofs.IdentShape.Table.From3  -- build-order only: the decided lemmas need ~4 GB each, at most four run at a time
/-! skeleton table, context `ctxJoin`: 30 reference spellings, decided by kernel evaluation of the real lexer rules,
`groupStatement` and `parseIdent` (three chunks of ten) -/
namespace Sql
namespace Acc

set_option maxRecDepth 1000000 in
theorem ctxJoin_a : ((skelsOf ctxJoin).take 10).all skelCheck = true := by decide +kernel
set_option maxRecDepth 1000000 in
theorem ctxJoin_b : (((skelsOf ctxJoin).drop 10).take 10).all skelCheck = true := by decide +kernel
set_option maxRecDepth 1000000 in
theorem ctxJoin_c : ((skelsOf ctxJoin).drop 20).all skelCheck = true := by decide +kernel

theorem ctxJoin_ok : (skelsOf ctxJoin).all skelCheck = true := all_of_chunks _ ctxJoin_a ctxJoin_b ctxJoin_c

end Acc
end Sql
